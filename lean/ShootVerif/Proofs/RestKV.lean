import ShootVerif.Proofs.RestParse
import ShootVerif.Proofs.Rest
/-!
The remaining recognisers of cook.go against declarative specifications: what a directive WRITTEN
in the documented form means is what the recogniser reads (render ↦ parse = identity), for

* `parseKV`        — `{k:v}` groups separated by arbitrary brace-free text,
* `parseAlias`     — `shoot: alias={p:a},{q:b}` with an optional `;…` tail, on any line of the doc,
* `parseHeaders`   — `shoot: headers={K:v},{K2:v2}` on one line and continued on following lines,
* `parseFieldAlias`— `alias=x` inside the value of the `shoot` struct tag.

(The recognisers themselves are tied to the real regexps by the in-process differential leg
tools/vlib/restleg.py on random and rendered texts.)
-/
namespace ShootVerif.Rest

/-- a key as the directive grammar writes it: non-empty, letters/digits/`_`/`-`/`|` -/
def CleanKey (k : List Char) : Prop := k ≠ [] ∧ ∀ c ∈ k, isKeyChar c = true

/-- a value: non-empty, does not start with a blank (leading punctuation is fine), has no `}` and no newline -/
def CleanVal (v : List Char) : Prop :=
  (∃ a as, v = a :: as ∧ isReSpace a = false) ∧ (∀ c ∈ v, c ≠ '}') ∧ (∀ c ∈ v, c ≠ '\n')

def renderKV (kv : List Char × List Char) : List Char := '{' :: (kv.1 ++ ':' :: (kv.2 ++ ['}']))

theorem takeWhile_append_stop {q : Char → Bool} (l : List Char) (c : Char) (r : List Char)
    (hl : ∀ x ∈ l, q x = true) (hc : q c = false) : (l ++ c :: r).takeWhile q = l := by
  rw [List.takeWhile_append_of_pos hl]; simp [List.takeWhile_cons, hc]

theorem dropWhile_append_stop {q : Char → Bool} (l : List Char) (c : Char) (r : List Char)
    (hl : ∀ x ∈ l, q x = true) (hc : q c = false) : (l ++ c :: r).dropWhile q = c :: r := by
  rw [List.dropWhile_append_of_pos hl]; simp [List.dropWhile_cons, hc]

theorem kvValueAt_clean (v rest : List Char) (hne : v ≠ []) (hv : ∀ c ∈ v, c ≠ '}') :
    kvValueAt (v ++ '}' :: rest) = some (v, rest) := by
  have h1 : (v ++ '}' :: rest).dropWhile (· != '}') = '}' :: rest :=
    dropWhile_append_stop v '}' rest (fun x hx => by simpa using hv x hx) (by simp)
  have h2 : (v ++ '}' :: rest).takeWhile (· != '}') = v :=
    takeWhile_append_stop v '}' rest (fun x hx => by simpa using hv x hx) (by simp)
  unfold kvValueAt
  rw [h1, h2]
  cases v with
  | nil => exact absurd rfl hne
  | cons a as => simp

/-- one `{k:v}` group is read as the pair (k, v) -/
theorem matchKV_render (k v rest : List Char) (hk : CleanKey k) (hv : CleanVal v) :
    matchKV (k ++ ':' :: (v ++ '}' :: rest)) = some (k, v, rest) := by
  obtain ⟨⟨a, as, rfl, ha⟩, hbr, _⟩ := hv
  have hcolon : isKeyChar ':' = false := by decide
  have h1 : (k ++ ':' :: ((a :: as) ++ '}' :: rest)).takeWhile isKeyChar = k :=
    takeWhile_append_stop k ':' _ hk.2 hcolon
  have h2 : (k ++ ':' :: ((a :: as) ++ '}' :: rest)).dropWhile isKeyChar = ':' :: ((a :: as) ++ '}' :: rest) :=
    dropWhile_append_stop k ':' _ hk.2 hcolon
  have hw : isReSpace ':' = false := by decide
  have h2' : (':' :: ((a :: as) ++ '}' :: rest)).dropWhile isReSpace = ':' :: ((a :: as) ++ '}' :: rest) := by
    simp [List.dropWhile_cons, hw]
  have h3 : ((a :: as) ++ '}' :: rest).takeWhile isReSpace = [] := by
    simp [List.takeWhile_cons, ha]
  have h4 : ((a :: as) ++ '}' :: rest).dropWhile isReSpace = (a :: as) ++ '}' :: rest := by
    simp [List.dropWhile_cons, ha]
  have hkne : k.isEmpty = false := by
    cases k with
    | nil => exact absurd rfl hk.1
    | cons x xs => rfl
  unfold matchKV
  simp only [h1, h2, h2', h3, h4, hkne, Bool.false_eq_true, ↓reduceIte, List.reverse_nil]
  have h5 : kvAfterColon [] [] ((a :: as) ++ '}' :: rest) = some (a :: as, rest) := by
    unfold kvAfterColon
    simp only [List.nil_append]
    rw [kvValueAt_clean (a :: as) rest (by simp) hbr]
  rw [h5]

def NoOpenBrace (j : List Char) : Prop := ∀ c ∈ j, c ≠ '{'

/-- brace-free text is skipped, one unit of fuel per character -/
theorem parseKVAux_skip (j s : List Char) (n : Nat) (hj : NoOpenBrace j) :
    parseKVAux (n + j.length) (j ++ s) = parseKVAux n s := by
  induction j with
  | nil => rfl
  | cons c cs ih =>
    have hc : (c == '{') = false := by simpa using hj c (by simp)
    have : n + (c :: cs).length = (n + cs.length) + 1 := by simp [Nat.add_assoc]
    rw [this]
    simp only [List.cons_append, parseKVAux, hc, Bool.false_eq_true, ↓reduceIte]
    exact ih (fun x hx => hj x (by simp [hx]))

theorem parseKVAux_group (k v rest : List Char) (n : Nat) (hk : CleanKey k) (hv : CleanVal v) :
    parseKVAux (n + 1) (renderKV (k, v) ++ rest) = (k, v) :: parseKVAux n rest := by
  have : renderKV (k, v) ++ rest = '{' :: (k ++ ':' :: (v ++ '}' :: rest)) := by simp [renderKV]
  rw [this]
  simp only [parseKVAux, beq_self_eq_true, ↓reduceIte, matchKV_render k v rest hk hv]

/-- groups, each followed by brace-free text `j` (`,`, blanks, line ends, …) -/
def renderGroups : List ((List Char × List Char) × List Char) → List Char
  | [] => []
  | (kv, j) :: rest => renderKV kv ++ j ++ renderGroups rest

def GroupsClean (gs : List ((List Char × List Char) × List Char)) : Prop :=
  ∀ g ∈ gs, CleanKey g.1.1 ∧ CleanVal g.1.2 ∧ NoOpenBrace g.2

theorem parseKVAux_groups (gs : List ((List Char × List Char) × List Char)) (hg : GroupsClean gs) :
    ∀ fuel, fuel ≥ (renderGroups gs).length + 1 → parseKVAux fuel (renderGroups gs) = gs.map (·.1) := by
  induction gs with
  | nil =>
    intro fuel hf
    cases fuel with
    | zero => simp [renderGroups] at hf
    | succ n => simp [renderGroups, parseKVAux]
  | cons g gs ih =>
    intro fuel hf
    obtain ⟨⟨k, v⟩, j⟩ := g
    obtain ⟨hk, hv, hj⟩ := hg ((k, v), j) (by simp)
    have hg' : GroupsClean gs := fun x hx => hg x (by simp [hx])
    simp only [renderGroups, List.length_append] at hf
    -- fuel = n + |j| + 1 with n ≥ |rest| + 1
    obtain ⟨n, rfl⟩ : ∃ n, fuel = (n + j.length) + 1 := ⟨fuel - j.length - 1, by omega⟩
    have hn : n ≥ (renderGroups gs).length + 1 := by
      have : (renderKV (k, v)).length ≥ 1 := by simp [renderKV]
      omega
    simp only [renderGroups, List.append_assoc]
    rw [parseKVAux_group k v _ _ hk hv, parseKVAux_skip j _ n hj, ih hg' n hn]
    rfl

/-- the declarative specification of `parseKV`: a text written as `pre {k₁:v₁} j₁ {k₂:v₂} j₂ …`
    (brace-free `pre`, `jᵢ`) means the pairs (kᵢ, vᵢ), in order -/
theorem parseKV_render (pre : List Char) (gs : List ((List Char × List Char) × List Char))
    (hpre : NoOpenBrace pre) (hg : GroupsClean gs) :
    parseKV (pre ++ renderGroups gs) = gs.map (·.1) := by
  unfold parseKV
  have : (pre ++ renderGroups gs).length + 1 = ((renderGroups gs).length + 1) + pre.length := by
    simp [List.length_append]; omega
  rw [this, parseKVAux_skip pre _ _ hpre]
  exact parseKVAux_groups gs hg _ (Nat.le_refl _)

/-! ### parseAlias -/

theorem NoOpenBrace.noSemi_of {l : List Char} (h : ∀ c ∈ l, c ≠ ';' ∧ c ≠ '\n') :
    l.takeWhile (fun c => c != ';' && c != '\n') = l := by
  induction l with
  | nil => rfl
  | cons c cs ih =>
    have := h c (by simp)
    simp [List.takeWhile_cons, this.1, this.2, ih (fun x hx => h x (by simp [hx]))]

/-- the alias pattern at the start of a line `shoot: alias=<g>` followed by `;…` / end of line:
    group 1 is `g` (any non-empty text without `;` and newline) -/
theorem matchAliasAt_render (g tail rest : List Char) (hne : g ≠ [])
    (hg : ∀ c ∈ g, c ≠ ';' ∧ c ≠ '\n')
    (ht : tail = [] ∨ ∃ t, tail = ';' :: t) :
    matchAliasAt (shootColon ++ ' ' :: (aliasEq ++ g ++ tail ++ '\n' :: rest)) = some g := by
  have e1 : stripPrefix shootColon (shootColon ++ ' ' :: (aliasEq ++ g ++ tail ++ '\n' :: rest))
      = some (' ' :: (aliasEq ++ g ++ tail ++ '\n' :: rest)) := stripPrefix_self_append _ _
  have e2 : stripPrefix aliasEq (aliasEq ++ g ++ tail ++ '\n' :: rest) = some (g ++ tail ++ '\n' :: rest) := by
    have := stripPrefix_self_append aliasEq (g ++ tail ++ '\n' :: rest)
    simpa [List.append_assoc] using this
  have hsp : isWord ' ' = false := by decide
  have e3 : (g ++ tail ++ '\n' :: rest).takeWhile (fun c => c != ';' && c != '\n') = g := by
    rcases ht with rfl | ⟨t, rfl⟩
    · simp only [List.append_nil]
      exact takeWhile_append_stop g '\n' rest (fun x hx => by simp [(hg x hx).1, (hg x hx).2]) (by simp)
    · have : g ++ ';' :: t ++ '\n' :: rest = g ++ ';' :: (t ++ '\n' :: rest) := by simp
      rw [this]
      exact takeWhile_append_stop g ';' _ (fun x hx => by simp [(hg x hx).1, (hg x hx).2]) (by simp)
  have hge : g.isEmpty = false := by
    cases g with
    | nil => exact absurd rfl hne
    | cons x xs => rfl
  simp only [matchAliasAt, e1, findAliasArg, hsp, Bool.not_false, ↓reduceIte, e2, e3, hge, Bool.false_eq_true]

/-- a line at which a pattern does not match is passed over -/
theorem firstAtLineStart_skip {α : Type} (f : List Char → Option α) (l d : List Char)
    (hl : ∀ c ∈ l, c ≠ '\n') (hf : f (l ++ '\n' :: d) = none) :
    firstAtLineStart f true (l ++ '\n' :: d) = firstAtLineStart f true d := by
  -- after the first position no other position of `l` is a line start
  have inner : ∀ (l' : List Char), (∀ c ∈ l', c ≠ '\n') →
      firstAtLineStart f false (l' ++ '\n' :: d) = firstAtLineStart f true d := by
    intro l' hl'
    induction l' with
    | nil => simp [firstAtLineStart]
    | cons c cs ih =>
      have hc : (c == '\n') = false := by simpa using hl' c (by simp)
      simp only [List.cons_append, firstAtLineStart, Bool.false_eq_true, ↓reduceIte, hc]
      exact ih (fun x hx => hl' x (by simp [hx]))
  cases l with
  | nil => simp only [List.nil_append] at hf ⊢; simp [firstAtLineStart, hf]
  | cons c cs =>
    have hc : (c == '\n') = false := by simpa using hl c (by simp)
    simp only [List.cons_append] at hf
    simp only [List.cons_append, firstAtLineStart, ↓reduceIte, hf, hc]
    exact inner cs (fun x hx => hl x (by simp [hx]))

theorem renderGroups_ne_nil (gs : List ((List Char × List Char) × List Char)) (hne : gs ≠ []) :
    renderGroups gs ≠ [] := by
  cases gs with
  | nil => exact absurd rfl hne
  | cons g gs' => obtain ⟨kv, j⟩ := g; simp [renderGroups, renderKV]

/-- characters of a rendered group list: those of its keys, values, separators, and `{` `:` `}` -/
theorem renderGroups_chars (gs : List ((List Char × List Char) × List Char)) (q : Char → Prop)
    (hq : q '{' ∧ q ':' ∧ q '}')
    (hk : ∀ g ∈ gs, ∀ c ∈ g.1.1, q c) (hv : ∀ g ∈ gs, ∀ c ∈ g.1.2, q c) (hj : ∀ g ∈ gs, ∀ c ∈ g.2, q c) :
    ∀ c ∈ renderGroups gs, q c := by
  induction gs with
  | nil => intro c hc; cases hc
  | cons g gs' ih =>
    obtain ⟨⟨k, v⟩, j⟩ := g
    intro c hc
    simp only [renderGroups, renderKV, List.mem_append, List.mem_cons, List.not_mem_nil, or_false] at hc
    rcases hc with ((hc | hc | hc | hc | hc) | hc) | hc
    · subst hc; exact hq.1
    · exact hk ((k, v), j) (by simp) c hc
    · subst hc; exact hq.2.1
    · exact hv ((k, v), j) (by simp) c hc
    · subst hc; exact hq.2.2
    · exact hj ((k, v), j) (by simp) c hc
    · exact ih (fun x hx => hk x (by simp [hx])) (fun x hx => hv x (by simp [hx]))
        (fun x hx => hj x (by simp [hx])) c hc

theorem keyChar_props (k : List Char) (hk : CleanKey k) : ∀ c ∈ k, c ≠ ';' ∧ c ≠ '\n' := by
  intro c hc
  have := hk.2 c hc
  constructor <;> (intro e; subst e; simp [isKeyChar, isWord] at this)

/-- the declarative specification of `parseAlias`, the directive on the first line: a line
    `shoot: alias={p₁:a₁},{p₂:a₂}…` with an optional `;…` tail means the pairs (pᵢ, aᵢ) -/
theorem parseAlias_render (gs : List ((List Char × List Char) × List Char)) (tail rest : List Char)
    (hg : GroupsClean gs) (hne : gs ≠ [])
    (hsep : ∀ g ∈ gs, ∀ c ∈ g.2, c ≠ ';' ∧ c ≠ '\n')
    (hval : ∀ g ∈ gs, ∀ c ∈ g.1.2, c ≠ ';')
    (ht : tail = [] ∨ ∃ t, tail = ';' :: t) :
    parseAlias (shootColon ++ ' ' :: (aliasEq ++ renderGroups gs ++ tail ++ '\n' :: rest)) = some (gs.map (·.1)) := by
  have hgc : ∀ c ∈ renderGroups gs, c ≠ ';' ∧ c ≠ '\n' :=
    renderGroups_chars gs (fun c => c ≠ ';' ∧ c ≠ '\n') ⟨⟨by decide, by decide⟩, ⟨by decide, by decide⟩, ⟨by decide, by decide⟩⟩
      (fun g hgm => keyChar_props g.1.1 (hg g hgm).1)
      (fun g hgm c hc => ⟨hval g hgm c hc, (hg g hgm).2.1.2.2 c hc⟩)
      hsep
  unfold parseAlias
  rw [firstAtLineStart_here _ _ _ (matchAliasAt_render (renderGroups gs) tail rest (renderGroups_ne_nil gs hne) hgc ht)]
  simp only [Option.map_some, Option.some.injEq]
  have := parseKV_render [] gs (by intro c hc; cases hc) hg
  simpa using this

/-- … and on a later line: a line at which the alias pattern does not match (e.g. the request
    directive) is passed over -/
theorem parseAlias_skip_line (l d : List Char) (hl : ∀ c ∈ l, c ≠ '\n')
    (hf : matchAliasAt (l ++ '\n' :: d) = none) : parseAlias (l ++ '\n' :: d) = parseAlias d := by
  unfold parseAlias
  rw [firstAtLineStart_skip _ _ _ hl hf]

/-! ### parseFieldAlias -/

theorem stripPrefix_aliasEq_none (c : Char) (cs : List Char) (h : c ≠ 'a') : stripPrefix aliasEq (c :: cs) = none := by
  have : ('a' == c) = false := by simpa using fun e => h e.symm
  simp [aliasEq, stripPrefix, this]

/-- the declarative specification of `parseFieldAlias`: in a tag value `pre alias=w rest` (no `a` in
    `pre`, `w` a non-empty word, `rest` not continuing the word) the alias is `w` -/
theorem parseFieldAlias_render (pre w rest : List Char) (hpre : ∀ c ∈ pre, c ≠ 'a')
    (hw : w ≠ [] ∧ ∀ c ∈ w, isWord c = true) (hrest : ∀ c ∈ rest.head?, isWord c = false) :
    parseFieldAlias (pre ++ aliasEq ++ w ++ rest) = w := by
  unfold parseFieldAlias
  have hmain : findFieldAlias (aliasEq ++ w ++ rest) = some w := by
    have e1 : stripPrefix aliasEq (aliasEq ++ w ++ rest) = some (w ++ rest) := by
      have := stripPrefix_self_append aliasEq (w ++ rest)
      simpa [List.append_assoc] using this
    have e2 : (w ++ rest).takeWhile isWord = w := by
      cases rest with
      | nil =>
        simp only [List.append_nil]
        have : ∀ (l : List Char), (∀ c ∈ l, isWord c = true) → l.takeWhile isWord = l := by
          intro l hl
          induction l with
          | nil => rfl
          | cons x xs ih => simp [List.takeWhile_cons, hl x (by simp), ih (fun y hy => hl y (by simp [hy]))]
        exact this w hw.2
      | cons r rs => exact takeWhile_append_stop w r rs hw.2 (hrest r (by simp))
    have e0 : aliasEq ++ w ++ rest = 'a' :: (['l', 'i', 'a', 's', '='] ++ w ++ rest) := by simp [aliasEq]
    rw [e0, findFieldAlias, ← e0, e1]
    simp only [e2]
    cases w with
    | nil => exact absurd rfl hw.1
    | cons x xs => simp
  induction pre with
  | nil => simp only [List.nil_append]; rw [hmain]; rfl
  | cons c cs ih =>
    have hc : c ≠ 'a' := hpre c (by simp)
    simp only [List.cons_append, List.append_assoc, findFieldAlias, stripPrefix_aliasEq_none c _ hc]
    have := ih (fun x hx => hpre x (by simp [hx]))
    simpa [List.append_assoc] using this

/-! ### parseHeaders, one line and continued over several lines -/

/-- the junk after a group inside a header line: no brace, no newline -/
def InLineJunk (j : List Char) : Prop := ∀ c ∈ j, c ≠ '{' ∧ c ≠ '}' ∧ c ≠ '\n'

/-- a header line: its groups; the text after the last `}` is nothing or a comma -/
structure HLineOK (gs : List ((List Char × List Char) × List Char)) : Prop where
  ne : gs ≠ []
  clean : GroupsClean gs
  junk : ∀ g ∈ gs, InLineJunk g.2
  last : ∀ g, gs.getLast? = some g → g.2 = [] ∨ g.2 = [',']

/-- a rendered header line is `{ inner } lastJunk` with the LAST `}` of the line made explicit -/
theorem line_decompose (gs : List ((List Char × List Char) × List Char)) (h : HLineOK gs) :
    ∃ inner lastJ, renderGroups gs = '{' :: (inner ++ '}' :: lastJ) ∧ inner ≠ [] ∧
      (∀ c ∈ inner, c ≠ '\n') ∧ (lastJ = [] ∨ lastJ = [',']) := by
  obtain ⟨hne, hclean, hjunk, hlast⟩ := h
  induction gs with
  | nil => exact absurd rfl hne
  | cons g gs' ih =>
    obtain ⟨⟨k, v⟩, j⟩ := g
    obtain ⟨hk, hv, _⟩ := hclean ((k, v), j) (by simp)
    have hknl : ∀ c ∈ k, c ≠ '\n' := fun c hc => (keyChar_props k hk c hc).2
    have hkne : k ≠ [] := hk.1
    cases gs' with
    | nil =>
      refine ⟨k ++ ':' :: v, j, by simp [renderGroups, renderKV], by simp, ?_, hlast ((k, v), j) (by simp)⟩
      intro c hc
      simp only [List.mem_append, List.mem_cons] at hc
      rcases hc with hc | hc | hc
      · exact hknl c hc
      · subst hc; decide
      · exact hv.2.2 c hc
    | cons g2 gs2 =>
      have h' : (g2 :: gs2) ≠ [] := by simp
      obtain ⟨inner', lastJ, he, _, hnl', hl'⟩ := ih h' (fun x hx => hclean x (by simp [hx]))
        (fun x hx => hjunk x (by simp [hx]))
        (fun x hx => hlast x (by rw [List.getLast?_cons_cons]; exact hx))
      refine ⟨k ++ ':' :: (v ++ '}' :: (j ++ '{' :: inner')), lastJ, ?_, by simp, ?_, hl'⟩
      · simp only [renderGroups] at he ⊢
        rw [he]; simp [renderKV]
      · intro c hc
        simp only [List.mem_append, List.mem_cons] at hc
        rcases hc with hc | hc | hc | hc | hc | hc | hc
        · exact hknl c hc
        · subst hc; decide
        · exact hv.2.2 c hc
        · subst hc; decide
        · exact (hjunk ((k, v), j) (by simp) c hc).2.2
        · subst hc; decide
        · exact hnl' c hc

/-- one round of the headers group consumes exactly one rendered line (with the blanks before it) -/
theorem hdrIter_line (W more : List Char) (gs : List ((List Char × List Char) × List Char))
    (hW : ∀ c ∈ W, isReSpace c = true) (h : HLineOK gs) :
    hdrIter (W ++ renderGroups gs ++ '\n' :: more) = some (W ++ renderGroups gs, '\n' :: more) := by
  obtain ⟨inner, lastJ, he, hine, hnl, hl⟩ := line_decompose gs h
  rw [he]
  have hb : isReSpace '{' = false := by decide
  have e0 : W ++ '{' :: (inner ++ '}' :: lastJ) ++ '\n' :: more
      = W ++ '{' :: (inner ++ '}' :: (lastJ ++ '\n' :: more)) := by simp
  rw [e0]
  have e1 : (W ++ '{' :: (inner ++ '}' :: (lastJ ++ '\n' :: more))).dropWhile isReSpace
      = '{' :: (inner ++ '}' :: (lastJ ++ '\n' :: more)) := dropWhile_append_stop W '{' _ hW hb
  have e2 : (W ++ '{' :: (inner ++ '}' :: (lastJ ++ '\n' :: more))).takeWhile isReSpace = W :=
    takeWhile_append_stop W '{' _ hW hb
  have hlnl : ∀ c ∈ inner ++ '}' :: lastJ, c ≠ '\n' := by
    intro c hc
    simp only [List.mem_append, List.mem_cons] at hc
    rcases hc with hc | hc | hc
    · exact hnl c hc
    · subst hc; decide
    · rcases hl with rfl | rfl
      · cases hc
      · simp at hc; subst hc; decide
  have e3 : (inner ++ '}' :: (lastJ ++ '\n' :: more)).takeWhile (· != '\n') = inner ++ '}' :: lastJ := by
    have : inner ++ '}' :: (lastJ ++ '\n' :: more) = (inner ++ '}' :: lastJ) ++ '\n' :: more := by simp
    rw [this]; exact takeWhile_line _ more hlnl
  have e4 : (inner ++ '}' :: lastJ).reverse.dropWhile (· != '}') = '}' :: inner.reverse := by
    rcases hl with rfl | rfl
    · simp [List.dropWhile_cons]
    · simp [List.dropWhile_cons]
  have e5 : inner.reverse.isEmpty = false := by
    cases inner with
    | nil => exact absurd rfl hine
    | cons a as => simp
  have e6 : (inner ++ '}' :: (lastJ ++ '\n' :: more)).drop (inner.reverse.reverse.length + 1) = lastJ ++ '\n' :: more := by
    simp
  unfold hdrIter
  simp only [e1, e2, e3, e4, e5, Bool.false_eq_true, ↓reduceIte, e6, List.reverse_reverse]
  rcases hl with rfl | rfl
  · simp
  · simp

/-- blanks at the start of a continuation line -/
def Blanks (w : List Char) : Prop := ∀ c ∈ w, c = ' ' ∨ c = '\t'

theorem blanks_respace (w : List Char) (h : Blanks w) : ∀ c ∈ w, isReSpace c = true := by
  intro c hc
  rcases h c hc with e | e <;> subst e <;> decide

/-- header lines: blanks and groups per line -/
abbrev HLines := List (List Char × List ((List Char × List Char) × List Char))

def HLinesOK (ls : HLines) : Prop := ∀ l ∈ ls, Blanks l.1 ∧ HLineOK l.2

/-- the continuation lines as text: each starts on a new line -/
def contText : HLines → List Char
  | [] => []
  | (w, gs) :: rest => '\n' :: (w ++ renderGroups gs) ++ contText rest

/-- `hdrMore` consumes every continuation line and stops where `hdrIter` does -/
theorem hdrMore_lines (ls : HLines) (hls : HLinesOK ls) (stop : List Char)
    (hstop : hdrIter ('\n' :: stop) = none) :
    ∀ fuel, fuel ≥ ls.length → hdrMore fuel (contText ls ++ '\n' :: stop) = contText ls := by
  induction ls with
  | nil =>
    intro fuel _
    cases fuel with
    | zero => rfl
    | succ n => simp [contText, hdrMore, hstop]
  | cons l ls ih =>
    intro fuel hf
    obtain ⟨w, gs⟩ := l
    obtain ⟨hw, hg⟩ := hls (w, gs) (by simp)
    cases fuel with
    | zero => simp at hf
    | succ n =>
      have hW : ∀ c ∈ '\n' :: w, isReSpace c = true := by
        intro c hc
        simp only [List.mem_cons] at hc
        rcases hc with hc | hc
        · subst hc; decide
        · exact blanks_respace w hw c hc
      have e : contText ((w, gs) :: ls) ++ '\n' :: stop
          = ('\n' :: w) ++ renderGroups gs ++ (contText ls ++ '\n' :: stop) := by
        simp [contText]
      have hsplit : contText ls ++ '\n' :: stop = '\n' :: (match ls with
          | [] => stop
          | (w', gs') :: rest => (w' ++ renderGroups gs') ++ contText rest ++ '\n' :: stop) := by
        cases ls with
        | nil => simp [contText]
        | cons l' rest => obtain ⟨w', gs'⟩ := l'; simp [contText]
      rw [e, hsplit, hdrMore, hdrIter_line ('\n' :: w) _ gs hW hg]
      simp only
      rw [← hsplit, ih (fun x hx => hls x (by simp [hx])) n (by simp at hf; omega)]
      simp [contText]

/-- pairs of all lines -/
def linePairs (ls : HLines) : List (List Char × List Char) := ls.flatMap (fun l => l.2.map (·.1))

/-- add text to the junk of the last group -/
def appendJunk : List ((List Char × List Char) × List Char) → List Char → List ((List Char × List Char) × List Char)
  | [], _ => []
  | [(kv, j)], w => [(kv, j ++ w)]
  | g :: g2 :: gs, w => g :: appendJunk (g2 :: gs) w

theorem renderGroups_appendJunk (gs : List ((List Char × List Char) × List Char)) (w : List Char) (hne : gs ≠ []) :
    renderGroups (appendJunk gs w) = renderGroups gs ++ w := by
  induction gs with
  | nil => exact absurd rfl hne
  | cons g gs' ih =>
    cases gs' with
    | nil => obtain ⟨kv, j⟩ := g; simp [appendJunk, renderGroups]
    | cons g2 gs2 =>
      obtain ⟨kv, j⟩ := g
      simp only [appendJunk, renderGroups, List.append_assoc]
      rw [ih (by simp)]
      simp [renderGroups]

theorem appendJunk_pairs (gs : List ((List Char × List Char) × List Char)) (w : List Char) :
    (appendJunk gs w).map (·.1) = gs.map (·.1) := by
  induction gs with
  | nil => rfl
  | cons g gs' ih =>
    cases gs' with
    | nil => obtain ⟨kv, j⟩ := g; rfl
    | cons g2 gs2 => simp only [appendJunk, List.map_cons] at ih ⊢; rw [ih]

theorem appendJunk_clean (gs : List ((List Char × List Char) × List Char)) (w : List Char)
    (h : GroupsClean gs) (hw : NoOpenBrace w) : GroupsClean (appendJunk gs w) := by
  induction gs with
  | nil => intro g hg; cases hg
  | cons g gs' ih =>
    cases gs' with
    | nil =>
      obtain ⟨kv, j⟩ := g
      intro x hx
      simp only [appendJunk, List.mem_singleton] at hx
      subst hx
      obtain ⟨a, b, c⟩ := h (kv, j) (by simp)
      refine ⟨a, b, ?_⟩
      intro ch hch
      simp only [List.mem_append] at hch
      rcases hch with hch | hch
      · exact c ch hch
      · exact hw ch hch
    | cons g2 gs2 =>
      intro x hx
      simp only [appendJunk, List.mem_cons] at hx
      rcases hx with hx | hx
      · subst hx; exact h _ (by simp)
      · exact ih (fun y hy => h y (by simp [hy])) x (by simpa [appendJunk] using hx)

/-- first line + continuation lines as ONE group list (line breaks and indentation become junk) -/
def joinLines (gs : List ((List Char × List Char) × List Char)) : HLines → List ((List Char × List Char) × List Char)
  | [] => gs
  | (w, gs') :: rest => appendJunk gs ('\n' :: w) ++ joinLines gs' rest

theorem joinLines_spec (ls : HLines) (hls : HLinesOK ls) :
    ∀ (gs : List ((List Char × List Char) × List Char)), gs ≠ [] → GroupsClean gs →
      renderGroups (joinLines gs ls) = renderGroups gs ++ contText ls ∧
      (joinLines gs ls).map (·.1) = gs.map (·.1) ++ linePairs ls ∧
      GroupsClean (joinLines gs ls) := by
  induction ls with
  | nil => intro gs _ hc; simp [joinLines, contText, linePairs, hc]
  | cons l ls ih =>
    intro gs hne hc
    obtain ⟨w, gs'⟩ := l
    obtain ⟨hw, hg'⟩ := hls (w, gs') (by simp)
    obtain ⟨r1, r2, r3⟩ := ih (fun x hx => hls x (by simp [hx])) gs' hg'.ne hg'.clean
    have hwb : NoOpenBrace ('\n' :: w) := by
      intro c hcm
      simp only [List.mem_cons] at hcm
      rcases hcm with e | e
      · subst e; decide
      · rcases hw c e with e' | e' <;> subst e' <;> decide
    have hrg : ∀ (a b : List ((List Char × List Char) × List Char)), renderGroups (a ++ b) = renderGroups a ++ renderGroups b := by
      intro a b
      induction a with
      | nil => rfl
      | cons x xs ihx => obtain ⟨kv, j⟩ := x; simp [renderGroups, ihx]
    refine ⟨?_, ?_, ?_⟩
    · simp only [joinLines, hrg, renderGroups_appendJunk gs _ hne, r1, contText]
      simp
    · simp only [joinLines, List.map_append, appendJunk_pairs, r2, linePairs, List.flatMap_cons]
    · intro x hx
      simp only [joinLines, List.mem_append] at hx
      rcases hx with hx | hx
      · exact appendJunk_clean gs _ hc hwb x hx
      · exact r3 x hx

/-- the declarative specification of `parseHeaders`: a directive
    `shoot: headers={K₁:v₁},{K₂:v₂}` continued on any number of following lines that start (after
    blanks) with `{` — each line ending in `}` or `},` — means all the pairs, in order; it ends
    where the next line does not continue it -/
theorem parseHeaders_render (w0 : List Char) (gs : List ((List Char × List Char) × List Char)) (ls : HLines)
    (stop : List Char)
    (hw0 : Blanks w0) (hg : HLineOK gs) (hls : HLinesOK ls) (hstop : hdrIter ('\n' :: stop) = none) :
    parseHeaders (shootColon ++ ' ' :: (headersEq ++ (w0 ++ renderGroups gs ++ (contText ls ++ '\n' :: stop))))
      = gs.map (·.1) ++ linePairs ls := by
  have hgroup : hdrGroup (w0 ++ renderGroups gs ++ (contText ls ++ '\n' :: stop))
      = some (w0 ++ renderGroups gs ++ contText ls) := by
    have hsplit : contText ls ++ '\n' :: stop = '\n' :: (match ls with
        | [] => stop
        | (w', gs') :: rest => (w' ++ renderGroups gs') ++ contText rest ++ '\n' :: stop) := by
      cases ls with
      | nil => simp [contText]
      | cons l' rest => obtain ⟨w', gs'⟩ := l'; simp [contText]
    unfold hdrGroup
    rw [hsplit, hdrIter_line w0 _ gs (blanks_respace w0 hw0) hg]
    simp only
    rw [← hsplit, hdrMore_lines ls hls stop hstop _ (by
      have : (contText ls).length ≥ ls.length := by
        clear hsplit hls
        induction ls with
        | nil => simp
        | cons l rest ih => obtain ⟨w, g⟩ := l; simp [contText] at ih ⊢; omega
      simp [List.length_append]; omega)]
  have e1 : stripPrefix shootColon (shootColon ++ ' ' :: (headersEq ++ (w0 ++ renderGroups gs ++ (contText ls ++ '\n' :: stop))))
      = some (' ' :: (headersEq ++ (w0 ++ renderGroups gs ++ (contText ls ++ '\n' :: stop)))) :=
    stripPrefix_self_append _ _
  have e2 : stripPrefix headersEq (headersEq ++ (w0 ++ renderGroups gs ++ (contText ls ++ '\n' :: stop)))
      = some (w0 ++ renderGroups gs ++ (contText ls ++ '\n' :: stop)) := stripPrefix_self_append _ _
  have hsp : isWord ' ' = false := by decide
  have hfind : findShootHeaders (shootColon ++ ' ' :: (headersEq ++ (w0 ++ renderGroups gs ++ (contText ls ++ '\n' :: stop))))
      = some (w0 ++ renderGroups gs ++ contText ls) := by
    have hs : shootColon ++ ' ' :: (headersEq ++ (w0 ++ renderGroups gs ++ (contText ls ++ '\n' :: stop)))
        = 's' :: (['h', 'o', 'o', 't', ':'] ++ ' ' :: (headersEq ++ (w0 ++ renderGroups gs ++ (contText ls ++ '\n' :: stop)))) := by
      simp [shootColon]
    rw [hs, findShootHeaders, ← hs, e1]
    simp only [findHeadersArg, hsp, Bool.not_false, ↓reduceIte, e2, hgroup]
  obtain ⟨r1, r2, r3⟩ := joinLines_spec ls hls gs hg.ne hg.clean
  unfold parseHeaders
  rw [hfind]
  simp only
  have hb : NoOpenBrace w0 := by
    intro c hc
    rcases hw0 c hc with e | e <;> subst e <;> decide
  have := parseKV_render w0 (joinLines gs ls) hb r3
  rw [r1, r2] at this
  simpa [List.append_assoc] using this

end ShootVerif.Rest
