import ShootVerif.Spec.Enum
/-
Witnesses for the finding regions of the enum leg of C01 (`c01Region`): concrete packages inside the
region on which the model of the generator predicts a failed run / output that does not compile.
(Kept in Proofs/ so that Props/C01.lean, assembled elsewhere, can import them.)
-/
namespace ShootVerif.Enum

private def tspec (n : Name) (T : Name) (v : Int) : VSpec :=
  { names := [n], ty := some T, hasVals := true, exprTy := none, vals := [v] }

def c01Pkg (bit : Bool) (T : Name) (specs : List VSpec) : PkgCase :=
  { bit := bit, sql := false, gorm := false, types := [(T, ⟨true, 64⟩)], blocks := [specs], wellFormed := true }

/-- `type D int; const ( DA D = 1; DB D = 1 )`: exit 0, the map literals have duplicate keys -/
theorem C01_F_enumDupKey_witness :
    c01Region (c01Pkg false ['D'] [tspec ['D', 'A'] ['D'] 1, tspec ['D', 'B'] ['D'] 1]) = "F_enumDupKey" ∧
    c01Model (c01Pkg false ['D'] [tspec ['D', 'A'] ['D'] 1, tspec ['D', 'B'] ['D'] 1]) = (0, true, false) := by decide

/-- the same through trimmed names: `type T int; const ( TA T = 1; A T = 2 )` -/
theorem C01_F_enumDupKey_name_witness :
    c01Region (c01Pkg false ['T'] [tspec ['T', 'A'] ['T'] 1, tspec ['A'] ['T'] 2]) = "F_enumDupKey" ∧
    c01Model (c01Pkg false ['T'] [tspec ['T', 'A'] ['T'] 1, tspec ['A'] ['T'] 2]) = (0, true, false) := by decide

/-- any -bit run: exit 0, the output reads the undefined `_<t>_map` -/
theorem C01_F_enumBitMap_enum_witness :
    c01Region (c01Pkg true ['F'] [tspec ['F', 'A'] ['F'] 1]) = "F_enumBitMap" ∧
    c01Model (c01Pkg true ['F'] [tspec ['F', 'A'] ['F'] 1]) = (0, true, false) := by decide

/-- `type C int; const CA C = 1; func f() { const tmp C = 7 }`: exit 0, `tmp` is undefined at package level -/
theorem C01_F_enumForeignConst_witness :
    c01Region { c01Pkg false ['C'] [tspec ['C', 'A'] ['C'] 1] with locals := [[tspec ['t', 'm', 'p'] ['C'] 7]] } = "F_enumForeignConst" ∧
    c01Model { c01Pkg false ['C'] [tspec ['C', 'A'] ['C'] 1] with locals := [[tspec ['t', 'm', 'p'] ['C'] 7]] } = (0, true, false) := by
  decide

/-- negative constants are ordinary since /repo 9f224b6 -/
example : c01Region (c01Pkg false ['C'] [tspec ['C', 'A'] ['C'] (-1), tspec ['C', 'B'] ['C'] 3]) = "WF" ∧
    c01Model (c01Pkg false ['C'] [tspec ['C', 'A'] ['C'] (-1), tspec ['C', 'B'] ['C'] 3]) = (0, true, true) := by decide

/-- and a plain package is in WF with an all-ok prediction -/
example : c01Region (c01Pkg false ['F'] [tspec ['F', 'A'] ['F'] 1, tspec ['F', 'B'] ['F'] 2]) = "WF" ∧
    c01Model (c01Pkg false ['F'] [tspec ['F', 'A'] ['F'] 1, tspec ['F', 'B'] ['F'] 2]) = (0, true, true) := by decide

end ShootVerif.Enum
