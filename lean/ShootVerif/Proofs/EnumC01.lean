import ShootVerif.Spec.Enum
/-
Witnesses for the finding regions of the enum leg of C01 (`c01Region`): concrete packages inside the
region on which the model of the generator predicts a failed run / output that does not compile.
(Kept in Proofs/ so that Props/C01.lean, assembled elsewhere, can import them.)
-/
namespace ShootVerif.Enum

private def tspec (n : Name) (T : Name) (v : Int) : VSpec :=
  { names := [n], ty := some T, hasVals := true, exprTy := none, vals := [v] }

def c01Pkg (bit : Bool) (T : Name) (specs : List VSpec) : PkgCase :=
  { bit := bit, sql := false, gorm := false, types := [(T, ⟨true, 64⟩)], blocks := [specs], wellFormed := true }

/-- `type D int; const ( DA D = 1; DB D = 1 )`: exit 0, the map literals have duplicate keys -/
theorem C01_F_enumDupKey_witness :
    c01Region (c01Pkg false ['D'] [tspec ['D', 'A'] ['D'] 1, tspec ['D', 'B'] ['D'] 1]) = "F_enumDupKey" ∧
    c01Model (c01Pkg false ['D'] [tspec ['D', 'A'] ['D'] 1, tspec ['D', 'B'] ['D'] 1]) = (0, true, false) := by decide

/-- the same through trimmed names: `type T int; const ( TA T = 1; A T = 2 )` -/
theorem C01_F_enumDupKey_name_witness :
    c01Region (c01Pkg false ['T'] [tspec ['T', 'A'] ['T'] 1, tspec ['A'] ['T'] 2]) = "F_enumDupKey" ∧
    c01Model (c01Pkg false ['T'] [tspec ['T', 'A'] ['T'] 1, tspec ['A'] ['T'] 2]) = (0, true, false) := by decide

/-- any -bit run: exit 0, the output reads the undefined `_<t>_map` -/
theorem C01_F_enumBitMap_enum_witness :
    c01Region (c01Pkg true ['F'] [tspec ['F', 'A'] ['F'] 1]) = "F_enumBitMap" ∧
    c01Model (c01Pkg true ['F'] [tspec ['F', 'A'] ['F'] 1]) = (0, true, false) := by decide

/-- `type C int; const CA C = 1; func f() { const tmp C = 7 }` (former region F_enumForeignConst, repaired in
    /repo 17b8707 / b44c047): the const declarations inside function bodies play no role, the run is all-ok -/
theorem C01_enumForeignConst_fixed (p : PkgCase) (ls : List (List VSpec)) :
    c01Region { p with locals := ls } = c01Region p ∧ c01Model { p with locals := ls } = c01Model p := ⟨rfl, rfl⟩

example : c01Region { c01Pkg false ['C'] [tspec ['C', 'A'] ['C'] 1] with locals := [[tspec ['t', 'm', 'p'] ['C'] 7]] } = "WF" ∧
    c01Model { c01Pkg false ['C'] [tspec ['C', 'A'] ['C'] 1] with locals := [[tspec ['t', 'm', 'p'] ['C'] 7]] } = (0, true, true) := by
  decide

/-- `type Color int; const ColorRed Color = 1; type color int; const colorDark color = 0`, both generated in one run
    (`-type=Color,color`, `-file=`, `-type=*`): exit 0, but both outputs declare `_color_max`, `_color_values`, … -/
theorem C01_F_enumTableClash_witness :
    let p : PkgCase := { bit := false, sql := false, gorm := false, wellFormed := true,
                         types := [(['C', 'o', 'l', 'o', 'r'], ⟨true, 64⟩), (['c', 'o', 'l', 'o', 'r'], ⟨true, 64⟩)],
                         blocks := [[tspec ['C', 'o', 'l', 'o', 'r', 'R', 'e', 'd'] ['C', 'o', 'l', 'o', 'r'] 1],
                                    [tspec ['c', 'o', 'l', 'o', 'r', 'D', 'a', 'r', 'k'] ['c', 'o', 'l', 'o', 'r'] 0]] }
    c01Region p = "F_enumTableClash" ∧ c01Model p = (0, true, false) ∧
    camelGO ['H', 'T', 'T', 'P', 'S', 't', 'a', 't', 'e'] = camelGO ['H', 't', 't', 'p', 'S', 't', 'a', 't', 'e'] ∧
    camelGO ['M', 'y', '_', 'T', 'y', 'p', 'e'] = camelGO ['M', 'y', 'T', 'y', 'p', 'e'] := by decide

/-- only ONE of the two generated: no collision -/
example : c01Region { bit := false, sql := false, gorm := false, wellFormed := true,
                      types := [(['C', 'o', 'l', 'o', 'r'], ⟨true, 64⟩)],
                      blocks := [[tspec ['C', 'o', 'l', 'o', 'r', 'R', 'e', 'd'] ['C', 'o', 'l', 'o', 'r'] 1],
                                 [tspec ['c', 'o', 'l', 'o', 'r', 'D', 'a', 'r', 'k'] ['c', 'o', 'l', 'o', 'r'] 0]] } = "WF" := by decide

/-- `type Format int; const ( json Format = iota; xml )` with -json: the constant collides with the import -/
theorem C01_F_enumIdentClash_witness :
    c01Region { c01Pkg false ['F'] [tspec ['j', 's', 'o', 'n'] ['F'] 0, tspec ['x', 'm', 'l'] ['F'] 1] with
                json := true, idents := [['j', 's', 'o', 'n'], ['x', 'm', 'l'], ['F']] } = "F_enumIdentClash" ∧
    (c01Model { c01Pkg false ['F'] [tspec ['j', 's', 'o', 'n'] ['F'] 0, tspec ['x', 'm', 'l'] ['F'] 1] with
                json := true, idents := [['j', 's', 'o', 'n'], ['x', 'm', 'l'], ['F']] }).2.2 = false := by decide

/-- `type Axis int; const ( x Axis = iota; y )`: the guard function's own `x` hides the constant -/
theorem C01_F_enumIdentClash_x_witness :
    c01Region { c01Pkg false ['A'] [tspec ['x'] ['A'] 0, tspec ['y'] ['A'] 1] with idents := [['x'], ['y'], ['A']] } = "F_enumIdentClash" := by
  decide

/-- without -json the constant `json` is harmless -/
example : c01Region { c01Pkg false ['F'] [tspec ['j', 's', 'o', 'n'] ['F'] 0, tspec ['x', 'm', 'l'] ['F'] 1] with
                idents := [['j', 's', 'o', 'n'], ['x', 'm', 'l'], ['F']] } = "WF" := by decide

/-- negative constants are ordinary since /repo 9f224b6 -/
example : c01Region (c01Pkg false ['C'] [tspec ['C', 'A'] ['C'] (-1), tspec ['C', 'B'] ['C'] 3]) = "WF" ∧
    c01Model (c01Pkg false ['C'] [tspec ['C', 'A'] ['C'] (-1), tspec ['C', 'B'] ['C'] 3]) = (0, true, true) := by decide

/-- and a plain package is in WF with an all-ok prediction -/
example : c01Region (c01Pkg false ['F'] [tspec ['F', 'A'] ['F'] 1, tspec ['F', 'B'] ['F'] 2]) = "WF" ∧
    c01Model (c01Pkg false ['F'] [tspec ['F', 'A'] ['F'] 1, tspec ['F', 'B'] ['F'] 2]) = (0, true, true) := by decide

/-! ## closedness of the enum template instance

A hand transcription of internal/enumer/enumer.tmpl as a def/use listing: for every top-level
declaration the emitted file contains under a flag set, what it declares, which names it binds
locally (receiver, parameters, `:=` / `var` variables) and which identifiers it mentions, each with
the scope it is meant to resolve in.  Keywords and field / method selectors on imported packages
(`fmt.Sprintf`) are not identifiers of their own.  The listing is tied to the template by the C01
correspondence leg (the emitted files are compiled), not by a theorem. -/

inductive IdClass where
  | table      -- `_<t>` ++ name: a table of the emitted file
  | method     -- a method of the enum type declared by the emitted file
  | typeT      -- the enum type itself (input package)
  | imp        -- the qualifier of an imported package
  | builtin    -- predeclared identifier
  | loc        -- receiver / parameter / local variable of the same declaration
  deriving DecidableEq, Repr

structure Ref where
  cls : IdClass
  name : String
  deriving DecidableEq, Repr

structure TopDecl where
  tables : List String := []      -- tables it declares
  methods : List String := []     -- methods it declares
  binds : List String := []
  uses : List Ref := []
  /-- mentions every listed constant of the input package (`Name`) -/
  usesConsts : Bool := false
  deriving Repr

structure EFlags where
  bit : Bool
  json : Bool
  text : Bool
  sql : Bool
  gorm : Bool
  deriving DecidableEq, Repr

private def tb (n : String) : Ref := ⟨.table, n⟩
private def me (n : String) : Ref := ⟨.method, n⟩
private def im (n : String) : Ref := ⟨.imp, n⟩
private def bi (n : String) : Ref := ⟨.builtin, n⟩
private def lo (n : String) : Ref := ⟨.loc, n⟩
private def ty : Ref := ⟨.typeT, "T"⟩

/-- the emitted file; `r` stands for the receiver name (first letter of the type, lower case) -/
def emittedDecls (fl : EFlags) : List TopDecl :=
  [ -- func _() { var x [1]struct{}; _ = x[Name-value] … }
    { binds := ["x"], uses := [lo "x"], usesConsts := true },
    { tables := ["_max"], usesConsts := true },                                     -- const _t_max = A | B | …
    { tables := ["_values"], uses := [ty], usesConsts := true },                    -- var _t_values = []T{…}
    { tables := ["_strings"], uses := [bi "string"] },                              -- var _t_strings = []string{…}
    { tables := ["_string_map"], uses := [ty, bi "string"], usesConsts := true },   -- map[T]string{Name: "…"}
    { tables := ["_value_map"], uses := [bi "string", ty], usesConsts := true },    -- map[string]T{"…": Name}
    -- func (r T) String() string
    { methods := ["String"], binds := ["r", "str", "ok"] ++ (if fl.bit then ["buf", "r_", "i_", "v_"] else []),
      uses := [ty, bi "string", lo "str", lo "ok", tb "_string_map", lo "r", tb "_max", im "fmt"]
        ++ (if fl.bit then [im "bytes", lo "buf", lo "r_", lo "i_", bi "len", tb "_values", lo "v_", me "Has",
                            tb "_map", me "Remove", bi "string"] else []) },
    { methods := ["Values"], binds := ["r"], uses := [ty, tb "_values"] },
    { methods := ["Strings"], binds := ["r"], uses := [ty, bi "string", tb "_strings"] },
    { methods := ["IsValid"], binds := ["r", "ok"], uses := [ty, bi "bool", tb "_string_map", lo "r", lo "ok"] },
    { methods := ["ValueMap"], binds := ["r"], uses := [ty, bi "string", tb "_value_map"] },
    { methods := ["StringMap"], binds := ["r"], uses := [ty, bi "string", tb "_string_map"] } ]
  ++ (if fl.json then
    [ { methods := ["MarshalJSON"], binds := ["r"], uses := [ty, bi "byte", bi "error", im "json", lo "r", me "String"] },
      { methods := ["UnmarshalJSON"], binds := ["r", "data", "s_", "v_", "err"],
        uses := [ty, bi "byte", bi "error", bi "string", im "json", lo "data", lo "s_", lo "v_", lo "err", im "fmt",
                 im "shoot", lo "r", bi "nil"] } ] else [])
  ++ (if fl.text then
    [ { methods := ["MarshalText"], binds := ["r"], uses := [ty, bi "byte", bi "error", lo "r", me "String", bi "nil"] },
      { methods := ["UnmarshalText"], binds := ["r", "text", "v_", "err"],
        uses := [ty, bi "byte", bi "error", bi "string", lo "text", lo "v_", lo "err", im "shoot", lo "r", bi "nil"] } ] else [])
  ++ (if fl.sql then
    [ { methods := ["Value"], binds := ["r"], uses := [ty, im "driver", bi "error", lo "r", me "String", bi "nil"] },
      { methods := ["Scan"], binds := ["r", "value", "data", "ok", "e_", "err"],
        uses := [ty, bi "error", bi "byte", bi "string", lo "value", lo "data", lo "ok", im "errors", lo "e_", lo "err",
                 im "shoot", lo "r", bi "nil"] } ] else [])
  ++ (if fl.gorm then
    [ { methods := ["GormDataType"], binds := ["r"], uses := [ty, bi "string"] },
      { methods := ["GormDBDataType"], binds := ["r", "db", "field"], uses := [ty, bi "string", im "gorm", im "schema"] } ] else [])
  ++ (if fl.bit then
    [ { methods := ["Has"], binds := ["r", "flag"], uses := [ty, bi "bool", lo "r", lo "flag"] },
      { methods := ["Add"], binds := ["r", "flag"], uses := [ty, lo "r", lo "flag"] },
      { methods := ["Remove"], binds := ["r", "flag"], uses := [ty, lo "r", lo "flag"] } ] else [])
  ++ [ { methods := ["ShootEnum"], binds := ["r"], uses := [ty] } ]

/-- the import list of the emitted file: what the template writes under the flags, plus the std-lib
    packages goimports adds for the qualifiers the template uses without importing them -/
def importList (fl : EFlags) : List String :=
  (if fl.json then ["json"] else []) ++ (if fl.sql then ["driver"] else [])
    ++ (if fl.json || fl.text || fl.sql then ["shoot"] else []) ++ (if fl.gorm then ["gorm", "schema"] else [])
    ++ ["fmt", "bytes", "errors"]

def predeclared : List String := ["string", "bool", "byte", "error", "len", "nil"]

def declaredTables (fl : EFlags) : List String := (emittedDecls fl).flatMap (·.tables)
def declaredMethods (fl : EFlags) : List String := (emittedDecls fl).flatMap (·.methods)

/-- does the reference resolve: in the file, the declaration itself, the import list, the universe -/
def Ref.closedIn (fl : EFlags) (d : TopDecl) (r : Ref) : Bool :=
  match r.cls with
  | .table => (declaredTables fl).contains r.name
  | .method => (declaredMethods fl).contains r.name
  | .typeT => true
  | .imp => (importList fl).contains r.name
  | .builtin => predeclared.contains r.name
  | .loc => d.binds.contains r.name

/-- every identifier the emitted file mentions is declared by the file, by the input package (the
    enum type; the listed constants, given that they are package-level constants: `listed ⊆ pkg`),
    by the import list, or predeclared — for every flag set without -bit, every type and every
    constant table -/
theorem C01_closed_enum (fl : EFlags) (hbit : fl.bit = false) (listed pkg : List Const)
    (hl : ∀ c ∈ listed, c ∈ pkg) :
    (emittedDecls fl).all (fun d => d.uses.all (Ref.closedIn fl d) && (!d.usesConsts || listed.all (pkg.contains ·))) = true := by
  have hc : listed.all (pkg.contains ·) = true := by
    rw [List.all_eq_true]; intro c hc; simpa using hl c hc
  obtain ⟨bit, json, text, sql, gorm⟩ := fl
  simp only at hbit
  subst hbit
  rw [hc]
  cases json <;> cases text <;> cases sql <;> cases gorm <;> decide

/-- with -bit exactly one reference does not resolve: the table `_<t>_map` read by String() -/
theorem C01_closed_enum_bit (fl : EFlags) (hbit : fl.bit = true) :
    ((emittedDecls fl).flatMap (fun d => d.uses.filter (fun r => !Ref.closedIn fl d r))) = [⟨.table, "_map"⟩] := by
  obtain ⟨bit, json, text, sql, gorm⟩ := fl
  simp only at hbit
  subst hbit
  cases json <;> cases text <;> cases sql <;> cases gorm <;> decide

/-- no name is declared twice: the five tables, the methods under every flag set, and no local name
    is bound twice in a declaration; under WF the map literals have pairwise distinct keys (see
    `C04_generates` / `compiles`) -/
theorem C01_nodup_enum (fl : EFlags) :
    (declaredTables fl).Nodup ∧ (declaredMethods fl).Nodup ∧ (emittedDecls fl).all (fun d => decide d.binds.Nodup) = true := by
  obtain ⟨bit, json, text, sql, gorm⟩ := fl
  cases bit <;> cases json <;> cases text <;> cases sql <;> cases gorm <;> decide

/-- the map keys: the listed constants' values (keys of `_t_string_map`) and trimmed names (keys of
    `_t_value_map`) are pairwise distinct exactly when the model's compile check passes on that count -/
theorem C01_nodup_enum_keys (T : Name) (pkg cs : List Const) (h : compiles false T pkg cs = true) :
    (valuesT cs).Nodup ∧ (stringsT T cs).Nodup := by
  unfold compiles at h
  simp only [Bool.and_eq_true, decide_eq_true_eq] at h
  exact ⟨h.1.1.1, h.1.1.2⟩

end ShootVerif.Enum
