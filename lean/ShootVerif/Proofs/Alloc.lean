import ShootVerif.Model.Alloc
namespace ShootVerif.Alloc

theorem allocAll_ok (rest : List Path) : ∀ (done : List Path) (h : Heap),
    (∀ q ∈ done, q ∈ h) →
    ∃ h', allocAll done rest h = .ok h' ∧ (∀ q ∈ done ++ rest, q ∈ h') ∧ (∀ q, q ∈ h → q ∈ h') ∧
      (∀ q, q ∈ h' → q ∈ h ∨ q ∈ rest) := by
  induction rest with
  | nil =>
    intro done h hd
    exact ⟨h, rfl, by simpa using hd, fun _ hq => hq, fun _ hq => Or.inl hq⟩
  | cons p ps ih =>
    intro done h hd
    have hall : done.all (fun q => h.contains q) = true := by
      simp only [List.all_eq_true, List.contains_iff_mem]
      intro q hq; simpa using hd q hq
    simp only [allocAll, allocOne, hall, ↓reduceIte]
    by_cases hp : h.contains p = true
    · simp only [hp, ↓reduceIte]
      have hd' : ∀ q ∈ done ++ [p], q ∈ h := by
        intro q hq
        simp only [List.mem_append, List.mem_singleton] at hq
        rcases hq with hq | hq
        · exact hd q hq
        · subst hq; simpa using hp
      obtain ⟨h', e, a, b, c⟩ := ih (done ++ [p]) h hd'
      refine ⟨h', e, ?_, b, ?_⟩
      · intro q hq; exact a q (by simpa [List.append_assoc] using hq)
      · intro q hq; rcases c q hq with c | c
        · exact Or.inl c
        · exact Or.inr (by simp [c])
    · simp only [hp, Bool.false_eq_true, ↓reduceIte]
      have hd' : ∀ q ∈ done ++ [p], q ∈ p :: h := by
        intro q hq
        simp only [List.mem_append, List.mem_singleton] at hq
        rcases hq with hq | hq
        · simp [hd q hq]
        · subst hq; simp
      obtain ⟨h', e, a, b, c⟩ := ih (done ++ [p]) (p :: h) hd'
      refine ⟨h', e, ?_, ?_, ?_⟩
      · intro q hq; exact a q (by simpa [List.append_assoc] using hq)
      · intro q hq; exact b q (by simp [hq])
      · intro q hq; rcases c q hq with c | c
        · simp only [List.mem_cons] at c
          rcases c with c | c
          · exact Or.inr (by simp [c])
          · exact Or.inl c
        · exact Or.inr (by simp [c])

theorem guardRead_ok (rest : List Path) : ∀ (done : List Path) (h : Heap),
    (∀ q ∈ done, q ∈ h) →
    ∃ b, guardRead done rest h = .ok b ∧ (b = true ↔ ∀ q ∈ rest, q ∈ h) := by
  induction rest with
  | nil => intro done h _; exact ⟨true, rfl, by simp⟩
  | cons p ps ih =>
    intro done h hd
    have hall : done.all (fun q => h.contains q) = true := by
      simp only [List.all_eq_true, List.contains_iff_mem]
      intro q hq; simpa using hd q hq
    simp only [guardRead, hall, ↓reduceIte]
    by_cases hp : h.contains p = true
    · simp only [hp, ↓reduceIte]
      have hpm : p ∈ h := by simpa using hp
      obtain ⟨b, e, hb⟩ := ih (done ++ [p]) h (by
        intro q hq
        simp only [List.mem_append, List.mem_singleton] at hq
        rcases hq with hq | hq
        · exact hd q hq
        · subst hq; exact hpm)
      refine ⟨b, e, ?_⟩
      rw [hb]
      constructor
      · intro hh q hq
        simp only [List.mem_cons] at hq
        rcases hq with hq | hq
        · subst hq; exact hpm
        · exact hh q hq
      · intro hh q hq; exact hh q (by simp [hq])
    · simp only [hp, Bool.false_eq_true, ↓reduceIte]
      refine ⟨false, rfl, ?_⟩
      constructor
      · intro hf; cases hf
      · intro hh
        have := hh p (by simp)
        exact absurd (by simpa using this) hp

end ShootVerif.Alloc
