import ShootVerif.Proofs.CtorMain
import ShootVerif.Proofs.CtorFresh
namespace ShootVerif.Ctor

/-- the printed type next to each parameter is that of the leaf the parameter stands for -/
theorem paramTypes_leaves (t : Tree) (hn : Bool) :
    (paramsList (nameMap hn (flatten t)) (flatten t)).map Prod.snd =
      (leavesTop t).filterMap (fun l => (leafParam t hn l).map (fun _ => l.info.ptype)) := by
  unfold paramsList
  rw [List.map_filterMap]
  conv => lhs; arg 2; rw [flatten_closed]
  rw [filterMap_filter_none _ (fun f => !f.isEmbeded)
    (by intro f hf; simp only [Bool.not_eq_eq_eq_not, Bool.not_false] at hf; simp [hf])]
  unfold walkTop
  rw [walk_fields _ t true [] false 0, List.filterMap_map, List.filterMap_filter]
  apply filterMap_congr_mem
  intro l _
  unfold leafParam
  by_cases hs : l.info.skip
  · simp [hs]
  · simp only [hs, Bool.not_false, ↓reduceIte, Function.comp, mkField, Bool.false_or, Bool.false_eq_true]
    cases hsh : genShadow t l.depth l.info.name
    · simp only [Bool.false_eq_true, ↓reduceIte]
      cases nameMap hn (flatten t) l.info.name <;> simp
    · simp

theorem paramTypes_spec (t : Tree)
    (hnd : ((visibleLeaves t).map (fun l => paramName l.info.name)).Nodup) :
    (gen t).params.map Prod.snd = (specParams t).map (fun l => l.info.ptype) := by
  simp only [gen, Bool.false_or]
  rw [paramTypes_leaves]
  unfold specParams
  rw [← List.filterMap_eq_map, List.filterMap_filter]
  apply filterMap_congr_mem
  intro l hl
  rw [eligible_iff_leafParam t hnd l hl]
  cases eligible t l <;> simp

theorem paramTypes_spec_gen (t : Tree) (hnd : wfFieldNames t = true) :
    (gen t).params.map Prod.snd = (specParams t).map (fun l => l.info.ptype) := by
  simp only [gen, Bool.false_or]
  rw [paramTypes_leaves]
  unfold specParams
  rw [← List.filterMap_eq_map, List.filterMap_filter]
  apply filterMap_congr_mem
  intro l hl
  rw [eligible_iff_leafParam_gen t hnd l hl]
  cases eligible t l <;> simp

theorem idx_get {α : Type} [DecidableEq α] : ∀ (L : List α) (a : α) (i : Nat), idx L a = some i → L[i]? = some a := by
  intro L
  induction L with
  | nil => intro a i h; simp [idx] at h
  | cons x xs ih =>
    intro a i h
    simp only [idx] at h
    by_cases hx : x = a
    · simp only [hx, ↓reduceIte, Option.some.injEq] at h
      subst h; simp [hx]
    · simp only [hx, ↓reduceIte, Option.map_eq_some_iff] at h
      obtain ⟨j, hj, rfl⟩ := h
      simpa using ih a j hj

end ShootVerif.Ctor
