import ShootVerif.Spec.Mapper
/-
Name matching: `smartMatch` (equal length ∧ (equal ∨ ToCamelCase equal)) against the property's
"equal up to acronym casing" (`sameWords`: same letters ignoring case, same word starts).
Key step: a closed form of ToCamelCase on underscore-free names — the first letter lower-cased, every
other letter upper-cased exactly at the word starts and lower-cased elsewhere.
-/
namespace ShootVerif.Mapper
open ShootVerif.Transfer

def Ascii (s : List Char) : Prop := ∀ c ∈ s, c.toNat < 128
def NoUS (s : List Char) : Prop := '_' ∉ s

theorem ascii_law (P : Char → Prop) (h : ∀ n, n < 128 → P (Char.ofNat n)) (c : Char) (hc : c.toNat < 128) : P c := by
  have := h c.toNat hc
  rwa [Char.ofNat_toNat] at this

theorem lower_upper (c : Char) (hc : c.toNat < 128) : toLower (toUpper c) = toLower c :=
  ascii_law (fun c => toLower (toUpper c) = toLower c) (by decide) c hc
theorem lower_lower (c : Char) (hc : c.toNat < 128) : toLower (toLower c) = toLower c :=
  ascii_law (fun c => toLower (toLower c) = toLower c) (by decide) c hc
theorem upper_lower (c : Char) (hc : c.toNat < 128) : toUpper (toLower c) = toUpper c :=
  ascii_law (fun c => toUpper (toLower c) = toUpper c) (by decide) c hc
theorem upper_of_isUpper (c : Char) (hc : c.toNat < 128) : isUpper c = true → toUpper c = c :=
  ascii_law (fun c => isUpper c = true → toUpper c = c) (by decide) c hc
theorem lower_not_upper (c : Char) (hc : c.toNat < 128) : isUpper (toLower c) = false :=
  ascii_law (fun c => isUpper (toLower c) = false) (by decide) c hc
theorem upper_ascii (c : Char) (hc : c.toNat < 128) : (toUpper c).toNat < 128 :=
  ascii_law (fun c => (toUpper c).toNat < 128) (by decide) c hc

/-! ## ToPascalCase on underscore-free names -/

theorem splitUnderscore_noUS (s : List Char) (h : NoUS s) : splitUnderscore s = [s] := by
  induction s with
  | nil => rfl
  | cons c cs ih =>
    have hc : c ≠ '_' := fun e => h (e ▸ List.mem_cons_self)
    have hcs : NoUS cs := fun m => h (List.mem_cons_of_mem _ m)
    simp [splitUnderscore, ih hcs, hc]

theorem pascal_noUS (s : List Char) (h : NoUS s) : pascal s = upFirst s := by
  unfold pascal
  cases s with
  | nil => rfl
  | cons c cs => simp [splitUnderscore_noUS _ h]

/-! ## ToCamelCase in closed form -/

/-- upper-case at the word starts, lower-case elsewhere -/
def renderAux : List Char → List Bool → List Char
  | c :: cs, st :: sts => (if st then toUpper c else toLower c) :: renderAux cs sts
  | _, _ => []

def cap : List Char → List Char
  | [] => []
  | c :: cs => toUpper c :: cs.map toLower

theorem cap_append (t : List Char) (c : Char) (ht : t ≠ []) : cap (t ++ [c]) = cap t ++ [toLower c] := by
  cases t with
  | nil => exact absurd rfl ht
  | cons x xs => simp [cap]

def nextLower : List Char → Bool
  | n :: _ => isLower n
  | [] => false

theorem splitCamelAux_cons (prev c : Char) (cs cur : List Char) :
    splitCamelAux prev (c :: cs) cur =
      if isUpper c && (isLower prev || nextLower cs) then cur.reverse :: splitCamelAux c cs [c]
      else splitCamelAux c cs (c :: cur) := by
  cases cs <;> rfl

theorem wordStartsAux_cons (prev c : Char) (cs : List Char) :
    wordStartsAux prev (c :: cs) = (isUpper c && (isLower prev || nextLower cs)) :: wordStartsAux c cs := by
  cases cs <;> rfl

/-- all tokens capitalised -/
theorem render_cap (prev : Char) (cs cur : List Char) (hcur : cur ≠ []) :
    ((splitCamelAux prev cs cur).map cap).flatten = cap cur.reverse ++ renderAux cs (wordStartsAux prev cs) := by
  induction cs generalizing prev cur with
  | nil => simp [splitCamelAux, wordStartsAux, renderAux]
  | cons c cs ih =>
    rw [splitCamelAux_cons, wordStartsAux_cons]
    by_cases hb : (isUpper c && (isLower prev || nextLower cs)) = true
    · simp only [hb, ↓reduceIte, List.map_cons, List.flatten_cons, renderAux]
      rw [ih c [c] (by simp)]
      simp [cap]
    · simp only [hb, Bool.false_eq_true, ↓reduceIte, renderAux]
      rw [ih c (c :: cur) (by simp)]
      have : (cur.reverse ≠ []) := by simpa using hcur
      simp [cap_append _ c this]

/-- first token lower-cased, the others capitalised: what ToCamelCase does with the token list -/
def camelJoin : List (List Char) → List Char
  | [] => []
  | t :: ts => t.map toLower ++ (ts.map cap).flatten

theorem render_first (prev : Char) (cs cur : List Char) :
    camelJoin (splitCamelAux prev cs cur) = cur.reverse.map toLower ++ renderAux cs (wordStartsAux prev cs) := by
  induction cs generalizing prev cur with
  | nil => simp [splitCamelAux, wordStartsAux, renderAux, camelJoin]
  | cons c cs ih =>
    rw [splitCamelAux_cons, wordStartsAux_cons]
    by_cases hb : (isUpper c && (isLower prev || nextLower cs)) = true
    · simp only [hb, ↓reduceIte, camelJoin, renderAux]
      rw [render_cap c cs [c] (by simp)]
      simp [cap]
    · simp only [hb, Bool.false_eq_true, ↓reduceIte, renderAux]
      rw [ih c (c :: cur)]
      simp

theorem camel_eq_join (s : List Char) : camel s = if s.isEmpty then s else camelJoin (splitCamel (pascal s)) := by
  unfold camel
  split
  · rfl
  · cases splitCamel (pascal s) with
    | nil => rfl
    | cons t ts =>
      simp only [camelJoin]
      congr 2

/-- ToCamelCase of an underscore-free name: first letter lower, then `renderAux` along the word starts -/
theorem camel_closed (c : Char) (cs : List Char) (h : NoUS (c :: cs)) :
    camel (c :: cs) = toLower (toUpper c) :: renderAux cs (wordStarts (upFirst (c :: cs))) := by
  rw [camel_eq_join, pascal_noUS _ h]
  simp only [List.isEmpty_cons, Bool.false_eq_true, ↓reduceIte, upFirst, splitCamel, wordStarts]
  rw [render_first]
  simp

/-! ## renderAux, case folding and the word starts -/

theorem wordStartsAux_length (prev : Char) (cs : List Char) : (wordStartsAux prev cs).length = cs.length := by
  induction cs generalizing prev with
  | nil => rfl
  | cons c cs ih => simp [wordStartsAux_cons, ih]

theorem renderAux_lower (cs : List Char) (sts : List Bool) (ha : Ascii cs) (hl : sts.length = cs.length) :
    (renderAux cs sts).map toLower = cs.map toLower := by
  induction cs generalizing sts with
  | nil => cases sts <;> rfl
  | cons c cs ih =>
    cases sts with
    | nil => simp at hl
    | cons st sts =>
      have hc : c.toNat < 128 := ha c List.mem_cons_self
      have hcs : Ascii cs := fun x hx => ha x (List.mem_cons_of_mem _ hx)
      simp only [renderAux, List.map_cons, ih sts hcs (by simpa using hl)]
      cases st <;> simp [lower_upper c hc, lower_lower c hc]

/-- equal folds and equal word starts give equal renderings -/
theorem renderAux_congr (as bs : List Char) (sts : List Bool) (ha : Ascii as) (hb : Ascii bs)
    (hf : as.map toLower = bs.map toLower) : renderAux as sts = renderAux bs sts := by
  induction as generalizing bs sts with
  | nil =>
    cases bs with
    | nil => rfl
    | cons b bs => simp at hf
  | cons a as ih =>
    cases bs with
    | nil => simp at hf
    | cons b bs =>
      cases sts with
      | nil => rfl
      | cons st sts =>
        simp only [List.map_cons, List.cons.injEq] at hf
        have ha' : a.toNat < 128 := ha a List.mem_cons_self
        have hb' : b.toNat < 128 := hb b List.mem_cons_self
        simp only [renderAux]
        rw [ih bs sts (fun x hx => ha x (List.mem_cons_of_mem _ hx)) (fun x hx => hb x (List.mem_cons_of_mem _ hx)) hf.2]
        cases st
        · simp [hf.1]
        · simp only [↓reduceIte, List.cons.injEq, and_true]
          rw [← upper_lower a ha', ← upper_lower b hb', hf.1]

/-- equal renderings along (possibly different) word starts force the starts to agree -/
theorem renderAux_starts (prevA prevB : Char) (as bs : List Char) (ha : Ascii as) (hb : Ascii bs)
    (hlen : as.length = bs.length)
    (h : renderAux as (wordStartsAux prevA as) = renderAux bs (wordStartsAux prevB bs)) :
    wordStartsAux prevA as = wordStartsAux prevB bs := by
  induction as generalizing bs prevA prevB with
  | nil =>
    cases bs with
    | nil => rfl
    | cons b bs => simp at hlen
  | cons a as ih =>
    cases bs with
    | nil => simp at hlen
    | cons b bs =>
      have ha' : a.toNat < 128 := ha a List.mem_cons_self
      have hb' : b.toNat < 128 := hb b List.mem_cons_self
      simp only [wordStartsAux_cons, renderAux, List.cons.injEq] at h ⊢
      refine ⟨?_, ih a b bs (fun x hx => ha x (List.mem_cons_of_mem _ hx)) (fun x hx => hb x (List.mem_cons_of_mem _ hx))
        (by simpa using hlen) h.2⟩
      -- the two start flags: if they differ, an upper-case letter equals a lower-cased one
      generalize hsa : (isUpper a && (isLower prevA || nextLower as)) = sa at h ⊢
      generalize hsb : (isUpper b && (isLower prevB || nextLower bs)) = sb at h ⊢
      cases sa <;> cases sb
      · rfl
      · exfalso
        simp only [Bool.false_eq_true, ↓reduceIte] at h
        have hub : isUpper b = true := by
          simp only [Bool.and_eq_true] at hsb; exact hsb.1
        have := h.1
        rw [upper_of_isUpper b hb' hub] at this
        have hn := lower_not_upper a ha'
        rw [this, hub] at hn
        cases hn
      · exfalso
        simp only [Bool.false_eq_true, ↓reduceIte] at h
        have hua : isUpper a = true := by
          simp only [Bool.and_eq_true] at hsa; exact hsa.1
        have := h.1
        rw [upper_of_isUpper a ha' hua] at this
        have hn := lower_not_upper b hb'
        rw [← this, hua] at hn
        cases hn
      · rfl


/-! ## smartMatch from above: equal length and equal up to case -/

theorem ascii_tail {c : Char} {cs : List Char} (h : Ascii (c :: cs)) : Ascii cs :=
  fun x hx => h x (List.mem_cons_of_mem _ hx)

theorem camel_fold (s : List Char) (ha : Ascii s) (hn : NoUS s) : (camel s).map toLower = s.map toLower := by
  cases s with
  | nil => rfl
  | cons c cs =>
    have hc : c.toNat < 128 := ha c List.mem_cons_self
    rw [camel_closed c cs hn]
    simp only [List.map_cons, upFirst, wordStarts]
    rw [renderAux_lower cs _ (ascii_tail ha) (wordStartsAux_length _ _)]
    rw [lower_lower _ (upper_ascii c hc), lower_upper c hc]

theorem smartMatch_fold (a b : List Char) (ha : Ascii a) (hb : Ascii b) (hna : NoUS a) (hnb : NoUS b)
    (h : smartMatchL a b = true) : a.length = b.length ∧ equalFoldL a b = true := by
  simp only [smartMatchL, Bool.and_eq_true, Bool.or_eq_true, beq_iff_eq] at h
  refine ⟨h.1, ?_⟩
  simp only [equalFoldL, beq_iff_eq]
  rcases h.2 with e | e
  · rw [e]
  · rw [← camel_fold a ha hna, ← camel_fold b hb hnb, e]

/-! ## smartMatch exactly: the same words -/

theorem smartMatch_of_sameWords (a b : List Char) (ha : Ascii a) (hb : Ascii b) (hna : NoUS a) (hnb : NoUS b)
    (h : sameWords a b = true) : smartMatchL a b = true := by
  simp only [sameWords, Bool.and_eq_true, beq_iff_eq, equalFoldL] at h
  obtain ⟨⟨hl, hf⟩, hs⟩ := h
  simp only [smartMatchL, Bool.and_eq_true, Bool.or_eq_true, beq_iff_eq]
  refine ⟨hl, Or.inr ?_⟩
  cases a with
  | nil =>
    cases b with
    | nil => rfl
    | cons d ds => simp at hl
  | cons c cs =>
    cases b with
    | nil => simp at hl
    | cons d ds =>
      have hc : c.toNat < 128 := ha c List.mem_cons_self
      have hd : d.toNat < 128 := hb d List.mem_cons_self
      simp only [List.map_cons, List.cons.injEq] at hf
      rw [camel_closed c cs hna, camel_closed d ds hnb, hs]
      rw [renderAux_congr cs ds _ (ascii_tail ha) (ascii_tail hb) hf.2]
      rw [lower_upper c hc, lower_upper d hd, hf.1]

theorem sameWords_of_smartMatch (a b : List Char) (ha : Ascii a) (hb : Ascii b) (hna : NoUS a) (hnb : NoUS b)
    (h : smartMatchL a b = true) : a = b ∨ sameWords a b = true := by
  have hfold := smartMatch_fold a b ha hb hna hnb h
  simp only [smartMatchL, Bool.and_eq_true, Bool.or_eq_true, beq_iff_eq] at h
  rcases h.2 with e | e
  · exact Or.inl e
  · right
    simp only [sameWords, Bool.and_eq_true, beq_iff_eq]
    refine ⟨⟨hfold.1, hfold.2⟩, ?_⟩
    cases a with
    | nil =>
      cases b with
      | nil => rfl
      | cons d ds => simp at hfold
    | cons c cs =>
      cases b with
      | nil => simp at hfold
      | cons d ds =>
        rw [camel_closed c cs hna, camel_closed d ds hnb] at e
        simp only [List.cons.injEq] at e
        simp only [upFirst, wordStarts] at e ⊢
        exact renderAux_starts _ _ cs ds (ascii_tail ha) (ascii_tail hb) (by simpa using hfold.1) e.2

/-! ## acronym variants are the same words -/

/-- the character before position |pre| when `prev` precedes `pre` -/
def lastCh : Char → List Char → Char
  | p, [] => p
  | _, x :: xs => lastCh x xs

theorem lower_not_upper' (c : Char) (hc : c.toNat < 128) : isLower c = true → isUpper c = false :=
  ascii_law (fun c => isLower c = true → isUpper c = false) (by decide) c hc
theorem upper_not_lower (c : Char) (hc : c.toNat < 128) : isUpper c = true → isLower c = false :=
  ascii_law (fun c => isUpper c = true → isLower c = false) (by decide) c hc
theorem lower_of_upper (c : Char) (hc : c.toNat < 128) : isUpper c = true → isLower (toLower c) = true :=
  ascii_law (fun c => isUpper c = true → isLower (toLower c) = true) (by decide) c hc

/-- how an acronym may continue: nothing, a non-letter, or a capitalised word -/
def PostOk (post : List Char) : Prop :=
  post = [] ∨ (∃ x r, post = x :: r ∧ isUpper x = false ∧ isLower x = false) ∨
  (∃ x y r, post = x :: y :: r ∧ isUpper x = true ∧ isLower y = true)

theorem upper_not_lower_any (x : Char) (hx : isUpper x = true) : isLower x = false := by
  simp only [isUpper, isLower, Bool.and_eq_true, decide_eq_true_eq] at hx ⊢
  simp only [Bool.and_eq_false_iff, decide_eq_false_iff_not]
  left
  intro h
  have h1 := Char.le_def.mp h
  have h2 := Char.le_def.mp hx.2
  have : ('a' : Char).val ≤ ('Z' : Char).val := Nat.le_trans h1 h2
  exact absurd this (by decide)

/-- after the run: the word starts do not depend on the character before `post` -/
theorem starts_post (post : List Char) (hp : PostOk post) (pa pb : Char) :
    wordStartsAux pa post = wordStartsAux pb post := by
  rcases hp with rfl | ⟨x, r, rfl, hx, _⟩ | ⟨x, y, r, rfl, hx, hy⟩
  · rfl
  · rw [wordStartsAux_cons, wordStartsAux_cons, hx]; simp
  · rw [wordStartsAux_cons pa, wordStartsAux_cons pb]
    simp [nextLower, hy]

theorem nextLower_post (post : List Char) (hp : PostOk post) : nextLower post = false := by
  rcases hp with rfl | ⟨x, r, rfl, _, hx⟩ | ⟨x, y, r, rfl, hx, _⟩
  · rfl
  · simpa [nextLower] using hx
  · simpa [nextLower] using upper_not_lower_any x hx

/-- the tail of an all-caps run against its lower-cased spelling: same word starts (none inside the run) -/
theorem starts_run (us post : List Char) (hus : ∀ u ∈ us, isUpper u = true) (hau : Ascii us) (hp : PostOk post)
    (pa pb : Char) (hpa : isLower pa = false) :
    wordStartsAux pa (us ++ post) = wordStartsAux pb (us.map toLower ++ post) := by
  induction us generalizing pa pb with
  | nil => exact starts_post post hp pa pb
  | cons u us ih =>
    have hu : isUpper u = true := hus u List.mem_cons_self
    have hua : u.toNat < 128 := hau u List.mem_cons_self
    simp only [List.cons_append, List.map_cons]
    rw [wordStartsAux_cons, wordStartsAux_cons]
    have hnl : nextLower (us ++ post) = false := by
      cases us with
      | nil => simpa using nextLower_post post hp
      | cons u2 us2 =>
        have := upper_not_lower_any u2 (hus u2 (by simp))
        simpa [nextLower] using this
    have hb : isUpper (toLower u) = false := lower_not_upper u hua
    simp only [hnl, hpa, Bool.or_false, Bool.and_false, hb, Bool.false_and]
    congr 1
    exact ih (fun x hx => hus x (List.mem_cons_of_mem _ hx)) (ascii_tail hau) u (toLower u) (upper_not_lower_any u hu)

/-- the part before the run: identical on both sides, and the run's first letter starts a word in both
    spellings because a lower-case letter precedes it -/
theorem starts_pre (pre : List Char) (U : Char) (ta tb : List Char) (prev : Char)
    (hU : isUpper U = true) (hl : isLower (lastCh prev pre) = true)
    (ht : wordStartsAux U ta = wordStartsAux U tb) :
    wordStartsAux prev (pre ++ U :: ta) = wordStartsAux prev (pre ++ U :: tb) := by
  induction pre generalizing prev with
  | nil =>
    simp only [lastCh] at hl
    simp only [List.nil_append]
    rw [wordStartsAux_cons, wordStartsAux_cons, ht]
    simp [hU, hl]
  | cons p pre ih =>
    simp only [List.cons_append]
    rw [wordStartsAux_cons, wordStartsAux_cons]
    have hn : nextLower (pre ++ U :: ta) = nextLower (pre ++ U :: tb) := by
      cases pre <;> rfl
    rw [hn, ih p (by simpa [lastCh] using hl)]

/-- b is a with the non-initial letters of ONE all-caps run (length ≥ 2) lower-cased: `ID~Id`,
    `LoadXML~LoadXml`, `HTTPServer~HttpServer`. The run starts the name or follows a lower-case letter
    (after Pascal-casing), and is followed by nothing, a non-letter, or a capitalised word. -/
def AcronymStep (a b : List Char) : Prop :=
  ∃ pre U us post, a = pre ++ U :: us ++ post ∧ b = pre ++ U :: us.map toLower ++ post ∧
    isUpper U = true ∧ us ≠ [] ∧ (∀ u ∈ us, isUpper u = true) ∧ PostOk post ∧
    (pre = [] ∨ ∃ q qs, upFirst pre = q :: qs ∧ isLower (lastCh q qs) = true)

/-- purely syntactic "equal up to acronym casing" (one run, either direction) -/
def acronymVariant (a b : List Char) : Prop := AcronymStep a b ∨ AcronymStep b a

theorem upFirst_append (pre rest : List Char) (h : pre ≠ []) : upFirst (pre ++ rest) = upFirst pre ++ rest := by
  cases pre with
  | nil => exact absurd rfl h
  | cons p ps => rfl

theorem sameWords_of_step (a b : List Char) (ha : Ascii a) (h : AcronymStep a b) : sameWords a b = true := by
  obtain ⟨pre, U, us, post, rfl, rfl, hU, hne, hus, hp, hpre⟩ := h
  have hau : Ascii us := fun x hx => ha x (by simp [hx])
  have hUa : U.toNat < 128 := ha U (by simp)
  have hlen : (pre ++ U :: us ++ post).length = (pre ++ U :: us.map toLower ++ post).length := by simp
  have hfold : equalFoldL (pre ++ U :: us ++ post) (pre ++ U :: us.map toLower ++ post) = true := by
    simp only [equalFoldL, List.map_append, List.map_cons, List.map_map, beq_iff_eq]
    congr 3
    apply List.map_congr_left
    intro u hu
    simp only [Function.comp_apply]
    exact (lower_lower u (hau u hu)).symm
  simp only [sameWords, Bool.and_eq_true, beq_iff_eq]
  refine ⟨⟨hlen, hfold⟩, ?_⟩
  have hrun : ∀ p, wordStartsAux U (us ++ post) = wordStartsAux p (us.map toLower ++ post) :=
    fun p => starts_run us post hus hau hp U p (upper_not_lower_any U hU)
  rcases hpre with rfl | ⟨q, qs, hq, hl⟩
  · simp only [List.nil_append, List.cons_append, upFirst, wordStarts]
    rw [upper_of_isUpper U hUa hU]
    exact hrun U
  · have hpne : pre ≠ [] := by
      intro e; subst e; simp [upFirst] at hq
    have e1 : upFirst (pre ++ U :: us ++ post) = q :: (qs ++ U :: (us ++ post)) := by
      rw [List.append_assoc, upFirst_append _ _ hpne, hq]; simp
    have e2 : upFirst (pre ++ U :: us.map toLower ++ post) = q :: (qs ++ U :: (us.map toLower ++ post)) := by
      rw [List.append_assoc, upFirst_append _ _ hpne, hq]; simp
    rw [e1, e2]
    simp only [wordStarts]
    exact starts_pre qs U _ _ q hU hl (hrun U)

/-- symmetry of the spec relation -/
theorem sameWords_symm (a b : List Char) : sameWords a b = sameWords b a := by
  simp only [sameWords, equalFoldL]
  rw [Bool.eq_iff_iff]
  simp only [Bool.and_eq_true, beq_iff_eq]
  constructor <;> rintro ⟨⟨h1, h2⟩, h3⟩ <;> exact ⟨⟨h1.symm, h2.symm⟩, h3.symm⟩

end ShootVerif.Mapper
