import ShootVerif.Spec.Merge
/-! helper lemmas for Props/C08.lean (merge part) -/
namespace ShootVerif.Merge

/-! ### declarations -/

theorem declLoop_eq (f : File) (ds : List Decl) (acc : List Item) :
    declLoop f ds acc = acc ++ (ds.filter (fun d => !d.isImport)).map (item f) := by
  induction ds generalizing acc with
  | nil => simp [declLoop]
  | cons d ds ih =>
    cases h : d.isImport <;> simp [declLoop, h, ih]

theorem fileLoop_eq (fs : List File) (acc : List Item) :
    fileLoop fs acc = acc ++ fs.flatMap (fun f => (f.decls.filter (fun d => !d.isImport)).map (item f)) := by
  induction fs generalizing acc with
  | nil => simp [fileLoop]
  | cons f fs ih => simp [fileLoop, ih, declLoop_eq, List.flatMap_cons]

theorem fileLoop_texts (fs : List File) :
    (fileLoop fs []).map (·.text) = fs.flatMap (fun f => (f.decls.filter (fun d => !d.isImport)).map (·.text)) := by
  rw [fileLoop_eq]
  induction fs with
  | nil => simp
  | cons f fs ih =>
    simp only [List.nil_append, List.flatMap_cons, List.map_append] at *
    rw [ih]
    simp [item, Function.comp_def]

/-- "attached" and "own" coincide (the premise is the parser invariant `docBefore`) -/
theorem attached_eq_own {f : File} (h : docBefore f = true) {d : Decl} (hd : d ∈ f.decls)
    {c : Comment} (hc : c ∈ f.comments) : attached d c = own d c := by
  simp only [docBefore, List.all_eq_true] at h
  have h2 := h d hd c hc
  simp only [attached, own, inside, isDoc] at *
  cases hin : (decide (d.pos ≤ c.pos) && decide (c.pos ≤ d.endp)) with
  | true => simp
  | false =>
    simp only [Bool.false_or]
    by_cases hdoc : d.docPos = some c.pos
    · have : c.endp ≤ d.pos := by simpa [hdoc] using h2
      simp [hdoc, this]
    · simp [hdoc]

theorem item_eq_specItem {f : File} (h : docBefore f = true) {d : Decl} (hd : d ∈ f.decls) :
    item f d = specItem f d := by
  simp only [item, specItem, attach]
  congr 2
  apply List.filter_congr
  intro c hc
  exact attached_eq_own h hd hc

theorem items_eq_spec_file {f : File} (h : docBefore f = true) :
    (f.decls.filter (fun d => !d.isImport)).map (item f) = specItemsOf f := by
  simp only [specItemsOf]
  apply List.map_congr_left
  intro d hd
  rw [List.mem_filter] at hd
  exact item_eq_specItem h hd.1

theorem fileLoop_eq_spec (fs : List File) (h : fs.all docBefore = true) : fileLoop fs [] = specItems fs := by
  rw [fileLoop_eq]
  simp only [List.nil_append, specItems]
  induction fs with
  | nil => rfl
  | cons f fs ih =>
    simp only [List.all_cons, Bool.and_eq_true] at h
    simp only [List.flatMap_cons]
    rw [items_eq_spec_file h.1, ih h.2]

/-! ### imports -/

theorem impFold_eq (is : List Import) (a : ImpAcc) :
    (is.foldl impStep a).out = a.out ++ (firstOcc is).filter (fun j => j.key ∉ a.seen) := by
  induction is generalizing a with
  | nil => simp [firstOcc]
  | cons i r ih =>
    simp only [List.foldl_cons]
    rw [ih]
    have hfo : firstOcc (i :: r) = i :: (firstOcc r).filter (fun j => j.key ≠ i.key) := by simp [firstOcc]
    rw [hfo]
    by_cases hs : i.key ∈ a.seen
    · simp only [impStep, hs, ↓reduceIte, List.filter_cons, decide_not, decide_true, Bool.not_true,
        Bool.false_eq_true, List.filter_filter]
      congr 1
      apply List.filter_congr
      intro j _
      by_cases hj : j.key ∈ a.seen
      · simp [hj]
      · have : j.key ≠ i.key := fun e => hj (e ▸ hs)
        simp [hj, this]
    · simp only [impStep, hs, ↓reduceIte, List.filter_cons, decide_not, decide_false, Bool.not_false,
        List.append_assoc, List.singleton_append, List.filter_filter]
      congr 2
      apply List.filter_congr
      intro j _
      by_cases hj : j.key = i.key <;> simp [hj]

theorem impFiles_eq (fs : List File) (a : ImpAcc) :
    fs.foldl impFile a = (fs.flatMap (·.imports)).foldl impStep a := by
  rw [List.foldl_flatMap]; rfl

theorem mergeImports_eq (fs : List File) : mergeImports fs = specImports fs := by
  simp [mergeImports, specImports, impFiles_eq, impFold_eq]

theorem firstOcc_sub (is : List Import) : ∀ i, i ∈ firstOcc is → i ∈ is := by
  induction is with
  | nil => simp [firstOcc]
  | cons x r ih =>
    intro i hi
    have hfo : firstOcc (x :: r) = x :: (firstOcc r).filter (fun j => j.key ≠ x.key) := by simp [firstOcc]
    rw [hfo] at hi
    rcases List.mem_cons.mp hi with h | h
    · simp [h]
    · exact List.mem_cons_of_mem _ (ih i (List.mem_filter.mp h).1)

theorem firstOcc_keys (is : List Import) : ∀ k, k ∈ (firstOcc is).map Import.key ↔ k ∈ is.map Import.key := by
  induction is with
  | nil => simp [firstOcc]
  | cons x r ih =>
    intro k
    have hfo : firstOcc (x :: r) = x :: (firstOcc r).filter (fun j => j.key ≠ x.key) := by simp [firstOcc]
    rw [hfo]
    simp only [List.map_cons, List.mem_cons]
    by_cases hk : k = x.key
    · simp [hk]
    · simp only [hk, false_or]
      rw [← ih k]
      simp only [List.mem_map, List.mem_filter, decide_not, Bool.not_eq_eq_eq_not, Bool.not_true,
        decide_eq_false_iff_not]
      constructor
      · rintro ⟨j, ⟨hj, _⟩, rfl⟩; exact ⟨j, hj, rfl⟩
      · rintro ⟨j, hj, rfl⟩; exact ⟨j, ⟨hj, hk⟩, rfl⟩

theorem firstOcc_nodup (is : List Import) : ((firstOcc is).map Import.key).Nodup := by
  induction is with
  | nil => simp [firstOcc]
  | cons x r ih =>
    have hfo : firstOcc (x :: r) = x :: (firstOcc r).filter (fun j => j.key ≠ x.key) := by simp [firstOcc]
    rw [hfo]
    simp only [List.map_cons, List.nodup_cons]
    constructor
    · simp only [List.mem_map, List.mem_filter, decide_not, Bool.not_eq_eq_eq_not, Bool.not_true,
        decide_eq_false_iff_not, not_exists, not_and]
      intro j hj e
      exact hj.2 e
    · have hsub : ((firstOcc r).filter (fun j => j.key ≠ x.key)).Sublist (firstOcc r) := List.filter_sublist
      exact (hsub.map Import.key).nodup ih

/-- no duplicates to begin with: nothing is removed and nothing is reordered -/
theorem firstOcc_of_nodup (is : List Import) (h : (is.map Import.key).Nodup) : firstOcc is = is := by
  induction is with
  | nil => simp [firstOcc]
  | cons x r ih =>
    have hfo : firstOcc (x :: r) = x :: (firstOcc r).filter (fun j => j.key ≠ x.key) := by simp [firstOcc]
    simp only [List.map_cons, List.nodup_cons] at h
    rw [hfo, ih h.2]
    congr 1
    apply List.filter_eq_self.mpr
    intro j hj
    have : j.key ≠ x.key := fun e => h.1 (e ▸ List.mem_map_of_mem hj)
    simpa using this

/-! ### the de-duplication key `Path.Value + Name.Name` determines the (name, path) pair -/

/-- an import spec as go/parser delivers it: the path is a quoted literal (ends with `"`), the local name is an
    identifier (contains no `"`) -/
def Import.quoted (i : Import) : Prop := i.path.toList.getLast? = some '"' ∧ '"' ∉ i.name.toList

theorem split_at_quote {q : Char} : ∀ (xs ys r s : List Char), q ∉ xs → q ∉ ys → xs ++ q :: r = ys ++ q :: s → xs = ys ∧ r = s := by
  intro xs
  induction xs with
  | nil =>
    intro ys r s _ hy h
    cases ys with
    | nil => simp at h; exact ⟨rfl, h⟩
    | cons y ys =>
      simp only [List.nil_append, List.cons_append, List.cons.injEq] at h
      exact absurd (h.1 ▸ List.mem_cons_self ..) hy
  | cons x xs ih =>
    intro ys r s hx hy h
    cases ys with
    | nil =>
      simp only [List.nil_append, List.cons_append, List.cons.injEq] at h
      exact absurd (h.1 ▸ List.mem_cons_self ..) hx
    | cons y ys =>
      simp only [List.cons_append, List.cons.injEq] at h
      have := ih ys r s (fun m => hx (List.mem_cons_of_mem _ m)) (fun m => hy (List.mem_cons_of_mem _ m)) h.2
      exact ⟨by rw [h.1, this.1], this.2⟩

theorem key_inj {a b : Import} (ha : a.quoted) (hb : b.quoted) (h : a.key = b.key) : a = b := by
  have hl := congrArg String.toList h
  simp only [Import.key, String.toList_append] at hl
  have hr := congrArg List.reverse hl
  simp only [List.reverse_append] at hr
  -- the reversed paths start with the closing quote
  obtain ⟨pa, hpa⟩ : ∃ pa, a.path.toList.reverse = '"' :: pa := by
    have := ha.1
    cases hrev : a.path.toList.reverse with
    | nil => simp [List.getLast?_eq_head?_reverse, hrev] at this
    | cons c cs =>
      rw [List.getLast?_eq_head?_reverse, hrev] at this
      simp only [List.head?_cons, Option.some.injEq] at this
      exact ⟨cs, by rw [this]⟩
  obtain ⟨pb, hpb⟩ : ∃ pb, b.path.toList.reverse = '"' :: pb := by
    have := hb.1
    cases hrev : b.path.toList.reverse with
    | nil => simp [List.getLast?_eq_head?_reverse, hrev] at this
    | cons c cs =>
      rw [List.getLast?_eq_head?_reverse, hrev] at this
      simp only [List.head?_cons, Option.some.injEq] at this
      exact ⟨cs, by rw [this]⟩
  rw [hpa, hpb] at hr
  have hs := split_at_quote _ _ _ _ (by simpa using ha.2) (by simpa using hb.2) hr
  have hn : a.name = b.name := String.toList_inj.mp (List.reverse_inj.mp hs.1)
  have hp : a.path = b.path := by
    apply String.toList_inj.mp
    apply List.reverse_inj.mp
    rw [hpa, hpb, hs.2]
  cases a; cases b; simp_all

/-- with parser-shaped import specs the merged import list holds exactly the (name, path) pairs that occur in the files -/
theorem firstOcc_mem_iff (is : List Import) (hq : ∀ i ∈ is, i.quoted) (i : Import) : i ∈ firstOcc is ↔ i ∈ is := by
  constructor
  · exact firstOcc_sub is i
  · intro hi
    have : i.key ∈ (firstOcc is).map Import.key := (firstOcc_keys is i.key).mpr (List.mem_map_of_mem hi)
    obtain ⟨j, hj, hk⟩ := List.mem_map.mp this
    have hjq := hq j (firstOcc_sub is j hj)
    rw [← key_inj hjq (hq i hi) hk]
    exact hj

theorem nodup_of_nodup_map {α β : Type} (f : α → β) : ∀ (l : List α), (l.map f).Nodup → l.Nodup := by
  intro l
  induction l with
  | nil => intro _; exact List.nodup_nil
  | cons a l ih =>
    intro h
    simp only [List.map_cons, List.nodup_cons] at h
    rw [List.nodup_cons]
    exact ⟨fun hm => h.1 (List.mem_map_of_mem hm), ih h.2⟩

end ShootVerif.Merge
