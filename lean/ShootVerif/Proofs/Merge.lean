import ShootVerif.Spec.Merge
/-! helper lemmas for Props/C08.lean (merge part) -/
namespace ShootVerif.Merge

/-! ### declarations -/

theorem declLoop_eq (f : File) (ds : List Decl) (acc : List Item) :
    declLoop f ds acc = acc ++ (ds.filter (fun d => !d.isImport)).map (item f) := by
  induction ds generalizing acc with
  | nil => simp [declLoop]
  | cons d ds ih =>
    cases h : d.isImport <;> simp [declLoop, h, ih]

theorem fileLoop_eq (fs : List File) (acc : List Item) :
    fileLoop fs acc = acc ++ fs.flatMap (fun f => (f.decls.filter (fun d => !d.isImport)).map (item f)) := by
  induction fs generalizing acc with
  | nil => simp [fileLoop]
  | cons f fs ih => simp [fileLoop, ih, declLoop_eq, List.flatMap_cons]

theorem fileLoop_texts (fs : List File) :
    (fileLoop fs []).map (·.text) = fs.flatMap (fun f => (f.decls.filter (fun d => !d.isImport)).map (·.text)) := by
  rw [fileLoop_eq]
  induction fs with
  | nil => simp
  | cons f fs ih =>
    simp only [List.nil_append, List.flatMap_cons, List.map_append] at *
    rw [ih]
    simp [item, Function.comp_def]

/-- "attached" and "own" coincide (the premise is the parser invariant `docBefore`) -/
theorem attached_eq_own {f : File} (h : docBefore f = true) {d : Decl} (hd : d ∈ f.decls)
    {c : Comment} (hc : c ∈ f.comments) : attached d c = own d c := by
  simp only [docBefore, List.all_eq_true] at h
  have h2 := h d hd c hc
  simp only [attached, own, inside, isDoc] at *
  cases hin : (decide (d.pos ≤ c.pos) && decide (c.pos ≤ d.endp)) with
  | true => simp
  | false =>
    simp only [Bool.false_or]
    by_cases hdoc : d.docPos = some c.pos
    · have : c.endp ≤ d.pos := by simpa [hdoc] using h2
      simp [hdoc, this]
    · simp [hdoc]

theorem item_eq_specItem {f : File} (h : docBefore f = true) {d : Decl} (hd : d ∈ f.decls) :
    item f d = specItem f d := by
  simp only [item, specItem, attach]
  congr 2
  apply List.filter_congr
  intro c hc
  exact attached_eq_own h hd hc

theorem items_eq_spec_file {f : File} (h : docBefore f = true) :
    (f.decls.filter (fun d => !d.isImport)).map (item f) = specItemsOf f := by
  simp only [specItemsOf]
  apply List.map_congr_left
  intro d hd
  rw [List.mem_filter] at hd
  exact item_eq_specItem h hd.1

theorem fileLoop_eq_spec (fs : List File) (h : fs.all docBefore = true) : fileLoop fs [] = specItems fs := by
  rw [fileLoop_eq]
  simp only [List.nil_append, specItems]
  induction fs with
  | nil => rfl
  | cons f fs ih =>
    simp only [List.all_cons, Bool.and_eq_true] at h
    simp only [List.flatMap_cons]
    rw [items_eq_spec_file h.1, ih h.2]

/-! ### imports -/

theorem impFold_eq (is : List Import) (a : ImpAcc) :
    (is.foldl impStep a).out = a.out ++ (firstOcc is).filter (fun j => j.key ∉ a.seen) := by
  induction is generalizing a with
  | nil => simp [firstOcc]
  | cons i r ih =>
    simp only [List.foldl_cons]
    rw [ih]
    have hfo : firstOcc (i :: r) = i :: (firstOcc r).filter (fun j => j.key ≠ i.key) := by simp [firstOcc]
    rw [hfo]
    by_cases hs : i.key ∈ a.seen
    · simp only [impStep, hs, ↓reduceIte, List.filter_cons, decide_not, decide_true, Bool.not_true,
        Bool.false_eq_true, List.filter_filter]
      congr 1
      apply List.filter_congr
      intro j _
      by_cases hj : j.key ∈ a.seen
      · simp [hj]
      · have : j.key ≠ i.key := fun e => hj (e ▸ hs)
        simp [hj, this]
    · simp only [impStep, hs, ↓reduceIte, List.filter_cons, decide_not, decide_false, Bool.not_false,
        List.append_assoc, List.singleton_append, List.filter_filter]
      congr 2
      apply List.filter_congr
      intro j _
      by_cases hj : j.key = i.key <;> simp [hj]

theorem impFiles_eq (fs : List File) (a : ImpAcc) :
    fs.foldl impFile a = (fs.flatMap (·.imports)).foldl impStep a := by
  rw [List.foldl_flatMap]; rfl

theorem mergeImports_eq (fs : List File) : mergeImports fs = specImports fs := by
  simp [mergeImports, specImports, impFiles_eq, impFold_eq]

theorem firstOcc_sub (is : List Import) : ∀ i, i ∈ firstOcc is → i ∈ is := by
  induction is with
  | nil => simp [firstOcc]
  | cons x r ih =>
    intro i hi
    have hfo : firstOcc (x :: r) = x :: (firstOcc r).filter (fun j => j.key ≠ x.key) := by simp [firstOcc]
    rw [hfo] at hi
    rcases List.mem_cons.mp hi with h | h
    · simp [h]
    · exact List.mem_cons_of_mem _ (ih i (List.mem_filter.mp h).1)

theorem firstOcc_keys (is : List Import) : ∀ k, k ∈ (firstOcc is).map Import.key ↔ k ∈ is.map Import.key := by
  induction is with
  | nil => simp [firstOcc]
  | cons x r ih =>
    intro k
    have hfo : firstOcc (x :: r) = x :: (firstOcc r).filter (fun j => j.key ≠ x.key) := by simp [firstOcc]
    rw [hfo]
    simp only [List.map_cons, List.mem_cons]
    by_cases hk : k = x.key
    · simp [hk]
    · simp only [hk, false_or]
      rw [← ih k]
      simp only [List.mem_map, List.mem_filter, decide_not, Bool.not_eq_eq_eq_not, Bool.not_true,
        decide_eq_false_iff_not]
      constructor
      · rintro ⟨j, ⟨hj, _⟩, rfl⟩; exact ⟨j, hj, rfl⟩
      · rintro ⟨j, hj, rfl⟩; exact ⟨j, ⟨hj, hk⟩, rfl⟩

theorem firstOcc_nodup (is : List Import) : ((firstOcc is).map Import.key).Nodup := by
  induction is with
  | nil => simp [firstOcc]
  | cons x r ih =>
    have hfo : firstOcc (x :: r) = x :: (firstOcc r).filter (fun j => j.key ≠ x.key) := by simp [firstOcc]
    rw [hfo]
    simp only [List.map_cons, List.nodup_cons]
    constructor
    · simp only [List.mem_map, List.mem_filter, decide_not, Bool.not_eq_eq_eq_not, Bool.not_true,
        decide_eq_false_iff_not, not_exists, not_and]
      intro j hj e
      exact hj.2 e
    · have hsub : ((firstOcc r).filter (fun j => j.key ≠ x.key)).Sublist (firstOcc r) := List.filter_sublist
      exact (hsub.map Import.key).nodup ih

/-- no duplicates to begin with: nothing is removed and nothing is reordered -/
theorem firstOcc_of_nodup (is : List Import) (h : (is.map Import.key).Nodup) : firstOcc is = is := by
  induction is with
  | nil => simp [firstOcc]
  | cons x r ih =>
    have hfo : firstOcc (x :: r) = x :: (firstOcc r).filter (fun j => j.key ≠ x.key) := by simp [firstOcc]
    simp only [List.map_cons, List.nodup_cons] at h
    rw [hfo, ih h.2]
    congr 1
    apply List.filter_eq_self.mpr
    intro j hj
    have : j.key ≠ x.key := fun e => h.1 (e ▸ List.mem_map_of_mem hj)
    simpa using this

end ShootVerif.Merge
