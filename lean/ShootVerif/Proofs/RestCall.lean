import ShootVerif.Spec.RestCall
/-! Helper lemmas for C10: the status switch in closed form. -/
namespace ShootVerif.RestCall

theorem classify_none_iff (s : Int) : classify s = none ↔ 200 ≤ s ∧ s < 300 := by
  unfold classify
  constructor
  · intro h
    split at h
    · cases h
    · split at h
      · cases h
      · split at h
        · cases h
        · omega
  · intro ⟨h1, h2⟩
    rw [if_neg (by omega), if_neg (by omega), if_neg (by omega)]

theorem classify_server_iff (s : Int) : classify s = some .server ↔ 500 ≤ s := by
  unfold classify
  constructor
  · intro h
    split at h
    · assumption
    · split at h
      · cases h
      · split at h <;> cases h
  · intro h
    rw [if_pos (by omega)]

theorem classify_client_iff (s : Int) : classify s = some .client ↔ 400 ≤ s ∧ s < 500 := by
  unfold classify
  constructor
  · intro h
    split at h
    · cases h
    · split at h
      · omega
      · split at h <;> cases h
  · intro ⟨h1, h2⟩
    rw [if_neg (by omega), if_pos (by omega)]

theorem classify_notSupported_iff (s : Int) :
    classify s = some .notSupported ↔ s < 200 ∨ (300 ≤ s ∧ s < 400) := by
  unfold classify
  constructor
  · intro h
    split at h
    · cases h
    · split at h
      · cases h
      · split at h
        · omega
        · cases h
  · intro h
    rw [if_neg (by omega), if_neg (by omega), if_pos (by omega)]

/-- the switch never produces a decode or transport error -/
theorem classify_range (s : Int) :
    classify s = none ∨ classify s = some .server ∨ classify s = some .client ∨ classify s = some .notSupported := by
  unfold classify
  split
  · simp
  · split
    · simp
    · split <;> simp

theorem switchErr_none_iff (s : Int) : switchErr s = none ↔ 200 ≤ s ∧ s < 300 := by
  rw [← classify_none_iff]
  unfold switchErr
  rcases classify_range s with h | h | h | h <;> simp [h]

theorem switchErr_server (s : Int) (h : 500 ≤ s) : switchErr s = some ⟨.server, true, true⟩ := by
  simp [switchErr, (classify_server_iff s).2 h]

theorem switchErr_client (s : Int) (h1 : 400 ≤ s) (h2 : s < 500) : switchErr s = some ⟨.client, true, true⟩ := by
  simp [switchErr, (classify_client_iff s).2 ⟨h1, h2⟩]

theorem switchErr_notSupported (s : Int) (h : s < 200 ∨ (300 ≤ s ∧ s < 400)) :
    switchErr s = some ⟨.notSupported, true, false⟩ := by
  simp [switchErr, (classify_notSupported_iff s).2 h]

/-- the four status bands, exhaustive -/
theorem status_bands (s : Int) :
    (200 ≤ s ∧ s < 300) ∨ (400 ≤ s ∧ s < 500) ∨ 500 ≤ s ∨ (s < 200 ∨ (300 ≤ s ∧ s < 400)) := by omega

theorem call_2xx (shape : Shape) (s : Int) (b : Body) (h : 200 ≤ s ∧ s < 300) :
    call shape (.resp s b) = tail shape b := by
  simp [call, (switchErr_none_iff s).2 h]

theorem call_err (shape : Shape) (s : Int) (b : Body) (e : Err) (h : switchErr s = some e) :
    call shape (.resp s b) = ⟨nilResult shape, true, some e⟩ := by
  simp [call, h]

end ShootVerif.RestCall
