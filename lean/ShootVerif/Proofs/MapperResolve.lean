import ShootVerif.Proofs.MapperFlatten
import ShootVerif.Proofs.MapperTables
/-
The field collector against Go's selector rule: the entry `flatten` keeps for a name is the leaf Go selects by that
name (same path, same type), given clauses about the INPUT alone — so `WF09`'s per-statement clauses ("the generator's
Path is the path the emitted selector resolves to") need not be evaluated on the plan of each input.
-/
namespace ShootVerif.Mapper

def fieldOf (l : Leaf) : Field := { name := l.decl.name, path := l.path, ty := l.decl.ty, depth := l.depth }

theorem walkNested_leaves (t : Tree) : ∀ (pre : List String) (d : Nat),
    walkNested pre d t = ((leavesAt pre d t).filter (fun l => l.decl.tag != .skip)).map fieldOf := by
  induction t with
  | nil => intro pre d; rfl
  | field f rest ih =>
    intro pre d
    simp only [walkNested, leavesAt, List.filter_cons, ih]
    by_cases h : f.tag = .skip
    · simp [h]
    · simp [h, fieldOf]
  | embed n p body rest ihb ihr =>
    intro pre d
    simp only [walkNested, leavesAt, List.filter_append, List.map_append, ihb, ihr]

theorem walkTop_eq (t : Tree) : walkTop t = walkNested [] 0 t := by
  induction t with
  | nil => rfl
  | field f rest ih => simp only [walkTop, walkNested, ih, List.nil_append]
  | embed n p body rest ihb ihr => simp only [walkTop, walkNested, ihr, List.nil_append, Nat.zero_add]

theorem walkTop_leaves (t : Tree) :
    walkTop t = ((leavesOf t).filter (fun l => l.decl.tag != .skip)).map fieldOf := by
  rw [walkTop_eq, walkNested_leaves]; rfl

theorem leaf_member (t : Tree) : ∀ (pre : List String) (d : Nat) (l : Leaf), l ∈ leavesAt pre d t →
    (l.decl.name, l.depth) ∈ members d t := by
  induction t with
  | nil => intro pre d l h; cases h
  | field f rest ih =>
    intro pre d l h
    simp only [leavesAt, List.mem_cons] at h
    simp only [members, List.mem_cons]
    rcases h with rfl | h
    · exact Or.inl rfl
    · exact Or.inr (ih pre d l h)
  | embed n p body rest ihb ihr =>
    intro pre d l h
    simp only [leavesAt, List.mem_append] at h
    simp only [members, List.mem_cons, List.mem_append]
    rcases h with h | h
    · exact Or.inr (Or.inl (ihb _ _ l h))
    · exact Or.inr (Or.inr (ihr _ _ l h))

theorem leaf_depth_ge (t : Tree) : ∀ (pre : List String) (d : Nat) (l : Leaf), l ∈ leavesAt pre d t → d ≤ l.depth := by
  induction t with
  | nil => intro pre d l h; cases h
  | field f rest ih =>
    intro pre d l h
    simp only [leavesAt, List.mem_cons] at h
    rcases h with rfl | h
    · exact Nat.le_refl _
    · exact ih pre d l h
  | embed n p body rest ihb ihr =>
    intro pre d l h
    simp only [leavesAt, List.mem_append] at h
    rcases h with h | h
    · have := ihb _ _ l h; omega
    · exact ihr _ _ l h

/-- a `map:"-"` leaf at the top level is in `skippedTop` -/
theorem skip_top (t : Tree) : ∀ (pre : List String) (l : Leaf), l ∈ leavesAt pre 0 t → l.depth = 0 → l.decl.tag = .skip →
    l.decl.name ∈ skippedTop t := by
  induction t with
  | nil => intro pre l h; cases h
  | field f rest ih =>
    intro pre l h h0 hs
    simp only [leavesAt, List.mem_cons] at h
    simp only [skippedTop, List.mem_append]
    rcases h with rfl | h
    · left; simp at hs; simp [hs]
    · exact Or.inr (ih pre l h h0 hs)
  | embed n p body rest ihb ihr =>
    intro pre l h h0 hs
    simp only [leavesAt, List.mem_append] at h
    simp only [skippedTop]
    rcases h with h | h
    · have := leaf_depth_ge body _ _ l h; omega
    · exact ihr pre l h h0 hs

theorem foldl_min_le (xs : List (String × Nat)) (a : Nat) :
    xs.foldl (fun a x => min a x.2) a ≤ a ∧ ∀ x ∈ xs, xs.foldl (fun a x => min a x.2) a ≤ x.2 := by
  induction xs generalizing a with
  | nil => simp
  | cons y ys ih =>
    simp only [List.foldl_cons, List.mem_cons]
    have h := ih (min a y.2)
    refine ⟨by have := h.1; omega, ?_⟩
    rintro x (rfl | hx)
    · have := h.1; omega
    · exact h.2 x hx

/-- what a successful selector resolution means -/
theorem goResolve_some (t : Tree) (n : String) (l : Leaf) (h : goResolve t n = some l) :
    l ∈ leavesOf t ∧ l.decl.name = n ∧
    (∀ m ∈ leavesOf t, m.decl.name = n → l.depth ≤ m.depth) ∧
    (∀ m ∈ leavesOf t, m.decl.name = n → m.depth = l.depth → m = l) := by
  unfold goResolve at h
  simp only at h
  split at h
  · cases h
  · rename_i m rest hms
    split at h
    · cases h
    · split at h
      · rename_i l' hl
        cases h
        have hmem : l ∈ (leavesOf t).filter (fun x => x.decl.name == n && x.depth == rest.foldl (fun a x => min a x.2) m.2) := by
          rw [hl]; simp
        simp only [List.mem_filter, Bool.and_eq_true, beq_iff_eq] at hmem
        obtain ⟨hl1, hl2, hl3⟩ := hmem
        refine ⟨hl1, hl2, ?_, ?_⟩
        · intro x hx hn
          have hxm : (x.decl.name, x.depth) ∈ (members 0 t).filter (fun y => y.1 == n) := by
            simp only [List.mem_filter, beq_iff_eq]
            exact ⟨leaf_member t [] 0 x hx, hn⟩
          rw [hms] at hxm
          have hf := foldl_min_le rest m.2
          rw [hl3]
          rcases List.mem_cons.mp hxm with e | e
          · have e2 : x.depth = m.2 := congrArg Prod.snd e
            rw [e2]; exact hf.1
          · exact hf.2 _ e
        · intro x hx hn hd
          have : x ∈ (leavesOf t).filter (fun x => x.decl.name == n && x.depth == rest.foldl (fun a x => min a x.2) m.2) := by
            simp only [List.mem_filter, Bool.and_eq_true, beq_iff_eq]
            exact ⟨hx, hn, hd.trans hl3⟩
          rw [hl] at this
          simpa using this
      · cases h


/-- one side of `F_skipShadow` -/
def skipShadowT (t : Tree) : Bool :=
  (leavesOf t).any (fun l => l.depth > 0 && l.decl.tag == .skip &&
    (leavesOf t).any (fun m => m.depth > l.depth && m.decl.name == l.decl.name))

theorem F_skipShadow_eq (inp : Input) : F_skipShadow inp = (skipShadowT inp.src || skipShadowT inp.dest) := rfl

/-- the field collector and Go's selector rule agree: under the input-level clauses (every field name resolves: `wfSelectors`;
    no promoted `map:"-"` field with a deeper namesake) the entry `flatten` keeps for a name IS the leaf Go selects by that name —
    same path, same type, and it is not a left-out field -/
theorem flatten_resolves (t : Tree) (hsel : wfSelectors t = true) (hsh : skipShadowT t = false)
    (f : Field) (hf : f ∈ flatten t) :
    ∃ l, goResolve t f.name = some l ∧ l ∈ leavesOf t ∧ l.path = f.path ∧ l.decl.ty = f.ty ∧ l.decl.name = f.name ∧
      l.depth = f.depth ∧ l.decl.tag ≠ .skip := by
  obtain ⟨_, hfrom, hmin, _⟩ := flatten_shallowest t
  obtain ⟨hnskip, g, hg, hsame⟩ := hfrom f hf
  rw [walkTop_leaves] at hg
  obtain ⟨lg, hlg, rfl⟩ := List.mem_map.mp hg
  simp only [List.mem_filter, bne_iff_ne, ne_eq] at hlg
  obtain ⟨hlgm, hlgt⟩ := hlg
  obtain ⟨e1, e2, e3, e4⟩ := hsame
  simp only [fieldOf] at e1 e2 e3 e4
  simp only [wfSelectors, List.all_eq_true, Bool.and_eq_true] at hsel
  have hres := (hsel lg hlgm).1
  rw [← e1] at hres
  cases hr : goResolve t f.name with
  | none => rw [hr] at hres; cases hres
  | some l' =>
    obtain ⟨hl1, hl2, hl3, hl4⟩ := goResolve_some t f.name l' hr
    have hdle : l'.depth ≤ lg.depth := hl3 lg hlgm e1.symm
    by_cases hsk : l'.decl.tag = .skip
    · exfalso
      by_cases h0 : l'.depth = 0
      · exact hnskip (hl2 ▸ skip_top t [] l' hl1 h0 hsk)
      · have hne : lg.depth ≠ l'.depth := by
          intro e
          have := hl4 lg hlgm e1.symm e
          rw [this] at hlgt
          exact hlgt hsk
        have : skipShadowT t = true := by
          simp only [skipShadowT, List.any_eq_true, Bool.and_eq_true, decide_eq_true_eq, beq_iff_eq]
          exact ⟨l', hl1, ⟨by omega, hsk⟩, lg, hlgm, by omega, e1.symm.trans hl2.symm⟩
        rw [hsh] at this; cases this
    · have hw : fieldOf l' ∈ walkTop t := by
        rw [walkTop_leaves]
        exact List.mem_map.mpr ⟨l', by simp [hl1, hsk], rfl⟩
      have := hmin f hf (fieldOf l') hw (by simp [fieldOf, hl2])
      simp only [fieldOf] at this
      have hde : lg.depth = l'.depth := by omega
      have hlg' := hl4 lg hlgm e1.symm hde
      subst hlg'
      exact ⟨lg, rfl, hlgm, e2.symm, e3.symm, e1.symm, e4.symm, hsk⟩


/-- the generator's `Path` of every plain field is the path Go resolves the selector to -/
theorem pathAgrees_of_input (t : Tree) (hsel : wfSelectors t = true) (hsh : skipShadowT t = false)
    (f : Field) (hf : f ∈ sideFields t false) : pathAgrees t f = true := by
  have hfl := sideFields_plain_flags t f hf
  have hf' : f ∈ flatten t := by
    simp only [sideFields, Bool.false_eq_true, ↓reduceIte, List.mem_filter] at hf
    exact hf.1
  obtain ⟨l, hl, _, hp, _⟩ := flatten_resolves t hsel hsh f hf'
  simp [pathAgrees, resolveField, hfl.1, hfl.2, hl, hp]

/-- `WF09` follows from clauses about the INPUT alone: plain sides, the mapper type not embedded by pointer (or unused),
    every field name resolves (`wfSelectors`, a clause of the grammar), no promoted `map:"-"` field with a deeper namesake -/
theorem WF09_of_input (inp : Input) (hs : inp.srcNew = false) (hd : inp.destNew = false)
    (hm : (inp.mapperPtr != some true || (!hasFunc (plan inp).toStmts && !hasFunc (plan inp).fromStmts)) = true)
    (h1 : wfSelectors inp.src = true) (h2 : wfSelectors inp.dest = true) (hsh : F_skipShadow inp = false) :
    WF09 inp = true := by
  rw [F_skipShadow_eq, Bool.or_eq_false_iff] at hsh
  obtain ⟨_, _, hinv⟩ := plan_inv inp
  have hsf : (plan inp).srcFields = sideFields inp.src false := by simp [plan, hs]
  have hdf : (plan inp).destFields = sideFields inp.dest false := by simp [plan, hd]
  simp only [WF09, Bool.and_eq_true, List.all_eq_true, hs, hd, Bool.not_false, true_and, hm]
  refine ⟨?_, ?_⟩
  · intro c hc
    have hp := (hinv.toPair c (stmts_sub hc).1).1
    have hmm := (mem_pairs _ _ _ _ _).mp hp
    exact ⟨pathAgrees_of_input _ h1 hsh.1 _ (hsf ▸ hmm.1), pathAgrees_of_input _ h2 hsh.2 _ (hdf ▸ hmm.2.1)⟩
  · intro c hc
    have hp := (hinv.fromPair c (stmts_sub hc).1).1
    have hmm := (mem_pairs _ _ _ _ _).mp hp
    exact ⟨pathAgrees_of_input _ h2 hsh.2 _ (hdf ▸ hmm.2.1), pathAgrees_of_input _ h1 hsh.1 _ (hsf ▸ hmm.1)⟩

end ShootVerif.Mapper
