import ShootVerif.Proofs.MapperCtor
import ShootVerif.Proofs.MapperPairs
/-
C15: `makeCtorMatch` in closed form. The double loop `for f in fields { for p in params { … } }` against the write-set is a
fold of attempts (`dopt`, the same step the field loops are projected onto); without any uniqueness assumption the claim on
a written name is made by the FIRST attempt on that name that carries a strategy (`foldl_dopt_first`). Hence: parameter `p`
takes the first readable, name-matched field of a fitting type, with strategy `ctorStrat` (= C05's `pairStrat` wherever
that is not a recursive mapping), or the zero literal.
-/
namespace ShootVerif.Mapper

theorem dopt_w_mem (d : Dir) (a : Attempt) (n : String) :
    n ∈ (dopt d a).w ↔ n ∈ d.w ∨ ((effClaim a).isSome = true ∧ a.2.1.name = n) := by
  have := foldl_dopt_w [a] d n
  simpa using this

theorem effClaim_wr {a : Attempt} {c : Claim} (h : effClaim a = some c) : c.wr = a.2.1 ∧ c.rd = a.1 := by
  obtain ⟨rd, wr, o⟩ := a
  obtain ⟨_, s, _, rfl⟩ := (effClaim_some rd wr o c).mp h
  exact ⟨rfl, rfl⟩

theorem dopt_cs_mem (d : Dir) (a : Attempt) (c : Claim) :
    c ∈ (dopt d a).cs ↔ c ∈ d.cs ∨ (a.2.1.name ∉ d.w ∧ effClaim a = some c) := by
  rw [dopt_cs, List.mem_append]
  by_cases h : a.2.1.name ∈ d.w
  · simp [h]
  · simp only [List.contains_iff_mem, h, ↓reduceIte, not_false_eq_true, true_and]
    cases he : effClaim a <;> simp [eq_comm]

/-- folding attempts over a write-set, no uniqueness assumed: the claim on a written name is made by the FIRST attempt
    on that name that carries a strategy -/
theorem foldl_dopt_first (A : List Attempt) (d : Dir) (c : Claim) :
    c ∈ (A.foldl dopt d).cs ↔ c ∈ d.cs ∨
      (c.wr.name ∉ d.w ∧ ∃ a, A.find? (fun b => b.2.1.name == c.wr.name && (effClaim b).isSome) = some a ∧
        effClaim a = some c) := by
  induction A generalizing d with
  | nil => simp
  | cons a A ih =>
    simp only [List.foldl_cons]
    rw [ih (dopt d a), dopt_cs_mem, dopt_w_mem, List.find?_cons]
    by_cases hP : (a.2.1.name == c.wr.name && (effClaim a).isSome) = true
    · simp only [hP]
      simp only [Bool.and_eq_true, beq_iff_eq] at hP
      constructor
      · rintro ((h | ⟨h1, h2⟩) | ⟨h1, _⟩)
        · exact Or.inl h
        · exact Or.inr ⟨hP.1 ▸ h1, a, rfl, h2⟩
        · exact absurd (Or.inr ⟨hP.2, hP.1⟩) h1
      · rintro (h | ⟨h1, a', ha', h2⟩)
        · exact Or.inl (Or.inl h)
        · cases ha'
          exact Or.inl (Or.inr ⟨hP.1 ▸ h1, h2⟩)
    · simp only [hP]
      simp only [Bool.and_eq_true, beq_iff_eq, not_and, Bool.not_eq_true] at hP
      constructor
      · rintro ((h | ⟨h1, h2⟩) | ⟨h1, h2⟩)
        · exact Or.inl h
        · exfalso
          have := (effClaim_wr h2).1
          have hs := hP (by rw [this])
          rw [h2] at hs; cases hs
        · exact Or.inr ⟨fun hm => h1 (Or.inl hm), h2⟩
      · rintro (h | ⟨h1, h2⟩)
        · exact Or.inl (Or.inl h)
        · refine Or.inr ⟨?_, h2⟩
          rintro (hm | ⟨hs, hn⟩)
          · exact h1 hm
          · have := hP hn; rw [this] at hs; cases hs


/-! ## makeCtorMatch as a fold of attempts -/

/-- the strategy of a constructor argument: a mapper method of exactly the types, else assignment for identical
    types, else a conversion (minus string<->fixed-width int) — `pairStrat` without the recursive mappings -/
def ctorStrat (conv : List (Ty × Ty)) (fns : List (Nat × Fn)) (a b : Ty) : Option Strat :=
  match firstFn fns a b with
  | some k => some (.func k)
  | none => matStrat conv a b

def ctorAtt (conv : List (Ty × Ty)) (fl : List Fn) (nm : Field → Field → Bool) (fp : Field × Field) : Attempt :=
  (fp.1, fp.2, if fp.1.isSet then none else if nm fp.1 fp.2 then ctorStrat conv (indexed fl) fp.1.ty fp.2.ty else none)

def toArg (c : Claim) : CtorArg := ⟨c.wr, some c.rd, c.strat⟩

theorem ctorFunc_eq (f p : Field) (fns : List (Nat × Fn)) : ctorFunc f p fns = firstFn fns f.ty p.ty := by
  unfold ctorFunc firstFn
  rw [List.head?_filter]

theorem ctorVisit_dopt (conv : List (Ty × Ty)) (fl : List Fn) (nm : Field → Field → Bool)
    (acc : List String × List CtorArg) (d : Dir) (fp : Field × Field)
    (hw : d.w = acc.1) (hc : d.cs.map toArg = acc.2) (hg : fp.2.isGet = false) :
    (dopt d (ctorAtt conv fl nm fp)).w = (ctorVisit conv fl nm acc fp).1 ∧
    (dopt d (ctorAtt conv fl nm fp)).cs.map toArg = (ctorVisit conv fl nm acc fp).2 := by
  unfold ctorVisit ctorAtt
  by_cases h1 : fp.1.isSet = true
  · simp [h1, dopt, hw, hc]
  · simp only [h1, Bool.false_eq_true, ↓reduceIte]
    by_cases h2 : nm fp.1 fp.2 = true
    · simp only [h2, Bool.not_true, Bool.false_eq_true, ↓reduceIte]
      by_cases h3 : acc.1.contains fp.2.name = true
      · simp only [h3, ↓reduceIte]
        have h3' : fp.2.name ∈ acc.1 := by simpa using h3
        have hb : blocked d fp.2 = true := by simp [blocked, hw, h3']
        cases hs : ctorStrat conv (indexed fl) fp.1.ty fp.2.ty with
        | none => simp [dopt, hw, hc]
        | some s => simp [dopt, dclaim_pos hb, hw, hc]
      · simp only [h3, Bool.false_eq_true, ↓reduceIte]
        have h3' : fp.2.name ∉ acc.1 := by simpa using h3
        have hb : ¬ blocked d fp.2 = true := by simp [blocked, hw, h3', hg]
        rw [ctorFunc_eq]
        unfold ctorStrat
        cases hf : firstFn (indexed fl) fp.1.ty fp.2.ty with
        | some k => simp [dopt, dclaim_neg hb, hw, hc, toArg]
        | none =>
          have hm1 : (matchType conv fp.1.ty fp.2.ty).1 = (fp.1.ty == fp.2.ty) := rfl
          rw [hm1]
          simp only [matStrat]
          by_cases h4 : (fp.1.ty == fp.2.ty) = true
          · simp [h4, dopt, dclaim_neg hb, hw, hc, toArg]
          · simp only [h4, Bool.false_eq_true, ↓reduceIte]
            by_cases h5 : (matchType conv fp.1.ty fp.2.ty).2 = true
            · simp [h5, dopt, dclaim_neg hb, hw, hc, toArg]
            · simp [h5, dopt, hw, hc]
    · simp [h2, dopt, hw, hc]

theorem ctorFold_dopt (conv : List (Ty × Ty)) (fl : List Fn) (nm : Field → Field → Bool)
    (L : List (Field × Field)) (hg : ∀ fp ∈ L, fp.2.isGet = false) (acc : List String × List CtorArg) (d : Dir)
    (hw : d.w = acc.1) (hc : d.cs.map toArg = acc.2) :
    ((L.map (ctorAtt conv fl nm)).foldl dopt d).w = (L.foldl (ctorVisit conv fl nm) acc).1 ∧
    ((L.map (ctorAtt conv fl nm)).foldl dopt d).cs.map toArg = (L.foldl (ctorVisit conv fl nm) acc).2 := by
  induction L generalizing acc d with
  | nil => exact ⟨hw, hc⟩
  | cons fp L ih =>
    simp only [List.map_cons, List.foldl_cons]
    have := ctorVisit_dopt conv fl nm acc d fp hw hc (hg fp List.mem_cons_self)
    exact ih (fun x hx => hg x (List.mem_cons_of_mem _ hx)) _ _ this.1 this.2


/-- a field the parameter `p` can take its value from -/
def ctorCand (conv : List (Ty × Ty)) (fl : List Fn) (nm : Field → Field → Bool) (p f : Field) : Bool :=
  !f.isSet && nm f p && (ctorStrat conv (indexed fl) f.ty p.ty).isSome

theorem effClaim_ctorAtt (conv : List (Ty × Ty)) (fl : List Fn) (nm : Field → Field → Bool) (f p : Field)
    (hg : p.isGet = false) (c : Claim) :
    effClaim (ctorAtt conv fl nm (f, p)) = some c ↔
      ctorCand conv fl nm p f = true ∧ ∃ s, ctorStrat conv (indexed fl) f.ty p.ty = some s ∧ c = ⟨f, p, s⟩ := by
  unfold ctorAtt ctorCand
  rw [effClaim_some]
  simp only [hg, true_and]
  cases h1 : f.isSet <;> cases h2 : nm f p <;> simp
  intro s hs _
  simp [hs]

theorem effClaim_ctorAtt_isSome (conv : List (Ty × Ty)) (fl : List Fn) (nm : Field → Field → Bool) (f p : Field)
    (hg : p.isGet = false) :
    (effClaim (ctorAtt conv fl nm (f, p))).isSome = ctorCand conv fl nm p f := by
  rw [Bool.eq_iff_iff, Option.isSome_iff_exists]
  constructor
  · rintro ⟨c, hc⟩
    exact ((effClaim_ctorAtt conv fl nm f p hg c).mp hc).1
  · intro h
    have h' := h
    simp only [ctorCand, Bool.and_eq_true, Option.isSome_iff_exists] at h'
    obtain ⟨_, s, hs⟩ := h'
    exact ⟨⟨f, p, s⟩, (effClaim_ctorAtt conv fl nm f p hg _).mpr ⟨h, s, hs, rfl⟩⟩

theorem find_inner_none (conv : List (Ty × Ty)) (fl : List Fn) (nm : Field → Field → Bool) (f : Field) (n : String)
    (qs : List Field) (h : ∀ q ∈ qs, q.name ≠ n) :
    ((qs.map (fun q => (f, q))).map (ctorAtt conv fl nm)).find?
      (fun b => b.2.1.name == n && (effClaim b).isSome) = none := by
  rw [List.find?_eq_none]
  intro b hb
  simp only [List.map_map, List.mem_map, Function.comp] at hb
  obtain ⟨q, hq, rfl⟩ := hb
  have : (ctorAtt conv fl nm (f, q)).2.1.name ≠ n := h q hq
  simp [this]

theorem find_inner (conv : List (Ty × Ty)) (fl : List Fn) (nm : Field → Field → Bool) (f p : Field)
    (ps : List Field) (hp : p ∈ ps) (hg : ∀ q ∈ ps, q.isGet = false) (hN : (ps.map (·.name)).Nodup) :
    ((ps.map (fun q => (f, q))).map (ctorAtt conv fl nm)).find?
      (fun b => b.2.1.name == p.name && (effClaim b).isSome) =
    if ctorCand conv fl nm p f then some (ctorAtt conv fl nm (f, p)) else none := by
  induction ps with
  | nil => cases hp
  | cons q qs ih =>
    simp only [List.map_cons, List.nodup_cons, List.mem_map, not_exists, not_and] at hN
    simp only [List.map_cons, List.find?_cons]
    have hq1 : (ctorAtt conv fl nm (f, q)).2.1.name = q.name := rfl
    rw [hq1]
    rcases List.mem_cons.mp hp with rfl | hp'
    · rw [effClaim_ctorAtt_isSome conv fl nm f p (hg p List.mem_cons_self)]
      simp only [beq_self_eq_true, Bool.true_and]
      cases hc : ctorCand conv fl nm p f
      · simp only [Bool.false_eq_true, ↓reduceIte]
        exact find_inner_none conv fl nm f p.name qs (fun q hq e => hN.1 q hq e)
      · simp
    · have hne : q.name ≠ p.name := fun e => hN.1 p hp' e.symm
      have : (q.name == p.name) = false := by simpa using hne
      simp only [this, Bool.false_and]
      exact ih hp' (fun x hx => hg x (List.mem_cons_of_mem _ hx)) hN.2

theorem find_ctor (conv : List (Ty × Ty)) (fl : List Fn) (nm : Field → Field → Bool) (p : Field)
    (fields params : List Field) (hp : p ∈ params) (hg : ∀ q ∈ params, q.isGet = false)
    (hN : (params.map (·.name)).Nodup) :
    ((fields.flatMap (fun f => params.map (fun q => (f, q)))).map (ctorAtt conv fl nm)).find?
      (fun b => b.2.1.name == p.name && (effClaim b).isSome) =
    (fields.find? (ctorCand conv fl nm p)).map (fun f => ctorAtt conv fl nm (f, p)) := by
  induction fields with
  | nil => rfl
  | cons f fs ih =>
    simp only [List.flatMap_cons, List.map_append, List.find?_append, List.find?_cons]
    rw [find_inner conv fl nm f p params hp hg hN, ih]
    cases hc : ctorCand conv fl nm p f <;> simp

/-- closed form of `makeCtorMatch`'s argument log: parameter `p` (not already written by a manual hook) takes the FIRST
    field, in field-list order, that is readable (not a setter), name-matches it and whose type admits a strategy —
    with exactly `ctorStrat` -/
theorem ctorFold_closed (conv : List (Ty × Ty)) (fl : List Fn) (nm : Field → Field → Bool) (fields params : List Field)
    (ws : List String) (hg : ∀ q ∈ params, q.isGet = false) (hN : (params.map (·.name)).Nodup) (a : CtorArg) :
    a ∈ (ctorFold conv fl nm fields params ws).2 ↔
      ∃ p ∈ params, p.name ∉ ws ∧ ∃ f s, fields.find? (ctorCand conv fl nm p) = some f ∧
        ctorStrat conv (indexed fl) f.ty p.ty = some s ∧ a = ⟨p, some f, s⟩ := by
  have hL : ∀ fp ∈ fields.flatMap (fun f => params.map (fun q => (f, q))), fp.2.isGet = false := by
    intro fp hfp
    simp only [List.mem_flatMap, List.mem_map] at hfp
    obtain ⟨f, _, q, hq, rfl⟩ := hfp
    exact hg q hq
  have hfold := ctorFold_dopt conv fl nm _ hL (ws, []) ⟨ws, []⟩ rfl rfl
  unfold ctorFold
  rw [← hfold.2, List.mem_map]
  constructor
  · rintro ⟨c, hc, rfl⟩
    rw [foldl_dopt_first] at hc
    rcases hc with hc | ⟨hw, at', hfind, heff⟩
    · cases hc
    · have hmem := List.mem_of_find?_eq_some hfind
      simp only [List.mem_map, List.mem_flatMap] at hmem
      obtain ⟨fp, ⟨f0, _, q, hq, rfl⟩, rfl⟩ := hmem
      have hwr := (effClaim_wr heff).1
      have hwr' : c.wr = q := hwr
      rw [hwr', find_ctor conv fl nm q fields params hq hg hN] at hfind
      cases hff : fields.find? (ctorCand conv fl nm q) with
      | none => rw [hff] at hfind; cases hfind
      | some f =>
        rw [hff] at hfind
        simp only [Option.map_some, Option.some.injEq] at hfind
        have hf0 : f = f0 := congrArg (·.1) hfind
        subst hf0
        obtain ⟨_, s, hs, rfl⟩ := (effClaim_ctorAtt conv fl nm f q (hg q hq) c).mp heff
        exact ⟨q, hq, hwr' ▸ hw, f, s, hff, hs, rfl⟩
  · rintro ⟨p, hp, hw, f, s, hff, hs, rfl⟩
    refine ⟨⟨f, p, s⟩, ?_, rfl⟩
    rw [foldl_dopt_first]
    right
    refine ⟨hw, ctorAtt conv fl nm (f, p), ?_, ?_⟩
    · show List.find? (fun b => b.2.1.name == p.name && (effClaim b).isSome) _ = _
      rw [find_ctor conv fl nm p fields params hp hg hN, hff]; rfl
    · exact (effClaim_ctorAtt conv fl nm f p (hg p hp) _).mpr ⟨List.find?_some hff, s, hs, rfl⟩


/-- the argument `makeCtorMatch` computes for parameter `p`, in closed form -/
def ctorArgOf (conv : List (Ty × Ty)) (fl : List Fn) (nm : Field → Field → Bool) (fields : List Field)
    (ws : List String) (p : Field) : CtorArg :=
  if p.name ∈ ws then ⟨p, none, .assign⟩ else
  match fields.find? (ctorCand conv fl nm p) with
  | some f => ⟨p, some f, (ctorStrat conv (indexed fl) f.ty p.ty).getD .assign⟩
  | none => ⟨p, none, .assign⟩

theorem ctorArgOf_p (conv : List (Ty × Ty)) (fl : List Fn) (nm : Field → Field → Bool) (fields : List Field)
    (ws : List String) (p : Field) : (ctorArgOf conv fl nm fields ws p).p = p := by
  unfold ctorArgOf
  split
  · rfl
  · split <;> rfl

theorem ctorFold_find (conv : List (Ty × Ty)) (fl : List Fn) (nm : Field → Field → Bool) (fields params : List Field)
    (ws : List String) (hg : ∀ q ∈ params, q.isGet = false) (hN : (params.map (·.name)).Nodup) (p : Field) (hp : p ∈ params) :
    ((ctorFold conv fl nm fields params ws).2.find? (fun a => a.p == p)).getD ⟨p, none, .assign⟩ =
      ctorArgOf conv fl nm fields ws p := by
  have hcl := ctorFold_closed conv fl nm fields params ws hg hN
  cases hfind : (ctorFold conv fl nm fields params ws).2.find? (fun a => a.p == p) with
  | some a =>
    have hmem := List.mem_of_find?_eq_some hfind
    have hap : a.p = p := by simpa using List.find?_some hfind
    obtain ⟨q, _, hw, f, s, hff, hs, rfl⟩ := (hcl a).mp hmem
    simp only at hap
    subst hap
    simp [ctorArgOf, hw, hff, hs]
  | none =>
    simp only [Option.getD_none]
    unfold ctorArgOf
    by_cases hw : p.name ∈ ws
    · rw [if_pos hw]
    · rw [if_neg hw]
      cases hff : fields.find? (ctorCand conv fl nm p) with
      | none => rfl
      | some f =>
        exfalso
        have hc := List.find?_some hff
        have hc' := hc
        simp only [ctorCand, Bool.and_eq_true, Option.isSome_iff_exists] at hc'
        obtain ⟨_, s, hs⟩ := hc'
        have : (⟨p, some f, s⟩ : CtorArg) ∈ (ctorFold conv fl nm fields params ws).2 :=
          (hcl _).mpr ⟨p, hp, hw, f, s, hff, hs, rfl⟩
        have := List.find?_eq_none.mp hfind _ this
        simp at this

/-- closed form of `makeCtorMatch`: the constructor is used iff some parameter finds a value; its arguments are, in
    parameter order, `ctorArgOf` — the first readable name-matched field of a fitting type, or the zero literal -/
theorem ctorMatch_closed (conv : List (Ty × Ty)) (fl : List Fn) (nm : Field → Field → Bool) (fields params : List Field)
    (ws : List String) (hg : ∀ q ∈ params, q.isGet = false) (hN : (params.map (·.name)).Nodup) :
    (ctorMatch conv fl nm fields params ws).2 =
      if params.any (fun p => (ctorArgOf conv fl nm fields ws p).rd.isSome) then
        some (params.map (ctorArgOf conv fl nm fields ws)) else none := by
  have hcl := ctorFold_closed conv fl nm fields params ws hg hN
  have hany : params.any (fun p => (ctorArgOf conv fl nm fields ws p).rd.isSome) = true ↔
      (ctorFold conv fl nm fields params ws).2 ≠ [] := by
    constructor
    · intro h
      simp only [List.any_eq_true] at h
      obtain ⟨p, hp, hrd⟩ := h
      unfold ctorArgOf at hrd
      by_cases hw : p.name ∈ ws
      · rw [if_pos hw] at hrd; cases hrd
      · rw [if_neg hw] at hrd
        cases hff : fields.find? (ctorCand conv fl nm p) with
        | none => simp [hff] at hrd
        | some f =>
          have hc := List.find?_some hff
          simp only [ctorCand, Bool.and_eq_true, Option.isSome_iff_exists] at hc
          obtain ⟨_, s, hs⟩ := hc
          have : (⟨p, some f, s⟩ : CtorArg) ∈ (ctorFold conv fl nm fields params ws).2 :=
            (hcl _).mpr ⟨p, hp, hw, f, s, hff, hs, rfl⟩
          exact List.ne_nil_of_mem this
    · intro h
      obtain ⟨a, ha⟩ := List.exists_mem_of_ne_nil _ h
      obtain ⟨p, hp, hw, f, s, hff, hs, rfl⟩ := (hcl a).mp ha
      simp only [List.any_eq_true]
      refine ⟨p, hp, ?_⟩
      simp [ctorArgOf, hw, hff]
  unfold ctorMatch
  by_cases he : params.isEmpty = true
  · have : params = [] := by simpa using he
    subst this
    simp
  · simp only [he, Bool.false_eq_true, ↓reduceIte]
    by_cases hemp : (ctorFold conv fl nm fields params ws).2.isEmpty = true
    · have hnil : (ctorFold conv fl nm fields params ws).2 = [] := by simpa using hemp
      have : ¬ params.any (fun p => (ctorArgOf conv fl nm fields ws p).rd.isSome) = true := by
        rw [hany]; simp [hnil]
      simp [hemp, this]
    · have hne : (ctorFold conv fl nm fields params ws).2 ≠ [] := by simpa using hemp
      simp only [hemp, Bool.false_eq_true, ↓reduceIte, hany.mpr hne, Option.some.injEq]
      apply List.map_congr_left
      intro p hp
      exact ctorFold_find conv fl nm fields params ws hg hN p hp


/-- where C05's decision does not ask for a recursive ToX / FromX, the constructor argument follows C05's decision -/
theorem ctorStrat_pairStrat (conv : List (Ty × Ty)) (fns : List (Nat × Fn)) (rdPkg wrPkg : Pkg) (a b : Ty)
    (h : ∀ s, pairStrat conv fns rdPkg wrPkg a b = some s → isSubStrat s = false) :
    ctorStrat conv fns a b = pairStrat conv fns rdPkg wrPkg a b := by
  unfold ctorStrat pairStrat misStrat at *
  cases hf : firstFn fns a b with
  | some k => simp
  | none =>
    simp only [hf] at h ⊢
    by_cases h1 : (a.strip.2.isNamedIn rdPkg && b.strip.2.isNamedIn wrPkg) = true
    · have := h (.sub a.strip.1 b.strip.1) (by simp [h1])
      cases this
    · simp only [h1, Bool.false_eq_true, ↓reduceIte] at h ⊢
      split
      · rename_i e1 e2
        by_cases h2 : (e1.strip.2.isNamedIn rdPkg && e2.strip.2.isNamedIn wrPkg) = true
        · have := h (.each e1.strip.1 e2.strip.1) (by simp [h2])
          cases this
        · simp [h2]
      · simp

theorem sideParams_isGet (t : Tree) (isNew : Bool) : ∀ p ∈ sideParams t isNew, p.isGet = false := by
  intro p hp
  unfold sideParams at hp
  split at hp
  · simp only [newView, List.mem_map] at hp
    obtain ⟨x, _, rfl⟩ := hp
    split <;> rfl
  · cases hp

end ShootVerif.Mapper
