import ShootVerif.Proofs.Mapper
/-
Field collection and Go's promotion rule: the entry `flatten` keeps for a name is the SHALLOWEST field of
that name the walk visits (first visited among equally shallow ones) — whatever the declaration order
of embedded structs and redeclared names (seeded change C05-3 drops exactly this).
-/
namespace ShootVerif.Mapper

/-- same name, path, type and depth -/
def SameData (f g : Field) : Prop := f.name = g.name ∧ f.path = g.path ∧ f.ty = g.ty ∧ f.depth = g.depth

theorem aor_spec (fs : List Field) (x : Field) (hn : (fs.map (·.name)).Nodup) :
    ∀ f' ∈ appendOrReplace fs x,
      (f' ∈ fs ∧ (f'.name ≠ x.name ∨ f'.depth ≤ x.depth)) ∨
      (SameData f' x ∧ ∀ f ∈ fs, f.name = x.name → x.depth < f.depth) := by
  induction fs with
  | nil =>
    intro f' hf
    simp only [appendOrReplace, List.mem_singleton] at hf
    subst hf
    exact Or.inr ⟨⟨rfl, rfl, rfl, rfl⟩, by simp⟩
  | cons f fs ih =>
    simp only [List.map_cons, List.nodup_cons, List.mem_map, not_exists, not_and] at hn
    intro f' hf
    simp only [appendOrReplace] at hf
    by_cases he : f.name = x.name
    · simp only [he, ↓reduceIte] at hf
      have tailne : ∀ g ∈ fs, g.name ≠ x.name := fun g hg e => hn.1 g hg (e.trans he.symm)
      by_cases hd : x.depth < f.depth
      · simp only [hd, ↓reduceIte, List.mem_cons] at hf
        rcases hf with rfl | hf
        · right
          refine ⟨⟨rfl, rfl, rfl, rfl⟩, ?_⟩
          intro g hg e
          rcases List.mem_cons.mp hg with rfl | hg'
          · exact hd
          · exact absurd e (tailne g hg')
        · exact Or.inl ⟨List.mem_cons_of_mem _ hf, Or.inl (tailne f' hf)⟩
      · simp only [hd, ↓reduceIte, List.mem_cons] at hf
        rcases hf with rfl | hf
        · exact Or.inl ⟨List.mem_cons_self, Or.inr (Nat.le_of_not_lt hd)⟩
        · exact Or.inl ⟨List.mem_cons_of_mem _ hf, Or.inl (tailne f' hf)⟩
    · simp only [he, ↓reduceIte, List.mem_cons] at hf
      rcases hf with rfl | hf
      · exact Or.inl ⟨List.mem_cons_self, Or.inl he⟩
      · rcases ih hn.2 f' hf with ⟨h1, h2⟩ | ⟨h1, h2⟩
        · exact Or.inl ⟨List.mem_cons_of_mem _ h1, h2⟩
        · right
          refine ⟨h1, ?_⟩
          intro g hg e
          rcases List.mem_cons.mp hg with rfl | hg'
          · exact absurd e he
          · exact h2 g hg' e

theorem aor_covers (fs : List Field) (x : Field) :
    (∃ f ∈ appendOrReplace fs x, f.name = x.name) ∧ ∀ g ∈ fs, ∃ f ∈ appendOrReplace fs x, f.name = g.name := by
  have hnames := aor_names fs x
  constructor
  · have : x.name ∈ (appendOrReplace fs x).map (·.name) := by
      rw [hnames]; split
      · assumption
      · simp
    obtain ⟨f, hf, e⟩ := List.mem_map.mp this
    exact ⟨f, hf, e⟩
  · intro g hg
    have : g.name ∈ (appendOrReplace fs x).map (·.name) := by
      rw [hnames]; split
      · exact List.mem_map_of_mem hg
      · exact List.mem_append_left _ (List.mem_map_of_mem hg)
    obtain ⟨f, hf, e⟩ := List.mem_map.mp this
    exact ⟨f, hf, e⟩

/-- invariant of the collection loop over the visited fields `seen` -/
structure Shallowest (fs seen : List Field) : Prop where
  nodup : (fs.map (·.name)).Nodup
  fromSeen : ∀ f ∈ fs, ∃ g ∈ seen, SameData f g
  minimal : ∀ f ∈ fs, ∀ g ∈ seen, g.name = f.name → f.depth ≤ g.depth
  covers : ∀ g ∈ seen, ∃ f ∈ fs, f.name = g.name

theorem shallowest_step (fs seen : List Field) (x : Field) (h : Shallowest fs seen) :
    Shallowest (appendOrReplace fs x) (seen ++ [x]) := by
  have hspec := aor_spec fs x h.nodup
  refine ⟨aor_nodup fs x h.nodup, ?_, ?_, ?_⟩
  · intro f' hf'
    rcases hspec f' hf' with ⟨h1, _⟩ | ⟨h1, _⟩
    · obtain ⟨g, hg, e⟩ := h.fromSeen f' h1
      exact ⟨g, List.mem_append_left _ hg, e⟩
    · exact ⟨x, by simp, h1⟩
  · intro f' hf' g hg e
    rcases List.mem_append.mp hg with hg | hg
    · rcases hspec f' hf' with ⟨h1, _⟩ | ⟨h1, h2⟩
      · exact h.minimal f' h1 g hg e
      · -- f' carries x's data; the old entry of that name (if any) was deeper than x and minimal among seen
        obtain ⟨f, hf, hfn⟩ := h.covers g hg
        have hfx : f.name = x.name := hfn.trans (e.trans h1.1)
        have := h2 f hf hfx
        have hmin := h.minimal f hf g hg hfn.symm
        rw [h1.2.2.2]; omega
    · simp only [List.mem_singleton] at hg
      subst hg
      rcases hspec f' hf' with ⟨_, h2⟩ | ⟨h1, _⟩
      · rcases h2 with h2 | h2
        · exact absurd e.symm h2
        · exact h2
      · rw [h1.2.2.2]; exact Nat.le_refl _
  · intro g hg
    have hc := aor_covers fs x
    rcases List.mem_append.mp hg with hg | hg
    · obtain ⟨f, hf, e⟩ := h.covers g hg
      obtain ⟨f2, hf2, e2⟩ := hc.2 f hf
      exact ⟨f2, hf2, e2.trans e⟩
    · simp only [List.mem_singleton] at hg
      subst hg
      exact hc.1

theorem shallowest_fold (xs fs seen : List Field) (h : Shallowest fs seen) :
    Shallowest (xs.foldl appendOrReplace fs) (seen ++ xs) := by
  induction xs generalizing fs seen with
  | nil => simpa using h
  | cons x xs ih =>
    have := ih _ _ (shallowest_step fs seen x h)
    simpa [List.append_assoc] using this

/-- the raw collection (before the names of left-out top-level fields are dropped) -/
theorem collect_shallowest (t : Tree) : Shallowest ((walkTop t).foldl appendOrReplace []) (walkTop t) := by
  have := shallowest_fold (walkTop t) [] [] ⟨by simp, by simp, by simp, by simp⟩
  simpa using this

theorem mem_flatten (t : Tree) (f : Field) :
    f ∈ flatten t ↔ f ∈ (walkTop t).foldl appendOrReplace [] ∧ f.name ∉ skippedTop t := by
  simp [flatten]

/-- the collected field of a name is one of the visited fields of that name, and none of them is
    shallower; every visited name is collected exactly once — except the names of the top-level `map:"-"`
    fields, which are not collected at all (they hide their promoted namesakes, as in Go) -/
theorem flatten_shallowest (t : Tree) :
    ((flatten t).map (·.name)).Nodup ∧
    (∀ f ∈ flatten t, f.name ∉ skippedTop t ∧ ∃ g ∈ walkTop t, SameData f g) ∧
    (∀ f ∈ flatten t, ∀ g ∈ walkTop t, g.name = f.name → f.depth ≤ g.depth) ∧
    (∀ g ∈ walkTop t, g.name ∉ skippedTop t → ∃ f ∈ flatten t, f.name = g.name) := by
  have h := collect_shallowest t
  refine ⟨flatten_names_nodup t, ?_, ?_, ?_⟩
  · intro f hf
    have := (mem_flatten t f).mp hf
    exact ⟨this.2, h.fromSeen f this.1⟩
  · intro f hf g hg e
    exact h.minimal f ((mem_flatten t f).mp hf).1 g hg e
  · intro g hg hn
    obtain ⟨f, hf, e⟩ := h.covers g hg
    exact ⟨f, (mem_flatten t f).mpr ⟨hf, e ▸ hn⟩, e⟩

end ShootVerif.Mapper
