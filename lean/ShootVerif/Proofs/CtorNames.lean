import ShootVerif.Proofs.CtorSpec
/-! `nameMap` with the collision suffixes: when the parameter names of the parameter entries are pairwise
    distinct no suffix is ever added and the map is the simple one. -/
namespace ShootVerif.Ctor

/-- the simple form: some parameter entry has that name -/
def nameMapSimple (hasNew : Bool) (fs : List Field) (n : String) : Option String :=
  if fs.any (fun f => decide (f.name = n) && condNew hasNew f) then some (paramName n) else none

theorem fresh_of_not_mem (k : Nat) (used : List String) (p : String) (h : p ∉ used) :
    fresh (k + 1) used p = p := by
  have : used.contains p = false := by simpa using h
  simp only [fresh, this, Bool.false_eq_true, ↓reduceIte]

theorem assignParams_simple (hn : Bool) (fs : List Field) : ∀ (acc : List (String × String)),
    (acc.map (·.2) ++ (fs.filter (condNew hn)).map (fun f => paramName f.name)).Nodup →
    assignParams hn fs acc = acc ++ (fs.filter (condNew hn)).map (fun f => (f.name, paramName f.name)) := by
  induction fs with
  | nil => intro acc _; simp [assignParams]
  | cons f fs ih =>
    intro acc hnd
    simp only [assignParams]
    by_cases hc : condNew hn f = true
    · have hfil : (f :: fs).filter (condNew hn) = f :: fs.filter (condNew hn) := by simp [List.filter_cons, hc]
      rw [hfil] at hnd
      simp only [hc, ↓reduceIte, hfil, List.map_cons]
      simp only [List.map_cons] at hnd
      have hnot : paramName f.name ∉ acc.map (·.2) := by
        intro hm
        rw [List.nodup_append] at hnd
        exact hnd.2.2 _ hm _ (by simp) rfl
      rw [fresh_of_not_mem _ _ _ hnot]
      rw [ih (acc ++ [(f.name, paramName f.name)])]
      · simp
      · simpa [List.append_assoc] using hnd
    · have hfil : (f :: fs).filter (condNew hn) = fs.filter (condNew hn) := by simp [List.filter_cons, hc]
      rw [hfil] at hnd
      simp only [hc, Bool.false_eq_true, ↓reduceIte, hfil]
      exact ih acc hnd

theorem lookup_map_pairs (n : String) : ∀ (L : List Field),
    (L.map (fun f => (f.name, paramName f.name))).lookup n =
      if L.any (fun f => decide (f.name = n)) then some (paramName n) else none := by
  intro L
  induction L with
  | nil => simp
  | cons x xs ih =>
    simp only [List.map_cons, List.lookup_cons, List.any_cons, ih]
    by_cases h : x.name = n
    · subst h; simp
    · have h' : (n == x.name) = false := by simpa using fun e => h e.symm
      simp [h, h']

/-- under pairwise distinct parameter names the collision suffix never fires -/
theorem nameMap_simple (hn : Bool) (fs : List Field) (n : String)
    (hnd : ((fs.filter (condNew hn)).map (fun f => paramName f.name)).Nodup) :
    nameMap hn fs n = nameMapSimple hn fs n := by
  unfold nameMap nameMapSimple
  rw [assignParams_simple hn fs [] (by simpa using hnd)]
  simp only [List.nil_append]
  rw [← List.map_reverse, lookup_map_pairs]
  simp only [List.any_reverse, List.any_filter]
  have : (fs.any fun a => condNew hn a && decide (a.name = n)) = (fs.any fun f => decide (f.name = n) && condNew hn f) := by
    apply List.any_congr rfl
    intro f
    exact Bool.and_comm _ _
  rw [this]

end ShootVerif.Ctor
