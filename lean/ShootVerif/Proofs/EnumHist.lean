import ShootVerif.Props.C12
import ShootVerif.Props.C14
/-
Lemmas for the history theorems (Props/C04Hist, C12Hist, C14Hist): the emitted file as a running program
(`Tables`, `step`, `run` of Model/Enum.lean) against the table-level model the C04 / C12 / C14 theorems
speak about.
-/
namespace ShootVerif.Enum

theorem step_state (p : Prog) (st : Tables) (c : Call) : (step p st c).1 = st := by
  cases c <;> rfl

theorem run_state (p : Prog) (st : Tables) (h : List Call) : (run p st h).1 = st := by
  induction h generalizing st with
  | nil => rfl
  | cons c r ih => simp only [run]; rw [ih, step_state]


theorem run_results (p : Prog) (st : Tables) (hist : List Call) :
    (run p st hist).2 = hist.map (fun c => (step p st c).2) := by
  induction hist generalizing st with
  | nil => rfl
  | cons c r ih =>
    simp only [run, List.map_cons]
    rw [step_state, ih]

/-! ### link to the table-level model -/
namespace Bit
variable {w : Nat}

theorem zip_lookup_self (t : Table w) (h : (t.map (·.1)).Nodup) :
    (t.map (·.1)).map (fun v => (v, (t.lookup v).getD [])) = t := by
  induction t with
  | nil => rfl
  | cons e r ih =>
    simp only [List.map_cons, List.nodup_cons] at h ⊢
    obtain ⟨hne, hnd⟩ := h
    congr 1
    · simp [List.lookup]
    · rw [List.map_map]
      have := ih hnd
      rw [List.map_map] at this
      conv => rhs; rw [← this]
      apply List.map_congr_left
      intro a ha
      simp only [Function.comp]
      have hk : (a.1 == e.1) = false := by
        rw [beq_eq_false_iff_ne]; intro he; apply hne; rw [← he]; exact List.mem_map_of_mem ha
      simp [List.lookup, hk]

theorem stringRT_eq (signed : Bool) (t : Table w) (h : (t.map (·.1)).Nodup) (x : BitVec w) :
    stringRT signed t (t.map (·.1)) (maxOf t) x = string signed t x := by
  unfold stringRT string
  rw [zip_lookup_self t h]
  all_goals (cases List.lookup x t <;> rfl)

theorem foldl_or (l : List (BitVec w)) (a : BitVec w) : l.foldl (· ||| ·) a = a ||| l.foldr (· ||| ·) 0 := by
  induction l generalizing a with
  | nil => simp
  | cons b r ih => simp only [List.foldl_cons, List.foldr_cons]; rw [ih, BitVec.or_assoc]

end Bit

theorem progOf_mx (k : Kind) (bit : Bool) (T : Name) (cs : List Const) :
    (progOf k bit cs).mx = Bit.maxOf (Bit.table (w := k.bits) T cs) := by
  unfold progOf Bit.maxOf Bit.table
  simp only
  have h1 : cs.foldl (fun a c => a ||| BitVec.ofInt k.bits c.val) 0 =
      (cs.map (fun c => BitVec.ofInt k.bits c.val)).foldl (· ||| ·) 0 := by
    rw [List.foldl_map]
  rw [h1, Bit.foldl_or, List.foldr_map, List.foldr_map]
  simp

theorem bitNames_tablesOf (T : Name) (cs : List Const) (w : Nat) :
    (tablesOf T cs).bitNames w = Bit.table T cs := by
  simp [Tables.bitNames, tablesOf, stringMap, Bit.table, List.map_map, Function.comp]

theorem bitVals_tablesOf (T : Name) (cs : List Const) (w : Nat) :
    (tablesOf T cs).bitVals w = (Bit.table (w := w) T cs).map (·.1) := by
  simp [Tables.bitVals, tablesOf, valuesT, Bit.table, List.map_map, Function.comp]

theorem string_tablesOf_plain (k : Kind) (T : Name) (cs : List Const) (x : Int) :
    (tablesOf T cs).string (progOf k false cs) x = stringOf k T cs x := by
  unfold Tables.string stringOf
  simp only [progOf, Bool.false_eq_true, ↓reduceIte, tablesOf]
  cases (stringMap T cs).lookup x <;> simp

theorem string_tablesOf_bit (k : Kind) (T : Name) (cs : List Const)
    (h : ((Bit.table (w := k.bits) T cs).map (·.1)).Nodup) (x : Int) :
    (tablesOf T cs).string (progOf k true cs) x =
      Bit.string k.signed (Bit.table T cs) (BitVec.ofInt k.bits x) := by
  unfold Tables.string
  have hm := progOf_mx k true T cs
  simp only [progOf] at hm ⊢
  simp only [↓reduceIte]
  rw [bitNames_tablesOf, bitVals_tablesOf, hm, Bit.stringRT_eq _ _ h]

theorem emod_of_has (k : Kind) (hb : 0 < k.bits) (v : Int) (h : k.has v = true) :
    v % (2 : Int) ^ k.bits = if v < 0 then v + (2 : Int) ^ k.bits else v := by
  unfold Kind.has Kind.lo Kind.hi at h
  simp only [Bool.and_eq_true, decide_eq_true_eq] at h
  have hpow : (2 : Int) ^ k.bits = 2 * (2 : Int) ^ (k.bits - 1) := by
    have hk : k.bits = (k.bits - 1) + 1 := by omega
    conv => lhs; rw [hk, Int.pow_succ]
    omega
  have hpos : (0 : Int) < (2 : Int) ^ (k.bits - 1) := Int.pow_pos (by decide)
  generalize (2 : Int) ^ (k.bits - 1) = P at *
  generalize (2 : Int) ^ k.bits = M at *
  by_cases hv : v < 0
  · rw [if_pos hv]
    have h1 : v % M = (v + M) % M := by simp
    rw [h1]
    cases hs : k.signed
    · simp only [hs, Bool.false_eq_true, ↓reduceIte] at h; omega
    · simp only [hs, ↓reduceIte] at h
      exact Int.emod_eq_of_lt (by omega) (by omega)
  · rw [if_neg hv]
    cases hs : k.signed
    · simp only [hs, Bool.false_eq_true, ↓reduceIte] at h
      exact Int.emod_eq_of_lt (by omega) (by omega)
    · simp only [hs, ↓reduceIte] at h
      exact Int.emod_eq_of_lt (by omega) (by omega)

theorem ofInt_inj_of_has (k : Kind) (hb : 0 < k.bits) (a b : Int) (ha : k.has a = true) (hb' : k.has b = true)
    (h : BitVec.ofInt k.bits a = BitVec.ofInt k.bits b) : a = b := by
  have h1 := congrArg BitVec.toNat h
  simp only [BitVec.toNat_ofInt] at h1
  have hM : ((2 ^ k.bits : Nat) : Int) = (2 : Int) ^ k.bits := by rw [Int.natCast_pow]; rfl
  rw [hM] at h1
  have hpos : (0 : Int) < (2 : Int) ^ k.bits := Int.pow_pos (by decide)
  have ea := emod_of_has k hb a ha
  have eb := emod_of_has k hb b hb'
  have na : 0 ≤ a % (2 : Int) ^ k.bits := Int.emod_nonneg _ (by omega)
  have nb : 0 ≤ b % (2 : Int) ^ k.bits := Int.emod_nonneg _ (by omega)
  -- a negative value needs a signed kind, and there |v| ≤ M/2
  unfold Kind.has Kind.lo Kind.hi at ha hb'
  simp only [Bool.and_eq_true, decide_eq_true_eq] at ha hb'
  have hpow : (2 : Int) ^ k.bits = 2 * (2 : Int) ^ (k.bits - 1) := by
    have hk : k.bits = (k.bits - 1) + 1 := by omega
    conv => lhs; rw [hk, Int.pow_succ]
    omega
  have hpos' : (0 : Int) < (2 : Int) ^ (k.bits - 1) := Int.pow_pos (by decide)
  generalize (2 : Int) ^ (k.bits - 1) = P at *
  generalize (2 : Int) ^ k.bits = M at *
  cases hs : k.signed
  · simp only [hs, Bool.false_eq_true, ↓reduceIte] at ha hb'
    split at ea <;> split at eb <;> omega
  · simp only [hs, ↓reduceIte] at ha hb'
    split at ea <;> split at eb <;> omega

theorem keys_nodup_of_WF (i : Input) (h : WF i = true) :
    ((Bit.table (w := i.kind.bits) i.T (tables i)).map (·.1)).Nodup := by
  have f := WF.facts h
  have hnd : ((tables i).map (·.val)).Nodup := ((tables_perm h).map _).nodup_iff.mpr f.ndVals
  unfold Bit.table
  rw [List.map_map]
  unfold List.Nodup at hnd ⊢
  rw [List.pairwise_map] at hnd ⊢
  refine hnd.imp_of_mem ?_
  intro a b ha hb hab he
  apply hab
  simp only [Function.comp] at he
  exact ofInt_inj_of_has i.kind f.bits a.val b.val (f.inKind a ((tables_perm h).mem_iff.mp ha))
    (f.inKind b ((tables_perm h).mem_iff.mp hb)) he

def prog (i : Input) (bit : Bool) : Prog := progOf i.kind bit (tables i)
def fresh (i : Input) : Tables := tablesOf i.T (tables i)

theorem string_fresh (i : Input) (h : WF i = true) (bit : Bool) (x : Int) :
    (fresh i).string (prog i bit) x = specStringAny i.T i.kind bit i.decl x := by
  unfold fresh prog specStringAny
  cases bit
  · rw [string_tablesOf_plain, C04_string i h]; rfl
  · rw [string_tablesOf_bit _ _ _ (keys_nodup_of_WF i h), Bit.C14_string_general, C14_table _ i h]; rfl

theorem step_fresh_spec (i : Input) (h : WF i = true) (bit : Bool) (c : Call) (hc : c.ok = true) :
    (step (prog i bit) (fresh i) c).2 = specCall i.T i.kind bit i.decl c := by
  cases c with
  | string x => simp only [step, specCall]; rw [string_fresh i h]
  | encode x => simp only [step, specCall]; rw [string_fresh i h]
  | isValid x =>
    simp only [step, specCall]
    have := C04_isvalid i h x
    unfold isValid at this
    simp only [fresh, tablesOf]; rw [this]
  | values => simp only [step, specCall, fresh, tablesOf]; rw [C04_values i h]
  | strings => simp only [step, specCall, fresh, tablesOf]; rw [C04_strings i h]
  | valueMap => simp only [step, specCall, fresh, tablesOf]; rw [tables_eq h]; rfl
  | stringMap => simp only [step, specCall, fresh, tablesOf]; rw [tables_eq h]; rfl
  | parseEnum s => simp only [step, specCall, fresh, tablesOf]; exact congrArg _ (C12_parse i h s)
  | tryParse s t => simp only [step, specCall, fresh, tablesOf]; exact congrArg _ (C12_tryparse_spec i h s t)
  | isEnum kV v =>
    simp only [Call.ok, Bool.and_eq_true, decide_eq_true_eq] at hc
    simp only [step, specCall, fresh, tablesOf, prog, progOf]
    exact congrArg _ (C12_isenum i h kV hc.1 v hc.2)
  | unmarshalJSON d t => simp only [step, specCall, fresh, tablesOf]; exact congrArg _ ((C12_decode_spec i h t).1 d)
  | unmarshalText s t => simp only [step, specCall, fresh, tablesOf]; exact congrArg _ ((C12_decode_spec i h t).2.1 s)
  | scan d t => simp only [step, specCall, fresh, tablesOf]; exact congrArg _ ((C12_decode_spec i h t).2.2 d)
  | has x f => simp only [step, specCall, prog, progOf]; rw [(Bit.C14_ops_spec _ _).1]
  | add x f => simp only [step, specCall, prog, progOf]; rw [(Bit.C14_ops_spec _ _).2.1]
  | remove x f => simp only [step, specCall, prog, progOf]; rw [(Bit.C14_ops_spec _ _).2.2]

end ShootVerif.Enum
