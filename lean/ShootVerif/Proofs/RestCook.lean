import ShootVerif.Proofs.Rest
/-! Helper lemmas for C06_query / C06_placeholders: what the lookups in the cooked tables return. -/
namespace ShootVerif.Rest

section KV
variable {κ α : Type} [DecidableEq κ]

theorem lastOfKey_none_of (l : List (κ × α)) (k : κ) (h : ∀ kv ∈ l, kv.1 ≠ k) : lastOfKey l k = none := by
  unfold lastOfKey
  have : l.reverse.find? (fun kv => decide (kv.1 = k)) = none := by
    rw [List.find?_eq_none]
    intro x hx
    simpa using h x (List.mem_reverse.1 hx)
  simp [this]

theorem lastOfKey_unique (l : List (κ × α)) (k : κ) (v : α) (hm : (k, v) ∈ l)
    (hu : ∀ kv ∈ l, kv.1 = k → kv.2 = v) : lastOfKey l k = some v := by
  unfold lastOfKey
  cases h : l.reverse.find? (fun kv => decide (kv.1 = k)) with
  | none =>
    rw [List.find?_eq_none] at h
    have := h (k, v) (List.mem_reverse.2 hm)
    simp at this
  | some x =>
    have hx : x.1 = k := by simpa using List.find?_some h
    have hmem : x ∈ l := List.mem_reverse.1 (List.mem_of_find?_eq_some h)
    simp [hu x hmem hx]

theorem lastOfKey_mem (l : List (κ × α)) (k : κ) (v : α) (h : lastOfKey l k = some v) : (k, v) ∈ l := by
  unfold lastOfKey at h
  cases hf : l.reverse.find? (fun kv => decide (kv.1 = k)) with
  | none => simp [hf] at h
  | some x =>
    have hx : x.1 = k := by simpa using List.find?_some hf
    have hmem : x ∈ l := List.mem_reverse.1 (List.mem_of_find?_eq_some hf)
    simp only [hf, Option.map_some, Option.some.injEq] at h
    have : x = (k, v) := by cases x; simp_all
    rw [← this]; exact hmem

theorem setKV_of_not_mem (m : List (κ × α)) (k : κ) (v : α) (h : k ∉ keysOf m) : setKV m k v = m ++ [(k, v)] := by
  induction m with
  | nil => rfl
  | cons x rest ih =>
    obtain ⟨a, b⟩ := x
    simp only [keysOf, List.map_cons, List.mem_cons, not_or] at h
    have hne : ¬ a = k := fun e => h.1 e.symm
    simp only [setKV, hne, ↓reduceIte, List.cons_append]
    rw [ih h.2]

/-- a list with distinct keys IS the Go map built from it -/
theorem setAll_of_nodup (m l : List (κ × α)) (h : (keysOf (m ++ l)).Nodup) : setAll m l = m ++ l := by
  induction l generalizing m with
  | nil => simp [setAll]
  | cons kv rest ih =>
    have e : setAll m (kv :: rest) = setAll (setKV m kv.1 kv.2) rest := rfl
    have hk : kv.1 ∉ keysOf m := by
      intro hm
      simp only [keysOf, List.map_append, List.map_cons] at h hm
      rw [List.nodup_append] at h
      exact h.2.2 _ hm _ (by simp) rfl
    rw [e, setKV_of_not_mem m kv.1 kv.2 hk]
    have : m ++ [(kv.1, kv.2)] ++ rest = m ++ kv :: rest := by simp
    rw [ih (m ++ [(kv.1, kv.2)]) (by rw [this]; exact h), this]

theorem getKV_map_key {κ' : Type} [DecidableEq κ'] (f : κ → κ') (hf : ∀ a b, f a = f b → a = b)
    (l : List (κ × α)) (k : κ) : getKV (l.map (fun kv => (f kv.1, kv.2))) (f k) = getKV l k := by
  induction l with
  | nil => rfl
  | cons x rest ih =>
    obtain ⟨a, b⟩ := x
    simp only [List.map_cons, getKV, ih]
    by_cases h : a = k
    · subst h; simp
    · have : ¬ f a = f k := fun e => h (hf _ _ e)
      simp [h, this]

theorem getKV_none_of (l : List (κ × α)) (k : κ) (h : ∀ kv ∈ l, kv.1 ≠ k) : getKV l k = none := by
  induction l with
  | nil => rfl
  | cons x rest ih =>
    obtain ⟨a, b⟩ := x
    have ha : ¬ a = k := h (a, b) (by simp)
    simp only [getKV, ha, ↓reduceIte]
    exact ih (fun kv hkv => h kv (by simp [hkv]))

end KV

theorem nodup_map_inj {β γ : Type} (f : β → γ) (l : List β) (h : (l.map f).Nodup) (a b : β)
    (ha : a ∈ l) (hb : b ∈ l) (e : f a = f b) : a = b := by
  induction l with
  | nil => cases ha
  | cons x xs ih =>
    simp only [List.map_cons, List.nodup_cons, List.mem_map, not_exists, not_and] at h
    simp only [List.mem_cons] at ha hb
    rcases ha with ha | ha <;> rcases hb with hb | hb
    · rw [ha, hb]
    · subst ha; exact absurd e.symm (h.1 b hb)
    · subst hb; exact absurd e (h.1 a ha)
    · exact ih h.2 ha hb

/-! ### the alias tables -/

/-- the reverse map: a wire name ↦ the parameter of the last pair that gives it -/
theorem getKV_reverseOf (al : List (String × String)) (n : String) :
    getKV (reverseOf al) n = (al.reverse.find? (fun kv => kv.2 = n)).map (·.1) := by
  rw [reverseOf, getKV_setAll]
  have : lastOfKey (al.map (fun kv => (kv.2, kv.1))) n = (al.reverse.find? (fun kv => kv.2 = n)).map (·.1) := by
    simp only [lastOfKey, ← List.map_reverse, List.find?_map, Option.map_map]
    rfl
  rw [this]
  cases (al.reverse.find? (fun kv => kv.2 = n)).map (·.1) <;> rfl

/-- model's `real` parameter of a placeholder = the specification's `resolve` -/
theorem realParams_eq (m : MethodSpec) (names : List (List Char)) :
    realParams m.alias names = names.map (fun n => resolve m (String.ofList n)) := by
  simp only [realParams]
  apply List.map_congr_left
  intro n _
  simp only [getKV_reverseOf, resolve]
  cases List.find? (fun kv => decide (kv.2 = String.ofList n)) m.alias.reverse <;> rfl

/-- the directive alias of a parameter, as the final AliasMap knows it -/
def aliasLookup (al : List (String × String)) (p : String) : Option String := lastOfKey al p

theorem aliasOf_eq (m : MethodSpec) (p : String) (hne : ∀ kv ∈ m.alias, kv.2.isEmpty = false) :
    (match aliasLookup m.alias p with
      | some a => if a.isEmpty then p else a
      | none => p) = aliasOf m p := by
  simp only [aliasLookup, lastOfKey, aliasOf]
  cases h : List.find? (fun kv => decide (kv.1 = p)) m.alias.reverse with
  | none => rfl
  | some kv =>
    have hm : kv ∈ m.alias := List.mem_reverse.1 (List.mem_of_find?_eq_some h)
    simp [hne kv hm]

theorem aliasEntries_keys_field (ps : List Param) :
    ∀ kv ∈ ps.flatMap aliasEntries, ∃ p f g, kv.1 = Expr.field p f g := by
  intro kv hkv
  simp only [List.mem_flatMap] at hkv
  obtain ⟨p, _, hp⟩ := hkv
  unfold aliasEntries at hp
  cases hk : p.kind with
  | struct fs =>
    simp only [hk, List.mem_map] at hp
    obtain ⟨f, _, rfl⟩ := hp
    exact ⟨p.name, f.name, !f.exported, rfl⟩
  | _ => simp [hk] at hp

/-- lookups of parameter names in the final AliasMap see only the directive's map -/
theorem getKV_alias_param (al : List (String × String)) (ps : List Param) (n : String) :
    getKV (setAll (al.map (fun kv => (Expr.param kv.1, kv.2))) (ps.flatMap aliasEntries)) (.param n)
      = getKV al n := by
  rw [getKV_setAll, lastOfKey_none_of]
  · exact getKV_map_key Expr.param (fun a b e => by cases e; rfl) al n
  · intro kv hkv e
    obtain ⟨p, f, g, hk⟩ := aliasEntries_keys_field ps kv hkv
    rw [hk] at e; cases e

/-! ### lookups of struct-field expressions and of the pointer table -/

theorem fieldExpr_inj (p p' : String) (f f' : Field) (h : fieldExpr p f = fieldExpr p' f') :
    p = p' ∧ f.name = f'.name := by
  simp only [fieldExpr, Expr.field.injEq] at h
  exact ⟨h.1, h.2.1⟩

/-- with distinct parameter names and distinct field names, a field expression identifies its field -/
theorem field_unique (ps : List Param) (hnd : (ps.map (·.name)).Nodup)
    (p : Param) (hp : p ∈ ps) (fs : List Field) (hk : p.kind = .struct fs) (hfd : (fs.map (·.name)).Nodup)
    (f : Field) (hf : f ∈ fs)
    (p' : Param) (hp' : p' ∈ ps) (fs' : List Field) (hk' : p'.kind = .struct fs') (f' : Field) (hf' : f' ∈ fs')
    (e : fieldExpr p'.name f' = fieldExpr p.name f) : p' = p ∧ f' = f := by
  obtain ⟨e1, e2⟩ := fieldExpr_inj _ _ _ _ e
  have hpp : p' = p := nodup_map_inj (·.name) ps hnd p' p hp' hp e1
  subst hpp
  rw [hk] at hk'
  cases hk'
  exact ⟨rfl, nodup_map_inj (·.name) fs hfd f' f hf' hf e2⟩

theorem alias_field_lookup (ps : List Param) (hnd : (ps.map (·.name)).Nodup)
    (p : Param) (hp : p ∈ ps) (fs : List Field) (hk : p.kind = .struct fs) (hfd : (fs.map (·.name)).Nodup)
    (f : Field) (hf : f ∈ fs) :
    lastOfKey (ps.flatMap aliasEntries) (fieldExpr p.name f) = some (fieldKey f) := by
  apply lastOfKey_unique
  · simp only [List.mem_flatMap]
    exact ⟨p, hp, by simp only [aliasEntries, hk, List.mem_map]; exact ⟨f, hf, rfl⟩⟩
  · intro kv hkv hkey
    simp only [List.mem_flatMap] at hkv
    obtain ⟨p', hp', hin⟩ := hkv
    unfold aliasEntries at hin
    cases hk' : p'.kind with
    | struct fs' =>
      simp only [hk', List.mem_map] at hin
      obtain ⟨f', hf', rfl⟩ := hin
      obtain ⟨_, hff⟩ := field_unique ps hnd p hp fs hk hfd f hf p' hp' fs' hk' f' hf' hkey
      rw [hff]
    | _ => simp [hk'] at hin

/-- every entry of the pointer table is `true`, so a lookup is `true` exactly when the key is present -/
theorem ptr_lookup_iff (l : List (Expr × Bool)) (hall : ∀ kv ∈ l, kv.2 = true) (e : Expr) :
    (getKV (setAll [] l) e).getD false = true ↔ ∃ kv ∈ l, kv.1 = e := by
  rw [getKV_setAll]
  cases h : lastOfKey l e with
  | none =>
    simp only [getKV, Option.getD_none, Bool.false_eq_true, false_iff, not_exists, not_and]
    intro kv hkv hk
    have : lastOfKey l e = some kv.2 := by
      -- a present key has a last value
      unfold lastOfKey at h ⊢
      cases hf : l.reverse.find? (fun kv => decide (kv.1 = e)) with
      | none =>
        rw [List.find?_eq_none] at hf
        exact absurd (by simpa using hk) (hf kv (List.mem_reverse.2 hkv))
      | some x => simp [hf] at h
    rw [h] at this; cases this
  | some v =>
    have hm := lastOfKey_mem l e v h
    have : v = true := hall _ hm
    subst this
    simp only [Option.getD_some, true_iff]
    exact ⟨_, hm, rfl⟩

theorem ptrEntries_true (ps : List Param) : ∀ kv ∈ ps.flatMap ptrEntries, kv.2 = true := by
  intro kv hkv
  simp only [List.mem_flatMap] at hkv
  obtain ⟨p, _, hin⟩ := hkv
  simp only [ptrEntries, List.mem_append] at hin
  rcases hin with hin | hin
  · unfold fieldPtrEntries at hin
    cases hk : p.kind with
    | struct fs =>
      simp only [hk, List.mem_map] at hin
      obtain ⟨f, _, rfl⟩ := hin; rfl
    | _ => simp [hk] at hin
  · by_cases hp : p.ptr = true
    · simp only [hp, ↓reduceIte, List.mem_singleton] at hin; rw [hin]
    · simp [hp] at hin

theorem ptr_param_lookup (ps : List Param) (hnd : (ps.map (·.name)).Nodup) (p : Param) (hp : p ∈ ps) :
    (getKV (setAll [] (ps.flatMap ptrEntries)) (.param p.name)).getD false = p.ptr := by
  have := ptr_lookup_iff (ps.flatMap ptrEntries) (ptrEntries_true ps) (.param p.name)
  cases hb : p.ptr with
  | true =>
    rw [this]
    refine ⟨(.param p.name, true), ?_, rfl⟩
    simp only [List.mem_flatMap]
    exact ⟨p, hp, by simp [ptrEntries, hb]⟩
  | false =>
    cases hv : (getKV (setAll [] (ps.flatMap ptrEntries)) (.param p.name)).getD false with
    | false => rfl
    | true =>
      obtain ⟨kv, hkv, hkey⟩ := this.1 hv
      simp only [List.mem_flatMap] at hkv
      obtain ⟨p', hp', hin⟩ := hkv
      simp only [ptrEntries, List.mem_append] at hin
      rcases hin with hin | hin
      · unfold fieldPtrEntries at hin
        cases hk : p'.kind with
        | struct fs =>
          simp only [hk, List.mem_map] at hin
          obtain ⟨f, _, rfl⟩ := hin
          simp [fieldExpr] at hkey
        | _ => simp [hk] at hin
      · by_cases hpp : p'.ptr = true
        · simp only [hpp, ↓reduceIte, List.mem_singleton] at hin
          rw [hin] at hkey
          simp only [Expr.param.injEq] at hkey
          have : p' = p := nodup_map_inj (·.name) ps hnd p' p hp' hp hkey
          subst this
          rw [hb] at hpp; cases hpp
        · simp [hpp] at hin

theorem ptr_field_lookup (ps : List Param) (hnd : (ps.map (·.name)).Nodup)
    (p : Param) (hp : p ∈ ps) (fs : List Field) (hk : p.kind = .struct fs) (hfd : (fs.map (·.name)).Nodup)
    (f : Field) (hf : f ∈ fs) :
    (getKV (setAll [] (ps.flatMap ptrEntries)) (fieldExpr p.name f)).getD false = f.ptr := by
  have := ptr_lookup_iff (ps.flatMap ptrEntries) (ptrEntries_true ps) (fieldExpr p.name f)
  cases hb : f.ptr with
  | true =>
    rw [this]
    refine ⟨(fieldExpr p.name f, true), ?_, rfl⟩
    simp only [List.mem_flatMap]
    refine ⟨p, hp, ?_⟩
    simp only [ptrEntries, fieldPtrEntries, hk, List.mem_append, List.mem_map, List.mem_filter]
    exact Or.inl ⟨f, ⟨hf, hb⟩, rfl⟩
  | false =>
    cases hv : (getKV (setAll [] (ps.flatMap ptrEntries)) (fieldExpr p.name f)).getD false with
    | false => rfl
    | true =>
      obtain ⟨kv, hkv, hkey⟩ := this.1 hv
      simp only [List.mem_flatMap] at hkv
      obtain ⟨p', hp', hin⟩ := hkv
      simp only [ptrEntries, List.mem_append] at hin
      rcases hin with hin | hin
      · unfold fieldPtrEntries at hin
        cases hk' : p'.kind with
        | struct fs' =>
          simp only [hk', List.mem_map, List.mem_filter] at hin
          obtain ⟨f', ⟨hf', hptr⟩, rfl⟩ := hin
          obtain ⟨_, hff⟩ := field_unique ps hnd p hp fs hk hfd f hf p' hp' fs' hk' f' hf' hkey
          subst hff
          rw [hb] at hptr; cases hptr
        | _ => simp [hk'] at hin
      · by_cases hpp : p'.ptr = true
        · simp only [hpp, ↓reduceIte, List.mem_singleton] at hin
          rw [hin] at hkey
          simp [fieldExpr] at hkey
        · simp [hpp] at hin

/-! ### the emitted query statements in closed form -/

/-- what the property lets one parameter contribute, as query statements -/
def specParamOps (m : MethodSpec) (p : Param) : List QueryOp :=
  match p.kind with
  | .scalar | .qualOther => if isPathParam m p.name then [] else [⟨.param p.name, aliasOf m p.name, p.ptr⟩]
  | .struct fs => fs.map (fun f => ⟨fieldExpr p.name f, fieldKey f, f.ptr⟩)
  | _ => []

theorem flatMap_congr_mem {β γ : Type} (l : List β) (f g : β → List γ) (h : ∀ a ∈ l, f a = g a) :
    l.flatMap f = l.flatMap g := by
  induction l with
  | nil => rfl
  | cons a as ih =>
    simp only [List.flatMap_cons]
    rw [h a (by simp), ih (fun b hb => h b (by simp [hb]))]

theorem contains_map_any (l : List (List Char)) (f : List Char → String) (x : String) :
    (l.map f).contains x = l.any (fun a => f a == x) := by
  induction l with
  | nil => rfl
  | cons a as ih =>
    simp only [List.map_cons, List.contains_cons, List.any_cons, ih]
    congr 1
    exact Bool.beq_comm

theorem getKV_eq_lastOfKey_of_nodup (al : List (String × String)) (h : (keysOf al).Nodup) (n : String) :
    getKV al n = lastOfKey al n := by
  have e : setAll [] al = al := by
    have := setAll_of_nodup [] al (by simpa using h)
    simpa using this
  have := getKV_setAll [] al n
  rw [e] at this
  rw [this]
  cases lastOfKey al n <;> rfl

/-- the statements the template emits for a cooked method are exactly those the property lists -/
theorem queryOps_eq (m : MethodSpec) (c : Cooked)
    (hnd : (m.params.map (·.name)).Nodup)
    (hfd : ∀ p ∈ m.params, ((fieldsOf p).map (·.name)).Nodup)
    (hfk : ∀ p ∈ m.params, ∀ f ∈ fieldsOf p, (fieldKey f).isEmpty = false)
    (hak : (keysOf m.alias).Nodup)
    (hav : ∀ kv ∈ m.alias, kv.2.isEmpty = false)
    (hcook : cookParams m.verb (realParams m.alias (placeholders m.path))
      { aliasMap := m.alias.map (fun kv => (Expr.param kv.1, kv.2)) } m.params = .ok c) :
    queryOpsOf c = m.params.flatMap (specParamOps m) := by
  obtain ⟨hq, ha, hp⟩ := cookParams_closed _ _ _ _ _ hcook
  simp only [List.nil_append] at hq
  unfold queryOpsOf
  rw [hq, List.map_flatMap]
  apply flatMap_congr_mem
  intro p hpm
  cases hk : p.kind with
  | scalar =>
    simp only [paramExprs, specParamOps, hk, realParams_eq, contains_map_any]
    have : isPathParam m p.name = (placeholders m.path).any (fun a => resolve m (String.ofList a) == p.name) := rfl
    rw [← this]
    by_cases hpp : isPathParam m p.name = true
    · simp [hpp]
    · simp only [hpp, Bool.false_eq_true, ↓reduceIte, List.map_cons, List.map_nil, List.cons.injEq, and_true]
      rw [ha, getKV_alias_param, hp, ptr_param_lookup m.params hnd p hpm, getKV_eq_lastOfKey_of_nodup m.alias hak]
      have := aliasOf_eq m p.name hav
      simp only [aliasLookup] at this
      simp only [Expr.text]
      congr 1
  | struct fs =>
    simp only [paramExprs, specParamOps, hk, List.map_map]
    apply List.map_congr_left
    intro f hf
    have hfs : fieldsOf p = fs := by simp [fieldsOf, hk]
    have hfd' : (fs.map (·.name)).Nodup := by rw [← hfs]; exact hfd p hpm
    simp only [Function.comp]
    rw [ha, getKV_setAll, alias_field_lookup m.params hnd p hpm fs hk hfd' f hf, hp,
      ptr_field_lookup m.params hnd p hpm fs hk hfd' f hf]
    have := hfk p hpm f (by rw [hfs]; exact hf)
    simp [this]
  | ctx => simp [paramExprs, specParamOps, hk]
  | qualOther =>
    simp only [paramExprs, specParamOps, hk, realParams_eq, contains_map_any]
    have : isPathParam m p.name = (placeholders m.path).any (fun a => resolve m (String.ofList a) == p.name) := rfl
    rw [← this]
    by_cases hpp : isPathParam m p.name = true
    · simp [hpp]
    · simp only [hpp, Bool.false_eq_true, ↓reduceIte, List.map_cons, List.map_nil, List.cons.injEq, and_true]
      rw [ha, getKV_alias_param, hp, ptr_param_lookup m.params hnd p hpm, getKV_eq_lastOfKey_of_nodup m.alias hak]
      have := aliasOf_eq m p.name hav
      simp only [aliasLookup] at this
      simp only [Expr.text]
      congr 1
  | dict => simp [paramExprs, specParamOps, hk]
  | unsupported => simp [paramExprs, specParamOps, hk]

end ShootVerif.Rest
