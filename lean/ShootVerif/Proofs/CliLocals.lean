import ShootVerif.Proofs.Cli
/-!
Function-local type declarations that are `harmless` for a sub-command (Spec/Cli.lean) change neither the model's outcome
(`run_stripLoc`) nor the specification (`spec_stripLoc`): lemmas for the `stripLoc` branch of `region`.
-/
set_option linter.unusedSimpArgs false
set_option linter.unusedVariables false
namespace ShootVerif.Cli

/-- the TypeSpecs that matter to the walk of `cmd` -/
def rel (cmd : Cmd) (t : TSpec) : Bool := !harmless cmd t

theorem stripLoc_cons (f : File) (r : Pkg) :
    stripLoc (f :: r) = { f with decls := f.decls.map stripLocDecl } :: stripLoc r := rfl

theorem topSpecs_stripLoc (ds : List Decl) : topSpecs (ds.map stripLocDecl) = topSpecs ds := by
  induction ds with
  | nil => rfl
  | cons d r ih => cases d <;> simp [stripLocDecl, topSpecs, ih]

theorem names_stripLoc (pkg : Pkg) : (stripLoc pkg).map File.name = pkg.map File.name := by
  simp [stripLoc, List.map_map, Function.comp_def]

theorem declared_stripLoc (pkg : Pkg) : declared (stripLoc pkg) = declared pkg := by
  induction pkg with
  | nil => rfl
  | cons f r ih => simp only [stripLoc_cons, declared, topSpecs_stripLoc, ih]

theorem getGoFile_stripLoc (n : String) (pkg : Pkg) : getGoFile n (stripLoc pkg) = getGoFile n pkg := by
  induction pkg with
  | nil => rfl
  | cons f r ih => simp only [stripLoc_cons, getGoFile, topSpecs_stripLoc, ih]

theorem findAllInOne_stripLoc (cl : String) (pkg : Pkg) : findAllInOne cl (stripLoc pkg) = findAllInOne cl pkg := by
  induction pkg with
  | nil => rfl
  | cons f r ih => simp only [stripLoc_cons, findAllInOne, ih]

theorem testedTop_stripLoc (file : String) (pkg : Pkg) : testedTop file (stripLoc pkg) = testedTop file pkg := by
  induction pkg with
  | nil => rfl
  | cons f r ih => simp only [stripLoc_cons, testedTop, topSpecs_stripLoc, ih]

theorem allTop_stripLoc (pkg : Pkg) : allTop (stripLoc pkg) = allTop pkg := by
  induction pkg with
  | nil => rfl
  | cons f r ih => simp only [stripLoc_cons, allTop, topSpecs_stripLoc, ih]

theorem declsConsts_stripLoc (n : String) (ds : List Decl) : declsConsts n (ds.map stripLocDecl) = declsConsts n ds := by
  induction ds with
  | nil => rfl
  | cons d r ih => cases d <;> simp [stripLocDecl, declsConsts, ih]

theorem constsOf_stripLoc (n : String) (pkg : Pkg) : constsOf n (stripLoc pkg) = constsOf n pkg := by
  induction pkg with
  | nil => rfl
  | cons f r ih => simp only [stripLoc_cons, constsOf, declsConsts_stripLoc, ih]

theorem confirm_stripLoc (pkg : Pkg) (file : String) (l : List String) : confirm (stripLoc pkg) file l = confirm pkg file l := by
  induction l with
  | nil => rfl
  | cons n r ih => simp only [confirm, getGoFile_stripLoc, ih]

/-! the TypeSpecs a walk sees, restricted to the ones that matter, are the same with and without harmless locals -/

theorem declsTSpecs_rel (cmd : Cmd) (ds : List Decl) (h : localsHarmless cmd ds = true) :
    (declsTSpecs (ds.map stripLocDecl)).filter (rel cmd) = (declsTSpecs ds).filter (rel cmd) := by
  induction ds with
  | nil => rfl
  | cons d r ih =>
    cases d with
    | func tps ls =>
      simp only [localsHarmless, Bool.and_eq_true] at h
      have hl : ls.filter (rel cmd) = [] := by
        rw [List.filter_eq_nil_iff]
        intro t ht
        have := List.all_eq_true.mp h.1 t ht
        simp [rel, this]
      simp only [List.map_cons, stripLocDecl, declsTSpecs, Decl.tspecs, List.nil_append, List.filter_append, hl, ih h.2]
    | types ss =>
      simp only [localsHarmless] at h
      simp only [List.map_cons, stripLocDecl, declsTSpecs, Decl.tspecs, List.filter_append, ih h]
    | consts ss =>
      simp only [localsHarmless] at h
      simp only [List.map_cons, stripLocDecl, declsTSpecs, Decl.tspecs, List.filter_append, ih h]
    | other =>
      simp only [localsHarmless] at h
      simp only [List.map_cons, stripLocDecl, declsTSpecs, Decl.tspecs, List.filter_append, ih h]

theorem testedSpecs_rel (cmd : Cmd) (file : String) (pkg : Pkg) (h : ∀ f ∈ pkg, localsHarmless cmd f.decls = true) :
    (testedSpecs file (stripLoc pkg)).filter (rel cmd) = (testedSpecs file pkg).filter (rel cmd) := by
  induction pkg with
  | nil => rfl
  | cons f r ih =>
    have hf := h f (by simp)
    have hr := ih (fun g hg => h g (by simp [hg]))
    simp only [stripLoc_cons, testedSpecs, List.filter_append, hr, File.tspecs]
    split
    · rw [declsTSpecs_rel cmd f.decls hf]
    · rfl

theorem allTSpecs_rel (cmd : Cmd) (pkg : Pkg) (h : ∀ f ∈ pkg, localsHarmless cmd f.decls = true) :
    (allTSpecs (stripLoc pkg)).filter (rel cmd) = (allTSpecs pkg).filter (rel cmd) := by
  induction pkg with
  | nil => rfl
  | cons f r ih =>
    have hf := h f (by simp)
    have hr := ih (fun g hg => h g (by simp [hg]))
    simp only [stripLoc_cons, allTSpecs, List.filter_append, hr, File.tspecs, declsTSpecs_rel cmd f.decls hf]

theorem namedSpecs_rel (cmd : Cmd) (pkg : Pkg) (h : ∀ f ∈ pkg, localsHarmless cmd f.decls = true) (n : String) :
    (namedSpecs (stripLoc pkg) n).filter (rel cmd) = (namedSpecs pkg n).filter (rel cmd) := by
  unfold namedSpecs
  rw [List.filter_filter, List.filter_filter]
  have : ∀ l : List TSpec, l.filter (fun a => rel cmd a && (a.name == n)) = (l.filter (rel cmd)).filter (fun a => a.name == n) := by
    intro l; rw [List.filter_filter]; congr 1; funext a; exact Bool.and_comm _ _
  rw [this, this, allTSpecs_rel cmd pkg h]

/-! each list function of the three walks ignores harmless elements -/

theorem listRest_rel (l : List TSpec) : listRest (l.filter (rel .rest)) = listRest l := by
  induction l with
  | nil => rfl
  | cons t r ih =>
    cases hs : t.shape with
    | iface es => simp [List.filter_cons, rel, harmless, hs, listRest, ih]
    | struct => simp [List.filter_cons, rel, harmless, hs, listRest, ih]
    | other => simp [List.filter_cons, rel, harmless, hs, listRest, ih]

theorem restHas_rel (l : List TSpec) : restHas (l.filter (rel .rest)) = restHas l := by
  induction l with
  | nil => rfl
  | cons t r ih =>
    cases hs : t.shape with
    | iface es => simp [List.filter_cons, rel, harmless, hs, restHas, ih]
    | struct => simp [List.filter_cons, rel, harmless, hs, restHas, ih]
    | other => simp [List.filter_cons, rel, harmless, hs, restHas, ih]

theorem listMap_rel (l : List TSpec) : listMap (l.filter (rel .map)) = listMap l := by
  induction l with
  | nil => rfl
  | cons t r ih =>
    by_cases hs : t.shape = .struct
    · simp [List.filter_cons, rel, harmless, hs, listMap, ih]
    · simp [List.filter_cons, rel, harmless, hs, listMap, ih]

theorem findStruct_rel (l : List TSpec) :
    (l.filter (rel .map)).find? (fun t => t.shape == .struct) = l.find? (fun t => t.shape == .struct) := by
  induction l with
  | nil => rfl
  | cons t r ih =>
    by_cases hs : t.shape = .struct
    · simp [List.filter_cons, rel, harmless, hs]
    · simp [List.filter_cons, rel, harmless, hs, ih]

theorem listEnum_rel (l : List TSpec) : listEnum (l.filter (rel .enum)) = listEnum l := by
  induction l with
  | nil => rfl
  | cons t r ih =>
    cases hu : t.under with
    | none => simp [List.filter_cons, rel, harmless, listEnum, hu, ih]
    | some k =>
      cases hk : k.listed with
      | true => simp [List.filter_cons, rel, harmless, listEnum, hu, hk, ih]
      | false => simp [List.filter_cons, rel, harmless, listEnum, hu, hk, ih]

theorem enumAliasWarn_rel (l : List TSpec) : enumAliasWarn (l.filter (rel .enum)) = enumAliasWarn l := by
  induction l with
  | nil => rfl
  | cons t r ih =>
    cases hu : t.under with
    | none => simp [List.filter_cons, rel, harmless, enumAliasWarn, hu, ih]
    | some k =>
      cases hk : k.listed with
      | true => simp [List.filter_cons, rel, harmless, enumAliasWarn, hu, hk, ih]
      | false => simp [List.filter_cons, rel, harmless, enumAliasWarn, hu, hk, ih]

theorem makeData_stripLoc (cmd : Cmd) (pkg : Pkg) (h : ∀ f ∈ pkg, localsHarmless cmd f.decls = true) (sp : Bool) (n : String) :
    makeData cmd (stripLoc pkg) sp n = makeData cmd pkg sp n := by
  have hn := namedSpecs_rel cmd pkg h n
  have hnm : ∀ p : Pkg, ∀ t ∈ namedSpecs p n, t.name = n := by
    intro p t ht
    simp only [namedSpecs, List.mem_filter, beq_iff_eq] at ht
    exact ht.2
  cases cmd with
  | new => unfold makeData namedTop; simp only [allTop_stripLoc]
  | rest =>
    unfold makeData
    simp only
    rw [← restHas_rel (namedSpecs (stripLoc pkg) n), ← restHas_rel (namedSpecs pkg n), hn]
  | map =>
    unfold makeData
    simp only
    rw [← findStruct_rel (namedSpecs (stripLoc pkg) n), ← findStruct_rel (namedSpecs pkg n), hn]
  | enum => unfold makeData namedTop; simp only [allTop_stripLoc, constsOf_stripLoc]

theorem keep_stripLoc (cmd : Cmd) (pkg : Pkg) (h : ∀ f ∈ pkg, localsHarmless cmd f.decls = true) (sp : Bool) (l : List String) :
    keep cmd (stripLoc pkg) sp l = keep cmd pkg sp l := by
  induction l with
  | nil => rfl
  | cons n r ih => simp only [keep, makeData_stripLoc cmd pkg h, ih]

theorem listTypes_stripLoc (cmd : Cmd) (pkg : Pkg) (h : ∀ f ∈ pkg, localsHarmless cmd f.decls = true) (file : String) :
    listTypes cmd (stripLoc pkg) file = listTypes cmd pkg file := by
  have ht := testedSpecs_rel cmd file pkg h
  cases cmd with
  | new => simp only [listTypes, testedTop_stripLoc]
  | rest => simp only [listTypes]; rw [← listRest_rel (testedSpecs file (stripLoc pkg)), ← listRest_rel (testedSpecs file pkg), ht]
  | map => simp only [listTypes]; rw [← listMap_rel (testedSpecs file (stripLoc pkg)), ← listMap_rel (testedSpecs file pkg), ht]
  | enum => simp only [listTypes]; rw [← listEnum_rel (testedSpecs file (stripLoc pkg)), ← listEnum_rel (testedSpecs file pkg), ht]

/-- model invariance: function-local type declarations that are harmless for the sub-command do not change the outcome -/
theorem run_stripLoc (cmd : Cmd) (pkg : Pkg) (fl : Flags) (h : ∀ f ∈ pkg, localsHarmless cmd f.decls = true) :
    run cmd (stripLoc pkg) fl = run cmd pkg fl := by
  have h1 : flagCheck (stripLoc pkg) fl = flagCheck pkg fl := by simp only [flagCheck, names_stripLoc]
  have hw : (cmd == .enum && enumAliasWarn (testedSpecs fl.file (stripLoc pkg))) = (cmd == .enum && enumAliasWarn (testedSpecs fl.file pkg)) := by
    cases cmd with
    | enum =>
      rw [← enumAliasWarn_rel (testedSpecs fl.file (stripLoc pkg)), ← enumAliasWarn_rel (testedSpecs fl.file pkg),
        testedSpecs_rel .enum fl.file pkg h]
    | new => rfl
    | rest => rfl
    | map => rfl
  have h2 : confirmTypes cmd (stripLoc pkg) fl = confirmTypes cmd pkg fl := by
    simp only [confirmTypes, confirm_stripLoc, listTypes_stripLoc cmd pkg h, hw]
  have h3 : aioOf (stripLoc pkg) fl = aioOf pkg fl := by simp only [aioOf, findAllInOne_stripLoc]
  simp only [run, h1, h2, h3, keep_stripLoc cmd pkg h]

/-! the specification never looks into function bodies -/

theorem findDecl_stripLoc (pkg : Pkg) (n : String) : findDecl (stripLoc pkg) n = findDecl pkg n := by
  simp only [findDecl, declared_stripLoc]

theorem fileOf_stripLoc (pkg : Pkg) (n : String) : fileOf (stripLoc pkg) n = fileOf pkg n := by
  simp only [fileOf, findDecl_stripLoc]

theorem goConstsDecls_stripLoc (n : String) (ds : List Decl) : goConstsDecls n (ds.map stripLocDecl) = goConstsDecls n ds := by
  induction ds with
  | nil => rfl
  | cons d r ih => cases d <;> simp [stripLocDecl, goConstsDecls, ih]

theorem goConsts_stripLoc (n : String) (pkg : Pkg) : goConsts n (stripLoc pkg) = goConsts n pkg := by
  induction pkg with
  | nil => rfl
  | cons f r ih => simp only [stripLoc_cons, goConsts, goConstsDecls_stripLoc, ih]

theorem eligible_stripLoc (cmd : Cmd) (pkg : Pkg) (t : TSpec) : eligible cmd (stripLoc pkg) t = eligible cmd pkg t := by
  cases cmd <;> simp only [eligible, goConsts_stripLoc]

theorem acceptable_stripLoc (cmd : Cmd) (pkg : Pkg) (t : TSpec) : acceptable cmd (stripLoc pkg) t = acceptable cmd pkg t := by
  cases cmd <;> simp only [acceptable, goConsts_stripLoc]

theorem good_stripLoc (cmd : Cmd) (pkg : Pkg) (file : Option String) (n : String) :
    good cmd (stripLoc pkg) file n = good cmd pkg file n := by
  simp only [good, findDecl_stripLoc, acceptable_stripLoc]

theorem eligibleIn_stripLoc (cmd : Cmd) (pkg : Pkg) (inFile : Option String) :
    eligibleIn cmd (stripLoc pkg) inFile = eligibleIn cmd pkg inFile := by
  simp only [eligibleIn, declared_stripLoc, eligible_stripLoc]

theorem perType_stripLoc (pkg : Pkg) : perType (stripLoc pkg) = perType pkg := by
  funext n; simp only [perType, fileOf_stripLoc]

theorem find_directive_stripLoc (cl : String) (pkg : Pkg) :
    ((stripLoc pkg).find? (fun f => f.comments.any (isDirective cl))).map (·.name)
      = (pkg.find? (fun f => f.comments.any (isDirective cl))).map (·.name) := by
  induction pkg with
  | nil => rfl
  | cons f r ih =>
    simp only [stripLoc_cons, List.find?_cons]
    cases h : f.comments.any (isDirective cl) with
    | true => simp
    | false => simpa using ih

theorem spec_stripLoc (cmd : Cmd) (pkg : Pkg) (fl : Flags) : spec cmd (stripLoc pkg) fl = spec cmd pkg fl := by
  unfold spec
  simp only [good_stripLoc, eligibleIn_stripLoc, find_directive_stripLoc, perType_stripLoc]

end ShootVerif.Cli
