import ShootVerif.Proofs.RestText
/-!
The walk of cookClient over the entries of the interface type (Model/Rest.lean `Entry`, `generateAst`): where the embedded
entries stand is irrelevant, parameter groups flatten name by name, the accepted result lists are the four documented forms.
-/
namespace ShootVerif.Rest

/-! ## the entries of the interface type: what the walk of cookClient depends on -/

def Entry.isEmbed : Entry → Bool
  | .embed _ => true
  | .method .. => false

def Entry.isMethod : Entry → Bool
  | .embed _ => false
  | .method .. => true

theorem isEmbed_embed (d : Option (List Char)) : (Entry.embed d).isEmbed = true := rfl
theorem isEmbed_method (n : String) (d : Option (List Char)) (ps : List ParamGroup) (rs : List ResGroup) :
    (Entry.method n d ps rs).isEmbed = false := rfl
theorem isMethod_embed (d : Option (List Char)) : (Entry.embed d).isMethod = false := rfl
theorem isMethod_method (n : String) (d : Option (List Char)) (ps : List ParamGroup) (rs : List ResGroup) :
    (Entry.method n d ps rs).isMethod = true := rfl

/-- the README way of writing the same interface: the embedded entries first, then the methods -/
def embedsFirst (es : List Entry) : List Entry := es.filter Entry.isEmbed ++ es.filter Entry.isMethod

theorem astHeaders_append (a b : List Entry) : astHeaders (a ++ b) = astHeaders a ++ astHeaders b := by
  simp [astHeaders, List.flatMap_append]

theorem astMethods_append (a b : List Entry) : astMethods (a ++ b) = astMethods a ++ astMethods b := by
  simp [astMethods, List.filterMap_append]

theorem astHeaders_embedsFirst (es : List Entry) : astHeaders (embedsFirst es) = astHeaders es := by
  induction es with
  | nil => rfl
  | cons e es ih =>
    cases e with
    | embed d =>
      simp only [embedsFirst, List.filter_cons, isEmbed_embed, isMethod_embed, ↓reduceIte, Bool.false_eq_true, List.cons_append] at ih ⊢
      have e1 : astHeaders (Entry.embed d :: (List.filter Entry.isEmbed es ++ List.filter Entry.isMethod es))
          = astHeaders [Entry.embed d] ++ astHeaders (List.filter Entry.isEmbed es ++ List.filter Entry.isMethod es) := by
        rw [← astHeaders_append]; rfl
      have e2 : astHeaders (Entry.embed d :: es) = astHeaders [Entry.embed d] ++ astHeaders es := by
        rw [← astHeaders_append]; rfl
      rw [e1, e2, ih]
    | method n d ps rs =>
      simp only [embedsFirst, List.filter_cons, isEmbed_method, isMethod_method, Bool.false_eq_true, ↓reduceIte] at ih ⊢
      rw [astHeaders_append] at ih ⊢
      have e1 : astHeaders (Entry.method n d ps rs :: List.filter Entry.isMethod es) = astHeaders (List.filter Entry.isMethod es) := by
        simp [astHeaders]
      have e2 : astHeaders (Entry.method n d ps rs :: es) = astHeaders es := by simp [astHeaders]
      rw [e1, e2, ih]

theorem astMethods_embedsFirst (es : List Entry) : astMethods (embedsFirst es) = astMethods es := by
  induction es with
  | nil => rfl
  | cons e es ih =>
    cases e with
    | embed d =>
      simp only [embedsFirst, List.filter_cons, isEmbed_embed, isMethod_embed, ↓reduceIte, Bool.false_eq_true, List.cons_append] at ih ⊢
      have e1 : ∀ l, astMethods (Entry.embed d :: l) = astMethods l := by intro l; simp [astMethods]
      rw [e1, e1, ih]
    | method n d ps rs =>
      simp only [embedsFirst, List.filter_cons, isEmbed_method, isMethod_method, Bool.false_eq_true, ↓reduceIte] at ih ⊢
      rw [astMethods_append] at ih ⊢
      have hnone : astMethods (List.filter Entry.isEmbed es) = [] := by
        simp only [astMethods, List.filterMap_eq_nil_iff, List.mem_filter]
        intro e he
        cases e with
        | embed _ => rfl
        | method n' d' ps' rs' => simp [isEmbed_method] at he
      rw [hnone] at ih ⊢
      simp only [List.nil_append] at ih ⊢
      have e1 : ∀ l, astMethods (Entry.method n d ps rs :: l) = ⟨n, d.getD [], flattenParams ps⟩ :: astMethods l := by
        intro l; simp [astMethods]
      rw [e1, e1, ih]

theorem badResults_embedsFirst (es : List Entry) : badResults (embedsFirst es) = badResults es := by
  simp only [badResults, embedsFirst, List.any_append]
  induction es with
  | nil => rfl
  | cons e es ih =>
    cases e with
    | embed d =>
      simp only [List.filter_cons, isEmbed_embed, isMethod_embed, ↓reduceIte, Bool.false_eq_true, List.any_cons, Bool.false_or] at ih ⊢
      exact ih
    | method n d ps rs =>
      simp only [List.filter_cons, isEmbed_method, isMethod_method, Bool.false_eq_true, ↓reduceIte, List.any_cons] at ih ⊢
      rw [← ih]
      cases (List.filter Entry.isEmbed es).any _ <;> simp [Bool.or_comm]

/-- WHERE the embedded shoot.RestClient[T] (or any other embedded interface) stands among the methods is irrelevant:
    the output is that of the same interface written with the embedded entries first -/
theorem generateAst_embedsFirst (es : List Entry) : generateAst (embedsFirst es) = generateAst es := by
  unfold generateAst
  rw [astHeaders_embedsFirst, astMethods_embedsFirst, badResults_embedsFirst]

/-- `a, b T` is `a T, b T` -/
theorem flattenParams_split (pre post : List ParamGroup) (a b : List String) (k : PKind) (p : Bool) :
    flattenParams (pre ++ ⟨a ++ b, k, p⟩ :: post) = flattenParams (pre ++ ⟨a, k, p⟩ :: ⟨b, k, p⟩ :: post) := by
  simp [flattenParams, List.flatMap_append, List.flatMap_cons]

theorem flattenParams_names (gs : List ParamGroup) : (flattenParams gs).map (·.name) = gs.flatMap (·.names) := by
  induction gs with
  | nil => rfl
  | cons g gs ih =>
    simp only [flattenParams, List.flatMap_cons, List.map_append, List.map_map] at ih ⊢
    rw [ih]
    congr 1
    simp [Function.comp_def]

/-- the result lists cookClient accepts are exactly the four documented forms, and each is one of the three result
    shapes of the template (C10) or "no result" -/
theorem resultShape_two (r1 r2 : ResGroup) (sh : RestCall.Shape) :
    resultShape [r1, r2] = some sh ↔ r1.ty = .httpResp ∧ r2.ty = .error ∧ sh = .none := by
  simp only [resultShape]
  by_cases hc : r1.ty = .httpResp ∧ r2.ty = .error
  · simp only [hc, and_self, ↓reduceIte, Option.some.injEq, true_and]
    exact ⟨fun h => h.symm, fun h => h.symm⟩
  · simp only [hc, ↓reduceIte]
    constructor
    · intro h; cases h
    · intro h; exact absurd ⟨h.1, h.2.1⟩ hc

theorem resultShape_three (r0 r1 r2 : ResGroup) (sh : RestCall.Shape) :
    resultShape [r0, r1, r2] = some sh ↔
      r1.ty = .httpResp ∧ r2.ty = .error ∧ r0.nnames = 0 ∧
        ((r0.ty = .star ∨ r0.ty = .httpResp) ∧ sh = .ptr ∨ r0.ty = .slice ∧ sh = .slice ∨ r0.ty = .map ∧ sh = .map) := by
  simp only [resultShape]
  by_cases hc : r1.ty = .httpResp ∧ r2.ty = .error ∧ r0.nnames = 0
  · obtain ⟨h1, h2, h3⟩ := hc
    simp only [h1, h2, h3, and_self, ↓reduceIte, true_and]
    cases hty : r0.ty <;> cases sh <;> simp
  · simp only [hc, ↓reduceIte]
    constructor
    · intro h; cases h
    · intro h; exact absurd ⟨h.1, h.2.1, h.2.2.1⟩ hc

/-- the result lists cookClient accepts have two or three entries, nothing else -/
theorem resultShape_length (rs : List ResGroup) (sh : RestCall.Shape) (h : resultShape rs = some sh) :
    rs.length = 2 ∨ rs.length = 3 := by
  match rs, h with
  | [_, _], _ => exact Or.inl rfl
  | [_, _, _], _ => exact Or.inr rfl
  | [], h => simp [resultShape] at h
  | [_], h => simp [resultShape] at h
  | _ :: _ :: _ :: _ :: _, h => simp [resultShape] at h

/-- from the entries to the `Iface` the method-level theorems speak about: with one documented embedded entry (the
    README way, wherever it stands) the output is `generate` on its doc text and the flattened methods, unless a cooked
    method's result list is rejected -/
theorem generateAst_eq_generate (es : List Entry) (hdoc : List Char) (h : astHeaders es = strKVs (parseHeaders hdoc)) :
    generateAst es = (match generate ⟨hdoc, astMethods es⟩ with
      | .fatal => .fatal
      | .ok plans b => if badResults es then .fatal else .ok plans b) := by
  unfold generateAst generate
  rw [h]
  rfl

theorem astHeaders_single (pre post : List Entry) (d : List Char)
    (hpre : ∀ e ∈ pre, e.isMethod = true) (hpost : ∀ e ∈ post, e.isMethod = true) :
    astHeaders (pre ++ Entry.embed (some d) :: post) = strKVs (parseHeaders d) := by
  have hm : ∀ l : List Entry, (∀ e ∈ l, e.isMethod = true) → astHeaders l = [] := by
    intro l hl
    simp only [astHeaders, List.flatMap_eq_nil_iff]
    intro e he
    cases e with
    | embed _ => have := hl _ he; simp [isMethod_embed] at this
    | method n' d' ps' rs' => simp
  have e1 : pre ++ Entry.embed (some d) :: post = pre ++ ([Entry.embed (some d)] ++ post) := rfl
  rw [e1, astHeaders_append, astHeaders_append, hm pre hpre, hm post hpost]
  simp [astHeaders]

end ShootVerif.Rest
