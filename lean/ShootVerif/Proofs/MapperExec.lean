import ShootVerif.Spec.Mapper
/-
Lemmas for C09: under the table-closure clauses of WF09, the guarded statements of mapper.tmpl,
evaluated in `Except` (error = panic), never fail and compute exactly the ideal semantics — for
every nil assignment N.
-/
namespace ShootVerif.Mapper

theorem derefOk_eq (pp : List (List String)) (N : List String) (p : List String) :
    derefOk pp N p = (hops pp p).all (nonNil N) := rfl

/-- a closed guard chain evaluates without panic to "every tested pointer is non-nil" -/
theorem evalGuard_ok (pp : List (List String)) (N : List String) (G seen : List (List String))
    (hc : chainOk pp seen G = true) (hs : ∀ s ∈ seen, nonNil N s = true) :
    evalGuard pp N G = .ok (G.all (nonNil N)) := by
  induction G generalizing seen with
  | nil => rfl
  | cons g gs ih =>
    simp only [chainOk, Bool.and_eq_true, List.all_eq_true, List.contains_iff_mem] at hc
    have hd : derefOk pp N g = true := by
      rw [derefOk_eq, List.all_eq_true]
      intro h hh
      exact hs h (hc.1 h hh)
    have e : evalGuard pp N (g :: gs) = if N.contains (joinPath g) then .ok false else evalGuard pp N gs := by
      simp only [evalGuard, hd, Bool.not_true, Bool.false_eq_true, ↓reduceIte]
    rw [e, List.all_cons]
    by_cases hg : N.contains (joinPath g) = true
    · have hg' : nonNil N g = false := by unfold nonNil; rw [hg]; rfl
      rw [if_pos hg, hg', Bool.false_and]
    · have hg' : nonNil N g = true := by
        unfold nonNil
        cases h : N.contains (joinPath g)
        · rfl
        · exact absurd h hg
      rw [if_neg hg, hg', Bool.true_and]
      apply ih (seen ++ [g]) hc.2
      intro s hs'
      rcases List.mem_append.mp hs' with h | h
      · exact hs s h
      · have : s = g := by simpa using h
        subst this; exact hg'

/-- the template's own nil tests make the value step total, and it is the ideal one -/
theorem stratValue_eq (s : Strat) (v : V) : stratValue s v = .ok (idealValue s v) := by
  cases s with
  | assign => rfl
  | conv => rfl
  | func k => rfl
  | sub r w =>
    simp only [stratValue, subValue, idealValue]
    cases v.isZero <;> cases r <;> cases w <;> rfl
  | each r w =>
    simp only [stratValue, idealValue]
    cases v with
    | zero => rfl
    | leaf p f => rfl
    | elems es =>
      simp only [eachValue]
      cases r <;> cases w <;> simp

theorem all_congr_sets {α} [BEq α] [LawfulBEq α] (f : α → Bool) (A B : List α)
    (h1 : A.all B.contains = true) (h2 : B.all A.contains = true) : A.all f = B.all f := by
  rw [Bool.eq_iff_iff]
  simp only [List.all_eq_true, List.contains_iff_mem] at *
  exact ⟨fun h b hb => h b (h2 b hb), fun h a ha => h a (h1 a ha)⟩

theorem execStmt_ideal (rs ws : SideSem) (A : List (List String)) (N : List String) (mapperNil : Bool) (c : Claim) (w : WSt)
    (ht : stmtTablesOk rs ws A c = true) (hA : ∀ a ∈ A, a ∈ w.alloc) (hf : fnCallOk mapperNil c.strat = true) :
    execStmt rs ws N mapperNil c w = .ok (idealStmt rs ws N w c) := by
  unfold stmtTablesOk at ht
  unfold execStmt idealStmt
  cases hr : resolveField rs.tree c.rd with
  | none => simp [hr] at ht
  | some rl =>
    cases hw : resolveField ws.tree c.wr with
    | none => simp [hr, hw] at ht
    | some wl =>
      simp only [hr, hw, Bool.and_eq_true] at ht
      obtain ⟨⟨⟨hchain, hsub1⟩, hsub2⟩, halloc⟩ := ht
      have hg := evalGuard_ok rs.ptrs N (readGuard rs.ptrs c.rd) [] hchain (by simp)
      have hset : (readGuard rs.ptrs c.rd).all (nonNil N) = (hops rs.ptrs rl.path).all (nonNil N) :=
        all_congr_sets _ _ _ hsub2 hsub1
      have hwr : (hops ws.ptrs wl.path).all w.alloc.contains = true := by
        simp only [List.all_eq_true, List.contains_iff_mem] at halloc ⊢
        exact fun h hh => hA h (halloc h hh)
      rw [hg, hset]
      cases hn : (hops rs.ptrs rl.path).all (nonNil N) with
      | false => simp only [hn, Bool.false_eq_true, ↓reduceIte]
      | true =>
        have hd : derefOk rs.ptrs N rl.path = true := by rw [derefOk_eq]; exact hn
        simp only [hn, hd, hf, stratValue_eq, Bool.not_true, Bool.false_eq_true, ↓reduceIte]
        cases idealValue c.strat (readVal N c rl) with
        | none => simp only
        | some v => simp only [hwr, ↓reduceIte]

theorem idealStmt_alloc (rs ws : SideSem) (N : List String) (w : WSt) (c : Claim) :
    (idealStmt rs ws N w c).alloc = w.alloc := by
  unfold idealStmt
  split
  · split
    · split <;> rfl
    · rfl
  · rfl

theorem execStmts_ideal (rs ws : SideSem) (A : List (List String)) (N : List String) (mapperNil : Bool)
    (cs : List Claim) (w : WSt)
    (ht : ∀ c ∈ cs, stmtTablesOk rs ws A c = true) (hA : ∀ a ∈ A, a ∈ w.alloc)
    (hf : ∀ c ∈ cs, fnCallOk mapperNil c.strat = true) :
    execStmts rs ws N mapperNil cs w = .ok (cs.foldl (idealStmt rs ws N) w) := by
  induction cs generalizing w with
  | nil => rfl
  | cons c cs ih =>
    simp only [execStmts, List.foldl_cons]
    rw [execStmt_ideal rs ws A N mapperNil c w (ht c List.mem_cons_self) hA (hf c List.mem_cons_self)]
    apply ih
    · exact fun c' h => ht c' (List.mem_cons_of_mem _ h)
    · intro a ha; rw [idealStmt_alloc]; exact hA a ha
    · exact fun c' h => hf c' (List.mem_cons_of_mem _ h)

/-- the allocation preamble: a closed chain allocates every listed pointer, outermost first -/
theorem execAlloc_ok (pp : List (List String)) (A : List (List String)) (w : WSt)
    (hc : chainOk pp w.alloc A = true) : execAlloc pp A w = .ok { w with alloc := w.alloc ++ A } := by
  induction A generalizing w with
  | nil => simp [execAlloc]
  | cons p ps ih =>
    simp only [chainOk, Bool.and_eq_true] at hc
    simp only [execAlloc, hc.1, ↓reduceIte]
    rw [ih _ hc.2]
    simp [List.append_assoc]

end ShootVerif.Mapper
