import ShootVerif.Spec.Runtime
/-! Helper lemmas for C19. -/
namespace ShootVerif.Runtime

/-! ### options: the fold in closed form -/

def applyAll (c : RestConf) (opts : List Opt) : RestConf := opts.foldl (fun c o => o.apply c) c

theorem newWith_eq (opts : List Opt) : newWith opts = applyAll zeroConf opts := rfl

theorem applyAll_baseURL (c : RestConf) (opts : List Opt) :
    (applyAll c opts).baseURL = (lastOf Opt.base? opts).getD c.baseURL := by
  induction opts generalizing c with
  | nil => rfl
  | cons o os ih =>
    simp only [applyAll, List.foldl_cons] at ih ⊢
    rw [ih, lastOf]
    cases h : lastOf Opt.base? os with
    | some v => rfl
    | none => cases o <;> rfl

theorem applyAll_timeout (c : RestConf) (opts : List Opt) :
    (applyAll c opts).timeout = (lastOf Opt.timeout? opts).getD c.timeout := by
  induction opts generalizing c with
  | nil => rfl
  | cons o os ih =>
    simp only [applyAll, List.foldl_cons] at ih ⊢
    rw [ih, lastOf]
    cases h : lastOf Opt.timeout? os with
    | some v => rfl
    | none => cases o <;> rfl

theorem applyAll_logging (c : RestConf) (opts : List Opt) :
    (applyAll c opts).enableLogging = (lastOf Opt.logging? opts).getD c.enableLogging := by
  induction opts generalizing c with
  | nil => rfl
  | cons o os ih =>
    simp only [applyAll, List.foldl_cons] at ih ⊢
    rw [ih, lastOf]
    cases h : lastOf Opt.logging? os with
    | some v => rfl
    | none => cases o <;> rfl

theorem applyAll_headers (c : RestConf) (opts : List Opt) :
    (applyAll c opts).defaultHeaders = (lastOf Opt.headers? opts).getD c.defaultHeaders := by
  induction opts generalizing c with
  | nil => rfl
  | cons o os ih =>
    simp only [applyAll, List.foldl_cons] at ih ⊢
    rw [ih, lastOf]
    cases h : lastOf Opt.headers? os with
    | some v => rfl
    | none => cases o <;> rfl

theorem applyAll_mws (c : RestConf) (opts : List Opt) :
    (applyAll c opts).mws = c.mws ++ opts.filterMap Opt.use? := by
  induction opts generalizing c with
  | nil => simp [applyAll]
  | cons o os ih =>
    simp only [applyAll, List.foldl_cons] at ih ⊢
    rw [ih]
    cases o <;> simp [Opt.apply, Opt.use?, List.filterMap_cons]

/-! ### the chain -/

theorem trace_wrapAll_enter (rev : List Mw) (t : RT) :
    enterOrder (wrapAll rev t) = rev.reverse.map Layer.mw ++ enterOrder t := by
  induction rev generalizing t with
  | nil => rfl
  | cons m ms ih =>
    simp only [wrapAll, List.foldl_cons] at ih ⊢
    rw [ih]
    simp [enterOrder, trace, List.filterMap_append]

theorem trace_wrapAll_exit (rev : List Mw) (t : RT) :
    exitOrder (wrapAll rev t) = exitOrder t ++ rev.map Layer.mw := by
  induction rev generalizing t with
  | nil => simp [wrapAll]
  | cons m ms ih =>
    simp only [wrapAll, List.foldl_cons] at ih ⊢
    rw [ih]
    simp [exitOrder, trace, List.filterMap_append]

/-- the whole trace of a wrapped chain: enter the layers in order, run the inner chain, leave in reverse -/
theorem trace_wrapAll (rev : List Mw) (t : RT) :
    trace (wrapAll rev t) =
      rev.reverse.map (fun m => Event.enter (.mw m)) ++ trace t ++ rev.map (fun m => Event.exit (.mw m)) := by
  induction rev generalizing t with
  | nil => simp [wrapAll]
  | cons m ms ih =>
    simp only [wrapAll, List.foldl_cons] at ih ⊢
    rw [ih]
    simp [trace]

theorem roundTrip_wrapAll (rev : List Mw) (t : RT) (o : RTOut) :
    roundTrip (wrapAll rev t) o = roundTrip t o := by
  induction rev generalizing t with
  | nil => rfl
  | cons m ms ih =>
    simp only [wrapAll, List.foldl_cons] at ih ⊢
    rw [ih]; rfl

/-! ### the registry -/

theorem firstReg_append (t : TypeId) (a b : List Op) :
    firstReg t (a ++ b) = match firstReg t a with
      | some k => some k
      | none => firstReg t b := by
  induction a with
  | nil => simp [firstReg]
  | cons o os ih =>
    cases o with
    | reg t' k =>
      simp only [List.cons_append, firstReg]
      by_cases h : t' = t
      · simp [h]
      · simp [h, ih]
    | new t' o' => simpa [firstReg] using ih

/-- the invariant tying the registry map to the history: it holds exactly the first registrations -/
def RegInv (r : Registry) (before : List Op) : Prop := ∀ t, r.lookup t = firstReg t before

theorem runHist_eq_spec (h : List Op) : ∀ (r : Registry) (before : List Op), RegInv r before →
    runHist r h = specHistFrom before h := by
  induction h with
  | nil => intro r before _; rfl
  | cons o rest ih =>
    intro r before inv
    cases o with
    | reg t k =>
      simp only [runHist, specHistFrom, specOutcome, register]
      cases hl : r.lookup t with
      | some k0 =>
        have hf : firstReg t before = some k0 := by rw [← inv t, hl]
        simp only [hf, Option.isSome_some, ↓reduceIte]
        congr 1
        apply ih
        intro t'
        rw [firstReg_append, ← inv t']
        cases ht : r.lookup t' with
        | some _ => rfl
        | none =>
          simp only [firstReg]
          by_cases e : t = t'
          · subst e; rw [hl] at ht; cases ht
          · simp [e]
      | none =>
        have hf : firstReg t before = none := by rw [← inv t, hl]
        simp only [hf, Option.isSome_none, Bool.false_eq_true, ↓reduceIte]
        congr 1
        apply ih
        intro t'
        rw [firstReg_append, ← inv t', List.lookup_cons]
        by_cases e : t' = t
        · subst e; simp [hl, firstReg]
        · have e' : (t' == t) = false := by simpa using e
          have e'' : ¬ t = t' := fun h => e h.symm
          simp only [e']
          cases ht : r.lookup t' with
          | some _ => rfl
          | none => simp [firstReg, e'']
    | new t opts =>
      simp only [runHist, specHistFrom, specOutcome, newRest]
      have inv' : RegInv r (before ++ [Op.new t opts]) := by
        intro t'
        rw [firstReg_append, ← inv t']
        cases r.lookup t' <;> simp [firstReg]
      rw [← inv t]
      cases hl : r.lookup t with
      | some k0 =>
        simp only
        congr 1
        · congr 1
          -- newWith = specConf is proved in Props (C19_last_wins); restated here through the field lemmas
          simp only [newWith_eq, specConf]
          have := applyAll_mws zeroConf opts
          cases hc : applyAll zeroConf opts with
          | mk b tm lg hd ms =>
            have h1 := applyAll_baseURL zeroConf opts
            have h2 := applyAll_timeout zeroConf opts
            have h3 := applyAll_logging zeroConf opts
            have h4 := applyAll_headers zeroConf opts
            rw [hc] at h1 h2 h3 h4 this
            simp only [zeroConf, List.nil_append] at h1 h2 h3 h4 this
            simp [h1, h2, h3, h4, this]
        · exact ih r _ inv'
      | none =>
        simp only
        congr 1
        exact ih r _ inv'

/-! ### the timeout expression -/

theorem coprime_2_64 : Nat.Coprime 18446744073709551616 999999999 := by decide

theorem natAbs_lt_2_64 (d : Int) (h1 : -9223372036854775808 ≤ d) (h2 : d < 9223372036854775808) :
    d.natAbs < 18446744073709551616 := by omega

theorem eq_zero_of_2_64_dvd (d : Int) (h1 : -9223372036854775808 ≤ d) (h2 : d < 9223372036854775808)
    (h : ((18446744073709551616 : Nat) : Int) ∣ d * 999999999) : d = 0 := by
  have h3 : (18446744073709551616 : Nat) ∣ (d * 999999999).natAbs := by
    have := Int.natAbs_dvd_natAbs.2 h
    rwa [Int.natAbs_natCast] at this
  rw [Int.natAbs_mul] at h3
  have h4 : (18446744073709551616 : Nat) ∣ d.natAbs := coprime_2_64.dvd_of_dvd_mul_right h3
  have := Nat.eq_zero_of_dvd_of_lt h4 (natAbs_lt_2_64 d h1 h2)
  exact Int.natAbs_eq_zero.1 this

/-- `d * time.Second` (with int64 wrap-around) gives back `d` only for `d = 0`:
    2^64 ∣ d·(10⁹ − 1) and 10⁹ − 1 is odd -/
theorem wrap64_mul_second_eq_iff (d : Int) (h : inInt64 d) : wrap64 (d * second) = d ↔ d = 0 := by
  constructor
  · intro h'
    have e : (wrap64 (d * second)) % ((18446744073709551616 : Nat) : Int) = (d * second) % ((18446744073709551616 : Nat) : Int) :=
      Int.bmod_emod
    rw [h'] at e
    have e3 : ((18446744073709551616 : Nat) : Int) ∣ d * second - d := by
      apply Int.dvd_of_emod_eq_zero
      rw [Int.sub_emod, ← e]; simp
    have e4 : d * second - d = d * 999999999 := by clear e e3 h'; simp only [second]; omega
    rw [e4] at e3
    exact eq_zero_of_2_64_dvd d h.1 h.2 e3
  · intro h'
    subst h'
    rfl

end ShootVerif.Runtime
