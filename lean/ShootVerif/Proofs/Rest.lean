import ShootVerif.Spec.Rest
/-! Helper lemmas for C06. -/
namespace ShootVerif.Rest

/-! ### Go-map association lists -/

section KV
variable {κ α : Type} [DecidableEq κ]

theorem getKV_setKV (m : List (κ × α)) (k k' : κ) (v : α) :
    getKV (setKV m k v) k' = if k = k' then some v else getKV m k' := by
  induction m with
  | nil => simp [setKV, getKV]
  | cons x rest ih =>
    obtain ⟨a, b⟩ := x
    simp only [setKV]
    by_cases h : a = k
    · subst h
      simp only [↓reduceIte, getKV]
      by_cases h2 : a = k' <;> simp [h2]
    · simp only [h, ↓reduceIte, getKV, ih]
      by_cases h2 : a = k'
      · subst h2
        have : ¬ k = a := fun e => h e.symm
        simp [this]
      · simp [h2]

/-- the value of the LAST pair with key `k` -/
def lastOfKey (kvs : List (κ × α)) (k : κ) : Option α :=
  (kvs.reverse.find? (fun kv => kv.1 = k)).map (·.2)

theorem lastOfKey_cons (kv : κ × α) (kvs : List (κ × α)) (k : κ) :
    lastOfKey (kv :: kvs) k = match lastOfKey kvs k with
      | some v => some v
      | none => if kv.1 = k then some kv.2 else none := by
  simp only [lastOfKey, List.reverse_cons, List.find?_append]
  cases h : List.find? (fun kv => decide (kv.1 = k)) kvs.reverse with
  | some x => simp
  | none =>
    simp only [Option.none_or, Option.map_none]
    by_cases h2 : kv.1 = k <;> simp [List.find?, h2]

/-- `setAll` = Go's repeated `m[k] = v`: the last pair for a key wins, other keys keep their value -/
theorem getKV_setAll (m : List (κ × α)) (kvs : List (κ × α)) (k : κ) :
    getKV (setAll m kvs) k = match lastOfKey kvs k with
      | some v => some v
      | none => getKV m k := by
  induction kvs generalizing m with
  | nil => simp [setAll, lastOfKey]
  | cons kv rest ih =>
    have : setAll m (kv :: rest) = setAll (setKV m kv.1 kv.2) rest := rfl
    rw [this, ih, lastOfKey_cons]
    cases lastOfKey rest k with
    | some v => rfl
    | none =>
      simp only [getKV_setKV]
      by_cases h : kv.1 = k <;> simp [h]

def keysOf (m : List (κ × α)) : List κ := m.map (·.1)

theorem keysOf_setKV_nodup (m : List (κ × α)) (k : κ) (v : α) (h : (keysOf m).Nodup) :
    (keysOf (setKV m k v)).Nodup ∧ ∀ x, x ∈ keysOf (setKV m k v) ↔ (x = k ∨ x ∈ keysOf m) := by
  induction m with
  | nil => simp [setKV, keysOf]
  | cons x rest ih =>
    obtain ⟨a, b⟩ := x
    simp only [keysOf, List.map_cons, List.nodup_cons] at h
    have ih' := ih h.2
    simp only [setKV]
    by_cases e : a = k
    · subst e
      simp only [↓reduceIte, keysOf, List.map_cons, List.nodup_cons, List.mem_cons]
      refine ⟨h, fun x => ?_⟩
      constructor
      · intro hx; rcases hx with hx | hx
        · exact Or.inl hx
        · exact Or.inr (Or.inr hx)
      · intro hx; rcases hx with hx | hx | hx
        · exact Or.inl hx
        · exact Or.inl hx
        · exact Or.inr hx
    · simp only [e, ↓reduceIte, keysOf, List.map_cons, List.nodup_cons, List.mem_cons]
      refine ⟨⟨?_, ih'.1⟩, fun x => ?_⟩
      · intro hm
        rcases (ih'.2 a).1 hm with hk | hk
        · exact e hk
        · exact h.1 hk
      · constructor
        · intro hx; rcases hx with hx | hx
          · exact Or.inr (Or.inl hx)
          · rcases (ih'.2 x).1 hx with hk | hk
            · exact Or.inl hk
            · exact Or.inr (Or.inr hk)
        · intro hx; rcases hx with hx | hx | hx
          · exact Or.inr ((ih'.2 x).2 (Or.inl hx))
          · exact Or.inl hx
          · exact Or.inr ((ih'.2 x).2 (Or.inr hx))

theorem keysOf_setAll_nodup (m : List (κ × α)) (kvs : List (κ × α)) (h : (keysOf m).Nodup) :
    (keysOf (setAll m kvs)).Nodup := by
  induction kvs generalizing m with
  | nil => simpa [setAll] using h
  | cons kv rest ih =>
    have : setAll m (kv :: rest) = setAll (setKV m kv.1 kv.2) rest := rfl
    rw [this]
    exact ih _ (keysOf_setKV_nodup m kv.1 kv.2 h).1

end KV

/-! ### tokens -/

def pendText : Pending → List Char
  | none => []
  | some acc => '{' :: acc.reverse

theorem renderToks_append (a b : List Tok) : renderToks (a ++ b) = renderToks a ++ renderToks b := by
  simp [renderToks]

theorem renderToks_lits (l : List Char) : renderToks (l.map Tok.lit) = l := by
  induction l with
  | nil => rfl
  | cons c cs ih =>
    simp only [renderToks, List.map_cons, List.flatten_cons, Tok.render, List.singleton_append] at ih ⊢
    rw [ih]

theorem renderToks_flush (p : Pending) : renderToks (flushPending p) = pendText p := by
  cases p with
  | none => rfl
  | some acc =>
    show renderToks ([Tok.lit '{'] ++ acc.reverse.map Tok.lit) = _
    rw [renderToks_append, renderToks_lits]
    rfl

/-- the scanner loses nothing: rendering the tokens gives back the pending text and the input -/
theorem renderToks_scan (cs : List Char) (p : Pending) :
    renderToks (scanToks cs p) = pendText p ++ cs := by
  induction cs generalizing p with
  | nil => simp [scanToks, renderToks_flush]
  | cons c cs ih =>
    cases p with
    | none =>
      simp only [scanToks]
      by_cases h : c = '{'
      · subst h; simp [ih, pendText]
      · have : (c == '{') = false := by simpa using h
        simp only [this, Bool.false_eq_true, ↓reduceIte, pendText, List.nil_append]
        show renderToks ([Tok.lit c] ++ scanToks cs none) = c :: cs
        rw [renderToks_append, ih]; simp [renderToks, Tok.render, pendText]
    | some acc =>
      simp only [scanToks]
      by_cases hw : isWord c = true
      · simp [hw, ih, pendText]
      · simp only [hw, Bool.false_eq_true, ↓reduceIte]
        by_cases hc : (c == '}' && !acc.isEmpty) = true
        · simp only [hc, ↓reduceIte]
          show renderToks ([Tok.ph acc.reverse] ++ scanToks cs none) = _
          rw [renderToks_append, ih]
          have : c = '}' := by simp at hc; exact hc.1
          subst this
          simp [renderToks, Tok.render, pendText]
        · simp only [hc, Bool.false_eq_true, ↓reduceIte]
          by_cases hb : c = '{'
          · subst hb
            simp only [beq_self_eq_true, ↓reduceIte]
            rw [renderToks_append, renderToks_flush, ih]
            simp [pendText]
          · have : (c == '{') = false := by simpa using hb
            simp only [this, Bool.false_eq_true, ↓reduceIte]
            rw [renderToks_append, renderToks_flush]
            show pendText (some acc) ++ renderToks ([Tok.lit c] ++ scanToks cs none) = _
            rw [renderToks_append, ih]
            simp [renderToks, Tok.render, pendText]

theorem renderToks_tokenize (p : List Char) : renderToks (tokenize p) = p := by
  simp [tokenize, renderToks_scan, pendText]

/-! ### sequential `strings.Replace` = simultaneous substitution -/

def noBrace (s : List Char) : Prop := ∀ c ∈ s, c ≠ '{'

theorem stripPrefix_self_append (pat rest : List Char) : stripPrefix pat (pat ++ rest) = some rest := by
  induction pat with
  | nil => rfl
  | cons c cs ih => simp [stripPrefix, ih]

/-- Lemma A: a pattern that starts with `{` is not found inside brace-free text -/
theorem replaceFirst_skip (k v pre s : List Char) (h : noBrace pre) :
    replaceFirst ('{' :: k) v (pre ++ s) = pre ++ replaceFirst ('{' :: k) v s := by
  induction pre with
  | nil => rfl
  | cons c cs ih =>
    have hc : c ≠ '{' := h c (by simp)
    have hcs : noBrace cs := fun x hx => h x (by simp [hx])
    have : ('{' == c) = false := by simpa using fun e => hc e.symm
    simp only [List.cons_append, replaceFirst, stripPrefix, this, Bool.false_eq_true, ↓reduceIte, ih hcs]

/-- Lemma B -/
theorem replaceFirst_here (pat v rest : List Char) (hne : pat ≠ []) :
    replaceFirst pat v (pat ++ rest) = v ++ rest := by
  cases pat with
  | nil => exact absurd rfl hne
  | cons c cs =>
    have := stripPrefix_self_append (c :: cs) rest
    simp only [List.cons_append] at this ⊢
    simp [replaceFirst, this]

def phNames (ts : List Tok) : List (List Char) :=
  ts.filterMap (fun t => match t with | .ph n => some n | _ => none)

/-- every `{` of the rendered text opens a placeholder -/
def toksClean (ts : List Tok) : Prop := ∀ t ∈ ts, match t with | .lit c => c ≠ '{' | .ph _ => True

/-- all placeholders filled at once by `f` -/
def fill (f : List Char → List Char) (ts : List Tok) : List Char :=
  (ts.map (fun t => match t with | .lit c => [c] | .ph n => f n)).flatten

def seqReplace (s : List Char) (subs : List (List Char × List Char)) : List Char :=
  subs.foldl (fun s kv => replaceFirst ('{' :: (kv.1 ++ ['}'])) kv.2 s) s

/-- core of C06_placeholders: one `strings.Replace(…, 1)` per placeholder, in order of appearance, on
    the text substituted so far, fills every placeholder with its own value — provided no value
    brings a `{` with it and the path has no other `{` -/
theorem seqReplace_fill (f : List Char → List Char) (ts : List Tok) :
    ∀ (pre : List Char), noBrace pre → toksClean ts → (∀ n ∈ phNames ts, noBrace (f n)) →
      seqReplace (pre ++ renderToks ts) ((phNames ts).map (fun n => (n, f n))) = pre ++ fill f ts := by
  induction ts with
  | nil => intro pre _ _ _; simp [seqReplace, phNames, renderToks, fill]
  | cons t ts ih =>
    intro pre hpre hclean hf
    have hclean' : toksClean ts := fun x hx => hclean x (by simp [hx])
    cases t with
    | lit c =>
      have hc : c ≠ '{' := hclean (.lit c) (by simp)
      have hf' : ∀ n ∈ phNames ts, noBrace (f n) := fun n hn => hf n (by simpa [phNames] using hn)
      have hpre' : noBrace (pre ++ [c]) := by
        intro x hx
        simp only [List.mem_append, List.mem_singleton] at hx
        rcases hx with hx | hx
        · exact hpre x hx
        · rw [hx]; exact hc
      have := ih (pre ++ [c]) hpre' hclean' hf'
      simp only [List.append_assoc, List.singleton_append] at this
      simpa [phNames, renderToks, Tok.render, fill] using this
    | ph n =>
      have hn : noBrace (f n) := hf n (by simp [phNames])
      have hf' : ∀ m ∈ phNames ts, noBrace (f m) := fun m hm => hf m (by simp [phNames] at hm ⊢; exact Or.inr hm)
      have hpre' : noBrace (pre ++ f n) := by
        intro x hx
        simp only [List.mem_append] at hx
        rcases hx with hx | hx
        · exact hpre x hx
        · exact hn x hx
      have step : replaceFirst ('{' :: (n ++ ['}'])) (f n) (pre ++ renderToks (Tok.ph n :: ts)) = (pre ++ f n) ++ renderToks ts := by
        have e : renderToks (Tok.ph n :: ts) = ('{' :: (n ++ ['}'])) ++ renderToks ts := by
          simp [renderToks, Tok.render]
        rw [e, replaceFirst_skip _ _ _ _ hpre, replaceFirst_here _ _ _ (by simp)]
        simp
      have := ih (pre ++ f n) hpre' hclean' hf'
      simp only [phNames, List.filterMap_cons, List.map_cons, seqReplace, List.foldl_cons] at this ⊢
      rw [step]
      simpa [fill, List.append_assoc] using this

/-! ### `strings.NewReplacer(…).Replace` = simultaneous substitution (no condition on the values) -/

def Wordy (n : List Char) : Prop := n ≠ [] ∧ ∀ c ∈ n, isWord c = true

theorem stripPrefix_name (m n rest : List Char) (hm : ∀ c ∈ m, isWord c = true) (hn : ∀ c ∈ n, isWord c = true) :
    stripPrefix (m ++ ['}']) (n ++ '}' :: rest) = if m = n then some rest else none := by
  have hb : isWord '}' = false := by decide
  induction m generalizing n with
  | nil =>
    cases n with
    | nil => simp [stripPrefix]
    | cons a as =>
      have ha : a ≠ '}' := by intro e; subst e; have := hn '}' (by simp); rw [hb] at this; cases this
      have : ('}' == a) = false := by simpa using fun e => ha e.symm
      simp [stripPrefix, this]
  | cons x xs ih =>
    have hx : x ≠ '}' := by intro e; subst e; have := hm '}' (by simp); rw [hb] at this; cases this
    cases n with
    | nil =>
      have : (x == '}') = false := by simpa using hx
      simp [stripPrefix, this]
    | cons a as =>
      simp only [List.cons_append, stripPrefix]
      by_cases hxa : x = a
      · subst hxa
        simp only [beq_self_eq_true, ↓reduceIte, List.cons.injEq, true_and]
        exact ih as (fun c hc => hm c (by simp [hc])) (fun c hc => hn c (by simp [hc]))
      · have : (x == a) = false := by simpa using hxa
        simp [this, hxa]

/-- the replacer's pair table: every pair is `{name} ↦ f name` for a word `name` -/
def PairsFor (f : List Char → List Char) (P : List (List Char × List Char)) : Prop :=
  ∀ kv ∈ P, ∃ n, Wordy n ∧ kv = ('{' :: (n ++ ['}']), f n)

theorem firstSome_lit (f : List Char → List Char) (P : List (List Char × List Char)) (hP : PairsFor f P)
    (c : Char) (cs : List Char) (hc : c ≠ '{') :
    firstSome (fun (kv : List Char × List Char) => (stripPrefix kv.1 (c :: cs)).map (fun rest => (kv.2, rest))) P = none := by
  induction P with
  | nil => rfl
  | cons kv P ih =>
    obtain ⟨n, _, rfl⟩ := hP kv (by simp)
    have : ('{' == c) = false := by simpa using fun e => hc e.symm
    simp only [firstSome, stripPrefix, this, Bool.false_eq_true, ↓reduceIte, Option.map_none]
    exact ih (fun x hx => hP x (by simp [hx]))

theorem firstSome_ph (f : List Char → List Char) (P : List (List Char × List Char)) (hP : PairsFor f P)
    (n rest : List Char) (hn : Wordy n) (hmem : ('{' :: (n ++ ['}']), f n) ∈ P) :
    firstSome (fun (kv : List Char × List Char) => (stripPrefix kv.1 ('{' :: (n ++ '}' :: rest))).map (fun r => (kv.2, r))) P
      = some (f n, rest) := by
  induction P with
  | nil => cases hmem
  | cons kv P ih =>
    obtain ⟨m, hm, rfl⟩ := hP kv (by simp)
    have hs : stripPrefix ('{' :: (m ++ ['}'])) ('{' :: (n ++ '}' :: rest)) = if m = n then some rest else none := by
      simp only [stripPrefix, beq_self_eq_true, ↓reduceIte]
      exact stripPrefix_name m n rest hm.2 hn.2
    simp only [firstSome, hs]
    by_cases hmn : m = n
    · subst hmn; simp
    · simp only [hmn, ↓reduceIte, Option.map_none]
      apply ih (fun x hx => hP x (by simp [hx]))
      simp only [List.mem_cons] at hmem
      rcases hmem with h | h
      · have : m = n := by
          have h1 := congrArg Prod.fst h
          simp only [List.cons.injEq, true_and] at h1
          have := List.append_cancel_right h1
          exact this.symm
        exact absurd this hmn
      · exact h

theorem replaceAllAux_fill (f : List Char → List Char) (P : List (List Char × List Char)) (hP : PairsFor f P)
    (ts : List Tok) :
    toksClean ts → (∀ n ∈ phNames ts, Wordy n ∧ ('{' :: (n ++ ['}']), f n) ∈ P) →
    ∀ fuel, fuel ≥ (renderToks ts).length + 1 → replaceAllAux P fuel (renderToks ts) = fill f ts := by
  induction ts with
  | nil =>
    intro _ _ fuel hf
    cases fuel with
    | zero => simp [renderToks] at hf
    | succ k => simp [renderToks, fill, replaceAllAux]
  | cons t ts ih =>
    intro hclean hph fuel hf
    have hclean' : toksClean ts := fun x hx => hclean x (by simp [hx])
    cases fuel with
    | zero => omega
    | succ k =>
      cases t with
      | lit c =>
        have hc : c ≠ '{' := hclean (.lit c) (by simp)
        have hph' : ∀ n ∈ phNames ts, Wordy n ∧ ('{' :: (n ++ ['}']), f n) ∈ P :=
          fun n hn => hph n (by simpa [phNames] using hn)
        have e : renderToks (Tok.lit c :: ts) = c :: renderToks ts := by simp [renderToks, Tok.render]
        rw [e] at hf ⊢
        simp only [replaceAllAux, firstSome_lit f P hP c _ hc]
        rw [ih hclean' hph' k (by simp at hf; omega)]
        simp [fill]
      | ph n =>
        obtain ⟨hn, hmem⟩ := hph n (by simp [phNames])
        have hph' : ∀ m ∈ phNames ts, Wordy m ∧ ('{' :: (m ++ ['}']), f m) ∈ P :=
          fun m hm => hph m (by simp [phNames] at hm ⊢; exact Or.inr hm)
        have e : renderToks (Tok.ph n :: ts) = '{' :: (n ++ '}' :: renderToks ts) := by
          simp [renderToks, Tok.render]
        rw [e] at hf ⊢
        simp only [replaceAllAux, firstSome_ph f P hP n _ hn hmem]
        rw [ih hclean' hph' k (by simp at hf; omega)]
        simp [fill]

/-- the names the scanner cuts out are non-empty words -/
theorem scanToks_wordy (cs : List Char) :
    ∀ (p : Pending), (∀ acc, p = some acc → ∀ c ∈ acc, isWord c = true) →
      ∀ n ∈ phNames (scanToks cs p), Wordy n := by
  induction cs with
  | nil =>
    intro p _ n hn
    cases p with
    | none => simp [scanToks, flushPending, phNames] at hn
    | some acc => simp [scanToks, flushPending, phNames] at hn
  | cons c cs ih =>
    intro p hp n hn
    cases p with
    | none =>
      simp only [scanToks] at hn
      by_cases h : c = '{'
      · subst h
        simp only [beq_self_eq_true, ↓reduceIte] at hn
        exact ih (some []) (by intro acc e; cases e; intro c hc; cases hc) n hn
      · have : (c == '{') = false := by simpa using h
        simp only [this, Bool.false_eq_true, ↓reduceIte, phNames, List.filterMap_cons] at hn
        exact ih none (by intro acc e; cases e) n hn
    | some acc =>
      have hacc := hp acc rfl
      simp only [scanToks] at hn
      by_cases hw : isWord c = true
      · simp only [hw, ↓reduceIte] at hn
        apply ih (some (c :: acc)) _ n hn
        intro a e; cases e
        intro x hx
        simp only [List.mem_cons] at hx
        rcases hx with hx | hx
        · rw [hx]; exact hw
        · exact hacc x hx
      · simp only [hw, Bool.false_eq_true, ↓reduceIte] at hn
        by_cases hc : (c == '}' && !acc.isEmpty) = true
        · simp only [hc, ↓reduceIte, phNames, List.filterMap_cons, List.mem_cons] at hn
          rcases hn with hn | hn
          · subst hn
            simp only [Bool.and_eq_true, Bool.not_eq_true', List.isEmpty_eq_false_iff] at hc
            exact ⟨by simpa using hc.2, fun x hx => hacc x (List.mem_reverse.1 hx)⟩
          · exact ih none (by intro a e; cases e) n hn
        · simp only [hc, Bool.false_eq_true, ↓reduceIte] at hn
          have hfl : ∀ m, m ∉ phNames (flushPending (some acc)) := by
            intro m hm
            simp only [flushPending, phNames, List.filterMap_cons, List.filterMap_map] at hm
            simp at hm
          by_cases hb : c = '{'
          · subst hb
            simp only [beq_self_eq_true, ↓reduceIte, phNames, List.filterMap_append, List.mem_append] at hn
            rcases hn with hn | hn
            · exact absurd hn (hfl n)
            · exact ih (some []) (by intro a e; cases e; intro c hc; cases hc) n hn
          · have : (c == '{') = false := by simpa using hb
            simp only [this, Bool.false_eq_true, ↓reduceIte, phNames, List.filterMap_append, List.mem_append,
              List.filterMap_cons] at hn
            rcases hn with hn | hn
            · exact absurd hn (hfl n)
            · exact ih none (by intro a e; cases e) n hn

theorem tokenize_wordy (p : List Char) : ∀ n ∈ phNames (tokenize p), Wordy n :=
  scanToks_wordy p none (by intro acc e; cases e)

theorem fill_no_ph (f : List Char → List Char) (ts : List Tok) (h : phNames ts = []) : fill f ts = renderToks ts := by
  induction ts with
  | nil => rfl
  | cons t ts ih =>
    cases t with
    | lit c =>
      have : phNames ts = [] := by simpa [phNames] using h
      simp [fill, renderToks, Tok.render] at ih ⊢
      exact ih this
    | ph n => simp [phNames] at h

/-- exactly one placeholder: the single `strings.Replace(…, 1)` fills it, whatever the value -/
theorem replaceFirst_single (f : List Char → List Char) (n : List Char) (ts : List Tok) :
    ∀ (pre : List Char), noBrace pre → toksClean ts → phNames ts = [n] →
      replaceFirst ('{' :: (n ++ ['}'])) (f n) (pre ++ renderToks ts) = pre ++ fill f ts := by
  induction ts with
  | nil => intro pre _ _ h; simp [phNames] at h
  | cons t ts ih =>
    intro pre hpre hclean hph
    have hclean' : toksClean ts := fun x hx => hclean x (by simp [hx])
    cases t with
    | lit c =>
      have hc : c ≠ '{' := hclean (.lit c) (by simp)
      have hpre' : noBrace (pre ++ [c]) := by
        intro x hx
        simp only [List.mem_append, List.mem_singleton] at hx
        rcases hx with hx | hx
        · exact hpre x hx
        · rw [hx]; exact hc
      have := ih (pre ++ [c]) hpre' hclean' (by simpa [phNames] using hph)
      simp only [List.append_assoc, List.singleton_append] at this
      simpa [renderToks, Tok.render, fill] using this
    | ph m =>
      simp only [phNames, List.filterMap_cons, List.cons.injEq] at hph
      obtain ⟨rfl, hrest⟩ := hph
      have e : renderToks (Tok.ph m :: ts) = ('{' :: (m ++ ['}'])) ++ renderToks ts := by simp [renderToks, Tok.render]
      rw [e, replaceFirst_skip _ _ _ _ hpre, replaceFirst_here _ _ _ (by simp)]
      have := fill_no_ph f ts hrest
      simp [fill] at this ⊢
      rw [this]

end ShootVerif.Rest

namespace ShootVerif.Rest

/-! ### cookParams in closed form -/

def paramExprs (pp : List String) (p : Param) : List Expr :=
  match p.kind with
  | .scalar | .qualOther => if pp.contains p.name then [] else [.param p.name]
  | .struct fs => fs.map (fieldExpr p.name)
  | _ => []

def aliasEntries (p : Param) : List (Expr × String) :=
  match p.kind with
  | .struct fs => fs.map (fun f => (fieldExpr p.name f, fieldKey f))
  | _ => []

def fieldPtrEntries (p : Param) : List (Expr × Bool) :=
  match p.kind with
  | .struct fs => (fs.filter (·.ptr)).map (fun f => (fieldExpr p.name f, true))
  | _ => []

def ptrEntries (p : Param) : List (Expr × Bool) :=
  fieldPtrEntries p ++ (if p.ptr then [(.param p.name, true)] else [])

theorem setAll_append {κ α : Type} [DecidableEq κ] (m a b : List (κ × α)) :
    setAll m (a ++ b) = setAll (setAll m a) b := by
  simp [setAll, List.foldl_append]

theorem handleStruct_closed (st : Cooked) (p : String) (fs : List Field) :
    handleStruct st p fs =
      { st with
        query := st.query ++ fs.map (fieldExpr p)
        aliasMap := setAll st.aliasMap (fs.map (fun f => (fieldExpr p f, fieldKey f)))
        isPtr := setAll st.isPtr ((fs.filter (·.ptr)).map (fun f => (fieldExpr p f, true))) } := by
  induction fs generalizing st with
  | nil => simp [handleStruct, setAll]
  | cons f fs ih =>
    have : handleStruct st p (f :: fs) = handleStruct
        { st with
          isPtr := if f.ptr then setKV st.isPtr (fieldExpr p f) true else st.isPtr
          query := st.query ++ [fieldExpr p f]
          aliasMap := setKV st.aliasMap (fieldExpr p f) (fieldKey f) } p fs := rfl
    rw [this, ih]
    by_cases hp : f.ptr = true
    · simp [hp, setAll, List.filter_cons]
    · simp [hp, setAll, List.filter_cons]

/-- what one parameter does to the three tables the query statements are built from -/
theorem handleParam_closed (verb : Verb) (pp : List String) (st st' : Cooked) (p : Param)
    (h : handleParam verb pp st p = .ok st') :
    st'.query = st.query ++ paramExprs pp p ∧
    st'.aliasMap = setAll st.aliasMap (aliasEntries p) ∧
    st'.isPtr = setAll st.isPtr (ptrEntries p) := by
  unfold handleParam at h
  simp only [bind, Except.bind, pure, Except.pure] at h
  cases hk : p.kind with
  | ctx =>
    simp only [hk] at h
    by_cases hp : p.ptr = true
    · simp only [hp, ↓reduceIte, Except.ok.injEq] at h; subst h
      simp [paramExprs, aliasEntries, ptrEntries, fieldPtrEntries, hk, hp, setAll]
    · simp only [hp, Bool.false_eq_true, ↓reduceIte, Except.ok.injEq] at h; subst h
      simp [paramExprs, aliasEntries, ptrEntries, fieldPtrEntries, hk, hp, setAll]
  | scalar =>
    simp only [hk] at h
    by_cases hp : p.ptr = true <;> by_cases hm : p.name ∈ pp
    all_goals
      have hc : pp.contains p.name = decide (p.name ∈ pp) := by simp
      simp only [hc, hm, decide_true, decide_false, hp, Bool.false_eq_true, ↓reduceIte, Except.ok.injEq] at h
      subst h
      simp [paramExprs, aliasEntries, ptrEntries, fieldPtrEntries, hk, hp, hm, setAll]
  | struct fs =>
    simp only [hk, setBody] at h
    cases hb : st.body with
    | some b => simp [hb] at h
    | none =>
      simp only [hb, handleStruct_closed] at h
      by_cases hp : p.ptr = true
      · simp only [hp, ↓reduceIte, Except.ok.injEq] at h; subst h
        simp [paramExprs, aliasEntries, ptrEntries, fieldPtrEntries, hk, hp, setAll, List.foldl_append]
      · simp only [hp, Bool.false_eq_true, ↓reduceIte, Except.ok.injEq] at h; subst h
        simp [paramExprs, aliasEntries, ptrEntries, fieldPtrEntries, hk, hp, setAll]
  | qualOther =>
    simp only [hk] at h
    by_cases hp : p.ptr = true <;> by_cases hm : p.name ∈ pp
    all_goals
      have hc : pp.contains p.name = decide (p.name ∈ pp) := by simp
      simp only [hc, hm, decide_true, decide_false, hp, Bool.false_eq_true, ↓reduceIte, Except.ok.injEq] at h
      subst h
      simp [paramExprs, aliasEntries, ptrEntries, fieldPtrEntries, hk, hp, hm, setAll]
  | dict =>
    simp only [hk] at h
    by_cases hp : p.ptr = true <;> by_cases hv : verb.hasBody = true <;>
      simp only [hp, hv, Bool.false_eq_true, ↓reduceIte, Except.ok.injEq] at h <;> subst h <;>
      simp [paramExprs, aliasEntries, ptrEntries, fieldPtrEntries, hk, hp, setAll]
  | unsupported =>
    simp [hk] at h

theorem cookParams_closed (verb : Verb) (pp : List String) (ps : List Param) :
    ∀ (st c : Cooked), cookParams verb pp st ps = .ok c →
      c.query = st.query ++ ps.flatMap (paramExprs pp) ∧
      c.aliasMap = setAll st.aliasMap (ps.flatMap aliasEntries) ∧
      c.isPtr = setAll st.isPtr (ps.flatMap ptrEntries) := by
  induction ps with
  | nil =>
    intro st c h
    simp only [cookParams, pure, Except.pure, Except.ok.injEq] at h
    subst h; simp [setAll]
  | cons p ps ih =>
    intro st c h
    simp only [cookParams, bind, Except.bind] at h
    cases h1 : handleParam verb pp st p with
    | error e => simp [h1] at h
    | ok st1 =>
      simp only [h1] at h
      obtain ⟨q1, a1, p1⟩ := handleParam_closed verb pp st st1 p h1
      obtain ⟨q2, a2, p2⟩ := ih st1 c h
      refine ⟨?_, ?_, ?_⟩
      · rw [q2, q1]; simp
      · rw [a2, a1, List.flatMap_cons, setAll_append]
      · rw [p2, p1, List.flatMap_cons, setAll_append]

end ShootVerif.Rest
