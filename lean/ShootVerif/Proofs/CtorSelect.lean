import ShootVerif.Proofs.CtorSpec
/-! Go's selector rule (`selectPath`) against the shadowing predicate: a leaf that is not hidden and is
    the only member of its name at its depth is what `T.name` selects. -/
namespace ShootVerif.Ctor

theorem foldl_min_le (cs : List Leaf) : ∀ (m : Nat), cs.foldl (fun m l => min m l.depth) m ≤ m := by
  induction cs with
  | nil => intro m; exact Nat.le_refl _
  | cons c cs ih => intro m; simp only [List.foldl_cons]; exact Nat.le_trans (ih _) (Nat.min_le_left _ _)

theorem foldl_min_le_mem (cs : List Leaf) : ∀ (m : Nat) (l : Leaf), l ∈ cs →
    cs.foldl (fun m l => min m l.depth) m ≤ l.depth := by
  induction cs with
  | nil => intro _ l hl; simp at hl
  | cons c cs ih =>
    intro m l hl
    simp only [List.foldl_cons]
    simp only [List.mem_cons] at hl
    rcases hl with hl | hl
    · subst hl; exact Nat.le_trans (foldl_min_le cs _) (Nat.min_le_right _ _)
    · exact ih _ l hl

theorem foldl_min_ge (cs : List Leaf) (b : Nat) : ∀ (m : Nat), b ≤ m → (∀ l ∈ cs, b ≤ l.depth) →
    b ≤ cs.foldl (fun m l => min m l.depth) m := by
  induction cs with
  | nil => intro m hm _; exact hm
  | cons c cs ih =>
    intro m hm h
    simp only [List.foldl_cons]
    exact ih _ (Nat.le_min.mpr ⟨hm, h c (by simp)⟩) (fun l hl => h l (by simp [hl]))

/-- counting: leaves of a given (name, depth) are among the members of that (name, depth) -/
theorem countP_leaves_le_members (n : String) (dd : Nat) (t : Tree) :
    ∀ (top : Bool) (path : List String) (inh : Bool) (d : Nat),
    (leaves top path inh d t).countP (fun l => l.info.name = n ∧ l.depth = dd) ≤
      (members d t).countP (fun m => m.1 = n ∧ m.2 = dd) := by
  induction t with
  | nil => intros; simp [leaves, members]
  | field f rest ih =>
    intro top path inh d
    have := ih top path inh d
    simp only [leaves, members, List.countP_cons]
    omega
  | embed nm ty p mk body rest ihb ihr =>
    intro top path inh d
    have h1 := ihb false (path ++ [nm]) (if top then mk else inh) (d + 1)
    have h2 := ihr top path inh d
    simp only [leaves, members, List.countP_cons, List.countP_append]
    omega

theorem count_leaves_le_members (n : String) (dd : Nat) (t : Tree) (top : Bool) (path : List String) (inh : Bool) (d : Nat) :
    ((leaves top path inh d t).filter (fun l => l.info.name = n ∧ l.depth = dd)).length ≤
      ((members d t).filter (fun m => m.1 = n ∧ m.2 = dd)).length := by
  rw [← List.countP_eq_length_filter, ← List.countP_eq_length_filter]
  exact countP_leaves_le_members n dd t top path inh d

/-- "the field it is named after" and "the path the literal wrote" coincide: a leaf that no shallower
    member hides and that is the only member of its name at its depth is exactly what Go's selector
    `T.name` resolves to -/
theorem select_of_visible (t : Tree) (l : Leaf) (hl : l ∈ leavesTop t)
    (hvis : goShadowed t l.depth l.info.name = false)
    (huniq : ((members 0 t).filter (fun m => m.1 = l.info.name ∧ m.2 = l.depth)).length = 1) :
    selectPath t l.info.name = some l.path := by
  unfold selectPath
  have hmemc : l ∈ (leavesTop t).filter (fun x => x.info.name = l.info.name) := by simp [hl]
  -- every candidate is at least as deep as l (else it would hide l)
  have hdeep : ∀ x ∈ (leavesTop t).filter (fun x => x.info.name = l.info.name), l.depth ≤ x.depth := by
    intro x hx
    simp only [List.mem_filter, decide_eq_true_eq] at hx
    refine Nat.le_of_not_lt (fun hlt => ?_)
    unfold goShadowed at hvis
    rw [List.any_eq_false] at hvis
    apply hvis (x.info.name, x.depth) (leaf_mem_members t true [] false 0 x hx.1)
    simp [hx.2, hlt]
  cases hc : (leavesTop t).filter (fun x => x.info.name = l.info.name) with
  | nil => rw [hc] at hmemc; simp at hmemc
  | cons c cs =>
    rw [hc] at hmemc hdeep
    simp only
    have hdmin : cs.foldl (fun m x => min m x.depth) c.depth = l.depth := by
      apply Nat.le_antisymm
      · simp only [List.mem_cons] at hmemc
        rcases hmemc with h | h
        · rw [h]; exact foldl_min_le cs _
        · exact foldl_min_le_mem cs _ l h
      · exact foldl_min_ge cs l.depth _ (hdeep c (by simp)) (fun x hx => hdeep x (by simp [hx]))
    rw [hdmin]
    have hnone : (members 0 t).any (fun m => decide (m.1 = l.info.name ∧ m.2 < l.depth)) = false := by
      simpa [goShadowed] using hvis
    rw [hnone]
    simp only [Bool.false_eq_true, ↓reduceIte]
    -- exactly one candidate at that depth: l itself
    have hcount := count_leaves_le_members l.info.name l.depth t true [] false 0
    rw [huniq] at hcount
    have hfil : (c :: cs).filter (fun x => x.depth = l.depth) =
        (leavesTop t).filter (fun x => x.info.name = l.info.name ∧ x.depth = l.depth) := by
      rw [← hc, List.filter_filter]
      apply List.filter_congr
      intro x _
      by_cases h1 : x.info.name = l.info.name <;> by_cases h2 : x.depth = l.depth <;> simp [h1, h2]
    rw [hfil]
    have hlin : l ∈ (leavesTop t).filter (fun x => x.info.name = l.info.name ∧ x.depth = l.depth) := by simp [hl]
    unfold leavesTop at hlin ⊢
    cases hf : (leaves true [] false 0 t).filter (fun x => x.info.name = l.info.name ∧ x.depth = l.depth) with
    | nil => rw [hf] at hlin; simp at hlin
    | cons a as =>
      rw [hf] at hlin hcount
      cases as with
      | nil =>
        simp only [List.mem_singleton] at hlin
        subst hlin
        have huniq' : (List.filter (fun m => decide (m.fst = l.info.name) && decide (m.snd = l.depth)) (members 0 t)).length = 1 := by
          rw [← huniq]; congr 1; apply List.filter_congr; intro m _; simp
        simp [huniq']
      | cons b bs => simp at hcount

end ShootVerif.Ctor
