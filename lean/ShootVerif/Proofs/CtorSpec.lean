import ShootVerif.Proofs.CtorAt
/-! Linking the model (flat list, name-keyed maps) to the specification (leaves, Go shadowing). -/
namespace ShootVerif.Ctor

/-! ### every leaf is found by the type-side lookup at its own path -/

theorem fieldAt_mem_level {t : Tree} {k : String} {f : FInfo} (h : t.fieldAt k = some f) : k ∈ levelNames t := by
  induction t with
  | nil => simp [Tree.fieldAt] at h
  | field g rest ih =>
    simp only [Tree.fieldAt] at h
    by_cases hk : g.name = k
    · simp [levelNames, hk]
    · simp only [if_neg hk] at h; simp [levelNames, ih h]
  | embed n ty p nm body rest _ ihr =>
    simp only [Tree.fieldAt] at h
    by_cases hk : n = k
    · simp [levelNames, hk]
    · simp only [if_neg hk] at h; simp [levelNames, ihr h]

theorem embedAt_mem_level {t : Tree} {k : String} {x} (h : t.embedAt k = some x) : k ∈ levelNames t := by
  induction t with
  | nil => simp [Tree.embedAt] at h
  | field g rest ih =>
    simp only [Tree.embedAt] at h
    by_cases hk : g.name = k
    · simp [levelNames, hk]
    · simp only [if_neg hk] at h; simp [levelNames, ih h]
  | embed n ty p nm body rest _ ihr =>
    simp only [Tree.embedAt] at h
    by_cases hk : n = k
    · simp [levelNames, hk]
    · simp only [if_neg hk] at h; simp [levelNames, ihr h]

/-- the name looked up at the current level: the first embed of the path, or the leaf name -/
def headKey (π : List String) (k : String) : String :=
  match π with
  | [] => k
  | e :: _ => e

theorem leafAt_some_mem_level {top path inh d} {t : Tree} {π : List String} {k : String} {l : Leaf}
    (h : leafAt top path inh d t π k = some l) : (headKey π k) ∈ levelNames t := by
  cases π with
  | nil =>
    simp only [headKey]
    simp only [leafAt] at h
    cases hf : t.fieldAt k with
    | none => simp [hf] at h
    | some f => exact fieldAt_mem_level hf
  | cons e es =>
    simp only [headKey]
    simp only [leafAt] at h
    cases he : t.embedAt e with
    | none => simp [he] at h
    | some x => exact embedAt_mem_level he

theorem leafAt_skip_head_field {top path inh d} (f : FInfo) (rest : Tree) (π : List String) (k : String)
    (hne : (headKey π k) ≠ f.name) :
    leafAt top path inh d (.field f rest) π k = leafAt top path inh d rest π k := by
  cases π with
  | nil => simp only [headKey] at hne; simp only [leafAt, Tree.fieldAt]; rw [if_neg (fun e => hne e.symm)]
  | cons e es => simp only [headKey] at hne; simp only [leafAt, Tree.embedAt]; rw [if_neg (fun h => hne h.symm)]

theorem leafAt_skip_head_embed {top path inh d} (n ty p nm body) (rest : Tree) (π : List String) (k : String)
    (hne : (headKey π k) ≠ n) :
    leafAt top path inh d (.embed n ty p nm body rest) π k = leafAt top path inh d rest π k := by
  cases π with
  | nil => simp only [headKey] at hne; simp only [leafAt, Tree.fieldAt]; rw [if_neg (fun e => hne e.symm)]
  | cons e es => simp only [headKey] at hne; simp only [leafAt, Tree.embedAt]; rw [if_neg (fun h => hne h.symm)]

/-- L1: a leaf of the DFS list is what the lookup finds at its path and name -/
theorem leafAt_of_mem (t : Tree) : ∀ (top : Bool) (path : List String) (inh : Bool) (d : Nat),
    WFLevels t → ∀ l ∈ leaves top path inh d t,
      ∃ π, l.path = path ++ π ∧ leafAt top path inh d t π l.info.name = some l := by
  induction t with
  | nil => intro _ _ _ _ _ l hl; simp [leaves] at hl
  | field f rest ih =>
    intro top path inh d hw l hl
    simp only [leaves, List.mem_cons] at hl
    rcases hl with hl | hl
    · subst hl
      exact ⟨[], by simp, by simp [leafAt, Tree.fieldAt]⟩
    · obtain ⟨π, hp, hat⟩ := ih top path inh d hw.2 l hl
      refine ⟨π, hp, ?_⟩
      rw [leafAt_skip_head_field]
      · exact hat
      · intro e
        have := leafAt_some_mem_level hat
        rw [e] at this
        exact hw.1 this
  | embed n ty p nm body rest ihb ihr =>
    intro top path inh d hw l hl
    simp only [leaves, List.mem_append] at hl
    rcases hl with hl | hl
    · obtain ⟨π, hp, hat⟩ := ihb false (path ++ [n]) (if top then nm else inh) (d + 1) hw.2.1 l hl
      refine ⟨n :: π, by simp [hp], ?_⟩
      simp only [leafAt, Tree.embedAt, ↓reduceIte]
      exact hat
    · obtain ⟨π, hp, hat⟩ := ihr top path inh d hw.2.2 l hl
      refine ⟨π, hp, ?_⟩
      rw [leafAt_skip_head_embed]
      · exact hat
      · intro e
        have := leafAt_some_mem_level hat
        rw [e] at this
        exact hw.1 this

/-! ### the flat list against the leaves -/

/-- N: the non-marker entries of the walk are the non-skipped leaves, in order -/
theorem walk_fields (sh : Shadow) (t : Tree) : ∀ (top : Bool) (path : List String) (inh : Bool) (d : Nat),
    (walk sh top inh d t).filter (fun f => !f.isEmbeded) =
      ((leaves top path inh d t).filter (fun l => !l.info.skip)).map
        (fun l => mkField sh l.depth l.marked l.info l.top) := by
  induction t with
  | nil => intros; simp [walk, leaves]
  | field f rest ih =>
    intro top path inh d
    simp only [walk, leaves, List.filter_append, List.filter_cons, ih top path inh d]
    by_cases hs : f.skip <;> simp [hs, mkField]
  | embed n ty p nm body rest ihb ihr =>
    intro top path inh d
    simp only [walk, leaves, List.filter_cons, List.filter_append, List.map_append,
      ihb false (path ++ [n]) (if top then nm else inh) (d + 1), ihr top path inh d]
    simp [mkEmbed]

/-- M: Go's member universe = the walk entries plus the skipped leaves -/
theorem members_any (P : String → Nat → Bool) (t : Tree) :
    ∀ (top : Bool) (path : List String) (inh : Bool) (d : Nat),
    (members d t).any (fun m => P m.1 m.2) =
      ((walk noShadow top inh d t).any (fun f => P f.name f.depth) ||
        (leaves top path inh d t).any (fun l => l.info.skip && P l.info.name l.depth)) := by
  induction t with
  | nil => intros; simp [members, walk, leaves]
  | field f rest ih =>
    intro top path inh d
    simp only [members, walk, leaves, List.any_cons, List.any_append, ih top path inh d]
    by_cases hs : f.skip <;> simp [hs, mkField, Bool.or_assoc, Bool.or_left_comm]
  | embed n ty p nm body rest ihb ihr =>
    intro top path inh d
    simp only [members, walk, leaves, List.any_cons, List.any_append,
      ihb false (path ++ [n]) (if top then nm else inh) (d + 1), ihr top path inh d]
    simp [mkEmbed, Bool.or_assoc, Bool.or_left_comm, Bool.or_comm]

/-- P: every leaf is a member -/
theorem leaf_mem_members (t : Tree) : ∀ (top : Bool) (path : List String) (inh : Bool) (d : Nat),
    ∀ l ∈ leaves top path inh d t, (l.info.name, l.depth) ∈ members d t := by
  induction t with
  | nil => intro _ _ _ _ l hl; simp [leaves] at hl
  | field f rest ih =>
    intro top path inh d l hl
    simp only [leaves, List.mem_cons] at hl
    rcases hl with hl | hl
    · subst hl; simp [members]
    · simp [members, ih top path inh d l hl]
  | embed n ty p nm body rest ihb ihr =>
    intro top path inh d l hl
    simp only [leaves, List.mem_append] at hl
    rcases hl with hl | hl
    · have := ihb _ _ _ _ l hl
      simp [members, this]
    · simp [members, ihr top path inh d l hl]

theorem top_leaf_depth (t : Tree) : ∀ (top : Bool) (path : List String) (inh : Bool) (d : Nat),
    ∀ l ∈ leaves top path inh d t, l.top = true → (top = true ∧ l.depth = d) := by
  induction t with
  | nil => intro _ _ _ _ l hl; simp [leaves] at hl
  | field f rest ih =>
    intro top path inh d l hl ht
    simp only [leaves, List.mem_cons] at hl
    rcases hl with hl | hl
    · subst hl; simp at ht; simp [ht]
    · exact ih top path inh d l hl ht
  | embed n ty p nm body rest ihb ihr =>
    intro top path inh d l hl ht
    simp only [leaves, List.mem_append] at hl
    rcases hl with hl | hl
    · have := ihb false _ _ _ l hl ht; simp at this
    · exact ihr top path inh d l hl ht

/-- the left-out leaves, with their depths, are exactly `hiddenAll` -/
theorem hiddenAll_leaves (Q : String → Nat → Bool) (t : Tree) : ∀ (top : Bool) (path : List String) (inh : Bool) (d : Nat),
    (hiddenAll d t).any (fun h => Q h.1 h.2) =
      (leaves top path inh d t).any (fun l => l.info.skip && Q l.info.name l.depth) := by
  induction t with
  | nil => intros; simp [leaves, hiddenAll]
  | field f rest ih =>
    intro top path inh d
    simp only [leaves, hiddenAll, List.any_cons, List.any_append, ih top path inh d]
    by_cases hs : f.skip <;> simp [hs]
  | embed nm ty p mk body rest ihb ihr =>
    intro top path inh d
    simp only [leaves, hiddenAll, List.any_append, ihr top path inh d,
      ihb false (path ++ [nm]) (if top then mk else inh) (d + 1)]

/-- L2: on the leaves, the generator's shadow flags agree with Go's selector rule (left-out fields at every
    level take part in the hiding) -/
theorem shadow_agrees (t : Tree) :
    ∀ l ∈ leavesTop t,
      genShadow t l.depth l.info.name = goShadowed t l.depth l.info.name := by
  intro l _
  unfold goShadowed genShadow
  have hm := members_any (fun n d => decide (n = l.info.name ∧ d < l.depth)) t true [] false 0
  rw [hm]
  have hh := hiddenAll_leaves (fun n d => decide (n = l.info.name ∧ d < l.depth)) t true [] false 0
  rw [← hh]
  rfl

/-! ### general list facts -/

theorem eq_of_nodup_map {α β : Type} {g : α → β} : ∀ {L : List α}, (L.map g).Nodup →
    ∀ a ∈ L, ∀ b ∈ L, g a = g b → a = b := by
  intro L
  induction L with
  | nil => intro _ a ha; simp at ha
  | cons x xs ih =>
    intro hn a ha b hb hg
    simp only [List.map_cons, List.nodup_cons, List.mem_map, not_exists, not_and] at hn
    simp only [List.mem_cons] at ha hb
    rcases ha with ha | ha <;> rcases hb with hb | hb
    · rw [ha, hb]
    · subst ha; exact absurd hg.symm (hn.1 b hb)
    · subst hb; exact absurd hg (hn.1 a ha)
    · exact ih hn.2 a ha b hb hg

theorem idx_map_inj {α β : Type} [DecidableEq α] [DecidableEq β] {g : α → β} :
    ∀ (L : List α) (a : α), a ∈ L → (∀ x ∈ L, g x = g a → x = a) → idx (L.map g) (g a) = idx L a := by
  intro L
  induction L with
  | nil => intro a ha; simp at ha
  | cons x xs ih =>
    intro a ha hinj
    simp only [List.map_cons, idx]
    by_cases hx : x = a
    · subst hx; simp
    · have hg : g x ≠ g a := fun e => hx (hinj x (by simp) e)
      simp only [if_neg hg, if_neg hx]
      have ha' : a ∈ xs := by
        simp only [List.mem_cons] at ha
        rcases ha with ha | ha
        · exact absurd ha.symm hx
        · exact ha
      rw [ih a ha' (fun y hy => hinj y (by simp [hy]))]

theorem idx_isSome_of_mem {α : Type} [DecidableEq α] : ∀ (L : List α) (a : α), a ∈ L → ∃ i, idx L a = some i := by
  intro L
  induction L with
  | nil => intro a ha; simp at ha
  | cons x xs ih =>
    intro a ha
    simp only [idx]
    by_cases hx : x = a
    · exact ⟨0, by simp [hx]⟩
    · simp only [List.mem_cons] at ha
      rcases ha with ha | ha
      · exact absurd ha.symm hx
      · obtain ⟨i, hi⟩ := ih a ha
        exact ⟨i + 1, by simp [hx, hi]⟩

end ShootVerif.Ctor
