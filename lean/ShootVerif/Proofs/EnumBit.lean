import ShootVerif.Spec.Enum
/-
Lemmas for C14: Has / Add / Remove on `BitVec w` (any width) and the composite String loop.
-/
namespace ShootVerif.Enum.Bit
variable {w : Nat}

/-! ## Has / Add / Remove -/

theorem add_has (x f : BitVec w) : has (add x f) f = true := by
  unfold has add
  simp only [beq_iff_eq]
  ext i hi
  simp only [BitVec.getElem_and, BitVec.getElem_or]
  cases x[i] <;> cases f[i] <;> rfl

theorem remove_has (x f : BitVec w) (hf : f ≠ 0) : has (remove x f) f = false := by
  unfold has remove
  simp only [beq_eq_false_iff_ne, ne_eq]
  intro h
  apply hf
  ext i hi
  have := congrArg (fun v => v[i]) h
  simp only [BitVec.getElem_and, BitVec.getElem_not] at this
  revert this
  cases x[i] <;> cases f[i] <;> simp

theorem add_frame (x f : BitVec w) : add x f &&& ~~~f = x &&& ~~~f := by
  unfold add
  ext i hi
  simp only [BitVec.getElem_and, BitVec.getElem_or, BitVec.getElem_not]
  cases x[i] <;> cases f[i] <;> rfl

theorem remove_frame (x f : BitVec w) : remove x f &&& ~~~f = x &&& ~~~f := by
  unfold remove
  ext i hi
  simp only [BitVec.getElem_and, BitVec.getElem_not]
  cases x[i] <;> cases f[i] <;> rfl

/-- `x &&& f = f` says every bit of f is a bit of x -/
theorem sub_iff_bits (x f : BitVec w) :
    x &&& f = f ↔ ∀ i, f.getLsbD i = true → x.getLsbD i = true := by
  constructor
  · intro h i hf
    have := congrArg (fun v => v.getLsbD i) h
    simp only [BitVec.getLsbD_and, hf, Bool.and_true] at this
    exact this
  · intro h
    apply BitVec.eq_of_getLsbD_eq
    intro i _
    simp only [BitVec.getLsbD_and]
    cases hf : f.getLsbD i
    · simp
    · simp [h i hf]

theorem has_iff_bits (x f : BitVec w) : has x f = true ↔ ∀ i, f.getLsbD i = true → x.getLsbD i = true := by
  unfold has; rw [beq_iff_eq]; exact sub_iff_bits x f

theorem add_bits (x f : BitVec w) (i : Nat) : (add x f).getLsbD i = (x.getLsbD i || f.getLsbD i) := by
  simp [add]

theorem remove_bits (x f : BitVec w) (i : Nat) : (remove x f).getLsbD i = (x.getLsbD i && !f.getLsbD i) := by
  unfold remove
  simp only [BitVec.getLsbD_and, BitVec.getLsbD_not]
  by_cases hi : i < w
  · simp [hi]
  · simp [BitVec.getLsbD_of_ge x i (by omega)]

/-! ## bits, single flags, unions -/

theorem exists_bit_of_ne_zero (v : BitVec w) (h : v ≠ 0) : ∃ i, i < w ∧ v.getLsbD i = true := by
  apply Classical.byContradiction
  intro hn
  apply h
  apply BitVec.eq_of_getLsbD_eq
  intro i hi
  have hz : (0 : BitVec w).getLsbD i = false := by simp
  rw [hz]
  cases hb : v.getLsbD i
  · rfl
  · exact absurd ⟨i, hi, hb⟩ hn

theorem isSingle_iff (v : BitVec w) : isSingle v = true ↔ ∃ i, i < w ∧ v = BitVec.twoPow w i := by
  simp [isSingle, List.any_eq_true]

theorem twoPow_bit (i j : Nat) (hi : i < w) : (BitVec.twoPow w i).getLsbD j = decide (i = j) := by
  simp [BitVec.getLsbD_twoPow, hi]

theorem twoPow_ne_zero (i : Nat) (hi : i < w) : BitVec.twoPow w i ≠ 0 := by
  intro h
  have := congrArg (fun v => v.getLsbD i) h
  simp [twoPow_bit i i hi] at this

theorem isSingle_zero : isSingle (0#w) = false := by
  cases h : isSingle (0#w)
  · rfl
  · obtain ⟨i, hi, he⟩ := (isSingle_iff _).mp h
    exact absurd he.symm (twoPow_ne_zero i hi)

theorem sub_twoPow (x : BitVec w) (i : Nat) (hi : i < w) :
    x &&& BitVec.twoPow w i = BitVec.twoPow w i ↔ x.getLsbD i = true := by
  rw [sub_iff_bits]
  constructor
  · intro h; exact h i (by simp [twoPow_bit i i hi])
  · intro h j hj
    simp only [twoPow_bit i j hi, decide_eq_true_eq] at hj
    subst hj; exact h

theorem twoPow_inj (i j : Nat) (hi : i < w) (h : BitVec.twoPow w i = BitVec.twoPow w j) : i = j := by
  have := congrArg (fun v => v.getLsbD i) h
  simp only [twoPow_bit i i hi, decide_true] at this
  have hj := this.symm
  simp only [BitVec.getLsbD_twoPow, Bool.and_eq_true, decide_eq_true_eq] at hj
  exact hj.2.symm

theorem orAll_bit (S : Table w) (i : Nat) : (orAll S).getLsbD i = S.any (fun e => e.1.getLsbD i) := by
  induction S with
  | nil => simp [orAll]
  | cons e r ih =>
    have : orAll (e :: r) = e.1 ||| orAll r := rfl
    rw [this, BitVec.getLsbD_or, ih, List.any_cons]

theorem orAll_msb (S : Table w) : (orAll S).msb = S.any (fun e => e.1.msb) := by
  induction S with
  | nil => simp [orAll]
  | cons e r ih =>
    have : orAll (e :: r) = e.1 ||| orAll r := rfl
    rw [this, BitVec.msb_or, ih, List.any_cons]

theorem maxOf_eq_orAll (t : Table w) : maxOf t = orAll t := rfl

/-- `f ⊆ x` makes f the smaller number -/
theorem le_of_sub (x f : BitVec w) (h : x &&& f = f) : f ≤ x := by
  rw [BitVec.le_def]
  have := congrArg BitVec.toNat h
  rw [BitVec.toNat_and] at this
  rw [← this]
  exact Nat.and_le_left

/-! ## the composite String loop -/

theorem lookup_eq_find? (t : Table w) (x : BitVec w) :
    t.lookup x = (t.find? (fun e => e.1 = x)).map (·.2) := by
  induction t with
  | nil => rfl
  | cons e r ih =>
    obtain ⟨v, n⟩ := e
    simp only [List.lookup_cons, List.find?_cons]
    by_cases h : v = x
    · subst h; simp
    · have h' : (x == v) = false := by simp [Ne.symm h]
      simp [h, h', ih]

/-- invariant of the loop: every composite still ahead has a bit that is either already gone from
    the remainder or belongs to a single-bit flag still ahead -/
def J (l : Table w) (rem : BitVec w) : Prop :=
  ∀ e ∈ l, e.1 ≠ 0 → isSingle e.1 = false →
    ∃ i, i < w ∧ e.1.getLsbD i = true ∧ (rem.getLsbD i = false ∨ ∃ g ∈ l, g.1 = BitVec.twoPow w i)

theorem J_tail (v : BitVec w) (n : Name) (rest : Table w) (rem rem' : BitVec w)
    (hJ : J ((v, n) :: rest) rem)
    (hsub : ∀ j, rem'.getLsbD j = true → rem.getLsbD j = true)
    (hhead : ∀ i, i < w → v = BitVec.twoPow w i → rem'.getLsbD i = false) : J rest rem' := by
  intro e he hne hns
  obtain ⟨i, hi, hbit, hor⟩ := hJ e (List.mem_cons_of_mem _ he) hne hns
  refine ⟨i, hi, hbit, ?_⟩
  rcases hor with hrem | ⟨g, hg, hgv⟩
  · left
    cases hb : rem'.getLsbD i
    · rfl
    · rw [hsub i hb] at hrem; exact absurd hrem (by simp)
  · rcases List.mem_cons.mp hg with rfl | hgr
    · left; exact hhead i hi hgv
    · right; exact ⟨g, hgr, hgv⟩

theorem flagsIn_zero (l : Table w) : flagsIn l (0#w) = [] := by
  unfold flagsIn
  rw [List.filter_eq_nil_iff]
  intro e _
  simp only [Bool.and_eq_true, beq_iff_eq, not_and]
  intro hs h0
  have : e.1 = 0#w := by simpa using h0.symm
  rw [this, isSingle_zero] at hs
  exact absurd hs (by simp)

theorem loop_spec (l : Table w) (hs : l.Pairwise (fun a b => a.1 < b.1)) :
    ∀ (rem : BitVec w) (acc : List Name), J l rem →
      loop l rem acc = (rem &&& ~~~ orAll (flagsIn l rem), acc ++ (flagsIn l rem).map (·.2)) := by
  induction l with
  | nil =>
    intro rem acc _
    simp [loop, flagsIn, orAll]
  | cons e rest ih =>
    obtain ⟨v, n⟩ := e
    intro rem acc hJ
    have hs' := List.pairwise_cons.mp hs
    have ih' := ih hs'.2
    unfold loop
    by_cases hv0 : v = 0
    · -- `continue`
      subst hv0
      have hJ' : J rest rem := J_tail 0 n rest rem rem hJ (fun _ h => h)
        (fun i hi h0 => absurd h0.symm (twoPow_ne_zero i hi))
      simp only [↓reduceIte]
      rw [ih' rem acc hJ']
      simp [flagsIn, isSingle_zero]
    · simp only [hv0, ↓reduceIte]
      by_cases hr0 : rem = 0
      · -- `break`
        subst hr0
        simp [flagsIn_zero, orAll]
      · simp only [hr0, ↓reduceIte]
        cases hsing : isSingle v with
        | true =>
          obtain ⟨i, hi, hvi⟩ := (isSingle_iff v).mp hsing
          have hcongr : ∀ rem' : BitVec w, (∀ j, j ≠ i → rem'.getLsbD j = rem.getLsbD j) →
              flagsIn rest rem' = flagsIn rest rem := by
            intro rem' hsame
            unfold flagsIn
            apply List.filter_congr
            intro g hg
            cases hgs : isSingle g.1 with
            | false => simp
            | true =>
              obtain ⟨j, hj, hgj⟩ := (isSingle_iff g.1).mp hgs
              have hji : j ≠ i := by
                intro hji
                subst hji
                have := hs'.1 g hg
                rw [hgj, hvi] at this
                exact absurd this (by simp)
              simp only [Bool.true_and]
              rw [Bool.eq_iff_iff, beq_iff_eq, beq_iff_eq, hgj, sub_twoPow _ j hj, sub_twoPow _ j hj, hsame j hji]
          cases hhas : has rem v with
          | true =>
            have hJ' : J rest (remove rem v) := by
              apply J_tail v n rest rem (remove rem v) hJ
              · intro j hj; rw [remove_bits] at hj; simp only [Bool.and_eq_true] at hj; exact hj.1
              · intro i' hi' hv'
                rw [remove_bits, hv', twoPow_bit i' i' hi']; simp
            simp only [↓reduceIte]
            rw [ih' (remove rem v) (acc ++ [n]) hJ']
            have hfl : flagsIn rest (remove rem v) = flagsIn rest rem := by
              apply hcongr
              intro j hji
              rw [remove_bits, hvi, twoPow_bit i j hi]
              have : decide (i = j) = false := by simp [Ne.symm hji]
              simp [this]
            have hcons : flagsIn ((v, n) :: rest) rem = (v, n) :: flagsIn rest rem := by
              unfold flagsIn
              unfold has at hhas
              simp [hsing, hhas]
            rw [hfl, hcons]
            have horc : orAll ((v, n) :: flagsIn rest rem) = v ||| orAll (flagsIn rest rem) := rfl
            rw [horc]
            refine Prod.ext ?_ ?_
            · simp only [remove]
              ext k hk
              simp only [BitVec.getElem_and, BitVec.getElem_not, BitVec.getElem_or]
              cases rem[k] <;> cases v[k] <;> cases (orAll (flagsIn rest rem))[k] <;> rfl
            · simp
          | false =>
            have hnb : rem.getLsbD i = false := by
              cases hb : rem.getLsbD i
              · rfl
              · have := (sub_twoPow rem i hi).mpr hb
                unfold has at hhas
                rw [hvi, this] at hhas
                simp at hhas
            have hJ' : J rest rem := by
              apply J_tail v n rest rem rem hJ (fun _ h => h)
              intro i' hi' hv'
              have : i' = i := twoPow_inj i' i hi' (hv'.symm.trans hvi)
              subst this; exact hnb
            simp only [Bool.false_eq_true, ↓reduceIte]
            rw [ih' rem acc hJ']
            have hcons : flagsIn ((v, n) :: rest) rem = flagsIn rest rem := by
              unfold flagsIn
              unfold has at hhas
              simp [hsing, hhas]
            rw [hcons]
        | false =>
          -- a composite: all its declared bits were removed before it is reached
          have hnh : has rem v = false := by
            cases hhas : has rem v
            · rfl
            · exfalso
              obtain ⟨i, hi, hbit, hor⟩ := hJ (v, n) (by simp) hv0 hsing
              have hremi : rem.getLsbD i = true := (has_iff_bits rem v).mp hhas i hbit
              rcases hor with hrem | ⟨g, hg, hgv⟩
              · rw [hremi] at hrem; exact absurd hrem (by simp)
              · rcases List.mem_cons.mp hg with rfl | hgr
                · simp only at hgv
                  have : isSingle v = true := (isSingle_iff v).mpr ⟨i, hi, hgv⟩
                  rw [hsing] at this; exact absurd this (by simp)
                · have hlt := hs'.1 g hgr
                  simp only at hlt
                  have hle : g.1 ≤ v := by
                    rw [hgv]; exact le_of_sub v _ ((sub_twoPow v i hi).mpr hbit)
                  rw [BitVec.lt_def] at hlt
                  rw [BitVec.le_def] at hle
                  omega
          have hJ' : J rest rem := by
            apply J_tail v n rest rem rem hJ (fun _ h => h)
            intro i' hi' hv'
            have : isSingle v = true := (isSingle_iff v).mpr ⟨i', hi', hv'⟩
            rw [hsing] at this; exact absurd this (by simp)
          simp only [hnh, Bool.false_eq_true, ↓reduceIte]
          rw [ih' rem acc hJ']
          have hcons : flagsIn ((v, n) :: rest) rem = flagsIn rest rem := by
            unfold flagsIn
            simp [hsing]
          rw [hcons]

/-! ## the bit-by-bit specification functions of the driver -/

theorem ofBits_aux (p : Nat → Bool) (n : Nat) (j : Nat) :
    ((List.range n).foldl (fun (a : BitVec w) i => if p i then a ||| BitVec.twoPow w i else a) 0#w).getLsbD j =
      (decide (j < n) && decide (j < w) && p j) := by
  induction n with
  | zero => simp
  | succ n ih =>
    rw [List.range_succ, List.foldl_append]
    simp only [List.foldl_cons, List.foldl_nil]
    by_cases hp : p n
    · simp only [hp, ↓reduceIte, BitVec.getLsbD_or, ih, BitVec.getLsbD_twoPow]
      by_cases hjn : j = n
      · subst hjn; by_cases hjw : j < w <;> simp [hjw, hp]
      · have h1 : decide (n = j) = false := by simp [Ne.symm hjn]
        have h2 : decide (j < n + 1) = decide (j < n) := by
          by_cases h : j < n
          · simp [h]; omega
          · simp [h]; omega
        simp [h1, h2]
    · simp only [hp, Bool.false_eq_true, ↓reduceIte, ih]
      by_cases hjn : j = n
      · subst hjn; simp [hp]
      · have h2 : decide (j < n + 1) = decide (j < n) := by
          by_cases h : j < n
          · simp [h]; omega
          · simp [h]; omega
        simp [h2]

theorem ofBits_bit (p : Nat → Bool) (j : Nat) (hj : j < w) : (ofBits w p).getLsbD j = p j := by
  have := ofBits_aux (w := w) p w j
  unfold ofBits
  simp only [BitVec.ofNat_eq_ofNat] at this ⊢
  rw [this]; simp [hj]

theorem specAdd_eq (x f : BitVec w) : specAdd x f = add x f := by
  apply BitVec.eq_of_getLsbD_eq
  intro i hi
  rw [specAdd, ofBits_bit _ i hi, add_bits]; rfl

theorem specRemove_eq (x f : BitVec w) : specRemove x f = remove x f := by
  apply BitVec.eq_of_getLsbD_eq
  intro i hi
  rw [specRemove, ofBits_bit _ i hi, remove_bits]; rfl

theorem specHas_eq (x f : BitVec w) : specHas x f = has x f := by
  rw [Bool.eq_iff_iff, has_iff_bits]
  unfold specHas bit
  rw [List.all_eq_true]
  constructor
  · intro h i hf
    by_cases hi : i < w
    · have := h i (List.mem_range.mpr hi)
      simpa [hf] using this
    · rw [BitVec.getLsbD_of_ge f i (by omega)] at hf; exact absurd hf (by simp)
  · intro h i _
    cases hf : f.getLsbD i
    · simp
    · simp [h i hf]

/-! ## the loop against the specification -/

theorem table_inj (t : Table w) (hs : t.Pairwise (fun a b => a.1 < b.1)) :
    ∀ g ∈ t, ∀ e ∈ t, g.1 = e.1 → g = e := by
  induction t with
  | nil => intro g hg; simp at hg
  | cons a r ih =>
    have hs' := List.pairwise_cons.mp hs
    intro g hg e he hge
    rcases List.mem_cons.mp hg with rfl | hgr <;> rcases List.mem_cons.mp he with rfl | her
    · rfl
    · have := hs'.1 e her; rw [hge, BitVec.lt_def] at this; omega
    · have := hs'.1 g hgr; rw [hge, BitVec.lt_def] at this; omega
    · exact ih hs'.2 g hgr e her hge

theorem find?_of_mem (t : Table w) (hs : t.Pairwise (fun a b => a.1 < b.1)) (e : BitVec w × Name) (he : e ∈ t) :
    t.find? (fun g => g.1 = e.1) = some e := by
  cases h : t.find? (fun g => g.1 = e.1) with
  | none =>
    rw [List.find?_eq_none] at h
    have := h e he
    simp at this
  | some g =>
    have hg : g ∈ t := List.mem_of_find?_eq_some h
    have hge : g.1 = e.1 := by simpa using List.find?_some h
    rw [table_inj t hs g hg e he hge]

structure WFtFacts (signed : Bool) (t : Table w) : Prop where
  sorted : t.Pairwise (fun a b => a.1 < b.1)
  names : (t.map (·.2)).Nodup
  shape : ∀ e ∈ t, e.1 = 0#w ∨ isSingle e.1 = true ∨ orAll (flagsIn t e.1) = e.1
  nonneg : signed = true → ∀ e ∈ t, e.1.msb = false

theorem WFt.facts {signed : Bool} {t : Table w} (h : WFt signed t = true) : WFtFacts signed t := by
  simp only [WFt, Bool.and_eq_true, decide_eq_true_eq, List.all_eq_true, Bool.or_eq_true,
    Bool.not_eq_true'] at h
  obtain ⟨⟨⟨h1, h2⟩, h3⟩, h4⟩ := h
  refine ⟨h1, h2, ?_, ?_⟩
  · intro e he
    have := h3 e he
    simp only [shapeOK, Bool.or_eq_true, beq_iff_eq] at this
    rcases this with (h0 | hsg) | hu
    · left; simpa using h0
    · right; left; exact hsg
    · right; right; exact hu
  · intro hsg e he
    rcases h4 with h4 | h4
    · rw [hsg] at h4; exact absurd h4 (by simp)
    · exact h4 e he

theorem J_init {signed : Bool} {t : Table w} (f : WFtFacts signed t) (x : BitVec w) : J t x := by
  intro e he hne hns
  rcases f.shape e he with h0 | hsg | hu
  · exact absurd h0 hne
  · rw [hns] at hsg; exact absurd hsg (by simp)
  · obtain ⟨i, hi, hbit⟩ := exists_bit_of_ne_zero e.1 hne
    refine ⟨i, hi, hbit, Or.inr ?_⟩
    rw [← hu, orAll_bit, List.any_eq_true] at hbit
    obtain ⟨g, hg, hgi⟩ := hbit
    unfold flagsIn at hg
    rw [List.mem_filter] at hg
    simp only [Bool.and_eq_true] at hg
    obtain ⟨j, hj, hgj⟩ := (isSingle_iff g.1).mp hg.2.1
    rw [hgj, twoPow_bit j i hj] at hgi
    have : j = i := by simpa using hgi
    subst this
    exact ⟨g, hg.1, hgj⟩

theorem flagsIn_sub (t : Table w) (x : BitVec w) : x &&& orAll (flagsIn t x) = orAll (flagsIn t x) := by
  rw [sub_iff_bits]
  intro i hi
  rw [orAll_bit, List.any_eq_true] at hi
  obtain ⟨e, he, hei⟩ := hi
  unfold flagsIn at he
  rw [List.mem_filter] at he
  simp only [Bool.and_eq_true, beq_iff_eq] at he
  exact (sub_iff_bits x e.1).mp he.2.2 i hei

theorem rem_zero_iff (x o : BitVec w) (hsub : x &&& o = o) : x &&& ~~~o = 0#w ↔ o = x := by
  constructor
  · intro h
    apply BitVec.eq_of_getLsbD_eq
    intro i hi
    have h1 := congrArg (fun v => v.getLsbD i) h
    simp only [BitVec.getLsbD_and, BitVec.getLsbD_not, hi, decide_true, Bool.true_and, BitVec.getLsbD_zero] at h1
    have h2 := (sub_iff_bits x o).mp hsub i
    cases hx : x.getLsbD i <;> cases ho : o.getLsbD i <;> simp_all
  · intro h
    subst h
    ext i hi
    simp

theorem orAll_sub_of_subset (S t : Table w) (hst : ∀ e ∈ S, e ∈ t) : orAll t &&& orAll S = orAll S := by
  rw [sub_iff_bits]
  intro i hi
  rw [orAll_bit, List.any_eq_true] at hi ⊢
  obtain ⟨e, he, hei⟩ := hi
  exact ⟨e, hst e he, hei⟩

theorem slt_zero (x : BitVec w) : x.slt 0 = x.msb := by
  simpa using (BitVec.slt_zero_eq_msb (x := x))

theorem not_outside_of_union {signed : Bool} {t : Table w} (f : WFtFacts signed t) (S : Table w)
    (hst : ∀ e ∈ S, e ∈ t) : outside signed (maxOf t) (orAll S) = false := by
  have hle : orAll S ≤ orAll t := le_of_sub _ _ (orAll_sub_of_subset S t hst)
  have hult : (orAll t).ult (orAll S) = false := by
    cases h : (orAll t).ult (orAll S)
    · rfl
    · rw [BitVec.ult_iff_lt, BitVec.lt_def] at h
      rw [BitVec.le_def] at hle
      omega
  unfold outside
  rw [maxOf_eq_orAll]
  cases hsg : signed with
  | false => simpa using hult
  | true =>
    have hm1 : (orAll t).msb = false := by
      rw [orAll_msb, List.any_eq_false]
      intro e he; simp [f.nonneg hsg e he]
    have hm2 : (orAll S).msb = false := by
      rw [orAll_msb, List.any_eq_false]
      intro e he; simp [f.nonneg hsg e (hst e he)]
    simp only [↓reduceIte]
    rw [slt_zero, hm2, BitVec.slt_eq_ult, hm1, hm2, hult]
    rfl

/-- the emitted String() with -bit is the specification, for every value -/
theorem string_eq_spec {signed : Bool} {t : Table w} (h : WFt signed t = true) (x : BitVec w) :
    string signed t x = specString signed t x := by
  have f := WFt.facts h
  unfold string specString
  rw [lookup_eq_find?]
  cases hfind : t.find? (fun e => e.1 = x) with
  | some e => simp
  | none =>
    simp only [Option.map_none]
    have hloop := loop_spec t f.sorted x [] (J_init f x)
    have hsub := flagsIn_sub t x
    by_cases hout : outside signed (maxOf t) x = true
    · simp only [hout, ↓reduceIte]
      have : ¬ (flagsIn t x ≠ [] ∧ orAll (flagsIn t x) = x) := by
        rintro ⟨_, hx⟩
        have := not_outside_of_union f (flagsIn t x) (fun e he => (List.mem_filter.mp he).1)
        rw [hx, hout] at this
        exact absurd this (by simp)
      simp [this]
    · simp only [hout, Bool.false_eq_true, ↓reduceIte, hloop, List.nil_append]
      have hz : (x &&& ~~~orAll (flagsIn t x) = 0) ↔ orAll (flagsIn t x) = x := rem_zero_iff x _ hsub
      by_cases hc : flagsIn t x ≠ [] ∧ orAll (flagsIn t x) = x
      · have h1 : x &&& ~~~orAll (flagsIn t x) = 0 := hz.mpr hc.2
        have h2 : List.map (fun e => e.2) (flagsIn t x) ≠ [] := by simpa using hc.1
        rw [if_pos ⟨h1, h2⟩, if_pos hc]
      · have : ¬ (x &&& ~~~orAll (flagsIn t x) = 0 ∧ List.map (fun e => e.2) (flagsIn t x) ≠ []) := by
          rintro ⟨h1, h2⟩
          exact hc ⟨by simpa using h2, hz.mp h1⟩
        rw [if_neg this, if_neg hc]

/-- a selection of declared single-bit flags is recovered from its union -/
theorem flagsIn_union {t : Table w} (hs : t.Pairwise (fun a b => a.1 < b.1)) (sel : BitVec w × Name → Bool) :
    flagsIn t (orAll (t.filter (fun e => isSingle e.1 && sel e))) = t.filter (fun e => isSingle e.1 && sel e) := by
  unfold flagsIn
  apply List.filter_congr
  intro e he
  cases hsg : isSingle e.1 with
  | false => simp
  | true =>
    obtain ⟨i, hi, hei⟩ := (isSingle_iff e.1).mp hsg
    simp only [Bool.true_and]
    rw [Bool.eq_iff_iff, beq_iff_eq, hei, sub_twoPow _ i hi, orAll_bit, List.any_eq_true]
    constructor
    · rintro ⟨g, hg, hgi⟩
      rw [List.mem_filter] at hg
      simp only [Bool.and_eq_true] at hg
      obtain ⟨j, hj, hgj⟩ := (isSingle_iff g.1).mp hg.2.1
      rw [hgj, twoPow_bit j i hj] at hgi
      have : j = i := by simpa using hgi
      subst this
      have : g = e := table_inj t hs g hg.1 e he (hgj.trans hei.symm)
      rw [← this]; exact hg.2.2
    · intro hsel
      refine ⟨e, ?_, ?_⟩
      · rw [List.mem_filter]; simp [he, hsg, hsel]
      · rw [hei, twoPow_bit i i hi]; simp

/-! ## any table: the loop is the `picks` statement -/

theorem sub_rem_iff (x c v : BitVec w) :
    (x &&& ~~~c) &&& v = v ↔ (x &&& v = v ∧ c &&& v = 0#w) := by
  rw [sub_iff_bits, sub_iff_bits]
  constructor
  · intro h
    refine ⟨fun i hv => ?_, ?_⟩
    · have := h i hv
      simp only [BitVec.getLsbD_and, Bool.and_eq_true] at this
      exact this.1
    · apply BitVec.eq_of_getLsbD_eq
      intro i hi
      simp only [BitVec.getLsbD_and, BitVec.getLsbD_zero]
      cases hv : v.getLsbD i
      · simp
      · have := h i hv
        simp only [BitVec.getLsbD_and, BitVec.getLsbD_not, hi, decide_true, Bool.true_and, Bool.and_eq_true,
          Bool.not_eq_true'] at this
        simp [this.2]
  · rintro ⟨h1, h2⟩ i hv
    have hi : i < w := by
      apply Classical.byContradiction
      intro hn
      rw [BitVec.getLsbD_of_ge v i (by omega)] at hv
      exact absurd hv (by simp)
    have hc := congrArg (fun u => u.getLsbD i) h2
    simp only [BitVec.getLsbD_and, hv, Bool.and_true, BitVec.getLsbD_zero] at hc
    rw [BitVec.getLsbD_and, BitVec.getLsbD_not, h1 i hv, hc]; simp [hi]

theorem remove_rem (x c v : BitVec w) : remove (x &&& ~~~c) v = x &&& ~~~(c ||| v) := by
  unfold remove
  ext i hi
  simp only [BitVec.getElem_and, BitVec.getElem_not, BitVec.getElem_or]
  cases x[i] <;> cases c[i] <;> cases v[i] <;> rfl

theorem picks_nil_of_rem_zero (x : BitVec w) (l : Table w) (c : BitVec w) (h : x &&& ~~~c = 0#w) :
    picks x l c = [] := by
  induction l with
  | nil => rfl
  | cons e r ih =>
    unfold picks
    have : ¬ (e.1 ≠ 0 ∧ x &&& e.1 = e.1 ∧ c &&& e.1 = 0) := by
      rintro ⟨hne, h1, h2⟩
      apply hne
      have := (sub_rem_iff x c e.1).mpr ⟨h1, h2⟩
      rw [h] at this
      simpa using this.symm
    rw [if_neg this]; exact ih

theorem orAll_cons (e : BitVec w × Name) (P : Table w) : orAll (e :: P) = e.1 ||| orAll P := rfl

theorem loop_picks (x : BitVec w) (l : Table w) :
    ∀ (c : BitVec w) (acc : List Name),
      loop l (x &&& ~~~c) acc = (x &&& ~~~(c ||| orAll (picks x l c)), acc ++ (picks x l c).map (·.2)) := by
  induction l with
  | nil => intro c acc; simp [loop, picks, orAll]
  | cons e rest ih =>
    obtain ⟨v, n⟩ := e
    intro c acc
    unfold loop picks
    by_cases hv0 : v = 0
    · subst hv0
      have hn : ¬ ((0 : BitVec w) ≠ 0 ∧ x &&& (0 : BitVec w) = 0 ∧ c &&& (0 : BitVec w) = 0) := by simp
      simp only [↓reduceIte]
      rw [if_neg hn]
      exact ih c acc
    · simp only [hv0, ↓reduceIte]
      by_cases hr0 : x &&& ~~~c = 0
      · have hp : picks x rest c = [] := picks_nil_of_rem_zero x rest c hr0
        have hp2 : ¬ (v ≠ 0 ∧ x &&& v = v ∧ c &&& v = 0) := by
          rintro ⟨hne, h1, h2⟩
          apply hne
          have := (sub_rem_iff x c v).mpr ⟨h1, h2⟩
          rw [hr0] at this
          simpa using this.symm
        simp only [hr0, ↓reduceIte]
        rw [if_neg hp2, hp]
        simp [orAll, hr0]
      · simp only [hr0, ↓reduceIte]
        by_cases hh : has (x &&& ~~~c) v = true
        · have hcond : v ≠ 0 ∧ x &&& v = v ∧ c &&& v = 0 := by
            unfold has at hh
            rw [beq_iff_eq] at hh
            exact ⟨hv0, (sub_rem_iff x c v).mp hh⟩
          simp only [hh, ↓reduceIte]
          rw [if_pos hcond, remove_rem, ih (c ||| v) (acc ++ [n]), orAll_cons]
          refine Prod.ext ?_ ?_
          · simp only [BitVec.or_assoc]
          · simp
        · have hcond : ¬ (v ≠ 0 ∧ x &&& v = v ∧ c &&& v = 0) := by
            rintro ⟨_, h1, h2⟩
            apply hh
            unfold has
            rw [beq_iff_eq]
            exact (sub_rem_iff x c v).mpr ⟨h1, h2⟩
          have hh' : has (x &&& ~~~c) v = false := by simpa using hh
          simp only [hh', Bool.false_eq_true, ↓reduceIte]
          rw [if_neg hcond]
          exact ih c acc

theorem picks_props (x : BitVec w) (l : Table w) :
    ∀ c : BitVec w, (∀ e ∈ picks x l c, e ∈ l ∧ e.1 ≠ 0 ∧ x &&& e.1 = e.1 ∧ c &&& e.1 = 0#w) ∧
      (picks x l c).Pairwise (fun a b => a.1 &&& b.1 = 0#w) ∧ (picks x l c).Sublist l := by
  induction l with
  | nil => intro c; simp [picks]
  | cons e rest ih =>
    intro c
    unfold picks
    by_cases hcond : e.1 ≠ 0 ∧ x &&& e.1 = e.1 ∧ c &&& e.1 = 0
    · rw [if_pos hcond]
      obtain ⟨h1, h2, h3⟩ := ih (c ||| e.1)
      have hsplit : ∀ b ∈ picks x rest (c ||| e.1), c &&& b.1 = 0#w ∧ e.1 &&& b.1 = 0#w := by
        intro b hb
        have hz := (h1 b hb).2.2.2
        constructor
        · apply BitVec.eq_of_getLsbD_eq
          intro i hi
          have := congrArg (fun u => u.getLsbD i) hz
          simp only [BitVec.getLsbD_and, BitVec.getLsbD_or, BitVec.getLsbD_zero] at this ⊢
          revert this; cases c.getLsbD i <;> cases e.1.getLsbD i <;> cases b.1.getLsbD i <;> simp
        · apply BitVec.eq_of_getLsbD_eq
          intro i hi
          have := congrArg (fun u => u.getLsbD i) hz
          simp only [BitVec.getLsbD_and, BitVec.getLsbD_or, BitVec.getLsbD_zero] at this ⊢
          revert this; cases c.getLsbD i <;> cases e.1.getLsbD i <;> cases b.1.getLsbD i <;> simp
      refine ⟨?_, ?_, ?_⟩
      · intro b hb
        rcases List.mem_cons.mp hb with rfl | hbr
        · exact ⟨by simp, hcond.1, hcond.2.1, hcond.2.2⟩
        · have := h1 b hbr
          exact ⟨List.mem_cons_of_mem _ this.1, this.2.1, this.2.2.1, (hsplit b hbr).1⟩
      · exact List.pairwise_cons.mpr ⟨fun b hb => (hsplit b hb).2, h2⟩
      · exact List.Sublist.cons_cons e h3
    · rw [if_neg hcond]
      obtain ⟨h1, h2, h3⟩ := ih c
      exact ⟨fun b hb => ⟨List.mem_cons_of_mem _ (h1 b hb).1, (h1 b hb).2⟩, h2, List.Sublist.cons e h3⟩

theorem picks_sub (x : BitVec w) (l : Table w) (c : BitVec w) :
    x &&& orAll (picks x l c) = orAll (picks x l c) := by
  rw [sub_iff_bits]
  intro i hi
  rw [orAll_bit, List.any_eq_true] at hi
  obtain ⟨e, he, hei⟩ := hi
  exact (sub_iff_bits x e.1).mp ((picks_props x l c).1 e he).2.2.1 i hei

/-- the emitted String() with -bit, on ANY table and every value, is the `picks` statement -/
theorem string_eq_general (signed : Bool) (t : Table w) (x : BitVec w) :
    string signed t x = specGeneral signed t x := by
  unfold string specGeneral
  rw [lookup_eq_find?, maxOf_eq_orAll]
  cases hfind : t.find? (fun e => e.1 = x) with
  | some e => simp
  | none =>
    simp only [Option.map_none]
    by_cases hout : outside signed (orAll t) x = true
    · simp only [hout, ↓reduceIte]
    · have hout' : outside signed (orAll t) x = false := by simpa using hout
      have hloop := loop_picks x t 0#w []
      have hx : x &&& ~~~(0#w) = x := by
        ext i hi; simp
      have ho : (0#w ||| orAll (picks x t 0#w)) = orAll (picks x t 0#w) := by
        ext i hi; simp
      rw [hx, ho] at hloop
      simp only [hout', Bool.false_eq_true, ↓reduceIte, hloop, List.nil_append]
      have hz := rem_zero_iff x _ (picks_sub x t 0#w)
      by_cases hc : picks x t 0#w ≠ [] ∧ orAll (picks x t 0#w) = x
      · have h1 : x &&& ~~~orAll (picks x t 0#w) = 0 := hz.mpr hc.2
        have h2 : List.map (fun e => e.2) (picks x t 0#w) ≠ [] := by simpa using hc.1
        rw [if_pos ⟨h1, h2⟩, if_pos hc]
      · have : ¬ (x &&& ~~~orAll (picks x t 0#w) = 0 ∧ List.map (fun e => e.2) (picks x t 0#w) ≠ []) := by
          rintro ⟨h1, h2⟩
          exact hc ⟨by simpa using h2, hz.mp h1⟩
        rw [if_neg this, if_neg hc]

/-- with a flag on the sign bit of a signed type `_max` is negative: every undeclared value is outside -/
theorem outside_of_signbit (mx x : BitVec w) (hm : mx.msb = true) : outside true mx x = true := by
  unfold outside
  simp only [↓reduceIte, Bool.or_eq_true]
  by_cases hx : x.msb = true
  · left; rw [slt_zero]; exact hx
  · right
    have hx' : x.msb = false := by simpa using hx
    rw [BitVec.slt_eq_ult, hm, hx']
    have : mx.ult x = false := by
      cases h : mx.ult x
      · rfl
      · rw [BitVec.ult_iff_lt, BitVec.lt_def] at h
        rw [BitVec.msb_eq_decide] at hm hx'
        simp only [decide_eq_true_eq, decide_eq_false_iff_not] at hm hx'
        omega
    rw [this]; rfl

theorem inj_of_nodup_names (t : Table w) (h : (t.map (·.2)).Nodup) :
    ∀ a ∈ t, ∀ b ∈ t, a.2 = b.2 → a = b := by
  induction t with
  | nil => intro a ha; simp at ha
  | cons e r ih =>
    have hn : e.2 ∉ r.map (·.2) ∧ (r.map (·.2)).Nodup := List.nodup_cons.mp (by rw [List.map_cons] at h; exact h)
    intro a ha b hb hab
    rcases List.mem_cons.mp ha with rfl | har <;> rcases List.mem_cons.mp hb with rfl | hbr
    · rfl
    · exact absurd (hab ▸ List.mem_map_of_mem hbr : a.2 ∈ r.map (·.2)) hn.1
    · exact absurd (hab ▸ List.mem_map_of_mem har : b.2 ∈ r.map (·.2)) hn.1
    · exact ih hn.2 a har b hbr hab

/-- String() of ANY table (no hypothesis on its shape) for a value with a bit that no declared constant has:
    the decimal form -/
theorem string_undeclared_bit (signed : Bool) (t : Table w) (x : BitVec w)
    (i : Nat) (hx : x.getLsbD i = true) (hi : ∀ e ∈ t, e.1.getLsbD i = false) :
    string signed t x = .dec (decOf signed x) := by
  rw [string_eq_general]
  unfold specGeneral
  have hfind : t.find? (fun e => e.1 = x) = none := by
    rw [List.find?_eq_none]
    intro e he hex
    have : e.1 = x := by simpa using hex
    rw [← this, hi e he] at hx
    exact absurd hx (by simp)
  rw [hfind]
  simp only []
  split
  · rfl
  · have hp := picks_props x t 0#w
    have hno : ¬ (picks x t 0#w ≠ [] ∧ orAll (picks x t 0#w) = x) := by
      rintro ⟨_, hu⟩
      rw [← hu, orAll_bit, List.any_eq_true] at hx
      obtain ⟨e, he, hei⟩ := hx
      rw [hi e (hp.2.2.subset he)] at hei
      exact absurd hei (by simp)
    rw [if_neg hno]

end ShootVerif.Enum.Bit
