import ShootVerif.Model.Rest
/-! Helper lemmas for C06_parse_roundtrip: the request-line recogniser on a rendered directive. -/
namespace ShootVerif.Rest

/-- the directive line as a user writes it: `shoot: Verb("path")` / `shoot: Verb(path)`, with any
    spelling `vt` of the verb and any run `tail` of non-word characters (`;`, blanks) after `)` -/
def renderReq (vt : List Char) (quoted : Bool) (p tail : List Char) : List Char :=
  shootColon ++ [' '] ++ vt ++ ['('] ++ (if quoted then '"' :: (p ++ ['"']) else p) ++ [')'] ++ tail

theorem splitLines_ne_nil (s : List Char) : splitLines s ≠ [] := by
  cases s with
  | nil => simp [splitLines]
  | cons c cs =>
    simp only [splitLines]
    split <;> simp
    split <;> simp

theorem splitLines_line (l r : List Char) (h : ∀ c ∈ l, c ≠ '\n') :
    splitLines (l ++ '\n' :: r) = l :: splitLines r := by
  induction l with
  | nil =>
    simp only [List.nil_append, splitLines]
    cases hs : splitLines r with
    | nil => exact absurd hs (splitLines_ne_nil r)
    | cons x xs => simp
  | cons c cs ih =>
    have hc : c ≠ '\n' := h c (by simp)
    have hcs : ∀ x ∈ cs, x ≠ '\n' := fun x hx => h x (by simp [hx])
    simp only [List.cons_append, splitLines, ih hcs]
    have : (c == '\n') = false := by simpa using hc
    simp [this]

/-- the last line of a doc text (no trailing newline) -/
theorem splitLines_last (l : List Char) (h : ∀ c ∈ l, c ≠ '\n') : splitLines l = [l] := by
  induction l with
  | nil => rfl
  | cons c cs ih =>
    have hc : c ≠ '\n' := h c (by simp)
    have hcs : ∀ x ∈ cs, x ≠ '\n' := fun x hx => h x (by simp [hx])
    have : (c == '\n') = false := by simpa using hc
    simp [splitLines, ih hcs, this]

theorem dropWhile_eq_self {q : Char → Bool} (l : List Char) (h : ∀ c ∈ l, q c = false) :
    l.dropWhile q = l := by
  cases l with
  | nil => rfl
  | cons c cs => simp [List.dropWhile_cons, h c (by simp)]

theorem takeWhile_eq_nil {q : Char → Bool} (l : List Char) (h : ∀ c ∈ l.head?, q c = false) :
    l.takeWhile q = [] := by
  cases l with
  | nil => rfl
  | cons c cs => simp [List.takeWhile_cons, h c (by simp)]

theorem stripPrefixCI_append (pre t rest : List Char) (h : t.map lowerC = pre) :
    stripPrefixCI pre (t ++ rest) = some rest := by
  induction t generalizing pre with
  | nil => subst h; rfl
  | cons c cs ih =>
    subst h
    simp [stripPrefixCI, ih]

theorem verbOfLower_lowerChars (v : Verb) : verbOfLower v.lowerChars = some v := by
  cases v <;> decide

theorem matchVerb_render (v : Verb) (vt rest : List Char)
    (hsp : vt.map lowerC = v.lowerChars) (hal : ∀ c ∈ vt, isAlpha c = true) :
    matchVerb (vt ++ '(' :: rest) = some (v, rest) := by
  have h1 : (vt ++ '(' :: rest).takeWhile isAlpha = vt := by
    rw [List.takeWhile_append_of_pos hal]
    simp [List.takeWhile_cons, isAlpha]
  have h2 : (vt ++ '(' :: rest).dropWhile isAlpha = '(' :: rest := by
    rw [List.dropWhile_append_of_pos hal]
    simp [List.dropWhile_cons, isAlpha]
  simp [matchVerb, h1, h2, hsp, verbOfLower_lowerChars]

theorem lastParen_render (content tail : List Char) (ht : ∀ c ∈ tail, isWord c = false ∧ c ≠ ')') :
    lastParen (content ++ [')'] ++ tail) = some content := by
  have h1 : (content ++ [')'] ++ tail).reverse = tail.reverse ++ (')' :: content.reverse) := by simp
  have h2 : ∀ c ∈ tail.reverse, (fun c => !isWord c && c != ')') c = true := by
    intro c hc
    have := ht c (List.mem_reverse.1 hc)
    simp [this.1, this.2]
  simp only [lastParen, h1, List.dropWhile_append_of_pos h2]
  simp [List.dropWhile_cons, isWord]

theorem isAlpha_isWord (c : Char) (h : isAlpha c = true) : isWord c = true := by
  simp only [isAlpha, Bool.or_eq_true, Bool.and_eq_true, decide_eq_true_eq] at h
  simp only [isWord, Bool.or_eq_true, Bool.and_eq_true, decide_eq_true_eq, beq_iff_eq]
  rcases h with h | h
  · exact Or.inl (Or.inl (Or.inl h))
  · exact Or.inl (Or.inl (Or.inr h))

theorem takeWhile_line (l r : List Char) (h : ∀ c ∈ l, c ≠ '\n') :
    (l ++ '\n' :: r).takeWhile (· != '\n') = l := by
  rw [List.takeWhile_append_of_pos (fun c hc => by simpa using h c hc)]
  simp [List.takeWhile_cons]

/-- the request pattern at the start of a rendered directive line (any further text after the line) -/
theorem matchReqAt_render (v : Verb) (vt content tail rest : List Char)
    (hsp : vt.map lowerC = v.lowerChars) (hal : ∀ c ∈ vt, isAlpha c = true)
    (ht : ∀ c ∈ tail, isWord c = false ∧ c ≠ ')') (hnl : ∀ c ∈ content ++ [')'] ++ tail, c ≠ '\n') :
    matchReqAt (shootColon ++ [' '] ++ vt ++ ['('] ++ content ++ [')'] ++ tail ++ '\n' :: rest) = some (v, content) := by
  have hne : vt ≠ [] := by
    intro e; subst e
    cases v <;> simp [Verb.lowerChars] at hsp
  obtain ⟨a, as, rfl⟩ := List.exists_cons_of_ne_nil hne
  have ha : isWord a = true := isAlpha_isWord a (hal a (by simp))
  have e0 : shootColon ++ [' '] ++ (a :: as) ++ ['('] ++ content ++ [')'] ++ tail ++ '\n' :: rest
      = shootColon ++ (' ' :: ((a :: as) ++ '(' :: ((content ++ [')'] ++ tail) ++ '\n' :: rest))) := by simp
  rw [e0]
  have e1 : stripPrefixCI shootColon (shootColon ++ (' ' :: ((a :: as) ++ '(' :: ((content ++ [')'] ++ tail) ++ '\n' :: rest))))
      = some (' ' :: ((a :: as) ++ '(' :: ((content ++ [')'] ++ tail) ++ '\n' :: rest))) :=
    stripPrefixCI_append shootColon shootColon _ (by decide)
  simp only [matchReqAt, e1]
  have hsp' : isWord ' ' = false := by decide
  have e2 : (' ' :: ((a :: as) ++ '(' :: ((content ++ [')'] ++ tail) ++ '\n' :: rest))).takeWhile (fun c => !isWord c) = [' '] := by
    simp [List.takeWhile_cons, hsp', ha]
  have e3 : (' ' :: ((a :: as) ++ '(' :: ((content ++ [')'] ++ tail) ++ '\n' :: rest))).dropWhile (fun c => !isWord c)
      = (a :: as) ++ '(' :: ((content ++ [')'] ++ tail) ++ '\n' :: rest) := by
    simp [List.dropWhile_cons, hsp', ha]
  rw [e2, e3, matchVerb_render v (a :: as) _ hsp hal]
  simp only [List.isEmpty_cons, Bool.false_eq_true, ↓reduceIte, takeWhile_line _ rest hnl,
    lastParen_render content tail ht, Option.map_some]

theorem firstAtLineStart_here {α : Type} (f : List Char → Option α) (doc : List Char) (x : α)
    (h : f doc = some x) : firstAtLineStart f true doc = some x := by
  cases doc with
  | nil => simp [firstAtLineStart, h]
  | cons c cs => simp [firstAtLineStart, h]

/-! ### the path checks -/

def noQuote (p : List Char) : Prop := ∀ c ∈ p, c ≠ '"'

theorem contains_false_of (p : List Char) (x : Char) (h : ∀ c ∈ p, c ≠ x) : p.contains x = false := by
  cases hc : p.contains x with
  | false => rfl
  | true =>
    have : x ∈ p := by simpa using hc
    exact absurd rfl (h x this)

theorem trimQuotes_plain (p : List Char) (h : noQuote p) : trimQuotes p = p := by
  have h1 : p.dropWhile (· == '"') = p := dropWhile_eq_self p (fun c hc => by simpa using h c hc)
  have h2 : p.reverse.dropWhile (· == '"') = p.reverse :=
    dropWhile_eq_self p.reverse (fun c hc => by simpa using h c (List.mem_reverse.1 hc))
  simp [trimQuotes, h1, h2]

theorem trimQuotes_quoted (p : List Char) (hne : p ≠ []) (h : noQuote p) :
    trimQuotes ('"' :: (p ++ ['"'])) = p := by
  obtain ⟨c, cs, rfl⟩ := List.exists_cons_of_ne_nil hne
  have hc : (c == '"') = false := by simpa using h c (by simp)
  have h1 : ('"' :: ((c :: cs) ++ ['"'])).dropWhile (· == '"') = (c :: cs) ++ ['"'] := by
    simp [List.dropWhile_cons, hc]
  have h3 : (c :: cs).reverse.dropWhile (· == '"') = (c :: cs).reverse :=
    dropWhile_eq_self _ (fun x hx => by simpa using h x (List.mem_reverse.1 hx))
  have h2 : ((c :: cs) ++ ['"']).reverse.dropWhile (· == '"') = (c :: cs).reverse := by
    have : ((c :: cs) ++ ['"']).reverse = '"' :: (c :: cs).reverse := by simp
    rw [this, List.dropWhile_cons]
    simp only [beq_self_eq_true, ↓reduceIte]
    exact h3
  unfold trimQuotes
  rw [h1, h2, List.reverse_reverse]

theorem trimSpace_quoted (p : List Char) : trimSpace ('"' :: (p ++ ['"'])) = '"' :: (p ++ ['"']) := by
  have h1 : ('"' :: (p ++ ['"'])).dropWhile isSpace = '"' :: (p ++ ['"']) := by
    simp [List.dropWhile_cons, isSpace]
  have h2 : ('"' :: (p ++ ['"'])).reverse.dropWhile isSpace = ('"' :: (p ++ ['"'])).reverse := by
    simp [List.dropWhile_cons, isSpace]
  simp only [trimSpace, h1, h2, List.reverse_reverse]

theorem pathFormatOk_quoted (p : List Char) (hne : p ≠ []) (h : noQuote p) :
    pathFormatOk ('"' :: (p ++ ['"'])) = true := by
  have : (p ++ ['"']).reverse = '"' :: p.reverse := by simp
  simp only [pathFormatOk, this]
  have h1 : p.reverse.contains '"' = false :=
    contains_false_of p.reverse '"' (fun c hc => h c (List.mem_reverse.1 hc))
  cases p with
  | nil => exact absurd rfl hne
  | cons c cs => simp only [h1]; simp

theorem pathFormatOk_plain (p : List Char) (hne : p ≠ []) (h : noQuote p) : pathFormatOk p = true := by
  cases p with
  | nil => exact absurd rfl hne
  | cons c cs =>
    have hc : c ≠ '"' := h c (by simp)
    have h1 : (c :: cs).contains '"' = false := contains_false_of _ '"' h
    unfold pathFormatOk
    split
    · rename_i heq; cases heq
    · rename_i rest heq
      cases heq
      exact absurd rfl hc
    · rw [h1]; rfl

end ShootVerif.Rest
