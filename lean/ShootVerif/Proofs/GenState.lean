import ShootVerif.Spec.GenState
/-! helper lemmas for Props/C08.lean and Props/C07.lean (driver part) -/
namespace ShootVerif.GenState
open ShootVerif

/-! ### `new`: the step reads the state only through the leaking fields -/

theorem newStep_congr (lk : Leaks) (fl : NFlags) (files : Disk) (st st' : NSt) (t : NType)
    (h1 : (lk.hasNew && st.hasNew) = (lk.hasNew && st'.hasNew))
    (h2 : (if lk.newAcc then st.accs else []) = (if lk.newAcc then st'.accs else [])) :
    newStep lk fl files st t = newStep lk fl files st' t := by
  simp only [newStep, newCore, h1, h2]

theorem newStep_noLeaks (fl : NFlags) (files : Disk) (st : NSt) (t : NType) :
    newStep noLeaks fl files st t = newStep noLeaks fl files {} t :=
  newStep_congr _ _ _ _ _ _ (by simp [noLeaks]) (by simp [noLeaks])

/-! (the lemmas about when the state carried by the code BEFORE fix 2659527 was irrelevant for a type were removed
    together with the partial theorems they served; they depended on the internals of the C02 constructor model) -/

/-! ### `new`: generated files are read only through the look-ups of the embedded types (C07) -/

theorem filterMap_congr' {α β : Type} {f g : α → Option β} {l : List α} (h : ∀ x ∈ l, f x = g x) :
    l.filterMap f = l.filterMap g := by
  induction l with
  | nil => rfl
  | cons a l ih =>
    rw [List.filterMap_cons, List.filterMap_cons, h a (List.mem_cons_self ..), ih (fun x hx => h x (List.mem_cons_of_mem _ hx))]

theorem flatMap_congr' {α β : Type} {f g : α → List β} {l : List α} (h : ∀ x ∈ l, f x = g x) :
    l.flatMap f = l.flatMap g := by
  induction l with
  | nil => rfl
  | cons a l ih =>
    rw [List.flatMap_cons, List.flatMap_cons, h a (List.mem_cons_self ..), ih (fun x hx => h x (List.mem_cons_of_mem _ hx))]

theorem embedIfaces_congr (on : Bool) (f₁ f₂ : Disk) (sfx : String) (xs : List String)
    (h : ∀ e ∈ xs, lookupIface f₁ (e ++ sfx) = lookupIface f₂ (e ++ sfx)) :
    embedIfaces on f₁ sfx xs = embedIfaces on f₂ sfx xs := by
  unfold embedIfaces
  cases on with
  | false => rw [if_neg (by decide), if_neg (by decide)]
  | true =>
    rw [if_pos rfl, if_pos rfl]
    exact filterMap_congr' (fun e he => by rw [h e he])

theorem embedAccs_congr (sw : Bool × Bool) (f₁ f₂ : Disk) (xs : List String)
    (h : ∀ e ∈ xs, lookupIface f₁ (e ++ "Getter") = lookupIface f₂ (e ++ "Getter") ∧
      lookupIface f₁ (e ++ "Setter") = lookupIface f₂ (e ++ "Setter")) :
    embedAccs sw f₁ xs = embedAccs sw f₂ xs := by
  unfold embedAccs
  exact flatMap_congr' (fun e he => by rw [(h e he).1, (h e he).2])

theorem newStep_files_congr (lk : Leaks) (fl : NFlags) (f₁ f₂ : Disk) (st : NSt) (t : NType)
    (h : ∀ e ∈ embedsOf t,
      lookupIface f₁ (e ++ "Getter") = lookupIface f₂ (e ++ "Getter") ∧
      lookupIface f₁ (e ++ "Setter") = lookupIface f₂ (e ++ "Setter")) :
    newStep lk fl f₁ st t = newStep lk fl f₂ st t := by
  unfold newStep
  rw [embedIfaces_congr _ f₁ f₂ "Getter" _ (fun e he => (h e he).1),
      embedIfaces_congr _ f₁ f₂ "Setter" _ (fun e he => (h e he).2),
      embedAccs_congr _ f₁ f₂ _ h]

theorem onceAux_sublist : ∀ (l : List Ctor.Field) (seen : List String), (onceAux l seen).Sublist l := by
  intro l
  induction l with
  | nil => intro _; simp [onceAux]
  | cons a l ih =>
    intro seen
    simp only [onceAux]
    split
    · exact (ih seen).cons a
    · exact (ih _).cons₂ a

theorem embedsOf_nil (t : NType) (h : (Ctor.flatten t.tree).all (fun f => !f.isEmbeded) = true) : embedsOf t = [] := by
  simp only [embedsOf, List.map_eq_nil_iff, List.filter_eq_nil_iff]
  intro f hf
  have hsub := (onceAux_sublist ((Ctor.flatten t.tree).filter (fun f => !f.isShadowed)) []).trans List.filter_sublist
  have := List.all_eq_true.mp h f (hsub.subset hf)
  simpa using this

/-- machines whose step ignores the directory give the same run over any two directories -/
theorem generate_disk_irrelevant {σ τ ω : Type} (m : Machine σ τ ω) (hm : ∀ f f' s t, m.step f s t = m.step f' s t)
    (d₁ d₂ : Disk) (ts : List τ) : generate m d₁ ts = generate m d₂ ts := by
  have key : ∀ (ts : List τ) (ls : LoopSt σ τ ω), loop m d₁ ls ts = loop m d₂ ls ts := by
    intro ts
    induction ts with
    | nil => intro ls; rfl
    | cons t ts ih =>
      intro ls
      have hi : ∀ last, iter m d₁ ls t last = iter m d₂ ls t last := by
        intro last
        simp only [iter, hm (effective d₁ ls.overlay) (effective d₂ ls.overlay)]
      cases ts with
      | nil => simp only [loop, hi]
      | cons t' ts' => simp only [loop, hi]; exact ih _
  simp only [generate, key]

/-! ### `map` -/

theorem pick_irrelevant {α : Type} (own : Bool) (fresh : List α) (leak : Bool) (carried : List α)
    (h : (!own && !carried.isEmpty) = false) : pick own fresh leak carried = pick own fresh leak [] := by
  cases own with
  | true => simp [pick]
  | false =>
    have : carried = [] := by simpa using h
    simp [this]

/-- the tag map of a type is its own when `srcTagMap` is re-made for every type -/
theorem tagsIn_of_false (lk : Leaks) (h : lk.mapTag = false) (st : MSt) (t : MType) : tagsIn lk st t = tagTable t.tags := by
  simp [tagsIn, h]

theorem mapStep_noLeaks (files : Disk) (st : MSt) (t : MType) :
    (mapStep noLeaks files st t).2 = (mapStep noLeaks files {} t).2 := by
  simp only [mapStep, noLeaks]
  cases t.dest <;> simp [pick, tagsIn]

theorem mapStep_irrelevant (files : Disk) (st : MSt) (t : MType)
    (h1 : mapCtorRelevant st t = false) (h2 : mapAccRelevant st t = false) :
    (mapStep codeBeforeFix files st t).2 = (mapStep codeBeforeFix files {} t).2 := by
  simp only [mapStep, mapCtorRelevant, mapAccRelevant] at *
  cases hd : t.dest with
  | none => simp
  | some d =>
    rw [hd] at h1 h2
    simp only [Bool.or_eq_false_iff] at h1 h2
    simp only [pick_irrelevant _ _ _ _ h1.1, pick_irrelevant _ _ _ _ h1.2, pick_irrelevant _ _ _ _ h2.1,
      pick_irrelevant _ _ _ _ h2.2, tagsIn_of_false codeBeforeFix rfl]

/-! ### the driver loop -/

section loop
variable {σ τ ω : Type} (m : Machine σ τ ω)

/-- state independence of a machine: the output of a step does not depend on the incoming state -/
def StateIndep : Prop := ∀ files s t, (m.step files s t).2 = (m.step files m.init t).2

theorem effective_putOverlay (disk ov : Disk) (f : GFile) :
    effective disk (putOverlay ov f) = writeFile (effective disk ov) f := by
  simp only [effective, putOverlay, writeFile, List.cons_append, List.filter_append, List.filter_filter]
  congr 2
  apply List.filter_congr
  intro g _
  by_cases hg : g.name = f.name
  · simp [hg]
  · have hg' : ¬ f.name = g.name := fun e => hg e.symm
    simp only [List.any_cons, hg', decide_false, Bool.false_or, ne_eq, hg, not_false_eq_true, decide_true,
      Bool.and_true]
    congr 1
    rw [Bool.eq_iff_iff]
    simp only [List.any_eq_true, List.mem_filter, decide_eq_true_eq, decide_not, Bool.not_eq_eq_eq_not,
      Bool.not_true, decide_eq_false_iff_not]
    constructor
    · rintro ⟨o, ⟨ho, _⟩, e⟩; exact ⟨o, ho, e⟩
    · rintro ⟨o, ho, e⟩; exact ⟨o, ⟨ho, fun e' => hg (e ▸ e')⟩, e⟩

theorem effective_nil (disk : Disk) : effective disk [] = disk := by
  simp [effective]

/-- the outputs along ONE run do not depend on the state carried into each step (weaker than `StateIndep`:
    only the states this run actually goes through) -/
def RunIndep (disk : Disk) : LoopSt σ τ ω → List τ → Prop
  | _, [] => True
  | ls, [t] => (m.step (effective disk ls.overlay) ls.st t).2 = (m.step (effective disk ls.overlay) m.init t).2
  | ls, t :: t' :: ts =>
    (m.step (effective disk ls.overlay) ls.st t).2 = (m.step (effective disk ls.overlay) m.init t).2
      ∧ RunIndep disk (iter m disk ls t false) (t' :: ts)

theorem RunIndep.head {disk : Disk} {ls : LoopSt σ τ ω} {t : τ} {ts : List τ} (h : RunIndep m disk ls (t :: ts)) :
    (m.step (effective disk ls.overlay) ls.st t).2 = (m.step (effective disk ls.overlay) m.init t).2 := by
  cases ts with
  | nil => exact h
  | cons _ _ => exact h.1

theorem runIndep_of_stateIndep (hind : StateIndep m) (disk : Disk) :
    ∀ (ts : List τ) (ls : LoopSt σ τ ω), RunIndep m disk ls ts := by
  intro ts
  induction ts with
  | nil => intro ls; trivial
  | cons t ts ih =>
    intro ls
    cases ts with
    | nil => exact hind _ _ _
    | cons t' ts' => exact ⟨hind _ _ _, ih _⟩

/-- combined run = separate processes, when every output is fed back through the overlay -/
theorem loop_eq_oneAtATime (hst : ∀ o, m.stale o = true) (disk : Disk) :
    ∀ (ts : List τ) (ls : LoopSt σ τ ω), RunIndep m disk ls ts →
      (loop m disk ls ts).outs = ls.outs ++ oneAtATime m (effective disk ls.overlay) ts := by
  intro ts
  induction ts with
  | nil => intro ls _; simp [loop, oneAtATime]
  | cons t ts ih =>
    intro ls hrun
    have hstep := RunIndep.head m hrun
    cases ts with
    | nil =>
      simp only [loop, iter, oneAtATime, solo]
      rw [← hstep]
      cases h : m.step (effective disk ls.overlay) ls.st t with
      | mk s' o =>
        cases o with
        | none => simp
        | some o => simp
    | cons t' ts' =>
      simp only [loop]
      rw [ih _ hrun.2]
      simp only [iter, oneAtATime, solo]
      rw [← hstep]
      cases h : m.step (effective disk ls.overlay) ls.st t with
      | mk s' o =>
        cases o with
        | none => simp
        | some o =>
          simp only [hst o, Bool.not_false, Bool.and_self, ↓reduceIte, effective_putOverlay,
            List.append_assoc, List.singleton_append]

/-- combined run = every type on its own against the original disk, when nothing is fed back -/
theorem loop_eq_solo (hst : ∀ o, m.stale o = false) (disk : Disk) :
    ∀ (ts : List τ) (ls : LoopSt σ τ ω), ls.overlay = [] → RunIndep m disk ls ts →
      (loop m disk ls ts).outs = ls.outs ++ ts.filterMap (fun t => (solo m disk t).map (fun o => (t, o))) := by
  intro ts
  induction ts with
  | nil => intro ls _ _; simp [loop]
  | cons t ts ih =>
    intro ls hov hrun
    have hstep := RunIndep.head m hrun
    rw [hov, effective_nil] at hstep
    cases ts with
    | nil =>
      simp only [loop, iter, solo, hov, effective_nil, List.filterMap_cons, List.filterMap_nil]
      rw [← hstep]
      cases h : m.step disk ls.st t with
      | mk s' o =>
        cases o with
        | none => simp
        | some o => simp
    | cons t' ts' =>
      simp only [loop]
      have hov' : (iter m disk ls t false).overlay = [] := by
        simp only [iter, hov, effective_nil]
        cases h : m.step disk ls.st t with
        | mk s' o =>
          cases o with
          | none => simp [hov]
          | some o => simp [hst o]
      rw [ih _ hov' hrun.2]
      simp only [iter, solo, hov, effective_nil, List.filterMap_cons (a := t)]
      rw [← hstep]
      cases h : m.step disk ls.st t with
      | mk s' o =>
        cases o with
        | none => simp
        | some o => simp

end loop

/-! ### today's code: a decidable sufficient condition for `RunIndep` -/

def mapRunOK (disk : Disk) : LoopSt MSt MType MOut → List MType → Bool
  | _, [] => true
  | ls, [t] => !mapCtorRelevant ls.st t && !mapAccRelevant ls.st t
  | ls, t :: t' :: ts =>
    (!mapCtorRelevant ls.st t && !mapAccRelevant ls.st t)
      && mapRunOK disk (iter (mapMachine codeBeforeFix) disk ls t false) (t' :: ts)

theorem mapRunOK_sound (disk : Disk) :
    ∀ (ts : List MType) (ls : LoopSt MSt MType MOut), mapRunOK disk ls ts = true →
      RunIndep (mapMachine codeBeforeFix) disk ls ts := by
  intro ts
  induction ts with
  | nil => intro ls _; trivial
  | cons t ts ih =>
    intro ls h
    cases ts with
    | nil =>
      simp only [mapRunOK, Bool.and_eq_true, Bool.not_eq_eq_eq_not, Bool.not_true] at h
      exact mapStep_irrelevant (effective disk ls.overlay) ls.st t h.1 h.2
    | cons t' ts' =>
      simp only [mapRunOK, Bool.and_eq_true, Bool.not_eq_eq_eq_not, Bool.not_true] at h
      exact ⟨mapStep_irrelevant (effective disk ls.overlay) ls.st t h.1.1 h.1.2, ih _ h.2⟩

/-! ### `map`: when would a tag map that is kept from type to type show? -/

/-- the key under which `canNameMatch` looks a source member up in the tag map -/
def tagKey (f : MField) : String := Transfer.pascalS f.matching

def paramField (p : CParam) : MField := { name := p.name, backing := p.backing }

theorem canNameMatch_congr (tg tg' : List (String × String)) (f1 f2 : MField)
    (h : tg.lookup (tagKey f1) = tg'.lookup (tagKey f1)) : canNameMatch tg f1 f2 = canNameMatch tg' f1 f2 := by
  simp only [canNameMatch, tagKey] at *
  rw [h]

theorem ctorInner_congr_false (tg tg' : List (String × String)) (f : MField)
    (h : tg.lookup (tagKey f) = tg'.lookup (tagKey f)) :
    ∀ (ps : List CParam) (w : List String), ctorInner tg false f ps w = ctorInner tg' false f ps w := by
  intro ps
  induction ps with
  | nil => intro w; rfl
  | cons p ps ih =>
    intro w
    simp only [ctorInner, ctorNameMatch, Bool.false_eq_true, ↓reduceIte, canNameMatch_congr tg tg' f _ h, ih]

theorem ctorMatch_congr_false (tg tg' : List (String × String)) :
    ∀ (fs : List MField), (∀ f ∈ fs, tg.lookup (tagKey f) = tg'.lookup (tagKey f)) →
      ∀ (ps : List CParam) (w : List String), ctorMatch tg false fs ps w = ctorMatch tg' false fs ps w := by
  intro fs
  induction fs with
  | nil => intro _ ps w; rfl
  | cons f fs ih =>
    intro h ps w
    simp only [ctorMatch, ctorInner_congr_false tg tg' f (h f (List.mem_cons_self ..))]
    exact ih (fun g hg => h g (List.mem_cons_of_mem _ hg)) _ _

/-- `makeCtorMatch` only fills in targets: names and backing fields of the parameters stay -/
theorem ctorInner_fields (tg : List (String × String)) (b : Bool) (f : MField) :
    ∀ (ps : List CParam) (w : List String), (ctorInner tg b f ps w).1.map paramField = ps.map paramField := by
  intro ps
  induction ps with
  | nil => intro w; rfl
  | cons p ps ih =>
    intro w
    simp only [ctorInner]
    split
    · simp only [List.map_cons, ih, paramField]
    · simp only [List.map_cons, ih]

theorem ctorInner_congr_true (tg tg' : List (String × String)) (f : MField) :
    ∀ (ps : List CParam), (∀ p ∈ ps, tg.lookup (tagKey (paramField p)) = tg'.lookup (tagKey (paramField p))) →
      ∀ (w : List String), ctorInner tg true f ps w = ctorInner tg' true f ps w := by
  intro ps
  induction ps with
  | nil => intro _ w; rfl
  | cons p ps ih =>
    intro h w
    have hp := h p (List.mem_cons_self ..)
    have ih' := ih (fun q hq => h q (List.mem_cons_of_mem _ hq))
    have hc : canNameMatch tg { name := p.name, backing := p.backing } f = canNameMatch tg' { name := p.name, backing := p.backing } f :=
      canNameMatch_congr tg tg' (paramField p) f hp
    simp only [ctorInner, ctorNameMatch, ↓reduceIte, hc, ih']

theorem ctorMatch_congr_true (tg tg' : List (String × String)) :
    ∀ (fs : List MField) (ps : List CParam),
      (∀ p ∈ ps, tg.lookup (tagKey (paramField p)) = tg'.lookup (tagKey (paramField p))) →
      ∀ (w : List String), ctorMatch tg true fs ps w = ctorMatch tg' true fs ps w := by
  intro fs
  induction fs with
  | nil => intro ps _ w; rfl
  | cons f fs ih =>
    intro ps h w
    simp only [ctorMatch, ctorInner_congr_true tg tg' f ps h]
    apply ih
    intro p hp
    have hm : paramField p ∈ (ctorInner tg' true f ps w).1.map paramField := List.mem_map_of_mem hp
    rw [ctorInner_fields] at hm
    obtain ⟨q, hq, hqp⟩ := List.mem_map.mp hm
    rw [← hqp]
    exact h q hq

theorem foldl_congr_mem {α β : Type} (g g' : β → α → β) :
    ∀ (l : List α) (s : β), (∀ s x, x ∈ l → g s x = g' s x) → l.foldl g s = l.foldl g' s := by
  intro l
  induction l with
  | nil => intro s _; rfl
  | cons x l ih =>
    intro s h
    simp only [List.foldl_cons, h s x (List.mem_cons_self ..)]
    exact ih _ (fun s y hy => h s y (List.mem_cons_of_mem _ hy))

theorem typeMatch_congr (tg tg' : List (String × String)) (srcL destL : List MField) (s : TM)
    (h : ∀ f ∈ srcL, tg.lookup (tagKey f) = tg'.lookup (tagKey f)) :
    typeMatch tg srcL destL s = typeMatch tg' srcL destL s := by
  simp only [typeMatch]
  apply foldl_congr_mem
  intro s f1 hf1
  apply foldl_congr_mem
  intro s f2 _
  have hm : f1.1 ∈ srcL := List.fst_mem_of_mem_zipIdx (x := f1) hf1
  simp only [tmPair, canNameMatch_congr tg tg' f1.1 f2.1 (h f1.1 hm)]


/-- the source members as `makeCompatible` lists them: exported fields, then accessor pseudo-fields -/
def srcList (t : MType) (srcAcc : List Acc) : List MField :=
  t.src.fields.map (fun n => ({ name := n } : MField)) ++ srcAcc.map pseudo

theorem mapCore_tags_congr (t : MType) (dest : MSide) (tg tg' : List (String × String)) (srcCtor destCtor : List CParam)
    (srcAcc destAcc : List Acc)
    (h1 : ∀ f ∈ srcList t srcAcc, tg.lookup (tagKey f) = tg'.lookup (tagKey f))
    (h2 : ∀ p ∈ srcCtor, tg.lookup (tagKey (paramField p)) = tg'.lookup (tagKey (paramField p))) :
    (mapCore t dest tg srcCtor destCtor srcAcc destAcc).2 = (mapCore t dest tg' srcCtor destCtor srcAcc destAcc).2 := by
  simp only [srcList] at h1
  simp only [mapCore]
  rw [ctorMatch_congr_false tg tg' _ h1, ctorMatch_congr_true tg tg' _ _ h2, typeMatch_congr tg tg' _ _ _ h1]

theorem lookup_append_or {β : Type} (l₁ l₂ : List (String × β)) (k : String) :
    (l₁ ++ l₂).lookup k = (l₁.lookup k).orElse (fun _ => l₂.lookup k) := by
  induction l₁ with
  | nil => rfl
  | cons p l ih =>
    obtain ⟨a, b⟩ := p
    simp only [List.cons_append, List.lookup_cons]
    cases k == a <;> simp [ih]

/-- the keys under which the source members of a type (fields, accessor pseudo-fields, constructor parameters) are looked up -/
def srcTagKeys (t : MType) : List String :=
  (srcList t (pick t.src.shootNew (mkAccs t.src) false [])).map tagKey
    ++ (pick t.src.shootNew (mkParams t.src) false []).map (fun p => tagKey (paramField p))

/-- a tag map that were kept from type to type (`mapTag`) shows in the output of a type ONLY through a key that one of the type's
    own source members is looked up under and that the type does not tag itself -/
theorem mapStep_tag_irrelevant (lk : Leaks) (hc : lk.mapCtor = false) (ha : lk.mapAcc = false) (files : Disk) (st : MSt) (t : MType)
    (h : ∀ k ∈ srcTagKeys t, (tagTable t.tags).lookup k = none → st.tagMap.lookup k = none) :
    (mapStep lk files st t).2 = (mapStep lk files {} t).2 := by
  simp only [mapStep]
  cases hd : t.dest with
  | none => rfl
  | some d =>
    simp only [hc, ha]
    have hpick : ∀ {α : Type} (own : Bool) (fresh carried : List α), pick own fresh false carried = pick own fresh false [] := by
      intro α own fresh carried; cases own <;> simp [pick]
    rw [hpick _ _ st.srcCtor, hpick _ _ st.destCtor, hpick _ _ st.srcAcc, hpick _ _ st.destAcc]
    have hl : ∀ k ∈ srcTagKeys t, (tagsIn lk st t).lookup k = (tagsIn lk {} t).lookup k := by
      intro k hk
      simp only [tagsIn]
      cases lk.mapTag with
      | false => rfl
      | true =>
        simp only [↓reduceIte, lookup_append_or]
        cases hk' : (tagTable t.tags).lookup k with
        | some v => rfl
        | none => simp [h k hk hk']
    apply mapCore_tags_congr
    · intro f hf
      exact hl _ (List.mem_append_left _ (List.mem_map_of_mem hf))
    · intro p hp
      exact hl _ (List.mem_append_right _ (List.mem_map_of_mem (f := fun p => tagKey (paramField p)) hp))

end ShootVerif.GenState
