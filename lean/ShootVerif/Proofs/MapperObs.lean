import ShootVerif.Proofs.MapperLeaves
/-
The observation lists the driver prints, against the specification lists, as theorems: C09's `obs09 = spec09` for all mask
lists, the partially-nil keys of C05 / C15 on plain sides, C05 with the per-leaf write counts (`obs15 = spec15` on plain
sides: every leaf with a candidate is written exactly once, every other leaf never), and the round trip at the leaves
(every line of `specRT` is a line of `obsRT`).
-/
namespace ShootVerif.Mapper
open ShootVerif.Transfer

theorem flatMap_congr' {α β} {f g : α → List β} {l : List α} (h : ∀ a ∈ l, f a = g a) : l.flatMap f = l.flatMap g := by
  induction l with
  | nil => rfl
  | cons a l ih =>
    simp only [List.flatMap_cons, h a List.mem_cons_self]
    rw [ih (fun b hb => h b (List.mem_cons_of_mem _ hb))]

theorem showReset_same (c : String) : showReset c c c = "same" := by simp [showReset]

/-- C09 in `obs = spec` form: under WF09 (and a compiling output) the model's observation list — nil receiver / argument,
    every nil mask of the reading side, the three receiver states of FromX — equals the specification's, for ALL mask lists
    and slot lists (not only the enumerated ones) -/
theorem obs09_eq_spec09 (inp : Input) (h : WF09 inp = true) (hc : modelCompiles inp = true)
    (srcSlots destSlots masks fmasks : List String) :
    obs09 inp srcSlots destSlots masks fmasks = spec09 inp srcSlots destSlots masks fmasks := by
  have hto : ∀ N, execToP inp (plan inp) (tables inp (plan inp)) N = .value (idealTo inp (plan inp) (tables inp (plan inp)) N) :=
    fun N => (no_panic inp h N).1
  have hfrom : ∀ N r, execFromP inp (plan inp) (tables inp (plan inp)) N r = .value (idealFrom inp (plan inp) (tables inp (plan inp)) N) :=
    fun N r => (no_panic inp h N).2 r
  unfold obs09 spec09
  simp only [hc, Bool.not_true, Bool.false_eq_true, ↓reduceIte]
  congr 1
  congr 1
  · split
    · congr 1
      apply List.map_congr_left
      intro m _
      rw [hto]
    · rfl
  · split
    · congr 1
      apply flatMap_congr'
      intro m _
      rw [hfrom _ .clean, hfrom _ .dirty, hfrom _ .nil, showReset_same]
    · rfl

/-- the partially-nil observations of C05 / C15 on plain sides: the same statement for the `toN:` / `fromN:` keys -/
theorem obsPart_eq_specPart (inp : Input) (h : WF09 inp = true) (hc : modelCompiles inp = true)
    (srcSlots destSlots masks fmasks : List String) :
    obsPart inp srcSlots destSlots masks fmasks = specPart inp srcSlots destSlots masks fmasks := by
  unfold obsPart specPart
  simp only [hc, Bool.not_true, Bool.false_eq_true, ↓reduceIte]
  congr 1
  · split
    · apply List.map_congr_left
      intro m _
      have := (no_panic inp h (nilsOf m srcSlots)).1
      unfold execTo at this
      rw [this]
    · rfl
  · split
    · apply List.map_congr_left
      intro m _
      have := (no_panic inp h (nilsOf m destSlots)).2 .clean
      unfold execFrom at this
      rw [this]
    · rfl


/-! ## write counts: every written leaf is written exactly once, every other leaf never -/

theorem length_le_one_of_nodup_const {α β} [DecidableEq β] (f : α → β) (k : β) (l : List α)
    (hN : (l.map f).Nodup) (hk : ∀ x ∈ l, f x = k) : l.length ≤ 1 := by
  match l with
  | [] => simp
  | [_] => simp
  | a :: b :: r =>
    exfalso
    simp only [List.map_cons, List.nodup_cons, List.mem_cons, not_or] at hN
    exact hN.1.1 ((hk a (by simp)).trans (hk b (by simp)).symm)

/-- the spec's candidate list of a destination leaf: empty when no statement of ToX writes the leaf's field, a singleton when
    one does -/
theorem to_cands (inp : Input) (H : PlainOk inp) (d : Leaf) (hd : d ∈ leavesOf inp.dest) :
    ((∀ c ∈ (plan inp).toStmts, c.wr ≠ fieldOf d) → candsTo inp d = []) ∧
    (∀ c ∈ (plan inp).toStmts, c.wr = fieldOf d →
      ∃ rl ∈ leavesOf inp.src, c.rd = fieldOf rl ∧ candsTo inp d = [(rl, c.strat)]) := by
  have hsh := H.shadow
  rw [F_skipShadow_eq, Bool.or_eq_false_iff] at hsh
  have hsf : (plan inp).srcFields = sideFields inp.src false := by simp [plan, H.hs]
  have hdf : (plan inp).destFields = sideFields inp.dest false := by simp [plan, H.hd]
  have hpairs := fun c => (plan_pairs inp H.hs H.hd H.uniq c).1
  obtain ⟨_, _, hinv⟩ := plan_inv inp
  have hfsN : (plan inp).srcFields.Nodup := by rw [hsf]; exact nodup_of_map_nodup _ _ (sideFields_plain_nodup _)
  have hN := stmts_nodup _ _ hfsN hinv.toNodup
  rw [candsTo_eq inp H d hd]
  constructor
  · intro hno
    split
    · rename_i hcond
      simp only [Bool.and_eq_true, Bool.not_eq_true'] at hcond
      apply filterMap_nil'
      intro s hs
      unfold gTo
      by_cases hc2 : (partLeaf inp.src s && inp.nm (fieldOf s) (fieldOf d)) = true
      · simp only [hc2, ↓reduceIte]
        cases hps : pairStrat inp.conv (indexed inp.fns) .src .dest s.decl.ty d.decl.ty with
        | none => rfl
        | some st =>
          exfalso
          simp only [Bool.and_eq_true] at hc2
          have hsf' := leaf_is_field inp.src H.sel1 hsh.1 s hs hc2.1
          have hdf' := leaf_is_field inp.dest H.sel2 hsh.2 d hd hcond.1
          have hmw : (fieldOf d).name ∉ inp.manualW := by
            have := hcond.2
            simpa [fieldOf] using this
          have hc' : (⟨fieldOf s, fieldOf d, st⟩ : Claim) ∈ (plan inp).toStmts :=
            (hpairs _).mpr ⟨hsf ▸ hsf', hdf ▸ hdf', hc2.2, rfl, hmw, hps⟩
          exact hno _ hc' rfl
      · simp [hc2]
    · rfl
  · intro c hc hcw
    have h5 := (hpairs c).mp hc
    obtain ⟨rl', hrl', hr1, _, hrp⟩ := field_is_leaf inp.src H.sel1 hsh.1 c.rd (hsf ▸ h5.1)
    obtain ⟨wl, hwl, hw1, _, hwp⟩ := field_is_leaf inp.dest H.sel2 hsh.2 c.wr (hdf ▸ h5.2.1)
    have hwd : wl = d := fieldOf_inj inp.dest H.keys2 wl d hwl hd (hw1.symm.trans hcw)
    subst hwd
    have hmw : inp.manualW.contains wl.decl.name = false := by
      have := h5.2.2.2.2.1
      rw [hcw] at this
      simpa [fieldOf] using this
    refine ⟨rl', hrl', hr1, ?_⟩
    rw [hwp, hmw]
    simp only [Bool.not_false, Bool.and_self, ↓reduceIte]
    apply filterMap_single _ (leaves_nodup _ H.keys1) _ rl' _ hrl'
    · unfold gTo
      have hnm : inp.nm (fieldOf rl') (fieldOf wl) = true := by rw [← hr1, ← hcw]; exact h5.2.2.1
      have hps := h5.2.2.2.2.2
      rw [hr1, hcw] at hps
      simp only [fieldOf] at hps
      simp [hrp, hnm, hps]
    · intro s hs hne
      unfold gTo
      by_cases hcond : (partLeaf inp.src s && inp.nm (fieldOf s) (fieldOf wl)) = true
      · simp only [hcond, ↓reduceIte]
        cases hps : pairStrat inp.conv (indexed inp.fns) .src .dest s.decl.ty wl.decl.ty with
        | none => rfl
        | some st =>
          exfalso
          simp only [Bool.and_eq_true] at hcond
          have hsf' := leaf_is_field inp.src H.sel1 hsh.1 s hs hcond.1
          have hc' : (⟨fieldOf s, fieldOf wl, st⟩ : Claim) ∈ (plan inp).toStmts :=
            (hpairs _).mpr ⟨hsf ▸ hsf', hcw ▸ h5.2.1, hcond.2, rfl, by rw [← hcw]; exact h5.2.2.2.2.1, hps⟩
          have hcc : (⟨fieldOf s, fieldOf wl, st⟩ : Claim) = c :=
            inj_of_map_nodup (fun x : Claim => x.wr.name) _ hN hc' hc (by simp [hcw])
          have : fieldOf s = fieldOf rl' := by rw [← hr1, ← hcc]
          exact hne (fieldOf_inj inp.src H.keys1 s rl' hs hrl' this)
      · simp [hcond]

/-- how often ToX writes a destination leaf: as often as a statement writes the leaf's field — never or once -/
theorem to_writes (inp : Input) (H : PlainOk inp) (d : Leaf) (hd : d ∈ leavesOf inp.dest) :
    ((∀ c ∈ (plan inp).toStmts, c.wr ≠ fieldOf d) → writesOf inp.dest (plan inp).destCtor (plan inp).toStmts d = 0) ∧
    ((∃ c ∈ (plan inp).toStmts, c.wr = fieldOf d) → writesOf inp.dest (plan inp).destCtor (plan inp).toStmts d = 1) := by
  have hsh := H.shadow
  rw [F_skipShadow_eq, Bool.or_eq_false_iff] at hsh
  have hsf : (plan inp).srcFields = sideFields inp.src false := by simp [plan, H.hs]
  have hdf : (plan inp).destFields = sideFields inp.dest false := by simp [plan, H.hd]
  have hpairs := fun c => (plan_pairs inp H.hs H.hd H.uniq c).1
  obtain ⟨_, _, hinv⟩ := plan_inv inp
  have hfsN : (plan inp).srcFields.Nodup := by rw [hsf]; exact nodup_of_map_nodup _ _ (sideFields_plain_nodup _)
  have hN := stmts_nodup _ _ hfsN hinv.toNodup
  have hctor : (plan inp).destCtor = none := (plan_plain_ctors inp H.hs H.hd).1
  have hfil : writesOf inp.dest none (plan inp).toStmts d =
      ((plan inp).toStmts.filter (fun c => c.wr == fieldOf d)).length := by
    unfold writesOf
    simp only [Nat.zero_add]
    congr 1
    apply List.filter_congr
    intro c hc
    have h5 := (hpairs c).mp hc
    obtain ⟨wl, hwl, hw1, hw2, _⟩ := field_is_leaf inp.dest H.sel2 hsh.2 c.wr (hdf ▸ h5.2.1)
    rw [hw2]
    simp only
    rw [hw1, Bool.eq_iff_iff]
    simp only [beq_iff_eq]
    constructor
    · intro hp
      rw [key_inj inp.dest H.keys2 wl d hwl hd (by rw [hp])]
    · intro he
      exact congrArg Field.path he
  rw [hctor, hfil]
  constructor
  · intro hno
    have : (plan inp).toStmts.filter (fun c => c.wr == fieldOf d) = [] := by
      rw [List.filter_eq_nil_iff]
      intro c hc
      simpa using hno c hc
    rw [this]; rfl
  · rintro ⟨c, hc, hcw⟩
    have hmem : c ∈ (plan inp).toStmts.filter (fun c => c.wr == fieldOf d) := by simp [hc, hcw]
    have hle := length_le_one_of_nodup_const (fun x : Claim => x.wr.name) (fieldOf d).name
      ((plan inp).toStmts.filter (fun c => c.wr == fieldOf d))
      ((List.filter_sublist.map _).nodup hN) (by
        intro x hx
        have := (List.mem_filter.mp hx).2
        simp only [beq_iff_eq] at this
        rw [this])
    have hpos : 0 < ((plan inp).toStmts.filter (fun c => c.wr == fieldOf d)).length := List.length_pos_of_mem hmem
    omega


theorem from_cands (inp : Input) (H : PlainOk inp) (s : Leaf) (hs : s ∈ leavesOf inp.src) :
    ((∀ c ∈ (plan inp).fromStmts, c.wr ≠ fieldOf s) → candsFrom inp s = []) ∧
    (∀ c ∈ (plan inp).fromStmts, c.wr = fieldOf s →
      ∃ rl ∈ leavesOf inp.dest, c.rd = fieldOf rl ∧ candsFrom inp s = [(rl, c.strat)]) := by
  have hsh := H.shadow
  rw [F_skipShadow_eq, Bool.or_eq_false_iff] at hsh
  have hsf : (plan inp).srcFields = sideFields inp.src false := by simp [plan, H.hs]
  have hdf : (plan inp).destFields = sideFields inp.dest false := by simp [plan, H.hd]
  have hpairs := fun c => (plan_pairs inp H.hs H.hd H.uniq c).2
  obtain ⟨_, _, hinv⟩ := plan_inv inp
  have hdsN : (plan inp).destFields.Nodup := by rw [hdf]; exact nodup_of_map_nodup _ _ (sideFields_plain_nodup _)
  have hN := stmts_nodup _ _ hdsN hinv.fromNodup
  rw [candsFrom_eq inp H s hs]
  constructor
  · intro hno
    split
    · rename_i hcond
      simp only [Bool.and_eq_true, Bool.not_eq_true'] at hcond
      apply filterMap_nil'
      intro d hd
      unfold gFrom
      by_cases hc2 : (partLeaf inp.dest d && inp.nm (fieldOf s) (fieldOf d)) = true
      · simp only [hc2, ↓reduceIte]
        cases hps : pairStrat inp.conv (indexed inp.fns) .dest .src d.decl.ty s.decl.ty with
        | none => rfl
        | some st =>
          exfalso
          simp only [Bool.and_eq_true] at hc2
          have hdf' := leaf_is_field inp.dest H.sel2 hsh.2 d hd hc2.1
          have hsf' := leaf_is_field inp.src H.sel1 hsh.1 s hs hcond.1
          have hmw : (fieldOf s).name ∉ inp.manualR := by
            have := hcond.2
            simpa [fieldOf] using this
          have hc' : (⟨fieldOf d, fieldOf s, st⟩ : Claim) ∈ (plan inp).fromStmts :=
            (hpairs _).mpr ⟨hsf ▸ hsf', hdf ▸ hdf', hc2.2, rfl, hmw, hps⟩
          exact hno _ hc' rfl
      · simp [hc2]
    · rfl
  · intro c hc hcw
    have h5 := (hpairs c).mp hc
    obtain ⟨rl', hrl', hr1, _, hrp⟩ := field_is_leaf inp.dest H.sel2 hsh.2 c.rd (hdf ▸ h5.2.1)
    obtain ⟨wl, hwl, hw1, _, hwp⟩ := field_is_leaf inp.src H.sel1 hsh.1 c.wr (hsf ▸ h5.1)
    have hwd : wl = s := fieldOf_inj inp.src H.keys1 wl s hwl hs (hw1.symm.trans hcw)
    subst hwd
    have hmw : inp.manualR.contains wl.decl.name = false := by
      have := h5.2.2.2.2.1
      rw [hcw] at this
      simpa [fieldOf] using this
    refine ⟨rl', hrl', hr1, ?_⟩
    rw [hwp, hmw]
    simp only [Bool.not_false, Bool.and_self, ↓reduceIte]
    apply filterMap_single _ (leaves_nodup _ H.keys2) _ rl' _ hrl'
    · unfold gFrom
      have hnm : inp.nm (fieldOf wl) (fieldOf rl') = true := by rw [← hr1, ← hcw]; exact h5.2.2.1
      have hps := h5.2.2.2.2.2
      rw [hr1, hcw] at hps
      simp only [fieldOf] at hps
      simp [hrp, hnm, hps]
    · intro d hd hne
      unfold gFrom
      by_cases hcond : (partLeaf inp.dest d && inp.nm (fieldOf wl) (fieldOf d)) = true
      · simp only [hcond, ↓reduceIte]
        cases hps : pairStrat inp.conv (indexed inp.fns) .dest .src d.decl.ty wl.decl.ty with
        | none => rfl
        | some st =>
          exfalso
          simp only [Bool.and_eq_true] at hcond
          have hdf' := leaf_is_field inp.dest H.sel2 hsh.2 d hd hcond.1
          have hc' : (⟨fieldOf d, fieldOf wl, st⟩ : Claim) ∈ (plan inp).fromStmts :=
            (hpairs _).mpr ⟨hcw ▸ h5.1, hdf ▸ hdf', hcond.2, rfl, by rw [← hcw]; exact h5.2.2.2.2.1, hps⟩
          have hcc : (⟨fieldOf d, fieldOf wl, st⟩ : Claim) = c :=
            inj_of_map_nodup (fun x : Claim => x.wr.name) _ hN hc' hc (by simp [hcw])
          have : fieldOf d = fieldOf rl' := by rw [← hr1, ← hcc]
          exact hne (fieldOf_inj inp.dest H.keys2 d rl' hd hrl' this)
      · simp [hcond]

theorem from_writes (inp : Input) (H : PlainOk inp) (s : Leaf) (hs : s ∈ leavesOf inp.src) :
    ((∀ c ∈ (plan inp).fromStmts, c.wr ≠ fieldOf s) → writesOf inp.src (plan inp).srcCtor (plan inp).fromStmts s = 0) ∧
    ((∃ c ∈ (plan inp).fromStmts, c.wr = fieldOf s) → writesOf inp.src (plan inp).srcCtor (plan inp).fromStmts s = 1) := by
  have hsh := H.shadow
  rw [F_skipShadow_eq, Bool.or_eq_false_iff] at hsh
  have hsf : (plan inp).srcFields = sideFields inp.src false := by simp [plan, H.hs]
  have hdf : (plan inp).destFields = sideFields inp.dest false := by simp [plan, H.hd]
  have hpairs := fun c => (plan_pairs inp H.hs H.hd H.uniq c).2
  obtain ⟨_, _, hinv⟩ := plan_inv inp
  have hdsN : (plan inp).destFields.Nodup := by rw [hdf]; exact nodup_of_map_nodup _ _ (sideFields_plain_nodup _)
  have hN := stmts_nodup _ _ hdsN hinv.fromNodup
  have hctor : (plan inp).srcCtor = none := (plan_plain_ctors inp H.hs H.hd).2
  have hfil : writesOf inp.src none (plan inp).fromStmts s =
      ((plan inp).fromStmts.filter (fun c => c.wr == fieldOf s)).length := by
    unfold writesOf
    simp only [Nat.zero_add]
    congr 1
    apply List.filter_congr
    intro c hc
    have h5 := (hpairs c).mp hc
    obtain ⟨wl, hwl, hw1, hw2, _⟩ := field_is_leaf inp.src H.sel1 hsh.1 c.wr (hsf ▸ h5.1)
    rw [hw2]
    simp only
    rw [hw1, Bool.eq_iff_iff]
    simp only [beq_iff_eq]
    constructor
    · intro hp
      rw [key_inj inp.src H.keys1 wl s hwl hs (by rw [hp])]
    · intro he
      exact congrArg Field.path he
  rw [hctor, hfil]
  constructor
  · intro hno
    have : (plan inp).fromStmts.filter (fun c => c.wr == fieldOf s) = [] := by
      rw [List.filter_eq_nil_iff]
      intro c hc
      simpa using hno c hc
    rw [this]; rfl
  · rintro ⟨c, hc, hcw⟩
    have hmem : c ∈ (plan inp).fromStmts.filter (fun c => c.wr == fieldOf s) := by simp [hc, hcw]
    have hle := length_le_one_of_nodup_const (fun x : Claim => x.wr.name) (fieldOf s).name
      ((plan inp).fromStmts.filter (fun c => c.wr == fieldOf s))
      ((List.filter_sublist.map _).nodup hN) (by
        intro x hx
        have := (List.mem_filter.mp hx).2
        simp only [beq_iff_eq] at this
        rw [this])
    have hpos : 0 < ((plan inp).fromStmts.filter (fun c => c.wr == fieldOf s)).length := List.length_pos_of_mem hmem
    omega

/-- C05 with the write counts (what the driver compares for a C05 case besides the round trip): every leaf that has a
    candidate is written exactly once, every other leaf never -/
theorem obs15_eq_spec15_plain (inp : Input) (H : PlainOk inp) (hn : nestedMapped inp = true) : obs15 inp = spec15 inp := by
  have hcomp := modelCompiles_plain inp H.hs H.hd H.sel1 H.sel2 H.shadow
  unfold obs15 spec15
  simp only [hcomp, Bool.not_true, Bool.false_eq_true, ↓reduceIte]
  rw [obs05_eq_spec05 inp H hn]
  congr 1
  congr 1
  · split
    · symm
      apply filterMap_eq_map_of
      intro l hl
      by_cases hS : ∃ c ∈ (plan inp).toStmts, c.wr = fieldOf l
      · obtain ⟨c, hc, hcw⟩ := hS
        obtain ⟨x, _, _, hx⟩ := (to_cands inp H l hl).2 c hc hcw
        rw [hx, (to_writes inp H l hl).2 ⟨c, hc, hcw⟩]
        rfl
      · have hno : ∀ c ∈ (plan inp).toStmts, c.wr ≠ fieldOf l := fun c hc e => hS ⟨c, hc, e⟩
        rw [(to_cands inp H l hl).1 hno, (to_writes inp H l hl).1 hno]
        rfl
    · rfl
  · split
    · symm
      apply filterMap_eq_map_of
      intro l hl
      by_cases hS : ∃ c ∈ (plan inp).fromStmts, c.wr = fieldOf l
      · obtain ⟨c, hc, hcw⟩ := hS
        obtain ⟨x, _, _, hx⟩ := (from_cands inp H l hl).2 c hc hcw
        rw [hx, (from_writes inp H l hl).2 ⟨c, hc, hcw⟩]
        rfl
      · have hno : ∀ c ∈ (plan inp).fromStmts, c.wr ≠ fieldOf l := fun c hc e => hS ⟨c, hc, e⟩
        rw [(from_cands inp H l hl).1 hno, (from_writes inp H l hl).1 hno]
        rfl
    · rfl


/-! ## round trip at the leaves -/

theorem resolve_fieldOf (t : Tree) (hsel : wfSelectors t = true) (hsh : skipShadowT t = false)
    (hK : ((leavesOf t).map (fun l => joinPath l.path)).Nodup) (l : Leaf) (hl : l ∈ leavesOf t)
    (hf : fieldOf l ∈ sideFields t false) : resolveField t (fieldOf l) = some l := by
  obtain ⟨l', hl', he, hr, _⟩ := field_is_leaf t hsel hsh (fieldOf l) hf
  rw [hr, fieldOf_inj t hK l l' hl hl' he]

/-- round trip: a source leaf paired with a destination leaf of IDENTICAL type — each the other's only candidate, assignment
    both ways — holds its own value again after `new(S).FromX(s.ToX())`: every line of the specification's round-trip list
    is a line of the model's (FromX's statements run on the result of ToX) -/
theorem specRT_sub_obsRT (inp : Input) (H : PlainOk inp) : ∀ e ∈ specRT inp, e ∈ obsRT inp := by
  intro e he
  have hsh := H.shadow
  rw [F_skipShadow_eq, Bool.or_eq_false_iff] at hsh
  have hsf : (plan inp).srcFields = sideFields inp.src false := by simp [plan, H.hs]
  have hdf : (plan inp).destFields = sideFields inp.dest false := by simp [plan, H.hd]
  have hcomp := modelCompiles_plain inp H.hs H.hd H.sel1 H.sel2 H.shadow
  have hWF := WF09_of_input inp H.hs H.hd (by simp [H.hm]) H.sel1 H.sel2 H.shadow
  have hexec := no_panic inp hWF []
  have hpF := fun c => (plan_pairs inp H.hs H.hd H.uniq c).2
  obtain ⟨_, _, hinv⟩ := plan_inv inp
  have hdsN : (plan inp).destFields.Nodup := by rw [hdf]; exact nodup_of_map_nodup _ _ (sideFields_plain_nodup _)
  have hNF := stmts_nodup _ _ hdsN hinv.fromNodup
  unfold specRT at he
  split at he
  · cases he
  rename_i hgen
  simp only [Bool.or_eq_true, Bool.not_eq_true', not_or, Bool.not_eq_false] at hgen
  rw [List.mem_filterMap] at he
  obtain ⟨s, hs, hes⟩ := he
  -- unpack the spec's condition
  split at hes
  · rename_i d hcf
    split at hes
    · rename_i s' hct
      split at hes
      · rename_i hpath
        cases hes
        have hpath' : s'.path = s.path := by simpa using hpath
        -- the FromX statement writing s
        have hexF : ∃ c ∈ (plan inp).fromStmts, c.wr = fieldOf s := by
          apply Classical.byContradiction
          intro hno
          have := (from_cands inp H s hs).1 (fun c hc e => hno ⟨c, hc, e⟩)
          rw [this] at hcf; cases hcf
        obtain ⟨cs, hcs, hcsw⟩ := hexF
        obtain ⟨rl, hrl, hrd, hcand⟩ := (from_cands inp H s hs).2 cs hcs hcsw
        rw [hcf] at hcand
        simp only [List.cons.injEq, Prod.mk.injEq, and_true] at hcand
        obtain ⟨hdrl, hstrat⟩ := hcand
        subst hdrl
        -- the ToX statement writing d, and its value
        have hd : d ∈ leavesOf inp.dest := hrl
        have hexT : ∃ c ∈ (plan inp).toStmts, c.wr = fieldOf d := by
          apply Classical.byContradiction
          intro hno
          have := (to_cands inp H d hd).1 (fun c hc e => hno ⟨c, hc, e⟩)
          rw [this] at hct; cases hct
        obtain ⟨cd, hcd, hcdw⟩ := hexT
        obtain ⟨rl2, hrl2, _, hcand2⟩ := (to_cands inp H d hd).2 cd hcd hcdw
        rw [hct] at hcand2
        simp only [List.cons.injEq, Prod.mk.injEq, and_true] at hcand2
        have hs's : s' = s := by
          rw [hcand2.1]
          exact key_inj inp.src H.keys1 rl2 s hrl2 hs (by rw [← hcand2.1, hpath'])
        subst hs's
        have hleaf := to_leaf inp H d hd
        simp only [specTo, hct, optV, Option.some.injEq] at hleaf
        -- unfold the model's round trip
        unfold obsRT
        have hg : (!(toGen inp && fromGen inp) || !modelCompiles inp || inp.srcNew || inp.destNew) = false := by
          simp [hgen.1.1, hcomp, H.hs, H.hd]
        rw [if_neg (by rw [hg]; exact Bool.false_ne_true)]
        rw [hexec.1, hexec.2 .clean]
        simp only
        rw [List.mem_filterMap]
        refine ⟨s', hs, ?_⟩
        -- s is not written through a mapper method
        have hskip : (fromFuncLeaves inp).contains (joinPath s'.path) = false := by
          rw [Bool.eq_false_iff]
          intro hc
          rw [List.contains_iff_mem] at hc
          unfold fromFuncLeaves at hc
          rw [List.mem_filterMap] at hc
          obtain ⟨c, hc1, hc2⟩ := hc
          have h5 := (hpF c).mp hc1
          obtain ⟨wl, hwl, hw1, hw2, _⟩ := field_is_leaf inp.src H.sel1 hsh.1 c.wr (hsf ▸ h5.1)
          rw [hw2] at hc2
          cases hst : c.strat with
          | func k =>
            rw [hst] at hc2
            simp only [Option.some.injEq] at hc2
            have : wl = s' := key_inj inp.src H.keys1 wl s' hwl hs hc2
            have hcc : c = cs := inj_of_map_nodup (fun x : Claim => x.wr.name) _ hNF hc1 hcs (by
              show c.wr.name = cs.wr.name
              rw [hw1, hcsw, this])
            rw [hcc, ← hstrat] at hst
            cases hst
          | assign => rw [hst] at hc2; cases hc2
          | conv => rw [hst] at hc2; cases hc2
          | sub r w => rw [hst] at hc2; cases hc2
          | each r w => rw [hst] at hc2; cases hc2
        rw [hskip]
        simp only [Bool.false_eq_true, ↓reduceIte, Option.some.injEq, Prod.mk.injEq, true_and]
        -- the entry FromX stores for s: what ToX left in d
        have hrd' : resolveField inp.dest cs.rd = some d := by
          rw [hrd]
          exact resolve_fieldOf inp.dest H.sel2 hsh.2 H.keys2 d hd (hdf ▸ hrd ▸ ((hpF cs).mp hcs).2.1)
        have hwr' : resolveField inp.src cs.wr = some s' := by
          rw [hcsw]
          exact resolve_fieldOf inp.src H.sel1 hsh.1 H.keys1 s' hs (hsf ▸ hcsw ▸ ((hpF cs).mp hcs).1)
        have hentry : ∀ e' ∈ (plan inp).fromStmts.filterMap (rtValue inp (idealTo inp (plan inp) (tables inp (plan inp)) [])),
            e'.1 = joinPath s'.path →
            e' = (joinPath s'.path, (idealTo inp (plan inp) (tables inp (plan inp)) []).get (joinPath d.path)) := by
          intro e' he' hk
          rw [List.mem_filterMap] at he'
          obtain ⟨c, hc1, hc2⟩ := he'
          have h5 := (hpF c).mp hc1
          obtain ⟨wl, hwl, hw1, hw2, _⟩ := field_is_leaf inp.src H.sel1 hsh.1 c.wr (hsf ▸ h5.1)
          obtain ⟨dl, hdl, hd1, hd2, _⟩ := field_is_leaf inp.dest H.sel2 hsh.2 c.rd (hdf ▸ h5.2.1)
          unfold rtValue at hc2
          rw [hd2, hw2] at hc2
          have hc3 : e' = (joinPath wl.path, (idealTo inp (plan inp) (tables inp (plan inp)) []).get (joinPath dl.path)) := by
            cases hst : c.strat <;> rw [hst] at hc2 <;> simp at hc2 <;> exact hc2.symm
          have hwl' : wl = s' := key_inj inp.src H.keys1 wl s' hwl hs (by rw [hc3] at hk; exact hk)
          have hcc : c = cs := inj_of_map_nodup (fun x : Claim => x.wr.name) _ hNF hc1 hcs (by
            show c.wr.name = cs.wr.name
            rw [hw1, hcsw, hwl'])
          rw [hcc, hrd'] at hd2
          cases hd2
          rw [hc3, hwl']
        have hmem : (joinPath s'.path, (idealTo inp (plan inp) (tables inp (plan inp)) []).get (joinPath d.path)) ∈
            (plan inp).fromStmts.filterMap (rtValue inp (idealTo inp (plan inp) (tables inp (plan inp)) [])) := by
          rw [List.mem_filterMap]
          refine ⟨cs, hcs, ?_⟩
          unfold rtValue
          rw [hrd', hwr', ← hstrat]
        cases hfind : ((plan inp).fromStmts.filterMap (rtValue inp (idealTo inp (plan inp) (tables inp (plan inp)) []))).reverse.find?
            (fun (e : String × V) => e.1 == joinPath s'.path) with
        | none =>
          have := List.find?_eq_none.mp hfind _ (List.mem_reverse.mpr hmem)
          simp at this
        | some e' =>
          have hm := List.mem_reverse.mp (List.mem_of_find?_eq_some hfind)
          have hk : e'.1 = joinPath s'.path := by simpa using List.find?_some hfind
          rw [hentry e' hm hk]
          simp only
          rw [hexec.1] at hleaf
          simp only [obsLeaf] at hleaf
          rw [← hleaf]
          rfl
      · cases hes
    · cases hes
  · cases hes

/-- C05's region WF implies C09's `WF09` (and a compiling output): on those inputs nothing about C09 is left to per-input evaluation -/
theorem WF09_of_region05 (inp : Input) (h : region05 inp = "WF") : WF09 inp = true ∧ modelCompiles inp = true := by
  unfold region05 at h
  split at h
  · exact absurd h (by decide)
  rename_i h1
  split at h
  · exact absurd h (by decide)
  split at h
  · exact absurd h (by decide)
  rename_i h3
  simp only [Bool.or_eq_true, Bool.not_eq_true', beq_iff_eq, not_or, Bool.not_eq_false] at h1
  obtain ⟨⟨⟨hg, hs⟩, hd⟩, hm⟩ := h1
  simp only [grammarOk, Bool.and_eq_true] at hg
  obtain ⟨⟨⟨⟨⟨⟨⟨⟨⟨⟨⟨_, _⟩, hsel1⟩, hsel2⟩, _⟩, _⟩, _⟩, _⟩, _⟩, _⟩, _⟩, _⟩ := hg
  have hs' : inp.srcNew = false := by simpa using hs
  have hd' : inp.destNew = false := by simpa using hd
  have hsh : F_skipShadow inp = false := by simpa using h3
  exact ⟨WF09_of_input inp hs' hd' (by simp [hm]) hsel1 hsel2 hsh, modelCompiles_plain inp hs' hd' hsel1 hsel2 hsh⟩

end ShootVerif.Mapper
