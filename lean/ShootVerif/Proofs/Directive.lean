import ShootVerif.Model.Directive
/-!
Theorems about the directive recognisers (`Model/Directive.lean`, tied to the regexps of fields.go by the directive leg):
what a doc comment line of the documented form MEANS, for every value text.

* `parseDef_value`       : `shoot: def=<v>` yields exactly `<v>` for every non-empty `<v>` without `;` and newline
* `parseDef_value_then`  : the same when further directives follow after a `;` (whatever they are)
* `scanKw_after`         : a keyword after `;` at the end of the line is recognised whatever text (without newline) precedes it
* `directive_def_then_kw`: `shoot: def=<v>;get` is the default `<v>` AND a getter request
-/
namespace ShootVerif.Directive
open ShootVerif.Transfer

theorem takeWhile_all {α : Type} (p : α → Bool) : ∀ l : List α, (∀ a ∈ l, p a = true) → l.takeWhile p = l := by
  intro l
  induction l with
  | nil => intro _; rfl
  | cons x xs ih =>
    intro h
    have hx : p x = true := h x (by simp)
    simp only [List.takeWhile_cons, hx, ↓reduceIte]
    rw [ih (fun a ha => h a (by simp [ha]))]

theorem takeWhile_append_stop {α : Type} (p : α → Bool) (l : List α) (c : α) (r : List α)
    (hl : ∀ a ∈ l, p a = true) (hc : p c = false) : (l ++ c :: r).takeWhile p = l := by
  induction l with
  | nil => simp [hc]
  | cons x xs ih =>
    have hx : p x = true := hl x (by simp)
    simp only [List.cons_append, List.takeWhile_cons, hx, ↓reduceIte]
    rw [ih (fun a ha => hl a (by simp [ha]))]

/-- the value predicate of `[^;\n]+` -/
def valChar (c : Char) : Bool := c != ';' && c != '\n'

theorem valChar_of (c : Char) (h : c ≠ ';' ∧ c ≠ '\n') : valChar c = true := by
  simp [valChar, h.1, h.2]

theorem s_ault : "ault".toList = ['a', 'u', 'l', 't'] := by decide
theorem s_def : "def".toList = ['d', 'e', 'f'] := by decide
theorem s_shoot : "shoot:".toList = ['s', 'h', 'o', 'o', 't', ':'] := by decide

theorem startsWithCI_false_of_head (a b : Char) (s p : List Char) (h : toLower a ≠ toLower b) :
    startsWithCI (a :: s) (b :: p) = false := by
  simp only [startsWithCI, lowerL, List.length_cons, List.take_succ_cons, List.map_cons]
  apply Bool.eq_false_iff.mpr
  intro hh
  have := eq_of_beq hh
  injection this with h1 _
  exact h h1

theorem swc_def (w : List Char) : startsWithCI ('d' :: 'e' :: 'f' :: w) ['d', 'e', 'f'] = true := by
  simp [startsWithCI, lowerL]

theorem swc_shoot (w : List Char) :
    startsWithCI ('s' :: 'h' :: 'o' :: 'o' :: 't' :: ':' :: w) ['s', 'h', 'o', 'o', 't', ':'] = true := by
  simp [startsWithCI, lowerL]

theorem swc_ault (w : List Char) : startsWithCI ('=' :: w) ['a', 'u', 'l', 't'] = false :=
  startsWithCI_false_of_head _ _ _ _ (by decide)

theorem fromShoot_shoot (w : List Char) : fromShoot ('s' :: 'h' :: 'o' :: 'o' :: 't' :: ':' :: w) = some w := by
  simp [fromShoot, s_shoot, swc_shoot]

/-- `defAt` at `def=<w>` in terms of the value scan -/
theorem defAt_eq (w : List Char) :
    defAt ('d' :: 'e' :: 'f' :: '=' :: w) =
      (let val := w.takeWhile (fun c => c != ';' && c != '\n')
       if val.isEmpty then none else some ([], val, lineRest (w.drop val.length))) := by
  unfold defAt
  simp [s_def, s_ault, swc_def, swc_ault]

/-- `defAt` right at `def=<v>` followed by the end of the text -/
theorem defAt_value (v : List Char) (hne : v ≠ []) (hv : ∀ c ∈ v, c ≠ ';' ∧ c ≠ '\n') :
    defAt ('d' :: 'e' :: 'f' :: '=' :: v) = some ([], v, []) := by
  have htw : v.takeWhile (fun c => c != ';' && c != '\n') = v :=
    takeWhile_all _ v (fun a ha => valChar_of a (hv a ha))
  have he : v.isEmpty = false := by cases v with | nil => exact absurd rfl hne | cons _ _ => rfl
  rw [defAt_eq]
  simp [htw, he, lineRest]

theorem parseDef_of_defAt (w v tail : List Char) (hd : defAt ('d' :: 'e' :: 'f' :: '=' :: w) = some ([], v, tail)) :
    parseDef ('s' :: 'h' :: 'o' :: 'o' :: 't' :: ':' :: ' ' :: 'd' :: 'e' :: 'f' :: '=' :: w) = some v := by
  have hsc : scanDef (' ' :: 'd' :: 'e' :: 'f' :: '=' :: w) = some ([], v, tail) := by
    have hsp : isWord ' ' = false := by decide
    simp [scanDef, hsp, hd]
  have hfd : findDef ('s' :: 'h' :: 'o' :: 'o' :: 't' :: ':' :: ' ' :: 'd' :: 'e' :: 'f' :: '=' :: w) = some ([], v, tail) := by
    simp [findDef, lineStarts, fromShoot_shoot, hsc]
  simp [parseDef, hfd]

/-- `shoot: def=<v>` means the default `<v>`, for EVERY non-empty value text without `;` and newline -/
theorem parseDef_value (v : List Char) (hne : v ≠ []) (hv : ∀ c ∈ v, c ≠ ';' ∧ c ≠ '\n') :
    parseDef ("shoot: def=".toList ++ v) = some v := by
  have hdoc : "shoot: def=".toList ++ v = 's' :: 'h' :: 'o' :: 'o' :: 't' :: ':' :: ' ' :: 'd' :: 'e' :: 'f' :: '=' :: v := by
    have : "shoot: def=".toList = ['s', 'h', 'o', 'o', 't', ':', ' ', 'd', 'e', 'f', '='] := by decide
    rw [this]; rfl
  rw [hdoc]
  exact parseDef_of_defAt v v [] (defAt_value v hne hv)

/-- `defAt` at `def=<v>;…`: the value ends at the `;` -/
theorem defAt_value_then (v rest : List Char) (hne : v ≠ []) (hv : ∀ c ∈ v, c ≠ ';' ∧ c ≠ '\n') :
    ∃ tail, defAt ('d' :: 'e' :: 'f' :: '=' :: (v ++ ';' :: rest)) = some ([], v, tail) := by
  have htw : (v ++ ';' :: rest).takeWhile (fun c => c != ';' && c != '\n') = v :=
    takeWhile_append_stop _ v ';' rest (fun a ha => valChar_of a (hv a ha)) (by decide)
  have he : v.isEmpty = false := by cases v with | nil => exact absurd rfl hne | cons _ _ => rfl
  rw [defAt_eq]
  simp [htw, he]

/-- … and whatever follows the `;` does not change the value -/
theorem parseDef_value_then (v rest : List Char) (hne : v ≠ []) (hv : ∀ c ∈ v, c ≠ ';' ∧ c ≠ '\n') :
    parseDef ("shoot: def=".toList ++ (v ++ ';' :: rest)) = some v := by
  obtain ⟨tail, hd⟩ := defAt_value_then v rest hne hv
  have hdoc : "shoot: def=".toList ++ (v ++ ';' :: rest) =
      's' :: 'h' :: 'o' :: 'o' :: 't' :: ':' :: ' ' :: 'd' :: 'e' :: 'f' :: '=' :: (v ++ ';' :: rest) := by
    have : "shoot: def=".toList = ['s', 'h', 'o', 'o', 't', ':', ' ', 'd', 'e', 'f', '='] := by decide
    rw [this]; rfl
  rw [hdoc]
  exact parseDef_of_defAt _ v tail hd

/-- a keyword after `;` that ends the text is recognised whatever (newline-free) text precedes it -/
theorem scanKw_after (kw pre : List Char) (hp : ∀ c ∈ pre, c ≠ '\n')
    (hk : scanKw kw (';' :: kw) = true) : scanKw kw (pre ++ ';' :: kw) = true := by
  induction pre with
  | nil => simpa using hk
  | cons c cs ih =>
    have hc : c ≠ '\n' := hp c (by simp)
    have := ih (fun a ha => hp a (by simp [ha]))
    simp only [List.cons_append, scanKw, this, Bool.and_true]
    simp [hc]

theorem scanKw_get : scanKw ['g', 'e', 't'] [';', 'g', 'e', 't'] = true := by decide
theorem scanKw_set : scanKw ['s', 'e', 't'] [';', 's', 'e', 't'] = true := by decide
theorem scanKw_new : scanKw ['n', 'e', 'w'] [';', 'n', 'e', 'w'] = true := by decide

/-- `shoot: def=<v>;get` is the default `<v>` AND a getter request, for every value text -/
theorem directive_def_then_kw (v : List Char) (hne : v ≠ []) (hv : ∀ c ∈ v, c ≠ ';' ∧ c ≠ '\n') :
    parseDef ("shoot: def=".toList ++ (v ++ [';', 'g', 'e', 't'])) = some v ∧
    (parseGetSet ("shoot: def=".toList ++ (v ++ [';', 'g', 'e', 't']))).1 = true := by
  refine ⟨parseDef_value_then v _ hne hv, ?_⟩
  have hdoc : "shoot: def=".toList ++ (v ++ [';', 'g', 'e', 't']) =
      's' :: 'h' :: 'o' :: 'o' :: 't' :: ':' :: ((' ' :: 'd' :: 'e' :: 'f' :: '=' :: v) ++ ';' :: ['g', 'e', 't']) := by
    have : "shoot: def=".toList = ['s', 'h', 'o', 'o', 't', ':', ' ', 'd', 'e', 'f', '='] := by decide
    rw [this]; rfl
  rw [hdoc]
  have hpre : ∀ c ∈ (' ' :: 'd' :: 'e' :: 'f' :: '=' :: v), c ≠ '\n' := by
    intro c hc
    simp only [List.mem_cons] at hc
    rcases hc with h | h | h | h | h | h
    · subst h; decide
    · subst h; decide
    · subst h; decide
    · subst h; decide
    · subst h; decide
    · exact (hv c h).2
  have hs := scanKw_after ['g', 'e', 't'] (' ' :: 'd' :: 'e' :: 'f' :: '=' :: v) hpre scanKw_get
  generalize ((' ' :: 'd' :: 'e' :: 'f' :: '=' :: v) ++ ';' :: ['g', 'e', 't']) = w at hs ⊢
  have hget : "get".toList = ['g', 'e', 't'] := by decide
  simp [parseGetSet, docHasKw, lineStarts, fromShoot_shoot, hget, hs]

/-- premises are satisfiable, conclusions are what the generator reads: `"tcp://" + DefaultHost` -/
example : parseDef ("shoot: def=\"tcp://\" + DefaultHost".toList) = some "\"tcp://\" + DefaultHost".toList := by decide
example : parseDef ("shoot: def='a' + 1; get".toList) = some "'a' + 1".toList := by decide

end ShootVerif.Directive
