import ShootVerif.Props.C04
/-
Lemmas for C12 (on top of the C04 theorems about the emitted tables).
-/
namespace ShootVerif.Enum

/-- the emitted `_t_value_map` -/
def vmOf (i : Input) : List (Name × Int) := valueMap i.T (tables i)

theorem parse_none_of_not_name (i : Input) (h : WF i = true) (s : Name)
    (hs : ∀ c ∈ i.decl, trim i.T c.name ≠ s) : parseEnum (vmOf i) s = none := by
  unfold parseEnum vmOf
  rw [C04_valuemap i h s]
  unfold specValueOf
  have : i.decl.find? (fun c => trim i.T c.name = s) = none := by
    rw [List.find?_eq_none]; intro c hc; simpa using hs c hc
  rw [this]; rfl

/-- Go's conversion `T(v)` is the identity on the values of the type -/
theorem wrap_of_has (k : Kind) (hb : 0 < k.bits) (v : Int) (h : k.has v = true) : wrap k v = v := by
  unfold Kind.has Kind.lo Kind.hi at h
  simp only [Bool.and_eq_true, decide_eq_true_eq] at h
  have hpow : (2 : Int) ^ k.bits = 2 * (2 : Int) ^ (k.bits - 1) := by
    have hk : k.bits = (k.bits - 1) + 1 := by omega
    conv => lhs; rw [hk, Int.pow_succ]
    omega
  have hpos : (0 : Int) < (2 : Int) ^ (k.bits - 1) := Int.pow_pos (by decide)
  unfold wrap
  simp only []
  generalize (2 : Int) ^ (k.bits - 1) = P at *
  generalize (2 : Int) ^ k.bits = M at *
  cases hs : k.signed
  · simp only [hs, Bool.false_eq_true, ↓reduceIte, Bool.false_and] at h ⊢
    exact Int.emod_eq_of_lt h.1 (by omega)
  · simp only [hs, ↓reduceIte, Bool.true_and, decide_eq_true_eq] at h ⊢
    by_cases hv : 0 ≤ v
    · have hm : v % M = v := Int.emod_eq_of_lt hv (by omega)
      rw [hm]
      have : ¬ (v ≥ P) := by omega
      simp [this]
    · have hm : v % M = v + M := by
        have h1 : v % M = (v + M) % M := by simp
        rw [h1]; exact Int.emod_eq_of_lt (by omega) (by omega)
      rw [hm]
      have : v + M ≥ P := by omega
      simp [this]

/-! ## IsEnum: the round trip `v == T(p) && TV(v) == p` -/

theorem pow_mono {a b : Nat} (h : a ≤ b) : (2 : Int) ^ a ≤ (2 : Int) ^ b := by
  have h1 : (2 : Nat) ^ a ≤ 2 ^ b := Nat.pow_le_pow_right (by decide) h
  have h2 : ((2 ^ a : Nat) : Int) ≤ ((2 ^ b : Nat) : Int) := Int.ofNat_le.mpr h1
  rw [Int.natCast_pow, Int.natCast_pow] at h2
  exact h2

theorem lo_nonpos (k : Kind) : k.lo ≤ 0 := by
  unfold Kind.lo
  have : (0 : Int) < (2 : Int) ^ (k.bits - 1) := Int.pow_pos (by decide)
  split <;> omega

theorem nonneg_of_unsigned (k : Kind) (hs : k.signed = false) (v : Int) (h : k.has v = true) : 0 ≤ v := by
  unfold Kind.has Kind.lo at h
  simp only [hs, Bool.false_eq_true, ↓reduceIte, Bool.and_eq_true, decide_eq_true_eq] at h
  exact h.1

/-- a narrower type of the same signedness is contained in the wider one -/
theorem has_mono (k1 k2 : Kind) (hs : k1.signed = k2.signed) (hb1 : 0 < k1.bits) (hb : k1.bits ≤ k2.bits) (v : Int)
    (h : k1.has v = true) : k2.has v = true := by
  unfold Kind.has Kind.lo Kind.hi at *
  simp only [Bool.and_eq_true, decide_eq_true_eq] at *
  have hp : (2 : Int) ^ (k1.bits - 1) ≤ (2 : Int) ^ (k2.bits - 1) := pow_mono (by omega)
  have hq : (2 : Int) ^ k1.bits ≤ (2 : Int) ^ k2.bits := pow_mono hb
  rw [← hs]
  generalize (2 : Int) ^ (k1.bits - 1) = P1 at *
  generalize (2 : Int) ^ (k2.bits - 1) = P2 at *
  generalize (2 : Int) ^ k1.bits = M1 at *
  generalize (2 : Int) ^ k2.bits = M2 at *
  cases hs1 : k1.signed
  · simp only [hs1, Bool.false_eq_true, ↓reduceIte] at h ⊢; omega
  · simp only [hs1, ↓reduceIte] at h ⊢; omega

/-- a declared value `c` of T and a probe `p` of TV of the SAME sign that survive both conversions
    (`c = T(p)`, `TV(c) = p`) are the same integer -/
theorem roundtrip_eq (kT kV : Kind) (hbT : 0 < kT.bits) (hbV : 0 < kV.bits) (c p : Int)
    (hc : kT.has c = true) (hp : kV.has p = true) (hsign : c < 0 ↔ p < 0)
    (h1 : c = wrap kT p) (h2 : wrap kV c = p) : c = p := by
  by_cases hneg : c < 0
  · -- both negative: both types are signed; the narrower one is contained in the other
    have hpn : p < 0 := hsign.mp hneg
    have hsT : kT.signed = true := by
      cases hs : kT.signed
      · have := nonneg_of_unsigned kT hs c hc; omega
      · rfl
    have hsV : kV.signed = true := by
      cases hs : kV.signed
      · have := nonneg_of_unsigned kV hs p hp; omega
      · rfl
    by_cases hb : kT.bits ≤ kV.bits
    · have := has_mono kT kV (by rw [hsT, hsV]) hbT hb c hc
      rw [wrap_of_has kV hbV c this] at h2; exact h2
    · have := has_mono kV kT (by rw [hsT, hsV]) hbV (by omega) p hp
      rw [wrap_of_has kT hbT p this] at h1; exact h1
  · -- both non-negative
    have hc0 : 0 ≤ c := by omega
    have hp0 : 0 ≤ p := by
      by_cases hpn : p < 0
      · exact absurd (hsign.mpr hpn) hneg
      · omega
    by_cases hle : p ≤ kT.hi
    · have : kT.has p = true := by
        unfold Kind.has; simp only [Bool.and_eq_true, decide_eq_true_eq]
        exact ⟨Int.le_trans (lo_nonpos kT) hp0, hle⟩
      rw [wrap_of_has kT hbT p this] at h1; exact h1
    · exfalso
      have hchi : c ≤ kT.hi := by
        unfold Kind.has at hc; simp only [Bool.and_eq_true, decide_eq_true_eq] at hc; exact hc.2
      have hphi : p ≤ kV.hi := by
        unfold Kind.has at hp; simp only [Bool.and_eq_true, decide_eq_true_eq] at hp; exact hp.2
      have : kV.has c = true := by
        unfold Kind.has; simp only [Bool.and_eq_true, decide_eq_true_eq]
        exact ⟨Int.le_trans (lo_nonpos kV) hc0, by omega⟩
      rw [wrap_of_has kV hbV c this] at h2
      omega

end ShootVerif.Enum
