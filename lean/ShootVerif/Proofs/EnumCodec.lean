import ShootVerif.Props.C04
/-
Lemmas for C12 (on top of the C04 theorems about the emitted tables).
-/
namespace ShootVerif.Enum

/-- the emitted `_t_value_map` -/
def vmOf (i : Input) : List (Name × Int) := valueMap i.T (tables i)

theorem parse_none_of_not_name (i : Input) (h : WF i = true) (s : Name)
    (hs : ∀ c ∈ i.decl, trim i.T c.name ≠ s) : parseEnum (vmOf i) s = none := by
  unfold parseEnum vmOf
  rw [C04_valuemap i h s]
  unfold specValueOf
  have : i.decl.find? (fun c => trim i.T c.name = s) = none := by
    rw [List.find?_eq_none]; intro c hc; simpa using hs c hc
  rw [this]; rfl

/-- Go's conversion `T(v)` is the identity on the values of the type -/
theorem wrap_of_has (k : Kind) (hb : 0 < k.bits) (v : Int) (h : k.has v = true) : wrap k v = v := by
  unfold Kind.has Kind.lo Kind.hi at h
  simp only [Bool.and_eq_true, decide_eq_true_eq] at h
  have hpow : (2 : Int) ^ k.bits = 2 * (2 : Int) ^ (k.bits - 1) := by
    have hk : k.bits = (k.bits - 1) + 1 := by omega
    conv => lhs; rw [hk, Int.pow_succ]
    omega
  have hpos : (0 : Int) < (2 : Int) ^ (k.bits - 1) := Int.pow_pos (by decide)
  unfold wrap
  simp only []
  generalize (2 : Int) ^ (k.bits - 1) = P at *
  generalize (2 : Int) ^ k.bits = M at *
  cases hs : k.signed
  · simp only [hs, Bool.false_eq_true, ↓reduceIte, Bool.false_and] at h ⊢
    exact Int.emod_eq_of_lt h.1 (by omega)
  · simp only [hs, ↓reduceIte, Bool.true_and, decide_eq_true_eq] at h ⊢
    by_cases hv : 0 ≤ v
    · have hm : v % M = v := Int.emod_eq_of_lt hv (by omega)
      rw [hm]
      have : ¬ (v ≥ P) := by omega
      simp [this]
    · have hm : v % M = v + M := by
        have h1 : v % M = (v + M) % M := by simp
        rw [h1]; exact Int.emod_eq_of_lt (by omega) (by omega)
      rw [hm]
      have : v + M ≥ P := by omega
      simp [this]

end ShootVerif.Enum
