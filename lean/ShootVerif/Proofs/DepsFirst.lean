import ShootVerif.Proofs.GenState
/-!
`new -getset` over a type list in which every listed type comes after the listed types it embeds
("dependencies first"): the run is independent of the order among such lists, of stale output in the
directory, and is a fixpoint.  Lemmas for Props/C08.lean (`C08_perm_new`) and Props/C07.lean
(`C07_fixpoint_new`, `C07_stale_indep_new`).
-/
namespace ShootVerif.GenState
open ShootVerif

/-! ### interface names -/

def ifacesOf (n : String) : List String := [n ++ "Getter", n ++ "Setter"]

theorem append_right_cancel' (a b s : String) (h : a ++ s = b ++ s) : a = b := by
  have := congrArg String.toList h
  simp only [String.toList_append] at this
  exact String.toList_inj.mp (List.append_cancel_right this)

theorem getter_ne_setter (a b : String) : a ++ "Getter" ≠ b ++ "Setter" := by
  intro h
  have := congrArg String.toList h
  simp only [String.toList_append] at this
  have h2 := congrArg List.reverse this
  simp only [List.reverse_append] at h2
  have h3 := congrArg (List.take 6) h2
  simp at h3

theorem mem_ifacesOf_getter (e : String) : e ++ "Getter" ∈ ifacesOf e := List.mem_cons_self ..
theorem mem_ifacesOf_setter (e : String) : e ++ "Setter" ∈ ifacesOf e := List.mem_cons_of_mem _ (List.mem_cons_self ..)

theorem ifacesOf_disjoint {a b i : String} (ha : i ∈ ifacesOf a) (hb : i ∈ ifacesOf b) : a = b := by
  simp only [ifacesOf, List.mem_cons, List.not_mem_nil, or_false] at ha hb
  rcases ha with rfl | rfl <;> rcases hb with h | h
  · exact append_right_cancel' _ _ _ h
  · exact absurd h (getter_ne_setter _ _)
  · exact absurd h.symm (getter_ne_setter _ _)
  · exact append_right_cancel' _ _ _ h

/-! ### findDef only looks at the files that declare the interface -/

def defines (i : String) (f : GFile) : Bool := (f.defs.lookup i).isSome

theorem better_skip (i : String) (best : Option GFile) (f : GFile) (h : defines i f = false) :
    better i best f = best := by
  unfold better
  unfold defines at h
  cases hl : f.defs.lookup i with
  | none => rfl
  | some _ => rw [hl] at h; cases h

theorem foldl_better_filter (i : String) (files : Disk) :
    ∀ best, files.foldl (better i) best = (files.filter (defines i)).foldl (better i) best := by
  induction files with
  | nil => intro _; rfl
  | cons f fs ih =>
    intro best
    cases hd : defines i f with
    | false =>
      rw [List.foldl_cons, better_skip i best f hd, List.filter_cons, if_neg (by simp [hd])]
      exact ih best
    | true =>
      rw [List.foldl_cons, List.filter_cons, if_pos hd, List.foldl_cons]
      exact ih _

theorem findDef_filter (files : Disk) (i : String) : findDef files i = findDef (files.filter (defines i)) i := by
  unfold findDef
  rw [foldl_better_filter]

theorem findDef_congr {a b : Disk} {i : String} (h : a.filter (defines i) = b.filter (defines i)) :
    findDef a i = findDef b i := by
  rw [findDef_filter a, findDef_filter b, h]

theorem findDef_nil (i : String) : findDef [] i = none := rfl

theorem findDef_single (g : GFile) (i : String) : findDef [g] i = g.defs.lookup i := by
  unfold findDef
  simp only [List.foldl_cons, List.foldl_nil, better]
  cases h : g.defs.lookup i with
  | none => rfl
  | some d => simp [h]

/-! ### hygiene of the directory with respect to the listed types -/

theorem lookup_isSome_mem {β : Type} (l : List (String × β)) (i : String) (h : (l.lookup i).isSome = true) :
    ∃ p ∈ l, p.1 = i := by
  induction l with
  | nil => simp [List.lookup] at h
  | cons p l ih =>
    obtain ⟨k, v⟩ := p
    by_cases hk : i = k
    · exact ⟨(k, v), List.mem_cons_self .., hk.symm⟩
    · have : (i == k) = false := by simpa using hk
      rw [List.lookup_cons, this] at h
      obtain ⟨q, hq, e⟩ := ih h
      exact ⟨q, List.mem_cons_of_mem _ hq, e⟩

theorem lookup_none_of_not_mem {β : Type} (l : List (String × β)) (i : String) (h : ∀ p ∈ l, p.1 ≠ i) :
    l.lookup i = none := by
  cases hl : l.lookup i with
  | none => rfl
  | some v =>
    obtain ⟨p, hp, e⟩ := lookup_isSome_mem l i (by rw [hl]; rfl)
    exact absurd e (h p hp)

theorem lookup_some_mem {β : Type} (l : List (String × β)) (i : String) (v : β) (h : l.lookup i = some v) : (i, v) ∈ l := by
  induction l with
  | nil => cases h
  | cons p l ih =>
    obtain ⟨k, w⟩ := p
    by_cases hk : i = k
    · subst hk
      rw [List.lookup_cons, beq_self_eq_true] at h
      cases h
      exact List.mem_cons_self ..
    · have : (i == k) = false := by simpa using hk
      rw [List.lookup_cons, this] at h
      exact List.mem_cons_of_mem _ (ih h)

/-- the listed types: distinct names, distinct output files -/
structure WFL (L : List NType) : Prop where
  names : (L.map (·.name)).Nodup
  files : (L.map (·.file)).Nodup

theorem inj_of_nodup_map {α β : Type} (f : α → β) : ∀ (l : List α), (l.map f).Nodup →
    ∀ x ∈ l, ∀ y ∈ l, f x = f y → x = y := by
  intro l
  induction l with
  | nil => intro _ x hx; cases hx
  | cons a l ih =>
    intro h x hx y hy e
    simp only [List.map_cons, List.nodup_cons] at h
    rcases List.mem_cons.mp hx with hxa | hx' <;> rcases List.mem_cons.mp hy with hya | hy'
    · rw [hxa, hya]
    · exact absurd (hxa ▸ e.symm ▸ List.mem_map_of_mem hy') h.1
    · exact absurd (hya ▸ e ▸ List.mem_map_of_mem hx') h.1
    · exact ih h.2 x hx' y hy' e

/-- the file of a listed type declares only that type's interfaces, and they are declared nowhere else -/
structure Hyg (L : List NType) (d : Disk) : Prop where
  own : ∀ f ∈ d, ∀ t ∈ L, f.name = t.file → ∀ p ∈ f.defs, p.1 ∈ ifacesOf t.name
  only : ∀ f ∈ d, ∀ t ∈ L, ∀ p ∈ f.defs, p.1 ∈ ifacesOf t.name → f.name = t.file

theorem newGFile_name (t : NType) (o : NOut) : (newGFile t o).name = t.file := rfl

theorem newGFile_defs (t : NType) (o : NOut) : ∀ p ∈ (newGFile t o).defs, p.1 ∈ ifacesOf t.name := by
  intro p hp
  unfold newGFile at hp
  simp only [List.mem_append] at hp
  unfold ifacesOf
  rcases hp with hp | hp
  · cases hg : o.ifaceGet with
    | none => rw [hg] at hp; cases hp
    | some d => rw [hg] at hp; simp only [List.mem_singleton] at hp; rw [hp]; simp
  · cases hg : o.ifaceSet with
    | none => rw [hg] at hp; cases hp
    | some d => rw [hg] at hp; simp only [List.mem_singleton] at hp; rw [hp]; simp

/-- what a look-up finds after a listed type's file was (re)written -/
theorem findDef_write {L : List NType} {d : Disk} (hH : Hyg L d) {t : NType} (ht : t ∈ L) (g : GFile)
    (hgn : g.name = t.file) (hgd : ∀ p ∈ g.defs, p.1 ∈ ifacesOf t.name) (i : String) :
    findDef (writeFile d g) i = if i ∈ ifacesOf t.name then g.defs.lookup i else findDef d i := by
  by_cases hi : i ∈ ifacesOf t.name
  · rw [if_pos hi]
    -- nobody else declares i
    have hrest : (d.filter (fun o => o.name ≠ g.name)).filter (defines i) = [] := by
      rw [List.filter_eq_nil_iff]
      intro f hf hdef
      rw [List.mem_filter] at hf
      obtain ⟨p, hp, e⟩ := lookup_isSome_mem f.defs i hdef
      have := hH.only f hf.1 t ht p hp (e ▸ hi)
      have hne : f.name ≠ g.name := by simpa using hf.2
      exact hne (this.trans hgn.symm)
    rw [findDef_filter]
    unfold writeFile
    rw [List.filter_cons, hrest]
    cases hdg : defines i g with
    | true => rw [if_pos rfl, findDef_single]
    | false =>
      rw [if_neg (by simp), findDef_nil]
      unfold defines at hdg
      cases hl : g.defs.lookup i with
      | none => rfl
      | some _ => rw [hl] at hdg; cases hdg
  · rw [if_neg hi]
    apply findDef_congr
    unfold writeFile
    have hg : defines i g = false := by
      unfold defines
      rw [lookup_none_of_not_mem g.defs i (fun p hp e => hi (e ▸ hgd p hp))]
      rfl
    rw [List.filter_cons, if_neg (by simp [hg]), List.filter_filter]
    apply List.filter_congr
    intro f hf
    by_cases hn : f.name = g.name
    · -- the replaced file declares only t's interfaces, so not i
      have : defines i f = false := by
        unfold defines
        rw [lookup_none_of_not_mem f.defs i (fun p hp e => hi (e ▸ hH.own f hf t ht (hn.trans hgn) p hp))]
        rfl
      simp [this]
    · simp [hn]

theorem hyg_write {L : List NType} (hL : WFL L) {d : Disk} (hH : Hyg L d) {t : NType} (ht : t ∈ L) (g : GFile)
    (hgn : g.name = t.file) (hgd : ∀ p ∈ g.defs, p.1 ∈ ifacesOf t.name) : Hyg L (writeFile d g) := by
  constructor
  · intro f hf u hu hfu p hp
    rcases List.mem_cons.mp hf with rfl | hf
    · have : t = u := inj_of_nodup_map (·.file) L hL.files t ht u hu (hgn.symm.trans hfu)
      exact this ▸ hgd p hp
    · exact hH.own f (List.mem_filter.mp hf).1 u hu hfu p hp
  · intro f hf u hu p hp hpu
    rcases List.mem_cons.mp hf with rfl | hf
    · have hn : t.name = u.name := ifacesOf_disjoint (hgd p hp) hpu
      have : t = u := inj_of_nodup_map (·.name) L hL.names t ht u hu hn
      exact this ▸ hgn
    · exact hH.only f (List.mem_filter.mp hf).1 u hu p hp hpu

/-! ### agreement of two directories on a set of interfaces closed under embedding -/

theorem methodsOf_agree {a b : Disk} (S : String → Prop)
    (hag : ∀ i, S i → findDef a i = findDef b i)
    (hcl : ∀ i, S i → ∀ D, findDef a i = some D → ∀ j ∈ D.embeds, S j) :
    ∀ (fuel : Nat) (i : String), S i → methodsOf a fuel i = methodsOf b fuel i := by
  intro fuel
  induction fuel with
  | zero => intro i _; rw [methodsOf, methodsOf]
  | succ n ih =>
    intro i hi
    rw [methodsOf, methodsOf, ← hag i hi]
    cases hD : findDef a i with
    | none => rfl
    | some D =>
      have : D.embeds.flatMap (methodsOf a n) = D.embeds.flatMap (methodsOf b n) :=
        flatMap_congr' (fun j hj => ih j (hcl i hi D hD j hj))
      show D.embeds.flatMap (methodsOf a n) ++ D.methods = D.embeds.flatMap (methodsOf b n) ++ D.methods
      rw [this]

theorem lookupIface_agree {a b : Disk} (S : String → Prop)
    (hag : ∀ i, S i → findDef a i = findDef b i)
    (hcl : ∀ i, S i → ∀ D, findDef a i = some D → ∀ j ∈ D.embeds, S j) (i : String) (hi : S i) :
    lookupIface a i = lookupIface b i := by
  unfold lookupIface
  rw [← hag i hi, methodsOf_agree S hag hcl 16 i hi]

theorem newStep_agree (lk : Leaks) (fl : NFlags) {a b : Disk} (S : String → Prop)
    (hag : ∀ i, S i → findDef a i = findDef b i)
    (hcl : ∀ i, S i → ∀ D, findDef a i = some D → ∀ j ∈ D.embeds, S j)
    (st : NSt) (t : NType) (hS : ∀ e ∈ embedsOf t, S (e ++ "Getter") ∧ S (e ++ "Setter")) :
    newStep lk fl a st t = newStep lk fl b st t :=
  newStep_files_congr lk fl a b st t (fun e he =>
    ⟨lookupIface_agree S hag hcl _ (hS e he).1, lookupIface_agree S hag hcl _ (hS e he).2⟩)

/-! ### what a `new` step puts into the type's accessor interfaces -/

def soloOut (lk : Leaks) (fl : NFlags) (d : Disk) (t : NType) : Option NOut := (newStep lk fl d {} t).2

theorem embedIfaces_sub (on : Bool) (files : Disk) (sfx : String) (xs : List String) :
    ∀ p ∈ embedIfaces on files sfx xs, p.1 ∈ xs := by
  intro p hp
  unfold embedIfaces at hp
  cases on with
  | false => rw [if_neg (by decide)] at hp; cases hp
  | true =>
    rw [if_pos rfl, List.mem_filterMap] at hp
    obtain ⟨e, he, h⟩ := hp
    cases hl : lookupIface files (e ++ sfx) with
    | none => rw [hl] at h; cases h
    | some ms => rw [hl] at h; cases h; exact he

theorem mkIface_embeds {has : Bool} {E : List (String × List String)} {sfx : String} {ms : List String} {D : IfaceDef}
    (h : mkIface has E sfx ms = some D) : D.embeds = E.map (·.1 ++ sfx) := by
  unfold mkIface at h
  cases has with
  | false => rw [if_neg (by decide)] at h; cases h
  | true => rw [if_pos rfl] at h; cases h; rfl

theorem newStep_ifaces (lk : Leaks) (fl : NFlags) (d : Disk) (st : NSt) (t : NType) (o : NOut)
    (h : (newStep lk fl d st t).2 = some o) :
    (∃ has ms, o.ifaceGet = mkIface has (embedIfaces (switchOf fl t).1 d "Getter" (embedsOf t)) "Getter" ms) ∧
    (∃ has ms, o.ifaceSet = mkIface has (embedIfaces (switchOf fl t).2 d "Setter" (embedsOf t)) "Setter" ms) := by
  unfold newStep newCore at h
  simp only [Option.some.injEq] at h
  subst h
  exact ⟨⟨_, _, rfl⟩, ⟨_, _, rfl⟩⟩

theorem newStep_isSome (lk : Leaks) (fl : NFlags) (d : Disk) (st : NSt) (t : NType) :
    ∃ o, (newStep lk fl d st t).2 = some o := by
  unfold newStep newCore
  exact ⟨_, rfl⟩

/-- the interfaces embedded by the generated `<T>Getter` / `<T>Setter` belong to struct types that T embeds -/
theorem soloOut_embeds (lk : Leaks) (fl : NFlags) (d : Disk) (st : NSt) (t : NType) (o : NOut)
    (h : (newStep lk fl d st t).2 = some o) :
    ∀ p ∈ (newGFile t o).defs, ∀ j ∈ p.2.embeds, ∃ e ∈ embedsOf t, j ∈ ifacesOf e := by
  obtain ⟨⟨hasG, msG, hG⟩, ⟨hasS, msS, hS⟩⟩ := newStep_ifaces lk fl d st t o h
  intro p hp j hj
  unfold newGFile at hp
  simp only [List.mem_append] at hp
  rcases hp with hp | hp
  · cases hg : o.ifaceGet with
    | none => rw [hg] at hp; cases hp
    | some D =>
      rw [hg] at hp
      simp only [List.mem_singleton] at hp
      subst hp
      rw [mkIface_embeds (hG ▸ hg), List.mem_map] at hj
      obtain ⟨q, hq, rfl⟩ := hj
      exact ⟨q.1, embedIfaces_sub _ _ _ _ q hq, mem_ifacesOf_getter q.1⟩
  · cases hg : o.ifaceSet with
    | none => rw [hg] at hp; cases hp
    | some D =>
      rw [hg] at hp
      simp only [List.mem_singleton] at hp
      subst hp
      rw [mkIface_embeds (hS ▸ hg), List.mem_map] at hj
      obtain ⟨q, hq, rfl⟩ := hj
      exact ⟨q.1, embedIfaces_sub _ _ _ _ q hq, mem_ifacesOf_setter q.1⟩

/-! ### runs over a dependencies-first list -/

/-- an interface of a type that is still to be processed -/
def Pending (rest : List NType) (i : String) : Prop := ∃ u ∈ rest, i ∈ ifacesOf u.name

/-- every type comes after the listed types it embeds -/
def DepsFirst : List NType → Prop
  | [] => True
  | t :: ts => (∀ e ∈ embedsOf t, ∀ u ∈ t :: ts, u.name ≠ e) ∧ DepsFirst ts

/-- no interface that is already final embeds one that is still pending -/
def Clo (rest : List NType) (cur : Disk) : Prop :=
  ∀ i, ¬ Pending rest i → ∀ D, findDef cur i = some D → ∀ j ∈ D.embeds, ¬ Pending rest j

def Agree (rest : List NType) (a b : Disk) : Prop := ∀ i, ¬ Pending rest i → findDef a i = findDef b i

/-- the sequence of separate processes (`oneAtATime` for `new`) and the directory it leaves -/
def seqRun (lk : Leaks) (fl : NFlags) : Disk → List NType → List (NType × NOut) := oneAtATime (newMachine lk fl)

def runDisk (lk : Leaks) (fl : NFlags) : Disk → List NType → Disk
  | d, [] => d
  | d, t :: ts =>
    match soloOut lk fl d t with
    | none => runDisk lk fl d ts
    | some o => runDisk lk fl (writeFile d (newGFile t o)) ts

theorem seqRun_cons (lk : Leaks) (fl : NFlags) (d : Disk) (t : NType) (ts : List NType) (o : NOut)
    (h : soloOut lk fl d t = some o) :
    seqRun lk fl d (t :: ts) = (t, o) :: seqRun lk fl (writeFile d (newGFile t o)) ts := by
  unfold seqRun
  rw [oneAtATime]
  have : solo (newMachine lk fl) d t = some o := h
  rw [this]
  rfl

theorem runDisk_cons (lk : Leaks) (fl : NFlags) (d : Disk) (t : NType) (ts : List NType) (o : NOut)
    (h : soloOut lk fl d t = some o) :
    runDisk lk fl d (t :: ts) = runDisk lk fl (writeFile d (newGFile t o)) ts := by
  rw [runDisk, h]

theorem not_pending_embed {t : NType} {ts : List NType} (hd : DepsFirst (t :: ts)) {e : String} (he : e ∈ embedsOf t)
    {j : String} (hj : j ∈ ifacesOf e) : ¬ Pending (t :: ts) j := by
  rintro ⟨u, hu, hju⟩
  exact hd.1 e he u hu (ifacesOf_disjoint hju hj)

theorem pending_tail {t : NType} {ts : List NType} {i : String} (h : Pending ts i) : Pending (t :: ts) i := by
  obtain ⟨u, hu, hi⟩ := h
  exact ⟨u, List.mem_cons_of_mem _ hu, hi⟩

theorem not_pending_cons {t : NType} {ts : List NType} {i : String} (h1 : i ∉ ifacesOf t.name) (h2 : ¬ Pending ts i) :
    ¬ Pending (t :: ts) i := by
  rintro ⟨u, hu, hi⟩
  rcases List.mem_cons.mp hu with rfl | hu
  · exact h1 hi
  · exact h2 ⟨u, hu, hi⟩

/-- one step keeps hygiene and closure -/
theorem step_inv (lk : Leaks) (fl : NFlags) {L : List NType} (hL : WFL L) {t : NType} {ts : List NType} (ht : t ∈ L)
    {cur : Disk} (hH : Hyg L cur) (hC : Clo (t :: ts) cur) (hd : DepsFirst (t :: ts)) {o : NOut}
    (ho : soloOut lk fl cur t = some o) :
    Hyg L (writeFile cur (newGFile t o)) ∧ Clo ts (writeFile cur (newGFile t o)) := by
  refine ⟨hyg_write hL hH ht _ (newGFile_name t o) (newGFile_defs t o), ?_⟩
  intro i hi D hD j hj
  rw [findDef_write hH ht _ (newGFile_name t o) (newGFile_defs t o)] at hD
  by_cases hit : i ∈ ifacesOf t.name
  · rw [if_pos hit] at hD
    -- D is one of the freshly generated interfaces of t
    have hmem : (i, D) ∈ (newGFile t o).defs := lookup_some_mem _ i D hD
    obtain ⟨e, he, hje⟩ := soloOut_embeds lk fl cur {} t o ho (i, D) hmem j hj
    exact fun hp => not_pending_embed hd he hje (pending_tail hp)
  · rw [if_neg hit] at hD
    exact fun hp => hC i (not_pending_cons hit hi) D hD j hj (pending_tail hp)

/-- the two directories give the same output for the next type, and stay in agreement -/
theorem step_agree (lk : Leaks) (fl : NFlags) {L : List NType} {t : NType} {ts : List NType} (ht : t ∈ L)
    {a b : Disk} (hHa : Hyg L a) (hHb : Hyg L b) (hC : Clo (t :: ts) a) (hA : Agree (t :: ts) a b)
    (hd : DepsFirst (t :: ts)) :
    soloOut lk fl a t = soloOut lk fl b t ∧
    ∀ o, Agree ts (writeFile a (newGFile t o)) (writeFile b (newGFile t o)) := by
  constructor
  · exact congrArg Prod.snd (newStep_agree lk fl (fun i => ¬ Pending (t :: ts) i) hA hC {} t
      (fun e he => ⟨not_pending_embed hd he (mem_ifacesOf_getter e), not_pending_embed hd he (mem_ifacesOf_setter e)⟩))
  · intro o i hi
    rw [findDef_write hHa ht _ (newGFile_name t o) (newGFile_defs t o),
        findDef_write hHb ht _ (newGFile_name t o) (newGFile_defs t o)]
    by_cases hit : i ∈ ifacesOf t.name
    · rw [if_pos hit, if_pos hit]
    · rw [if_neg hit, if_neg hit]
      exact hA i (not_pending_cons hit hi)

/-! ### run-level theorems -/

theorem soloOut_isSome (lk : Leaks) (fl : NFlags) (d : Disk) (t : NType) : ∃ o, soloOut lk fl d t = some o :=
  newStep_isSome lk fl d {} t

/-- a run rewrites only the interfaces of the listed types -/
theorem runDisk_unlisted (lk : Leaks) (fl : NFlags) {L : List NType} (hL : WFL L) :
    ∀ (ts : List NType) (a : Disk), (∀ t ∈ ts, t ∈ L) → Hyg L a →
      Hyg L (runDisk lk fl a ts) ∧ ∀ i, ¬ Pending ts i → findDef (runDisk lk fl a ts) i = findDef a i := by
  intro ts
  induction ts with
  | nil => intro a _ hH; exact ⟨hH, fun _ _ => rfl⟩
  | cons t ts ih =>
    intro a hsub hH
    obtain ⟨o, ho⟩ := soloOut_isSome lk fl a t
    have ht : t ∈ L := hsub t (List.mem_cons_self ..)
    have hH' := hyg_write hL hH ht _ (newGFile_name t o) (newGFile_defs t o)
    have := ih (writeFile a (newGFile t o)) (fun u hu => hsub u (List.mem_cons_of_mem _ hu)) hH'
    rw [runDisk_cons lk fl a t ts o ho]
    refine ⟨this.1, ?_⟩
    intro i hi
    have hit : i ∉ ifacesOf t.name := fun h => hi ⟨t, List.mem_cons_self .., h⟩
    rw [this.2 i (fun hp => hi (pending_tail hp)), findDef_write hH ht _ (newGFile_name t o) (newGFile_defs t o), if_neg hit]

/-- stale independence at run level: two hygienic directories that agree on the interfaces of the types that are
    NOT in the list give the same run; afterwards they agree on every interface -/
theorem seqRun_agree (lk : Leaks) (fl : NFlags) {L : List NType} (hL : WFL L) :
    ∀ (ts : List NType) (a b : Disk), (∀ t ∈ ts, t ∈ L) → Hyg L a → Hyg L b → Clo ts a → Agree ts a b → DepsFirst ts →
      seqRun lk fl a ts = seqRun lk fl b ts ∧ Agree [] (runDisk lk fl a ts) (runDisk lk fl b ts) := by
  intro ts
  induction ts with
  | nil => intro a b _ _ _ _ hA _; exact ⟨rfl, hA⟩
  | cons t ts ih =>
    intro a b hsub hHa hHb hC hA hd
    obtain ⟨o, ho⟩ := soloOut_isSome lk fl a t
    have ht : t ∈ L := hsub t (List.mem_cons_self ..)
    have hst := step_agree lk fl ht hHa hHb hC hA hd
    have hob : soloOut lk fl b t = some o := hst.1 ▸ ho
    have hinv := step_inv lk fl hL ht hHa hC hd ho
    have hHb' := hyg_write hL hHb ht _ (newGFile_name t o) (newGFile_defs t o)
    have := ih _ _ (fun u hu => hsub u (List.mem_cons_of_mem _ hu)) hinv.1 hHb' hinv.2 (hst.2 o) hd.2
    rw [seqRun_cons lk fl a t ts o ho, seqRun_cons lk fl b t ts o hob, runDisk_cons lk fl a t ts o ho,
      runDisk_cons lk fl b t ts o hob, this.1]
    exact ⟨rfl, this.2⟩

theorem pending_perm {ts ts' : List NType} (hp : ts'.Perm ts) (i : String) : Pending ts' i ↔ Pending ts i := by
  constructor
  · rintro ⟨u, hu, hi⟩; exact ⟨u, hp.mem_iff.mp hu, hi⟩
  · rintro ⟨u, hu, hi⟩; exact ⟨u, hp.mem_iff.mpr hu, hi⟩

/-- fixpoint: running again over the directory the run has left gives the same run -/
theorem seqRun_fixpoint (lk : Leaks) (fl : NFlags) {L : List NType} (hL : WFL L) (ts : List NType) (a : Disk)
    (hsub : ∀ t ∈ ts, t ∈ L) (hH : Hyg L a) (hC : Clo ts a) (hd : DepsFirst ts) :
    seqRun lk fl (runDisk lk fl a ts) ts = seqRun lk fl a ts := by
  have hu := runDisk_unlisted lk fl hL ts a hsub hH
  exact ((seqRun_agree lk fl hL ts a _ hsub hH hu.1 hC (fun i hi => (hu.2 i hi).symm) hd).1).symm

/-- every type's output in a dependencies-first run is its output against the FINAL directory, and the final
    directory holds, for the interfaces of each listed type, exactly what that output declares -/
theorem runChar (lk : Leaks) (fl : NFlags) {L : List NType} (hL : WFL L) :
    ∀ (ts : List NType) (d : Disk), (∀ t ∈ ts, t ∈ L) → (ts.map (·.name)).Nodup → Hyg L d → Clo ts d → DepsFirst ts →
      seqRun lk fl d ts = ts.map (fun t => (t, (soloOut lk fl (runDisk lk fl d ts) t).getD default)) ∧
      ∀ t ∈ ts, ∀ o, soloOut lk fl (runDisk lk fl d ts) t = some o →
        ∀ i ∈ ifacesOf t.name, findDef (runDisk lk fl d ts) i = (newGFile t o).defs.lookup i := by
  intro ts
  induction ts with
  | nil => intro d _ _ _ _ _; exact ⟨rfl, fun t ht => by cases ht⟩
  | cons t ts ih =>
    intro d hsub hnd hH hC hd
    obtain ⟨o, ho⟩ := soloOut_isSome lk fl d t
    have ht : t ∈ L := hsub t (List.mem_cons_self ..)
    have hsub' : ∀ u ∈ ts, u ∈ L := fun u hu => hsub u (List.mem_cons_of_mem _ hu)
    simp only [List.map_cons, List.nodup_cons] at hnd
    have hinv := step_inv lk fl hL ht hH hC hd ho
    have hu := runDisk_unlisted lk fl hL ts (writeFile d (newGFile t o)) hsub' hinv.1
    have hIH := ih (writeFile d (newGFile t o)) hsub' hnd.2 hinv.1 hinv.2 hd.2
    rw [runDisk_cons lk fl d t ts o ho]
    -- t's own interfaces are not pending in the tail
    have hnp : ∀ i ∈ ifacesOf t.name, ¬ Pending ts i := by
      rintro i hi ⟨u, hu', hiu⟩
      exact hnd.1 (List.mem_map.mpr ⟨u, hu', ifacesOf_disjoint hiu hi⟩)
    -- the output of t against the final directory is its output in the run
    have hfd : soloOut lk fl (runDisk lk fl (writeFile d (newGFile t o)) ts) t = some o := by
      have hag : ∀ i, ¬ Pending (t :: ts) i →
          findDef d i = findDef (runDisk lk fl (writeFile d (newGFile t o)) ts) i := by
        intro i hi
        have hit : i ∉ ifacesOf t.name := fun h => hi ⟨t, List.mem_cons_self .., h⟩
        rw [hu.2 i (fun hp => hi (pending_tail hp)), findDef_write hH ht _ (newGFile_name t o) (newGFile_defs t o), if_neg hit]
      rw [← ho]
      exact (congrArg Prod.snd (newStep_agree lk fl (fun i => ¬ Pending (t :: ts) i) hag hC {} t
        (fun e he => ⟨not_pending_embed hd he (mem_ifacesOf_getter e), not_pending_embed hd he (mem_ifacesOf_setter e)⟩))).symm
    constructor
    · rw [seqRun_cons lk fl d t ts o ho, hIH.1, List.map_cons, hfd]
      rfl
    · intro u hu' o' ho' i hi
      rcases List.mem_cons.mp hu' with rfl | hu'
      · rw [hfd] at ho'
        cases ho'
        rw [hu.2 i (hnp i hi), findDef_write hH ht _ (newGFile_name _ o) (newGFile_defs _ o), if_pos hi]
      · exact hIH.2 u hu' o' ho' i hi

/-- order independence: any dependencies-first arrangement of the same types gives every type the same output -/
theorem seqRun_perm (lk : Leaks) (fl : NFlags) {L : List NType} (hL : WFL L) (ts : List NType) (d : Disk)
    (hsub : ∀ t ∈ ts, t ∈ L) (hnd : (ts.map (·.name)).Nodup) (hH : Hyg L d) (hC : Clo ts d) (hd : DepsFirst ts)
    (ts' : List NType) (hp : ts'.Perm ts) (hd' : DepsFirst ts') :
    seqRun lk fl d ts' = ts'.map (fun t => (t, (soloOut lk fl (runDisk lk fl d ts) t).getD default)) := by
  have hch := runChar lk fl hL ts d hsub hnd hH hC hd
  have hu := runDisk_unlisted lk fl hL ts d hsub hH
  -- generalised over the remaining list and the current directory
  have key : ∀ (r : List NType) (cur : Disk), (∀ t ∈ r, t ∈ ts) → Hyg L cur → Clo r cur → DepsFirst r →
      (∀ i, ¬ Pending r i → findDef cur i = findDef (runDisk lk fl d ts) i) →
      seqRun lk fl cur r = r.map (fun t => (t, (soloOut lk fl (runDisk lk fl d ts) t).getD default)) := by
    intro r
    induction r with
    | nil => intro _ _ _ _ _ _; rfl
    | cons t r ih =>
      intro cur hr hHc hCc hdr hAg
      obtain ⟨o, ho⟩ := soloOut_isSome lk fl cur t
      have htts : t ∈ ts := hr t (List.mem_cons_self ..)
      have ht : t ∈ L := hsub t htts
      have hfd : soloOut lk fl (runDisk lk fl d ts) t = some o := by
        rw [← ho]
        exact (congrArg Prod.snd (newStep_agree lk fl (fun i => ¬ Pending (t :: r) i) hAg hCc {} t
          (fun e he => ⟨not_pending_embed hdr he (mem_ifacesOf_getter e), not_pending_embed hdr he (mem_ifacesOf_setter e)⟩))).symm
      have hinv := step_inv lk fl hL ht hHc hCc hdr ho
      rw [seqRun_cons lk fl cur t r o ho, List.map_cons, hfd]
      rw [ih _ (fun u hu' => hr u (List.mem_cons_of_mem _ hu')) hinv.1 hinv.2 hdr.2]
      · rfl
      · intro i hi
        rw [findDef_write hHc ht _ (newGFile_name t o) (newGFile_defs t o)]
        by_cases hit : i ∈ ifacesOf t.name
        · rw [if_pos hit, hch.2 t htts o hfd i hit]
        · rw [if_neg hit]
          exact hAg i (not_pending_cons hit hi)
  apply key ts' d (fun t ht => hp.mem_iff.mp ht) hH _ hd'
  · intro i hi
    exact (hu.2 i (fun h => hi ((pending_perm hp i).mpr h))).symm
  · intro i hi D hD j hj hpj
    exact hC i (fun h => hi ((pending_perm hp i).mpr h)) D hD j hj ((pending_perm hp j).mp hpj)

end ShootVerif.GenState
