import ShootVerif.Proofs.MapperPairs
/-
C09: the closure of the emitted guard / allocation lists ("the embedded pointers crossed by an entry
come earlier in the list") DERIVED from the generator's own `sort.Strings`: a proper prefix path is a
proper prefix of the dotted string, hence sorts first.
-/
namespace ShootVerif.Mapper
open ShootVerif.MapSort

theorem pathCodes_cons (c : String) (cs : List String) (h : cs ≠ []) :
    pathCodes (c :: cs) = strCodes c ++ 46 :: pathCodes cs := by
  cases cs with
  | nil => exact absurd rfl h
  | cons d ds => rfl

theorem pathCodes_append (a b : List String) (ha : a ≠ []) (hb : b ≠ []) :
    pathCodes (a ++ b) = pathCodes a ++ 46 :: pathCodes b := by
  induction a with
  | nil => exact absurd rfl ha
  | cons c cs ih =>
    cases cs with
    | nil =>
      simp only [List.cons_append, List.nil_append]
      rw [pathCodes_cons c b hb]; rfl
    | cons d ds =>
      have : (c :: d :: ds) ++ b = c :: ((d :: ds) ++ b) := rfl
      rw [this, pathCodes_cons c _ (by simp), ih (by simp), pathCodes_cons c (d :: ds) (by simp)]
      simp [List.append_assoc]

theorem mem_properPrefixes (p h : List String) :
    h ∈ properPrefixes p ↔ ∃ i, 0 < i ∧ i < p.length ∧ h = p.take i := by
  simp only [properPrefixes, List.mem_filterMap, List.mem_range]
  constructor
  · rintro ⟨i, hi, he⟩
    by_cases h0 : i = 0
    · simp [h0] at he
    · simp only [h0, ↓reduceIte, Option.some.injEq] at he
      exact ⟨i, Nat.pos_of_ne_zero h0, hi, he.symm⟩
  · rintro ⟨i, h0, hi, rfl⟩
    exact ⟨i, hi, by simp [Nat.ne_of_gt h0]⟩

theorem mem_hops (pp : List (List String)) (p h : List String) :
    h ∈ hops pp p ↔ h ∈ pp ∧ ∃ i, 0 < i ∧ i < p.length ∧ h = p.take i := by
  simp only [hops, List.mem_filter, List.contains_iff_mem, mem_properPrefixes]
  exact ⟨fun ⟨a, b⟩ => ⟨b, a⟩, fun ⟨a, b⟩ => ⟨b, a⟩⟩

/-- a crossed pointer's dotted path is a proper prefix of the field's: it sorts first -/
theorem hops_lt (pp : List (List String)) (p h : List String) (hh : h ∈ hops pp p) :
    ltCodes (pathCodes h) (pathCodes p) = true := by
  obtain ⟨_, i, h0, hi, rfl⟩ := (mem_hops pp p h).mp hh
  have h1 : p.take i ≠ [] := by
    intro e
    have := congrArg List.length e
    rw [List.length_take] at this
    simp only [List.length_nil] at this
    omega
  have h2 : p.drop i ≠ [] := by
    intro e
    have := congrArg List.length e
    rw [List.length_drop] at this
    simp only [List.length_nil] at this
    omega
  have e : pathCodes p = pathCodes (p.take i) ++ 46 :: pathCodes (p.drop i) := by
    rw [← pathCodes_append _ _ h1 h2, List.take_append_drop]
  rw [e]
  exact ltCodes_prefix _ _ _

/-- the pointers crossed on the way to a crossed pointer are crossed on the way to the field -/
theorem hops_trans (pp : List (List String)) (p g h : List String) (hg : g ∈ hops pp p) (hh : h ∈ hops pp g) :
    h ∈ hops pp p := by
  obtain ⟨_, j, j0, hj, rfl⟩ := (mem_hops pp p g).mp hg
  obtain ⟨hpp, i, i0, hi, rfl⟩ := (mem_hops pp _ h).mp hh
  refine (mem_hops pp p _).mpr ⟨hpp, i, i0, ?_, ?_⟩
  · simp at hi; omega
  · simp at hi
    rw [List.take_take]
    congr 1
    omega

/-- the list is closed under "pointer crossed on the way" -/
def Closed (pp : List (List String)) (l : List (List String)) : Prop := ∀ g ∈ l, ∀ h ∈ hops pp g, h ∈ l

theorem chainOk_of (pp : List (List String)) (l seen : List (List String))
    (h : ∀ l1 g l2, l = l1 ++ g :: l2 → ∀ x ∈ hops pp g, x ∈ seen ∨ x ∈ l1) : chainOk pp seen l = true := by
  induction l generalizing seen with
  | nil => rfl
  | cons g gs ih =>
    simp only [chainOk, Bool.and_eq_true, List.all_eq_true, List.contains_iff_mem]
    constructor
    · intro x hx
      rcases h [] g gs rfl x hx with h1 | h1
      · exact h1
      · cases h1
    · apply ih
      intro l1 g' l2 e x hx
      rcases h (g :: l1) g' l2 (by rw [e]; rfl) x hx with h1 | h1
      · exact Or.inl (List.mem_append_left _ h1)
      · rcases List.mem_cons.mp h1 with rfl | h2
        · exact Or.inl (List.mem_append_right _ (by simp))
        · exact Or.inr h2

/-- a sorted, closed path list is a chain: what `sort.Strings` buys the generator -/
theorem chain_of_sorted_closed (pp : List (List String)) (l : List (List String))
    (hs : Sorted pathCodes l) (hc : Closed pp l) : chainOk pp [] l = true := by
  apply chainOk_of
  intro l1 g l2 e x hx
  right
  subst e
  exact before_of_lt pathCodes l1 l2 g x hs (hc g (by simp) x hx) (hops_lt pp g x hx)

/-! ## the read guard -/

theorem readPaths_eq_hops (pp : List (List String)) (f : Field) : readPaths pp f = hops pp f.path := rfl

theorem hops_closed (pp : List (List String)) (p : List String) : Closed pp (hops pp p) :=
  fun g hg h hh => hops_trans pp p g h hg hh

/-- `condofread` sorts the read paths — and may: the result is a chain -/
theorem readGuard_chain (pp : List (List String)) (f : Field) : chainOk pp [] (readGuard pp f) = true := by
  unfold readGuard
  split
  · apply chain_of_sorted_closed
    · exact sorted_isort pathCodes _
    · intro g hg h hh
      rw [sortPaths, mem_isort] at hg ⊢
      rw [readPaths_eq_hops] at hg ⊢
      exact hops_trans pp _ g h hg hh
  · rfl

/-- the guard tests exactly the pointers the read crosses -/
theorem readGuard_mem (pp : List (List String)) (f : Field) (h : List String) :
    h ∈ readGuard pp f ↔ h ∈ hops pp f.path := by
  unfold readGuard
  split
  · rw [sortPaths, mem_isort, readPaths_eq_hops]
  · rename_i hne
    simp only [Field.isEmbedded, decide_eq_true_eq, Nat.not_lt] at hne
    constructor
    · intro h'; cases h'
    · intro h'
      obtain ⟨_, i, h0, hi, _⟩ := (mem_hops pp f.path h).mp h'
      omega

/-! ## the allocation list -/

theorem mem_allocPaths (pp : List (List String)) (fields : List Field) (written : Field → Bool) (p : List String) :
    p ∈ allocPaths pp fields written ↔
      p ∈ pp ∧ ∃ f ∈ fields, written f = true ∧ f.isEmbedded = true ∧ coveredBy f p = true := by
  unfold allocPaths
  rw [sortPaths, mem_isort, List.mem_eraseDups, List.mem_filter]
  simp only [List.any_eq_true, Bool.and_eq_true]
  constructor
  · rintro ⟨h1, f, hf, ⟨h2, h3⟩, h4⟩
    exact ⟨h1, f, hf, h2, h3, h4⟩
  · rintro ⟨h1, f, hf, h2, h3, h4⟩
    exact ⟨h1, f, hf, ⟨h2, h3⟩, h4⟩

theorem isPrefix_take (p q : List String) (h : p.isPrefixOf q = true) : p = q.take p.length := by
  have := List.isPrefixOf_iff_prefix.mp h
  obtain ⟨t, rfl⟩ := this
  simp

/-- every pointer crossed on the way to a written promoted field is allocated -/
theorem alloc_covers (pp : List (List String)) (fields : List Field) (written : Field → Bool) (f : Field)
    (hf : f ∈ fields) (hw : written f = true) (h : List String) (hh : h ∈ hops pp f.path) :
    h ∈ allocPaths pp fields written := by
  obtain ⟨hpp, i, h0, hi, rfl⟩ := (mem_hops pp f.path h).mp hh
  refine (mem_allocPaths pp fields written _).mpr ⟨hpp, f, hf, hw, ?_, ?_⟩
  · simp [Field.isEmbedded]; omega
  · simp only [coveredBy, Bool.or_eq_true, Bool.and_eq_true, decide_eq_true_eq]
    right
    constructor
    · exact List.isPrefixOf_iff_prefix.mpr (List.take_prefix i f.path)
    · simp; omega

/-- the allocation list is closed (`CoveredBy` only fires for the path itself and its proper prefixes) and sorted: a chain -/
theorem alloc_chain (pp : List (List String)) (fields : List Field) (written : Field → Bool) :
    chainOk pp [] (allocPaths pp fields written) = true := by
  apply chain_of_sorted_closed
  · exact sorted_isort pathCodes _
  · intro g hg h hh
    obtain ⟨hgpp, f, hf, hw, he, hcov⟩ := (mem_allocPaths pp fields written g).mp hg
    have := hcov
    simp only [coveredBy, Bool.or_eq_true, beq_iff_eq, Bool.and_eq_true, decide_eq_true_eq] at this
    -- g is the field's path or a proper prefix of it: in both cases h is crossed on the way to the field
    have hhf : h ∈ hops pp f.path := by
      rcases this with e | ⟨hpre, hlen⟩
      · rw [e]; exact hh
      · have hg' : g ∈ hops pp f.path := by
          refine (mem_hops pp f.path g).mpr ⟨hgpp, g.length, ?_, hlen, isPrefix_take g f.path hpre⟩
          obtain ⟨_, i, h0, hi, _⟩ := (mem_hops pp g h).mp hh
          omega
        exact hops_trans pp f.path g h hg' hh
    exact alloc_covers pp fields written f hf hw h hhf


/-! ## WF09 ⇒ the tables are closed -/

theorem stmtTablesOk_of (rs ws : SideSem) (fields : List Field) (written : Field → Bool) (c : Claim)
    (hr : pathAgrees rs.tree c.rd = true) (hw : pathAgrees ws.tree c.wr = true)
    (hf : c.wr ∈ fields) (hwr : written c.wr = true) :
    stmtTablesOk rs ws (allocPaths ws.ptrs fields written) c = true := by
  unfold pathAgrees at hr hw
  unfold stmtTablesOk
  cases h1 : resolveField rs.tree c.rd with
  | none => simp [h1] at hr
  | some rl =>
    cases h2 : resolveField ws.tree c.wr with
    | none => simp [h2] at hw
    | some wl =>
      simp only [h1, h2, beq_iff_eq] at hr hw
      simp only [Bool.and_eq_true, List.all_eq_true, List.contains_iff_mem]
      refine ⟨⟨⟨readGuard_chain rs.ptrs c.rd, ?_⟩, ?_⟩, ?_⟩
      · intro h hh; rw [hr] at hh; exact (readGuard_mem rs.ptrs c.rd h).mpr hh
      · intro h hh; rw [hr]; exact (readGuard_mem rs.ptrs c.rd h).mp hh
      · intro h hh; rw [hw] at hh; exact alloc_covers ws.ptrs fields written c.wr hf hwr h hh

/-- the closure of the emitted guard and allocation lists follows from the input-level clauses of WF09
    and the generator's sort — for every input -/
theorem tablesOk_of_WF09 (inp : Input) (h : WF09 inp = true) : TablesOk inp = true := by
  simp only [WF09, Bool.and_eq_true, List.all_eq_true] at h
  obtain ⟨⟨⟨_, _⟩, hto⟩, hfrom⟩ := h
  obtain ⟨_, _, hinv⟩ := plan_inv inp
  simp only [TablesOk, Bool.and_eq_true, List.all_eq_true]
  refine ⟨⟨⟨alloc_chain _ _ _, alloc_chain _ _ _⟩, ?_⟩, ?_⟩
  · intro c hc
    have hp := (hinv.toPair c (stmts_sub hc).1).1
    have hm := (mem_pairs _ _ _ _ _).mp hp
    have := hto c hc
    exact stmtTablesOk_of inp.srcSem inp.destSem _ _ c this.1 this.2 hm.2.1 (by
      show List.contains _ _ = true
      rw [List.contains_iff_mem]
      exact List.mem_map.mpr ⟨c, hc, rfl⟩)
  · intro c hc
    have hp := (hinv.fromPair c (stmts_sub hc).1).1
    have hm := (mem_pairs _ _ _ _ _).mp hp
    have := hfrom c hc
    exact stmtTablesOk_of inp.destSem inp.srcSem _ _ c this.1 this.2 hm.1 (by
      show List.contains _ _ = true
      rw [List.contains_iff_mem]
      exact List.mem_map.mpr ⟨c, (stmts_sub hc).1, rfl⟩)

end ShootVerif.Mapper
