import ShootVerif.Proofs.CtorSpec
/-!
556fe6f: `checkShadowAndAppend` also marks two entries of the same name at the same positive depth (fields promoted
ambiguously through two embedded structs: Go promotes neither). `appendCheckAmb` / `flattenCode` model that rule; on
trees without such a pair (`noAmbiguous`, part of every asserted region) the rule never fires and the generator's list
is the `flatten` all theorems are about.
-/
namespace ShootVerif.Ctor

/-- `checkShadowAndAppend` with the equal-depth rule -/
def appendCheckAmb (fs : List Field) (x : Field) : List Field :=
  fs.map (fun f => if f.name = x.name ∧ (x.depth < f.depth ∨ (f.depth = x.depth ∧ 0 < x.depth))
      then { f with isShadowed := true } else f)
    ++ [{ x with isShadowed := (x.isShadowed || fs.any (fun f => f.name = x.name ∧ (f.depth < x.depth ∨ (f.depth = x.depth ∧ 0 < x.depth)))) }]

/-- the generator's `g.fields` as the code computes it -/
def flattenCode (t : Tree) : List Field :=
  ((walkTop noShadow t).foldl appendCheckAmb []).map (hideBy (hiddenAll 0 t))

def fkey (f : Field) : String × Nat := (f.name, f.depth)

theorem any_congr_mem {α : Type} {p q : α → Bool} : ∀ l : List α, (∀ a ∈ l, p a = q a) → l.any p = l.any q := by
  intro l
  induction l with
  | nil => intro _; rfl
  | cons x xs ih =>
    intro h
    simp only [List.any_cons, h x (by simp), ih (fun a ha => h a (by simp [ha]))]

theorem appendCheckAmb_eq (fs : List Field) (x : Field)
    (h : ∀ f ∈ fs, ¬ (f.name = x.name ∧ f.depth = x.depth ∧ 0 < x.depth)) :
    appendCheckAmb fs x = appendCheck fs x := by
  unfold appendCheckAmb appendCheck
  have hmap : fs.map (fun f => if f.name = x.name ∧ (x.depth < f.depth ∨ (f.depth = x.depth ∧ 0 < x.depth))
        then { f with isShadowed := true } else f) =
      fs.map (fun f => if f.name = x.name ∧ x.depth < f.depth then { f with isShadowed := true } else f) := by
    apply List.map_congr_left
    intro f hf
    have hn := h f hf
    by_cases h1 : f.name = x.name ∧ x.depth < f.depth
    · have h2 : f.name = x.name ∧ (x.depth < f.depth ∨ (f.depth = x.depth ∧ 0 < x.depth)) := ⟨h1.1, Or.inl h1.2⟩
      rw [if_pos h2, if_pos h1]
    · have h2 : ¬ (f.name = x.name ∧ (x.depth < f.depth ∨ (f.depth = x.depth ∧ 0 < x.depth))) := by
        rintro ⟨hname, hor⟩
        rcases hor with hlt | heq
        · exact h1 ⟨hname, hlt⟩
        · exact hn ⟨hname, heq.1, heq.2⟩
      rw [if_neg h2, if_neg h1]
  have hany : fs.any (fun f => decide (f.name = x.name ∧ (f.depth < x.depth ∨ (f.depth = x.depth ∧ 0 < x.depth)))) =
      fs.any (fun f => decide (f.name = x.name ∧ f.depth < x.depth)) := by
    apply any_congr_mem
    intro f hf
    have hn := h f hf
    by_cases h1 : f.name = x.name ∧ f.depth < x.depth
    · have h2 : f.name = x.name ∧ (f.depth < x.depth ∨ (f.depth = x.depth ∧ 0 < x.depth)) := ⟨h1.1, Or.inl h1.2⟩
      rw [decide_eq_true h2, decide_eq_true h1]
    · have h2 : ¬ (f.name = x.name ∧ (f.depth < x.depth ∨ (f.depth = x.depth ∧ 0 < x.depth))) := by
        rintro ⟨hname, hor⟩
        rcases hor with hlt | heq
        · exact h1 ⟨hname, hlt⟩
        · exact hn ⟨hname, heq.1, heq.2⟩
      rw [decide_eq_false h2, decide_eq_false h1]
  rw [hmap, hany]

theorem appendCheck_keys (fs : List Field) (x : Field) : (appendCheck fs x).map fkey = fs.map fkey ++ [fkey x] := by
  unfold appendCheck
  simp only [List.map_append, List.map_map, List.map_cons, List.map_nil]
  congr 1
  apply List.map_congr_left
  intro f _
  simp only [Function.comp, fkey]
  split <;> rfl

/-- when no two entries share a name at the same positive depth the equal-depth rule never fires -/
theorem foldl_appendCheckAmb_eq (l : List Field) : ∀ acc : List Field,
    (((acc.map fkey ++ l.map fkey).filter (fun k => decide (0 < k.2))).Nodup) →
    l.foldl appendCheckAmb acc = l.foldl appendCheck acc := by
  induction l with
  | nil => intro acc _; rfl
  | cons x xs ih =>
    intro acc hnd
    have hstep : appendCheckAmb acc x = appendCheck acc x := by
      apply appendCheckAmb_eq
      rintro f hf ⟨hname, hdep, hpos⟩
      -- fkey f = fkey x, both in the filtered list: contradiction with Nodup
      have hk : fkey f = fkey x := by simp [fkey, hname, hdep]
      have hfpos : 0 < (fkey f).2 := by simp [fkey, hdep, hpos]
      simp only [List.map_cons, List.filter_append, List.filter_cons] at hnd
      have hxpos : decide (0 < (fkey x).2) = true := decide_eq_true (by simpa [fkey] using hpos)
      simp only [hxpos, ↓reduceIte] at hnd
      rw [List.nodup_append] at hnd
      have hmem : fkey f ∈ (acc.map fkey).filter (fun k => decide (0 < k.2)) := by
        simp only [List.mem_filter, List.mem_map, decide_eq_true_eq]
        exact ⟨⟨f, hf, rfl⟩, hfpos⟩
      exact hnd.2.2 _ hmem _ (by simp) hk
    simp only [List.foldl_cons, hstep]
    apply ih
    rw [appendCheck_keys]
    simpa [List.append_assoc] using hnd

/-- the (name, depth) pairs of the walk are a sub-list of the struct's members -/
theorem walk_keys_sublist (sh : Shadow) (t : Tree) : ∀ (top inh : Bool) (d : Nat),
    List.Sublist ((walk sh top inh d t).map fkey) (members d t) := by
  induction t with
  | nil => intros; simp [walk, members]
  | field f rest ih =>
    intro top inh d
    simp only [walk, members, List.map_append]
    by_cases hs : f.skip
    · simp only [hs, ↓reduceIte, List.map_nil, List.nil_append]
      exact List.Sublist.cons _ (ih top inh d)
    · simp only [hs, Bool.false_eq_true, ↓reduceIte, List.map_cons, List.map_nil, List.singleton_append]
      have : fkey (mkField sh d (if top then f.newMark else inh) f top) = (f.name, d) := rfl
      rw [this]
      exact List.Sublist.cons_cons _ (ih top inh d)
  | embed n ty p nm body rest ihb ihr =>
    intro top inh d
    simp only [walk, members, List.map_cons, List.map_append]
    have : fkey (mkEmbed sh d n ty p) = (n, d) := rfl
    rw [this]
    exact List.Sublist.cons_cons _ (List.Sublist.append (ihb false (if top then nm else inh) (d + 1)) (ihr top inh d))

/-- BRIDGE: on a tree without ambiguous members the list the code computes is the `flatten` of the theorems -/
theorem flattenCode_eq (t : Tree) (h : noAmbiguous t = true) : flattenCode t = flatten t := by
  unfold flattenCode flatten
  rw [foldl_appendCheckAmb_eq]
  simp only [List.map_nil, List.nil_append]
  have hsub := walk_keys_sublist noShadow t true false 0
  have hnd : ((members 0 t).filter (fun m => decide (0 < m.2))).Nodup := by simpa [noAmbiguous] using h
  exact (List.Sublist.filter _ hsub).nodup hnd

/-- the rule at work (repaired by 556fe6f): `T{A; B}`, `A{x}`, `B{x; y}` — neither `x` is promoted -/
example :
    let t : Tree := .embed "A" "A" false false (.field { name := "x" } .nil)
      (.embed "B" "B" false false (.field { name := "x" } (.field { name := "y" } .nil)) (.field { name := "z" } .nil))
    noAmbiguous t = false ∧
    ((flattenCode t).filter (fun f => !f.isShadowed && !f.isEmbeded)).map (·.name) = ["y", "z"] ∧
    ((flatten t).filter (fun f => !f.isShadowed && !f.isEmbeded)).map (·.name) = ["x", "x", "y", "z"] := by
  decide

end ShootVerif.Ctor
