import ShootVerif.Proofs.Runtime
/-!
Helper lemmas for C19_clients_independent: the `_middlewares` slices of RestConf values in memory (Model/Runtime.lean,
`Heap`, `MConf`, `useM`, `runClients`). The invariant `HeapInv`: two different RestConf values share a backing array only
if it is the empty array of the nil slice; `append` through one header keeps it and leaves what every other header reads
untouched (`appendSl_step`); so every RestConf handed to a constructor keeps holding exactly its own options
(`runClients_eq_spec`).
-/
namespace ShootVerif.Runtime



/-! ### the middleware lists of RestConf values in memory: who owns which backing array -/

/-- slice headers (array, length) on a heap: array 0 is the empty array; every header lies inside its array; two
    different headers share an array only if it is array 0 (the nil slice) -/
structure HeapInv (h : Heap) (sl : List (Nat × Nat)) : Prop where
  zero : h.getD 0 [] = []
  pos : 0 < h.length
  bound : ∀ x ∈ sl, x.1 < h.length ∧ x.2 ≤ (h.getD x.1 []).length
  own : ∀ (i j : Nat) (x y : Nat × Nat), i ≠ j → sl[i]? = some x → sl[j]? = some y → x.1 = y.1 → x.1 = 0

def readSl (h : Heap) (x : Nat × Nat) : List Mw := (h.getD x.1 []).take x.2

/-- `append(s, m)` on slice header `x` -/
def appendSl (h : Heap) (x : Nat × Nat) (m : Mw) : Heap × (Nat × Nat) :=
  let a := h.getD x.1 []
  if x.2 < a.length then (h.set x.1 (a.set x.2 m), (x.1, x.2 + 1))
  else (h ++ [a.take x.2 ++ m :: List.replicate (x.2 - 1) 0], (h.length, x.2 + 1))

theorem getD_set_ne (h : Heap) (a b : Nat) (v : List Mw) (hne : b ≠ a) : (h.set a v).getD b [] = h.getD b [] := by
  simp [List.getD_eq_getElem?_getD, hne.symm]

theorem getD_set_eq (h : Heap) (a : Nat) (v : List Mw) (ha : a < h.length) : (h.set a v).getD a [] = v := by
  simp [List.getD_eq_getElem?_getD, ha]

theorem getD_append_lt (h : Heap) (v : List Mw) (b : Nat) (hb : b < h.length) : (h ++ [v]).getD b [] = h.getD b [] := by
  simp [List.getD_eq_getElem?_getD, List.getElem?_append_left hb]

theorem getD_append_new (h : Heap) (v : List Mw) : (h ++ [v]).getD h.length [] = v := by
  simp [List.getD_eq_getElem?_getD]

theorem take_set_succ (a : List Mw) (n : Nat) (m : Mw) (h : n < a.length) : (a.set n m).take (n + 1) = a.take n ++ [m] := by
  induction a generalizing n with
  | nil => simp at h
  | cons x xs ih =>
    cases n with
    | zero => simp
    | succ k => simp only [List.set_cons_succ, List.take_succ_cons, List.cons_append]; rw [ih k (by simpa using h)]

theorem take_grown (a : List Mw) (n k : Nat) (m : Mw) (h : n = a.length) :
    (a.take n ++ m :: List.replicate k 0).take (n + 1) = a.take n ++ [m] ∧
    (a.take n ++ m :: List.replicate k 0).length = n + 1 + k := by
  subst h
  constructor
  · rw [List.take_length]
    have : ∀ (l r : List Mw), (l ++ m :: r).take (l.length + 1) = l ++ [m] := by
      intro l r
      induction l with
      | nil => simp
      | cons y ys ih => simp only [List.cons_append, List.length_cons, List.take_succ_cons, ih]
    exact this a _
  · simp; omega

/-- one `append` through header `j`: the invariant is kept, header `j` now reads one element more, every other
    header reads what it read before -/
theorem appendSl_step (h : Heap) (sl : List (Nat × Nat)) (j : Nat) (x : Nat × Nat) (m : Mw)
    (inv : HeapInv h sl) (hj : sl[j]? = some x) :
    HeapInv (appendSl h x m).1 (sl.set j (appendSl h x m).2) ∧
    readSl (appendSl h x m).1 (appendSl h x m).2 = readSl h x ++ [m] ∧
    (∀ i y, i ≠ j → sl[i]? = some y → readSl (appendSl h x m).1 y = readSl h y) := by
  have hxmem : x ∈ sl := List.mem_of_getElem? hj
  obtain ⟨hxa, hxn⟩ := inv.bound x hxmem
  have hjlt : j < sl.length := by
    rcases List.getElem?_eq_some_iff.1 hj with ⟨hlt, _⟩; exact hlt
  unfold appendSl
  simp only
  by_cases hroom : x.2 < (h.getD x.1 []).length
  · -- in place
    simp only [hroom, ↓reduceIte]
    have ha0 : x.1 ≠ 0 := by
      intro e; rw [e, inv.zero] at hroom; simp at hroom
    refine ⟨⟨?_, ?_, ?_, ?_⟩, ?_, ?_⟩
    · rw [getD_set_ne h x.1 0 _ (Ne.symm ha0)]; exact inv.zero
    · simpa using inv.pos
    · intro y hy
      rcases List.mem_or_eq_of_mem_set hy with hy | hy
      · obtain ⟨b1, b2⟩ := inv.bound y hy
        refine ⟨by simpa using b1, ?_⟩
        by_cases e : y.1 = x.1
        · rw [e, getD_set_eq h x.1 _ hxa]; simp only [List.length_set]; rw [← e]; exact b2
        · rw [getD_set_ne h x.1 y.1 _ e]; exact b2
      · subst hy
        refine ⟨by simpa using hxa, ?_⟩
        simp only
        rw [getD_set_eq h x.1 _ hxa]; simp only [List.length_set]; omega
    · intro i k y z hik hi hk hyz
      -- arrays of the headers are unchanged
      have harr : ∀ (i : Nat) (y : Nat × Nat), (sl.set j (x.1, x.2 + 1))[i]? = some y → ∃ y', sl[i]? = some y' ∧ y'.1 = y.1 := by
        intro i y hy
        rw [List.getElem?_set] at hy
        by_cases e : j = i
        · subst e
          simp only [↓reduceIte, hjlt] at hy
          cases hy
          exact ⟨x, hj, rfl⟩
        · simp only [e, ↓reduceIte] at hy
          exact ⟨y, hy, rfl⟩
      obtain ⟨y', hy', ey⟩ := harr i y hi
      obtain ⟨z', hz', ez⟩ := harr k z hk
      rw [← ey]
      exact inv.own i k y' z' hik hy' hz' (by rw [ey, ez]; exact hyz)
    · simp only [readSl]
      rw [getD_set_eq h x.1 _ hxa]
      exact take_set_succ _ _ _ hroom
    · intro i y hij hi
      simp only [readSl]
      have : y.1 ≠ x.1 := by
        intro e
        have := inv.own i j y x hij hi hj e
        exact ha0 (e ▸ this)
      rw [getD_set_ne h x.1 y.1 _ this]
  · -- grow
    simp only [hroom, ↓reduceIte]
    have hlen : x.2 = (h.getD x.1 []).length := by omega
    refine ⟨⟨?_, ?_, ?_, ?_⟩, ?_, ?_⟩
    · rw [getD_append_lt h _ 0 inv.pos]; exact inv.zero
    · simp
    · intro y hy
      rcases List.mem_or_eq_of_mem_set hy with hy | hy
      · obtain ⟨b1, b2⟩ := inv.bound y hy
        refine ⟨by rw [List.length_append]; exact Nat.lt_add_right _ b1, ?_⟩
        rw [getD_append_lt h _ y.1 b1]; exact b2
      · subst hy
        refine ⟨by simp, ?_⟩
        simp only
        rw [getD_append_new, (take_grown _ x.2 (x.2 - 1) m hlen).2]
        omega
    · intro i k y z hik hi hk hyz
      rw [List.getElem?_set] at hi hk
      by_cases ei : j = i
      · subst ei
        simp only [↓reduceIte, hjlt] at hi
        cases hi
        have ek : ¬ j = k := hik
        simp only [ek, ↓reduceIte] at hk
        have := (inv.bound z (List.mem_of_getElem? hk)).1
        simp only at hyz
        omega
      · simp only [ei, ↓reduceIte] at hi
        by_cases ek : j = k
        · subst ek
          simp only [↓reduceIte, hjlt] at hk
          cases hk
          have := (inv.bound y (List.mem_of_getElem? hi)).1
          simp only at hyz
          omega
        · simp only [ek, ↓reduceIte] at hk
          exact inv.own i k y z hik hi hk hyz
    · simp only [readSl]
      rw [getD_append_new]
      exact (take_grown _ x.2 (x.2 - 1) m hlen).1
    · intro i y hij hi
      simp only [readSl]
      have := (inv.bound y (List.mem_of_getElem? hi)).1
      rw [getD_append_lt h _ y.1 this]



theorem newWith_specConf (opts : List Opt) : newWith opts = specConf opts := by
  have h1 := applyAll_baseURL zeroConf opts
  have h2 := applyAll_timeout zeroConf opts
  have h3 := applyAll_logging zeroConf opts
  have h4 := applyAll_headers zeroConf opts
  have h5 := applyAll_mws zeroConf opts
  rw [newWith_eq, specConf]
  cases hc : applyAll zeroConf opts with
  | mk b tm lg hd ms =>
    rw [hc] at h1 h2 h3 h4 h5
    simp only [zeroConf, List.nil_append] at h1 h2 h3 h4 h5
    simp [h1, h2, h3, h4, h5]

def slOf (c : MConf) : Nat × Nat := (c.arr, c.len)

/-- the slice headers of the RestConf values the clients keep -/
def slices (cs : List (CtorId × MConf)) : List (Nat × Nat) := cs.map (fun x => slOf x.2)

/-- what the clients' RestConf values hold, read from memory -/
def absr (h : Heap) (cs : List (CtorId × MConf)) : List (CtorId × RestConf) := cs.map (fun x => (x.1, x.2.view h))

theorem view_eq (h : Heap) (c : MConf) :
    c.view h = ⟨c.baseURL, c.timeout, c.enableLogging, c.defaultHeaders, readSl h (slOf c)⟩ := rfl

theorem useM_eq (h : Heap) (c : MConf) (m : Mw) :
    useM h c m = ((appendSl h (slOf c) m).1, { c with arr := (appendSl h (slOf c) m).2.1, len := (appendSl h (slOf c) m).2.2 }) := by
  unfold useM appendSl slOf
  simp only
  split <;> rfl

theorem slices_set (cs : List (CtorId × MConf)) (j : Nat) (t : CtorId) (c : MConf) :
    slices (cs.set j (t, c)) = (slices cs).set j (slOf c) := by
  simp [slices, List.map_set]

theorem set_same {α : Type} (l : List α) (j : Nat) (x : α) (h : l[j]? = some x) : l.set j x = l := by
  apply List.ext_getElem?
  intro i
  rw [List.getElem?_set]
  by_cases e : j = i
  · subst e
    obtain ⟨hlt, hx⟩ := List.getElem?_eq_some_iff.1 h
    simp [hlt, hx]
  · simp [e]

/-- one option applied to the RestConf client `j` keeps: the ownership invariant holds afterwards, that RestConf now
    holds what the option says, and the RestConf of every other client holds what it held -/
theorem applyM_step (h : Heap) (cs : List (CtorId × MConf)) (j : Nat) (t : CtorId) (c : MConf) (o : Opt)
    (inv : HeapInv h (slices cs)) (hj : cs[j]? = some (t, c)) :
    HeapInv (o.applyM (h, c)).1 (slices (cs.set j (t, (o.applyM (h, c)).2))) ∧
    (o.applyM (h, c)).2.view (o.applyM (h, c)).1 = o.apply (c.view h) ∧
    (∀ i y, i ≠ j → cs[i]? = some y → y.2.view (o.applyM (h, c)).1 = y.2.view h) := by
  have hsl : (slices cs)[j]? = some (slOf c) := by simp [slices, hj]
  cases o with
  | use m =>
    obtain ⟨a1, a2, a3⟩ := appendSl_step h (slices cs) j (slOf c) m inv hsl
    simp only [Opt.applyM, useM_eq]
    refine ⟨?_, ?_, ?_⟩
    · rw [slices_set]; exact a1
    · simp only [view_eq, Opt.apply, slOf] at a2 ⊢
      rw [a2]
    · intro i y hij hi
      have := a3 i (slOf y.2) hij (by simp [slices, hi])
      simp only [view_eq, this]
  | baseURL u =>
    refine ⟨?_, rfl, fun _ _ _ _ => rfl⟩
    simp only [Opt.applyM, slices_set]
    rw [set_same _ _ _ (by simpa [slOf] using hsl)]; exact inv
  | timeout d =>
    refine ⟨?_, rfl, fun _ _ _ _ => rfl⟩
    simp only [Opt.applyM, slices_set]
    rw [set_same _ _ _ (by simpa [slOf] using hsl)]; exact inv
  | enableLogging b =>
    refine ⟨?_, rfl, fun _ _ _ _ => rfl⟩
    simp only [Opt.applyM, slices_set]
    rw [set_same _ _ _ (by simpa [slOf] using hsl)]; exact inv
  | defaultHeaders x =>
    refine ⟨?_, rfl, fun _ _ _ _ => rfl⟩
    simp only [Opt.applyM, slices_set]
    rw [set_same _ _ _ (by simpa [slOf] using hsl)]; exact inv

/-- … and so for the whole list of clients -/
theorem absr_step (h : Heap) (cs : List (CtorId × MConf)) (j : Nat) (t : CtorId) (c : MConf) (o : Opt)
    (inv : HeapInv h (slices cs)) (hj : cs[j]? = some (t, c)) :
    absr (o.applyM (h, c)).1 (cs.set j (t, (o.applyM (h, c)).2)) = (absr h cs).set j (t, o.apply (c.view h)) := by
  obtain ⟨_, b2, b3⟩ := applyM_step h cs j t c o inv hj
  apply List.ext_getElem?
  intro i
  simp only [absr, List.getElem?_map, List.getElem?_set, List.length_map]
  by_cases e : j = i
  · subst e
    have hlt : j < cs.length := (List.getElem?_eq_some_iff.1 hj).1
    simp [hlt, b2]
  · simp only [e, ↓reduceIte]
    cases hi : cs[i]? with
    | none => rfl
    | some y => simp [b3 i y (Ne.symm e) hi]



theorem getElem?_last {α : Type} (l : List α) (x : α) : (l ++ [x])[l.length]? = some x := by simp

theorem set_last {α : Type} (l : List α) (x y : α) : (l ++ [x]).set l.length y = l ++ [y] := by
  induction l with
  | nil => rfl
  | cons a as ih => simp only [List.cons_append, List.length_cons, List.set_cons_succ, ih]

/-- all the options of one `NewRest` call, applied to the fresh RestConf that is going to be client number `cs.length` -/
theorem fold_step (opts : List Opt) : ∀ (h : Heap) (c : MConf) (cs : List (CtorId × MConf)) (t : CtorId),
    HeapInv h (slices (cs ++ [(t, c)])) →
    HeapInv (opts.foldl (fun hc o => o.applyM hc) (h, c)).1 (slices (cs ++ [(t, (opts.foldl (fun hc o => o.applyM hc) (h, c)).2)])) ∧
    (opts.foldl (fun hc o => o.applyM hc) (h, c)).2.view (opts.foldl (fun hc o => o.applyM hc) (h, c)).1 = applyAll (c.view h) opts ∧
    (∀ y ∈ cs, y.2.view (opts.foldl (fun hc o => o.applyM hc) (h, c)).1 = y.2.view h) := by
  induction opts with
  | nil => intro h c cs t inv; exact ⟨inv, rfl, fun _ _ => rfl⟩
  | cons o os ih =>
    intro h c cs t inv
    obtain ⟨a1, a2, a3⟩ := applyM_step h (cs ++ [(t, c)]) cs.length t c o inv (getElem?_last cs (t, c))
    rw [set_last] at a1
    have hpair : o.applyM (h, c) = ((o.applyM (h, c)).1, (o.applyM (h, c)).2) := rfl
    simp only [List.foldl_cons]
    rw [hpair]
    obtain ⟨b1, b2, b3⟩ := ih (o.applyM (h, c)).1 (o.applyM (h, c)).2 cs t a1
    refine ⟨b1, ?_, ?_⟩
    · rw [b2, a2]; rfl
    · intro y hy
      rw [b3 y hy]
      obtain ⟨i, hi⟩ := List.getElem?_of_mem hy
      have hlt : i < cs.length := (List.getElem?_eq_some_iff.1 hi).1
      exact a3 i y (by omega) (by rw [List.getElem?_append_left hlt]; exact hi)

theorem heapInv_push (h : Heap) (cs : List (CtorId × MConf)) (t : CtorId) (inv : HeapInv h (slices cs)) :
    HeapInv h (slices (cs ++ [(t, MConf.zero)])) := by
  have e : slices (cs ++ [(t, MConf.zero)]) = slices cs ++ [(0, 0)] := by simp [slices, slOf, MConf.zero]
  rw [e]
  refine ⟨inv.zero, inv.pos, ?_, ?_⟩
  · intro x hx
    simp only [List.mem_append, List.mem_singleton] at hx
    rcases hx with hx | hx
    · exact inv.bound x hx
    · subst hx; exact ⟨inv.pos, Nat.zero_le _⟩
  · intro i j x y hij hi hj hxy
    by_cases h1 : i < (slices cs).length
    · rw [List.getElem?_append_left h1] at hi
      by_cases h2 : j < (slices cs).length
      · rw [List.getElem?_append_left h2] at hj
        exact inv.own i j x y hij hi hj hxy
      · rw [List.getElem?_append_right (by omega)] at hj
        have : y = (0, 0) := by
          cases hk : j - (slices cs).length with
          | zero => rw [hk] at hj; simpa using hj.symm
          | succ k => rw [hk] at hj; simp at hj
        rw [hxy, this]
    · rw [List.getElem?_append_right (by omega)] at hi
      have : x = (0, 0) := by
        cases hk : i - (slices cs).length with
        | zero => rw [hk] at hi; simpa using hi.symm
        | succ k => rw [hk] at hi; simp at hi
      rw [this]

theorem zero_view (h : Heap) : MConf.zero.view h = zeroConf := by
  simp [MConf.view, MConf.zero, zeroConf]

/-- clients that keep their RestConf: whatever is created and configured later, every RestConf that was handed out
    holds exactly the options it was built from and those its owner applied to it since -/
theorem runClients_eq_spec (ops : List KOp) : ∀ (h : Heap) (cs : List (CtorId × MConf)),
    HeapInv h (slices cs) → runClients h cs ops = specClients (absr h cs) ops := by
  induction ops with
  | nil => intro h cs _; rfl
  | cons op rest ih =>
    intro h cs inv
    cases op with
    | new t opts =>
      obtain ⟨b1, b2, b3⟩ := fold_step opts h MConf.zero cs t (heapInv_push h cs t inv)
      rw [zero_view, ← newWith_eq, newWith_specConf] at b2
      simp only [runClients, specClients, newWithM]
      rw [b2, ih _ _ b1]
      congr 2
      simp only [absr, List.map_append, List.map_cons, List.map_nil, b2]
      congr 1
      apply List.map_congr_left
      intro y hy
      rw [b3 y hy]
    | withOpt j o =>
      simp only [runClients, specClients]
      cases hj : cs[j]? with
      | none =>
        have : (absr h cs)[j]? = none := by simp [absr, hj]
        simp only [this]
        rw [ih h cs inv]
      | some x =>
        obtain ⟨t, c⟩ := x
        have : (absr h cs)[j]? = some (t, c.view h) := by simp [absr, hj]
        simp only [this]
        obtain ⟨a1, _, _⟩ := applyM_step h cs j t c o inv hj
        have hpair : o.applyM (h, c) = ((o.applyM (h, c)).1, (o.applyM (h, c)).2) := rfl
        rw [hpair]
        simp only
        rw [ih _ _ a1, absr_step h cs j t c o inv hj]
    | again j =>
      simp only [runClients, specClients]
      cases hj : cs[j]? with
      | none =>
        have : (absr h cs)[j]? = none := by simp [absr, hj]
        simp only [this]
        rw [ih h cs inv]
      | some x =>
        obtain ⟨t, c⟩ := x
        have : (absr h cs)[j]? = some (t, c.view h) := by simp [absr, hj]
        simp only [this]
        rw [ih h cs inv]

theorem heapInv_init : HeapInv Heap.init (slices []) := by
  refine ⟨rfl, by decide, ?_, ?_⟩
  · intro x hx; cases hx
  · intro i j x y _ hi; simp [slices] at hi


theorem late_aux (bs : List (TypeId × List Opt)) : ∀ (cs : List (CtorId × RestConf)) (c : CtorId × RestConf),
    specClients (c :: cs) (bs.map (fun x => KOp.new x.1 x.2) ++ [.again 0])
      = bs.map (fun x => KOut.made x.1 (specConf x.2)) ++ [.seen c.2] := by
  induction bs with
  | nil => intro cs c; simp [specClients]
  | cons b bs ih =>
    intro cs c
    simp only [List.map_cons, List.cons_append, specClients]
    rw [ih]

end ShootVerif.Runtime
