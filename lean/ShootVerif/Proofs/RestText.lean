import ShootVerif.Proofs.RestSend
import ShootVerif.Proofs.RestKV
import ShootVerif.Proofs.RestC01
/-!
From the TEXT of the doc comments to the request (helper lemmas for C06_request_text and the interface-level glue):

1. a line that does not spell `alias=` carries no alias directive, so the alias line below the request line is the one
   `parseAlias` reads (`aliasMapOf_two_lines`);
2. the doc comment of a method as text (`methodDoc`) is cooked exactly as its meaning says (`cookMethod_text`);
3. cooking never fails inside the region (`cookParsed_ok`);
4. cookClient at interface level in closed form (`generate_closed`): one generated method per interface method whose
   request directive is read, in declaration order;
5. the interface as text (`ifaceText`, `HeaderDocFor`) and the request of a call computed from it (`call_text`).
-/
namespace ShootVerif.Rest



/-! ## 1. a line that does not spell `alias=` carries no alias directive -/

theorem stripPrefix_in_line (pre cs d r : List Char) (hpre : ∀ c ∈ pre, c ≠ '\n')
    (h : stripPrefix pre (cs ++ '\n' :: d) = some r) : ∃ r', cs = pre ++ r' := by
  induction pre generalizing cs with
  | nil => exact ⟨cs, rfl⟩
  | cons p ps ih =>
    cases cs with
    | nil =>
      have : (p == '\n') = false := by simpa using hpre p (by simp)
      simp [stripPrefix, this] at h
    | cons c cs' =>
      simp only [List.cons_append, stripPrefix] at h
      by_cases e : (p == c) = true
      · simp only [e, ↓reduceIte] at h
        obtain ⟨r', hr⟩ := ih cs' (fun x hx => hpre x (by simp [hx])) h
        have : p = c := by simpa using e
        exact ⟨r', by rw [hr, this]; rfl⟩
      · simp [e] at h

theorem stripPrefix_none_of_free (cs d : List Char) (h : containsAliasEq cs = false) :
    stripPrefix aliasEq (cs ++ '\n' :: d) = none := by
  cases hs : stripPrefix aliasEq (cs ++ '\n' :: d) with
  | none => rfl
  | some r =>
    obtain ⟨r', hr⟩ := stripPrefix_in_line aliasEq cs d r (by decide) hs
    subst hr
    have : stripPrefix aliasEq (aliasEq ++ r') = some r' := stripPrefix_self_append _ _
    simp [aliasEq, containsAliasEq, stripPrefix] at h

theorem findAliasArg_line (l d : List Char) (hl : ∀ c ∈ l, c ≠ '\n') (hfree : containsAliasEq l = false)
    (hd : stripPrefix aliasEq d = none) : findAliasArg (l ++ '\n' :: d) = none := by
  induction l with
  | nil => simp [findAliasArg, hd]
  | cons c cs ih =>
    have hfc : containsAliasEq cs = false := by
      simp only [containsAliasEq, Bool.or_eq_false_iff] at hfree; exact hfree.2
    have hcs := stripPrefix_none_of_free cs d hfc
    have hc : (c == '\n') = false := by simpa using hl c (by simp)
    simp only [List.cons_append, findAliasArg, hcs, hc]
    have := ih (fun x hx => hl x (by simp [hx])) hfc
    cases isWord c <;> simpa using this



/-- the alias pattern does not match at a line `shoot:…` that does not spell `alias=` -/
theorem matchAliasAt_free_line (l d : List Char) (hl : ∀ c ∈ l, c ≠ '\n')
    (hfree : containsAliasEq l = false) (hd : stripPrefix aliasEq d = none) :
    matchAliasAt (l ++ '\n' :: d) = none := by
  unfold matchAliasAt
  cases hs : stripPrefix shootColon (l ++ '\n' :: d) with
  | none => rfl
  | some r1 =>
    obtain ⟨r', hr⟩ := stripPrefix_in_line shootColon l d r1 (by decide) hs
    subst hr
    have e : stripPrefix shootColon (shootColon ++ r' ++ '\n' :: d) = some (r' ++ '\n' :: d) := by
      have := stripPrefix_self_append shootColon (r' ++ '\n' :: d)
      simpa [List.append_assoc] using this
    rw [e] at hs
    cases hs
    simp only
    apply findAliasArg_line r' d (fun c hc => hl c (by simp [hc])) _ hd
    -- `alias=` inside r' would be inside the line
    have hsuf : ∀ (pre : List Char), containsAliasEq (pre ++ r') = false → containsAliasEq r' = false := by
      intro pre
      induction pre with
      | nil => intro h; exact h
      | cons c cs ih =>
        intro h
        simp only [List.cons_append, containsAliasEq, Bool.or_eq_false_iff] at h
        exact ih h.2
    exact hsuf shootColon hfree

/-- the alias pairs of a method as the groups of its directive: `{p:a},{q:b}` -/
def aliasGroups : List (String × String) → List ((List Char × List Char) × List Char)
  | [] => []
  | [kv] => [((kv.1.toList, kv.2.toList), [])]
  | kv :: kv2 :: rest => ((kv.1.toList, kv.2.toList), [',']) :: aliasGroups (kv2 :: rest)

theorem aliasGroups_pairs (al : List (String × String)) :
    (aliasGroups al).map (·.1) = al.map (fun kv => (kv.1.toList, kv.2.toList)) := by
  induction al with
  | nil => rfl
  | cons kv rest ih =>
    cases rest with
    | nil => rfl
    | cons kv2 rest2 => simp only [aliasGroups, List.map_cons] at ih ⊢; rw [ih]

theorem aliasGroups_sep (al : List (String × String)) : ∀ g ∈ aliasGroups al, g.2 = [] ∨ g.2 = [','] := by
  induction al with
  | nil => intro g hg; cases hg
  | cons kv rest ih =>
    cases rest with
    | nil => intro g hg; simp only [aliasGroups, List.mem_singleton] at hg; subst hg; exact Or.inl rfl
    | cons kv2 rest2 =>
      intro g hg
      simp only [aliasGroups, List.mem_cons] at hg
      rcases hg with hg | hg
      · subst hg; exact Or.inr rfl
      · exact ih g (by simpa [aliasGroups] using hg)

theorem aliasGroups_mem (al : List (String × String)) :
    ∀ g ∈ aliasGroups al, ∃ kv ∈ al, g.1 = (kv.1.toList, kv.2.toList) := by
  intro g hg
  have : g.1 ∈ (aliasGroups al).map (·.1) := List.mem_map.2 ⟨g, hg, rfl⟩
  rw [aliasGroups_pairs] at this
  obtain ⟨kv, hkv, e⟩ := List.mem_map.1 this
  exact ⟨kv, hkv, e.symm⟩

/-- the characters of the alias pairs fit the directive grammar: keys are identifiers (or at least
    key characters), values start with a non-blank and contain no `}`, `;`, newline -/
def AliasTextOK (al : List (String × String)) : Prop :=
  ∀ kv ∈ al, CleanKey kv.1.toList ∧ CleanVal kv.2.toList ∧ ∀ c ∈ kv.2.toList, c ≠ ';'

theorem aliasGroups_clean (al : List (String × String)) (h : AliasTextOK al) : GroupsClean (aliasGroups al) := by
  intro g hg
  obtain ⟨kv, hkv, e⟩ := aliasGroups_mem al g hg
  obtain ⟨h1, h2, _⟩ := h kv hkv
  rw [e]
  refine ⟨h1, h2, ?_⟩
  rcases aliasGroups_sep al g hg with e' | e' <;> rw [e'] <;> intro c hc <;> simp at hc
  subst hc; decide

theorem strKVs_toList (al : List (String × String)) :
    strKVs (al.map (fun kv => (kv.1.toList, kv.2.toList))) = al := by
  induction al with
  | nil => rfl
  | cons kv rest ih =>
    simp only [strKVs, List.map_cons, List.map_map] at ih ⊢
    rw [ih]; simp

/-- the alias line of a method's doc comment (`atail`: nothing, or `;…`) -/
def aliasLine (al : List (String × String)) (atail : List Char) : List Char :=
  shootColon ++ ' ' :: (aliasEq ++ renderGroups (aliasGroups al) ++ atail ++ '\n' :: [])

/-- reading the alias directive back: below a line without `alias=` the line `shoot: alias={p:a},{q:b}` gives the map
    of the written pairs -/
theorem aliasMapOf_two_lines (l : List Char) (al : List (String × String)) (atail : List Char)
    (hl : ∀ c ∈ l, c ≠ '\n') (hfree : containsAliasEq l = false)
    (hne : al ≠ []) (htxt : AliasTextOK al) (hnd : (keysOf al).Nodup)
    (ht : atail = [] ∨ ∃ t, atail = ';' :: t) :
    aliasMapOf (l ++ '\n' :: aliasLine al atail) = al := by
  have hd : stripPrefix aliasEq (aliasLine al atail) = none := by
    simp [aliasLine, shootColon, aliasEq, stripPrefix]
  unfold aliasMapOf
  rw [parseAlias_skip_line l _ hl (matchAliasAt_free_line l _ hl hfree hd)]
  have hgne : aliasGroups al ≠ [] := by
    cases al with
    | nil => exact absurd rfl hne
    | cons kv rest => cases rest <;> simp [aliasGroups]
  have := parseAlias_render (aliasGroups al) atail [] (aliasGroups_clean al htxt) hgne
    (fun g hg c hc => by
      rcases aliasGroups_sep al g hg with e | e <;> rw [e] at hc <;> simp at hc
      subst hc; exact ⟨by decide, by decide⟩)
    (fun g hg c hc => by
      obtain ⟨kv, hkv, e⟩ := aliasGroups_mem al g hg
      rw [e] at hc
      exact (htxt kv hkv).2.2 c hc)
    ht
  unfold aliasLine
  rw [this]
  simp only
  rw [aliasGroups_pairs, strKVs_toList]
  have := setAll_of_nodup ([] : List (String × String)) al (by simpa using hnd)
  simpa using this

/-- a doc comment that consists of one line without `alias=`: no alias directive -/
theorem aliasMapOf_one_line (l : List Char) (hl : ∀ c ∈ l, c ≠ '\n') (hfree : containsAliasEq l = false) :
    aliasMapOf (l ++ '\n' :: []) = [] := by
  unfold aliasMapOf
  rw [parseAlias_skip_line l _ hl (matchAliasAt_free_line l _ hl hfree (by rfl))]
  rfl



/-! ## 1b. `alias=` on the request line can only come from the path -/

theorem stripPrefix_before (pre cs d r : List Char) (c : Char) (hpre : ∀ x ∈ pre, x ≠ c)
    (h : stripPrefix pre (cs ++ c :: d) = some r) : ∃ r', cs = pre ++ r' := by
  induction pre generalizing cs with
  | nil => exact ⟨cs, rfl⟩
  | cons p ps ih =>
    cases cs with
    | nil =>
      have : (p == c) = false := by simpa using hpre p (by simp)
      simp [stripPrefix, this] at h
    | cons c' cs' =>
      simp only [List.cons_append, stripPrefix] at h
      by_cases e : (p == c') = true
      · simp only [e, ↓reduceIte] at h
        obtain ⟨r', hr⟩ := ih cs' (fun x hx => hpre x (by simp [hx])) h
        have : p = c' := by simpa using e
        exact ⟨r', by rw [hr, this]; rfl⟩
      · simp [e] at h

theorem stripPrefix_isSome_sep (x y : List Char) (c : Char) (hc : ∀ z ∈ aliasEq, z ≠ c) :
    (stripPrefix aliasEq (x ++ c :: y)).isSome = (stripPrefix aliasEq x).isSome := by
  cases h : stripPrefix aliasEq (x ++ c :: y) with
  | some r =>
    obtain ⟨r', hr⟩ := stripPrefix_before aliasEq x y r c hc h
    subst hr
    rw [stripPrefix_self_append]; rfl
  | none =>
    cases h2 : stripPrefix aliasEq x with
    | none => rfl
    | some r' =>
      -- then x = aliasEq ++ r' and the longer text matches too
      have hx : ∀ (pre s r : List Char), stripPrefix pre s = some r → s = pre ++ r := by
        intro pre
        induction pre with
        | nil => intro s r hs; simp [stripPrefix] at hs; simp [hs]
        | cons p ps ih =>
          intro s r hs
          cases s with
          | nil => simp [stripPrefix] at hs
          | cons a as =>
            simp only [stripPrefix] at hs
            by_cases e : (p == a) = true
            · simp only [e, ↓reduceIte] at hs
              have : p = a := by simpa using e
              rw [ih as r hs, this]; rfl
            · simp [e] at hs
      have := hx aliasEq x r' h2
      rw [this, List.append_assoc, stripPrefix_self_append] at h
      cases h

/-- a character that does not occur in `alias=` separates the search -/
theorem containsAliasEq_sep (x y : List Char) (c : Char) (hc : ∀ z ∈ aliasEq, z ≠ c) :
    containsAliasEq (x ++ c :: y) = (containsAliasEq x || containsAliasEq y) := by
  induction x with
  | nil =>
    have : stripPrefix aliasEq (c :: y) = none := by
      have h1 : ('a' == c) = false := by simpa using hc 'a' (by simp [aliasEq])
      simp [aliasEq, stripPrefix, h1]
    simp [containsAliasEq, this]
  | cons d x' ih =>
    have := stripPrefix_isSome_sep (d :: x') y c hc
    simp only [List.cons_append] at this
    simp only [List.cons_append, containsAliasEq, this, ih, Bool.or_assoc]

theorem containsAliasEq_mem (l : List Char) (h : containsAliasEq l = true) : ∀ z ∈ aliasEq, z ∈ l := by
  induction l with
  | nil => cases h
  | cons c cs ih =>
    simp only [containsAliasEq, Bool.or_eq_true] at h
    rcases h with h | h
    · cases hs : stripPrefix aliasEq (c :: cs) with
      | none => rw [hs] at h; cases h
      | some r =>
        have hx : ∀ (pre s r : List Char), stripPrefix pre s = some r → ∀ z ∈ pre, z ∈ s := by
          intro pre
          induction pre with
          | nil => intro s r _ z hz; cases hz
          | cons p ps ihp =>
            intro s r hs z hz
            cases s with
            | nil => simp [stripPrefix] at hs
            | cons a as =>
              simp only [stripPrefix] at hs
              by_cases e : (p == a) = true
              · simp only [e, ↓reduceIte] at hs
                have hpa : p = a := by simpa using e
                simp only [List.mem_cons] at hz ⊢
                rcases hz with hz | hz
                · exact Or.inl (hz.trans hpa)
                · exact Or.inr (ihp as r hs z hz)
              · simp [e] at hs
        exact hx aliasEq (c :: cs) r hs
    · intro z hz; exact List.mem_cons_of_mem _ (ih h z hz)

theorem containsAliasEq_of_missing (l : List Char) (z : Char) (hz : z ∈ aliasEq) (h : ∀ c ∈ l, c ≠ z) :
    containsAliasEq l = false := by
  cases hc : containsAliasEq l with
  | false => rfl
  | true => exact absurd rfl (h z (containsAliasEq_mem l hc z hz))

/-- the request line spells `alias=` only if the path does -/
theorem renderReq_noAliasEq (vt p tail : List Char) (quoted : Bool)
    (hal : ∀ c ∈ vt, isAlpha c = true) (htail : ∀ c ∈ tail, isWord c = false)
    (hp : containsAliasEq p = false) : containsAliasEq (renderReq vt quoted p tail) = false := by
  have hsep : ∀ c : Char, c = '(' ∨ c = ')' ∨ c = '"' → ∀ z ∈ aliasEq, z ≠ c := by
    intro c hc z hz
    simp only [aliasEq, List.mem_cons, List.not_mem_nil, or_false] at hz
    rcases hc with rfl | rfl | rfl <;> rcases hz with rfl | rfl | rfl | rfl | rfl | rfl <;> decide
  have hleft : containsAliasEq (shootColon ++ [' '] ++ vt) = false := by
    apply containsAliasEq_of_missing _ '=' (by simp [aliasEq])
    intro c hc
    simp only [List.mem_append, List.mem_singleton] at hc
    rcases hc with (hc | hc) | hc
    · intro e; subst e; simp [shootColon] at hc
    · subst hc; decide
    · intro e; subst e; have := hal _ hc; simp [isAlpha] at this
  have htl : containsAliasEq tail = false := by
    apply containsAliasEq_of_missing _ 'a' (by simp [aliasEq])
    intro c hc e; subst e
    have := htail _ hc; simp [isWord] at this
  have hcontent : containsAliasEq (if quoted then '"' :: (p ++ ['"']) else p) = false := by
    cases quoted with
    | false => exact hp
    | true =>
      simp only [↓reduceIte]
      have e1 : '"' :: (p ++ ['"']) = [] ++ '"' :: (p ++ ['"']) := rfl
      have e2 : p ++ ['"'] = p ++ '"' :: [] := rfl
      rw [e1, containsAliasEq_sep [] _ '"' (hsep _ (Or.inr (Or.inr rfl))), e2,
        containsAliasEq_sep p [] '"' (hsep _ (Or.inr (Or.inr rfl))), hp]
      rfl
  have e : renderReq vt quoted p tail
      = (shootColon ++ [' '] ++ vt) ++ '(' :: ((if quoted then '"' :: (p ++ ['"']) else p) ++ ')' :: tail) := by
    simp [renderReq]
  rw [e, containsAliasEq_sep _ _ '(' (hsep _ (Or.inl rfl)), containsAliasEq_sep _ _ ')' (hsep _ (Or.inr (Or.inl rfl))),
    hleft, hcontent, htl]
  rfl

/-! ## 2. the doc comment of a method, as text -/

/-- how a method's directives are spelled -/
structure Spelling where
  vt : List Char        -- the verb as written (`Get`, `GET`, `get`, `gEt`, …)
  quoted : Bool         -- `("/path")` or `(/path)`
  tail : List Char      -- after `)`: non-word characters (`;`, blanks)
  atail : List Char     -- after the alias groups: nothing or `;…`
  deriving Repr, DecidableEq, Inhabited

/-- `ast.CommentGroup.Text()` of the method's doc comment: the request line, then — if the method has
    alias pairs — the alias line -/
def methodDoc (sp : Spelling) (m : MethodSpec) : List Char :=
  renderReq sp.vt sp.quoted m.path sp.tail ++ '\n' :: (if m.alias = [] then [] else aliasLine m.alias sp.atail)

/-- what the theorems need of the spelling and of the characters of path and alias pairs -/
structure SpellingOK (sp : Spelling) (m : MethodSpec) : Prop where
  verb : sp.vt.map lowerC = m.verb.lowerChars
  alpha : ∀ c ∈ sp.vt, isAlpha c = true
  tail : ∀ c ∈ sp.tail, isWord c = false ∧ c ≠ ')' ∧ c ≠ '\n'
  atail : sp.atail = [] ∨ ∃ t, sp.atail = ';' :: t
  aliasText : AliasTextOK m.alias

theorem renderReq_no_newline (vt p tail : List Char) (quoted : Bool)
    (hal : ∀ c ∈ vt, isAlpha c = true) (htail : ∀ c ∈ tail, c ≠ '\n') (hnl : ∀ c ∈ p, c ≠ '\n') :
    ∀ c ∈ renderReq vt quoted p tail, c ≠ '\n' := by
  intro c hc
  simp only [renderReq, List.mem_append, List.mem_singleton] at hc
  rcases hc with (((((hc | hc) | hc) | hc) | hc) | hc) | hc
  · intro e; subst e; simp [shootColon] at hc
  · subst hc; decide
  · intro e; subst e; have := hal _ hc; simp [isAlpha] at this
  · subst hc; decide
  · cases quoted with
    | false => exact hnl c (by simpa using hc)
    | true =>
      simp only [↓reduceIte, List.mem_cons, List.mem_append, List.not_mem_nil, or_false] at hc
      rcases hc with h | h | h
      · subst h; decide
      · exact hnl c h
      · subst h; decide
  · subst hc; decide
  · exact htail c hc

/-- the clauses of `pathClean` that speak about the text of the path -/
theorem pathClean_text (p : List Char) (h : pathClean p = true) :
    p ≠ [] ∧ noQuote p ∧ (∀ c ∈ p, c ≠ '\n') ∧ trimSpace p = p := by
  simp only [pathClean, Bool.and_eq_true, Bool.not_eq_true', List.isEmpty_eq_false_iff, beq_iff_eq] at h
  obtain ⟨⟨⟨⟨h1, h2⟩, h3⟩, h4⟩, _⟩ := h
  refine ⟨h1, ?_, ?_, h4⟩
  · intro c hc e; subst e
    have : p.contains '"' = true := by simpa using hc
    rw [h2] at this; cases this
  · intro c hc e; subst e
    have : p.contains '\n' = true := by simpa using hc
    rw [h3] at this; cases this

/-- from the doc TEXT to the cooked tables: a method whose doc comment spells its directives in the
    documented form is cooked exactly as its meaning says (request line read back by `parsePath`, alias
    line by `parseAlias`/`parseKV`) -/
theorem cookMethod_text (sp : Spelling) (m : MethodSpec) (hsp : SpellingOK sp m)
    (hpath : pathClean m.path = true) (hnoal : containsAliasEq m.path = false) (hnd : (keysOf m.alias).Nodup) :
    cookMethod ⟨m.name, methodDoc sp m, m.params⟩ =
      cookParsed ⟨m.verb, m.path, placeholders m.path⟩ m.alias m.params := by
  obtain ⟨hne, hq, hnl, htrim⟩ := pathClean_text m.path hpath
  have hline : ∀ c ∈ renderReq sp.vt sp.quoted m.path sp.tail, c ≠ '\n' :=
    renderReq_no_newline sp.vt m.path sp.tail sp.quoted hsp.alpha (fun c hc => (hsp.tail c hc).2.2) hnl
  have hfree : containsAliasEq (renderReq sp.vt sp.quoted m.path sp.tail) = false :=
    renderReq_noAliasEq sp.vt m.path sp.tail sp.quoted hsp.alpha (fun c hc => (hsp.tail c hc).1) hnoal
  have hp : parsePath (methodDoc sp m) = .ok ⟨m.verb, m.path, placeholders m.path⟩ := by
    unfold methodDoc
    -- the request directive is on the first line, whatever follows
    have hmatch : matchReqAt (renderReq sp.vt sp.quoted m.path sp.tail ++ '\n' :: (if m.alias = [] then [] else aliasLine m.alias sp.atail))
        = some (m.verb, if sp.quoted then '"' :: (m.path ++ ['"']) else m.path) := by
      have hcontent : ∀ c ∈ (if sp.quoted then '"' :: (m.path ++ ['"']) else m.path) ++ [')'] ++ sp.tail, c ≠ '\n' := by
        intro c hc
        apply hline c
        simp only [renderReq, List.mem_append, List.mem_singleton] at hc ⊢
        rcases hc with (hc | hc) | hc
        · exact Or.inl (Or.inl (Or.inr hc))
        · exact Or.inl (Or.inr hc)
        · exact Or.inr hc
      unfold renderReq
      exact matchReqAt_render m.verb sp.vt _ sp.tail _ hsp.verb hsp.alpha
        (fun c hc => ⟨(hsp.tail c hc).1, (hsp.tail c hc).2.1⟩) hcontent
    unfold parsePath
    rw [firstAtLineStart_here _ _ _ hmatch]
    simp only
    cases hqd : sp.quoted with
    | true =>
      simp only [↓reduceIte, trimSpace_quoted, pathFormatOk_quoted m.path hne hq, trimQuotes_quoted m.path hne hq]
    | false =>
      simp only [Bool.false_eq_true, ↓reduceIte, htrim, pathFormatOk_plain m.path hne hq, trimQuotes_plain m.path hq]
  have ha : aliasMapOf (methodDoc sp m) = m.alias := by
    unfold methodDoc
    by_cases hal : m.alias = []
    · simp only [hal, ↓reduceIte]
      exact aliasMapOf_one_line _ hline hfree
    · simp only [hal, ↓reduceIte]
      exact aliasMapOf_two_lines _ m.alias sp.atail hline hfree hal hsp.aliasText hnd hsp.atail
  simp [cookMethod, hp, ha]



/-! ## 3. cooking never fails inside the region -/

theorem handleParam_ok (verb : Verb) (pp : List String) (st : Cooked) (p : Param)
    (hk : p.kind ≠ .unsupported) (hb : isStructParam p = true → st.body = none) :
    ∃ st', handleParam verb pp st p = .ok st' := by
  unfold handleParam
  simp only [bind, Except.bind, pure, Except.pure]
  cases hkd : p.kind with
  | ctx => exact ⟨_, rfl⟩
  | scalar => exact ⟨_, rfl⟩
  | qualOther => exact ⟨_, rfl⟩
  | dict => exact ⟨_, rfl⟩
  | unsupported => exact absurd hkd hk
  | struct fs =>
    have := hb (by simp [isStructParam, hkd])
    simp only [setBody, this]
    exact ⟨_, rfl⟩

theorem cookParams_ok (verb : Verb) (pp : List String) (ps : List Param)
    (hk : ∀ p ∈ ps, p.kind ≠ .unsupported) :
    ∀ st, ((ps.filter isStructParam = []) ∨ (st.body = none ∧ (ps.filter isStructParam).length ≤ 1)) →
      ∃ c, cookParams verb pp st ps = .ok c := by
  induction ps with
  | nil => intro st _; exact ⟨st, rfl⟩
  | cons p ps ih =>
    intro st h
    have hb : isStructParam p = true → st.body = none := by
      intro hs
      rcases h with h | h
      · simp [hs] at h
      · exact h.1
    obtain ⟨st1, h1⟩ := handleParam_ok verb pp st p (hk p (by simp)) hb
    obtain ⟨_, _, hbody, _⟩ := handleParam_slots verb pp st st1 p h1
    simp only [cookParams, bind, Except.bind, h1]
    apply ih (fun q hq => hk q (by simp [hq]))
    by_cases hs : isStructParam p = true
    · left
      rcases h with h | h
      · simp [hs] at h
      · have := h.2
        simp only [List.filter_cons, hs, ↓reduceIte, List.length_cons] at this
        exact List.length_eq_zero_iff.1 (by omega)
    · rcases h with h | h
      · left; simpa [List.filter_cons, hs] using h
      · right
        refine ⟨?_, by simpa [List.filter_cons, hs] using h.2⟩
        rw [hbody]; simp [structLike, hs, h.1]

/-- every method of an interface with `structOk` is cooked (no Fatal, not skipped once its directives are read) -/
theorem cookParsed_ok (m : MethodSpec) (h : methodShapeOk m = true) (hinj : aliasInjective m = true) :
    ∃ c subs, CookedFor m c ⟨m.verb, m.path, placeholders m.path⟩ subs := by
  simp only [methodShapeOk, Bool.and_eq_true, List.all_eq_true, bne_iff_ne, ne_eq, decide_eq_true_eq] at h
  obtain ⟨⟨⟨⟨⟨⟨⟨⟨⟨_, _⟩, hns⟩, hone⟩, _⟩, _⟩, _⟩, _⟩, _⟩, _⟩ := h
  simp only [aliasInjective, distinct, decide_eq_true_eq] at hinj
  obtain ⟨c, hc⟩ := cookParams_ok m.verb (realParams m.alias (placeholders m.path)) m.params hns
    { aliasMap := m.alias.map (fun kv => (Expr.param kv.1, kv.2)) } (Or.inr ⟨rfl, hone⟩)
  refine ⟨c, subsOf c.aliasMap (realParams m.alias (placeholders m.path)), ?_⟩
  unfold CookedFor cookParsed
  simp [hinj, hc]



/-! ## 4. the interface-level glue of cookClient: which methods become generated methods -/

/-- the generated method of one interface method: none when its directive is missing/bad (skipped with a warning) -/
def planOfMethod (hs : List (String × String)) (md : Method) : Option Plan :=
  match cookMethod md with
  | .ok c d s => some (planOf hs md.name c d s)
  | _ => none

def isFatal (md : Method) : Bool := match cookMethod md with | .fatal => true | _ => false

def tripleOf (md : Method) : Option (Cooked × PathDir × List PathSub) :=
  match cookMethod md with | .ok c d s => some (c, d, s) | _ => none

theorem collect_closed (ms : List Method) :
    collect (ms.map cookMethod) = if ms.any isFatal then none else some (ms.filterMap tripleOf) := by
  induction ms with
  | nil => rfl
  | cons m ms ih =>
    cases hm : cookMethod m with
    | fatal =>
      have h1 : isFatal m = true := by simp [isFatal, hm]
      simp [List.map_cons, hm, collect, h1]
    | skipped =>
      have h1 : isFatal m = false := by simp [isFatal, hm]
      have h2 : tripleOf m = none := by simp [tripleOf, hm]
      simp only [List.map_cons, hm, collect, ih, List.any_cons, h1, Bool.false_or, List.filterMap_cons, h2]
    | ok c d s =>
      have h1 : isFatal m = false := by simp [isFatal, hm]
      have h2 : tripleOf m = some (c, d, s) := by simp [tripleOf, hm]
      simp only [List.map_cons, hm, collect, ih, List.any_cons, h1, Bool.false_or, List.filterMap_cons, h2]
      cases ms.any isFatal <;> simp

theorem zip_names (hs : List (String × String)) (ms : List Method) :
    ((ms.filterMap tripleOf).zip ((ms.filter cookedOk).map (·.name))).map (fun (x, name) => planOf hs name x.1 x.2.1 x.2.2)
      = ms.filterMap (planOfMethod hs) := by
  induction ms with
  | nil => rfl
  | cons m ms ih =>
    cases hm : cookMethod m with
    | fatal =>
      have h1 : cookedOk m = false := by simp [cookedOk, hm]
      have h2 : tripleOf m = none := by simp [tripleOf, hm]
      have h3 : planOfMethod hs m = none := by simp [planOfMethod, hm]
      simp only [List.filterMap_cons, List.filter_cons, h1, h2, h3, Bool.false_eq_true, ↓reduceIte]
      exact ih
    | skipped =>
      have h1 : cookedOk m = false := by simp [cookedOk, hm]
      have h2 : tripleOf m = none := by simp [tripleOf, hm]
      have h3 : planOfMethod hs m = none := by simp [planOfMethod, hm]
      simp only [List.filterMap_cons, List.filter_cons, h1, h2, h3, Bool.false_eq_true, ↓reduceIte]
      exact ih
    | ok c d s =>
      have h1 : cookedOk m = true := by simp [cookedOk, hm]
      have h2 : tripleOf m = some (c, d, s) := by simp [tripleOf, hm]
      have h3 : planOfMethod hs m = some (planOf hs m.name c d s) := by simp [planOfMethod, hm]
      simp only [List.filterMap_cons, List.filter_cons, h1, h2, h3, ↓reduceIte, List.map_cons, List.zip_cons_cons]
      rw [← ih]

/-- cookClient + template, interface level, in closed form: a Fatal in any method ends the run; otherwise the generated
    methods are, in declaration order, exactly the methods whose request directive is read — one generated method per
    such interface method, each built from that method's own doc comment and parameters and from the interface's
    header directive — and the output compiles unless a map pointer is ranged over (Q5) or a method was skipped
    (the interface is then not implemented) -/
theorem generate_closed (i : Iface) :
    generate i =
      if i.methods.any isFatal then .fatal
      else
        .ok (i.methods.filterMap (planOfMethod (setAll [] (strKVs (parseHeaders i.headersDoc)))))
          (!(i.methods.filterMap (planOfMethod (setAll [] (strKVs (parseHeaders i.headersDoc))))).any
              (fun p => !p.dict.isEmpty && p.dictIsPtr) &&
            (i.methods.filterMap (planOfMethod (setAll [] (strKVs (parseHeaders i.headersDoc))))).length == i.methods.length) := by
  unfold generate generateH
  simp only [collect_closed]
  cases i.methods.any isFatal with
  | true => rfl
  | false =>
    simp only [Bool.false_eq_true, ↓reduceIte]
    rw [zip_names]

theorem find_filterMap_plan (hs : List (String × String)) (ms : List Method) (hnd : (ms.map (·.name)).Nodup)
    (md : Method) (hmem : md ∈ ms) (c : Cooked) (d : PathDir) (s : List PathSub) (hc : cookMethod md = .ok c d s) :
    (ms.filterMap (planOfMethod hs)).find? (fun pl => pl.name == md.name) = some (planOf hs md.name c d s) := by
  induction ms with
  | nil => cases hmem
  | cons m ms ih =>
    simp only [List.map_cons, List.nodup_cons] at hnd
    simp only [List.mem_cons] at hmem
    rcases hmem with e | hmem
    · subst e
      simp [planOfMethod, hc, planOf]
    · have hne : m.name ≠ md.name := fun e => hnd.1 (e ▸ List.mem_map.2 ⟨md, hmem, rfl⟩)
      simp only [List.filterMap_cons]
      cases hp : planOfMethod hs m with
      | none => exact ih hnd.2 hmem
      | some pl =>
        have hn : pl.name = m.name := by
          unfold planOfMethod at hp
          cases hm : cookMethod m with
          | ok c' d' s' => simp only [hm, Option.some.injEq] at hp; rw [← hp]; rfl
          | fatal => simp [hm] at hp
          | skipped => simp [hm] at hp
        simp only [List.find?_cons, hn]
        have : (m.name == md.name) = false := by simpa using hne
        simp only [this]
        exact ih hnd.2 hmem



/-! ## 5. the interface as text, and the request of a call computed from that text -/

/-- the doc comment of the embedded `shoot.RestClient[T]` spells the header pairs `hs`: no comment for no pairs, else
    `shoot: headers={K:v},{K2:v2}` possibly continued over further lines (Proofs/RestKV: `parseHeaders_render`) -/
def HeaderDocFor (hs : List (String × String)) (doc : List Char) : Prop :=
  (hs = [] ∧ doc = []) ∨
  ∃ w0 gs ls stop, Blanks w0 ∧ HLineOK gs ∧ HLinesOK ls ∧ hdrIter ('\n' :: stop) = none ∧
    doc = shootColon ++ ' ' :: (headersEq ++ (w0 ++ renderGroups gs ++ (contText ls ++ '\n' :: stop))) ∧
    strKVs (gs.map (·.1) ++ linePairs ls) = hs

theorem headers_text (hs : List (String × String)) (doc : List Char) (h : HeaderDocFor hs doc) :
    strKVs (parseHeaders doc) = hs := by
  rcases h with ⟨rfl, rfl⟩ | ⟨w0, gs, ls, stop, h1, h2, h3, h4, rfl, h6⟩
  · rfl
  · rw [parseHeaders_render w0 gs ls stop h1 h2 h3 h4, h6]

/-- the interface as the generator sees it when every method's doc comment spells its directives as `spell` says -/
def ifaceText (hdoc : List Char) (spell : MethodSpec → Spelling) (is : IfaceSpec) : Iface :=
  ⟨hdoc, is.methods.map (fun m => ⟨m.name, methodDoc (spell m) m, m.params⟩)⟩

theorem headers_lookup_text (hs : List (String × String)) (v : Verb) (k : String) :
    getKV (headersFor (setAll [] hs) v) k = specHeader hs v k := by
  have h1 : lastOfKey (setAll [] hs) k = lastOfKey hs k := by
    have hnd : (keysOf (setAll ([] : List (String × String)) hs)).Nodup := keysOf_setAll_nodup [] hs (by simp [keysOf])
    rw [← getKV_eq_lastOfKey_of_nodup _ hnd, getKV_setAll]
    cases lastOfKey hs k <;> rfl
  rw [headersFor, getKV_setAll, h1, specHeader, lastOfKey]
  cases List.find? (fun kv => decide (kv.1 = k)) hs.reverse <;> rfl

/-- the generated method ranges over no pointer to a map (¬F_ptrDict): it compiles -/
theorem plan_no_ptr_dict (hs : List (String × String)) (m : MethodSpec) (c : Cooked) (d : PathDir) (subs : List PathSub)
    (hnames : (m.params.map (·.name)).Nodup) (h : CookedFor m c d subs)
    (hnp : m.verb.hasBody = false → ∀ p ∈ m.params, isDictParam p = true → p.ptr = false) :
    (!(planOf hs m.name c d subs).dict.isEmpty && (planOf hs m.name c d subs).dictIsPtr) = false := by
  obtain ⟨hd, _, hcook⟩ := cookedFor_unpack m c d subs h
  subst hd
  obtain ⟨hdict, _, _, _⟩ := cookParams_slots _ _ _ _ _ hcook
  obtain ⟨_, _, hptr⟩ := cookParams_closed _ _ _ _ _ hcook
  simp only [planOf]
  cases hv : m.verb.hasBody with
  | true => simp
  | false =>
    have : (c.dict.any fun p => (getKV c.isPtr (Expr.param p)).getD false) = false := by
      rw [List.any_eq_false]
      intro p hp
      rw [hdict] at hp
      simp only [List.nil_append, List.mem_map, List.mem_filter] at hp
      obtain ⟨q, ⟨hq, hqd⟩, rfl⟩ := hp
      rw [hptr, ptr_param_lookup m.params hnames q hq]
      simp only [hv, Bool.not_false, Bool.and_true] at hqd
      simp [hnp hv q hq hqd]
    simp [this]

theorem filterMap_length_of_all {α β : Type} (f : α → Option β) (l : List α) (h : ∀ a ∈ l, (f a).isSome = true) :
    (l.filterMap f).length = l.length := by
  induction l with
  | nil => rfl
  | cons a as ih =>
    cases ha : f a with
    | none => have := h a (by simp); rw [ha] at this; cases this
    | some b => simp [ha, ih (fun x hx => h x (by simp [hx]))]

/-- the clauses of the decidable `methodShapeOk`, as the propositions the theorems use -/
theorem methodOK_of_shape (m : MethodSpec) (h : methodShapeOk m = true) : MethodOK m := by
  simp only [methodShapeOk, Bool.and_eq_true, distinct, decide_eq_true_eq, List.all_eq_true,
    Bool.not_eq_true', bne_iff_ne, ne_eq] at h
  obtain ⟨⟨⟨⟨⟨⟨⟨⟨⟨hnames, hctx⟩, _⟩, _⟩, hak⟩, _⟩, hav⟩, hclean⟩, hph⟩, hfields⟩ := h
  refine ⟨hnames, hctx, hak, ?_, ?_, ?_, ?_, ?_, ?_⟩
  · intro kv hkv; simpa using hav kv hkv
  · simp only [pathClean, Bool.and_eq_true, List.all_eq_true] at hclean
    intro t ht
    have := hclean.2 t ht
    cases t with
    | lit c => simpa using this
    | ph n => trivial
  · intro n hn
    have := hph n hn
    simp only [placeholderOk, Bool.and_eq_true] at this
    exact this.1
  · intro n hn
    have := hph n hn
    simp only [placeholderOk, Bool.and_eq_true, List.any_eq_true, beq_iff_eq] at this
    obtain ⟨q, hq, ⟨⟨hname, _⟩, _⟩⟩ := this.2
    exact List.mem_map.2 ⟨q, hq, hname⟩
  · intro p hp; exact (hfields p hp).1
  · intro p hp f hf; simpa using (hfields p hp).2 f hf

/-- no call of a WF case passes a nil pointer-to-struct to a query verb -/
theorem argsOK_of_wf (i : IfaceSpec) (calls : List Call) (hnil : F_nilStructDeref i calls = false)
    (cl : Call) (hc : cl ∈ calls) (m : MethodSpec) (hm : findMethod i cl.method = some m) :
    ArgsOK m cl.args := by
  constructor
  intro hv p hp hsp hfs v ha
  have : F_nilStructDeref i calls = true := by
    simp only [F_nilStructDeref, List.any_eq_true]
    refine ⟨cl, hc, ?_⟩
    simp only [hm, hv, Bool.not_false, Bool.true_and, List.any_eq_true, Bool.and_eq_true]
    refine ⟨p, hp, ⟨hsp, ?_⟩, ?_⟩
    · cases hf : fieldsOf p with
      | nil => exact absurd hf hfs
      | cons a as => rfl
    · simp [ha]
  rw [hnil] at this; cases this

/-- **from the text of the doc comments to the request on the wire.** An interface of region WF whose doc comments
    spell its directives in the documented form (`ifaceText`, `SpellingOK`, `HeaderDocFor`): the generator — reading
    ONLY the text: `parsePath`, `parseAlias`/`parseKV`, `parseHeaders` — produces a client that compiles, and every call
    sends exactly one request, with the directive's verb, the path with every placeholder replaced by its alias-resolved
    argument, the query the property lists, the struct argument as body, the verb's default headers overridden by the
    interface's `headers=` pairs, and the caller's context -/
theorem call_text (is : IfaceSpec) (calls : List Call) (hdoc : List Char) (spell : MethodSpec → Spelling)
    (hwf : region is calls = "WF") (hh : HeaderDocFor is.headers hdoc)
    (hsp : ∀ m ∈ is.methods, SpellingOK (spell m) m)
    (cl : Call) (hcl : cl ∈ calls) (m : MethodSpec) (hm : findMethod is cl.method = some m) :
    ∃ r, callModel (ifaceText hdoc spell is) cl.method cl.args = some (.sent r) ∧
      r.verb = m.verb.upper ∧ r.path = specPath m cl.args ∧ r.query.getD [] = specQuery m cl.args ∧
      r.body = specBody m ∧ (∀ k, getKV r.headers k = specHeader is.headers m.verb k) ∧ r.ctx = specCtx m cl.args := by
  obtain ⟨hso, hpd, hnil, hnoal⟩ := region_wf is calls hwf
  have hso' := hso
  simp only [structOk, shapeOk, Bool.and_eq_true, List.all_eq_true, distinct, decide_eq_true_eq] at hso'
  obtain ⟨⟨⟨hshape, hnd⟩, _⟩, hinj⟩ := hso'
  -- every method is cooked from its text as from its meaning
  have hcook : ∀ m' ∈ is.methods, ∃ c subs, CookedFor m' c ⟨m'.verb, m'.path, placeholders m'.path⟩ subs ∧
      cookMethod ⟨m'.name, methodDoc (spell m') m', m'.params⟩ = .ok c ⟨m'.verb, m'.path, placeholders m'.path⟩ subs := by
    intro m' hm'
    have hs' := hshape m' hm'
    obtain ⟨c, subs, hc⟩ := cookParsed_ok m' hs' (hinj m' hm')
    have hpc : pathClean m'.path = true := by
      simp only [methodShapeOk, Bool.and_eq_true] at hs'
      exact hs'.1.1.2
    refine ⟨c, subs, hc, ?_⟩
    have hna : containsAliasEq m'.path = false := by
      simp only [aliasInPath, List.any_eq_false] at hnoal
      simpa using hnoal m' hm'
    rw [cookMethod_text (spell m') m' (hsp m' hm') hpc hna (methodOK_of_shape m' hs').aliasKeys]
    exact hc
  have hhs : setAll [] (strKVs (parseHeaders hdoc)) = setAll [] is.headers := by rw [headers_text _ _ hh]
  have hnofatal : (ifaceText hdoc spell is).methods.any isFatal = false := by
    rw [List.any_eq_false]
    intro md hmd
    simp only [ifaceText, List.mem_map] at hmd
    obtain ⟨m', hm', rfl⟩ := hmd
    obtain ⟨c, subs, _, hc⟩ := hcook m' hm'
    simp [isFatal, hc]
  have hgen := generate_closed (ifaceText hdoc spell is)
  rw [hnofatal] at hgen
  simp only [Bool.false_eq_true, ↓reduceIte] at hgen
  have hdoc' : (ifaceText hdoc spell is).headersDoc = hdoc := rfl
  rw [hdoc', hhs] at hgen
  have hsome : ∀ md ∈ (ifaceText hdoc spell is).methods, (planOfMethod (setAll [] is.headers) md).isSome = true := by
    intro md hmd
    simp only [ifaceText, List.mem_map] at hmd
    obtain ⟨m', hm', rfl⟩ := hmd
    obtain ⟨c, subs, _, hc⟩ := hcook m' hm'
    simp [planOfMethod, hc]
  have hlen := filterMap_length_of_all _ _ hsome
  have hbad : ((ifaceText hdoc spell is).methods.filterMap (planOfMethod (setAll [] is.headers))).any
      (fun p => !p.dict.isEmpty && p.dictIsPtr) = false := by
    rw [List.any_eq_false]
    intro pl hpl
    simp only [List.mem_filterMap, ifaceText, List.mem_map] at hpl
    obtain ⟨md, ⟨m', hm', rfl⟩, hp⟩ := hpl
    obtain ⟨c, subs, hcf, hc⟩ := hcook m' hm'
    simp only [planOfMethod, hc, Option.some.injEq] at hp
    subst hp
    have := plan_no_ptr_dict (setAll [] is.headers) m' c _ subs (methodOK_of_shape m' (hshape m' hm')).names hcf (by
      intro hv p hp hd
      cases hptr : p.ptr with
      | false => rfl
      | true =>
        have : F_ptrDict is = true := by
          simp only [F_ptrDict, List.any_eq_true, Bool.and_eq_true]
          exact ⟨m', hm', by simp [hv], p, hp, hd, hptr⟩
        rw [hpd] at this; cases this)
    simpa using this
  -- the called method
  have hmem : m ∈ is.methods := List.mem_of_find?_eq_some hm
  have hname : m.name = cl.method := by simpa using List.find?_some hm
  obtain ⟨c, subs, hcf, hc⟩ := hcook m hmem
  have hnd' : ((ifaceText hdoc spell is).methods.map (·.name)).Nodup := by
    have : (ifaceText hdoc spell is).methods.map (·.name) = is.methods.map (·.name) := by
      simp [ifaceText, List.map_map, Function.comp_def]
    rw [this]; exact hnd
  have hfind := find_filterMap_plan (setAll [] is.headers) (ifaceText hdoc spell is).methods hnd'
    ⟨m.name, methodDoc (spell m) m, m.params⟩ (by simp only [ifaceText, List.mem_map]; exact ⟨m, hmem, rfl⟩) c _ subs hc
  simp only [hname] at hfind
  obtain ⟨r, h1, h2, h3, h4, h5, h6, h7⟩ := send_eq_spec (setAll [] is.headers) m c _ subs cl.args
    (methodOK_of_shape m (hshape m hmem)) (argsOK_of_wf is calls hnil cl hcl m hm) hcf
  refine ⟨r, ?_, h2, h3, h4, h5, fun k => by rw [h6]; exact headers_lookup_text is.headers m.verb k, h7⟩
  unfold callModel
  rw [hgen, hbad, hlen]
  simp only [Bool.not_false, Bool.true_and, beq_self_eq_true, hfind, Option.map_some, hname.symm ▸ h1]


end ShootVerif.Rest
