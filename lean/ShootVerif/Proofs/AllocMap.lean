import ShootVerif.Model.AllocMap
import ShootVerif.Proofs.CtorFlatten
/-! The stack scan of `makeNew` over the generator's list yields, for every field, exactly the embedded
    pointer structs on its way in the struct. -/
namespace ShootVerif.Ctor

theorem ptrPaths_snoc (st : List Field) (e : Field) : ∀ pre : List String,
    ptrPaths pre (st ++ [e]) =
      ptrPaths pre st ++ (if e.isPtr then [pre ++ st.map (·.name) ++ [e.name]] else []) := by
  induction st with
  | nil => intro pre; simp [ptrPaths]
  | cons x xs ih => intro pre; simp [ptrPaths, ih, List.append_assoc]

theorem trunc_eq (st extra : List Field) (d : Nat) (h : st.length = d) :
    (if d < (st ++ extra).length then (st ++ extra).take d else st ++ extra) = st := by
  by_cases he : extra = []
  · subst he; simp [h]
  · have hlt : d < (st ++ extra).length := by
      rw [List.length_append]
      have : 0 < extra.length := by
        cases extra with
        | nil => exact absurd rfl he
        | cons _ _ => simp
      omega
    simp only [hlt, ↓reduceIte]
    subst h
    simp

/-- scanning the walk of a subtree with a stack whose first `d` entries are the enclosing embedded structs
    yields the struct-derived pairs, and continues with those `d` entries still at the bottom of the stack -/
theorem allocScan_walk (sh : Shadow) (t : Tree) : ∀ (top inh : Bool) (d : Nat) (st extra tail : List Field),
    st.length = d →
    ∃ extra', allocScan (st ++ extra) (walk sh top inh d t ++ tail) =
      treeAllocs sh top inh d (st.map (·.name)) (ptrPaths [] st) t ++ allocScan (st ++ extra') tail := by
  induction t with
  | nil => intro top inh d st extra tail _; exact ⟨extra, by simp [walk, treeAllocs]⟩
  | field f rest ih =>
    intro top inh d st extra tail hd
    by_cases hs : f.skip
    · obtain ⟨e', he'⟩ := ih top inh d st extra tail hd
      exact ⟨e', by simp only [walk, treeAllocs, hs, ↓reduceIte, List.nil_append]; exact he'⟩
    · obtain ⟨e', he'⟩ := ih top inh d st [] tail hd
      refine ⟨e', ?_⟩
      simp only [walk, treeAllocs, hs, Bool.false_eq_true, ↓reduceIte, List.cons_append, List.nil_append, allocScan]
      have hdep : (mkField sh d (if top then f.newMark else inh) f top).depth = d := rfl
      have hemb : (mkField sh d (if top then f.newMark else inh) f top).isEmbeded = false := rfl
      rw [hdep, hemb, trunc_eq st extra d hd]
      simp only [Bool.false_eq_true, ↓reduceIte]
      rw [List.append_nil] at he'
      rw [he']
  | embed n ty p nm body rest ihb ihr =>
    intro top inh d st extra tail hd
    simp only [walk, treeAllocs, List.cons_append, allocScan]
    have hdep : (mkEmbed sh d n ty p).depth = d := rfl
    have hemb : (mkEmbed sh d n ty p).isEmbeded = true := rfl
    rw [hdep, hemb, trunc_eq st extra d hd]
    simp only [↓reduceIte]
    obtain ⟨e1, h1⟩ := ihb false (if top then nm else inh) (d + 1) (st ++ [mkEmbed sh d n ty p]) []
      (walk sh top inh d rest ++ tail) (by simp [hd])
    rw [List.append_nil] at h1
    rw [List.append_assoc, h1]
    obtain ⟨e2, h2⟩ := ihr top inh d st ([mkEmbed sh d n ty p] ++ e1) tail hd
    refine ⟨e2, ?_⟩
    rw [List.append_assoc] at h1
    rw [List.append_assoc, h2, ptrPaths_snoc]
    have hname : (mkEmbed sh d n ty p).name = n := rfl
    have hptr : (mkEmbed sh d n ty p).isPtr = p := rfl
    simp only [List.map_append, List.map_cons, List.map_nil, hname, hptr, List.nil_append, List.append_assoc]
    cases p <;> simp

/-- the whole list: `AllocMap` is computed from exactly the struct-derived pointer embeds -/
theorem allocScan_flatten (t : Tree) :
    allocScan [] (flatten t) = treeAllocs (genShadow t) true false 0 [] [] t := by
  rw [flatten_closed]
  obtain ⟨e, he⟩ := allocScan_walk (genShadow t) t true false 0 [] [] [] rfl
  simp only [List.append_nil, List.nil_append, List.map_nil, ptrPaths] at he
  unfold walkTop
  rw [he]
  simp [allocScan]

/-- the second components of `treeAllocs` are those of `leavesPtrs` (the driver's and the spec's view) -/
theorem treeAllocs_ptrs (sh : Shadow) (t : Tree) : ∀ (top inh : Bool) (d : Nat) (path : List String) (ptrs : List (List String)),
    (treeAllocs sh top inh d path ptrs t).map (fun e => (e.1.name, e.1.depth, e.2)) =
      ((leavesPtrs path ptrs d t).filter (fun l => !l.2.2.1.skip)).map (fun l => (l.2.2.1.name, l.2.1, l.2.2.2.2)) := by
  induction t with
  | nil => intros; simp [treeAllocs, leavesPtrs]
  | field f rest ih =>
    intro top inh d path ptrs
    simp only [treeAllocs, leavesPtrs, List.map_append, List.filter_cons, ih top inh d path ptrs]
    by_cases hs : f.skip <;> simp [hs, mkField]
  | embed n ty p nm body rest ihb ihr =>
    intro top inh d path ptrs
    simp only [treeAllocs, leavesPtrs, List.map_append, List.filter_append, ihb, ihr]

/-- name-keyed lookup: when the unshadowed promoted entries have distinct names, `AllocMap[name]` is the chain of
    the one entry with that name -/
theorem allocMapOf_unique (fs : List Field) (e : Field × List (List String))
    (he : e ∈ allocScan [] fs) (hvis : e.1.isShadowed = false) (hdep : e.1.depth ≠ 0)
    (hnd : (((allocScan [] fs).filter (fun x => !x.1.isShadowed && x.1.depth != 0)).map (·.1.name)).Nodup) :
    allocMapOf fs e.1.name = e.2 := by
  unfold allocMapOf
  generalize allocScan [] fs = L at he hnd
  induction L with
  | nil => cases he
  | cons x xs ih =>
    simp only [List.filter_cons] at hnd ⊢
    rcases List.mem_cons.mp he with hx | hx
    · subst hx
      have hc : (!e.1.isShadowed && e.1.depth != 0) = true := by simp [hvis, hdep]
      simp only [hc, ↓reduceIte, List.map_cons, List.nodup_cons] at hnd
      have hrest : xs.filter (fun y => !y.1.isShadowed && y.1.depth != 0 && decide (y.1.name = e.1.name)) = [] := by
        rw [List.filter_eq_nil_iff]
        intro y hy hcy
        simp only [Bool.and_eq_true, decide_eq_true_eq] at hcy
        apply hnd.1
        rw [List.mem_map]
        exact ⟨y, List.mem_filter.mpr ⟨hy, by simpa using hcy.1⟩, hcy.2⟩
      simp [hvis, hdep, hrest]
    · by_cases hcx : (!x.1.isShadowed && x.1.depth != 0) = true
      · simp only [hcx, ↓reduceIte, List.map_cons, List.nodup_cons] at hnd
        have hne : x.1.name ≠ e.1.name := by
          intro heq
          apply hnd.1
          rw [List.mem_map]
          exact ⟨e, List.mem_filter.mpr ⟨hx, by simp [hvis, hdep]⟩, heq.symm⟩
        have : (!x.1.isShadowed && x.1.depth != 0 && decide (x.1.name = e.1.name)) = false := by simp [hne]
        simp only [this, Bool.false_eq_true, ↓reduceIte]
        exact ih hx hnd.2
      · have hcx' : (!x.1.isShadowed && x.1.depth != 0) = false := by simpa using hcx
        simp only [hcx', Bool.false_eq_true, ↓reduceIte] at hnd
        have : (!x.1.isShadowed && x.1.depth != 0 && decide (x.1.name = e.1.name)) = false := by simp [hcx']
        simp only [this, Bool.false_eq_true, ↓reduceIte]
        exact ih hx hnd

end ShootVerif.Ctor
