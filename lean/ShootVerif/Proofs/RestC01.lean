import ShootVerif.Proofs.RestSend
/-!
C01 for the rest template instance: the part of "the generated client compiles" that is the
generator's own bookkeeping (the Go compiler decides the rest, on generated packages).

* closedness (`rest_closed`): every Go identifier the emitted method body takes from the generator's
  tables — the arguments of the `strings.Replace` lines, the roots of the query expressions
  (`p`, `p.Field`, `p.Getter()`), the ranged-over map, the marshalled body, the request context — is
  a declared parameter of that method;
* duplicate freedom (`rest_methods_nodup`): the generated methods are, in order, exactly the interface
  methods whose directive parsed, each once — so an interface with distinct method names gets
  distinct generated methods and (when every directive parses) a complete method set.

Assumed, not proved (DESIGN §4): parameter names do not collide with the names the template itself
introduces (`c`, `err`, `path_`, `url_`, `req_`, `query_`, `resp_`, `bodyJson_`, `body_`, `r_`, `k`, `v`).
-/
namespace ShootVerif.Rest

def Expr.root : Expr → String
  | .param p => p
  | .field p _ _ => p

def CtxMode.ident : CtxMode → List String
  | .param p => [p]
  | .background => []

/-- the parameter identifiers a method body mentions -/
def Plan.idents (pl : Plan) : List String :=
  pl.subs.map (·.param) ++ pl.queryOps.map (fun op => op.expr.root) ++ pl.dict ++ pl.body.toList ++ pl.ctx.ident

theorem lastNamed_mem (q : Param → Bool) (ps : List Param) :
    ∀ (d : Option String) (x : String), lastNamed q d ps = some x → d = some x ∨ x ∈ ps.map (·.name) := by
  induction ps with
  | nil => intro d x h; exact Or.inl h
  | cons p ps ih =>
    intro d x h
    simp only [lastNamed] at h
    rcases ih _ x h with h' | h'
    · by_cases hq : q p = true
      · simp only [hq, ↓reduceIte, Option.some.injEq] at h'
        exact Or.inr (by simp [h'])
      · simp only [hq, Bool.false_eq_true, ↓reduceIte] at h'
        exact Or.inl h'
    · exact Or.inr (by simp only [List.map_cons, List.mem_cons]; exact Or.inr h')

theorem specParamOps_root (m : MethodSpec) (p : Param) : ∀ op ∈ specParamOps m p, op.expr.root = p.name := by
  intro op hop
  unfold specParamOps at hop
  cases hk : p.kind with
  | scalar =>
    simp only [hk] at hop
    by_cases hp : isPathParam m p.name = true
    · simp [hp] at hop
    · simp only [hp, Bool.false_eq_true, ↓reduceIte, List.mem_singleton] at hop
      rw [hop]; rfl
  | struct fs =>
    simp only [hk, List.mem_map] at hop
    obtain ⟨f, _, rfl⟩ := hop; rfl
  | ctx => simp [hk] at hop
  | qualOther =>
    simp only [hk] at hop
    by_cases hp : isPathParam m p.name = true
    · simp [hp] at hop
    · simp only [hp, Bool.false_eq_true, ↓reduceIte, List.mem_singleton] at hop
      rw [hop]; rfl
  | dict => simp [hk] at hop
  | unsupported => simp [hk] at hop

/-- closedness: every identifier of the emitted method body that comes from the generator's tables
    is a declared parameter of the method -/
theorem rest_closed (hs : List (String × String)) (m : MethodSpec)
    (c : Cooked) (d : PathDir) (subs : List PathSub) (ok : MethodOK m) (h : CookedFor m c d subs) :
    ∀ x ∈ (planOf hs m.name c d subs).idents, x ∈ m.params.map (·.name) := by
  obtain ⟨hd, hsub, hcook⟩ := cookedFor_unpack m c d subs h
  obtain ⟨hdict, hctx, hbody, _⟩ := cookParams_slots _ _ _ _ _ hcook
  have hq := queryOps_eq m c ok.names ok.fields ok.fieldKeys ok.aliasKeys ok.aliasVals hcook
  intro x hx
  simp only [Plan.idents, planOf, List.mem_append, List.mem_map] at hx
  rcases hx with (((hx | hx) | hx) | hx) | hx
  · -- a `strings.Replace` argument: the parameter a placeholder stands for
    obtain ⟨s, hs', rfl⟩ := hx
    rw [hsub, realParams_eq, subsOf] at hs'
    simp only [List.mem_map] at hs'
    obtain ⟨p, ⟨n, hn, rfl⟩, rfl⟩ := hs'
    have := ok.phParam n hn
    cases getKV c.aliasMap (Expr.param (resolve m (String.ofList n))) with
    | none => simpa using this
    | some a => by_cases ha : a.isEmpty = true <;> simpa [ha] using this
  · obtain ⟨op, hop, rfl⟩ := hx
    by_cases hv : d.verb.hasBody = true
    · simp [hv] at hop
    · simp only [hv, Bool.false_eq_true, ↓reduceIte] at hop
      rw [hq, List.mem_flatMap] at hop
      obtain ⟨p, hp, hin⟩ := hop
      rw [specParamOps_root m p op hin]
      exact List.mem_map.2 ⟨p, hp, rfl⟩
  · by_cases hv : d.verb.hasBody = true
    · simp [hv] at hx
    · simp only [hv, Bool.false_eq_true, ↓reduceIte] at hx
      rw [hdict] at hx
      simp only [List.nil_append, List.mem_map, List.mem_filter] at hx
      obtain ⟨p, ⟨hp, _⟩, rfl⟩ := hx
      exact List.mem_map.2 ⟨p, hp, rfl⟩
  · simp only [Option.mem_toList] at hx
    rw [hbody] at hx
    rcases lastNamed_mem _ _ _ _ hx with h' | h'
    · cases h'
    · exact h'
  · cases hc : c.ctx with
    | none => simp [hc, CtxMode.ident] at hx
    | some p =>
      simp only [hc, CtxMode.ident, List.mem_singleton] at hx
      subst hx
      rw [hctx] at hc
      rcases lastNamed_mem _ _ _ _ hc with h' | h'
      · cases h'
      · exact h'

/-! ### one generated method per interface method -/

theorem collect_length (ms : List Method) :
    ∀ cooked, collect (ms.map cookMethod) = some cooked → cooked.length = (ms.filter cookedOk).length := by
  induction ms with
  | nil => intro cooked h; simp only [List.map_nil, collect, Option.some.injEq] at h; subst h; rfl
  | cons m ms ih =>
    intro cooked h
    simp only [List.map_cons] at h
    cases hm : cookMethod m with
    | fatal => simp [hm, collect] at h
    | skipped =>
      simp only [hm, collect] at h
      simp [List.filter_cons, cookedOk, hm, ih cooked h]
    | ok c d s =>
      simp only [hm, collect] at h
      cases hr : collect (ms.map cookMethod) with
      | none => simp [hr] at h
      | some rest =>
        simp only [hr, Option.map_some, Option.some.injEq] at h
        subst h
        simp [List.filter_cons, cookedOk, hm, ih rest hr]

/-- duplicate freedom / completeness of the method set: the generated methods are, in order, the
    interface methods whose directives parsed -/
theorem rest_methods_nodup (i : Iface) (plans : List Plan) (b : Bool) (h : generate i = .ok plans b) :
    plans.map (·.name) = (i.methods.filter cookedOk).map (·.name) ∧
    ((i.methods.map (·.name)).Nodup → (plans.map (·.name)).Nodup) := by
  unfold generate generateH at h
  simp only at h
  cases hc : collect (i.methods.map cookMethod) with
  | none => simp [hc] at h
  | some cooked =>
    simp only [hc, GenRes.ok.injEq] at h
    obtain ⟨hp, _⟩ := h
    have hlen := collect_length i.methods cooked hc
    have hnames : plans.map (·.name) = (i.methods.filter cookedOk).map (·.name) := by
      rw [← hp]
      simp only [List.map_map]
      have : ((fun pl : Plan => pl.name) ∘ fun (x : (Cooked × PathDir × List PathSub) × String) =>
          planOf (setAll [] (strKVs (parseHeaders i.headersDoc))) x.2 x.1.1 x.1.2.1 x.1.2.2) = fun x => x.2 := by
        funext x; rfl
      rw [this]
      have hz : ∀ (as : List (Cooked × PathDir × List PathSub)) (bs : List String), as.length = bs.length →
          (as.zip bs).map (fun x => x.2) = bs := by
        intro as
        induction as with
        | nil => intro bs hl; cases bs with
          | nil => rfl
          | cons b bs => simp at hl
        | cons a as ih => intro bs hl; cases bs with
          | nil => simp at hl
          | cons b bs => simp only [List.zip_cons_cons, List.map_cons]; rw [ih bs (by simpa using hl)]
      exact hz cooked _ (by rw [hlen]; simp)
    refine ⟨hnames, fun hnd => ?_⟩
    rw [hnames]
    exact (List.Sublist.map _ List.filter_sublist).nodup hnd

end ShootVerif.Rest
