import ShootVerif.Spec.Phases
/-! helper lemmas for C18 -/
namespace ShootVerif.Phases

theorem writeAll_noErr (l : List String) (k : Nat) : writeAll l k none = (l.map .write, false) := by
  induction l generalizing k with
  | nil => rfl
  | cons f r ih => simp [writeAll, ih]

theorem code_le_two (e : Exit) : e.code ≤ 2 := by cases e <;> simp [Exit.code]

end ShootVerif.Phases
