import ShootVerif.Spec.Phases
/-! helper lemmas for C18 -/
namespace ShootVerif.Phases

theorem writeAll_noErr (l : List String) (k : Nat) : writeAll l k none = (l.map .write, false) := by
  induction l generalizing k with
  | nil => rfl
  | cons f r ih => simp [writeAll, ih]

theorem code_le_two (e : Exit) : e.code ≤ 2 := by cases e <;> simp [Exit.code]


/-- the write loop with an I/O error at the e-th notedownSrc (counted from k): the outputs before it are written -/
theorem writeAll_err (l : List String) : ∀ (k e : Nat), k ≤ e →
    writeAll l k (some e) = if e - k < l.length then ((l.take (e - k)).map .write, true) else (l.map .write, false) := by
  induction l with
  | nil => intro k e _; simp [writeAll]
  | cons f r ih =>
    intro k e hke
    by_cases hek : e = k
    · subst hek; simp [writeAll]
    · have h1 : (some e == some k) = false := by simpa using hek
      have hlt : k + 1 ≤ e := by omega
      simp only [writeAll, h1, Bool.false_eq_true, ↓reduceIte, ih (k + 1) e hlt]
      have : e - k = (e - (k + 1)) + 1 := by omega
      by_cases hl : e - (k + 1) < r.length
      · have hl' : e - k < (f :: r).length := by simp; omega
        rw [if_pos hl, if_pos hl', this]
        simp
      · have hl' : ¬ (e - k < (f :: r).length) := by simp; omega
        rw [if_neg hl, if_neg hl']
        simp

/-- in every case the write loop writes a prefix of the outputs -/
theorem writeAll_prefix (l : List String) (err : Option Nat) :
    ∃ j, (writeAll l 0 err).1 = (l.take j).map .write ∧ ((writeAll l 0 err).2 = false → j = l.length) := by
  cases err with
  | none => exact ⟨l.length, by simp [writeAll_noErr], fun _ => rfl⟩
  | some e =>
    rw [writeAll_err l 0 e (Nat.zero_le _)]
    simp only [Nat.sub_zero]
    by_cases h : e < l.length
    · exact ⟨e, by simp [h], by simp [h]⟩
    · exact ⟨l.length, by simp [h], fun _ => rfl⟩

end ShootVerif.Phases
