import ShootVerif.Spec.Fs
/-! helper lemmas for C17 (property theorems are in Props/C17.lean) -/
set_option linter.unusedSimpArgs false
set_option linter.unusedVariables false
namespace ShootVerif.Fs
open ShootVerif.Cli (Cmd)

@[simp] theorem upd_same {α β : Type} [DecidableEq α] (f : α → β) (a : α) (b : β) : upd f a b a = b := by simp [upd]
theorem upd_other {α β : Type} [DecidableEq α] (f : α → β) (a x : α) (b : β) (h : x ≠ a) : upd f a b x = f x := by simp [upd, h]
theorem upd_upd {α β : Type} [DecidableEq α] (f : α → β) (a : α) (b c : β) : upd (upd f a b) a c = upd f a c := by
  funext x; by_cases h : x = a <;> simp [upd, h]

theorem upd_shadow {β : Type} (f : Path → β) (a b : Path) (u v w : β) :
    upd (upd (upd f a u) b v) a w = upd (upd f b v) a w := by
  funext x; by_cases h : x = a <;> by_cases h2 : x = b <;> simp [upd, h, h2]

theorem exec_append (s : State) (a b : List Op) : exec s (a ++ b) = exec (exec s a) b := by simp [exec, List.foldl_append]
theorem exec_cons (s : State) (o : Op) (r : List Op) : exec s (o :: r) = exec (step s o) r := rfl
@[simp] theorem exec_nil (s : State) : exec s [] = s := rfl

/-- a prefix of `a ++ b` is a prefix of `a`, or all of `a` followed by a prefix of `b` -/
theorem split_take (a b : List Op) (k : Nat) :
    (a ++ b).take k = a.take k ∨ ∃ k', (a ++ b).take k = a ++ b.take k' := by
  rw [List.take_append]
  by_cases h : k ≤ a.length
  · left
    have : k - a.length = 0 := by omega
    simp [this]
  · right
    exact ⟨k - a.length, by rw [List.take_of_length_le (by omega)]⟩

/-! ### arbitrary op sequences never modify an inode that existed before and is not the open file -/

theorem data_stable (ops : List Op) : ∀ (s : State) (i : Nat), i < s.next → s.fd ≠ some i →
    (∀ j, s.fd = some j → j < s.next) → (exec s ops).data i = s.data i := by
  induction ops with
  | nil => intro s i _ _ _; rfl
  | cons o r ih =>
    intro s i hi hfd hfdn
    rw [exec_cons]
    cases o with
    | createTempExcl t =>
      cases hd : s.dir t with
      | some j =>
        simp only [step, hd]
        refine Eq.trans (ih _ i ?_ ?_ ?_) ?_
        · exact hi
        · simp
        · simp
        · rfl
      | none =>
        simp only [step, hd]
        refine Eq.trans (ih _ i ?_ ?_ ?_) ?_
        · show i < s.next + 1; omega
        · show some s.next ≠ some i; intro e; cases e; omega
        · intro j hj; cases hj; show s.next < s.next + 1; omega
        · exact upd_other _ _ _ _ (by omega)
    | write c =>
      cases hf : s.fd with
      | none => simp only [step, hf]; exact ih s i hi hfd hfdn
      | some j =>
        simp only [step, hf]
        have hji : i ≠ j := by intro e; subst e; exact hfd hf
        refine Eq.trans (ih _ i ?_ ?_ ?_) ?_
        · exact hi
        · show some j ≠ some i; intro e; cases e; exact hji rfl
        · intro j' hj'; cases hj'; exact hfdn j hf
        · exact upd_other _ _ _ _ hji
    | close =>
      simp only [step]
      refine Eq.trans (ih _ i ?_ ?_ ?_) ?_
      · exact hi
      · simp
      · simp
      · rfl
    | rename a b =>
      cases hd : s.dir a with
      | none => simp only [step, hd]; exact ih s i hi hfd hfdn
      | some j =>
        simp only [step, hd]
        refine Eq.trans (ih _ i ?_ ?_ ?_) ?_
        · exact hi
        · exact hfd
        · exact hfdn
        · rfl
    | remove p =>
      simp only [step]
      refine Eq.trans (ih _ i ?_ ?_ ?_) ?_
      · exact hi
      · exact hfd
      · exact hfdn
      · rfl

/-! ### one transaction -/

theorem exec_writes (cs : List Bytes) : ∀ (s : State) (i : Nat), s.fd = some i →
    exec s (cs.map .write) = { s with data := upd s.data i (s.data i ++ cs.flatten) } := by
  induction cs with
  | nil =>
    intro s i _
    simp only [List.map_nil, exec_nil, List.flatten_nil, List.append_nil]
    cases s; congr 1; funext x; simp only [upd]; split <;> simp_all
  | cons c r ih =>
    intro s i hf
    rw [List.map_cons, exec_cons]
    simp only [step, hf]
    rw [ih _ i rfl]
    simp only [upd_same, upd_upd, List.flatten_cons, List.append_assoc]

/-- after `createTempExcl` and some complete writes: the temp entry exists, its inode holds `c` -/
def midState (s : State) (x : Txn) (c : Bytes) (isOpen : Bool) : State :=
  { dir := upd s.dir x.tmp (some s.next), data := upd s.data s.next c, next := s.next + 1,
    fd := if isOpen then some s.next else none }

/-- after the whole transaction -/
def endState (s : State) (x : Txn) : State :=
  { dir := upd (upd s.dir x.target (some s.next)) x.tmp none, data := upd s.data s.next x.content, next := s.next + 1, fd := none }

theorem exec_create_writes (s : State) (x : Txn) (cs : List Bytes) (h : s.dir x.tmp = none) :
    exec s (.createTempExcl x.tmp :: cs.map .write) = midState s x cs.flatten true := by
  rw [exec_cons]
  simp only [step, h]
  rw [exec_writes cs _ s.next rfl]
  simp [midState, upd_upd]

theorem exec_txn (s : State) (x : Txn) (h : s.dir x.tmp = none) : exec s (txnOps x) = endState s x := by
  unfold txnOps
  rw [← List.cons_append, exec_append, exec_create_writes s x x.chunks h]
  simp [exec_cons, step, midState, endState, Txn.content, upd_shadow]

/-- every crash point inside a transaction -/
theorem txn_prefix (s : State) (x : Txn) (h : s.dir x.tmp = none) (k : Nat) :
    exec s ((txnOps x).take k) = s ∨ (∃ c b, exec s ((txnOps x).take k) = midState s x c b) ∨
      exec s ((txnOps x).take k) = endState s x := by
  cases k with
  | zero => left; simp
  | succ j =>
    right
    unfold txnOps
    rw [List.take_succ_cons, List.take_append]
    by_cases hj : j ≤ (x.chunks.map Op.write).length
    · left
      have h0 : j - (x.chunks.map Op.write).length = 0 := by omega
      rw [h0, List.take_zero, List.append_nil, ← List.map_take, exec_create_writes s x _ h]
      exact ⟨_, _, rfl⟩
    · rw [List.take_of_length_le (by omega)]
      have hpos : 0 < j - (x.chunks.map Op.write).length := by omega
      cases hm : j - (x.chunks.map Op.write).length with
      | zero => omega
      | succ m =>
        cases m with
        | zero =>
          left
          refine ⟨x.chunks.flatten, false, ?_⟩
          rw [← List.cons_append, exec_append, exec_create_writes s x _ h]
          simp [exec_cons, step, midState]
        | succ m' =>
          right
          have : List.take (m' + 1 + 1) [Op.close, Op.rename x.tmp x.target] = [Op.close, Op.rename x.tmp x.target] := by simp
          rw [this]
          have := exec_txn s x h
          unfold txnOps at this
          exact this


/-! ### what a reader sees around one transaction -/

theorem read_mid (s : State) (x : Txn) (c : Bytes) (b : Bool) (n : Path) (hinv : Inv s) (hn : n ≠ x.tmp) :
    read (midState s x c b) n = read s n := by
  simp only [read, midState, upd_other _ _ _ _ hn]
  cases hd : s.dir n with
  | none => rfl
  | some i =>
    have : i ≠ s.next := by have := hinv n i hd; omega
    simp [upd_other _ _ _ _ this]

theorem read_end (s : State) (x : Txn) (n : Path) (hinv : Inv s) (hn : n ≠ x.tmp) :
    read (endState s x) n = if n = x.target then some x.content else read s n := by
  simp only [read, endState, upd_other _ _ _ _ hn]
  by_cases ht : n = x.target
  · simp [ht]
  · simp only [upd_other _ _ _ _ ht, ht, ↓reduceIte]
    cases hd : s.dir n with
    | none => rfl
    | some i =>
      have : i ≠ s.next := by have := hinv n i hd; omega
      simp [upd_other _ _ _ _ this]

theorem inv_end (s : State) (x : Txn) (hinv : Inv s) : Inv (endState s x) := by
  intro p i h
  simp only [endState] at h ⊢
  by_cases h1 : p = x.tmp
  · simp [h1] at h
  · rw [upd_other _ _ _ _ h1] at h
    by_cases h2 : p = x.target
    · simp [h2] at h; omega
    · rw [upd_other _ _ _ _ h2] at h
      have := hinv p i h; omega

theorem fresh_end (s : State) (x : Txn) (r : List Txn) (h : freshTemps s (x :: r)) : freshTemps (endState s x) r := by
  obtain ⟨h1, h2, h3⟩ := h
  simp only [tmps, List.map_cons, List.nodup_cons] at h2
  refine ⟨?_, h2.2, fun a ha b hb => h3 a (by simp [ha]) b (by simp [hb])⟩
  intro y hy
  have hne1 : y.tmp ≠ x.tmp := by
    intro e; apply h2.1; rw [← e]; exact List.mem_map_of_mem (f := (·.tmp)) hy
  have hne2 : y.tmp ≠ x.target := h3 y (by simp [hy]) x (by simp)
  simp only [endState, upd_other _ _ _ _ hne1, upd_other _ _ _ _ hne2]
  exact h1 y (by simp [hy])

theorem exec_removes (l : List Path) : ∀ s : State,
    exec s (l.map .remove) = { s with dir := fun p => if p ∈ l then none else s.dir p } := by
  induction l with
  | nil => intro s; simp
  | cons a r ih =>
    intro s
    rw [List.map_cons, exec_cons, ih]
    simp only [step]
    congr 1
    funext p
    by_cases h1 : p = a
    · simp [h1]
    · by_cases h2 : p ∈ r <;> simp [h1, h2, upd_other _ _ _ _ h1]

theorem runOps_cons (x : Txn) (r : List Txn) (rms : List Path) : runOps (x :: r) rms = txnOps x ++ runOps r rms := by
  simp [runOps, txnsOps, List.append_assoc]

/-- the content visible under a non-temp path at ANY crash point of a run: unchanged, or the complete new content of
    a transaction targeting it, or gone because Clean removed it -/
theorem run_read (xs : List Txn) : ∀ (s : State) (rms : List Path) (k : Nat) (n : Path),
    Inv s → freshTemps s xs → n ∉ tmps xs →
    read (exec s ((runOps xs rms).take k)) n = read s n ∨
      (∃ x ∈ xs, x.target = n ∧ read (exec s ((runOps xs rms).take k)) n = some x.content) ∨
      (n ∈ rms ∧ read (exec s ((runOps xs rms).take k)) n = none) := by
  induction xs with
  | nil =>
    intro s rms k n hinv _ _
    simp only [runOps, txnsOps, List.nil_append, ← List.map_take, exec_removes]
    by_cases hm : n ∈ rms.take k
    · right; right
      exact ⟨List.mem_of_mem_take hm, by simp [read, hm]⟩
    · left; simp [read, hm]
  | cons x r ih =>
    intro s rms k n hinv hfresh hn
    have hx : s.dir x.tmp = none := hfresh.1 x (by simp)
    have hnx : n ≠ x.tmp := by intro e; apply hn; simp [tmps, e]
    have hnr : n ∉ tmps r := by intro e; apply hn; simp only [tmps, List.map_cons, List.mem_cons]; right; exact e
    rw [runOps_cons]
    rcases split_take (txnOps x) (runOps r rms) k with h | ⟨k', h⟩
    · rw [h]
      rcases txn_prefix s x hx k with h0 | ⟨c, b, hm⟩ | he
      · left; rw [h0]
      · left; rw [hm]; exact read_mid s x c b n hinv hnx
      · rw [he, read_end s x n hinv hnx]
        by_cases ht : n = x.target
        · right; left; exact ⟨x, by simp, ht.symm, by simp [ht]⟩
        · left; simp [ht]
    · rw [h, exec_append, exec_txn s x hx]
      have := ih (endState s x) rms k' n (inv_end s x hinv) (fresh_end s x r hfresh) hnr
      rw [read_end s x n hinv hnx] at this
      rcases this with h1 | ⟨y, hy, hyt, hyr⟩ | ⟨hr, hrr⟩
      · by_cases ht : n = x.target
        · right; left; exact ⟨x, by simp, ht.symm, by rw [h1]; simp [ht]⟩
        · left; rw [h1]; simp [ht]
      · right; left; exact ⟨y, by simp [hy], hyt, hyr⟩
      · right; right; exact ⟨hr, hrr⟩


/-! ### the open file is only ever named by a temp path -/

def Good (tm : List Path) (s : State) : Prop :=
  Inv s ∧ (∀ j, s.fd = some j → j < s.next) ∧ (∀ (p : Path) (i : Nat), s.dir p = some i → s.fd = some i → p ∈ tm)

theorem good_closed (tm : List Path) (s : State) (hinv : Inv s) (hfd : s.fd = none) : Good tm s :=
  ⟨hinv, by simp [hfd], by simp [hfd]⟩

theorem good_mid (tm : List Path) (s : State) (x : Txn) (c : Bytes) (b : Bool) (hinv : Inv s) (hx : x.tmp ∈ tm) :
    Good tm (midState s x c b) := by
  refine ⟨?_, ?_, ?_⟩
  · intro p i h
    simp only [midState] at h ⊢
    by_cases h1 : p = x.tmp
    · simp [h1] at h; omega
    · rw [upd_other _ _ _ _ h1] at h; have := hinv p i h; omega
  · intro j hj
    simp only [midState] at hj ⊢
    cases b <;> simp at hj
    omega
  · intro p i hd hf
    simp only [midState] at hd hf
    by_cases h1 : p = x.tmp
    · exact h1 ▸ hx
    · rw [upd_other _ _ _ _ h1] at hd
      have := hinv p i hd
      cases b <;> simp at hf
      omega

theorem good_prefix (xs : List Txn) : ∀ (s : State) (rms : List Path) (k : Nat) (tm : List Path),
    Inv s → s.fd = none → freshTemps s xs → (∀ t ∈ tmps xs, t ∈ tm) →
    Good tm (exec s ((runOps xs rms).take k)) := by
  induction xs with
  | nil =>
    intro s rms k tm hinv hfd _ _
    simp only [runOps, txnsOps, List.nil_append, ← List.map_take, exec_removes]
    apply good_closed
    · intro p i h
      simp only at h
      split at h
      · cases h
      · exact hinv p i h
    · exact hfd
  | cons x r ih =>
    intro s rms k tm hinv hfd hfresh htm
    have hx : s.dir x.tmp = none := hfresh.1 x (by simp)
    rw [runOps_cons]
    rcases split_take (txnOps x) (runOps r rms) k with h | ⟨k', h⟩
    · rw [h]
      rcases txn_prefix s x hx k with h0 | ⟨c, b, hm⟩ | he
      · rw [h0]; exact good_closed tm s hinv hfd
      · rw [hm]; exact good_mid tm s x c b hinv (htm x.tmp (by simp [tmps]))
      · rw [he]; exact good_closed tm _ (inv_end s x hinv) rfl
    · rw [h, exec_append, exec_txn s x hx]
      exact ih (endState s x) rms k' tm (inv_end s x hinv) rfl (fresh_end s x r hfresh)
        (fun t ht => htm t (by simp only [tmps, List.map_cons, List.mem_cons]; right; exact ht))

/-! ### normal termination -/

theorem dir_none_stays (xs : List Txn) : ∀ (s : State) (rms : List Path) (t : Path),
    freshTemps s xs → s.dir t = none → t ∉ tmps xs → t ∉ targets xs → (exec s (runOps xs rms)).dir t = none := by
  induction xs with
  | nil =>
    intro s rms t _ h _ _
    simp only [runOps, txnsOps, List.nil_append, exec_removes]
    split <;> simp [h]
  | cons x r ih =>
    intro s rms t hfresh h ht1 ht2
    have hx : s.dir x.tmp = none := hfresh.1 x (by simp)
    simp only [tmps, targets, List.map_cons, List.mem_cons, not_or] at ht1 ht2
    rw [runOps_cons, exec_append, exec_txn s x hx]
    apply ih (endState s x) rms t (fresh_end s x r hfresh)
    · simp only [endState, upd_other _ _ _ _ ht1.1, upd_other _ _ _ _ ht2.1]; exact h
    · exact ht1.2
    · exact ht2.2

theorem no_temp_left (xs : List Txn) : ∀ (s : State) (rms : List Path),
    freshTemps s xs → ∀ t ∈ tmps xs, (exec s (runOps xs rms)).dir t = none := by
  induction xs with
  | nil => intro s rms _ t ht; cases ht
  | cons x r ih =>
    intro s rms hfresh t ht
    have hx : s.dir x.tmp = none := hfresh.1 x (by simp)
    rw [runOps_cons, exec_append, exec_txn s x hx]
    simp only [tmps, List.map_cons, List.mem_cons] at ht
    rcases ht with rfl | htr
    · apply dir_none_stays r (endState s x) rms x.tmp (fresh_end s x r hfresh)
      · simp [endState]
      · have := hfresh.2.1
        simp only [tmps, List.map_cons, List.nodup_cons] at this
        exact this.1
      · intro hmem
        simp only [targets, List.mem_map] at hmem
        obtain ⟨y, hy, hyt⟩ := hmem
        exact hfresh.2.2 x (by simp) y (by simp [hy]) hyt.symm
    · exact ih (endState s x) rms (fresh_end s x r hfresh) t htr

/-! ### runs that terminate by themselves, I/O errors included -/

/-- ops that touch no directory entry but `t` -/
def onlyAt (t : Path) : Op → Prop
  | .createTempExcl a => a = t
  | .remove p => p = t
  | .rename _ _ => False
  | .write _ => True
  | .close => True

theorem dir_onlyAt (t : Path) (ops : List Op) : ∀ s : State, (∀ op ∈ ops, onlyAt t op) →
    ∀ n, n ≠ t → (exec s ops).dir n = s.dir n := by
  induction ops with
  | nil => intro s _ n _; rfl
  | cons o r ih =>
    intro s h n hn
    rw [exec_cons, ih _ (fun op hop => h op (by simp [hop])) n hn]
    have ho := h o (by simp)
    cases o with
    | createTempExcl a =>
      simp only [onlyAt] at ho; subst ho
      simp only [step]
      cases s.dir a <;> simp [upd_other _ _ _ _ hn]
    | write c => simp only [step]; cases s.fd <;> rfl
    | close => rfl
    | rename a b => exact absurd ho (by simp [onlyAt])
    | remove p =>
      simp only [onlyAt] at ho; subst ho
      simp [step, upd_other _ _ _ _ hn]

theorem dir_after_remove (s : State) (ops : List Op) (t : Path) : (exec s (ops ++ [.remove t])).dir t = none := by
  rw [exec_append]; simp [exec, step]

theorem txnsOps_eq_runOps (xs : List Txn) : txnsOps xs = runOps xs [] := by simp [runOps]

theorem exec_removes_dir_none (l : List Path) (s : State) (t : Path) (h : s.dir t = none) :
    (exec s (l.map .remove)).dir t = none := by
  rw [exec_removes]; simp only; split <;> simp [h]

/-! ### Clean removes only what carries this sub-command's per-type header -/

theorem cleanLoop_removable (cmd : Cmd) (gf : String) (l : List FileInfo) :
    ∀ n ∈ cleanLoop cmd gf l, ∃ f ∈ l, f.name = n ∧ globMatch cmd f.name = true ∧ removable cmd f = true := by
  induction l with
  | nil => intro n hn; simp [cleanLoop] at hn
  | cons f r ih =>
    intro n hn
    have lift : n ∈ cleanLoop cmd gf r → ∃ g ∈ f :: r, g.name = n ∧ globMatch cmd g.name = true ∧ removable cmd g = true := by
      intro h'; obtain ⟨g, hgm, hgn⟩ := ih n h'; exact ⟨g, by simp [hgm], hgn⟩
    unfold cleanLoop at hn
    split at hn
    · exact lift hn
    · rename_i hg
      split at hn
      · exact lift hn
      · split at hn
        · exact lift hn
        · rename_i hgen
          split at hn
          · exact lift hn
          · rename_i haio
            simp only [List.mem_cons] at hn
            rcases hn with rfl | hn
            · refine ⟨f, by simp, rfl, by simpa using hg, ?_⟩
              have hgen' : isGenLine cmd f.firstLine = true := by simpa using hgen
              have haio' : isAIOLine f.firstLine = false := by simpa using haio
              simp only [isGenLine, Bool.and_eq_true] at hgen'
              simp only [removable, generatedBy, hgen'.1, haio', Bool.not_false, Bool.and_self]
            · exact lift hn

/-! ### the first line of a file; the order of write phase and clean-up -/

theorem isPrefixOf_takeWhile (p : List Char) (q : Char → Bool) : ∀ l : List Char, p.isPrefixOf (l.takeWhile q) = true → p.isPrefixOf l = true := by
  induction p with
  | nil => intro l _; simp
  | cons a r ih =>
    intro l h
    cases l with
    | nil => simp [List.takeWhile] at h
    | cons b t =>
      simp only [List.takeWhile] at h
      split at h
      · simp only [List.isPrefixOf, Bool.and_eq_true] at h ⊢
        exact ⟨h.1, ih t h.2⟩
      · simp [List.isPrefixOf] at h

theorem firstLineOf_append (l r : List Char) (h : '\n' ∉ l) : firstLineOf (l ++ '\n' :: r) = l := by
  induction l with
  | nil => simp [firstLineOf, List.takeWhile]
  | cons a t ih =>
    have ha : a ≠ '\n' := fun e => h (by simp [e])
    have ht : '\n' ∉ t := fun e => h (by simp [e])
    simp only [firstLineOf] at ih ⊢
    simp [List.takeWhile, ha, ih ht]

/-- the clean-up follows the last rename: at a crash point (or at the end) at which an entry that existed before the run, and is
    neither an output nor a temp file, is GONE, every output transaction has been carried out completely - the op prefix is the
    whole write phase followed by some of the removals -/
theorem clean_follows_writes (s : State) (xs : List Txn) (rms : List Path) (k : Nat) (hinv : Inv s) (hfresh : freshTemps s xs)
    (p : Path) (hp1 : p ∉ tmps xs) (hp2 : p ∉ targets xs) (hex : s.dir p ≠ none)
    (hgone : (exec s ((runOps xs rms).take k)).dir p = none) :
    ∃ j, (runOps xs rms).take k = txnsOps xs ++ (rms.take j).map .remove := by
  by_cases hk : k ≤ (txnsOps xs).length
  · exfalso
    have hpre : (runOps xs rms).take k = (runOps xs []).take k := by
      simp only [runOps, List.map_nil, List.append_nil]
      rw [List.take_append_of_le_length hk]
    rw [hpre] at hgone
    rcases run_read xs s [] k p hinv hfresh hp1 with h | ⟨x, hx, hxt, _⟩ | ⟨h, _⟩
    · simp only [read, hgone, Option.map_none] at h
      cases hd : s.dir p with
      | none => exact hex hd
      | some i => simp [hd] at h
    · exact hp2 (hxt ▸ List.mem_map_of_mem (f := (·.target)) hx)
    · cases h
  · refine ⟨k - (txnsOps xs).length, ?_⟩
    simp only [runOps]
    rw [List.take_append, List.take_of_length_le (by omega), List.map_take]

/-- a file is removed only if its CONTENT starts with this sub-command's header prefix: whatever stands on later lines - a quoted
    header in a comment, in a raw string, behind a licence block - plays no role -/
theorem clean_content_header (cmd : Cmd) (gf : String) (files : List (String × String)) (n : String)
    (h : n ∈ cleanLoop cmd gf (files.map (fun p => FileInfo.ofContent p.1 p.2))) :
    ∃ p ∈ files, p.1 = n ∧ (genPrefix cmd).isPrefixOf p.2.toList = true := by
  obtain ⟨f, hf, hfn, _, hr⟩ := cleanLoop_removable cmd gf _ n h
  simp only [List.mem_map] at hf
  obtain ⟨p, hp, rfl⟩ := hf
  refine ⟨p, hp, hfn, ?_⟩
  simp only [removable, generatedBy, FileInfo.ofContent, Bool.and_eq_true, String.toList_ofList] at hr
  exact isPrefixOf_takeWhile _ _ _ hr.1

/-- and the decision is a function of the first line alone: two directory listings whose files agree in name and first line
    are cleaned alike -/
theorem clean_first_line_decides (cmd : Cmd) (gf : String) (name : String) (line rest1 rest2 : List Char) (h : '\n' ∉ line) :
    FileInfo.ofContent name (String.ofList (line ++ '\n' :: rest1)) = FileInfo.ofContent name (String.ofList (line ++ '\n' :: rest2)) := by
  simp only [FileInfo.ofContent, String.toList_ofList, firstLineOf_append _ _ h]

end ShootVerif.Fs
