import ShootVerif.Proofs.Mapper
/-
C05_pairs: under unique name matching the write-set loop computes, for every name-matched pair,
exactly `pairStrat` — per direction. Each direction is projected onto a `Dir` (write-set + claim log).
-/
namespace ShootVerif.Mapper

structure Dir where
  w : List String
  cs : List Claim

def blocked (d : Dir) (wr : Field) : Bool := d.w.contains wr.name || wr.isGet

def dclaim (d : Dir) (rd wr : Field) (s : Strat) : Dir :=
  if blocked d wr then d else ⟨wr.name :: d.w, d.cs ++ [⟨rd, wr, s⟩]⟩

theorem dclaim_pos {d : Dir} {wr : Field} (h : blocked d wr = true) (rd : Field) (s : Strat) : dclaim d rd wr s = d := by
  unfold dclaim; rw [if_pos h]

theorem dclaim_neg {d : Dir} {wr : Field} (h : ¬ blocked d wr = true) (rd : Field) (s : Strat) :
    dclaim d rd wr s = ⟨wr.name :: d.w, d.cs ++ [⟨rd, wr, s⟩]⟩ := by
  unfold dclaim; rw [if_neg h]

theorem blocked_after (d : Dir) (rd wr : Field) (s : Strat) (cs : List Claim) : blocked ⟨wr.name :: d.w, cs⟩ wr = true := by
  simp [blocked]

/-- an attempt: reading field, written field, strategy if any -/
abbrev Attempt := Field × Field × Option Strat

def dopt (d : Dir) (a : Attempt) : Dir :=
  match a.2.2 with
  | some s => dclaim d a.1 a.2.1 s
  | none => d

/-- a setter pseudo-field is never read: the attempt carries no strategy -/
def gd (rd : Field) (o : Option Strat) : Option Strat := if rd.isSet then none else o

theorem gd_orElse (rd : Field) (o1 o2 : Option Strat) :
    (gd rd o1).orElse (fun _ => gd rd o2) = gd rd (o1.orElse (fun _ => o2)) := by
  unfold gd; cases rd.isSet <;> simp

theorem gd_some (rd : Field) (o : Option Strat) (s : Strat) : gd rd o = some s ↔ rd.isSet = false ∧ o = some s := by
  unfold gd; cases rd.isSet <;> simp

theorem gd_plain {rd : Field} (h : rd.isSet = false) (o : Option Strat) : gd rd o = o := by
  unfold gd; simp [h]

def St.toD (st : St) : Dir := ⟨st.wD, st.toC⟩
def St.fromD (st : St) : Dir := ⟨st.wS, st.fromC⟩

@[simp] theorem toD_claimTo (st : St) (f1 f2 : Field) (s : Strat) : (claimTo st f1 f2 s).toD = dclaim st.toD f1 f2 s := by
  unfold claimTo dclaim blocked St.toD; split <;> rfl
@[simp] theorem fromD_claimTo (st : St) (f1 f2 : Field) (s : Strat) : (claimTo st f1 f2 s).fromD = st.fromD := by
  unfold claimTo St.fromD; split <;> rfl
@[simp] theorem fromD_claimFrom (st : St) (f1 f2 : Field) (s : Strat) : (claimFrom st f1 f2 s).fromD = dclaim st.fromD f2 f1 s := by
  unfold claimFrom dclaim blocked St.fromD; split <;> rfl
@[simp] theorem toD_claimFrom (st : St) (f1 f2 : Field) (s : Strat) : (claimFrom st f1 f2 s).toD = st.toD := by
  unfold claimFrom St.toD; split <;> rfl

/-- once a written field was attempted with a strategy, later attempts on it change nothing -/
theorem dclaim_dclaim (d : Dir) (rd rd' wr : Field) (s s' : Strat) :
    dclaim (dclaim d rd wr s) rd' wr s' = dclaim d rd wr s := by
  by_cases h : blocked d wr = true
  · rw [dclaim_pos h, dclaim_pos h]
  · rw [dclaim_neg h, dclaim_pos (blocked_after d rd wr s _)]

theorem dopt_dopt (d : Dir) (rd wr : Field) (o1 o2 : Option Strat) :
    dopt (dopt d (rd, wr, o1)) (rd, wr, o2) = dopt d (rd, wr, o1.orElse (fun _ => o2)) := by
  cases o1 with
  | none => simp [dopt]
  | some s1 =>
    cases o2 with
    | none => simp [dopt]
    | some s2 => simp [dopt, dclaim_dclaim]

/-! ## coherence: a field with a target is in the write-set of its partner -/

def Coh (f1 f2 : Field) (st : St) : Prop :=
  (hasToTarget st f1 = true → blocked st.toD f2 = true) ∧
  (hasFromTarget st f2 = true → blocked st.fromD f1 = true)

theorem coh_claimTo {f1 f2 : Field} {st : St} (h : Coh f1 f2 st) (s : Strat) : Coh f1 f2 (claimTo st f1 f2 s) := by
  unfold claimTo
  split
  · exact h
  · refine ⟨fun _ => by simp [blocked, St.toD], ?_⟩
    intro ht
    exact h.2 (by simpa [hasFromTarget] using ht)

theorem coh_claimFrom {f1 f2 : Field} {st : St} (h : Coh f1 f2 st) (s : Strat) : Coh f1 f2 (claimFrom st f1 f2 s) := by
  unfold claimFrom
  split
  · exact h
  · refine ⟨?_, fun _ => by simp [blocked, St.fromD]⟩
    intro ht
    exact h.1 (by simpa [hasToTarget] using ht)

theorem coh_funcStep {f1 f2 : Field} {st : St} (h : Coh f1 f2 st) (kf : Nat × Fn) : Coh f1 f2 (funcStep f1 f2 kf st) := by
  unfold funcStep funcFrom funcTo
  split <;> split <;> first | exact h | (try apply coh_claimFrom) <;> (try apply coh_claimTo) <;> exact h

theorem dclaim_blocked (d : Dir) (rd wr : Field) (s : Strat) (h : d.w.contains wr.name = true) : dclaim d rd wr s = d :=
  dclaim_pos (by simp only [blocked, h, Bool.true_or]) rd s

theorem dopt_blocked (d : Dir) (rd wr : Field) (o : Option Strat) (h : d.w.contains wr.name = true) : dopt d (rd, wr, o) = d := by
  cases o with
  | none => rfl
  | some s => exact dclaim_blocked d rd wr s h

theorem dopt_blocked' (d : Dir) (rd wr : Field) (o : Option Strat) (h : blocked d wr = true) : dopt d (rd, wr, o) = d := by
  cases o with
  | none => rfl
  | some s => exact dclaim_pos h rd s

theorem toD_funcTo (f1 f2 : Field) (k : Nat) (fn : Fn) (st : St) :
    (funcTo f1 f2 k fn st).toD =
      dopt st.toD (f1, f2, gd f1 (if fn.param == f1.ty && fn.result == f2.ty then some (.func k) else none)) := by
  unfold funcTo gd
  cases f1.isSet
  · by_cases hc : (fn.param == f1.ty && fn.result == f2.ty) = true
    · simp [hc, dopt]
    · simp [hc, dopt]
  · simp [dopt]

theorem fromD_funcTo (f1 f2 : Field) (k : Nat) (fn : Fn) (st : St) : (funcTo f1 f2 k fn st).fromD = st.fromD := by
  unfold funcTo; split <;> simp

theorem fromD_funcFrom (f1 f2 : Field) (k : Nat) (fn : Fn) (st : St) :
    (funcFrom f1 f2 k fn st).fromD =
      dopt st.fromD (f2, f1, gd f2 (if fn.param == f2.ty && fn.result == f1.ty then some (.func k) else none)) := by
  unfold funcFrom gd
  cases f2.isSet
  · by_cases hc : (fn.param == f2.ty && fn.result == f1.ty) = true
    · simp [hc, dopt]
    · simp [hc, dopt]
  · simp [dopt]

theorem toD_funcFrom (f1 f2 : Field) (k : Nat) (fn : Fn) (st : St) : (funcFrom f1 f2 k fn st).toD = st.toD := by
  unfold funcFrom; split <;> simp

theorem toD_funcStep (f1 f2 : Field) (kf : Nat × Fn) (st : St) :
    (funcStep f1 f2 kf st).toD =
      dopt st.toD (f1, f2, gd f1 (if kf.2.param == f1.ty && kf.2.result == f2.ty then some (.func kf.1) else none)) := by
  unfold funcStep
  rw [toD_funcFrom, toD_funcTo]

theorem fromD_funcStep (f1 f2 : Field) (kf : Nat × Fn) (st : St) :
    (funcStep f1 f2 kf st).fromD =
      dopt st.fromD (f2, f1, gd f2 (if kf.2.param == f2.ty && kf.2.result == f1.ty then some (.func kf.1) else none)) := by
  unfold funcStep
  rw [fromD_funcFrom, fromD_funcTo]

theorem firstFn_cons (kf : Nat × Fn) (l : List (Nat × Fn)) (a b : Ty) :
    firstFn (kf :: l) a b = if kf.2.param == a && kf.2.result == b then some kf.1 else firstFn l a b := by
  unfold firstFn
  simp only [List.find?_cons]
  split <;> simp_all

theorem toD_funcStep_ne (f1 f2 : Field) (kf : Nat × Fn) (st : St)
    (hne : ¬ (kf.2.param == f1.ty && kf.2.result == f2.ty) = true) : (funcStep f1 f2 kf st).toD = st.toD := by
  rw [toD_funcStep, if_neg hne]; unfold gd; split <;> rfl

theorem fromD_funcStep_ne (f1 f2 : Field) (kf : Nat × Fn) (st : St)
    (hne : ¬ (kf.2.param == f2.ty && kf.2.result == f1.ty) = true) : (funcStep f1 f2 kf st).fromD = st.fromD := by
  rw [fromD_funcStep, if_neg hne]; unfold gd; split <;> rfl

theorem toD_funcLoop (f1 f2 : Field) (l : List (Nat × Fn)) (st : St) (h : Coh f1 f2 st) :
    (funcLoop f1 f2 l st).toD = dopt st.toD (f1, f2, gd f1 ((firstFn l f1.ty f2.ty).map .func)) := by
  induction l generalizing st with
  | nil => unfold gd; split <;> rfl
  | cons kf rest ih =>
    have hc := coh_funcStep h kf
    rw [firstFn_cons]
    simp only [funcLoop]
    split
    · rename_i hb
      simp only [Bool.and_eq_true] at hb
      by_cases hm : (kf.2.param == f1.ty && kf.2.result == f2.ty) = true
      · rw [toD_funcStep, if_pos hm, if_pos hm]; rfl
      · rw [if_neg hm]
        have hw := hc.1 hb.1
        have e := toD_funcStep_ne f1 f2 kf st hm
        rw [e] at hw
        rw [e, dopt_blocked' _ _ _ _ hw]
    · rw [ih _ hc]
      by_cases hm : (kf.2.param == f1.ty && kf.2.result == f2.ty) = true
      · rw [toD_funcStep, if_pos hm, if_pos hm, dopt_dopt, gd_orElse]; rfl
      · rw [toD_funcStep_ne _ _ _ _ hm, if_neg hm]

theorem fromD_funcLoop (f1 f2 : Field) (l : List (Nat × Fn)) (st : St) (h : Coh f1 f2 st) :
    (funcLoop f1 f2 l st).fromD = dopt st.fromD (f2, f1, gd f2 ((firstFn l f2.ty f1.ty).map .func)) := by
  induction l generalizing st with
  | nil => unfold gd; split <;> rfl
  | cons kf rest ih =>
    have hc := coh_funcStep h kf
    rw [firstFn_cons]
    simp only [funcLoop]
    split
    · rename_i hb
      simp only [Bool.and_eq_true] at hb
      by_cases hm : (kf.2.param == f2.ty && kf.2.result == f1.ty) = true
      · rw [fromD_funcStep, if_pos hm, if_pos hm]; rfl
      · rw [if_neg hm]
        have hw := hc.2 hb.2
        have e := fromD_funcStep_ne f1 f2 kf st hm
        rw [e] at hw
        rw [e, dopt_blocked' _ _ _ _ hw]
    · rw [ih _ hc]
      by_cases hm : (kf.2.param == f2.ty && kf.2.result == f1.ty) = true
      · rw [fromD_funcStep, if_pos hm, if_pos hm, dopt_dopt, gd_orElse]; rfl
      · rw [fromD_funcStep_ne _ _ _ _ hm, if_neg hm]


/-! ## one pair, both passes -/

theorem toD_subMap (f1 f2 : Field) (t1 t2 : Ty) (sl : Bool) (st : St) :
    (subMap f1 f2 t1 t2 sl st).toD = dopt st.toD (f1, f2, gd f1
      (if t1.strip.2.isNamedIn .src && t2.strip.2.isNamedIn .dest then
        some (if sl then .each t1.strip.1 t2.strip.1 else .sub t1.strip.1 t2.strip.1) else none)) := by
  have e1 : ∀ st' : St, (subFrom f1 f2 t1 t2 sl st').toD = st'.toD := by
    intro st'; unfold subFrom; split <;> simp
  unfold subMap
  rw [e1]
  unfold subTo gd
  cases f1.isSet
  · by_cases hc : (t1.strip.2.isNamedIn .src && t2.strip.2.isNamedIn .dest) = true
    · simp [hc, dopt]
    · simp [hc, dopt]
  · simp [dopt]

theorem fromD_subMap (f1 f2 : Field) (t1 t2 : Ty) (sl : Bool) (st : St) :
    (subMap f1 f2 t1 t2 sl st).fromD = dopt st.fromD (f2, f1, gd f2
      (if t1.strip.2.isNamedIn .src && t2.strip.2.isNamedIn .dest then
        some (if sl then .each t2.strip.1 t1.strip.1 else .sub t2.strip.1 t1.strip.1) else none)) := by
  have e1 : (subTo f1 f2 t1 t2 sl st).fromD = st.fromD := by
    unfold subTo; split <;> simp
  unfold subMap subFrom gd
  cases f2.isSet
  · by_cases hc : (t1.strip.2.isNamedIn .src && t2.strip.2.isNamedIn .dest) = true
    · simp [hc, dopt, e1]
    · simp [hc, dopt, e1]
  · simp [dopt, e1]

/-- the slice step as an optional strategy -/
def eachOpt (rdPkg wrPkg : Pkg) (a b : Ty) : Option Strat :=
  match a, b with
  | .slice e1, .slice e2 =>
    if e1.strip.2.isNamedIn rdPkg && e2.strip.2.isNamedIn wrPkg then some (.each e1.strip.1 e2.strip.1) else none
  | _, _ => none

theorem toD_subListMap (f1 f2 : Field) (st : St) :
    (subListMap f1 f2 st).toD = dopt st.toD (f1, f2, gd f1 (eachOpt .src .dest f1.ty f2.ty)) := by
  unfold subListMap eachOpt
  split
  · rename_i e1 e2 h1 h2
    rw [toD_subMap, h1, h2]; simp
  · rename_i hne
    split
    · rename_i e1 e2 h1 h2; exact absurd h2 (hne e1 e2 h1)
    · unfold gd; split <;> rfl

theorem fromD_subListMap (f1 f2 : Field) (st : St) :
    (subListMap f1 f2 st).fromD = dopt st.fromD (f2, f1, gd f2 (eachOpt .dest .src f2.ty f1.ty)) := by
  unfold subListMap eachOpt
  split
  · rename_i e1 e2 h1 h2
    rw [fromD_subMap, h1, h2]
    simp [Bool.and_comm]
  · rename_i hne
    split
    · rename_i e2 e1 h2 h1; exact absurd h2 (hne e1 e2 h1)
    · unfold gd; split <;> rfl

theorem misStrat_eq (fns : List (Nat × Fn)) (rdPkg wrPkg : Pkg) (a b : Ty) :
    misStrat fns rdPkg wrPkg a b =
      (((firstFn fns a b).map Strat.func).orElse (fun _ =>
        if a.strip.2.isNamedIn rdPkg && b.strip.2.isNamedIn wrPkg then some (.sub a.strip.1 b.strip.1) else none)).orElse
        (fun _ => eachOpt rdPkg wrPkg a b) := by
  unfold misStrat eachOpt
  cases firstFn fns a b with
  | some k => simp
  | none =>
    simp only [Option.map_none, Option.orElse_none]
    split
    · simp
    · simp only [Option.orElse_none]
      split <;> simp_all

theorem toD_mismatchStep (fl : List Fn) (st : St) (p : Field × Field) (h : Coh p.1 p.2 st) :
    (mismatchStep fl st p).toD = dopt st.toD (p.1, p.2, gd p.1 (misStrat (indexed fl) .src .dest p.1.ty p.2.ty)) := by
  unfold mismatchStep
  rw [toD_subListMap, toD_subMap, toD_funcLoop _ _ _ _ h, dopt_dopt, dopt_dopt, gd_orElse, gd_orElse, misStrat_eq]
  simp [Option.or_assoc]

theorem fromD_mismatchStep (fl : List Fn) (st : St) (p : Field × Field) (h : Coh p.1 p.2 st) :
    (mismatchStep fl st p).fromD = dopt st.fromD (p.2, p.1, gd p.2 (misStrat (indexed fl) .dest .src p.2.ty p.1.ty)) := by
  unfold mismatchStep
  rw [fromD_subListMap, fromD_subMap, fromD_funcLoop _ _ _ _ h, dopt_dopt, dopt_dopt, gd_orElse, gd_orElse, misStrat_eq]
  simp [Option.or_assoc, and_comm]

theorem beq_comm_ty (a b : Ty) : (a == b) = (b == a) := by
  rw [Bool.eq_iff_iff]; simp only [beq_iff_eq]; exact eq_comm

theorem toD_matchTo (conv : List (Ty × Ty)) (f1 f2 : Field) (st : St) :
    (matchTo conv f1 f2 st).toD = dopt st.toD (f1, f2, gd f1 (matStrat conv f1.ty f2.ty)) := by
  have e : (matchType conv f1.ty f2.ty).1 = (f1.ty == f2.ty) := rfl
  unfold matchTo matStrat gd
  rw [e]
  cases f1.isSet
  · by_cases h1 : (f1.ty == f2.ty) = true
    · simp [h1, dopt]
    · by_cases h2 : (matchType conv f1.ty f2.ty).2 = true
      · simp [h1, h2, dopt]
      · simp [h1, h2, dopt]
  · simp [dopt]

theorem fromD_matchTo (conv : List (Ty × Ty)) (f1 f2 : Field) (st : St) : (matchTo conv f1 f2 st).fromD = st.fromD := by
  unfold matchTo
  split
  · rfl
  · split
    · simp
    · split <;> simp

theorem fromD_matchFrom (conv : List (Ty × Ty)) (f1 f2 : Field) (st : St) :
    (matchFrom conv f1 f2 st).fromD = dopt st.fromD (f2, f1, gd f2 (matStrat conv f2.ty f1.ty)) := by
  have e : (matchType conv f1.ty f2.ty).1 = (f2.ty == f1.ty) := by
    show (f1.ty == f2.ty) = _
    exact beq_comm_ty _ _
  unfold matchFrom matStrat gd
  rw [e]
  cases f2.isSet
  · by_cases h1 : (f2.ty == f1.ty) = true
    · simp [h1, dopt]
    · by_cases h2 : (matchType conv f2.ty f1.ty).2 = true
      · simp [h1, h2, dopt]
      · simp [h1, h2, dopt]
  · simp [dopt]

theorem toD_matchFrom (conv : List (Ty × Ty)) (f1 f2 : Field) (st : St) : (matchFrom conv f1 f2 st).toD = st.toD := by
  unfold matchFrom
  split
  · rfl
  · split
    · simp
    · split <;> simp

theorem toD_matchStep (conv : List (Ty × Ty)) (st : St) (p : Field × Field) :
    (matchStep conv st p).toD = dopt st.toD (p.1, p.2, gd p.1 (matStrat conv p.1.ty p.2.ty)) := by
  unfold matchStep
  rw [toD_matchFrom, toD_matchTo]

theorem fromD_matchStep (conv : List (Ty × Ty)) (st : St) (p : Field × Field) :
    (matchStep conv st p).fromD = dopt st.fromD (p.2, p.1, gd p.2 (matStrat conv p.2.ty p.1.ty)) := by
  unfold matchStep
  rw [fromD_matchFrom, fromD_matchTo]


/-! ## the whole loop as a fold of attempts -/

variable {conv : List (Ty × Ty)} {fns : List (Nat × Fn)} {ps : List (Field × Field)} {w0D w0S : List String}

/-- unique name matching: every reading field has one partner, and vice versa -/
def Unique (ps : List (Field × Field)) : Prop :=
  (ps.map (·.1.name)).Nodup ∧ (ps.map (·.2.name)).Nodup

/-- weaker than `Unique`, and what accessor mode still has: among the partners a field could CLAIM
    (written side not a getter) there is at most one -/
def UniqueClaimable (ps : List (Field × Field)) : Prop :=
  (∀ p ∈ ps, ∀ q ∈ ps, p.1 = q.1 → p.2.isGet = false → q.2.isGet = false → p.2 = q.2) ∧
  (∀ p ∈ ps, ∀ q ∈ ps, p.2 = q.2 → p.1.isGet = false → q.1.isGet = false → p.1 = q.1)

theorem claimable_of_unique (hu : Unique ps) : UniqueClaimable ps := by
  constructor
  · intro p hp q hq e _ _
    have : p = q := inj_of_map_nodup (fun x : Field × Field => x.1.name) ps hu.1 hp hq (by simp [e])
    rw [this]
  · intro p hp q hq e _ _
    have : p = q := inj_of_map_nodup (fun x : Field × Field => x.2.name) ps hu.2 hp hq (by simp [e])
    rw [this]

theorem coh_of_inv {st : St} (h : Inv conv fns ps w0D w0S st) (hu : UniqueClaimable ps) {p : Field × Field} (hp : p ∈ ps) :
    Coh p.1 p.2 st := by
  constructor
  · intro ht
    simp only [hasToTarget, List.any_eq_true, beq_iff_eq] at ht
    obtain ⟨c, hc, hrd⟩ := ht
    have hpair := (h.toPair c hc).1
    have hin := h.toIn c hc
    cases hg : p.2.isGet with
    | true => simp [blocked, hg]
    | false =>
      have hw : c.wr = p.2 := hu.1 (c.rd, c.wr) hpair p hp hrd hin.2.2 hg
      have : p.2.name ∈ st.wD := hw ▸ hin.1
      simp [blocked, St.toD, this]
  · intro ht
    simp only [hasFromTarget, List.any_eq_true, beq_iff_eq] at ht
    obtain ⟨c, hc, hrd⟩ := ht
    have hpair := (h.fromPair c hc).1
    have hin := h.fromIn c hc
    cases hg : p.1.isGet with
    | true => simp [blocked, hg]
    | false =>
      have hw : c.wr = p.1 := hu.2 (c.wr, c.rd) hpair p hp hrd hin.2.2 hg
      have : p.1.name ∈ st.wS := hw ▸ hin.1
      simp [blocked, St.fromD, this]

def misToA (fl : List Fn) (p : Field × Field) : Attempt := (p.1, p.2, gd p.1 (misStrat (indexed fl) .src .dest p.1.ty p.2.ty))
def misFromA (fl : List Fn) (p : Field × Field) : Attempt := (p.2, p.1, gd p.2 (misStrat (indexed fl) .dest .src p.2.ty p.1.ty))
def matToA (conv : List (Ty × Ty)) (p : Field × Field) : Attempt := (p.1, p.2, gd p.1 (matStrat conv p.1.ty p.2.ty))
def matFromA (conv : List (Ty × Ty)) (p : Field × Field) : Attempt := (p.2, p.1, gd p.2 (matStrat conv p.2.ty p.1.ty))

theorem fold_mismatch (fl : List Fn) (hu : UniqueClaimable ps) (l : List (Field × Field)) (hl : ∀ p ∈ l, p ∈ ps) {st : St}
    (h : Inv conv (indexed fl) ps w0D w0S st) :
    (l.foldl (mismatchStep fl) st).toD = (l.map (misToA fl)).foldl dopt st.toD ∧
    (l.foldl (mismatchStep fl) st).fromD = (l.map (misFromA fl)).foldl dopt st.fromD := by
  induction l generalizing st with
  | nil => exact ⟨rfl, rfl⟩
  | cons p l ih =>
    have hp := hl p List.mem_cons_self
    have hc := coh_of_inv h hu hp
    have h' := mismatchStep_inv fl rfl p hp h
    have := ih (fun q hq => hl q (List.mem_cons_of_mem _ hq)) h'
    simp only [List.foldl_cons, List.map_cons]
    rw [this.1, this.2, toD_mismatchStep fl st p hc, fromD_mismatchStep fl st p hc]
    exact ⟨rfl, rfl⟩

theorem fold_match (l : List (Field × Field)) (st : St) :
    (l.foldl (matchStep conv) st).toD = (l.map (matToA conv)).foldl dopt st.toD ∧
    (l.foldl (matchStep conv) st).fromD = (l.map (matFromA conv)).foldl dopt st.fromD := by
  induction l generalizing st with
  | nil => exact ⟨rfl, rfl⟩
  | cons p l ih =>
    simp only [List.foldl_cons, List.map_cons]
    rw [(ih _).1, (ih _).2, toD_matchStep, fromD_matchStep]
    exact ⟨rfl, rfl⟩

/-! ## folding attempts whose written names are pairwise distinct -/

def effClaim (a : Attempt) : Option Claim :=
  if a.2.1.isGet then none else a.2.2.map (fun s => ⟨a.1, a.2.1, s⟩)

theorem dopt_cs (d : Dir) (a : Attempt) :
    (dopt d a).cs = d.cs ++ (if d.w.contains a.2.1.name then none else effClaim a).toList := by
  obtain ⟨rd, wr, o⟩ := a
  cases o with
  | none => simp [dopt, effClaim]
  | some s =>
    simp only [dopt]
    by_cases hb : blocked d wr = true
    · rw [dclaim_pos hb]
      simp only [blocked, Bool.or_eq_true] at hb
      rcases hb with hb | hb
      · have hm : wr.name ∈ d.w := by simpa using hb
        simp [hm]
      · simp [effClaim, hb]
    · rw [dclaim_neg hb]
      simp only [blocked, Bool.or_eq_true, not_or, Bool.not_eq_true] at hb
      have hm : wr.name ∉ d.w := by simpa using hb.1
      simp [effClaim, hm, hb.2]

theorem dopt_w_other (d : Dir) (a : Attempt) (n : String) (hn : a.2.1.name ≠ n) :
    (dopt d a).w.contains n = d.w.contains n := by
  obtain ⟨rd, wr, o⟩ := a
  cases o with
  | none => rfl
  | some s =>
    simp only [dopt]
    by_cases hb : blocked d wr = true
    · rw [dclaim_pos hb]
    · rw [dclaim_neg hb]
      simp only [List.contains_cons]
      have : (n == wr.name) = false := by simpa using fun e => hn e.symm
      rw [this, Bool.false_or]

theorem filterMap_congr' {α β} {f g : α → Option β} {l : List α} (h : ∀ a ∈ l, f a = g a) :
    l.filterMap f = l.filterMap g := by
  induction l with
  | nil => rfl
  | cons a l ih =>
    simp only [List.filterMap_cons, h a List.mem_cons_self]
    rw [ih (fun b hb => h b (List.mem_cons_of_mem _ hb))]

theorem foldl_dopt_cs (A : List Attempt) (hA : (A.map (·.2.1.name)).Nodup) (d : Dir) :
    (A.foldl dopt d).cs = d.cs ++ A.filterMap (fun a => if d.w.contains a.2.1.name then none else effClaim a) := by
  induction A generalizing d with
  | nil => simp
  | cons a A ih =>
    simp only [List.map_cons, List.nodup_cons] at hA
    simp only [List.foldl_cons]
    rw [ih hA.2, dopt_cs, List.filterMap_cons]
    have hcongr : A.filterMap (fun b => if (dopt d a).w.contains b.2.1.name then none else effClaim b) =
        A.filterMap (fun b => if d.w.contains b.2.1.name then none else effClaim b) := by
      apply filterMap_congr'
      intro b hb
      have hne : a.2.1.name ≠ b.2.1.name := by
        intro e
        exact hA.1 (e ▸ List.mem_map_of_mem (f := fun x : Attempt => x.2.1.name) hb)
      rw [dopt_w_other d a _ hne]
    rw [hcongr]
    cases h : (if d.w.contains a.2.1.name then none else effClaim a) <;> simp [List.append_assoc]

theorem foldl_dopt_w (A : List Attempt) (d : Dir) (n : String) :
    n ∈ (A.foldl dopt d).w ↔ n ∈ d.w ∨ ∃ a ∈ A, (effClaim a).isSome = true ∧ a.2.1.name = n := by
  induction A generalizing d with
  | nil => simp
  | cons a A ih =>
    simp only [List.foldl_cons]
    rw [ih]
    have key : n ∈ (dopt d a).w ↔ n ∈ d.w ∨ ((effClaim a).isSome = true ∧ a.2.1.name = n) := by
      obtain ⟨rd, wr, o⟩ := a
      cases o with
      | none => simp [dopt, effClaim]
      | some s =>
        simp only [dopt]
        by_cases hb : blocked d wr = true
        · rw [dclaim_pos hb]
          simp only [blocked, Bool.or_eq_true] at hb
          rcases hb with hb | hb
          · constructor
            · exact Or.inl
            · rintro (h | ⟨_, h⟩)
              · exact h
              · subst h; simpa using hb
          · simp [effClaim, hb]
        · rw [dclaim_neg hb]
          simp only [blocked, Bool.or_eq_true, not_or, Bool.not_eq_true] at hb
          simp only [List.mem_cons, effClaim, hb.2, Bool.false_eq_true, ↓reduceIte, Option.map_some, Option.isSome_some,
            true_and]
          constructor
          · rintro (h | h)
            · exact Or.inr h.symm
            · exact Or.inl h
          · rintro (h | h)
            · exact Or.inr h
            · exact Or.inl h.symm
    rw [key]
    simp only [List.mem_cons, exists_eq_or_imp]
    constructor
    · rintro ((h | h) | h)
      · exact Or.inl h
      · exact Or.inr (Or.inl h)
      · exact Or.inr (Or.inr h)
    · rintro (h | h | h)
      · exact Or.inl (Or.inl h)
      · exact Or.inl (Or.inr h)
      · exact Or.inr h


/-! ## two passes over uniquely matched pairs -/

theorem effClaim_some (rd wr : Field) (o : Option Strat) (c : Claim) :
    effClaim (rd, wr, o) = some c ↔ wr.isGet = false ∧ ∃ s, o = some s ∧ c = ⟨rd, wr, s⟩ := by
  unfold effClaim
  cases hg : wr.isGet <;> cases o <;> simp [eq_comm]

theorem two_phase (ps : List (Field × Field)) (rdOf wrOf : Field × Field → Field)
    (o1 o2 : Field × Field → Option Strat)
    (hN : (ps.map (fun p => (wrOf p).name)).Nodup) (w0 : List String) (c : Claim) :
    c ∈ ((ps.map (fun p => ((rdOf p, wrOf p, o2 p) : Attempt))).foldl dopt
          ((ps.map (fun p => ((rdOf p, wrOf p, o1 p) : Attempt))).foldl dopt ⟨w0, []⟩)).cs ↔
      ∃ p ∈ ps, (wrOf p).name ∉ w0 ∧ (wrOf p).isGet = false ∧
        ∃ s, (o1 p).orElse (fun _ => o2 p) = some s ∧ c = ⟨rdOf p, wrOf p, s⟩ := by
  have hN1 : ((ps.map (fun p => ((rdOf p, wrOf p, o1 p) : Attempt))).map (·.2.1.name)).Nodup := by
    simpa [List.map_map, Function.comp_def] using hN
  have hN2 : ((ps.map (fun p => ((rdOf p, wrOf p, o2 p) : Attempt))).map (·.2.1.name)).Nodup := by
    simpa [List.map_map, Function.comp_def] using hN
  rw [foldl_dopt_cs _ hN2, foldl_dopt_cs _ hN1]
  simp only [List.nil_append, List.mem_append, List.filterMap_map, List.mem_filterMap, Function.comp_def]
  constructor
  · rintro (⟨p, hp, hc⟩ | ⟨p, hp, hc⟩)
    · split at hc
      · cases hc
      · rename_i hw
        obtain ⟨hg, s, hs, rfl⟩ := (effClaim_some _ _ _ _).mp hc
        exact ⟨p, hp, by simpa using hw, hg, s, by simp [hs], rfl⟩
    · split at hc
      · cases hc
      · rename_i hw
        obtain ⟨hg, s, hs, rfl⟩ := (effClaim_some _ _ _ _).mp hc
        have hw' : (wrOf p).name ∉ ((ps.map (fun p => ((rdOf p, wrOf p, o1 p) : Attempt))).foldl dopt ⟨w0, []⟩).w := by
          simpa using hw
        rw [foldl_dopt_w] at hw'
        simp only [not_or, not_exists, not_and] at hw'
        have h1 : o1 p = none := by
          cases h : o1 p with
          | none => rfl
          | some s' =>
            exfalso
            refine hw'.2 (rdOf p, wrOf p, o1 p) (List.mem_map.mpr ⟨p, hp, rfl⟩) ?_ rfl
            simp [effClaim, hg, h]
        exact ⟨p, hp, hw'.1, hg, s, by simp [h1, hs], rfl⟩
  · rintro ⟨p, hp, hw, hg, s, hs, rfl⟩
    cases h1 : o1 p with
    | some s1 =>
      left
      refine ⟨p, hp, ?_⟩
      have : ¬ (w0.contains (wrOf p).name = true) := by simpa using hw
      rw [if_neg this]
      simp only [h1, Option.orElse_some, Option.some.injEq] at hs
      exact (effClaim_some _ _ _ _).mpr ⟨hg, s, by simp [h1, hs], rfl⟩
    | none =>
      right
      refine ⟨p, hp, ?_⟩
      simp only [h1, Option.orElse_none] at hs
      have hnot : (wrOf p).name ∉ ((ps.map (fun p => ((rdOf p, wrOf p, o1 p) : Attempt))).foldl dopt ⟨w0, []⟩).w := by
        rw [foldl_dopt_w]
        rintro (h | ⟨a, ha, he, hn⟩)
        · exact hw h
        · obtain ⟨q, hq, rfl⟩ := List.mem_map.mp ha
          have : q = p := inj_of_map_nodup (fun p => (wrOf p).name) ps hN hq hp hn
          subst this
          simp [effClaim, h1] at he
      have : ¬ (List.contains ((ps.map (fun p => ((rdOf p, wrOf p, o1 p) : Attempt))).foldl dopt ⟨w0, []⟩).w
          (wrOf p).name = true) := by simpa using hnot
      rw [if_neg this]
      exact (effClaim_some _ _ _ _).mpr ⟨hg, s, hs, rfl⟩

theorem inv_init (conv : List (Ty × Ty)) (fns : List (Nat × Fn)) (ps : List (Field × Field)) (w0D w0S : List String) :
    Inv conv fns ps w0D w0S { wD := w0D, wS := w0S } :=
  ⟨fun _ h => h, fun _ h => h, by simp, by simp, by simp, by simp, by simp, by simp⟩

/-- the To-direction claim log of the pair loop, in closed form -/
theorem toC_char (conv : List (Ty × Ty)) (fl : List Fn) (ps : List (Field × Field)) (hu : Unique ps)
    (w0D w0S : List String) (c : Claim) :
    c ∈ (planFields conv fl ps { wD := w0D, wS := w0S }).toC ↔
      ∃ p ∈ ps, p.2.name ∉ w0D ∧ p.2.isGet = false ∧
        ∃ s, gd p.1 (pairStrat conv (indexed fl) .src .dest p.1.ty p.2.ty) = some s ∧ c = ⟨p.1, p.2, s⟩ := by
  have h0 := inv_init conv (indexed fl) ps w0D w0S
  have e : (planFields conv fl ps { wD := w0D, wS := w0S }).toC =
      ((ps.map (matToA conv)).foldl dopt ((ps.map (misToA fl)).foldl dopt ⟨w0D, []⟩)).cs := by
    unfold planFields
    have := (fold_match (conv := conv) ps (ps.foldl (mismatchStep fl) { wD := w0D, wS := w0S })).1
    rw [(fold_mismatch fl (claimable_of_unique hu) ps (fun _ h => h) h0).1] at this
    exact congrArg Dir.cs this
  rw [e]
  have := two_phase ps (·.1) (·.2) (fun p => gd p.1 (misStrat (indexed fl) .src .dest p.1.ty p.2.ty))
    (fun p => gd p.1 (matStrat conv p.1.ty p.2.ty)) hu.2 w0D c
  simp only [gd_orElse] at this
  exact this

/-- the From-direction claim log -/
theorem fromC_char (conv : List (Ty × Ty)) (fl : List Fn) (ps : List (Field × Field)) (hu : Unique ps)
    (w0D w0S : List String) (c : Claim) :
    c ∈ (planFields conv fl ps { wD := w0D, wS := w0S }).fromC ↔
      ∃ p ∈ ps, p.1.name ∉ w0S ∧ p.1.isGet = false ∧
        ∃ s, gd p.2 (pairStrat conv (indexed fl) .dest .src p.2.ty p.1.ty) = some s ∧ c = ⟨p.2, p.1, s⟩ := by
  have h0 := inv_init conv (indexed fl) ps w0D w0S
  have e : (planFields conv fl ps { wD := w0D, wS := w0S }).fromC =
      ((ps.map (matFromA conv)).foldl dopt ((ps.map (misFromA fl)).foldl dopt ⟨w0S, []⟩)).cs := by
    unfold planFields
    have := (fold_match (conv := conv) ps (ps.foldl (mismatchStep fl) { wD := w0D, wS := w0S })).2
    rw [(fold_mismatch fl (claimable_of_unique hu) ps (fun _ h => h) h0).2] at this
    exact congrArg Dir.cs this
  rw [e]
  have := two_phase ps (·.2) (·.1) (fun p => gd p.2 (misStrat (indexed fl) .dest .src p.2.ty p.1.ty))
    (fun p => gd p.2 (matStrat conv p.2.ty p.1.ty)) hu.1 w0S c
  simp only [gd_orElse] at this
  exact this

theorem mem_pairs (nm : Field → Field → Bool) (fs ds : List Field) (f1 f2 : Field) :
    (f1, f2) ∈ pairs nm fs ds ↔ f1 ∈ fs ∧ f2 ∈ ds ∧ nm f1 f2 = true := by
  simp only [pairs, List.mem_flatMap, List.mem_map, List.mem_filter, Prod.mk.injEq]
  constructor
  · rintro ⟨a, ha, b, ⟨hb, hn⟩, rfl, rfl⟩
    exact ⟨ha, hb, hn⟩
  · rintro ⟨h1, h2, h3⟩
    exact ⟨f1, h1, f2, ⟨h2, h3⟩, rfl, rfl⟩


/-! ## statements = claims when every reading field has one claim -/

theorem stmts_eq_claims (cs : List Claim) (fs : List Field)
    (hrd : ∀ c ∈ cs, ∀ c' ∈ cs, c.rd = c'.rd → c = c') (hin : ∀ c ∈ cs, c.rd ∈ fs) (c : Claim) :
    c ∈ fs.filterMap (lastClaim cs) ↔ c ∈ cs := by
  constructor
  · exact fun h => (stmts_sub h).1
  · intro hc
    refine List.mem_filterMap.mpr ⟨c.rd, hin c hc, ?_⟩
    unfold lastClaim
    have hne : cs.filter (fun x => x.rd == c.rd) ≠ [] := by
      intro e
      have : c ∈ cs.filter (fun x => x.rd == c.rd) := by simp [hc]
      rw [e] at this
      cases this
    cases hl : (cs.filter (fun x => x.rd == c.rd)).getLast? with
    | none => exact absurd (List.getLast?_eq_none_iff.mp hl) hne
    | some c' =>
      have hm := List.mem_of_getLast? hl
      simp only [List.mem_filter, beq_iff_eq] at hm
      rw [hrd c' hm.1 c hc hm.2]

/-! ## the plan of a whole input -/

theorem plan_inv (inp : Input) :
    ∃ w0D w0S, Inv inp.conv (indexed inp.fns) (pairs inp.nm (plan inp).srcFields (plan inp).destFields) w0D w0S (plan inp).st :=
  ⟨_, _, planFields_inv inp.fns _ _⟩

theorem plan_plain_st (inp : Input) (hs : inp.srcNew = false) (hd : inp.destNew = false) :
    (plan inp).st = planFields inp.conv inp.fns (pairs inp.nm (plan inp).srcFields (plan inp).destFields)
      { wD := inp.manualW, wS := inp.manualR } := by
  simp [plan, hs, hd, sideParams, ctorMatch, Input.readKeys]

/-- the recursive-mapping test of the generator is the property's: STRUCT types of the two packages -/
theorem structPair_eq (rdPkg wrPkg : Pkg) (a b : Ty) :
    structPair rdPkg wrPkg a b =
      if a.strip.2.isNamedIn rdPkg && b.strip.2.isNamedIn wrPkg then some (a.strip.1, b.strip.1) else none := by
  unfold structPair
  by_cases h1 : a.strip.2.isNamedIn rdPkg = true <;> by_cases h2 : b.strip.2.isNamedIn wrPkg = true
  · simp [h1, h2, isNamedIn_struct _ _ h1, isNamedIn_struct _ _ h2]
  · simp [h1, h2]
  · simp [h1, h2]
  · simp [h1, h2]

theorem matStrat_eq (inp : Input) (a b : Ty) : matStrat inp.conv a b = specScalar inp a b := by
  unfold matStrat specScalar matchType
  by_cases h : (a == b) = true
  · simp [h]
  · simp only [h, Bool.false_eq_true, ↓reduceIte, Bool.not_false, Bool.true_and]
    cases rawConv inp.conv a b <;> cases mayMisConv a b <;> simp

theorem pairStrat_eq_spec (inp : Input) (rdPkg wrPkg : Pkg) (a b : Ty) :
    pairStrat inp.conv (indexed inp.fns) rdPkg wrPkg a b = specStrategy inp rdPkg wrPkg a b := by
  unfold pairStrat misStrat specStrategy firstFn
  cases hf : (indexed inp.fns).find? (fun kf => kf.2.param == a && kf.2.result == b) with
  | some kf => simp
  | none =>
    simp only [Option.map_none]
    rw [structPair_eq rdPkg wrPkg a b]
    by_cases hc : (a.strip.2.isNamedIn rdPkg && b.strip.2.isNamedIn wrPkg) = true
    · simp [hc]
    · simp only [hc, Bool.false_eq_true, ↓reduceIte]
      split
      · rename_i e1 e2
        rw [structPair_eq rdPkg wrPkg e1 e2]
        by_cases hc2 : (e1.strip.2.isNamedIn rdPkg && e2.strip.2.isNamedIn wrPkg) = true
        · simp [hc2]
        · simp [hc2, matStrat_eq]
      · simp [matStrat_eq]


/-! ## identical types: the pair is symmetric (round trip) -/

theorem named_excl (t : Ty) : (t.isNamedIn .src && t.isNamedIn .dest) = false := by
  unfold Ty.isNamedIn
  split
  · rename_i q _ _
    cases q <;> simp
  · rfl

theorem named_excl' (t : Ty) : (t.isNamedIn .dest && t.isNamedIn .src) = false := by
  rw [Bool.and_comm]; exact named_excl t

/-- for identical types only a mapper method T→T can pre-empt the assignment, in either direction -/
theorem misStrat_same (fns : List (Nat × Fn)) (t : Ty) :
    misStrat fns .src .dest t t = (firstFn fns t t).map .func ∧
    misStrat fns .dest .src t t = (firstFn fns t t).map .func := by
  unfold misStrat
  cases firstFn fns t t with
  | some k => simp
  | none =>
    simp only [named_excl, named_excl', Bool.false_eq_true, ↓reduceIte, Option.map_none]
    constructor <;> split <;> simp [named_excl, named_excl']

theorem pairStrat_assign_symm (conv : List (Ty × Ty)) (fns : List (Nat × Fn)) (a b : Ty)
    (h : pairStrat conv fns .src .dest a b = some .assign) :
    a = b ∧ pairStrat conv fns .dest .src b a = some .assign := by
  unfold pairStrat at h
  cases hm : misStrat fns .src .dest a b with
  | some s =>
    -- the mismatch pass never yields `assign`
    rw [hm] at h
    simp only [Option.orElse_some, Option.some.injEq] at h
    subst h
    unfold misStrat at hm
    split at hm
    · simp at hm
    · split at hm
      · simp at hm
      · split at hm
        · split at hm <;> simp at hm
        · simp at hm
  | none =>
    rw [hm] at h
    simp only [Option.orElse_none] at h
    unfold matStrat at h
    by_cases he : (a == b) = true
    · have hab : a = b := by simpa using he
      subst hab
      refine ⟨rfl, ?_⟩
      have := misStrat_same fns a
      rw [this.1] at hm
      unfold pairStrat
      rw [this.2, hm]
      simp [matStrat]
    · simp only [he, Bool.false_eq_true, ↓reduceIte] at h
      split at h <;> simp at h

/-- fields of a plain (non accessor-mode) side are neither getters nor setters -/
theorem aor_flags (fs : List Field) (x : Field) (h : ∀ f ∈ fs, f.isGet = false ∧ f.isSet = false)
    (hx : x.isGet = false ∧ x.isSet = false) : ∀ f ∈ appendOrReplace fs x, f.isGet = false ∧ f.isSet = false := by
  induction fs with
  | nil => intro f hf; simp [appendOrReplace] at hf; subst hf; exact hx
  | cons g gs ih =>
    intro f hf
    simp only [appendOrReplace] at hf
    split at hf
    · split at hf
      · rcases List.mem_cons.mp hf with rfl | hf'
        · exact h g List.mem_cons_self
        · exact h f (List.mem_cons_of_mem _ hf')
      · exact h f hf
    · rcases List.mem_cons.mp hf with rfl | hf'
      · exact h f List.mem_cons_self
      · exact ih (fun f hf => h f (List.mem_cons_of_mem _ hf)) f hf'

theorem walkNested_flags (pre : List String) (d : Nat) (t : Tree) :
    ∀ f ∈ walkNested pre d t, f.isGet = false ∧ f.isSet = false := by
  induction t generalizing pre d with
  | nil => simp [walkNested]
  | field fd rest ih =>
    intro f hf
    simp only [walkNested, List.mem_append] at hf
    rcases hf with hf | hf
    · split at hf
      · cases hf
      · simp only [List.mem_singleton] at hf; subst hf; exact ⟨rfl, rfl⟩
    · exact ih pre d f hf
  | embed n p body rest ihb ihr =>
    intro f hf
    simp only [walkNested, List.mem_append] at hf
    rcases hf with hf | hf
    · exact ihb _ _ f hf
    · exact ihr _ _ f hf

theorem walkTop_flags (t : Tree) : ∀ f ∈ walkTop t, f.isGet = false ∧ f.isSet = false := by
  induction t with
  | nil => simp [walkTop]
  | field fd rest ih =>
    intro f hf
    simp only [walkTop, List.mem_append] at hf
    rcases hf with hf | hf
    · split at hf
      · cases hf
      · simp only [List.mem_singleton] at hf; subst hf; exact ⟨rfl, rfl⟩
    · exact ih f hf
  | embed n p body rest _ ihr =>
    intro f hf
    simp only [walkTop, List.mem_append] at hf
    rcases hf with hf | hf
    · exact walkNested_flags _ _ _ f hf
    · exact ihr f hf

theorem foldl_aor_flags (xs fs : List Field) (hxs : ∀ f ∈ xs, f.isGet = false ∧ f.isSet = false)
    (hfs : ∀ f ∈ fs, f.isGet = false ∧ f.isSet = false) :
    ∀ f ∈ xs.foldl appendOrReplace fs, f.isGet = false ∧ f.isSet = false := by
  induction xs generalizing fs with
  | nil => exact hfs
  | cons x xs ih =>
    exact ih _ (fun f hf => hxs f (List.mem_cons_of_mem _ hf)) (aor_flags fs x hfs (hxs x List.mem_cons_self))

theorem sideFields_plain_flags (t : Tree) : ∀ f ∈ sideFields t false, f.isGet = false ∧ f.isSet = false := by
  intro f hf
  simp only [sideFields, flatten, Bool.false_eq_true, ↓reduceIte, List.mem_filter] at hf
  exact foldl_aor_flags _ [] (walkTop_flags t) (by simp) f hf.1.1


/-! ## existence: an applicable pair leaves its written field claimed (no uniqueness of written names needed) -/

theorem dopt_named (d : Dir) (a : Attempt) (w0 : List String)
    (h : ∀ n ∈ d.w, n ∈ w0 ∨ ∃ c ∈ d.cs, c.wr.name = n) :
    ∀ n ∈ (dopt d a).w, n ∈ w0 ∨ ∃ c ∈ (dopt d a).cs, c.wr.name = n := by
  obtain ⟨rd, wr, o⟩ := a
  cases o with
  | none => exact h
  | some s =>
    simp only [dopt]
    by_cases hb : blocked d wr = true
    · rw [dclaim_pos hb]; exact h
    · rw [dclaim_neg hb]
      intro n hn
      rcases List.mem_cons.mp hn with rfl | hn'
      · exact Or.inr ⟨⟨rd, wr, s⟩, by simp, rfl⟩
      · rcases h n hn' with h1 | ⟨c, hc, e⟩
        · exact Or.inl h1
        · exact Or.inr ⟨c, List.mem_append_left _ hc, e⟩

theorem foldl_dopt_named (A : List Attempt) (d : Dir) (w0 : List String)
    (h : ∀ n ∈ d.w, n ∈ w0 ∨ ∃ c ∈ d.cs, c.wr.name = n) :
    ∀ n ∈ (A.foldl dopt d).w, n ∈ w0 ∨ ∃ c ∈ (A.foldl dopt d).cs, c.wr.name = n := by
  induction A generalizing d with
  | nil => exact h
  | cons a A ih => exact ih _ (dopt_named d a w0 h)

theorem planFields_toD (conv : List (Ty × Ty)) (fl : List Fn) (ps : List (Field × Field)) (hu : UniqueClaimable ps)
    (w0D w0S : List String) :
    (planFields conv fl ps { wD := w0D, wS := w0S }).toD =
      ((ps.map (misToA fl)) ++ (ps.map (matToA conv))).foldl dopt ⟨w0D, []⟩ ∧
    (planFields conv fl ps { wD := w0D, wS := w0S }).fromD =
      ((ps.map (misFromA fl)) ++ (ps.map (matFromA conv))).foldl dopt ⟨w0S, []⟩ := by
  have h0 := inv_init conv (indexed fl) ps w0D w0S
  unfold planFields
  have hm := fold_match (conv := conv) ps (ps.foldl (mismatchStep fl) { wD := w0D, wS := w0S })
  have hmis := fold_mismatch fl hu ps (fun _ h => h) h0
  rw [List.foldl_append, List.foldl_append]
  rw [hm.1, hm.2, hmis.1, hmis.2]
  exact ⟨rfl, rfl⟩

theorem orElse_isSome_cases {α} (a b : Option α) (h : (a.orElse (fun _ => b)).isSome = true) :
    a.isSome = true ∨ b.isSome = true := by
  cases a with
  | none => right; simpa using h
  | some x => left; rfl

/-- ToX: a name-matched pair with an applicable strategy whose written field is not a getter and was
    not taken by the constructor ends up claimed — by this pair or an earlier one -/
theorem claim_exists_to (conv : List (Ty × Ty)) (fl : List Fn) (ps : List (Field × Field)) (hu : UniqueClaimable ps)
    (w0D w0S : List String) (p : Field × Field) (hp : p ∈ ps) (hg : p.2.isGet = false) (hr : p.1.isSet = false) (hw : p.2.name ∉ w0D)
    (hs : (pairStrat conv (indexed fl) .src .dest p.1.ty p.2.ty).isSome = true) :
    ∃ c ∈ (planFields conv fl ps { wD := w0D, wS := w0S }).toC, c.wr.name = p.2.name := by
  have e := (planFields_toD conv fl ps hu w0D w0S).1
  have hname : p.2.name ∈ (planFields conv fl ps { wD := w0D, wS := w0S }).toD.w := by
    rw [e, foldl_dopt_w]
    right
    rcases orElse_isSome_cases _ _ hs with h1 | h1
    · exact ⟨misToA fl p, List.mem_append_left _ (List.mem_map_of_mem hp), by
        simp only [misToA, effClaim, hg, Bool.false_eq_true, ↓reduceIte, Option.isSome_map, gd_plain hr]; exact h1, rfl⟩
    · exact ⟨matToA conv p, List.mem_append_right _ (List.mem_map_of_mem hp), by
        simp only [matToA, effClaim, hg, Bool.false_eq_true, ↓reduceIte, Option.isSome_map, gd_plain hr]; exact h1, rfl⟩
  rw [e] at hname
  rcases foldl_dopt_named _ ⟨w0D, []⟩ w0D (fun n hn => Or.inl hn) _ hname with h1 | ⟨c, hc, hn⟩
  · exact absurd h1 hw
  · refine ⟨c, ?_, hn⟩
    have : (planFields conv fl ps { wD := w0D, wS := w0S }).toC = (planFields conv fl ps { wD := w0D, wS := w0S }).toD.cs := rfl
    rw [this, e]; exact hc

/-- FromX: the mirror image -/
theorem claim_exists_from (conv : List (Ty × Ty)) (fl : List Fn) (ps : List (Field × Field)) (hu : UniqueClaimable ps)
    (w0D w0S : List String) (p : Field × Field) (hp : p ∈ ps) (hg : p.1.isGet = false) (hr : p.2.isSet = false) (hw : p.1.name ∉ w0S)
    (hs : (pairStrat conv (indexed fl) .dest .src p.2.ty p.1.ty).isSome = true) :
    ∃ c ∈ (planFields conv fl ps { wD := w0D, wS := w0S }).fromC, c.wr.name = p.1.name := by
  have e := (planFields_toD conv fl ps hu w0D w0S).2
  have hname : p.1.name ∈ (planFields conv fl ps { wD := w0D, wS := w0S }).fromD.w := by
    rw [e, foldl_dopt_w]
    right
    rcases orElse_isSome_cases _ _ hs with h1 | h1
    · exact ⟨misFromA fl p, List.mem_append_left _ (List.mem_map_of_mem hp), by
        simp only [misFromA, effClaim, hg, Bool.false_eq_true, ↓reduceIte, Option.isSome_map, gd_plain hr]; exact h1, rfl⟩
    · exact ⟨matFromA conv p, List.mem_append_right _ (List.mem_map_of_mem hp), by
        simp only [matFromA, effClaim, hg, Bool.false_eq_true, ↓reduceIte, Option.isSome_map, gd_plain hr]; exact h1, rfl⟩
  rw [e] at hname
  rcases foldl_dopt_named _ ⟨w0S, []⟩ w0S (fun n hn => Or.inl hn) _ hname with h1 | ⟨c, hc, hn⟩
  · exact absurd h1 hw
  · refine ⟨c, ?_, hn⟩
    have : (planFields conv fl ps { wD := w0D, wS := w0S }).fromC = (planFields conv fl ps { wD := w0D, wS := w0S }).fromD.cs := rfl
    rw [this, e]; exact hc

/-- with at most one claimable partner per reading field, no reading field has two claims: every claim
    is an emitted statement (`Target` is never overwritten) -/
theorem claims_are_stmts_to {st : St} (h : Inv conv fns ps w0D w0S st) (hu : UniqueClaimable ps) (fs : List Field)
    (hfs : ∀ p ∈ ps, p.1 ∈ fs) (c : Claim) : c ∈ fs.filterMap (lastClaim st.toC) ↔ c ∈ st.toC := by
  apply stmts_eq_claims
  · intro c1 h1 c2 h2 e
    have p1 := h.toPair c1 h1
    have p2 := h.toPair c2 h2
    have hw : c1.wr = c2.wr := hu.1 _ p1.1 _ p2.1 e (h.toIn c1 h1).2.2 (h.toIn c2 h2).2.2
    exact inj_of_map_nodup (fun x : Claim => x.wr.name) st.toC h.toNodup h1 h2 (by simp [hw])
  · intro c1 h1
    exact hfs _ (h.toPair c1 h1).1

theorem claims_are_stmts_from {st : St} (h : Inv conv fns ps w0D w0S st) (hu : UniqueClaimable ps) (ds : List Field)
    (hds : ∀ p ∈ ps, p.2 ∈ ds) (c : Claim) : c ∈ ds.filterMap (lastClaim st.fromC) ↔ c ∈ st.fromC := by
  apply stmts_eq_claims
  · intro c1 h1 c2 h2 e
    have p1 := h.fromPair c1 h1
    have p2 := h.fromPair c2 h2
    have hw : c1.wr = c2.wr := hu.2 _ p1.1 _ p2.1 e (h.fromIn c1 h1).2.2 (h.fromIn c2 h2).2.2
    exact inj_of_map_nodup (fun x : Claim => x.wr.name) st.fromC h.fromNodup h1 h2 (by simp [hw])
  · intro c1 h1
    exact hds _ (h.fromPair c1 h1).1


/-! ## every claim carries the pair's own first applicable strategy -/

theorem foldl_dopt_cs_mem (A : List Attempt) (d : Dir) (c : Claim) (h : c ∈ (A.foldl dopt d).cs) :
    c ∈ d.cs ∨ ∃ a ∈ A, effClaim a = some c ∧ a.2.1.name ∉ d.w := by
  induction A generalizing d with
  | nil => exact Or.inl h
  | cons a A ih =>
    simp only [List.foldl_cons] at h
    rcases ih _ h with h1 | ⟨b, hb, he, hn⟩
    · rw [dopt_cs] at h1
      rcases List.mem_append.mp h1 with h2 | h2
      · exact Or.inl h2
      · right
        refine ⟨a, List.mem_cons_self, ?_⟩
        split at h2
        · cases h2
        · rename_i hw
          constructor
          · cases he : effClaim a with
            | none => simp [he] at h2
            | some c' => simp [he] at h2; rw [h2]
          · simpa using hw
    · right
      refine ⟨b, List.mem_cons_of_mem _ hb, he, ?_⟩
      intro hmem
      apply hn
      obtain ⟨rd, wr, o⟩ := a
      cases o with
      | none => exact hmem
      | some s =>
        simp only [dopt]
        by_cases hbk : blocked d wr = true
        · rw [dclaim_pos hbk]; exact hmem
        · rw [dclaim_neg hbk]; exact List.mem_cons_of_mem _ hmem

theorem two_phase_strat (ps : List (Field × Field)) (rdOf wrOf : Field × Field → Field)
    (o1 o2 : Field × Field → Option Strat) (w0 : List String) (c : Claim)
    (h : c ∈ ((ps.map (fun p => ((rdOf p, wrOf p, o1 p) : Attempt)) ++ ps.map (fun p => ((rdOf p, wrOf p, o2 p) : Attempt))).foldl dopt
          ⟨w0, []⟩).cs) :
    ∃ p ∈ ps, (wrOf p).isGet = false ∧ (wrOf p).name ∉ w0 ∧
      ∃ s, (o1 p).orElse (fun _ => o2 p) = some s ∧ c = ⟨rdOf p, wrOf p, s⟩ := by
  rw [List.foldl_append] at h
  rcases foldl_dopt_cs_mem _ _ c h with h1 | ⟨a, ha, he, hn⟩
  · rcases foldl_dopt_cs_mem _ _ c h1 with h2 | ⟨a, ha, he, hn⟩
    · cases h2
    · obtain ⟨p, hp, rfl⟩ := List.mem_map.mp ha
      obtain ⟨hg, s, hs, rfl⟩ := (effClaim_some _ _ _ _).mp he
      exact ⟨p, hp, hg, hn, s, by simp [hs], rfl⟩
  · obtain ⟨p, hp, rfl⟩ := List.mem_map.mp ha
    obtain ⟨hg, s, hs, rfl⟩ := (effClaim_some _ _ _ _).mp he
    rw [foldl_dopt_w] at hn
    simp only [not_or, not_exists, not_and] at hn
    have h1 : o1 p = none := by
      cases h : o1 p with
      | none => rfl
      | some s' =>
        exfalso
        refine hn.2 (rdOf p, wrOf p, o1 p) (List.mem_map.mpr ⟨p, hp, rfl⟩) ?_ rfl
        simp [effClaim, hg, h]
    exact ⟨p, hp, hg, hn.1, s, by simp [h1, hs], rfl⟩

/-- whatever pair made a claim, the claim carries `pairStrat` of that pair's types — also when several
    reading fields compete for one written field -/
theorem claim_strat (conv : List (Ty × Ty)) (fl : List Fn) (ps : List (Field × Field)) (hu : UniqueClaimable ps)
    (w0D w0S : List String) :
    (∀ c ∈ (planFields conv fl ps { wD := w0D, wS := w0S }).toC, (c.rd, c.wr) ∈ ps ∧
      pairStrat conv (indexed fl) .src .dest c.rd.ty c.wr.ty = some c.strat ∧ c.rd.isSet = false) ∧
    (∀ c ∈ (planFields conv fl ps { wD := w0D, wS := w0S }).fromC, (c.wr, c.rd) ∈ ps ∧
      pairStrat conv (indexed fl) .dest .src c.rd.ty c.wr.ty = some c.strat ∧ c.rd.isSet = false) := by
  have e := planFields_toD conv fl ps hu w0D w0S
  constructor
  · intro c hc
    have : c ∈ (planFields conv fl ps { wD := w0D, wS := w0S }).toD.cs := hc
    rw [e.1] at this
    obtain ⟨p, hp, _, _, s, hs, rfl⟩ := two_phase_strat ps (·.1) (·.2) _ _ w0D c this
    rw [gd_orElse, gd_some] at hs
    exact ⟨hp, hs.2, hs.1⟩
  · intro c hc
    have : c ∈ (planFields conv fl ps { wD := w0D, wS := w0S }).fromD.cs := hc
    rw [e.2] at this
    obtain ⟨p, hp, _, _, s, hs, rfl⟩ := two_phase_strat ps (·.2) (·.1) _ _ w0S c this
    rw [gd_orElse, gd_some] at hs
    exact ⟨hp, hs.2, hs.1⟩

end ShootVerif.Mapper
