import ShootVerif.Proofs.CtorBody
/-! Reading the nested literal at an explicit path gives the expression the leaf at that path
    of the struct *type* calls for. Both lookups use the same recursion scheme. -/
namespace ShootVerif.Ctor

def Tree.fieldAt : Tree → String → Option FInfo
  | .nil, _ => none
  | .field f rest, k => if f.name = k then some f else rest.fieldAt k
  | .embed n _ _ _ _ rest, k => if n = k then none else rest.fieldAt k

def Tree.embedAt : Tree → String → Option (Bool × Bool × Tree)
  | .nil, _ => none
  | .field f rest, k => if f.name = k then none else rest.embedAt k
  | .embed n _ p nm b rest, k => if n = k then some (p, nm, b) else rest.embedAt k

/-- type-side lookup of the leaf at embed path π, name k -/
def leafAt (top : Bool) (path : List String) (inh : Bool) (d : Nat) : Tree → List String → String → Option Leaf
  | t, [], k => (t.fieldAt k).map (fun f => ⟨path, d, f, if top then f.newMark else inh, top⟩)
  | t, e :: es, k => match t.embedAt e with
      | some (_, nm, b) => leafAt false (path ++ [e]) (if top then nm else inh) (d + 1) b es k
      | none => none

/-- what the literal holds for a leaf: nothing for skipped fields, else `entryExpr` of its entry -/
def leafExpr (nm : String → Option String) (sh : Shadow) (l : Leaf) : Option Expr :=
  if l.info.skip then none else entryExpr nm (mkField sh l.depth l.marked l.info l.top)

def WFLevels : Tree → Prop
  | .nil => True
  | .field f rest => f.name ∉ levelNames rest ∧ WFLevels rest
  | .embed n _ _ _ body rest => n ∉ levelNames rest ∧ WFLevels body ∧ WFLevels rest

theorem wfLevels_iff (t : Tree) : wfLevels t = true ↔ WFLevels t := by
  induction t with
  | nil => simp [wfLevels, WFLevels]
  | field f rest ih => simp [wfLevels, WFLevels, ih]
  | embed n ty p nm body rest ihb ihr => simp [wfLevels, WFLevels, ihb, ihr, and_assoc]

theorem entry_kvAt_ne (nm : String → Option String) (f : Field) (rest : Lit) (k : String) (h : f.name ≠ k) :
    (entry nm f rest).kvAt k = rest.kvAt k := by
  unfold entry; split <;> simp [Lit.kvAt, h]

theorem entry_subAt (nm : String → Option String) (f : Field) (rest : Lit) (k : String) :
    (entry nm f rest).subAt k = if f.name = k ∧ (entryExpr nm f).isSome then none else rest.subAt k := by
  unfold entry; split <;> rename_i h <;> simp [Lit.subAt, h]

theorem kvAt_not_level (nm sh top inh d) (t : Tree) (k : String) (h : k ∉ levelNames t) :
    (lit nm sh top inh d t).kvAt k = none := by
  induction t with
  | nil => simp [lit, Lit.kvAt]
  | field f rest ih =>
    simp only [levelNames, List.mem_cons, not_or] at h
    simp only [lit]
    by_cases hs : f.skip
    · simp only [hs, ↓reduceIte]; exact ih h.2
    · simp only [hs, Bool.false_eq_true, ↓reduceIte]
      rw [entry_kvAt_ne _ _ _ _ (by simpa [mkField] using fun e => h.1 e.symm)]; exact ih h.2
  | embed n ty p nm' body rest _ ihr =>
    simp only [levelNames, List.mem_cons, not_or] at h
    simp only [lit, Lit.kvAt]; rw [if_neg (fun e => h.1 e.symm)]; exact ihr h.2

theorem subAt_not_level (nm sh top inh d) (t : Tree) (k : String) (h : k ∉ levelNames t) :
    (lit nm sh top inh d t).subAt k = none := by
  induction t with
  | nil => simp [lit, Lit.subAt]
  | field f rest ih =>
    simp only [levelNames, List.mem_cons, not_or] at h
    simp only [lit]
    by_cases hs : f.skip
    · simp only [hs, ↓reduceIte]; exact ih h.2
    · simp only [hs, Bool.false_eq_true, ↓reduceIte]
      rw [entry_subAt]
      have : ¬ ((mkField sh d (if top then f.newMark else inh) f top).name = k ∧
          (entryExpr nm (mkField sh d (if top then f.newMark else inh) f top)).isSome = true) :=
        fun hh => h.1 (by have := hh.1; simp [mkField] at this; exact this.symm)
      rw [if_neg this]; exact ih h.2
  | embed n ty p nm' body rest _ ihr =>
    simp only [levelNames, List.mem_cons, not_or] at h
    simp only [lit, Lit.subAt]; rw [if_neg (fun e => h.1 e.symm)]; exact ihr h.2

/-- one level, plain field -/
theorem kvAt_lit (nm sh top inh d path) (t : Tree) (hw : WFLevels t) (k : String) :
    (lit nm sh top inh d t).kvAt k =
      (t.fieldAt k).bind (fun f => leafExpr nm sh ⟨path, d, f, if top then f.newMark else inh, top⟩) := by
  induction t with
  | nil => simp [lit, Lit.kvAt, Tree.fieldAt]
  | field f rest ih =>
    simp only [Tree.fieldAt]
    by_cases hk : f.name = k
    · subst hk
      simp only [↓reduceIte, Option.bind_some, lit, leafExpr]
      by_cases hs : f.skip
      · simp only [hs, ↓reduceIte]; exact kvAt_not_level nm sh top inh d rest f.name hw.1
      · simp only [hs, Bool.false_eq_true, ↓reduceIte]
        unfold entry
        split
        · rename_i e he; rw [he]; simp [Lit.kvAt, mkField]
        · rename_i he; rw [he]; exact kvAt_not_level nm sh top inh d rest f.name hw.1
    · simp only [if_neg hk, lit]
      by_cases hs : f.skip
      · simp only [hs, ↓reduceIte]; exact ih hw.2
      · simp only [hs, Bool.false_eq_true, ↓reduceIte]
        rw [entry_kvAt_ne _ _ _ _ (by simpa [mkField] using hk)]; exact ih hw.2
  | embed n ty p nm' body rest _ ihr =>
    simp only [Tree.fieldAt, lit, Lit.kvAt]
    by_cases hk : n = k
    · simp [hk]
    · simp only [if_neg hk]; exact ihr hw.2.2

/-- one level, embed -/
theorem subAt_lit (nm sh top inh d) (t : Tree) (hw : WFLevels t) (k : String) :
    (lit nm sh top inh d t).subAt k =
      (t.embedAt k).map (fun x => (x.1, lit nm sh false (if top then x.2.1 else inh) (d + 1) x.2.2)) := by
  induction t with
  | nil => simp [lit, Lit.subAt, Tree.embedAt]
  | field f rest ih =>
    simp only [Tree.embedAt]
    by_cases hk : f.name = k
    · subst hk
      simp only [↓reduceIte, Option.map_none, lit]
      by_cases hs : f.skip
      · simp only [hs, ↓reduceIte]; exact subAt_not_level nm sh top inh d rest f.name hw.1
      · simp only [hs, Bool.false_eq_true, ↓reduceIte]
        rw [entry_subAt]
        by_cases hc : (mkField sh d (if top then f.newMark else inh) f top).name = f.name ∧
            (entryExpr nm (mkField sh d (if top then f.newMark else inh) f top)).isSome = true
        · rw [if_pos hc]
        · rw [if_neg hc]; exact subAt_not_level nm sh top inh d rest f.name hw.1
    · simp only [if_neg hk, lit]
      by_cases hs : f.skip
      · simp only [hs, ↓reduceIte]; exact ih hw.2
      · simp only [hs, Bool.false_eq_true, ↓reduceIte]
        rw [entry_subAt]
        have : ¬ ((mkField sh d (if top then f.newMark else inh) f top).name = k ∧
            (entryExpr nm (mkField sh d (if top then f.newMark else inh) f top)).isSome = true) :=
          fun hh => hk (by simpa [mkField] using hh.1)
        rw [if_neg this]; exact ih hw.2
  | embed n ty p nm' body rest _ ihr =>
    simp only [Tree.embedAt, lit, Lit.subAt]
    by_cases hk : n = k
    · simp [hk]
    · simp only [if_neg hk]; exact ihr hw.2.2

theorem WFLevels_embedAt (t : Tree) (hw : WFLevels t) (k p nm b) (h : t.embedAt k = some (p, nm, b)) :
    WFLevels b := by
  induction t with
  | nil => simp [Tree.embedAt] at h
  | field f rest ih =>
    simp only [Tree.embedAt] at h
    split at h
    · simp at h
    · exact ih hw.2 h
  | embed n ty q nm' body rest _ ihr =>
    simp only [Tree.embedAt] at h
    split at h
    · simp only [Option.some.injEq, Prod.mk.injEq] at h; rw [← h.2.2]; exact hw.2.1
    · exact ihr hw.2.2 h

/-- the literal, read at any explicit path, holds exactly what the leaf there calls for -/
theorem at_lit (nm sh) (π : List String) :
    ∀ (top : Bool) (path : List String) (inh : Bool) (d : Nat) (t : Tree), WFLevels t → ∀ k,
      (lit nm sh top inh d t).at π k = (leafAt top path inh d t π k).bind (leafExpr nm sh) := by
  induction π with
  | nil =>
    intro top path inh d t hw k
    simp only [Lit.at, leafAt, kvAt_lit nm sh top inh d path t hw k]
    cases t.fieldAt k <;> simp
  | cons e es ih =>
    intro top path inh d t hw k
    simp only [Lit.at, leafAt, subAt_lit nm sh top inh d t hw e]
    cases he : t.embedAt e with
    | none => simp
    | some x =>
      obtain ⟨p, nm', b⟩ := x
      simp only [Option.map_some]
      exact ih false (path ++ [e]) (if top then nm' else inh) (d + 1) b (WFLevels_embedAt t hw e p nm' b he) k

def Tree.hasEmbedPath : Tree → List String → Bool
  | _, [] => true
  | t, e :: es => match t.embedAt e with
      | some (_, _, b) => b.hasEmbedPath es
      | none => false

/-- every embedded struct on an embed path of the type is present in the literal
    (so pointer embeds are allocated) -/
theorem hasSub_lit (nm sh) (π : List String) :
    ∀ (top inh : Bool) (d : Nat) (t : Tree), WFLevels t →
      (lit nm sh top inh d t).hasSub π = t.hasEmbedPath π := by
  induction π with
  | nil => intros; simp [Lit.hasSub, Tree.hasEmbedPath]
  | cons e es ih =>
    intro top inh d t hw
    simp only [Lit.hasSub, Tree.hasEmbedPath, subAt_lit nm sh top inh d t hw e]
    cases he : t.embedAt e with
    | none => simp
    | some x =>
      obtain ⟨p, nm', b⟩ := x
      simp only [Option.map_some]
      exact ih false (if top then nm' else inh) (d + 1) b (WFLevels_embedAt t hw e p nm' b he)

end ShootVerif.Ctor
