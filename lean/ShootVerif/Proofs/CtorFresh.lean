import ShootVerif.Proofs.CtorMain
/-! The collision suffixes of `makeNew` (8a16c3f) in general: `for usedParams[param] { param += "_" }` always ends on a
    name not taken yet, so the parameters are pairwise distinct whatever the field names are; with pairwise distinct
    FIELD names (of the visible leaves) the name-keyed `nameMap` still answers for the very leaf. -/
namespace ShootVerif.Ctor

theorem filter_length_lt {α : Type} (q r : α → Bool) (himp : ∀ x, q x = true → r x = true) :
    ∀ (l : List α) (a : α), a ∈ l → r a = true → q a = false → (l.filter q).length < (l.filter r).length := by
  intro l
  induction l with
  | nil => intro a ha; cases ha
  | cons x xs ih =>
    intro a ha hra hqa
    have hle : ∀ ys : List α, (ys.filter q).length ≤ (ys.filter r).length := by
      intro ys
      induction ys with
      | nil => simp
      | cons y ys ihy =>
        simp only [List.filter_cons]
        cases hq : q y
        · cases hr : r y
          · simpa using ihy
          · simp only [Bool.false_eq_true, ↓reduceIte, List.length_cons]; omega
        · have hr := himp y hq
          simp only [hr, ↓reduceIte, List.length_cons]; omega
    rcases List.mem_cons.mp ha with hx | hx
    · subst hx
      simp only [List.filter_cons, hqa, hra, Bool.false_eq_true, ↓reduceIte, List.length_cons]
      have := hle xs
      omega
    · have := ih a hx hra hqa
      simp only [List.filter_cons]
      cases hq : q x
      · cases hr : r x
        · simpa using this
        · simp only [Bool.false_eq_true, ↓reduceIte, List.length_cons]; omega
      · have hr := himp x hq
        simp only [hr, ↓reduceIte, List.length_cons]; omega

/-- the loop ends on a name that is not taken, provided the fuel exceeds the number of taken names that are at
    least as long as the candidate (every failed candidate is one of them, and the next one is longer) -/
theorem fresh_not_mem : ∀ (k : Nat) (used : List String) (p : String),
    (used.filter (fun u => decide (p.length ≤ u.length))).length < k → fresh k used p ∉ used := by
  intro k
  induction k with
  | zero => intro used p h; omega
  | succ k ih =>
    intro used p h
    simp only [fresh]
    by_cases hc : used.contains p = true
    · simp only [hc, ↓reduceIte]
      apply ih
      have hp : p ∈ used := by simpa using hc
      have hlt := filter_length_lt (fun u => decide ((p ++ "_").length ≤ u.length)) (fun u => decide (p.length ≤ u.length))
        (by
          intro x hx
          simp only [decide_eq_true_eq, String.length_append] at hx ⊢
          omega)
        used p hp (by simp) (by
          simp only [decide_eq_false_iff_not, String.length_append]
          have : "_".length = 1 := by decide
          omega)
      omega
    · have hc' : used.contains p = false := by
        cases h' : used.contains p
        · rfl
        · exact absurd h' hc
      simp only [hc', Bool.false_eq_true, ↓reduceIte]
      simpa using hc'

theorem fresh_not_mem_acc (acc : List (String × String)) (p : String) :
    fresh (acc.length + 1) (acc.map (·.2)) p ∉ acc.map (·.2) := by
  apply fresh_not_mem
  have : ((acc.map (·.2)).filter (fun u => decide (p.length ≤ u.length))).length ≤ (acc.map (·.2)).length :=
    List.length_filter_le _ _
  simp only [List.length_map] at this
  omega

/-- keys of the assignment: the parameter entries' field names, in order -/
theorem assignParams_keys (hn : Bool) (fs : List Field) : ∀ acc : List (String × String),
    (assignParams hn fs acc).map Prod.fst = acc.map Prod.fst ++ (fs.filter (condNew hn)).map (·.name) := by
  induction fs with
  | nil => intro acc; simp [assignParams]
  | cons f fs ih =>
    intro acc
    simp only [assignParams]
    by_cases hc : condNew hn f = true
    · simp only [hc, ↓reduceIte, List.filter_cons, List.map_cons]
      rw [ih]
      simp
    · have hc' : condNew hn f = false := by
        cases h : condNew hn f
        · rfl
        · exact absurd h hc
      simp only [hc', Bool.false_eq_true, ↓reduceIte, List.filter_cons]
      exact ih acc

/-- the assigned parameter names are pairwise distinct — for ANY field names -/
theorem assignParams_nodup (hn : Bool) (fs : List Field) : ∀ acc : List (String × String),
    (acc.map Prod.snd).Nodup → ((assignParams hn fs acc).map Prod.snd).Nodup := by
  induction fs with
  | nil => intro acc h; simpa [assignParams] using h
  | cons f fs ih =>
    intro acc h
    simp only [assignParams]
    by_cases hc : condNew hn f = true
    · simp only [hc, ↓reduceIte]
      apply ih
      simp only [List.map_append, List.map_cons, List.map_nil]
      rw [List.nodup_append]
      refine ⟨h, by simp, ?_⟩
      intro a ha b hb
      simp only [List.mem_singleton] at hb
      subst hb
      intro e
      subst e
      exact fresh_not_mem_acc acc (paramName f.name) ha
    · have hc' : condNew hn f = false := by
        cases h' : condNew hn f
        · rfl
        · exact absurd h' hc
      simp only [hc', Bool.false_eq_true, ↓reduceIte]
      exact ih acc h

theorem nodup_of_map {α β : Type} (g : α → β) : ∀ l : List α, (l.map g).Nodup → l.Nodup := by
  intro l
  induction l with
  | nil => intro _; simp
  | cons x xs ih =>
    intro h
    simp only [List.map_cons, List.nodup_cons] at h ⊢
    exact ⟨fun hx => h.1 (List.mem_map.mpr ⟨x, hx, rfl⟩), ih h.2⟩

theorem nodup_map_of_inj {α β : Type} (g : α → β) : ∀ l : List α, l.Nodup →
    (∀ x ∈ l, ∀ y ∈ l, g x = g y → x = y) → (l.map g).Nodup := by
  intro l
  induction l with
  | nil => intro _ _; simp
  | cons x xs ih =>
    intro h hinj
    simp only [List.map_cons, List.nodup_cons] at h ⊢
    refine ⟨?_, ih h.2 (fun a ha b hb e => hinj a (by simp [ha]) b (by simp [hb]) e)⟩
    intro hm
    obtain ⟨y, hy, e⟩ := List.mem_map.mp hm
    have := hinj y (by simp [hy]) x (by simp) e
    subst this
    exact h.1 hy

theorem nodup_reverse' {α : Type} (l : List α) (h : l.Nodup) : l.reverse.Nodup := by
  unfold List.Nodup at *
  rw [List.pairwise_reverse]
  exact h.imp (fun hab e => hab e.symm)

theorem lookup_isSome_iff {α : Type} [BEq α] [LawfulBEq α] {β : Type} (a : α) : ∀ L : List (α × β),
    (L.lookup a).isSome = true ↔ a ∈ L.map Prod.fst := by
  intro L
  induction L with
  | nil => simp
  | cons x xs ih =>
    obtain ⟨k, v⟩ := x
    simp only [List.lookup_cons, List.map_cons, List.mem_cons]
    by_cases h : a = k
    · subst h; simp
    · have h' : (a == k) = false := by simpa using h
      simp only [h', h, false_or]
      exact ih

theorem lookup_of_mem_nodup {α : Type} [BEq α] [LawfulBEq α] {β : Type} : ∀ (L : List (α × β)) (a : α) (b : β),
    (a, b) ∈ L → (L.map Prod.fst).Nodup → L.lookup a = some b := by
  intro L
  induction L with
  | nil => intro a b h; cases h
  | cons x xs ih =>
    intro a b hm hnd
    obtain ⟨k, v⟩ := x
    simp only [List.map_cons, List.nodup_cons] at hnd
    rcases List.mem_cons.mp hm with hx | hx
    · injection hx with h1 h2
      subst h1; subst h2
      simp
    · have hk : a ≠ k := by
        intro e
        subst e
        exact hnd.1 (List.mem_map.mpr ⟨(a, b), hx, rfl⟩)
      have h' : (a == k) = false := by simpa using hk
      simp only [List.lookup_cons, h']
      exact ih a b hx hnd.2

/-- the parameter name the generator ends up with for a field name ("" when the field is no parameter) -/
def assignedName (hn : Bool) (fs : List Field) (n : String) : String := (nameMap hn fs n).getD ""

theorem nameMap_isSome_iff (hn : Bool) (fs : List Field) (n : String) :
    (nameMap hn fs n).isSome = true ↔ n ∈ (fs.filter (condNew hn)).map (·.name) := by
  unfold nameMap
  rw [lookup_isSome_iff, List.map_reverse, List.mem_reverse, assignParams_keys]
  simp

/-- distinct parameter entries with distinct field names get distinct parameter names -/
theorem assignedName_inj (hn : Bool) (fs : List Field)
    (hk : ((fs.filter (condNew hn)).map (·.name)).Nodup) (a b : String)
    (ha : a ∈ (fs.filter (condNew hn)).map (·.name)) (hb : b ∈ (fs.filter (condNew hn)).map (·.name))
    (e : assignedName hn fs a = assignedName hn fs b) : a = b := by
  have hkeys : ((assignParams hn fs []).map Prod.fst).Nodup := by
    rw [assignParams_keys]; simpa using hk
  have hvals : ((assignParams hn fs []).map Prod.snd).Nodup := assignParams_nodup hn fs [] (by simp)
  have hrk : ((assignParams hn fs []).reverse.map Prod.fst).Nodup := by
    rw [List.map_reverse]; exact nodup_reverse' _ hkeys
  have get : ∀ x, x ∈ (fs.filter (condNew hn)).map (·.name) →
      ∃ p, (x, p) ∈ assignParams hn fs [] ∧ assignedName hn fs x = p := by
    intro x hx
    have hx' : x ∈ (assignParams hn fs []).map Prod.fst := by
      rw [assignParams_keys]; simpa using hx
    obtain ⟨⟨x', p⟩, hm, hxe⟩ := List.mem_map.mp hx'
    simp only at hxe
    subst hxe
    refine ⟨p, hm, ?_⟩
    unfold assignedName nameMap
    rw [lookup_of_mem_nodup _ x' p (List.mem_reverse.mpr hm) hrk]
    rfl
  obtain ⟨p, hpa, ea⟩ := get a ha
  obtain ⟨q, hqb, eb⟩ := get b hb
  rw [ea, eb] at e
  subst e
  have := eq_of_nodup_map hvals (a, p) hpa (b, p) hqb rfl
  exact congrArg Prod.fst this

end ShootVerif.Ctor

namespace ShootVerif.Ctor

/-- `condNames_nodup` for any function of the name -/
theorem condNames_nodup_gen {β : Type} (g : String → β) (t : Tree) (hn : Bool)
    (hnd : ((visibleLeaves t).map (fun l => g l.info.name)).Nodup) :
    (((flatten t).filter (condNew hn)).map (fun f => g f.name)).Nodup := by
  have e1 : ((flatten t).filter (condNew hn)).map (fun f => g f.name) =
      (flatten t).filterMap (fun f => if f.isShadowed || f.isEmbeded then none
        else (if !(hn && !f.isNew) then some (g f.name) else none)) := by
    rw [← List.filterMap_eq_map, List.filterMap_filter]
    apply filterMap_congr_mem
    intro f _
    unfold condNew
    cases f.isShadowed <;> cases f.isEmbeded <;> cases hn <;> cases f.isNew <;> rfl
  rw [e1, flatten_filterMap_leaves]
  have e2 : (visibleLeaves t).map (fun l => g l.info.name) =
      (leavesTop t).filterMap (fun l => if goShadowed t l.depth l.info.name then none else some (g l.info.name)) := by
    unfold visibleLeaves
    rw [← List.filterMap_eq_map, List.filterMap_filter]
    apply filterMap_congr_mem
    intro l _
    cases goShadowed t l.depth l.info.name <;> rfl
  rw [e2] at hnd
  refine List.Sublist.nodup (sublist_filterMap_of_imp _ _ _ ?_) hnd
  intro l hl b hb
  have hag := shadow_agrees t l hl
  rw [hag] at hb
  cases hg : goShadowed t l.depth l.info.name
  · simp only [hg, Bool.or_false] at hb
    simp only [Bool.false_eq_true, ↓reduceIte]
    by_cases hs : l.info.skip
    · simp [hs] at hb
    · simp only [hs, Bool.false_eq_true, ↓reduceIte, mkField] at hb
      cases hc : (!(hn && !l.marked))
      · simp [hc] at hb
      · simpa [hc] using hb
  · simp [hg] at hb

/-- is `n` the name of a parameter entry — read off the leaves -/
theorem key_mem_leaves (t : Tree) (hn : Bool) (n : String) :
    (n ∈ ((flatten t).filter (condNew hn)).map (·.name)) ↔
      (nonSkipped t).any (fun l => decide (l.info.name = n) && !genShadow t l.depth l.info.name && !(hn && !l.marked)) = true := by
  have h := nameMapSimple_leaves t hn n
  unfold nameMapSimple at h
  have hany : (n ∈ ((flatten t).filter (condNew hn)).map (·.name)) ↔
      (flatten t).any (fun f => decide (f.name = n) && condNew hn f) = true := by
    simp only [List.mem_map, List.mem_filter, List.any_eq_true, Bool.and_eq_true, decide_eq_true_eq]
    constructor
    · rintro ⟨f, ⟨hf, hc⟩, e⟩; exact ⟨f, hf, e, hc⟩
    · rintro ⟨f, hf, e, hc⟩; exact ⟨f, ⟨hf, hc⟩, e⟩
  rw [hany]
  cases ha : (flatten t).any (fun f => decide (f.name = n) && condNew hn f) <;>
    cases hb : (nonSkipped t).any (fun l => decide (l.info.name = n) && !genShadow t l.depth l.info.name && !(hn && !l.marked)) <;>
    rw [ha, hb] at h <;> simp at h ⊢

theorem mem_visible' {t : Tree} {l : Leaf} (hl : l ∈ leavesTop t)
    (hsh : genShadow t l.depth l.info.name = false) : l ∈ visibleLeaves t := mem_visible hl hsh

/-- L3 in general: for a visible, non-skipped leaf the name-keyed map holds an entry exactly when the leaf is a
    parameter, and the entry is the name assigned to that field name -/
theorem nameMap_of_leaf_gen (t : Tree) (hn : Bool) (hnd : wfFieldNames t = true)
    (l : Leaf) (hl : l ∈ leavesTop t) (hsk : l.info.skip = false)
    (hsh : genShadow t l.depth l.info.name = false) :
    nameMap hn (flatten t) l.info.name =
      if (!hn || l.marked) then some (assignedName hn (flatten t) l.info.name) else none := by
  have hnd' : ((visibleLeaves t).map (fun l => l.info.name)).Nodup := by
    simpa [wfFieldNames] using hnd
  have hvis := mem_visible hl hsh
  have hany : (nonSkipped t).any (fun l' => decide (l'.info.name = l.info.name) &&
      !genShadow t l'.depth l'.info.name && !(hn && !l'.marked)) = (!hn || l.marked) := by
    cases hb : (!hn || l.marked)
    · rw [List.any_eq_false]
      intro l' hl' hc
      simp only [Bool.and_eq_true, decide_eq_true_eq, Bool.not_eq_true'] at hc
      have hl'' : l' ∈ leavesTop t := (List.mem_filter.mp hl').1
      have hvis' := mem_visible hl'' hc.1.2
      have e : l' = l := eq_of_nodup_map hnd' l' hvis' l hvis (by simp [hc.1.1])
      subst e
      cases hn <;> cases hm : l'.marked <;> simp_all
    · rw [List.any_eq_true]
      refine ⟨l, ?_, ?_⟩
      · simp [nonSkipped, hl, hsk]
      · cases hn <;> cases hm : l.marked <;> simp_all
  have hsome := nameMap_isSome_iff hn (flatten t) l.info.name
  rw [key_mem_leaves, hany] at hsome
  cases hb : (!hn || l.marked)
  · rw [hb] at hsome
    simp only [Bool.false_eq_true, ↓reduceIte]
    cases hm : nameMap hn (flatten t) l.info.name
    · rfl
    · rw [hm] at hsome; simp at hsome
  · rw [hb] at hsome
    simp only [↓reduceIte]
    cases hm : nameMap hn (flatten t) l.info.name
    · rw [hm] at hsome; simp at hsome
    · simp [assignedName, hm]

theorem eligible_iff_leafParam_gen (t : Tree) (hnd : wfFieldNames t = true)
    (l : Leaf) (hl : l ∈ leavesTop t) :
    leafParam t (hasNewTop t) l =
      if eligible t l then some (assignedName (hasNewTop t) (flatten t) l.info.name) else none := by
  unfold leafParam eligible
  have hag := shadow_agrees t l hl
  by_cases hs : l.info.skip
  · simp [hs]
  · simp only [hs, Bool.false_eq_true, ↓reduceIte, Bool.not_false, Bool.and_true]
    cases hsh : genShadow t l.depth l.info.name
    · have hg : goShadowed t l.depth l.info.name = false := by
        rw [← hag, hsh]
      rw [nameMap_of_leaf_gen t _ hnd l hl (by simpa using hs) hsh]
      simp [hg]
    · have hg : goShadowed t l.depth l.info.name = true := by
        rw [← hag, hsh]
      simp [hg]

/-- L4 in general: the parameters are the eligible leaves in depth-first declaration order, under the names the
    collision loop assigned -/
theorem paramNames_spec_gen (t : Tree) (hnd : wfFieldNames t = true) :
    (gen t).params.map Prod.fst =
      (specParams t).map (fun l => assignedName (hasNewTop t) (flatten t) l.info.name) := by
  simp only [gen, Bool.false_or]
  rw [paramNames_leaves]
  unfold specParams
  rw [← List.filterMap_eq_map, List.filterMap_filter]
  apply filterMap_congr_mem
  intro l hl
  rw [eligible_iff_leafParam_gen t hnd l hl]
  cases eligible t l <;> simp

/-- the assigned names tell the eligible leaves apart -/
theorem assignedName_leaf_inj (t : Tree) (hnd : wfFieldNames t = true) (x l : Leaf)
    (hx : x ∈ specParams t) (hl : l ∈ specParams t)
    (e : assignedName (hasNewTop t) (flatten t) x.info.name = assignedName (hasNewTop t) (flatten t) l.info.name) :
    x = l := by
  have hnd' : ((visibleLeaves t).map (fun l => l.info.name)).Nodup := by
    simpa [wfFieldNames] using hnd
  have hk := condNames_nodup_gen (fun n => n) t (hasNewTop t) hnd'
  have vis : ∀ y ∈ specParams t, y ∈ visibleLeaves t := by
    intro y hy
    simp only [specParams, List.mem_filter, eligible, Bool.and_eq_true, Bool.not_eq_true'] at hy
    simp [visibleLeaves, hy.1, hy.2.1.1]
  have key : ∀ y ∈ specParams t, y.info.name ∈ ((flatten t).filter (condNew (hasNewTop t))).map (·.name) := by
    intro y hy
    rw [key_mem_leaves, List.any_eq_true]
    have hy' := hy
    simp only [specParams, List.mem_filter, eligible, Bool.and_eq_true, Bool.not_eq_true'] at hy'
    obtain ⟨hyl, ⟨hg, hs⟩, hok⟩ := hy'
    have hag := shadow_agrees t y hyl
    refine ⟨y, by simp [nonSkipped, hyl, hs], ?_⟩
    rw [hag, hg]
    cases hh : hasNewTop t <;> cases hm : y.marked <;> simp_all
  have hname := assignedName_inj (hasNewTop t) (flatten t) hk x.info.name l.info.name (key x hx) (key l hl) e
  exact eq_of_nodup_map hnd' x (vis x hx) l (vis l hl) hname

end ShootVerif.Ctor
