import ShootVerif.Model.Repair
import ShootVerif.Proofs.DepsFirst
/-! the repaired driver loop: processing order, directory hygiene checks, and the run-level theorems for `generateR` -/
namespace ShootVerif.GenState
open ShootVerif

/-! ### insertion sort -/

theorem insertBy_perm {α : Type} (key : α → Nat) (a : α) (l : List α) : (insertBy key a l).Perm (a :: l) := by
  induction l with
  | nil => exact List.Perm.refl _
  | cons b l ih =>
    simp only [insertBy]
    split
    · exact List.Perm.refl _
    · exact (List.Perm.cons b ih).trans (List.Perm.swap a b l)

theorem insertBy_sorted {α : Type} (key : α → Nat) (a : α) (l : List α) (h : l.Pairwise (fun x y => key x ≤ key y)) :
    (insertBy key a l).Pairwise (fun x y => key x ≤ key y) := by
  induction l with
  | nil => simp [insertBy]
  | cons b l ih =>
    simp only [insertBy]
    rw [List.pairwise_cons] at h
    split
    · rename_i hab
      rw [List.pairwise_cons]
      refine ⟨?_, List.pairwise_cons.mpr h⟩
      intro x hx
      rcases List.mem_cons.mp hx with rfl | hx
      · exact hab
      · exact Nat.le_trans hab (h.1 x hx)
    · rename_i hab
      rw [List.pairwise_cons]
      refine ⟨?_, ih h.2⟩
      intro x hx
      rcases List.mem_cons.mp ((insertBy_perm key a l).mem_iff.mp hx) with rfl | hx
      · omega
      · exact h.1 x hx

theorem isortBy_perm {α : Type} (key : α → Nat) (l : List α) : (isortBy key l).Perm l := by
  induction l with
  | nil => exact List.Perm.refl _
  | cons a l ih =>
    simp only [isortBy, List.foldr_cons] at *
    exact (insertBy_perm key a _).trans (List.Perm.cons a ih)

theorem isortBy_sorted {α : Type} (key : α → Nat) (l : List α) : (isortBy key l).Pairwise (fun x y => key x ≤ key y) := by
  induction l with
  | nil => simp [isortBy]
  | cons a l ih =>
    simp only [isortBy, List.foldr_cons] at *
    exact insertBy_sorted key a _ ih

/-! ### sorting by tree size is dependencies-first -/

/-- a listed type that is embedded by a listed type has a strictly smaller tree (true of every real package: the
    tree of the embedder contains the tree of the embedded struct) -/
def SizeConsistent (ts : List NType) : Prop :=
  ∀ t ∈ ts, ∀ u ∈ ts, u.name ∈ embedsOf t → treeSize u.tree < treeSize t.tree

theorem depsFirst_of_sorted (ts : List NType) (hs : SizeConsistent ts) :
    ∀ (l : List NType), (∀ x ∈ l, x ∈ ts) → l.Pairwise (fun x y => treeSize x.tree ≤ treeSize y.tree) → DepsFirst l := by
  intro l
  induction l with
  | nil => intro _ _; trivial
  | cons t l ih =>
    intro hsub hp
    rw [List.pairwise_cons] at hp
    refine ⟨?_, ih (fun x hx => hsub x (List.mem_cons_of_mem _ hx)) hp.2⟩
    intro e he u hu hue
    have ht := hsub t (List.mem_cons_self ..)
    have hu' := hsub u hu
    have hlt := hs t ht u hu' (hue ▸ he)
    rcases List.mem_cons.mp hu with rfl | hu
    · omega
    · have := hp.1 u hu
      omega

theorem depsFirst_processingOrder (ts : List NType) (hs : SizeConsistent ts) :
    DepsFirst (isortBy (fun t => treeSize t.tree) ts) :=
  depsFirst_of_sorted ts hs _ (fun x hx => (isortBy_perm _ ts).mem_iff.mp hx) (isortBy_sorted _ ts)

/-! ### putting the outputs back into list order -/

theorem find_in_map (F : NType → NOut) :
    ∀ (l : List NType), (l.map (·.name)).Nodup → ∀ t ∈ l,
      (l.map (fun t => (t, F t))).find? (fun p => p.1.name == t.name) = some (t, F t) := by
  intro l
  induction l with
  | nil => intro _ t ht; cases ht
  | cons a l ih =>
    intro hnd t ht
    simp only [List.map_cons, List.nodup_cons] at hnd
    rw [List.map_cons, List.find?_cons]
    rcases List.mem_cons.mp ht with rfl | ht
    · simp
    · have : (a.name == t.name) = false := by
        rw [beq_eq_false_iff_ne]
        intro e
        exact hnd.1 (e ▸ List.mem_map_of_mem ht)
      simp only [this]
      exact ih hnd.2 t ht

theorem inListOrder_map (F : NType → NOut) (ts l : List NType) (hp : l.Perm ts) (hnd : (ts.map (·.name)).Nodup) :
    inListOrder ts (l.map (fun t => (t, F t))) = ts.map (fun t => (t, F t)) := by
  have hndl : (l.map (·.name)).Nodup := (List.Perm.nodup_iff (hp.map _)).mpr hnd
  unfold inListOrder
  have : ∀ (r : List NType), (∀ t ∈ r, t ∈ l) →
      r.filterMap (fun t => (l.map (fun t => (t, F t))).find? (fun p => p.1.name == t.name)) = r.map (fun t => (t, F t)) := by
    intro r
    induction r with
    | nil => intro _; rfl
    | cons a r ih =>
      intro hr
      rw [List.filterMap_cons, find_in_map F l hndl a (hr a (List.mem_cons_self ..)), List.map_cons,
        ih (fun t ht => hr t (List.mem_cons_of_mem _ ht))]
  exact this ts (fun t ht => hp.mem_iff.mpr ht)

/-! ### decidable versions of the hypotheses (for the driver's region) -/

def pendingB (ts : List NType) (i : String) : Bool := ts.any (fun u => (ifacesOf u.name).contains i)

theorem pendingB_iff (ts : List NType) (i : String) : pendingB ts i = true ↔ Pending ts i := by
  simp only [pendingB, List.any_eq_true, List.contains_iff_mem, Pending]

/-- the file of a listed type declares only its interfaces; they are declared nowhere else -/
def hygB (L : List NType) (d : Disk) : Bool :=
  d.all (fun f => L.all (fun t =>
    (f.name != t.file || f.defs.all (fun p => (ifacesOf t.name).contains p.1)) &&
    (f.defs.all (fun p => !(ifacesOf t.name).contains p.1 || f.name == t.file))))

theorem hygB_sound {L : List NType} {d : Disk} (h : hygB L d = true) : Hyg L d := by
  simp only [hygB, List.all_eq_true, Bool.and_eq_true, Bool.or_eq_true, bne_iff_ne, ne_eq, Bool.not_eq_eq_eq_not,
    Bool.not_true, beq_iff_eq, List.contains_iff_mem] at h
  constructor
  · intro f hf t ht hft p hp
    rcases (h f hf t ht).1 with h1 | h1
    · exact absurd hft h1
    · exact h1 p hp
  · intro f hf t ht p hp hpi
    rcases (h f hf t ht).2 p hp with h1 | h1
    · rw [← List.contains_iff_mem] at hpi
      rw [hpi] at h1; cases h1
    · exact h1

/-- no interface of a type outside the list embeds an interface of a listed type -/
def cloB (ts : List NType) (d : Disk) : Bool :=
  d.all (fun f => f.defs.all (fun p => pendingB ts p.1 || p.2.embeds.all (fun j => !pendingB ts j)))

theorem foldl_better_mem (i : String) (files : Disk) :
    ∀ best f, files.foldl (better i) best = some f → f ∈ files ∨ best = some f := by
  induction files with
  | nil => intro best f h; exact Or.inr h
  | cons g gs ih =>
    intro best f h
    rw [List.foldl_cons] at h
    rcases ih _ f h with h1 | h1
    · exact Or.inl (List.mem_cons_of_mem _ h1)
    · unfold better at h1
      cases hl : g.defs.lookup i with
      | none => rw [hl] at h1; exact Or.inr h1
      | some _ =>
        rw [hl] at h1
        cases best with
        | none => cases h1; exact Or.inl (List.mem_cons_self ..)
        | some b =>
          simp only at h1
          split at h1
          · cases h1; exact Or.inl (List.mem_cons_self ..)
          · exact Or.inr h1

theorem findDef_mem {files : Disk} {i : String} {D : IfaceDef} (h : findDef files i = some D) :
    ∃ f ∈ files, (i, D) ∈ f.defs := by
  unfold findDef at h
  cases hf : files.foldl (better i) none with
  | none => rw [hf] at h; cases h
  | some f =>
    rw [hf] at h
    rcases foldl_better_mem i files none f hf with h1 | h1
    · exact ⟨f, h1, lookup_some_mem _ i D h⟩
    · cases h1

theorem cloB_sound {ts : List NType} {d : Disk} (h : cloB ts d = true) : Clo ts d := by
  intro i hi D hD j hj hpj
  obtain ⟨f, hf, hm⟩ := findDef_mem hD
  simp only [cloB, List.all_eq_true, Bool.or_eq_true, Bool.not_eq_eq_eq_not, Bool.not_true] at h
  rcases h f hf (i, D) hm with h1 | h1
  · exact hi ((pendingB_iff ts i).mp h1)
  · have := h1 j hj
    rw [(pendingB_iff ts j).mpr hpj] at this
    cases this

/-! ### the combined run is the sequence of separate processes -/

theorem generate_eq_seqRun (fl : NFlags) (hg : fl.getset = true) (d : Disk) (ts : List NType) :
    generate (newMachine noLeaks fl) d ts = seqRun noLeaks fl d ts := by
  have hind : StateIndep (newMachine noLeaks fl) := fun files s t => by
    show (newStep noLeaks fl files s t).2 = (newStep noLeaks fl files {} t).2
    rw [newStep_noLeaks]
  have := loop_eq_oneAtATime (newMachine noLeaks fl) (fun _ => by simp [newMachine, hg]) d ts
    { st := (newMachine noLeaks fl).init, overlay := [], outs := [] } (runIndep_of_stateIndep _ hind d ts _)
  simpa [generate, effective_nil, seqRun] using this

/-! ### what a run leaves behind -/

theorem afterRun_inv (fl : NFlags) {L : List NType} (hL : WFL L) :
    ∀ (outs : List (NType × NOut)) (d : Disk), (∀ p ∈ outs, p.1 ∈ L) → Hyg L d →
      Hyg L (afterRun d (writtenSep (newMachine noLeaks fl) outs)) ∧
      ∀ i, ¬ Pending L i → findDef (afterRun d (writtenSep (newMachine noLeaks fl) outs)) i = findDef d i := by
  intro outs
  induction outs with
  | nil => intro d _ hH; exact ⟨hH, fun _ _ => rfl⟩
  | cons p outs ih =>
    intro d hsub hH
    have hp : p.1 ∈ L := hsub p (List.mem_cons_self ..)
    have hH' := hyg_write hL hH hp _ (newGFile_name p.1 p.2) (newGFile_defs p.1 p.2)
    have := ih (writeFile d (newGFile p.1 p.2)) (fun q hq => hsub q (List.mem_cons_of_mem _ hq)) hH'
    have e : afterRun d (writtenSep (newMachine noLeaks fl) (p :: outs))
        = afterRun (writeFile d (newGFile p.1 p.2)) (writtenSep (newMachine noLeaks fl) outs) := by
      simp [afterRun, writtenSep, newMachine]
    rw [e]
    refine ⟨this.1, ?_⟩
    intro i hi
    have hit : i ∉ ifacesOf p.1.name := fun h => hi ⟨p.1, hp, h⟩
    rw [this.2 i hi, findDef_write hH hp _ (newGFile_name p.1 p.2) (newGFile_defs p.1 p.2), if_neg hit]

/-! ### the repaired loop, separate-files mode -/

/-- the hypotheses on a type list and a directory under which the dependencies-first theorems hold -/
structure RunOK (ts : List NType) (d : Disk) : Prop where
  wfl : WFL ts
  hyg : Hyg ts d
  clo : Clo ts d
  size : SizeConsistent ts

theorem sizeConsistent_perm {ts ts' : List NType} (hp : ts'.Perm ts) (h : SizeConsistent ts) : SizeConsistent ts' :=
  fun t ht u hu => h t (hp.mem_iff.mp ht) u (hp.mem_iff.mp hu)

theorem clo_perm {ts ts' : List NType} (hp : ts'.Perm ts) {d : Disk} (h : Clo ts d) : Clo ts' d :=
  fun i hi D hD j hj hpj => h i (fun x => hi ((pending_perm hp i).mpr x)) D hD j hj ((pending_perm hp j).mp hpj)

/-- the per-type output of the repaired run: the type analysed against the final directory of the reference run -/
def canonOut (fl : NFlags) (d : Disk) (ts : List NType) (t : NType) : NOut :=
  (soloOut noLeaks fl (runDisk noLeaks fl d (isortBy (fun t => treeSize t.tree) ts)) t).getD default

theorem generateR_sep (fl : NFlags) (hg : fl.getset = true) (rp : Repair) (hrp : rp.depsFirst = true) (ts : List NType)
    (d : Disk) (h : RunOK ts d) (ts' : List NType) (hp : ts'.Perm ts) :
    generateR rp (newMachine noLeaks fl) .sep d ts' = ts'.map (fun t => (t, canonOut fl d ts t)) := by
  unfold generateR processingOrder visibleDisk
  rw [if_pos hrp, generate_eq_seqRun fl hg]
  have hP : (isortBy (fun t => treeSize t.tree) ts).Perm ts := isortBy_perm _ ts
  have hP' : (isortBy (fun t => treeSize t.tree) ts').Perm ts' := isortBy_perm _ ts'
  have hndP : ((isortBy (fun t => treeSize t.tree) ts).map (·.name)).Nodup :=
    (List.Perm.nodup_iff (hP.map _)).mpr h.wfl.names
  have := seqRun_perm noLeaks fl h.wfl (isortBy (fun t => treeSize t.tree) ts) d
    (fun t ht => hP.mem_iff.mp ht) hndP h.hyg (clo_perm hP h.clo) (depsFirst_processingOrder ts h.size)
    (isortBy (fun t => treeSize t.tree) ts') (hP'.trans (hp.trans hP.symm))
    (depsFirst_processingOrder ts' (sizeConsistent_perm hp h.size))
  rw [this]
  exact inListOrder_map _ ts' _ hP' ((List.Perm.nodup_iff (hp.map _)).mpr h.wfl.names)

/-- stale independence for the repaired loop -/
theorem generateR_sep_agree (fl : NFlags) (hg : fl.getset = true) (rp : Repair) (hrp : rp.depsFirst = true) (ts : List NType)
    (a b : Disk) (h : RunOK ts a) (hHb : Hyg ts b) (hA : Agree ts a b) :
    generateR rp (newMachine noLeaks fl) .sep a ts = generateR rp (newMachine noLeaks fl) .sep b ts := by
  unfold generateR processingOrder visibleDisk
  rw [if_pos hrp, generate_eq_seqRun fl hg, generate_eq_seqRun fl hg]
  have hP : (isortBy (fun t => treeSize t.tree) ts).Perm ts := isortBy_perm _ ts
  have := seqRun_agree noLeaks fl h.wfl (isortBy (fun t => treeSize t.tree) ts) a b (fun t ht => hP.mem_iff.mp ht)
    h.hyg hHb (clo_perm hP h.clo) (fun i hi => hA i (fun x => hi ((pending_perm hP i).mpr x)))
    (depsFirst_processingOrder ts h.size)
  rw [this.1]

/-- fixpoint for the repaired loop -/
theorem generateR_sep_fixpoint (fl : NFlags) (hg : fl.getset = true) (rp : Repair) (hrp : rp.depsFirst = true)
    (ts : List NType) (d : Disk) (h : RunOK ts d) :
    generateR rp (newMachine noLeaks fl) .sep
        (afterRun d (writtenSep (newMachine noLeaks fl) (generateR rp (newMachine noLeaks fl) .sep d ts))) ts
      = generateR rp (newMachine noLeaks fl) .sep d ts := by
  have hout := generateR_sep fl hg rp hrp ts d h ts (List.Perm.refl _)
  have hinv := afterRun_inv fl h.wfl (generateR rp (newMachine noLeaks fl) .sep d ts) d
    (by rw [hout]; intro p hp; rw [List.mem_map] at hp; obtain ⟨t, ht, rfl⟩ := hp; exact ht) h.hyg
  exact (generateR_sep_agree fl hg rp hrp ts d _ h hinv.1 (fun i hi => (hinv.2 i hi).symm)).symm

/-! ### all-in-one mode: the earlier all-in-one file is not seen -/

theorem visibleDisk_write (rp : Repair) (hrp : rp.shadowAio = true) (n : String) (d : Disk) (f : GFile) (hf : f.name = n) :
    visibleDisk rp (.aio n) (writeFile d f) = visibleDisk rp (.aio n) d := by
  unfold visibleDisk writeFile
  simp only [hrp, ↓reduceIte, List.filter_cons, hf, ne_eq, not_true_eq_false, decide_false, Bool.false_eq_true,
    List.filter_filter]
  apply List.filter_congr
  intro g _
  by_cases hg : g.name = n <;> simp [hg]

theorem generateR_aio_fixpoint {σ : Type} (rp : Repair) (hrp : rp.shadowAio = true) (m : Machine σ NType NOut) (n : String)
    (d : Disk) (ts : List NType) :
    generateR rp m (.aio n) (afterRun d (writtenAio m n (generateR rp m (.aio n) d ts))) ts = generateR rp m (.aio n) d ts := by
  unfold generateR
  have : visibleDisk rp (.aio n) (afterRun d (writtenAio m n
      (inListOrder ts (generate m (visibleDisk rp (Mode.aio n) d) (processingOrder rp ts))))) = visibleDisk rp (.aio n) d := by
    unfold writtenAio afterRun
    split
    · rfl
    · simp only [List.foldl_cons, List.foldl_nil]
      exact visibleDisk_write rp hrp n d _ rfl
  rw [this]


/-! ### `new` without `-getset`: the run writes no accessor interface, and reads them only from files it does not write -/

/-- writing a file without interface definitions over files without interface definitions changes no look-up -/
theorem findDef_writeFile_nodefs (d : Disk) (g : GFile) (hg : g.defs = [])
    (hd : ∀ f ∈ d, f.name = g.name → f.defs = []) (i : String) : findDef (writeFile d g) i = findDef d i := by
  apply findDef_congr
  have hgi : defines i g = false := by simp [defines, hg]
  simp only [writeFile, List.filter_cons, hgi, Bool.false_eq_true, ↓reduceIte, List.filter_filter]
  apply List.filter_congr
  intro f hf
  by_cases hn : f.name = g.name
  · have : defines i f = false := by simp [defines, hd f hf hn]
    simp [this]
  · simp [hn]

theorem findDef_afterRun_nodefs : ∀ (W d : Disk), (∀ g ∈ W, g.defs = []) →
    (∀ f ∈ d, f.name ∈ W.map (·.name) → f.defs = []) → ∀ i, findDef (afterRun d W) i = findDef d i := by
  intro W
  induction W with
  | nil => intro d _ _ i; rfl
  | cons g W ih =>
    intro d hW hd i
    have hg : g.defs = [] := hW g (List.mem_cons_self ..)
    have e : afterRun d (g :: W) = afterRun (writeFile d g) W := rfl
    rw [e, ih (writeFile d g) (fun x hx => hW x (List.mem_cons_of_mem _ hx)) ?_ i,
      findDef_writeFile_nodefs d g hg (fun f hf hn => hd f hf (by simp [hn])) i]
    intro f hf hfn
    simp only [writeFile, List.mem_cons, List.mem_filter] at hf
    rcases hf with rfl | ⟨hf, _⟩
    · exact hg
    · exact hd f hf (by simp [hfn])

/-- without `-getset` no accessor interface is generated: the file of the type declares nothing that is ever read back -/
theorem newStep_nogetset_defs (lk : Leaks) (fl : NFlags) (hg : fl.getset = false) (files : Disk) (st : NSt) (t : NType) (o : NOut)
    (h : (newStep lk fl files st t).2 = some o) : (newGFile t o).defs = [] := by
  simp only [newStep, newCore, Option.some.injEq] at h
  subst h
  simp [newGFile, mkIface, hg]

/-- `new` without `-getset` at HEAD over two directories that answer every interface look-up alike: the same run -/
theorem generate_nogetset_congr (fl : NFlags) (hg : fl.getset = false) (a b : Disk) (h : ∀ i, findDef a i = findDef b i)
    (ts : List NType) : generate (newMachine noLeaks fl) a ts = generate (newMachine noLeaks fl) b ts := by
  have hind : StateIndep (newMachine noLeaks fl) := fun files s t => by
    show (newStep noLeaks fl files s t).2 = (newStep noLeaks fl files {} t).2
    rw [newStep_noLeaks]
  have hst : ∀ o, (newMachine noLeaks fl).stale o = false := fun _ => by simp [newMachine, hg]
  have e : ∀ d, generate (newMachine noLeaks fl) d ts
      = ts.filterMap (fun t => (solo (newMachine noLeaks fl) d t).map (fun o => (t, o))) := by
    intro d
    have := loop_eq_solo (newMachine noLeaks fl) hst d ts { st := (newMachine noLeaks fl).init, overlay := [], outs := [] } rfl
      (runIndep_of_stateIndep _ hind d ts _)
    simpa [generate] using this
  rw [e a, e b]
  have hs : ∀ t, solo (newMachine noLeaks fl) a t = solo (newMachine noLeaks fl) b t := by
    intro t
    show (newStep noLeaks fl a {} t).2 = (newStep noLeaks fl b {} t).2
    rw [newStep_agree noLeaks fl (fun _ => True) (fun i _ => h i) (fun _ _ _ _ _ _ => trivial) {} t (fun _ _ => ⟨trivial, trivial⟩)]
  simp only [hs]

/-- every output of such a run is the output of a step -/
theorem generate_nogetset_mem (fl : NFlags) (hg : fl.getset = false) (d : Disk) (ts : List NType) :
    ∀ p ∈ generate (newMachine noLeaks fl) d ts, (newGFile p.1 p.2).defs = [] := by
  have hind : StateIndep (newMachine noLeaks fl) := fun files s t => by
    show (newStep noLeaks fl files s t).2 = (newStep noLeaks fl files {} t).2
    rw [newStep_noLeaks]
  have hst : ∀ o, (newMachine noLeaks fl).stale o = false := fun _ => by simp [newMachine, hg]
  have e : generate (newMachine noLeaks fl) d ts
      = ts.filterMap (fun t => (solo (newMachine noLeaks fl) d t).map (fun o => (t, o))) := by
    have := loop_eq_solo (newMachine noLeaks fl) hst d ts { st := (newMachine noLeaks fl).init, overlay := [], outs := [] } rfl
      (runIndep_of_stateIndep _ hind d ts _)
    simpa [generate] using this
  intro p hp
  rw [e, List.mem_filterMap] at hp
  obtain ⟨t, _, ht⟩ := hp
  cases hs : solo (newMachine noLeaks fl) d t with
  | none => rw [hs] at ht; cases ht
  | some o =>
    rw [hs] at ht
    cases ht
    exact newStep_nogetset_defs noLeaks fl hg d {} t o hs

end ShootVerif.GenState
