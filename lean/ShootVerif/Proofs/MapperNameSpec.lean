import ShootVerif.Proofs.MapperNames
import ShootVerif.Proofs.MapperResolve
/-
The name relation of the spec against the generator's `canNameMatch`, tag map included: the spec's `specNameMatch ∘ effName`
is PROVED equal to the model's relation on plain fields (C05), and a constructor parameter / accessor is matched like the
exported twin of its field (C15). ToPascalCase yields ASCII names without underscores; Pascal-casing does not change the
camel form of a name.
-/
namespace ShootVerif.Mapper
open ShootVerif.Transfer

theorem smartMatchL_camel (a b : List Char) : smartMatchL a b = (a.length == b.length && camel a == camel b) := by
  unfold smartMatchL
  by_cases h : a = b
  · subst h; simp
  · have : (a == b) = false := by simpa using h
    rw [this, Bool.false_or]

theorem upper_upper (c : Char) (hc : c.toNat < 128) : toUpper (toUpper c) = toUpper c :=
  ascii_law (fun c => toUpper (toUpper c) = toUpper c) (by decide) c hc

theorem upper_noUS (c : Char) (hc : c.toNat < 128) : c ≠ '_' → toUpper c ≠ '_' :=
  ascii_law (fun c => c ≠ '_' → toUpper c ≠ '_') (by decide) c hc

theorem upFirst_noUS (x : List Char) (ha : Ascii x) (hn : NoUS x) : NoUS (upFirst x) := by
  cases x with
  | nil => exact hn
  | cons c cs =>
    simp only [NoUS, upFirst, List.mem_cons, not_or] at hn ⊢
    exact ⟨fun e => upper_noUS c (ha c (by simp)) (fun e' => hn.1 e'.symm) e.symm, hn.2⟩

theorem upFirst_ascii (x : List Char) (ha : Ascii x) : Ascii (upFirst x) := by
  cases x with
  | nil => exact ha
  | cons c cs =>
    intro y hy
    simp only [upFirst, List.mem_cons] at hy
    rcases hy with rfl | hy
    · exact upper_ascii c (ha c (by simp))
    · exact ha y (by simp [hy])

theorem upFirst_idem (x : List Char) (ha : Ascii x) : upFirst (upFirst x) = upFirst x := by
  cases x with
  | nil => rfl
  | cons c cs => simp [upFirst, upper_upper c (ha c (by simp))]

/-- Pascal-casing a name does not change its camel form -/
theorem camel_pascal (x : List Char) (ha : Ascii x) (hn : NoUS x) : camel (pascal x) = camel x := by
  rw [pascal_noUS x hn]
  cases x with
  | nil => rfl
  | cons c cs =>
    have h1 : pascal (upFirst (c :: cs)) = pascal (c :: cs) := by
      rw [pascal_noUS _ (upFirst_noUS _ ha hn), pascal_noUS _ hn, upFirst_idem _ ha]
    unfold camel
    rw [h1]
    simp [upFirst]

theorem pascal_length (x : List Char) (hn : NoUS x) : (pascal x).length = x.length := by
  rw [pascal_noUS x hn]; cases x <;> simp [upFirst]

theorem pascal_fold (x : List Char) (ha : Ascii x) (hn : NoUS x) : (pascal x).map toLower = x.map toLower := by
  rw [pascal_noUS x hn]
  cases x with
  | nil => rfl
  | cons c cs => simp [upFirst, lower_upper c (ha c (by simp))]

/-- matching against a name and against its Pascal-cased twin is the same -/
theorem smartMatchL_pascal (a x : List Char) (ha : Ascii x) (hn : NoUS x) :
    smartMatchL a (pascal x) = smartMatchL a x := by
  rw [smartMatchL_camel, smartMatchL_camel, camel_pascal x ha hn, pascal_length x hn]

theorem equalFoldL_pascal (a x : List Char) (ha : Ascii x) (hn : NoUS x) :
    equalFoldL a (pascal x) = equalFoldL a x := by
  unfold equalFoldL
  rw [pascal_fold x ha hn]


/-! ## ToPascalCase yields ASCII names without underscores -/

theorem splitUnderscore_pieces (s : List Char) : ∀ p ∈ splitUnderscore s, NoUS p ∧ ∀ c ∈ p, c ∈ s := by
  induction s with
  | nil => intro p hp; simp [splitUnderscore] at hp; subst hp; exact ⟨by simp [NoUS], by simp⟩
  | cons c cs ih =>
    intro p hp
    simp only [splitUnderscore] at hp
    cases hsp : splitUnderscore cs with
    | nil => rw [hsp] at hp; simp at hp; subst hp; exact ⟨by simp [NoUS], by simp⟩
    | cons q qs =>
      rw [hsp] at hp ih
      by_cases hc : c = '_'
      · simp only [hc, ↓reduceIte, List.mem_cons] at hp
        rcases hp with rfl | rfl | hp
        · exact ⟨by simp [NoUS], by simp⟩
        · have := ih p (by simp); exact ⟨this.1, fun x hx => List.mem_cons_of_mem _ (this.2 x hx)⟩
        · have := ih p (by simp [hp]); exact ⟨this.1, fun x hx => List.mem_cons_of_mem _ (this.2 x hx)⟩
      · simp only [hc, ↓reduceIte, List.mem_cons] at hp
        rcases hp with rfl | hp
        · have := ih q (by simp)
          refine ⟨?_, ?_⟩
          · simp only [NoUS, List.mem_cons, not_or]
            exact ⟨fun e => hc e.symm, this.1⟩
          · intro x hx
            rcases List.mem_cons.mp hx with rfl | hx
            · simp
            · exact List.mem_cons_of_mem _ (this.2 x hx)
        · have := ih p (by simp [hp]); exact ⟨this.1, fun x hx => List.mem_cons_of_mem _ (this.2 x hx)⟩

theorem pascal_clean (s : List Char) (ha : Ascii s) : Ascii (pascal s) ∧ NoUS (pascal s) := by
  unfold pascal
  split
  · rename_i h
    have : s = [] := by simpa using h
    subst this
    exact ⟨ha, by simp [NoUS]⟩
  · constructor
    · intro c hc
      simp only [List.mem_flatten, List.mem_map] at hc
      obtain ⟨l, ⟨p, hp, rfl⟩, hcl⟩ := hc
      have hpa : Ascii p := fun x hx => ha x ((splitUnderscore_pieces s p hp).2 x hx)
      exact upFirst_ascii p hpa c hcl
    · intro hc
      simp only [List.mem_flatten, List.mem_map] at hc
      obtain ⟨l, ⟨p, hp, rfl⟩, hcl⟩ := hc
      have hpa : Ascii p := fun x hx => ha x ((splitUnderscore_pieces s p hp).2 x hx)
      exact upFirst_noUS p hpa (splitUnderscore_pieces s p hp).1 hcl

/-! ## the spec's name relation IS the model's -/

theorem smartMatch_spec (a b : String) (ha : Ascii a.toList) (hb : Ascii b.toList) (hna : NoUS a.toList) (hnb : NoUS b.toList) :
    smartMatch a b = specNameMatch false a b := by
  unfold smartMatch specNameMatch
  simp only [Bool.false_eq_true, ↓reduceIte]
  rw [Bool.eq_iff_iff]
  simp only [Bool.or_eq_true, beq_iff_eq]
  constructor
  · intro h
    rcases sameWords_of_smartMatch _ _ ha hb hna hnb h with h1 | h1
    · exact Or.inl (String.toList_inj.mp h1)
    · exact Or.inr h1
  · rintro (rfl | h)
    · simp [smartMatchL]
    · exact smartMatch_of_sameWords _ _ ha hb hna hnb h


/-! ## the tag map -/

def tagEntry (f : FDecl) : Option (String × String) :=
  match f.tag with
  | .name x => some (pascalS f.name, pascalS x)
  | _ => none

theorem tagMap_eq (t : Tree) : tagMap t = (allDecls t).filterMap tagEntry := by
  induction t with
  | nil => rfl
  | field f rest ih =>
    simp only [tagMap, allDecls, List.filterMap_cons, ih, tagEntry]
    cases f.tag <;> simp
  | embed n p body rest ihb ihr => simp only [tagMap, allDecls, List.filterMap_append, ihb, ihr]

theorem leaf_decl (t : Tree) : ∀ (pre : List String) (d : Nat) (l : Leaf), l ∈ leavesAt pre d t → l.decl ∈ allDecls t := by
  induction t with
  | nil => intro pre d l h; cases h
  | field f rest ih =>
    intro pre d l h
    simp only [leavesAt, List.mem_cons] at h
    simp only [allDecls, List.mem_cons]
    rcases h with rfl | h
    · exact Or.inl rfl
    · exact Or.inr (ih pre d l h)
  | embed n p body rest ihb ihr =>
    intro pre d l h
    simp only [leavesAt, List.mem_append] at h
    simp only [allDecls, List.mem_append]
    rcases h with h | h
    · exact Or.inl (ihb _ _ l h)
    · exact Or.inr (ihr _ _ l h)

theorem filter_lt_two {α} (p : α → Bool) (l : List α) (h : ¬ (l.filter p).length ≥ 2) (a b : α)
    (ha : a ∈ l) (hb : b ∈ l) (hpa : p a = true) (hpb : p b = true) : a = b := by
  have ha' : a ∈ l.filter p := List.mem_filter.mpr ⟨ha, hpa⟩
  have hb' : b ∈ l.filter p := List.mem_filter.mpr ⟨hb, hpb⟩
  match hl : l.filter p with
  | [] => rw [hl] at ha'; cases ha'
  | [x] =>
    rw [hl] at ha' hb'
    simp only [List.mem_singleton] at ha' hb'
    rw [ha', hb']
  | x :: y :: r => rw [hl] at h; simp at h

/-- the tag map, read at the key of a field: its own `map:"Name"` tag (Pascal-cased), or nothing -/
theorem mapGet_tagMap (t : Tree) (h : tagAmbiguous t = false) (d : FDecl) (hd : d ∈ allDecls t) :
    mapGet (tagMap t) (pascalS d.name) = (match d.tag with | .name x => some (pascalS x) | _ => none) := by
  have hamb : ∀ f ∈ allDecls t, (match f.tag with | .name _ => true | _ => false) = true →
      ¬ ((allDecls t).filter (fun g => pascalS g.name == pascalS f.name)).length ≥ 2 := by
    intro f hf hn
    simp only [tagAmbiguous, List.any_eq_false, Bool.and_eq_true, not_and, decide_eq_true_eq] at h
    exact h f hf hn
  -- every entry under the key comes from `d` itself
  have hentry : ∀ e ∈ tagMap t, e.1 = pascalS d.name → tagEntry d = some e := by
    intro e he hk
    rw [tagMap_eq, List.mem_filterMap] at he
    obtain ⟨f, hf, hfe⟩ := he
    have hfn : (match f.tag with | .name _ => true | _ => false) = true := by
      unfold tagEntry at hfe; cases hft : f.tag <;> simp [hft] at hfe ⊢
    have hkey : pascalS f.name = pascalS d.name := by
      unfold tagEntry at hfe
      cases hft : f.tag <;> simp [hft] at hfe
      rw [← hk, ← hfe]
    have : f = d := filter_lt_two _ _ (hamb f hf hfn) f d hf hd (by simp) (by simp [hkey])
    rw [← this]; exact hfe
  unfold mapGet
  cases hfind : (tagMap t).reverse.find? (fun e => e.1 == pascalS d.name) with
  | some e =>
    have hm := List.mem_of_find?_eq_some hfind
    have hk : e.1 = pascalS d.name := by simpa using List.find?_some hfind
    have := hentry e (List.mem_reverse.mp hm) hk
    unfold tagEntry at this
    cases hdt : d.tag <;> simp [hdt] at this ⊢
    rw [← this]
  | none =>
    simp only [Option.map_none]
    cases hdt : d.tag with
    | none => rfl
    | skip => rfl
    | name x =>
      exfalso
      have hmem : (pascalS d.name, pascalS x) ∈ tagMap t := by
        rw [tagMap_eq, List.mem_filterMap]
        exact ⟨d, hd, by simp [tagEntry, hdt]⟩
      have := List.find?_eq_none.mp hfind _ (List.mem_reverse.mpr hmem)
      simp at this

def asciiS (s : String) : Bool := s.toList.all (fun c => c.toNat < 128)

theorem asciiS_iff (s : String) : asciiS s = true ↔ Ascii s.toList := by
  simp [asciiS, Ascii]

theorem noUnderscore_iff (s : String) : noUnderscore s = true ↔ NoUS s.toList := by
  simp [noUnderscore, NoUS]

/-- the name a source leaf is matched under is ASCII and has no underscore: its Pascal-cased tag, or its own name -/
theorem effName_clean (s : Leaf) (ha : asciiS s.decl.name = true)
    (hta : ∀ x, s.decl.tag = .name x → asciiS x = true)
    (hn : (match s.decl.tag with | .name _ => true | _ => noUnderscore s.decl.name) = true) :
    Ascii (effName false s).toList ∧ NoUS (effName false s).toList := by
  unfold effName
  cases ht : s.decl.tag with
  | name x =>
    simp only [pascalS, String.toList_ofList]
    exact pascal_clean _ ((asciiS_iff x).mp (hta x ht))
  | none =>
    simp only [twinName, Bool.false_and, Bool.false_eq_true, ↓reduceIte]
    rw [ht] at hn
    exact ⟨(asciiS_iff _).mp ha, (noUnderscore_iff _).mp hn⟩
  | skip =>
    simp only [twinName, Bool.false_and, Bool.false_eq_true, ↓reduceIte]
    rw [ht] at hn
    exact ⟨(asciiS_iff _).mp ha, (noUnderscore_iff _).mp hn⟩

/-- the generator's `canNameMatch` on two plain fields is the property's name relation on the two leaves: the source name
    replaced by its `map:"Name"` tag, then identical / equal up to acronym casing (`sameWords`), or equal ignoring case with -i -/
theorem nm_spec (inp : Input) (hta : tagAmbiguous inp.src = false) (s d : Leaf) (hs : s ∈ leavesOf inp.src)
    (hsa : Ascii (effName false s).toList) (hsn : NoUS (effName false s).toList)
    (hda : Ascii d.decl.name.toList) (hdn : NoUS d.decl.name.toList) :
    inp.nm (fieldOf s) (fieldOf d) = specNameMatch inp.ic (effName false s) (twinName false d.decl.name) := by
  have hget := mapGet_tagMap inp.src hta s.decl (leaf_decl inp.src [] 0 s hs)
  have hm1 : (mapGet (tagMap inp.src) (pascalS s.decl.name)).getD s.decl.name = effName false s := by
    rw [hget]; unfold effName twinName
    cases s.decl.tag <;> simp
  unfold Input.nm canNameMatch
  simp only [fieldOf, Bool.false_and, Bool.false_eq_true, ↓reduceIte, Field.matchingName, ne_eq, not_true_eq_false]
  rw [hm1]
  simp only [twinName, Bool.false_and, Bool.false_eq_true, ↓reduceIte]
  cases hic : inp.ic
  · simp only [Bool.false_eq_true, ↓reduceIte]
    exact smartMatch_spec _ _ hsa hda hsn hdn
  · simp [specNameMatch]


/-- a constructor parameter (matched under the raw name of its unexported field) is matched like the exported twin of
    that field -/
theorem param_names (tm : List (String × String)) (ic : Bool) (n : String) (ty : Ty) (path : List String) (o : Field)
    (hn : n ≠ "") (ha : Ascii n.toList) (hu : NoUS n.toList) (hos : o.isSet = false) :
    canNameMatch tm ic o { name := "Set" ++ pascalS n, path := path, ty := ty, backing := n } =
      canNameMatch tm ic o { name := pascalS n, path := [pascalS n], ty := ty } := by
  simp only [canNameMatch, Bool.and_false, Bool.false_eq_true, ↓reduceIte, hos, Field.matchingName, ne_eq, hn,
    not_false_eq_true, not_true_eq_false]
  cases ic
  · simp only [Bool.false_eq_true, ↓reduceIte, smartMatch, pascalS, String.toList_ofList]
    rw [smartMatchL_pascal _ _ ha hu]
  · simp only [↓reduceIte, equalFold, pascalS, String.toList_ofList]
    rw [equalFoldL_pascal _ _ ha hu]

end ShootVerif.Mapper
