import ShootVerif.Spec.Cli
/-! helper lemmas for C16 (property theorems are in Props/C16.lean) -/
set_option linter.unusedSimpArgs false
set_option linter.unusedVariables false
namespace ShootVerif.Cli

/-! ### walking the syntax without function-local types -/

theorem declsTSpecs_eq_top (ds : List Decl) (h : noLocals ds = true) : declsTSpecs ds = topSpecs ds := by
  induction ds with
  | nil => rfl
  | cons d r ih =>
    cases d with
    | types ss => simp [declsTSpecs, topSpecs, Decl.tspecs, noLocals] at *; exact ih h
    | consts ss => simp [declsTSpecs, topSpecs, Decl.tspecs, noLocals] at *; exact ih h
    | func tps ls =>
      simp [declsTSpecs, topSpecs, Decl.tspecs, noLocals] at *
      rw [h.1]; simpa using ih h.2
    | other => simp [declsTSpecs, topSpecs, Decl.tspecs, noLocals] at *; exact ih h

theorem allTSpecs_eq (pkg : Pkg) (h : ∀ f ∈ pkg, noLocals f.decls = true) :
    allTSpecs pkg = (declared pkg).map (·.2) := by
  induction pkg with
  | nil => rfl
  | cons f r ih =>
    simp only [allTSpecs, declared, List.map_append, List.map_map, File.tspecs]
    rw [declsTSpecs_eq_top _ (h f (by simp)), ih (fun g hg => h g (by simp [hg]))]
    simp [Function.comp_def]

theorem allTop_eq (pkg : Pkg) (h : ∀ f ∈ pkg, noLocals f.decls = true) : allTop pkg = allTSpecs pkg := by
  induction pkg with
  | nil => rfl
  | cons f r ih =>
    simp only [allTop, allTSpecs, File.tspecs]
    rw [declsTSpecs_eq_top _ (h f (by simp)), ih (fun g hg => h g (by simp [hg]))]

theorem namedTop_eq (pkg : Pkg) (h : ∀ f ∈ pkg, noLocals f.decls = true) (n : String) : namedTop pkg n = namedSpecs pkg n := by
  unfold namedTop namedSpecs
  rw [allTop_eq pkg h]

theorem testedTop_eq (file : String) (pkg : Pkg) (h : ∀ f ∈ pkg, noLocals f.decls = true) :
    testedTop file pkg = testedSpecs file pkg := by
  induction pkg with
  | nil => rfl
  | cons f r ih =>
    simp only [testedTop, testedSpecs, File.tspecs]
    rw [declsTSpecs_eq_top _ (h f (by simp)), ih (fun g hg => h g (by simp [hg]))]

/-- TestFile over the declarations of the package -/
def inFileB (file : String) (ft : String × TSpec) : Bool := file == "" || ft.1 == file

theorem testedSpecs_eq (file : String) (pkg : Pkg) (h : ∀ f ∈ pkg, noLocals f.decls = true) :
    testedSpecs file pkg = ((declared pkg).filter (inFileB file)).map (·.2) := by
  induction pkg with
  | nil => rfl
  | cons f r ih =>
    simp only [testedSpecs, declared, List.filter_append, List.map_append, File.tspecs]
    rw [declsTSpecs_eq_top _ (h f (by simp)), ih (fun g hg => h g (by simp [hg]))]
    congr 1
    by_cases hc : (file == "" || f.name == file) = true
    · simp only [hc, ↓reduceIte]
      rw [List.filter_eq_self.mpr]
      · simp [Function.comp_def]
      · intro a ha
        simp only [List.mem_map] at ha
        obtain ⟨t, _, rfl⟩ := ha
        simpa [inFileB] using hc
    · simp only [hc]
      rw [List.filter_eq_nil_iff.mpr]
      · simp
      · intro a ha
        simp only [List.mem_map] at ha
        obtain ⟨t, _, rfl⟩ := ha
        simpa [inFileB] using hc

/-! ### lookups in a list with distinct names -/

theorem filter_name_eq_singleton (l : List TSpec) (t : TSpec) (hn : (l.map (·.name)).Nodup) (ht : t ∈ l) :
    l.filter (·.name == t.name) = [t] := by
  induction l with
  | nil => cases ht
  | cons a r ih =>
    simp only [List.map_cons, List.nodup_cons] at hn
    rcases List.mem_cons.mp ht with rfl | htr
    · have : r.filter (·.name == t.name) = [] := by
        rw [List.filter_eq_nil_iff]
        intro b hb hbn
        apply hn.1
        simp only [beq_iff_eq] at hbn
        rw [← hbn]; exact List.mem_map_of_mem hb
      simp [this]
    · have hne : (a.name == t.name) = false := by
        simp only [beq_eq_false_iff_ne, ne_eq]
        intro he; apply hn.1; rw [he]; exact List.mem_map_of_mem htr
      simp [hne, ih hn.2 htr]

theorem filter_name_eq_nil (l : List TSpec) (n : String) (h : ∀ t ∈ l, t.name ≠ n) :
    l.filter (·.name == n) = [] := by
  rw [List.filter_eq_nil_iff]; intro t ht; simpa using h t ht


theorem inj_of_nodup_map {α β : Type} (f : α → β) (l : List α) (h : (l.map f).Nodup) :
    ∀ a ∈ l, ∀ b ∈ l, f a = f b → a = b := by
  induction l with
  | nil => intro a ha; cases ha
  | cons x r ih =>
    simp only [List.map_cons, List.nodup_cons] at h
    intro a ha b hb hab
    rcases List.mem_cons.mp ha with rfl | har <;> rcases List.mem_cons.mp hb with rfl | hbr
    · rfl
    · exact absurd (hab ▸ List.mem_map_of_mem hbr) h.1
    · exact absurd (hab ▸ List.mem_map_of_mem har) h.1
    · exact ih h.2 a har b hbr hab

theorem nodup_map_of_inj_on {α β : Type} (f : α → β) (l : List α) (hnd : l.Nodup)
    (hinj : ∀ a ∈ l, ∀ b ∈ l, f a = f b → a = b) : (l.map f).Nodup := by
  induction l with
  | nil => simp
  | cons x r ih =>
    simp only [List.nodup_cons] at hnd
    simp only [List.map_cons, List.nodup_cons, List.mem_map, not_exists, not_and]
    refine ⟨?_, ih hnd.2 (fun a ha b hb => hinj a (by simp [ha]) b (by simp [hb]))⟩
    intro y hy hxy
    have := hinj y (by simp [hy]) x (by simp) hxy
    exact hnd.1 (this ▸ hy)

/-! ### what `validPkg` gives -/

structure ValidFacts (pkg : Pkg) : Prop where
  files : (pkg.map File.name).Nodup
  names : ((declared pkg).map (·.2.name)).Nodup
  comps : (((declared pkg).map (·.2.name)).map comp).Nodup
  noLoc : ∀ f ∈ pkg, noLocals f.decls = true
  cval : ∀ f ∈ pkg, constsValid f.decls = true
  go : ∀ f ∈ pkg, endsGo f.name = true
  ctypes : constTypesOK pkg = true
  nonEmpty : ∀ ft ∈ declared pkg, ft.2.name ≠ ""

theorem validFacts {pkg : Pkg} (h : validPkg pkg = true) : ValidFacts pkg := by
  simp only [validPkg, Bool.and_eq_true, decide_eq_true_eq, List.all_eq_true] at h
  obtain ⟨⟨⟨⟨⟨h1, h2⟩, h3⟩, h4⟩, h6⟩, h7⟩ := h
  refine ⟨h1, h2, h3, fun f hf => (h4 f hf).1.1, fun f hf => (h4 f hf).1.2, fun f hf => (h4 f hf).2, h6, ?_⟩
  intro ft hft he
  simp only [Bool.not_eq_true', List.contains_eq_mem, List.mem_map, decide_eq_false_iff_not, not_exists, not_and] at h7
  exact h7 ft hft he

theorem findDecl_some {pkg : Pkg} {n f : String} {t : TSpec} (h : findDecl pkg n = some (f, t)) :
    (f, t) ∈ declared pkg ∧ t.name = n := by
  unfold findDecl at h
  exact ⟨List.mem_of_find?_eq_some h, by simpa using List.find?_some h⟩

theorem findDecl_none {pkg : Pkg} {n : String} (h : findDecl pkg n = none) :
    ∀ ft ∈ declared pkg, ft.2.name ≠ n := by
  unfold findDecl at h
  intro ft hft
  simpa using (List.find?_eq_none.mp h) ft hft

theorem findDecl_of_mem {pkg : Pkg} (v : ValidFacts pkg) {f : String} {t : TSpec} (h : (f, t) ∈ declared pkg) :
    findDecl pkg t.name = some (f, t) := by
  cases hd : findDecl pkg t.name with
  | none => exact absurd rfl (findDecl_none hd (f, t) h)
  | some ft =>
    obtain ⟨g, u⟩ := ft
    obtain ⟨hm, hn⟩ := findDecl_some hd
    have := inj_of_nodup_map (fun ft : String × TSpec => ft.2.name) _ v.names _ hm _ h hn
    rw [this]

theorem namedSpecs_of_mem {pkg : Pkg} (v : ValidFacts pkg) {f : String} {t : TSpec} (h : (f, t) ∈ declared pkg) :
    namedSpecs pkg t.name = [t] := by
  unfold namedSpecs
  rw [allTSpecs_eq pkg v.noLoc]
  apply filter_name_eq_singleton
  · simpa [List.map_map, Function.comp_def] using v.names
  · exact List.mem_map_of_mem (f := (·.2)) h

theorem namedSpecs_of_none {pkg : Pkg} (v : ValidFacts pkg) {n : String} (h : findDecl pkg n = none) :
    namedSpecs pkg n = [] := by
  unfold namedSpecs
  rw [allTSpecs_eq pkg v.noLoc]
  apply filter_name_eq_nil
  intro t ht
  simp only [List.mem_map] at ht
  obtain ⟨ft, hft, rfl⟩ := ht
  exact findDecl_none h ft hft


/-! ### enum: the carried type of makeStr is Go's implicit repetition -/

theorem carry_eq_goTyped (n : String) (ss : List CSpec) (h : ss.all (fun s => s.typ.isNone || s.hasValues) = true) :
    ∀ p, carry n p ss = goTyped n p ss := by
  induction ss with
  | nil => intro p; rfl
  | cons s r ih =>
    intro p
    simp only [List.all_cons, Bool.and_eq_true] at h
    cases ht : s.typ with
    | none =>
      cases hv : s.hasValues <;> simp [carry, goTyped, ht, hv, ih h.2]
    | some t =>
      have hv : s.hasValues = true := by simpa [ht] using h.1
      simp only [carry, goTyped, ht, hv, ih h.2, ↓reduceIte]
      by_cases htn : t = n <;> simp [htn]

theorem declsConsts_eq (n : String) (ds : List Decl) (h : constsValid ds = true) :
    declsConsts n ds = goConstsDecls n ds := by
  induction ds with
  | nil => rfl
  | cons d r ih =>
    cases d with
    | consts ss =>
      simp only [constsValid, Bool.and_eq_true] at h
      simp [declsConsts, goConstsDecls, carry_eq_goTyped n ss h.1, ih h.2]
    | types ss => simpa [declsConsts, goConstsDecls, constsValid] using ih h
    | func a b => simpa [declsConsts, goConstsDecls, constsValid] using ih h
    | other => simpa [declsConsts, goConstsDecls, constsValid] using ih h

theorem constsOf_eq (n : String) (pkg : Pkg) (h : ∀ f ∈ pkg, constsValid f.decls = true) :
    constsOf n pkg = goConsts n pkg := by
  induction pkg with
  | nil => rfl
  | cons f r ih =>
    simp [constsOf, goConsts, declsConsts_eq n _ (h f (by simp)), ih (fun g hg => h g (by simp [hg]))]

theorem goTyped_nil (n : String) (ss : List CSpec) (h : ∀ s ∈ ss, s.typ ≠ some n) :
    ∀ p, p ≠ some n → goTyped n p ss = [] := by
  induction ss with
  | nil => intro p _; rfl
  | cons s r ih =>
    intro p hp
    have hs := h s (by simp)
    have hr : ∀ x ∈ r, x.typ ≠ some n := fun x hx => h x (by simp [hx])
    by_cases hv : s.hasValues = true
    · simp [goTyped, hv, hs, ih hr _ hs]
    · simp [goTyped, hv, hp, ih hr _ hp]

theorem goConstsDecls_nil (n : String) (ds : List Decl) (h : n ∉ constTypes ds) : goConstsDecls n ds = [] := by
  induction ds with
  | nil => rfl
  | cons d r ih =>
    cases d with
    | consts ss =>
      simp only [constTypes, List.mem_append, List.mem_filterMap, not_or, not_exists, not_and] at h
      simp only [goConstsDecls, ih h.2, List.append_nil]
      apply goTyped_nil n ss _ none (by simp)
      intro s hs he
      exact h.1 s hs he
    | types ss => simpa [goConstsDecls, constTypes] using ih (by simpa [constTypes] using h)
    | func a b => simpa [goConstsDecls, constTypes] using ih (by simpa [constTypes] using h)
    | other => simpa [goConstsDecls, constTypes] using ih (by simpa [constTypes] using h)

theorem goConsts_nil (n : String) (pkg : Pkg) (h : ∀ f ∈ pkg, n ∉ constTypes f.decls) : goConsts n pkg = [] := by
  induction pkg with
  | nil => rfl
  | cons f r ih =>
    simp [goConsts, goConstsDecls_nil n _ (h f (by simp)), ih (fun g hg => h g (by simp [hg]))]

/-- a type that has constants is declared with a basic underlying type -/
theorem under_of_goConsts {pkg : Pkg} (v : ValidFacts pkg) {n : String} (h : goConsts n pkg ≠ []) :
    ∃ f t, findDecl pkg n = some (f, t) ∧ t.under.isSome = true := by
  have : ∃ f ∈ pkg, n ∈ constTypes f.decls := by
    by_cases hc : ∃ f ∈ pkg, n ∈ constTypes f.decls
    · exact hc
    · exact absurd (goConsts_nil n pkg (fun f hf hn => hc ⟨f, hf, hn⟩)) h
  obtain ⟨f, hf, hn⟩ := this
  have hc := v.ctypes
  simp only [constTypesOK, List.all_eq_true] at hc
  have := hc f hf n hn
  unfold findDecl
  cases hd : (declared pkg).find? (·.2.name == n) with
  | none => simp [hd] at this
  | some ft => obtain ⟨g, t⟩ := ft; simp only [hd] at this; exact ⟨g, t, rfl, this⟩


/-! ### MakeData on a valid package -/

theorem makeData_new_decl {pkg : Pkg} (v : ValidFacts pkg) {f : String} {t : TSpec} (h : (f, t) ∈ declared pkg) (sp : Bool) :
    makeData .new pkg sp t.name = if t.shape == .struct && !underscore t.name then .ok true else .error .fatal := by
  simp only [makeData, namedTop_eq pkg v.noLoc, namedSpecs_of_mem v h]
  by_cases hs : t.shape = .struct <;> by_cases hu : underscore t.name = true <;> simp [hs, hu, pure, Except.pure, throw, throwThe, MonadExceptOf.throw]

theorem makeData_new_none {pkg : Pkg} (v : ValidFacts pkg) {n : String} (h : findDecl pkg n = none) (sp : Bool) :
    makeData .new pkg sp n = .error .fatal := by
  simp [makeData, namedTop_eq pkg v.noLoc, namedSpecs_of_none v h, throw, throwThe, MonadExceptOf.throw]

theorem makeData_map_decl {pkg : Pkg} (v : ValidFacts pkg) {f : String} {t : TSpec} (h : (f, t) ∈ declared pkg) (sp : Bool) :
    makeData .map pkg sp t.name =
      if t.shape == .struct then (if t.hasDest then .ok true else if sp then .error .fatal else .ok false) else .error .fatal := by
  simp only [makeData, namedSpecs_of_mem v h]
  by_cases hs : t.shape = .struct
  · simp only [List.find?, hs, beq_self_eq_true, ↓reduceIte]
    cases t.hasDest <;> cases sp <;> simp [pure, Except.pure, throw, throwThe, MonadExceptOf.throw]
  · have : (t.shape == Shape.struct) = false := by simpa using hs
    simp [List.find?, this, throw, throwThe, MonadExceptOf.throw]

theorem makeData_map_none {pkg : Pkg} (v : ValidFacts pkg) {n : String} (h : findDecl pkg n = none) (sp : Bool) :
    makeData .map pkg sp n = .error .fatal := by
  simp [makeData, namedSpecs_of_none v h, throw, throwThe, MonadExceptOf.throw]

def restListed (t : TSpec) : Bool := match t.shape with | .iface es => hasRestClient es | _ => false

theorem ifaceTest_eq (es : List Embed) : ifaceTest es = hasRestClient es := by
  induction es with
  | nil => rfl
  | cons e r ih => cases e <;> simp_all [ifaceTest, hasRestClient]

theorem makeData_rest_decl {pkg : Pkg} (v : ValidFacts pkg) {f : String} {t : TSpec} (h : (f, t) ∈ declared pkg) (sp : Bool) :
    makeData .rest pkg sp t.name = if restListed t then .ok true else .error .fatal := by
  simp only [makeData, namedSpecs_of_mem v h]
  cases hs : t.shape with
  | iface es =>
    cases hrc : hasRestClient es <;>
      simp [restHas, restListed, hs, ifaceTest_eq, hrc, pure, Except.pure, throw, throwThe, MonadExceptOf.throw]
  | struct => simp [restHas, restListed, hs, throw, throwThe, MonadExceptOf.throw]
  | other => simp [restHas, restListed, hs, throw, throwThe, MonadExceptOf.throw]

theorem makeData_rest_none {pkg : Pkg} (v : ValidFacts pkg) {n : String} (h : findDecl pkg n = none) (sp : Bool) :
    makeData .rest pkg sp n = .error .fatal := by
  simp [makeData, namedSpecs_of_none v h, restHas, throw, throwThe, MonadExceptOf.throw]

theorem makeData_enum_decl {pkg : Pkg} (v : ValidFacts pkg) {f : String} {t : TSpec} (h : (f, t) ∈ declared pkg) (sp : Bool) :
    makeData .enum pkg sp t.name =
      if t.alias then .error .fatal else if (goConsts t.name pkg).isEmpty then .ok false
      else if nonIntUnder t then .error .fatal else .ok true := by
  simp only [makeData, namedTop_eq pkg v.noLoc, namedSpecs_of_mem v h, constsOf_eq _ _ v.cval]
  cases ha : t.alias <;> cases hc : (goConsts t.name pkg).isEmpty <;> cases hn : nonIntUnder t <;>
    simp [ha, hc, hn, pure, Except.pure, throw, throwThe, MonadExceptOf.throw]

theorem makeData_enum_none {pkg : Pkg} (v : ValidFacts pkg) {n : String} (h : findDecl pkg n = none) (sp : Bool) :
    makeData .enum pkg sp n = .ok false := by
  have hc : goConsts n pkg = [] := by
    cases hg : goConsts n pkg with
    | nil => rfl
    | cons a r =>
      obtain ⟨f, t, hd, _⟩ := under_of_goConsts v (n := n) (by simp [hg])
      simp [h] at hd
  simp [makeData, namedTop_eq pkg v.noLoc, namedSpecs_of_none v h, constsOf_eq _ _ v.cval, hc, pure, Except.pure]


/-! ### the Generate loop -/

theorem keep_ok (cmd : Cmd) (pkg : Pkg) (sp : Bool) (p : String → Bool) (l : List String)
    (h : ∀ n ∈ l, makeData cmd pkg sp n = .ok (p n)) : keep cmd pkg sp l = .ok (l.filter p) := by
  induction l with
  | nil => rfl
  | cons n r ih =>
    simp only [keep, h n (by simp), ih (fun m hm => h m (by simp [hm])), List.filter_cons]

theorem keep_fatal (cmd : Cmd) (pkg : Pkg) (sp : Bool) (l : List String)
    (hall : ∀ n ∈ l, ∀ e, makeData cmd pkg sp n = .error e → e = .fatal)
    (hex : ∃ n ∈ l, makeData cmd pkg sp n = .error .fatal) : keep cmd pkg sp l = .error .fatal := by
  induction l with
  | nil => obtain ⟨n, hn, _⟩ := hex; cases hn
  | cons n r ih =>
    simp only [keep]
    cases hm : makeData cmd pkg sp n with
    | error e => simp [hall n (by simp) e hm]
    | ok b =>
      have hex' : ∃ m ∈ r, makeData cmd pkg sp m = .error .fatal := by
        obtain ⟨m, hmem, he⟩ := hex
        rcases List.mem_cons.mp hmem with rfl | hr
        · rw [hm] at he; cases he
        · exact ⟨m, hr, he⟩
      simp [ih (fun m hm' => hall m (by simp [hm'])) hex']

theorem mainLoop_eq (m : List (OutName × List String)) : mainLoop m = (m, m.map (·.1)) := by
  induction m with
  | nil => rfl
  | cons a r ih => obtain ⟨k, v⟩ := a; simp [mainLoop, ih]

theorem upsert_new (m : List (OutName × List String)) (k : OutName) (v : List String) (h : k ∉ m.map (·.1)) :
    upsert m k v = m ++ [(k, v)] := by
  induction m with
  | nil => rfl
  | cons a r ih =>
    obtain ⟨k', v'⟩ := a
    simp only [List.map_cons, List.mem_cons, not_or] at h
    have : (k' == k) = false := by simpa using fun e => h.1 e.symm
    simp [upsert, this, ih h.2]

theorem upserts_nodup (l m : List (OutName × List String)) (h : ((m ++ l).map (·.1)).Nodup) :
    upserts m l = m ++ l := by
  induction l generalizing m with
  | nil => simp [upserts]
  | cons a r ih =>
    obtain ⟨k, v⟩ := a
    have hk : k ∉ m.map (·.1) := by
      intro hm
      simp only [List.map_append, List.map_cons] at h
      rw [List.nodup_append] at h
      exact h.2.2 k hm k (by simp) rfl
    simp only [upserts, upsert_new m k v hk]
    rw [ih (m ++ [(k, v)]) (by simpa using h)]
    simp

/-! ### LoadPackage's lookup is "the first file carrying the directive" -/

theorem commentsMatch_eq (c : String) (cs : List String) : commentsMatch c cs = cs.any (isDirective c) := by
  induction cs with
  | nil => rfl
  | cons x r ih => by_cases hx : isDirective c x = true <;> simp [commentsMatch, hx, ih]

theorem findAllInOne_eq (c : String) (pkg : Pkg) :
    findAllInOne c pkg = ((pkg.find? (fun f => f.comments.any (isDirective c))).map (·.name)).getD "" := by
  induction pkg with
  | nil => rfl
  | cons f r ih =>
    by_cases hf : f.comments.any (isDirective c) = true
    · simp [findAllInOne, commentsMatch_eq, hf, List.find?]
    · simp only [findAllInOne, commentsMatch_eq, hf, List.find?, ih]
      simp


/-! ### ListTypes followed by the Generate loop = the eligible declarations -/

def nameOf (ft : String × TSpec) : String := ft.2.name

theorem produced_of (cmd : Cmd) (pkg : Pkg) (v : ValidFacts pkg) (file : String) (listed q : TSpec → Bool)
    (hm : ∀ ft ∈ declared pkg, listed ft.2 = true → makeData cmd pkg false ft.2.name = .ok (q ft.2))
    (he : ∀ ft ∈ declared pkg, eligible cmd pkg ft.2 = (listed ft.2 && q ft.2)) :
    keep cmd pkg false ((((declared pkg).filter (inFileB file)).filter (fun ft => listed ft.2)).map nameOf)
      = .ok (((declared pkg).filter (fun ft => inFileB file ft && eligible cmd pkg ft.2)).map nameOf) := by
  let p : String → Bool := fun n => match findDecl pkg n with | some (_, t) => q t | none => false
  have hp : ∀ ft ∈ declared pkg, p ft.2.name = q ft.2 := by
    intro ft hft
    obtain ⟨f, t⟩ := ft
    simp only [p, findDecl_of_mem v hft]
  rw [keep_ok cmd pkg false p]
  · congr 1
    rw [List.filter_map, List.filter_filter, List.filter_filter]
    congr 1
    apply List.filter_congr
    intro ft hft
    simp only [Function.comp_def, nameOf, hp ft hft, he ft hft]
    cases inFileB file ft <;> cases listed ft.2 <;> cases q ft.2 <;> rfl
  · intro n hn
    simp only [List.mem_map, List.mem_filter] at hn
    obtain ⟨ft, ⟨⟨hft, _⟩, hl⟩, rfl⟩ := hn
    simp only [nameOf, hp ft hft]
    exact hm ft hft hl

theorem listNew_eq (l : List (String × TSpec)) :
    listNew (l.map (·.2)) = (l.filter (fun ft => !underscore ft.2.name && ft.2.shape == .struct)).map nameOf := by
  induction l with
  | nil => rfl
  | cons a r ih =>
    by_cases h : (!underscore a.2.name && a.2.shape == .struct) = true
    · simp [listNew, h, ih, nameOf]
    · simp only [Bool.not_eq_true] at h
      simp [listNew, h, ih]

theorem listMap_eq (l : List (String × TSpec)) :
    listMap (l.map (·.2)) = (l.filter (fun ft => ft.2.shape == .struct && exported ft.2.name)).map nameOf := by
  induction l with
  | nil => rfl
  | cons a r ih =>
    by_cases h : (a.2.shape == .struct && exported a.2.name) = true
    · simp [listMap, h, ih, nameOf]
    · simp only [Bool.not_eq_true] at h
      simp [listMap, h, ih]

def enumListed (t : TSpec) : Bool := (match t.under with | some k => k.listed | none => false) && !t.alias

theorem listEnum_cons (t : TSpec) (r : List TSpec) :
    listEnum (t :: r) = if enumListed t then t.name :: listEnum r else listEnum r := by
  obtain ⟨name, shape, al, under, tps, hd⟩ := t
  cases under with
  | none => simp [listEnum, enumListed]
  | some k => cases hk : k.listed <;> cases al <;> simp [listEnum, enumListed, hk]

theorem listEnum_eq (l : List (String × TSpec)) :
    listEnum (l.map (·.2)) = (l.filter (fun ft => enumListed ft.2)).map nameOf := by
  induction l with
  | nil => rfl
  | cons a r ih =>
    rw [List.map_cons, listEnum_cons]
    by_cases h : enumListed a.2 = true
    · simp [h, ih, nameOf]
    · simp only [Bool.not_eq_true] at h
      simp [h, ih]

theorem listRest_eq (l : List (String × TSpec)) :
    listRest (l.map (·.2)) = (l.filter (fun ft => restListed ft.2)).map nameOf := by
  induction l with
  | nil => rfl
  | cons a r ih =>
    obtain ⟨f, ⟨name, shape, al, under, tps, hd⟩⟩ := a
    cases shape with
    | iface es =>
      cases hrc : hasRestClient es <;> simp [listRest, restListed, ifaceTest_eq, hrc, ih, nameOf]
    | struct => simp [listRest, restListed, ih]
    | other => simp [listRest, restListed, ih]

theorem integer_of_listed (k : BKind) (h : k.listed = true) : k.integer = true := by cases k <;> simp_all [BKind.listed, BKind.integer]

/-- file / star mode: the types for which a source is produced are the eligible declarations (of the file) -/
theorem listed_produced (cmd : Cmd) (pkg : Pkg) (v : ValidFacts pkg) (file : String) :
    ∃ L, listTypes cmd pkg file = .ok L ∧
      keep cmd pkg false L = .ok (((declared pkg).filter (fun ft => inFileB file ft && eligible cmd pkg ft.2)).map nameOf) := by
  cases cmd with
  | new =>
    refine ⟨_, by simp only [listTypes, testedTop_eq file pkg v.noLoc, testedSpecs_eq file pkg v.noLoc, listNew_eq]; rfl, ?_⟩
    apply produced_of .new pkg v file (fun t => !underscore t.name && t.shape == .struct) (fun _ => true)
    · intro ft hft hl
      obtain ⟨f, t⟩ := ft
      simp only [Bool.and_eq_true, Bool.not_eq_true', beq_iff_eq] at hl
      simp [makeData_new_decl v hft, hl.1, hl.2]
    · intro ft _; simp [eligible, Bool.and_comm]
  | map =>
    refine ⟨_, by simp only [listTypes, testedSpecs_eq file pkg v.noLoc, listMap_eq]; rfl, ?_⟩
    apply produced_of .map pkg v file (fun t => t.shape == .struct && exported t.name) (fun t => t.hasDest)
    · intro ft hft hl
      obtain ⟨f, t⟩ := ft
      simp only [Bool.and_eq_true, beq_iff_eq] at hl
      simp only [makeData_map_decl v hft, hl.1, beq_self_eq_true, ↓reduceIte]
      cases t.hasDest <;> simp
    · intro ft _; simp [eligible]
  | rest =>
    refine ⟨_, by simp only [listTypes, testedSpecs_eq file pkg v.noLoc, listRest_eq]; rfl, ?_⟩
    · apply produced_of .rest pkg v file restListed (fun _ => true)
      · intro ft hft hl
        obtain ⟨f, t⟩ := ft
        simp [makeData_rest_decl v hft, hl]
      · intro ft _
        obtain ⟨f, ⟨name, shape, al, under, tps, hd⟩⟩ := ft
        cases shape <;> simp [eligible, restListed]
  | enum =>
    refine ⟨_, by simp only [listTypes, testedSpecs_eq file pkg v.noLoc, listEnum_eq]; rfl, ?_⟩
    apply produced_of .enum pkg v file enumListed (fun t => !(goConsts t.name pkg).isEmpty)
    · intro ft hft hl
      obtain ⟨f, t⟩ := ft
      simp only [enumListed, Bool.and_eq_true, Bool.not_eq_true'] at hl
      have hni : nonIntUnder t = false := by
        unfold nonIntUnder
        cases hu : t.under with
        | none => rfl
        | some k => simp only [hu] at hl; simp [integer_of_listed k hl.1]
      simp only [makeData_enum_decl v hft, hl.2, hni]
      cases (goConsts t.name pkg).isEmpty <;> simp
    · intro ft _
      obtain ⟨f, ⟨name, shape, al, under, tps, hd⟩⟩ := ft
      cases under with
      | none => cases al <;> simp [eligible, enumListed]
      | some k => cases al <;> cases k.listed <;> simp [eligible, enumListed]


/-! ### confirmTypes -/

theorem getGoFile_eq (pkg : Pkg) (n : String) : getGoFile n pkg = (fileOf pkg n).getD "" := by
  unfold fileOf findDecl
  induction pkg with
  | nil => rfl
  | cons f r ih =>
    simp only [getGoFile, declared, List.find?_append]
    by_cases h : (topSpecs f.decls).any (·.name == n) = true
    · simp only [h, ↓reduceIte]
      obtain ⟨t, ht, htn⟩ := List.any_eq_true.mp h
      cases hf : List.find? (fun x : String × TSpec => x.2.name == n) ((topSpecs f.decls).map (fun t => (f.name, t))) with
      | none =>
        have := List.find?_eq_none.mp hf (f.name, t) (List.mem_map_of_mem ht)
        simp [htn] at this
      | some ft =>
        have hm := List.mem_of_find?_eq_some hf
        simp only [List.mem_map] at hm
        obtain ⟨u, _, rfl⟩ := hm
        simp
    · have hnone : List.find? (fun x : String × TSpec => x.2.name == n) ((topSpecs f.decls).map (fun t => (f.name, t))) = none := by
        rw [List.find?_eq_none]
        intro ft hft
        simp only [List.mem_map] at hft
        obtain ⟨u, hu, rfl⟩ := hft
        intro hc
        exact h (List.any_eq_true.mpr ⟨u, hu, hc⟩)
      simp only [h, Bool.false_eq_true, ↓reduceIte, hnone, Option.none_or]
      exact ih

theorem confirm_nofile (pkg : Pkg) (ns : List String) :
    confirm pkg "" ns = .ok (ns.map (fun n => (n, (fileOf pkg n).getD ""))) := by
  induction ns with
  | nil => rfl
  | cons n r ih =>
    simp [confirm, getGoFile_eq pkg n, ih]

theorem confirm_file_ok (pkg : Pkg) (f : String) (hf : f ≠ "") (ns : List String)
    (hall : ∀ n ∈ ns, (fileOf pkg n).getD "" = f) :
    confirm pkg f ns = .ok [] := by
  induction ns with
  | nil => rfl
  | cons n r ih =>
    simp [confirm, hf, getGoFile_eq pkg n, hall n (by simp),
      ih (fun m hm => hall m (by simp [hm]))]

theorem confirm_file_bad (pkg : Pkg) (f : String) (hf : f ≠ "") (ns : List String)
    (hex : ∃ n ∈ ns, (fileOf pkg n).getD "" ≠ f) :
    confirm pkg f ns = .error .fatal := by
  induction ns with
  | nil => obtain ⟨n, hn, _⟩ := hex; cases hn
  | cons n r ih =>
    simp only [confirm, getGoFile_eq pkg n]
    have hfe : (f == "") = false := by simpa using hf
    simp only [hfe, Bool.false_eq_true, ↓reduceIte]
    by_cases hn : (fileOf pkg n).getD "" = f
    · have : (f != (fileOf pkg n).getD "") = false := by simp [hn]
      simp only [this, Bool.false_eq_true, ↓reduceIte]
      apply ih
      obtain ⟨m, hm, hne⟩ := hex
      rcases List.mem_cons.mp hm with rfl | hr
      · exact absurd hn hne
      · exact ⟨m, hr, hne⟩
    · have : (f != (fileOf pkg n).getD "") = true := by simpa using fun e => hn e.symm
      simp [this]


/-! ### reading the command line -/

theorem mode_file {pkg : Pkg} {fl : Flags} {f : String} {sep : Bool} (h : mode fl = some (.file f sep)) :
    fl.file = f ∧ f ≠ "" ∧ fl.sep = sep ∧ specifiedOf fl = false ∧ aioOf pkg fl = "" := by
  unfold mode at h
  cases h1 : fl.types.isEmpty <;> cases h2 : (fl.file == "") <;> cases h3 : (fl.types == ["*"]) <;>
    cases h4 : (fl.types.contains "*" || fl.types.contains "") <;> simp [h1, h2, h3, h4] at h
  all_goals (
    have hne : fl.file ≠ "" := by simpa using h2
    refine ⟨h.1, h.1 ▸ hne, h.2, ?_, ?_⟩
    · simp [specifiedOf, isStar, h1, h3]
    · simp [aioOf, h2])

theorem mode_star {fl : Flags} {sep : Bool} (h : mode fl = some (.star sep)) :
    fl.file = "" ∧ fl.types = ["*"] ∧ fl.sep = sep := by
  unfold mode at h
  cases h1 : fl.types.isEmpty <;> cases h2 : (fl.file == "") <;> cases h3 : (fl.types == ["*"]) <;>
    cases h4 : (fl.types.contains "*" || fl.types.contains "") <;> simp [h1, h2, h3, h4] at h
  all_goals exact ⟨by simpa using h2, by simpa using h3, h⟩

theorem mode_named {fl : Flags} {ns : List String} {file : Option String} (h : mode fl = some (.named ns file)) :
    fl.types = ns ∧ "*" ∉ ns ∧ "" ∉ ns ∧ file = (if fl.file == "" then none else some fl.file) ∧ specifiedOf fl = true := by
  unfold mode at h
  cases h1 : fl.types.isEmpty <;> cases h2 : (fl.file == "") <;> cases h3 : (fl.types == ["*"]) <;>
    cases h4 : (fl.types.contains "*" || fl.types.contains "") <;> simp [h1, h2, h3, h4] at h
  all_goals (
    obtain ⟨hc, ht, hf⟩ := h
    refine ⟨ht, ht ▸ hc.1, ht ▸ hc.2, by simp [h2, ← hf], ?_⟩
    simp [specifiedOf, isStar, h1, h3])


/-! ### running the model -/

theorem finish_eq (cmd : Cmd) (m : List (OutName × List String)) (w : Bool) :
    finish cmd m w = .done m (sortNames cmd (m.map (·.1))) (w || m.isEmpty) := by simp [finish, mainLoop_eq]

theorem meets_finish (cmd : Cmd) (m : List (OutName × List String)) (w : Bool) : meets (finish cmd m w) (.files m) = true := by
  simp [finish_eq, meets]

theorem endsGo_ne {f : String} (h : endsGo f = true) : f ≠ "" := by
  intro he; subst he; exact absurd h (by decide)

theorem file_mem {pkg : Pkg} {f : String} (h : (pkg.map File.name).contains f = true) : ∃ g ∈ pkg, g.name = f := by
  simpa using h

theorem flagCheck_file' {pkg : Pkg} {fl : Flags} (hgoall : ∀ f ∈ pkg, endsGo f.name = true) (hf : fl.file ≠ "")
    (hin : (pkg.map File.name).contains fl.file = true) : flagCheck pkg fl = none := by
  obtain ⟨g, hg, hn⟩ := file_mem hin
  have hgo : endsGo fl.file = true := hn ▸ hgoall g hg
  have hfe : (fl.file == "") = false := by simpa using hf
  simp only [flagCheck, hfe, hgo, hin]
  simp

theorem flagCheck_file {pkg : Pkg} {fl : Flags} (v : ValidFacts pkg) (hf : fl.file ≠ "")
    (hin : (pkg.map File.name).contains fl.file = true) : flagCheck pkg fl = none := by
  obtain ⟨g, hg, hn⟩ := file_mem hin
  have hgo : endsGo fl.file = true := hn ▸ v.go g hg
  have hfe : (fl.file == "") = false := by simpa using hf
  simp only [flagCheck, hfe, hgo, hin]
  simp

theorem flagCheck_nofile {pkg : Pkg} {fl : Flags} (hf : fl.file = "") (ht : fl.types ≠ []) : flagCheck pkg fl = none := by
  cases hts : fl.types with
  | nil => exact absurd hts ht
  | cons a r => simp [flagCheck, hf, hts]

theorem run_unspecified (cmd : Cmd) (pkg : Pkg) (fl : Flags) (v : ValidFacts pkg)
    (hsp : specifiedOf fl = false) (hfc : flagCheck pkg fl = none) :
    run cmd pkg fl = finish cmd (srcMapOf fl.sep fl.file (aioOf pkg fl) []
        (((declared pkg).filter (fun ft => inFileB fl.file ft && eligible cmd pkg ft.2)).map nameOf))
      (cmd == .enum && enumAliasWarn (testedSpecs fl.file pkg)) := by
  obtain ⟨L, hL, hK⟩ := listed_produced cmd pkg v fl.file
  simp [run, hfc, confirmTypes, hsp, hL, hK, skipWarn]

/-- `-sep`: one entry per produced type, no overwriting, because the type components are distinct -/
theorem srcMapOf_sep {pkg : Pkg} (v : ValidFacts pkg) (file aio : String) (fnm : List (String × String))
    (e : List String) (hnd : e.Nodup) (hmem : ∀ a ∈ e, ∃ ft ∈ declared pkg, ft.2.name = a) :
    srcMapOf true file aio fnm e = e.map (fun n => (fileName file aio fnm n, [n])) := by
  simp only [srcMapOf, ↓reduceIte]
  rw [upserts_nodup _ [] ?_]
  · simp
  · simp only [List.nil_append, List.map_map]
    have hinj := inj_of_nodup_map comp _ v.comps
    apply nodup_map_of_inj_on _ _ hnd
    intro a ha b hb hab
    simp only [Function.comp_def, fileName, OutName.mk.injEq] at hab
    obtain ⟨fa, hfa, rfl⟩ := hmem a ha
    obtain ⟨fb, hfb, rfl⟩ := hmem b hb
    have ha0 : (fa.2.name == "") = false := by simpa using v.nonEmpty fa hfa
    have hb0 : (fb.2.name == "") = false := by simpa using v.nonEmpty fb hfb
    simp only [ha0, hb0, Bool.false_eq_true, ↓reduceIte, Option.some.injEq] at hab
    exact hinj _ (List.mem_map_of_mem (f := fun ft : String × TSpec => ft.2.name) hfa) _
      (List.mem_map_of_mem (f := fun ft : String × TSpec => ft.2.name) hfb) hab.2


theorem eligibleIn_file (cmd : Cmd) (pkg : Pkg) (f : String) (hf : f ≠ "") :
    eligibleIn cmd pkg (some f) = ((declared pkg).filter (fun ft => inFileB f ft && eligible cmd pkg ft.2)).map nameOf := by
  have hfe : (f == "") = false := by simpa using hf
  simp [eligibleIn, inFileB, hfe, nameOf]

theorem eligibleIn_star (cmd : Cmd) (pkg : Pkg) :
    eligibleIn cmd pkg none = ((declared pkg).filter (fun ft => inFileB "" ft && eligible cmd pkg ft.2)).map nameOf := by
  simp [eligibleIn, inFileB, nameOf]

theorem eligible_nodup {pkg : Pkg} (v : ValidFacts pkg) (p : String × TSpec → Bool) :
    (((declared pkg).filter p).map nameOf).Nodup :=
  List.Nodup.sublist (List.Sublist.map _ List.filter_sublist) v.names

theorem eligible_mem {pkg : Pkg} (p : String × TSpec → Bool) :
    ∀ a ∈ ((declared pkg).filter p).map nameOf, ∃ ft ∈ declared pkg, ft.2.name = a := by
  intro a ha
  simp only [List.mem_map, List.mem_filter] at ha
  obtain ⟨ft, ⟨hft, _⟩, rfl⟩ := ha
  exact ⟨ft, hft, rfl⟩

theorem fileName_file (f aio : String) (fnm : List (String × String)) (hf : f ≠ "") (t : String) :
    fileName f aio fnm t = ⟨stem f, if t == "" then none else some (comp t)⟩ := by
  have : (f != "") = true := by simpa using hf
  simp [fileName, this]

theorem fileName_aio (aio : String) (fnm : List (String × String)) (ha : aio ≠ "") (t : String) :
    fileName "" aio fnm t = ⟨stem aio, if t == "" then none else some (comp t)⟩ := by
  have : (aio != "") = true := by simpa using ha
  simp [fileName, this]

/-- `-file=f.go` (with or without `-sep`, with or without `-type=*`) -/
theorem file_mode_meets (cmd : Cmd) (pkg : Pkg) (fl : Flags) (v : ValidFacts pkg) {f : String} {sep : Bool}
    (hm : mode fl = some (.file f sep)) (hin : (pkg.map File.name).contains f = true) :
    ∃ s, spec cmd pkg fl = some s ∧ meets (run cmd pkg fl) s = true := by
  obtain ⟨hff, hfne, hsep, hsp, haio⟩ := mode_file (pkg := pkg) hm
  have hfc : flagCheck pkg fl = none := flagCheck_file v (hff ▸ hfne) (hff ▸ hin)
  rw [run_unspecified cmd pkg fl v hsp hfc, haio, hff, hsep]
  simp only [spec, hm, eligibleIn_file cmd pkg f hfne]
  cases sep with
  | true =>
    refine ⟨_, rfl, ?_⟩
    rw [srcMapOf_sep v _ _ _ _ (eligible_nodup v _) (eligible_mem _)]
    have : (List.map (fun n => (fileName f "" [] n, [n]))
        (((declared pkg).filter (fun ft => inFileB f ft && eligible cmd pkg ft.2)).map nameOf)) =
        (List.map (fun n => ((⟨stem f, some (comp n)⟩ : OutName), [n]))
        (((declared pkg).filter (fun ft => inFileB f ft && eligible cmd pkg ft.2)).map nameOf)) := by
      apply List.map_congr_left
      intro a ha
      obtain ⟨ft, hft, rfl⟩ := eligible_mem _ a ha
      have : (ft.2.name == "") = false := by simpa using v.nonEmpty ft hft
      simp [fileName_file f "" [] hfne, this]
    rw [this]
    exact meets_finish _ _ _
  | false =>
    by_cases he : (((declared pkg).filter (fun ft => inFileB f ft && eligible cmd pkg ft.2)).map nameOf).isEmpty = true
    · refine ⟨_, by simp only [he, ↓reduceIte, Bool.false_eq_true]; rfl, ?_⟩
      simp only [srcMapOf, he, ↓reduceIte, Bool.false_eq_true]
      exact meets_finish _ _ _
    · refine ⟨_, by simp only [he, ↓reduceIte, Bool.false_eq_true]; rfl, ?_⟩
      simp only [srcMapOf, he, ↓reduceIte, Bool.false_eq_true, fileName_file f "" [] hfne, beq_self_eq_true]
      exact meets_finish _ _ _


/-- `-type=*` (with or without `-sep`) -/
theorem star_mode_meets (cmd : Cmd) (pkg : Pkg) (fl : Flags) (v : ValidFacts pkg) {sep : Bool}
    (hm : mode fl = some (.star sep))
    (hwf : (eligibleIn cmd pkg none).isEmpty = true ∨
      ∃ g0, (pkg.find? (fun f => f.comments.any (isDirective fl.cmdline))).map (·.name) = some g0 ∧
        (sep = true → ∀ n ∈ eligibleIn cmd pkg none, fileOf pkg n = some g0)) :
    ∃ s, spec cmd pkg fl = some s ∧ meets (run cmd pkg fl) s = true := by
  obtain ⟨hff, hts, hsep⟩ := mode_star hm
  have hsp : specifiedOf fl = false := by simp [specifiedOf, isStar, hts]
  have hfc : flagCheck pkg fl = none := flagCheck_nofile hff (by simp [hts])
  have haio : aioOf pkg fl = ((pkg.find? (fun f => f.comments.any (isDirective fl.cmdline))).map (·.name)).getD "" := by
    simp [aioOf, hff, hts, findAllInOne_eq]
  rw [run_unspecified cmd pkg fl v hsp hfc, hff, hsep]
  simp only [spec, hm]
  rw [eligibleIn_star] at hwf ⊢
  rcases hwf with he | ⟨g0, hg, hall⟩
  · cases sep with
    | true =>
      refine ⟨_, rfl, ?_⟩
      rw [srcMapOf_sep v _ _ _ _ (eligible_nodup v _) (eligible_mem _)]
      simp only [List.isEmpty_iff] at he
      simp only [he, List.map_nil]
      exact meets_finish _ _ _
    | false =>
      refine ⟨_, by simp only [he, ↓reduceIte, Bool.false_eq_true]; rfl, ?_⟩
      simp only [srcMapOf, he, ↓reduceIte, Bool.false_eq_true]
      exact meets_finish _ _ _
  · have hg0 : g0 ≠ "" := by
      cases hfd : pkg.find? (fun f => f.comments.any (isDirective fl.cmdline)) with
      | none => simp [hfd] at hg
      | some gf =>
        simp only [hfd, Option.map_some, Option.some.injEq] at hg
        exact hg ▸ endsGo_ne (v.go gf (List.mem_of_find?_eq_some hfd))
    rw [haio, hg, Option.getD_some]
    cases sep with
    | true =>
      refine ⟨_, rfl, ?_⟩
      rw [srcMapOf_sep v _ _ _ _ (eligible_nodup v _) (eligible_mem _)]
      have : (List.map (fun n => (fileName "" g0 [] n, [n]))
          (((declared pkg).filter (fun ft => inFileB "" ft && eligible cmd pkg ft.2)).map nameOf)) =
          (List.map (perType pkg)
          (((declared pkg).filter (fun ft => inFileB "" ft && eligible cmd pkg ft.2)).map nameOf)) := by
        apply List.map_congr_left
        intro a ha
        have hfo := hall rfl a ha
        obtain ⟨ft, hft, rfl⟩ := eligible_mem _ a ha
        have : (ft.2.name == "") = false := by simpa using v.nonEmpty ft hft
        simp [fileName_aio g0 [] hg0, this, perType, hfo]
      rw [this]
      exact meets_finish _ _ _
    | false =>
      by_cases he : (((declared pkg).filter (fun ft => inFileB "" ft && eligible cmd pkg ft.2)).map nameOf).isEmpty = true
      · refine ⟨_, by simp only [he, ↓reduceIte, Bool.false_eq_true]; rfl, ?_⟩
        simp only [srcMapOf, he, ↓reduceIte, Bool.false_eq_true]
        exact meets_finish _ _ _
      · refine ⟨_, by simp only [he, ↓reduceIte, Bool.false_eq_true, hg]; rfl, ?_⟩
        simp only [srcMapOf, he, ↓reduceIte, Bool.false_eq_true, fileName_aio g0 [] hg0, beq_self_eq_true]
        exact meets_finish _ _ _


/-! ### named types -/

theorem run_specified (cmd : Cmd) (pkg : Pkg) (fl : Flags)
    (hsp : specifiedOf fl = true) (hfc : flagCheck pkg fl = none) :
    run cmd pkg fl =
      match confirm pkg fl.file fl.types with
      | .error e => .stop e
      | .ok m =>
        match keep cmd pkg true fl.types with
        | .error e => .stop e
        | .ok produced => finish cmd (srcMapOf true fl.file (aioOf pkg fl) m produced) (skipWarn cmd true fl.types produced) := by
  simp only [run, hfc, confirmTypes, hsp, ↓reduceIte, Bool.true_or, Bool.false_or]
  cases confirm pkg fl.file fl.types with
  | error e => rfl
  | ok m => rfl

theorem getD_eq_iff {g : String} (hg : g ≠ "") (x : Option String) : x.getD "" = g ↔ x = some g := by
  cases x with
  | none => simp [Ne.symm hg]
  | some y => simp

theorem lookup_map_self (F : String → String) (ns : List String) (n : String) (h : n ∈ ns) :
    (ns.map (fun n => (n, F n))).lookup n = some (F n) := by
  induction ns with
  | nil => cases h
  | cons a r ih =>
    by_cases hna : n = a
    · subst hna; simp [List.lookup]
    · have : (n == a) = false := by simpa using hna
      rcases List.mem_cons.mp h with rfl | hr
      · exact absurd rfl hna
      · simp [List.lookup, this, ih hr]

/-- a good name produces template data -/
theorem makeData_good (cmd : Cmd) {pkg : Pkg} (v : ValidFacts pkg) (file : Option String) (n : String)
    (h : good cmd pkg file n = true) : makeData cmd pkg true n = .ok true := by
  unfold good at h
  cases hd : findDecl pkg n with
  | none => simp [hd] at h
  | some ft =>
    obtain ⟨f, t⟩ := ft
    simp only [hd, Bool.and_eq_true] at h
    obtain ⟨hmem, rfl⟩ := findDecl_some hd
    have hacc := h.1
    cases cmd with
    | new =>
      simp only [acceptable] at hacc
      simp [makeData_new_decl v hmem, hacc]
    | map =>
      simp only [acceptable, Bool.and_eq_true] at hacc
      simp [makeData_map_decl v hmem, hacc.1, hacc.2]
    | rest =>
      have : restListed t = true := by
        obtain ⟨name, shape, al, under, tps, hdst⟩ := t
        cases shape <;> simp_all [acceptable, restListed]
      simp [makeData_rest_decl v hmem, this]
    | enum =>
      simp only [acceptable, Bool.and_eq_true, Bool.not_eq_true'] at hacc
      have hni : nonIntUnder t = false := by
        unfold nonIntUnder
        cases hu : t.under with
        | none => rfl
        | some k => simp only [hu] at hacc; simp [hacc.1.2]
      simp [makeData_enum_decl v hmem, hacc.1.1, hacc.2, hni]

theorem good_fileOf {cmd : Cmd} {pkg : Pkg} {g n : String} (h : good cmd pkg (some g) n = true) : fileOf pkg n = some g := by
  unfold good at h
  unfold fileOf
  cases hd : findDecl pkg n with
  | none => simp [hd] at h
  | some ft => obtain ⟨f, t⟩ := ft; simp only [hd, Bool.and_eq_true, beq_iff_eq] at h; simp [h.2]

theorem good_declared {cmd : Cmd} {pkg : Pkg} {file : Option String} {n : String} (h : good cmd pkg file n = true) :
    ∃ ft ∈ declared pkg, ft.2.name = n := by
  unfold good at h
  cases hd : findDecl pkg n with
  | none => simp [hd] at h
  | some ft => obtain ⟨f, t⟩ := ft; exact ⟨(f, t), (findDecl_some hd).1, (findDecl_some hd).2⟩

theorem aioOf_named {pkg : Pkg} {fl : Flags} (h : "*" ∉ fl.types) : aioOf pkg fl = "" := by
  have : fl.types.contains "*" = false := by simpa using h
  unfold aioOf; rw [this]; simp

/-- `-type=A,B` (optionally with `-file`), every name good -/
theorem named_good_meets (cmd : Cmd) (pkg : Pkg) (fl : Flags) (v : ValidFacts pkg)
    {ns : List String} {file : Option String} (hm : mode fl = some (.named ns file))
    (hnd : ns.Nodup) (hfile : ∀ g, file = some g → (pkg.map File.name).contains g = true)
    (hgood : ∀ n ∈ ns, good cmd pkg file n = true) :
    ∃ s, spec cmd pkg fl = some s ∧ meets (run cmd pkg fl) s = true := by
  obtain ⟨hts, hstar, hempty, hfl, hsp⟩ := mode_named hm
  subst hts
  have hbad : (fl.types.filter (fun n => !good cmd pkg file n)).isEmpty = true := by
    simp only [List.isEmpty_iff, List.filter_eq_nil_iff, Bool.not_eq_true', Bool.not_eq_false]
    exact hgood
  refine ⟨.files (fl.types.map (perType pkg)), by simp [spec, hm, hbad], ?_⟩
  have haio : aioOf pkg fl = "" := aioOf_named hstar
  have hkeep : keep cmd pkg true fl.types = .ok fl.types := by
    rw [keep_ok cmd pkg true (fun _ => true) fl.types (fun n hn => makeData_good cmd v file n (hgood n hn))]
    simp
  have hmem : ∀ a ∈ fl.types, ∃ ft ∈ declared pkg, ft.2.name = a := fun a ha => good_declared (hgood a ha)
  have hne : ∀ a ∈ fl.types, (a == "") = false := fun a ha => by
    simp only [beq_eq_false_iff_ne, ne_eq]; intro he; exact hempty (he ▸ ha)
  have htne : fl.types ≠ [] := by intro he; simp [he, specifiedOf] at hsp
  by_cases hf : fl.file = ""
  · have hfc : flagCheck pkg fl = none := flagCheck_nofile hf htne
    rw [run_specified cmd pkg fl hsp hfc, hf, confirm_nofile pkg _, hkeep, haio]
    simp only
    rw [srcMapOf_sep v _ _ _ _ hnd hmem]
    have : List.map (fun n => (fileName "" "" (fl.types.map (fun n => (n, (fileOf pkg n).getD ""))) n, [n])) fl.types
        = fl.types.map (perType pkg) := by
      apply List.map_congr_left
      intro a ha
      simp [fileName, lookup_map_self (fun n => (fileOf pkg n).getD "") fl.types a ha, hne a ha, perType]
    rw [this]
    exact meets_finish _ _ _
  · have hfe : (fl.file == "") = false := by simpa using hf
    have hfs : file = some fl.file := by simp [hfl, hfe]
    have hin := hfile _ hfs
    have hfc : flagCheck pkg fl = none := flagCheck_file v hf hin
    have hall : ∀ n ∈ fl.types, (fileOf pkg n).getD "" = fl.file := fun n hn => by
      rw [good_fileOf (hfs ▸ hgood n hn)]; rfl
    rw [run_specified cmd pkg fl hsp hfc, confirm_file_ok pkg fl.file hf _ hall, hkeep, haio]
    simp only
    rw [srcMapOf_sep v _ _ _ _ hnd hmem]
    have : List.map (fun n => (fileName fl.file "" [] n, [n])) fl.types = fl.types.map (perType pkg) := by
      apply List.map_congr_left
      intro a ha
      simp [fileName_file fl.file "" [] hf, hne a ha, perType, hall a ha]
    rw [this]
    exact meets_finish _ _ _


/-! ### a bad name in the list -/

theorem makeData_ok_or_fatal (cmd : Cmd) (hc : cmd ≠ .rest) {pkg : Pkg} (v : ValidFacts pkg) (sp : Bool) (n : String) :
    ∀ e, makeData cmd pkg sp n = .error e → e = .fatal := by
  intro e he
  cases hd : findDecl pkg n with
  | none =>
    cases cmd with
    | new => rw [makeData_new_none v hd] at he; cases he; rfl
    | map => rw [makeData_map_none v hd] at he; cases he; rfl
    | enum => rw [makeData_enum_none v hd] at he; cases he
    | rest => exact absurd rfl hc
  | some ft =>
    obtain ⟨f, t⟩ := ft
    obtain ⟨hmem, rfl⟩ := findDecl_some hd
    cases cmd with
    | new => rw [makeData_new_decl v hmem] at he; split at he <;> cases he; rfl
    | map => rw [makeData_map_decl v hmem] at he; (repeat' split at he) <;> cases he <;> rfl
    | enum => rw [makeData_enum_decl v hmem] at he; (repeat' split at he) <;> cases he <;> rfl
    | rest => exact absurd rfl hc

/-- not good, although declared in the named file (if any): the declaration is of the wrong kind, or missing -/
theorem bad_cases {cmd : Cmd} {pkg : Pkg} {file : Option String} {n : String}
    (hb : good cmd pkg file n = false) (hfm : ∀ g, file = some g → fileOf pkg n = some g) :
    findDecl pkg n = none ∨ ∃ f t, findDecl pkg n = some (f, t) ∧ acceptable cmd pkg t = false := by
  unfold good at hb
  cases hd : findDecl pkg n with
  | none => exact Or.inl rfl
  | some ft =>
    obtain ⟨f, t⟩ := ft
    refine Or.inr ⟨f, t, rfl, ?_⟩
    simp only [hd] at hb
    cases file with
    | none => simpa using hb
    | some g =>
      have := hfm g rfl
      simp only [fileOf, hd, Option.map_some, Option.some.injEq] at this
      simpa [this] using hb

theorem bad_fatal_new {pkg : Pkg} (v : ValidFacts pkg) {file : Option String} {n : String}
    (hb : good .new pkg file n = false) (hfm : ∀ g, file = some g → fileOf pkg n = some g) :
    makeData .new pkg true n = .error .fatal := by
  rcases bad_cases hb hfm with hd | ⟨f, t, hd, hacc⟩
  · exact makeData_new_none v hd true
  · obtain ⟨hmem, rfl⟩ := findDecl_some hd
    simp only [acceptable] at hacc
    simp [makeData_new_decl v hmem, hacc]

theorem bad_fatal_map {pkg : Pkg} (v : ValidFacts pkg) {file : Option String} {n : String}
    (hb : good .map pkg file n = false) (hfm : ∀ g, file = some g → fileOf pkg n = some g) :
    makeData .map pkg true n = .error .fatal := by
  rcases bad_cases hb hfm with hd | ⟨f, t, hd, hacc⟩
  · exact makeData_map_none v hd true
  · obtain ⟨hmem, rfl⟩ := findDecl_some hd
    simp only [acceptable] at hacc
    rw [makeData_map_decl v hmem]
    by_cases hs : (t.shape == Shape.struct) = true
    · simp only [hs, Bool.true_and] at hacc
      simp [hs, hacc]
    · simp [hs]

theorem enumFatal_fatal {pkg : Pkg} (v : ValidFacts pkg) {n : String} (h : enumFatal pkg n = true) :
    makeData .enum pkg true n = .error .fatal := by
  unfold enumFatal at h
  cases hd : findDecl pkg n with
  | none => simp [hd] at h
  | some ft =>
    obtain ⟨f, t⟩ := ft
    obtain ⟨hmem, rfl⟩ := findDecl_some hd
    simp only [hd, Bool.or_eq_true, Bool.and_eq_true, Bool.not_eq_true'] at h
    rw [makeData_enum_decl v hmem]
    rcases h with ha | ⟨hc, hn⟩
    · simp [ha]
    · have : nonIntUnder t = true := hn
      cases t.alias <;> simp [hc, this]

theorem bad_skip_enum {pkg : Pkg} (v : ValidFacts pkg) {file : Option String} {n : String}
    (hb : good .enum pkg file n = false) (hfm : ∀ g, file = some g → fileOf pkg n = some g)
    (hnf : enumFatal pkg n = false) : makeData .enum pkg true n = .ok false := by
  rcases bad_cases hb hfm with hd | ⟨f, t, hd, hacc⟩
  · exact makeData_enum_none v hd true
  · obtain ⟨hmem, rfl⟩ := findDecl_some hd
    unfold enumFatal at hnf
    simp only [hd, Bool.or_eq_false_iff] at hnf
    rw [makeData_enum_decl v hmem]
    simp only [hnf.1, Bool.false_eq_true, ↓reduceIte]
    by_cases hc : (goConsts t.name pkg).isEmpty = true
    · simp [hc]
    · simp only [hc, Bool.false_eq_true, ↓reduceIte]
      have hc' : (goConsts t.name pkg).isEmpty = false := by simpa using hc
      have hni : nonIntUnder t = false := by simpa [hc'] using hnf.2
      obtain ⟨f', t', hd', hu⟩ := under_of_goConsts v (n := t.name) (by simpa using hc)
      rw [hd] at hd'
      simp only [Option.some.injEq, Prod.mk.injEq] at hd'
      obtain ⟨_, rfl⟩ := hd'
      -- not acceptable although the underlying kind is an integer kind and constants exist: impossible
      exfalso
      simp only [acceptable, hnf.1, hc', Bool.not_false, Bool.and_true, Bool.true_and] at hacc
      unfold nonIntUnder at hni
      cases hk : t.under with
      | none => simp [hk] at hu
      | some k => simp [hk] at hacc hni; simp [hacc] at hni


theorem meets_stop_fatal (bad : List String) : meets (.stop .fatal) (.rejected bad) = true := by simp [meets]

theorem makeData_rest_ok_or_fatal {pkg : Pkg} (v : ValidFacts pkg) (sp : Bool) (n : String) :
    ∀ e, makeData .rest pkg sp n = .error e → e = .fatal := by
  intro e he
  cases hd : findDecl pkg n with
  | none => rw [makeData_rest_none v hd] at he; cases he; rfl
  | some ft =>
    obtain ⟨f, t⟩ := ft
    obtain ⟨hmem, rfl⟩ := findDecl_some hd
    rw [makeData_rest_decl v hmem] at he
    split at he <;> cases he
    rfl

theorem bad_fatal_rest {pkg : Pkg} (v : ValidFacts pkg) {file : Option String} {n : String}
    (hb : good .rest pkg file n = false) (hfm : ∀ g, file = some g → fileOf pkg n = some g) :
    makeData .rest pkg true n = .error .fatal := by
  rcases bad_cases hb hfm with hd | ⟨f, t, hd, hacc⟩
  · exact makeData_rest_none v hd true
  · obtain ⟨hmem, rfl⟩ := findDecl_some hd
    rw [makeData_rest_decl v hmem]
    have : restListed t = false := by
      obtain ⟨name, shape, al, under, tps, hdst⟩ := t
      cases shape <;> simp_all [acceptable, restListed]
    simp [this]

/-- enum, no name fatal: a named type yields template data iff it is good -/
theorem enum_makeData_iff_good {pkg : Pkg} (v : ValidFacts pkg) {file : Option String} {n : String}
    (hfm : ∀ g, file = some g → fileOf pkg n = some g) (hnf : enumFatal pkg n = false) :
    makeData .enum pkg true n = .ok (good .enum pkg file n) := by
  cases hg : good .enum pkg file n with
  | true => exact makeData_good .enum v file n hg
  | false => exact bad_skip_enum v hg hfm hnf

/-- `-type=…` with a missing / wrong-kind name: a diagnostic, and no output for the bad name -/
theorem named_bad_meets (cmd : Cmd) (pkg : Pkg) (fl : Flags) (v : ValidFacts pkg)
    {ns : List String} {file : Option String} (hm : mode fl = some (.named ns file)) (hnd : ns.Nodup)
    (hfile : ∀ g, file = some g → (pkg.map File.name).contains g = true)
    (hbad : ∃ n ∈ ns, good cmd pkg file n = false) :
    ∃ s, spec cmd pkg fl = some s ∧ meets (run cmd pkg fl) s = true := by
  obtain ⟨hts, hstar, hempty, hfl, hsp⟩ := mode_named hm
  subst hts
  have hbne : (fl.types.filter (fun n => !good cmd pkg file n)).isEmpty = false := by
    obtain ⟨n, hn, hg⟩ := hbad
    cases hl : fl.types.filter (fun n => !good cmd pkg file n) with
    | nil =>
      have : n ∈ fl.types.filter (fun n => !good cmd pkg file n) := by simp [List.mem_filter, hn, hg]
      rw [hl] at this; cases this
    | cons a r => rfl
  refine ⟨.rejected (fl.types.filter (fun n => !good cmd pkg file n)), by simp [spec, hm, hbne], ?_⟩
  have htne : fl.types ≠ [] := by intro he; simp [he, specifiedOf] at hsp
  have haio : aioOf pkg fl = "" := aioOf_named hstar
  by_cases hmis : ∃ g, file = some g ∧ ∃ n ∈ fl.types, fileOf pkg n ≠ some g
  · -- "type … is not in the specified file"
    obtain ⟨g, hg, n, hn, hne⟩ := hmis
    have hfe : (fl.file == "") = false := by
      cases hfe : (fl.file == "") with
      | false => rfl
      | true => simp [hfl, hfe] at hg
    have hf : fl.file ≠ "" := by simpa using hfe
    have hgf : g = fl.file := by simp [hfl, hfe] at hg; exact hg.symm
    subst hgf
    have hfc : flagCheck pkg fl = none := flagCheck_file v hf (hfile _ hg)
    rw [run_specified cmd pkg fl hsp hfc,
      confirm_file_bad pkg fl.file hf _ ⟨n, hn, fun he => hne ((getD_eq_iff hf _).mp he)⟩]
    exact meets_stop_fatal _
  · -- every name is declared in the named file (if any): confirmTypes passes
    have hfm : ∀ n ∈ fl.types, ∀ g, file = some g → fileOf pkg n = some g := by
      intro n hn g hg
      by_cases he : fileOf pkg n = some g
      · exact he
      · exact absurd ⟨g, hg, n, hn, he⟩ hmis
    have hconf : ∃ m, flagCheck pkg fl = none ∧ confirm pkg fl.file fl.types = .ok m := by
      by_cases hf : fl.file = ""
      · exact ⟨_, flagCheck_nofile hf htne, hf ▸ confirm_nofile pkg _⟩
      · have hfe : (fl.file == "") = false := by simpa using hf
        have hfs : file = some fl.file := by simp [hfl, hfe]
        exact ⟨_, flagCheck_file v hf (hfile _ hfs),
          confirm_file_ok pkg fl.file hf _ (fun n hn => (getD_eq_iff hf _).mpr (hfm n hn _ hfs))⟩
    obtain ⟨m, hfc, hcm⟩ := hconf
    rw [run_specified cmd pkg fl hsp hfc, hcm]
    simp only
    have hfatal : keep cmd pkg true fl.types = .error .fatal → meets
        (match keep cmd pkg true fl.types with
          | .error e => Outcome.stop e
          | .ok produced => finish cmd (srcMapOf true fl.file (aioOf pkg fl) m produced) (skipWarn cmd true fl.types produced))
        (.rejected (fl.types.filter (fun n => !good cmd pkg file n))) = true := by
      intro hk; rw [hk]; exact meets_stop_fatal _
    cases cmd with
    | new =>
      apply hfatal
      apply keep_fatal _ _ _ _ (fun n _ => makeData_ok_or_fatal .new (by simp) v true n)
      obtain ⟨n, hn, hg⟩ := hbad
      exact ⟨n, hn, bad_fatal_new v hg (hfm n hn)⟩
    | map =>
      apply hfatal
      apply keep_fatal _ _ _ _ (fun n _ => makeData_ok_or_fatal .map (by simp) v true n)
      obtain ⟨n, hn, hg⟩ := hbad
      exact ⟨n, hn, bad_fatal_map v hg (hfm n hn)⟩
    | rest =>
      apply hfatal
      apply keep_fatal _ _ _ _ (fun n _ => makeData_rest_ok_or_fatal v true n)
      obtain ⟨n, hn, hg⟩ := hbad
      exact ⟨n, hn, bad_fatal_rest v hg (hfm n hn)⟩
    | enum =>
      by_cases hef : ∃ n ∈ fl.types, enumFatal pkg n = true
      · obtain ⟨n, hn, hf⟩ := hef
        apply hfatal
        apply keep_fatal _ _ _ _ (fun n _ => makeData_ok_or_fatal .enum (by simp) v true n)
        exact ⟨n, hn, enumFatal_fatal v hf⟩
      · -- the bad names are skipped with a warning, the good ones are generated
        have hk : keep .enum pkg true fl.types = .ok (fl.types.filter (good .enum pkg file)) := by
          apply keep_ok
          intro n hn
          apply enum_makeData_iff_good v (hfm n hn)
          cases hx : enumFatal pkg n with
          | false => rfl
          | true => exact absurd ⟨n, hn, hx⟩ hef
        rw [hk]
        simp only
        have hsub : ∀ a ∈ fl.types.filter (good .enum pkg file), ∃ ft ∈ declared pkg, ft.2.name = a := by
          intro a ha
          exact good_declared (List.mem_filter.mp ha).2
        rw [srcMapOf_sep v _ _ _ _ (List.Nodup.sublist List.filter_sublist hnd) hsub, finish_eq]
        simp only [meets, Bool.and_eq_true, List.isEmpty_iff]
        constructor
        · -- a warning was printed
          obtain ⟨n, hn, hg⟩ := hbad
          have : skipWarn .enum true fl.types (fl.types.filter (good .enum pkg file)) = true := by
            simp only [skipWarn, beq_self_eq_true, Bool.true_and, List.any_eq_true, Bool.not_eq_true',
              List.contains_eq_mem, decide_eq_false_iff_not]
            exact ⟨n, hn, fun hc => by simp [List.mem_filter, hg] at hc⟩
          simp [this]
        · -- no written file holds a bad name
          simp only [holdsBad, List.filter_eq_nil_iff, List.mem_filter, Bool.not_eq_true', List.any_eq_true,
            List.mem_map, List.contains_eq_mem, decide_eq_true_eq, not_exists, not_and, and_imp]
          intro b _ hb x hx hbx
          obtain ⟨a, ⟨_, hga⟩, rfl⟩ := hx
          simp only [List.mem_singleton] at hbx
          subst hbx
          rw [hga] at hb
          cases hb


/-! ### when the clean-up runs -/

theorem cleanActiveOf_eq (pkg : Pkg) (fl : Flags) :
    cleanActiveOf pkg fl = (!(specifiedOf fl || fl.sep) && aioOf pkg fl != "") := rfl

/-- Clean is active only for a package-wide all-in-one command line: `-type=*` without `-file` and without `-sep` -/
theorem cleanActive_star (fl : Flags) (aiofile : String) (h : cleanActiveWith fl aiofile = true) :
    mode fl = some (.star false) := by
  simp only [cleanActiveWith, Bool.and_eq_true, Bool.not_eq_true', Bool.or_eq_false_iff, bne_iff_ne, ne_eq] at h
  obtain ⟨⟨hsp, hsep⟩, ha⟩ := h
  by_cases hc : (fl.file == "" && fl.types.contains "*") = true
  · simp only [Bool.and_eq_true, beq_iff_eq] at hc
    have hne : fl.types.isEmpty = false := by
      cases ht : fl.types with
      | nil => simp [ht] at hc
      | cons a r => rfl
    have hstar : isStar fl.types = true := by
      simp only [specifiedOf, hne, Bool.not_false, Bool.true_and, Bool.not_eq_false'] at hsp
      exact hsp
    have hts : fl.types = ["*"] := by simpa [isStar] using hstar
    simp [mode, hts, hc.1, hsep]
  · exfalso; apply ha
    have hc' : ¬((fl.file == "") = true ∧ fl.types.contains "*" = true) := by simpa using hc
    rw [if_neg hc']


/-- `-file=f.go -type=…` with a name that is not a package-level type of f.go: a diagnostic and no file — for ANY package
    (function-local types, type parameters, constants of predeclared types … included): only package-level type names have a file -/
theorem named_notinfile_meets (cmd : Cmd) (pkg : Pkg) (fl : Flags) (hgo : ∀ f ∈ pkg, endsGo f.name = true)
    (h : namedNotInFile pkg fl = true) :
    ∃ bad ns f, mode fl = some (.named ns (some f)) ∧ spec cmd pkg fl = some (.rejected bad) ∧
      meets (run cmd pkg fl) (.rejected bad) = true := by
  unfold namedNotInFile at h
  cases hm : mode fl with
  | none => simp [hm] at h
  | some md =>
    cases md with
    | file f sep => simp [hm] at h
    | star sep => simp [hm] at h
    | named ns file =>
      cases file with
      | none => simp [hm] at h
      | some f =>
        simp only [hm, Bool.and_eq_true, List.any_eq_true, bne_iff_ne, ne_eq] at h
        obtain ⟨hin, n, hn, hne⟩ := h
        obtain ⟨hts, hstar, hempty, hfl, hsp⟩ := mode_named hm
        subst hts
        have hfe : (fl.file == "") = false := by
          cases hfe : (fl.file == "") with
          | false => rfl
          | true => simp [hfe] at hfl
        have hf : fl.file ≠ "" := by simpa using hfe
        have hgf : f = fl.file := by simp [hfe] at hfl; exact hfl
        subst hgf
        have hbadn : good cmd pkg (some fl.file) n = false := by
          cases hg : good cmd pkg (some fl.file) n with
          | false => rfl
          | true => exact absurd (good_fileOf hg) hne
        have hbne : (fl.types.filter (fun n => !good cmd pkg (some fl.file) n)).isEmpty = false := by
          cases hl : fl.types.filter (fun n => !good cmd pkg (some fl.file) n) with
          | nil =>
            have : n ∈ fl.types.filter (fun n => !good cmd pkg (some fl.file) n) := by simp [List.mem_filter, hn, hbadn]
            rw [hl] at this; cases this
          | cons a r => rfl
        refine ⟨fl.types.filter (fun n => !good cmd pkg (some fl.file) n), fl.types, fl.file, rfl, by simp [spec, hm, hbne], ?_⟩
        have hfc : flagCheck pkg fl = none := flagCheck_file' hgo hf hin
        rw [run_specified cmd pkg fl hsp hfc,
          confirm_file_bad pkg fl.file hf _ ⟨n, hn, fun he => hne ((getD_eq_iff hf _).mp he)⟩]
        exact meets_stop_fatal _


/-- what `region … = .WF` means: a valid package in a well-formed selection, or the not-in-file situation in any package -/
theorem region_wf_cases {cmd : Cmd} {pkg : Pkg} {fl : Flags} (h : region cmd pkg fl = .WF) :
    (validPkg pkg = true ∧ regionValid cmd pkg fl = .WF) ∨
    (validPkg pkg = false ∧ (∀ f ∈ pkg, endsGo f.name = true) ∧ namedNotInFile pkg fl = true) ∨
    (validPkg pkg = false ∧ cmd = .new ∧ validPkgL pkg = true ∧ regionValid .new (stripNew pkg) fl = .WF) ∨
    (validPkg pkg = false ∧ (∀ f ∈ pkg, localsHarmless cmd f.decls = true) ∧ validPkg (stripLoc pkg) = true ∧
      regionValid cmd (stripLoc pkg) fl = .WF) := by
  unfold region at h
  cases hv : validPkg pkg with
  | true => left; simpa [hv] using h
  | false =>
    right
    simp only [hv, Bool.false_eq_true, ↓reduceIte] at h
    by_cases hc : (pkg.all (fun f => endsGo f.name) && namedNotInFile pkg fl) = true
    · simp only [Bool.and_eq_true, List.all_eq_true] at hc
      exact Or.inl ⟨rfl, hc.1, hc.2⟩
    · simp only [hc, Bool.false_eq_true, ↓reduceIte] at h
      by_cases hn : (cmd == .new && validPkgL pkg) = true
      · simp only [hn, ↓reduceIte] at h
        simp only [Bool.and_eq_true, beq_iff_eq] at hn
        exact Or.inr (Or.inl ⟨rfl, hn.1, hn.2, h⟩)
      · simp only [hn, Bool.false_eq_true, ↓reduceIte] at h
        by_cases hl : (pkg.all (fun f => localsHarmless cmd f.decls) && validPkg (stripLoc pkg)) = true
        · simp only [hl, ↓reduceIte] at h
          simp only [Bool.and_eq_true, List.all_eq_true] at hl
          exact Or.inr (Or.inr ⟨rfl, hl.1, hl.2, h⟩)
        · simp only [hl, Bool.false_eq_true, ↓reduceIte] at h
          split at h
          · split at h
            · split at h <;> cases h
            · cases h
          · split at h
            · split at h
              · split at h <;> cases h
              · cases h
            · cases h

/-- on a valid package, in a selection form the property talks about and outside the finding regions, the model meets the specification -/
theorem valid_meets (cmd : Cmd) (pkg : Pkg) (fl : Flags) (hv : validPkg pkg = true) (h : regionValid cmd pkg fl = .WF) :
    ∃ s, spec cmd pkg fl = some s ∧ meets (run cmd pkg fl) s = true := by
  have v := validFacts hv
  unfold regionValid at h
  cases hm : mode fl with
  | none => simp [hm] at h
  | some md =>
    cases md with
    | file f sep =>
      simp only [hm] at h
      cases hin : (pkg.map File.name).contains f with
      | true => exact file_mode_meets cmd pkg fl v hm hin
      | false => rw [hin] at h; simp at h
    | star sep =>
      simp only [hm] at h
      apply star_mode_meets cmd pkg fl v hm
      by_cases he : (eligibleIn cmd pkg none).isEmpty = true
      · exact Or.inl he
      · right
        simp only [he, Bool.false_eq_true, ↓reduceIte] at h
        cases hg : (pkg.find? (fun f => f.comments.any (isDirective fl.cmdline))).map (·.name) with
        | none => simp only [hg] at h; cases sep <;> simp at h
        | some g0 =>
          refine ⟨g0, rfl, ?_⟩
          intro hs n hn
          simp only [hg, hs, Bool.true_and] at h
          by_cases hall : (eligibleIn cmd pkg none).all (fun n => fileOf pkg n == some g0) = true
          · simp only [List.all_eq_true, beq_iff_eq] at hall
            exact hall n hn
          · simp [hall] at h
    | named ns file =>
      simp only [hm] at h
      by_cases hnd : ns.Nodup
      · simp only [hnd, decide_true, Bool.not_true, Bool.false_eq_true, ↓reduceIte] at h
        have hfm : fileMissing pkg file = false := by
          cases hx : fileMissing pkg file with
          | false => rfl
          | true => rw [hx] at h; simp at h
        have hfile : ∀ g, file = some g → (pkg.map File.name).contains g = true := by
          intro g hg
          subst hg
          simpa [fileMissing] using hfm
        simp only [hfm, Bool.false_eq_true, ↓reduceIte] at h
        by_cases hb : (ns.filter (fun n => !good cmd pkg file n)).isEmpty = true
        · apply named_good_meets cmd pkg fl v hm hnd hfile
          intro n hn
          simp only [List.isEmpty_iff, List.filter_eq_nil_iff, Bool.not_eq_true', Bool.not_eq_false] at hb
          exact hb n hn
        · have hbad : ∃ n ∈ ns, good cmd pkg file n = false := by
            cases hl : ns.filter (fun n => !good cmd pkg file n) with
            | nil => simp [hl] at hb
            | cons a r =>
              have : a ∈ ns.filter (fun n => !good cmd pkg file n) := by simp [hl]
              simp only [List.mem_filter, Bool.not_eq_true'] at this
              exact ⟨a, this.1, this.2⟩
          exact named_bad_meets cmd pkg fl v hm hnd hfile hbad
      · simp [hnd] at h

theorem region_of_valid {cmd : Cmd} {pkg : Pkg} {fl : Flags} (hv : validPkg pkg = true) (h : regionValid cmd pkg fl = .WF) :
    region cmd pkg fl = .WF := by
  simp [region, hv, h]

/-! ### `new` does not look into function bodies: model and specification are invariant under `stripNew` -/

theorem stripNew_cons (f : File) (r : Pkg) :
    stripNew (f :: r) = { f with decls := f.decls.map stripDecl } :: stripNew r := rfl

theorem topSpecs_strip (ds : List Decl) : topSpecs (ds.map stripDecl) = topSpecs ds := by
  induction ds with
  | nil => rfl
  | cons d r ih => cases d <;> simp [stripDecl, topSpecs, ih]

theorem names_strip (pkg : Pkg) : (stripNew pkg).map File.name = pkg.map File.name := by
  simp [stripNew, List.map_map, Function.comp_def]

theorem declared_strip (pkg : Pkg) : declared (stripNew pkg) = declared pkg := by
  induction pkg with
  | nil => rfl
  | cons f r ih => simp only [stripNew_cons, declared, topSpecs_strip, ih]

theorem getGoFile_strip (n : String) (pkg : Pkg) : getGoFile n (stripNew pkg) = getGoFile n pkg := by
  induction pkg with
  | nil => rfl
  | cons f r ih => simp only [stripNew_cons, getGoFile, topSpecs_strip, ih]

theorem findAllInOne_strip (cl : String) (pkg : Pkg) : findAllInOne cl (stripNew pkg) = findAllInOne cl pkg := by
  induction pkg with
  | nil => rfl
  | cons f r ih => simp only [stripNew_cons, findAllInOne, ih]

theorem testedTop_strip (file : String) (pkg : Pkg) : testedTop file (stripNew pkg) = testedTop file pkg := by
  induction pkg with
  | nil => rfl
  | cons f r ih => simp only [stripNew_cons, testedTop, topSpecs_strip, ih]

theorem allTop_strip (pkg : Pkg) : allTop (stripNew pkg) = allTop pkg := by
  induction pkg with
  | nil => rfl
  | cons f r ih => simp only [stripNew_cons, allTop, topSpecs_strip, ih]

theorem makeData_new_strip (pkg : Pkg) (sp : Bool) (n : String) :
    makeData .new (stripNew pkg) sp n = makeData .new pkg sp n := by
  unfold makeData namedTop
  rw [allTop_strip]

theorem keep_new_strip (pkg : Pkg) (sp : Bool) (l : List String) : keep .new (stripNew pkg) sp l = keep .new pkg sp l := by
  induction l with
  | nil => rfl
  | cons n r ih => simp only [keep, makeData_new_strip, ih]

theorem confirm_strip (pkg : Pkg) (file : String) (l : List String) : confirm (stripNew pkg) file l = confirm pkg file l := by
  induction l with
  | nil => rfl
  | cons n r ih => simp only [confirm, getGoFile_strip, ih]

theorem run_new_strip (pkg : Pkg) (fl : Flags) : run .new (stripNew pkg) fl = run .new pkg fl := by
  have h1 : flagCheck (stripNew pkg) fl = flagCheck pkg fl := by simp only [flagCheck, names_strip]
  have hne : (Cmd.new == Cmd.enum) = false := by decide
  have h2 : confirmTypes .new (stripNew pkg) fl = confirmTypes .new pkg fl := by
    simp only [confirmTypes, confirm_strip, listTypes, testedTop_strip, hne, Bool.false_and]
  have h3 : aioOf (stripNew pkg) fl = aioOf pkg fl := by simp only [aioOf, findAllInOne_strip]
  simp only [run, h1, h2, h3, keep_new_strip]

theorem findDecl_strip (pkg : Pkg) (n : String) : findDecl (stripNew pkg) n = findDecl pkg n := by
  simp only [findDecl, declared_strip]

theorem fileOf_strip (pkg : Pkg) (n : String) : fileOf (stripNew pkg) n = fileOf pkg n := by
  simp only [fileOf, findDecl_strip]

theorem good_new_strip (pkg : Pkg) (file : Option String) (n : String) :
    good .new (stripNew pkg) file n = good .new pkg file n := by
  simp only [good, findDecl_strip, acceptable]

theorem eligible_new_strip (pkg : Pkg) (t : TSpec) : eligible .new (stripNew pkg) t = eligible .new pkg t := by
  simp only [eligible]

theorem eligibleIn_new_strip (pkg : Pkg) (inFile : Option String) :
    eligibleIn .new (stripNew pkg) inFile = eligibleIn .new pkg inFile := by
  simp only [eligibleIn, declared_strip, eligible]

theorem perType_strip (pkg : Pkg) : perType (stripNew pkg) = perType pkg := by
  funext n; simp only [perType, fileOf_strip]

theorem find_directive_strip (cl : String) (pkg : Pkg) :
    ((stripNew pkg).find? (fun f => f.comments.any (isDirective cl))).map (·.name)
      = (pkg.find? (fun f => f.comments.any (isDirective cl))).map (·.name) := by
  induction pkg with
  | nil => rfl
  | cons f r ih =>
    simp only [stripNew_cons, List.find?_cons]
    cases h : f.comments.any (isDirective cl) with
    | true => simp
    | false => simpa using ih

theorem spec_new_strip (pkg : Pkg) (fl : Flags) : spec .new (stripNew pkg) fl = spec .new pkg fl := by
  unfold spec
  simp only [good_new_strip, eligibleIn_new_strip, find_directive_strip, perType_strip]

theorem noLocals_strip (ds : List Decl) : noLocals (ds.map stripDecl) = true := by
  induction ds with
  | nil => rfl
  | cons d r ih => cases d <;> simp [stripDecl, noLocals, ih]

theorem constsValid_strip (ds : List Decl) : constsValid (ds.map stripDecl) = true := by
  induction ds with
  | nil => rfl
  | cons d r ih => cases d <;> simp [stripDecl, constsValid, ih]

theorem constTypes_strip (ds : List Decl) : constTypes (ds.map stripDecl) = [] := by
  induction ds with
  | nil => rfl
  | cons d r ih => cases d <;> simp [stripDecl, constTypes, ih]

theorem validPkg_strip {pkg : Pkg} (h : validPkgL pkg = true) : validPkg (stripNew pkg) = true := by
  unfold validPkgL at h
  unfold validPkg constTypesOK
  simp only [Bool.and_eq_true] at h ⊢
  obtain ⟨⟨⟨⟨h1, h2⟩, h3⟩, h4⟩, h5⟩ := h
  rw [names_strip, declared_strip]
  refine ⟨⟨⟨⟨⟨h1, h2⟩, h3⟩, ?_⟩, ?_⟩, h5⟩
  · rw [List.all_eq_true]
    intro g hg
    simp only [stripNew, List.mem_map] at hg
    obtain ⟨f, hf, rfl⟩ := hg
    have := List.all_eq_true.mp h4 f hf
    simp only [Bool.and_eq_true] at this
    simp only [noLocals_strip, constsValid_strip, Bool.true_and]
    exact this.2
  · rw [List.all_eq_true]
    intro g hg
    simp only [stripNew, List.mem_map] at hg
    obtain ⟨f, hf, rfl⟩ := hg
    simp only [constTypes_strip, List.all_nil]

/-! ### output names have no path separator -/

theorem toLower_slash (c : Char) (h : c.toLower = '/') : c = '/' := by
  unfold Char.toLower at h
  split at h
  · rename_i hu
    exfalso
    have h2 := congrArg Char.val h
    simp only at h2
    have h3 : c.val.toNat + 32 = 47 := by
      have := congrArg UInt32.toNat h2
      have e : ('a'.val - 'A'.val) = 32 := by decide
      rw [e] at this
      have hle : c.val.toNat ≤ 90 := UInt32.le_iff_toNat_le.mp hu.2
      rw [UInt32.toNat_add] at this
      have h4 : (c.val.toNat + (32 : UInt32).toNat) % 2 ^ 32 = c.val.toNat + 32 := by
        have : (32 : UInt32).toNat = 32 := by decide
        rw [this]; omega
      rw [h4] at this
      have h5 : ('/' : Char).val.toNat = 47 := by decide
      omega
    have hge : 65 ≤ c.val.toNat := UInt32.le_iff_toNat_le.mp hu.1
    omega
  · exact h

theorem noSep_iff {s : String} : noSep s = true ↔ '/' ∉ s.toList := by
  simp [noSep]

theorem noSep_stem {f : String} (h : noSep f = true) : noSep (stem f) = true := by
  rw [noSep_iff] at h ⊢
  unfold stem
  split
  · rw [String.toList_ofList]
    exact fun h' => h (List.mem_of_mem_take h')
  · exact h

theorem noSep_comp {t : String} (h : noSep t = true) : noSep (comp t) = true := by
  rw [noSep_iff] at h ⊢
  unfold comp lower
  intro hm
  rw [String.toList_append, List.mem_append] at hm
  rcases hm with hm | hm
  · split at hm
    · simp at hm
    · have : "_".toList = ['_'] := by decide
      rw [this] at hm
      simp at hm
  · rw [String.toList_ofList, List.mem_map] at hm
    obtain ⟨c, hc, hcl⟩ := hm
    exact h (toLower_slash c hcl ▸ hc)

theorem declared_file_mem {pkg : Pkg} {f : String} {t : TSpec} (h : (f, t) ∈ declared pkg) : f ∈ pkg.map File.name := by
  induction pkg with
  | nil => simp [declared] at h
  | cons g r ih =>
    simp only [declared, List.mem_append, List.mem_map] at h
    rcases h with ⟨_, _, he⟩ | h
    · simp only [Prod.mk.injEq] at he
      simp [he.1.symm]
    · simp [ih h]

theorem fileOf_mem {pkg : Pkg} {n f : String} (h : fileOf pkg n = some f) : f ∈ pkg.map File.name := by
  unfold fileOf at h
  cases hd : findDecl pkg n with
  | none => simp [hd] at h
  | some ft =>
    obtain ⟨g, t⟩ := ft
    simp only [hd, Option.map_some, Option.some.injEq] at h
    subst h
    exact declared_file_mem (findDecl_some hd).1

end ShootVerif.Cli
