import ShootVerif.Spec.Cli
/-! helper lemmas for C16 (property theorems are in Props/C16.lean) -/
set_option linter.unusedSimpArgs false
set_option linter.unusedVariables false
namespace ShootVerif.Cli

/-! ### walking the syntax without function-local types -/

theorem declsTSpecs_eq_top (ds : List Decl) (h : noLocals ds = true) : declsTSpecs ds = topSpecs ds := by
  induction ds with
  | nil => rfl
  | cons d r ih =>
    cases d with
    | types ss => simp [declsTSpecs, topSpecs, Decl.tspecs, noLocals] at *; exact ih h
    | consts ss => simp [declsTSpecs, topSpecs, Decl.tspecs, noLocals] at *; exact ih h
    | func tps ls =>
      simp [declsTSpecs, topSpecs, Decl.tspecs, noLocals] at *
      rw [h.1]; simpa using ih h.2
    | other => simp [declsTSpecs, topSpecs, Decl.tspecs, noLocals] at *; exact ih h

theorem allTSpecs_eq (pkg : Pkg) (h : ∀ f ∈ pkg, noLocals f.decls = true) :
    allTSpecs pkg = (declared pkg).map (·.2) := by
  induction pkg with
  | nil => rfl
  | cons f r ih =>
    simp only [allTSpecs, declared, List.map_append, List.map_map, File.tspecs]
    rw [declsTSpecs_eq_top _ (h f (by simp)), ih (fun g hg => h g (by simp [hg]))]
    simp [Function.comp_def]

/-- TestFile over the declarations of the package -/
def inFileB (file : String) (ft : String × TSpec) : Bool := file == "" || ft.1 == file

theorem testedSpecs_eq (file : String) (pkg : Pkg) (h : ∀ f ∈ pkg, noLocals f.decls = true) :
    testedSpecs file pkg = ((declared pkg).filter (inFileB file)).map (·.2) := by
  induction pkg with
  | nil => rfl
  | cons f r ih =>
    simp only [testedSpecs, declared, List.filter_append, List.map_append, File.tspecs]
    rw [declsTSpecs_eq_top _ (h f (by simp)), ih (fun g hg => h g (by simp [hg]))]
    congr 1
    by_cases hc : (file == "" || f.name == file) = true
    · simp only [hc, ↓reduceIte]
      rw [List.filter_eq_self.mpr]
      · simp [Function.comp_def]
      · intro a ha
        simp only [List.mem_map] at ha
        obtain ⟨t, _, rfl⟩ := ha
        simpa [inFileB] using hc
    · simp only [hc]
      rw [List.filter_eq_nil_iff.mpr]
      · simp
      · intro a ha
        simp only [List.mem_map] at ha
        obtain ⟨t, _, rfl⟩ := ha
        simpa [inFileB] using hc

/-! ### lookups in a list with distinct names -/

theorem filter_name_eq_singleton (l : List TSpec) (t : TSpec) (hn : (l.map (·.name)).Nodup) (ht : t ∈ l) :
    l.filter (·.name == t.name) = [t] := by
  induction l with
  | nil => cases ht
  | cons a r ih =>
    simp only [List.map_cons, List.nodup_cons] at hn
    rcases List.mem_cons.mp ht with rfl | htr
    · have : r.filter (·.name == t.name) = [] := by
        rw [List.filter_eq_nil_iff]
        intro b hb hbn
        apply hn.1
        simp only [beq_iff_eq] at hbn
        rw [← hbn]; exact List.mem_map_of_mem hb
      simp [this]
    · have hne : (a.name == t.name) = false := by
        simp only [beq_eq_false_iff_ne, ne_eq]
        intro he; apply hn.1; rw [he]; exact List.mem_map_of_mem htr
      simp [hne, ih hn.2 htr]

theorem filter_name_eq_nil (l : List TSpec) (n : String) (h : ∀ t ∈ l, t.name ≠ n) :
    l.filter (·.name == n) = [] := by
  rw [List.filter_eq_nil_iff]; intro t ht; simpa using h t ht


theorem inj_of_nodup_map {α β : Type} (f : α → β) (l : List α) (h : (l.map f).Nodup) :
    ∀ a ∈ l, ∀ b ∈ l, f a = f b → a = b := by
  induction l with
  | nil => intro a ha; cases ha
  | cons x r ih =>
    simp only [List.map_cons, List.nodup_cons] at h
    intro a ha b hb hab
    rcases List.mem_cons.mp ha with rfl | har <;> rcases List.mem_cons.mp hb with rfl | hbr
    · rfl
    · exact absurd (hab ▸ List.mem_map_of_mem hbr) h.1
    · exact absurd (hab ▸ List.mem_map_of_mem har) h.1
    · exact ih h.2 a har b hbr hab

/-! ### what `validPkg` gives -/

structure ValidFacts (pkg : Pkg) : Prop where
  files : (pkg.map File.name).Nodup
  names : ((declared pkg).map (·.2.name)).Nodup
  comps : (((declared pkg).map (·.2.name)).map comp).Nodup
  noLoc : ∀ f ∈ pkg, noLocals f.decls = true
  cval : ∀ f ∈ pkg, constsValid f.decls = true
  go : ∀ f ∈ pkg, endsGo f.name = true
  noUniv : noUniverse (allTSpecs pkg) = true
  ctypes : constTypesOK pkg = true
  nonEmpty : ∀ ft ∈ declared pkg, ft.2.name ≠ ""

theorem validFacts {pkg : Pkg} (h : validPkg pkg = true) : ValidFacts pkg := by
  simp only [validPkg, Bool.and_eq_true, decide_eq_true_eq, List.all_eq_true] at h
  obtain ⟨⟨⟨⟨⟨⟨h1, h2⟩, h3⟩, h4⟩, h5⟩, h6⟩, h7⟩ := h
  refine ⟨h1, h2, h3, fun f hf => (h4 f hf).1.1, fun f hf => (h4 f hf).1.2, fun f hf => (h4 f hf).2, h5, h6, ?_⟩
  intro ft hft he
  simp only [Bool.not_eq_true', List.contains_eq_mem, List.mem_map, decide_eq_false_iff_not, not_exists, not_and] at h7
  exact h7 ft hft he

theorem findDecl_some {pkg : Pkg} {n f : String} {t : TSpec} (h : findDecl pkg n = some (f, t)) :
    (f, t) ∈ declared pkg ∧ t.name = n := by
  unfold findDecl at h
  exact ⟨List.mem_of_find?_eq_some h, by simpa using List.find?_some h⟩

theorem findDecl_none {pkg : Pkg} {n : String} (h : findDecl pkg n = none) :
    ∀ ft ∈ declared pkg, ft.2.name ≠ n := by
  unfold findDecl at h
  intro ft hft
  simpa using (List.find?_eq_none.mp h) ft hft

theorem findDecl_of_mem {pkg : Pkg} (v : ValidFacts pkg) {f : String} {t : TSpec} (h : (f, t) ∈ declared pkg) :
    findDecl pkg t.name = some (f, t) := by
  cases hd : findDecl pkg t.name with
  | none => exact absurd rfl (findDecl_none hd (f, t) h)
  | some ft =>
    obtain ⟨g, u⟩ := ft
    obtain ⟨hm, hn⟩ := findDecl_some hd
    have := inj_of_nodup_map (fun ft : String × TSpec => ft.2.name) _ v.names _ hm _ h hn
    rw [this]

theorem namedSpecs_of_mem {pkg : Pkg} (v : ValidFacts pkg) {f : String} {t : TSpec} (h : (f, t) ∈ declared pkg) :
    namedSpecs pkg t.name = [t] := by
  unfold namedSpecs
  rw [allTSpecs_eq pkg v.noLoc]
  apply filter_name_eq_singleton
  · simpa [List.map_map, Function.comp_def] using v.names
  · exact List.mem_map_of_mem (f := (·.2)) h

theorem namedSpecs_of_none {pkg : Pkg} (v : ValidFacts pkg) {n : String} (h : findDecl pkg n = none) :
    namedSpecs pkg n = [] := by
  unfold namedSpecs
  rw [allTSpecs_eq pkg v.noLoc]
  apply filter_name_eq_nil
  intro t ht
  simp only [List.mem_map] at ht
  obtain ⟨ft, hft, rfl⟩ := ht
  exact findDecl_none h ft hft


/-! ### enum: the carried type of makeStr is Go's implicit repetition -/

theorem carry_eq_goTyped (n : String) (ss : List CSpec) (h : ss.all (fun s => s.typ.isNone || s.hasValues) = true) :
    ∀ p, carry n p ss = goTyped n p ss := by
  induction ss with
  | nil => intro p; rfl
  | cons s r ih =>
    intro p
    simp only [List.all_cons, Bool.and_eq_true] at h
    cases ht : s.typ with
    | none =>
      cases hv : s.hasValues <;> simp [carry, goTyped, ht, hv, ih h.2]
    | some t =>
      have hv : s.hasValues = true := by simpa [ht] using h.1
      simp only [carry, goTyped, ht, hv, ih h.2, ↓reduceIte]
      by_cases htn : t = n <;> simp [htn]

theorem declsConsts_eq (n : String) (ds : List Decl) (h : constsValid ds = true) :
    declsConsts n ds = goConstsDecls n ds := by
  induction ds with
  | nil => rfl
  | cons d r ih =>
    cases d with
    | consts ss =>
      simp only [constsValid, Bool.and_eq_true] at h
      simp [declsConsts, goConstsDecls, carry_eq_goTyped n ss h.1, ih h.2]
    | types ss => simpa [declsConsts, goConstsDecls, constsValid] using ih h
    | func a b => simpa [declsConsts, goConstsDecls, constsValid] using ih h
    | other => simpa [declsConsts, goConstsDecls, constsValid] using ih h

theorem constsOf_eq (n : String) (pkg : Pkg) (h : ∀ f ∈ pkg, constsValid f.decls = true) :
    constsOf n pkg = goConsts n pkg := by
  induction pkg with
  | nil => rfl
  | cons f r ih =>
    simp [constsOf, goConsts, declsConsts_eq n _ (h f (by simp)), ih (fun g hg => h g (by simp [hg]))]

theorem goTyped_nil (n : String) (ss : List CSpec) (h : ∀ s ∈ ss, s.typ ≠ some n) :
    ∀ p, p ≠ some n → goTyped n p ss = [] := by
  induction ss with
  | nil => intro p _; rfl
  | cons s r ih =>
    intro p hp
    have hs := h s (by simp)
    have hr : ∀ x ∈ r, x.typ ≠ some n := fun x hx => h x (by simp [hx])
    by_cases hv : s.hasValues = true
    · simp [goTyped, hv, hs, ih hr _ hs]
    · simp [goTyped, hv, hp, ih hr _ hp]

theorem goConstsDecls_nil (n : String) (ds : List Decl) (h : n ∉ constTypes ds) : goConstsDecls n ds = [] := by
  induction ds with
  | nil => rfl
  | cons d r ih =>
    cases d with
    | consts ss =>
      simp only [constTypes, List.mem_append, List.mem_filterMap, not_or, not_exists, not_and] at h
      simp only [goConstsDecls, ih h.2, List.append_nil]
      apply goTyped_nil n ss _ none (by simp)
      intro s hs he
      exact h.1 s hs he
    | types ss => simpa [goConstsDecls, constTypes] using ih (by simpa [constTypes] using h)
    | func a b => simpa [goConstsDecls, constTypes] using ih (by simpa [constTypes] using h)
    | other => simpa [goConstsDecls, constTypes] using ih (by simpa [constTypes] using h)

theorem goConsts_nil (n : String) (pkg : Pkg) (h : ∀ f ∈ pkg, n ∉ constTypes f.decls) : goConsts n pkg = [] := by
  induction pkg with
  | nil => rfl
  | cons f r ih =>
    simp [goConsts, goConstsDecls_nil n _ (h f (by simp)), ih (fun g hg => h g (by simp [hg]))]

/-- a type that has constants is declared with a basic underlying type -/
theorem under_of_goConsts {pkg : Pkg} (v : ValidFacts pkg) {n : String} (h : goConsts n pkg ≠ []) :
    ∃ f t, findDecl pkg n = some (f, t) ∧ t.under.isSome = true := by
  have : ∃ f ∈ pkg, n ∈ constTypes f.decls := by
    by_cases hc : ∃ f ∈ pkg, n ∈ constTypes f.decls
    · exact hc
    · exact absurd (goConsts_nil n pkg (fun f hf hn => hc ⟨f, hf, hn⟩)) h
  obtain ⟨f, hf, hn⟩ := this
  have hc := v.ctypes
  simp only [constTypesOK, List.all_eq_true] at hc
  have := hc f hf n hn
  unfold findDecl
  cases hd : (declared pkg).find? (·.2.name == n) with
  | none => simp [hd] at this
  | some ft => obtain ⟨g, t⟩ := ft; simp only [hd] at this; exact ⟨g, t, rfl, this⟩


/-! ### MakeData on a valid package -/

theorem makeData_new_decl {pkg : Pkg} (v : ValidFacts pkg) {f : String} {t : TSpec} (h : (f, t) ∈ declared pkg) (sp : Bool) :
    makeData .new pkg sp t.name = if t.shape == .struct && !underscore t.name then .ok true else .error .fatal := by
  simp only [makeData, namedSpecs_of_mem v h]
  by_cases hs : t.shape = .struct <;> by_cases hu : underscore t.name = true <;> simp [hs, hu, pure, Except.pure, throw, throwThe, MonadExceptOf.throw]

theorem makeData_new_none {pkg : Pkg} (v : ValidFacts pkg) {n : String} (h : findDecl pkg n = none) (sp : Bool) :
    makeData .new pkg sp n = .error .fatal := by
  simp [makeData, namedSpecs_of_none v h, throw, throwThe, MonadExceptOf.throw]

theorem makeData_map_decl {pkg : Pkg} (v : ValidFacts pkg) {f : String} {t : TSpec} (h : (f, t) ∈ declared pkg) (sp : Bool) :
    makeData .map pkg sp t.name =
      if t.shape == .struct then (if t.hasDest then .ok true else if sp then .error .fatal else .ok false) else .error .fatal := by
  simp only [makeData, namedSpecs_of_mem v h]
  by_cases hs : t.shape = .struct
  · simp only [List.find?, hs, beq_self_eq_true, ↓reduceIte]
    cases t.hasDest <;> cases sp <;> simp [pure, Except.pure, throw, throwThe, MonadExceptOf.throw]
  · have : (t.shape == Shape.struct) = false := by simpa using hs
    simp [List.find?, this, throw, throwThe, MonadExceptOf.throw]

theorem makeData_map_none {pkg : Pkg} (v : ValidFacts pkg) {n : String} (h : findDecl pkg n = none) (sp : Bool) :
    makeData .map pkg sp n = .error .fatal := by
  simp [makeData, namedSpecs_of_none v h, throw, throwThe, MonadExceptOf.throw]

theorem ifaceTest_noUniv (es : List Embed) (h : es.contains .universe = false) :
    ifaceTest es = some (hasRestClient es) := by
  induction es with
  | nil => rfl
  | cons e r ih =>
    cases e <;> simp_all [ifaceTest, hasRestClient]

theorem noUniv_of_mem {pkg : Pkg} (v : ValidFacts pkg) {f : String} {t : TSpec} (h : (f, t) ∈ declared pkg)
    {es : List Embed} (hs : t.shape = .iface es) : es.contains .universe = false := by
  have := v.noUniv
  rw [allTSpecs_eq pkg v.noLoc] at this
  simp only [noUniverse, List.all_eq_true, List.mem_map] at this
  have := this t ⟨(f, t), h, rfl⟩
  simpa [hs] using this

theorem makeData_rest_decl {pkg : Pkg} (v : ValidFacts pkg) {f : String} {t : TSpec} (h : (f, t) ∈ declared pkg) (sp : Bool) :
    makeData .rest pkg sp t.name = .ok true := by
  simp only [makeData, namedSpecs_of_mem v h]
  cases hs : t.shape with
  | iface es =>
    simp [restNodes, hs, ifaceTest_noUniv es (noUniv_of_mem v h hs), bind, Except.bind, pure, Except.pure]
  | struct => simp [restNodes, hs, bind, Except.bind, pure, Except.pure]
  | other => simp [restNodes, hs, bind, Except.bind, pure, Except.pure]

theorem makeData_rest_none {pkg : Pkg} (v : ValidFacts pkg) {n : String} (h : findDecl pkg n = none) (sp : Bool) :
    makeData .rest pkg sp n = .ok true := by
  simp [makeData, namedSpecs_of_none v h, restNodes, bind, Except.bind, pure, Except.pure]

theorem makeData_enum_decl {pkg : Pkg} (v : ValidFacts pkg) {f : String} {t : TSpec} (h : (f, t) ∈ declared pkg) (sp : Bool) :
    makeData .enum pkg sp t.name =
      if t.alias then .error .fatal else if (goConsts t.name pkg).isEmpty then .ok false
      else if nonIntUnder t then .error .fatal else .ok true := by
  simp only [makeData, namedSpecs_of_mem v h, constsOf_eq _ _ v.cval]
  cases ha : t.alias <;> cases hc : (goConsts t.name pkg).isEmpty <;> cases hn : nonIntUnder t <;>
    simp [ha, hc, hn, pure, Except.pure, throw, throwThe, MonadExceptOf.throw]

theorem makeData_enum_none {pkg : Pkg} (v : ValidFacts pkg) {n : String} (h : findDecl pkg n = none) (sp : Bool) :
    makeData .enum pkg sp n = .ok false := by
  have hc : goConsts n pkg = [] := by
    cases hg : goConsts n pkg with
    | nil => rfl
    | cons a r =>
      obtain ⟨f, t, hd, _⟩ := under_of_goConsts v (n := n) (by simp [hg])
      simp [h] at hd
  simp [makeData, namedSpecs_of_none v h, constsOf_eq _ _ v.cval, hc, pure, Except.pure]


/-! ### the Generate loop -/

theorem keep_ok (cmd : Cmd) (pkg : Pkg) (sp : Bool) (p : String → Bool) (l : List String)
    (h : ∀ n ∈ l, makeData cmd pkg sp n = .ok (p n)) : keep cmd pkg sp l = .ok (l.filter p) := by
  induction l with
  | nil => rfl
  | cons n r ih =>
    simp only [keep, h n (by simp), ih (fun m hm => h m (by simp [hm])), List.filter_cons]

theorem keep_fatal (cmd : Cmd) (pkg : Pkg) (sp : Bool) (l : List String)
    (hall : ∀ n ∈ l, ∀ e, makeData cmd pkg sp n = .error e → e = .fatal)
    (hex : ∃ n ∈ l, makeData cmd pkg sp n = .error .fatal) : keep cmd pkg sp l = .error .fatal := by
  induction l with
  | nil => obtain ⟨n, hn, _⟩ := hex; cases hn
  | cons n r ih =>
    simp only [keep]
    cases hm : makeData cmd pkg sp n with
    | error e => simp [hall n (by simp) e hm]
    | ok b =>
      have hex' : ∃ m ∈ r, makeData cmd pkg sp m = .error .fatal := by
        obtain ⟨m, hmem, he⟩ := hex
        rcases List.mem_cons.mp hmem with rfl | hr
        · rw [hm] at he; cases he
        · exact ⟨m, hr, he⟩
      simp [ih (fun m hm' => hall m (by simp [hm'])) hex']

theorem mainLoop_eq (m : List (OutName × List String)) : mainLoop m = (m, m.map (·.1)) := by
  induction m with
  | nil => rfl
  | cons a r ih => obtain ⟨k, v⟩ := a; simp [mainLoop, ih]

theorem upsert_new (m : List (OutName × List String)) (k : OutName) (v : List String) (h : k ∉ m.map (·.1)) :
    upsert m k v = m ++ [(k, v)] := by
  induction m with
  | nil => rfl
  | cons a r ih =>
    obtain ⟨k', v'⟩ := a
    simp only [List.map_cons, List.mem_cons, not_or] at h
    have : (k' == k) = false := by simpa using fun e => h.1 e.symm
    simp [upsert, this, ih h.2]

theorem upserts_nodup (l m : List (OutName × List String)) (h : ((m ++ l).map (·.1)).Nodup) :
    upserts m l = m ++ l := by
  induction l generalizing m with
  | nil => simp [upserts]
  | cons a r ih =>
    obtain ⟨k, v⟩ := a
    have hk : k ∉ m.map (·.1) := by
      intro hm
      simp only [List.map_append, List.map_cons] at h
      rw [List.nodup_append] at h
      exact h.2.2 k hm k (by simp) rfl
    simp only [upserts, upsert_new m k v hk]
    rw [ih (m ++ [(k, v)]) (by simpa using h)]
    simp

/-! ### LoadPackage's lookup is "the first file carrying the directive" -/

theorem commentsMatch_eq (c : String) (cs : List String) : commentsMatch c cs = cs.any (isDirective c) := by
  induction cs with
  | nil => rfl
  | cons x r ih => by_cases hx : isDirective c x = true <;> simp [commentsMatch, hx, ih]

theorem findAllInOne_eq (c : String) (pkg : Pkg) :
    findAllInOne c pkg = ((pkg.find? (fun f => f.comments.any (isDirective c))).map (·.name)).getD "" := by
  induction pkg with
  | nil => rfl
  | cons f r ih =>
    by_cases hf : f.comments.any (isDirective c) = true
    · simp [findAllInOne, commentsMatch_eq, hf, List.find?]
    · simp only [findAllInOne, commentsMatch_eq, hf, List.find?, ih]
      simp


/-! ### ListTypes followed by the Generate loop = the eligible declarations -/

def nameOf (ft : String × TSpec) : String := ft.2.name

theorem produced_of (cmd : Cmd) (pkg : Pkg) (v : ValidFacts pkg) (file : String) (listed q : TSpec → Bool)
    (hm : ∀ ft ∈ declared pkg, listed ft.2 = true → makeData cmd pkg false ft.2.name = .ok (q ft.2))
    (he : ∀ ft ∈ declared pkg, eligible cmd pkg ft.2 = (listed ft.2 && q ft.2)) :
    keep cmd pkg false ((((declared pkg).filter (inFileB file)).filter (fun ft => listed ft.2)).map nameOf)
      = .ok (((declared pkg).filter (fun ft => inFileB file ft && eligible cmd pkg ft.2)).map nameOf) := by
  let p : String → Bool := fun n => match findDecl pkg n with | some (_, t) => q t | none => false
  have hp : ∀ ft ∈ declared pkg, p ft.2.name = q ft.2 := by
    intro ft hft
    obtain ⟨f, t⟩ := ft
    simp only [p, findDecl_of_mem v hft]
  rw [keep_ok cmd pkg false p]
  · congr 1
    rw [List.filter_map, List.filter_filter, List.filter_filter]
    congr 1
    apply List.filter_congr
    intro ft hft
    simp only [Function.comp_def, nameOf, hp ft hft, he ft hft]
    cases inFileB file ft <;> cases listed ft.2 <;> cases q ft.2 <;> rfl
  · intro n hn
    simp only [List.mem_map, List.mem_filter] at hn
    obtain ⟨ft, ⟨⟨hft, _⟩, hl⟩, rfl⟩ := hn
    simp only [nameOf, hp ft hft]
    exact hm ft hft hl

theorem listNew_eq (l : List (String × TSpec)) :
    listNew (l.map (·.2)) = (l.filter (fun ft => !underscore ft.2.name && ft.2.shape == .struct)).map nameOf := by
  induction l with
  | nil => rfl
  | cons a r ih =>
    by_cases h : (!underscore a.2.name && a.2.shape == .struct) = true
    · simp [listNew, h, ih, nameOf]
    · simp only [Bool.not_eq_true] at h
      simp [listNew, h, ih]

theorem listMap_eq (l : List (String × TSpec)) :
    listMap (l.map (·.2)) = (l.filter (fun ft => ft.2.shape == .struct && exported ft.2.name)).map nameOf := by
  induction l with
  | nil => rfl
  | cons a r ih =>
    by_cases h : (a.2.shape == .struct && exported a.2.name) = true
    · simp [listMap, h, ih, nameOf]
    · simp only [Bool.not_eq_true] at h
      simp [listMap, h, ih]

def enumListed (t : TSpec) : Bool := (match t.under with | some k => k.listed | none => false) && !t.alias

theorem listEnum_cons (t : TSpec) (r : List TSpec) :
    listEnum (t :: r) = if enumListed t then t.name :: listEnum r else listEnum r := by
  obtain ⟨name, shape, al, under, tps, hd⟩ := t
  cases under with
  | none => simp [listEnum, enumListed]
  | some k => cases hk : k.listed <;> cases al <;> simp [listEnum, enumListed, hk]

theorem listEnum_eq (l : List (String × TSpec)) :
    listEnum (l.map (·.2)) = (l.filter (fun ft => enumListed ft.2)).map nameOf := by
  induction l with
  | nil => rfl
  | cons a r ih =>
    rw [List.map_cons, listEnum_cons]
    by_cases h : enumListed a.2 = true
    · simp [h, ih, nameOf]
    · simp only [Bool.not_eq_true] at h
      simp [h, ih]

def restListed (t : TSpec) : Bool := match t.shape with | .iface es => hasRestClient es | _ => false

theorem listRest_cons (t : TSpec) (r : List TSpec)
    (h : ∀ es, t.shape = .iface es → es.contains .universe = false) :
    listRest (t :: r) = (listRest r).map (fun l => if restListed t then t.name :: l else l) := by
  obtain ⟨name, shape, al, under, tps, hd⟩ := t
  cases shape with
  | iface es =>
    have := ifaceTest_noUniv es (h es rfl)
    cases hrc : hasRestClient es <;> cases hl : listRest r <;>
      simp [listRest, restListed, this, hrc, hl, bind, Except.bind, pure, Except.pure, Except.map]
  | struct => cases hl : listRest r <;> simp [listRest, restListed, hl, Except.map]
  | other => cases hl : listRest r <;> simp [listRest, restListed, hl, Except.map]

theorem listRest_eq (l : List (String × TSpec))
    (h : ∀ ft ∈ l, ∀ es, ft.2.shape = .iface es → es.contains .universe = false) :
    listRest (l.map (·.2)) = .ok ((l.filter (fun ft => restListed ft.2)).map nameOf) := by
  induction l with
  | nil => rfl
  | cons a r ih =>
    have ihr := ih (fun ft hft => h ft (by simp [hft]))
    rw [List.map_cons, listRest_cons _ _ (h a (by simp)), ihr]
    by_cases hr : restListed a.2 = true
    · simp [Except.map, hr, nameOf]
    · simp only [Bool.not_eq_true] at hr
      simp [Except.map, hr]


theorem integer_of_listed (k : BKind) (h : k.listed = true) : k.integer = true := by cases k <;> simp_all [BKind.listed, BKind.integer]

/-- file / star mode: the types for which a source is produced are the eligible declarations (of the file) -/
theorem listed_produced (cmd : Cmd) (pkg : Pkg) (v : ValidFacts pkg) (file : String) :
    ∃ L, listTypes cmd pkg file = .ok L ∧
      keep cmd pkg false L = .ok (((declared pkg).filter (fun ft => inFileB file ft && eligible cmd pkg ft.2)).map nameOf) := by
  cases cmd with
  | new =>
    refine ⟨_, by simp only [listTypes, testedSpecs_eq file pkg v.noLoc, listNew_eq]; rfl, ?_⟩
    apply produced_of .new pkg v file (fun t => !underscore t.name && t.shape == .struct) (fun _ => true)
    · intro ft hft hl
      obtain ⟨f, t⟩ := ft
      simp only [Bool.and_eq_true, Bool.not_eq_true', beq_iff_eq] at hl
      simp [makeData_new_decl v hft, hl.1, hl.2]
    · intro ft _; simp [eligible, Bool.and_comm]
  | map =>
    refine ⟨_, by simp only [listTypes, testedSpecs_eq file pkg v.noLoc, listMap_eq]; rfl, ?_⟩
    apply produced_of .map pkg v file (fun t => t.shape == .struct && exported t.name) (fun t => t.hasDest)
    · intro ft hft hl
      obtain ⟨f, t⟩ := ft
      simp only [Bool.and_eq_true, beq_iff_eq] at hl
      simp only [makeData_map_decl v hft, hl.1, beq_self_eq_true, ↓reduceIte]
      cases t.hasDest <;> simp
    · intro ft _; simp [eligible]
  | rest =>
    refine ⟨((((declared pkg).filter (inFileB file)).filter (fun ft => restListed ft.2)).map nameOf), ?_, ?_⟩
    · simp only [listTypes, testedSpecs_eq file pkg v.noLoc]
      apply listRest_eq
      intro ft hft es hs
      obtain ⟨f, t⟩ := ft
      exact noUniv_of_mem v (List.mem_filter.mp hft).1 hs
    · apply produced_of .rest pkg v file restListed (fun _ => true)
      · intro ft hft _
        obtain ⟨f, t⟩ := ft
        exact makeData_rest_decl v hft false
      · intro ft _
        obtain ⟨f, ⟨name, shape, al, under, tps, hd⟩⟩ := ft
        cases shape <;> simp [eligible, restListed]
  | enum =>
    refine ⟨_, by simp only [listTypes, testedSpecs_eq file pkg v.noLoc, listEnum_eq]; rfl, ?_⟩
    apply produced_of .enum pkg v file enumListed (fun t => !(goConsts t.name pkg).isEmpty)
    · intro ft hft hl
      obtain ⟨f, t⟩ := ft
      simp only [enumListed, Bool.and_eq_true, Bool.not_eq_true'] at hl
      have hni : nonIntUnder t = false := by
        unfold nonIntUnder
        cases hu : t.under with
        | none => rfl
        | some k => simp only [hu] at hl; simp [integer_of_listed k hl.1]
      simp only [makeData_enum_decl v hft, hl.2, hni]
      cases (goConsts t.name pkg).isEmpty <;> simp
    · intro ft _
      obtain ⟨f, ⟨name, shape, al, under, tps, hd⟩⟩ := ft
      cases under with
      | none => cases al <;> simp [eligible, enumListed]
      | some k => cases al <;> cases k.listed <;> simp [eligible, enumListed]


/-! ### confirmTypes -/

theorem pick_all_eq (l : List String) (a : String) (hne : l ≠ []) (hall : ∀ x ∈ l, x = a) : ∀ i, pick l i = a := by
  induction l with
  | nil => exact absurd rfl hne
  | cons x r ih =>
    intro i
    cases r with
    | nil => simpa [pick] using hall x (by simp)
    | cons y r' =>
      cases i with
      | zero => simpa [pick] using hall x (by simp)
      | succ j => simpa [pick] using ih (by simp) (fun z hz => hall z (by simp [hz])) j

theorem getGoFile_eq (o : Oracle) (pkg : Pkg) (n : String) (h : candsOK pkg n = true) :
    getGoFile o pkg n = (fileOf pkg n).getD "" := by
  unfold candsOK at h
  unfold getGoFile
  cases hc : cands n pkg with
  | nil =>
    simp only [hc, Option.isNone_iff_eq_none] at h
    simp [pick, h]
  | cons x r =>
    simp only [hc, List.all_eq_true, beq_iff_eq] at h
    exact pick_all_eq _ _ (by simp) h _

theorem confirm_nofile (o : Oracle) (pkg : Pkg) (ns : List String) (h : ∀ n ∈ ns, candsOK pkg n = true) :
    confirm o pkg "" ns = .ok (ns.map (fun n => (n, (fileOf pkg n).getD ""))) := by
  induction ns with
  | nil => rfl
  | cons n r ih =>
    simp [confirm, getGoFile_eq o pkg n (h n (by simp)), ih (fun m hm => h m (by simp [hm]))]

theorem confirm_file_ok (o : Oracle) (pkg : Pkg) (f : String) (hf : f ≠ "") (ns : List String)
    (h : ∀ n ∈ ns, candsOK pkg n = true) (hall : ∀ n ∈ ns, (fileOf pkg n).getD "" = f) :
    confirm o pkg f ns = .ok [] := by
  induction ns with
  | nil => rfl
  | cons n r ih =>
    simp [confirm, hf, getGoFile_eq o pkg n (h n (by simp)), hall n (by simp),
      ih (fun m hm => h m (by simp [hm])) (fun m hm => hall m (by simp [hm]))]

theorem confirm_file_bad (o : Oracle) (pkg : Pkg) (f : String) (hf : f ≠ "") (ns : List String)
    (h : ∀ n ∈ ns, candsOK pkg n = true) (hex : ∃ n ∈ ns, (fileOf pkg n).getD "" ≠ f) :
    confirm o pkg f ns = .error .fatal := by
  induction ns with
  | nil => obtain ⟨n, hn, _⟩ := hex; cases hn
  | cons n r ih =>
    simp only [confirm, getGoFile_eq o pkg n (h n (by simp))]
    have hfe : (f == "") = false := by simpa using hf
    simp only [hfe, Bool.false_eq_true, ↓reduceIte]
    by_cases hn : (fileOf pkg n).getD "" = f
    · have : (f != (fileOf pkg n).getD "") = false := by simp [hn]
      simp only [this, Bool.false_eq_true, ↓reduceIte]
      apply ih (fun m hm => h m (by simp [hm]))
      obtain ⟨m, hm, hne⟩ := hex
      rcases List.mem_cons.mp hm with rfl | hr
      · exact absurd hn hne
      · exact ⟨m, hr, hne⟩
    · have : (f != (fileOf pkg n).getD "") = true := by simpa using fun e => hn e.symm
      simp [this]


/-! ### reading the command line -/

theorem mode_file {fl : Flags} {f : String} {sep : Bool} (h : mode fl = some (.file f sep)) :
    fl.file = f ∧ f ≠ "" ∧ fl.sep = sep ∧ specifiedOf fl = false ∧ aioOf pkg fl = "" := by
  unfold mode at h
  by_cases h1 : fl.types.isEmpty = true
  · by_cases h2 : (fl.file == "") = true
    · simp [h1, h2] at h
    · simp only [h1, h2, ↓reduceIte, Option.some.injEq, Mode.file.injEq] at h
      have hne : fl.file ≠ "" := by simpa using h2
      refine ⟨h.1, h.1 ▸ hne, h.2, by simp [specifiedOf, h1], ?_⟩
      simp [aioOf, h2]
  · by_cases h3 : (fl.types == ["*"]) = true
    · by_cases h2 : (fl.file == "") = true
      · simp [h1, h2, h3] at h
      · simp only [h1, h2, h3, ↓reduceIte, Option.some.injEq, Mode.file.injEq] at h
        have hne : fl.file ≠ "" := by simpa using h2
        refine ⟨h.1, h.1 ▸ hne, h.2, by simp [specifiedOf, isStar, h3], ?_⟩
        simp [aioOf, h2]
    · by_cases h4 : (fl.types.contains "*" || fl.types.contains "") = true
      · simp [h1, h3, h4] at h
      · simp [h1, h3, h4] at h

theorem mode_star {fl : Flags} {sep : Bool} (h : mode fl = some (.star sep)) :
    fl.file = "" ∧ fl.types = ["*"] ∧ fl.sep = sep := by
  unfold mode at h
  by_cases h1 : fl.types.isEmpty = true
  · by_cases h2 : (fl.file == "") = true <;> simp [h1, h2] at h
  · by_cases h3 : (fl.types == ["*"]) = true
    · by_cases h2 : (fl.file == "") = true
      · simp only [h1, h2, h3, ↓reduceIte, Option.some.injEq, Mode.star.injEq] at h
        exact ⟨by simpa using h2, by simpa using h3, h⟩
      · simp [h1, h2, h3] at h
    · by_cases h4 : (fl.types.contains "*" || fl.types.contains "") = true
      · simp [h1, h3, h4] at h
      · simp [h1, h3, h4] at h

theorem mode_named {fl : Flags} {ns : List String} {file : Option String} (h : mode fl = some (.named ns file)) :
    fl.types = ns ∧ "*" ∉ ns ∧ "" ∉ ns ∧ file = (if fl.file == "" then none else some fl.file) ∧ specifiedOf fl = true := by
  unfold mode at h
  by_cases h1 : fl.types.isEmpty = true
  · by_cases h2 : (fl.file == "") = true <;> simp [h1, h2] at h
  · by_cases h3 : (fl.types == ["*"]) = true
    · by_cases h2 : (fl.file == "") = true <;> simp [h1, h2, h3] at h
    · by_cases h4 : (fl.types.contains "*" || fl.types.contains "") = true
      · simp [h1, h3, h4] at h
      · simp only [h1, h3, h4, ↓reduceIte, Option.some.injEq, Mode.named.injEq, Bool.false_eq_true] at h
        simp only [Bool.or_eq_true, List.contains_eq_mem, decide_eq_true_eq, not_or] at h4
        refine ⟨h.1, h.1 ▸ h4.1, h.1 ▸ h4.2, h.2.symm, ?_⟩
        simp only [specifiedOf, isStar]
        simp only [Bool.not_eq_true] at h1 h3
        simp [h1, h3]

end ShootVerif.Cli
