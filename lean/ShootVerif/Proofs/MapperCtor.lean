import ShootVerif.Proofs.Mapper
/-
Lemmas for C15: what `makeCtorMatch` puts into the constructor call.
-/
namespace ShootVerif.Mapper

/-- why a constructor argument is what it is -/
def justifiedArg (conv : List (Ty × Ty)) (fns : List (Nat × Fn)) (f : Field) (a : CtorArg) : Prop :=
  match a.strat with
  | .assign => f.ty = a.p.ty
  | .conv => (matchType conv f.ty a.p.ty).2 = true
  | .func k => ∃ fn, (k, fn) ∈ fns ∧ fn.param = f.ty ∧ fn.result = a.p.ty
  | .sub _ _ => False
  | .each _ _ => False

/-- an argument that carries a value: it is read from a readable field of the other side whose name
    matches the parameter's field and whose type admits the strategy; the parameter is then in the write-set -/
def GoodArg (conv : List (Ty × Ty)) (fns : List (Nat × Fn)) (nm : Field → Field → Bool)
    (fields params : List Field) (ws : List String) (a : CtorArg) : Prop :=
  ∃ f, a.rd = some f ∧ f ∈ fields ∧ a.p ∈ params ∧ f.isSet = false ∧ nm f a.p = true ∧
    justifiedArg conv fns f a ∧ a.p.name ∈ ws

theorem ctorFunc_some {f p : Field} {fns : List (Nat × Fn)} {k : Nat} (h : ctorFunc f p fns = some k) :
    ∃ fn, (k, fn) ∈ fns ∧ fn.param = f.ty ∧ fn.result = p.ty := by
  unfold ctorFunc at h
  cases hl : (fns.filter (fun kf => kf.2.param == f.ty && kf.2.result == p.ty)).head? with
  | none => rw [hl] at h; cases h
  | some kf =>
    rw [hl] at h
    simp only [Option.map_some, Option.some.injEq] at h
    have hm := List.mem_of_head? hl
    simp only [List.mem_filter, Bool.and_eq_true, beq_iff_eq] at hm
    exact ⟨kf.2, by rw [← h]; exact hm.1, hm.2.1, hm.2.2⟩

theorem goodArg_mono {conv fns nm fields params ws a} (n : String) (h : GoodArg conv fns nm fields params ws a) :
    GoodArg conv fns nm fields params (n :: ws) a := by
  obtain ⟨f, h1, h2, h3, h4, h5, h6, h7⟩ := h
  exact ⟨f, h1, h2, h3, h4, h5, h6, List.mem_cons_of_mem _ h7⟩

theorem ctorVisit_inv (conv : List (Ty × Ty)) (fl : List Fn) (nm : Field → Field → Bool) (fields params : List Field)
    (acc : List String × List CtorArg) (fp : Field × Field) (hf : fp.1 ∈ fields) (hp : fp.2 ∈ params)
    (h : ∀ a ∈ acc.2, GoodArg conv (indexed fl) nm fields params acc.1 a) :
    ∀ a ∈ (ctorVisit conv fl nm acc fp).2, GoodArg conv (indexed fl) nm fields params (ctorVisit conv fl nm acc fp).1 a := by
  have step : ∀ (s : Strat), fp.1.isSet = false → nm fp.1 fp.2 = true →
      justifiedArg conv (indexed fl) fp.1 ⟨fp.2, some fp.1, s⟩ →
      ∀ a ∈ acc.2 ++ [⟨fp.2, some fp.1, s⟩], GoodArg conv (indexed fl) nm fields params (fp.2.name :: acc.1) a := by
    intro s hset hnm hj a ha
    rcases List.mem_append.mp ha with ha | ha
    · exact goodArg_mono _ (h a ha)
    · simp only [List.mem_singleton] at ha
      subst ha
      exact ⟨fp.1, rfl, hf, hp, hset, hnm, hj, List.mem_cons_self⟩
  unfold ctorVisit
  split
  · exact h
  · rename_i hset
    split
    · exact h
    · rename_i hnm
      have hset' : fp.1.isSet = false := by simpa using hset
      have hnm' : nm fp.1 fp.2 = true := by simpa using hnm
      split
      · exact h
      · split
        · rename_i k hk
          exact step _ hset' hnm' (ctorFunc_some hk)
        · split
          · rename_i hsame
            exact step _ hset' hnm' (by simpa [justifiedArg, matchType] using hsame)
          · split
            · rename_i hcv
              exact step _ hset' hnm' (by simpa [justifiedArg] using hcv)
            · exact h

theorem ctorFold_inv (conv : List (Ty × Ty)) (fl : List Fn) (nm : Field → Field → Bool) (fields params : List Field)
    (vs : List (Field × Field)) (hv : ∀ fp ∈ vs, fp.1 ∈ fields ∧ fp.2 ∈ params)
    (acc : List String × List CtorArg) (h : ∀ a ∈ acc.2, GoodArg conv (indexed fl) nm fields params acc.1 a) :
    ∀ a ∈ (vs.foldl (ctorVisit conv fl nm) acc).2,
      GoodArg conv (indexed fl) nm fields params (vs.foldl (ctorVisit conv fl nm) acc).1 a := by
  induction vs generalizing acc with
  | nil => exact h
  | cons fp vs ih =>
    simp only [List.foldl_cons]
    apply ih (fun q hq => hv q (List.mem_cons_of_mem _ hq))
    exact ctorVisit_inv conv fl nm fields params acc fp (hv fp List.mem_cons_self).1 (hv fp List.mem_cons_self).2 h

theorem ctorFold_good (conv : List (Ty × Ty)) (fl : List Fn) (nm : Field → Field → Bool) (fields params : List Field)
    (ws : List String) :
    ∀ a ∈ (ctorFold conv fl nm fields params ws).2,
      GoodArg conv (indexed fl) nm fields params (ctorFold conv fl nm fields params ws).1 a := by
  unfold ctorFold
  apply ctorFold_inv
  · intro fp hfp
    simp only [List.mem_flatMap, List.mem_map] at hfp
    obtain ⟨f, hf, p, hp, rfl⟩ := hfp
    exact ⟨hf, hp⟩
  · simp

/-! ## the write-set the constructor match starts from (fields the manual hooks own) -/

theorem ctorVisit_mono (conv : List (Ty × Ty)) (fl : List Fn) (nm : Field → Field → Bool)
    (acc : List String × List CtorArg) (fp : Field × Field) : ∀ n ∈ acc.1, n ∈ (ctorVisit conv fl nm acc fp).1 := by
  intro n hn
  unfold ctorVisit
  repeat' split
  all_goals first | exact hn | exact List.mem_cons_of_mem _ hn

theorem ctorVisit_fresh (conv : List (Ty × Ty)) (fl : List Fn) (nm : Field → Field → Bool) (ws : List String)
    (acc : List String × List CtorArg) (fp : Field × Field) (hsub : ∀ n ∈ ws, n ∈ acc.1)
    (h : ∀ a ∈ acc.2, a.p.name ∉ ws) : ∀ a ∈ (ctorVisit conv fl nm acc fp).2, a.p.name ∉ ws := by
  have step : ∀ (s : Strat), ¬ (acc.1.contains fp.2.name = true) →
      ∀ a ∈ acc.2 ++ [⟨fp.2, some fp.1, s⟩], a.p.name ∉ ws := by
    intro s hc a ha
    rcases List.mem_append.mp ha with ha | ha
    · exact h a ha
    · simp only [List.mem_singleton] at ha
      subst ha
      intro hw
      exact hc (by simpa using hsub _ hw)
  unfold ctorVisit
  split
  · exact h
  · split
    · exact h
    · split
      · exact h
      · rename_i hc
        repeat' split
        all_goals first | exact h | exact step _ hc

theorem ctorFold_ws (conv : List (Ty × Ty)) (fl : List Fn) (nm : Field → Field → Bool) (ws : List String)
    (vs : List (Field × Field)) (acc : List String × List CtorArg) (hsub : ∀ n ∈ ws, n ∈ acc.1)
    (h : ∀ a ∈ acc.2, a.p.name ∉ ws) :
    (∀ n ∈ ws, n ∈ (vs.foldl (ctorVisit conv fl nm) acc).1) ∧ ∀ a ∈ (vs.foldl (ctorVisit conv fl nm) acc).2, a.p.name ∉ ws := by
  induction vs generalizing acc with
  | nil => exact ⟨hsub, h⟩
  | cons fp vs ih =>
    simp only [List.foldl_cons]
    exact ih _ (fun n hn => ctorVisit_mono conv fl nm acc fp n (hsub n hn)) (ctorVisit_fresh conv fl nm ws acc fp hsub h)

/-- names in the write-set before the constructor is matched (the fields a manual hook assigns) stay in it, and no
    constructor argument carries a value for such a name -/
theorem ctorMatch_ws (conv : List (Ty × Ty)) (fl : List Fn) (nm : Field → Field → Bool) (fields params : List Field)
    (ws : List String) :
    (∀ n ∈ ws, n ∈ (ctorMatch conv fl nm fields params ws).1) ∧
    (∀ args, (ctorMatch conv fl nm fields params ws).2 = some args → ∀ a ∈ args, a.p.name ∈ ws → a.rd = none) := by
  have hf := ctorFold_ws conv fl nm ws (fields.flatMap (fun f => params.map (fun p => (f, p)))) (ws, []) (fun _ h => h) (by simp)
  unfold ctorMatch
  split
  · exact ⟨fun _ h => h, fun args h => by cases h⟩
  · split
    · exact ⟨fun _ h => h, fun args h => by cases h⟩
    · refine ⟨hf.1, ?_⟩
      intro args hargs a ha hw
      simp only [Option.some.injEq] at hargs
      subst hargs
      simp only [List.mem_map] at ha
      obtain ⟨p, _, rfl⟩ := ha
      cases hfind : List.find? (fun a => a.p == p) (ctorFold conv fl nm fields params ws).2 with
      | none => rfl
      | some a =>
        exfalso
        rw [hfind] at hw
        exact hf.2 a (List.mem_of_find?_eq_some hfind) hw

/-- the argument list of the constructor call: one argument per parameter, in parameter order, each
    either the zero literal or a justified value read from a name-matched readable field -/
theorem ctorMatch_args (conv : List (Ty × Ty)) (fl : List Fn) (nm : Field → Field → Bool) (fields params : List Field)
    (ws ws' : List String) (args : List CtorArg) (h : ctorMatch conv fl nm fields params ws = (ws', some args)) :
    args.map (·.p) = params ∧
    ∀ a ∈ args, a.rd = none ∨ GoodArg conv (indexed fl) nm fields params ws' a := by
  unfold ctorMatch at h
  split at h
  · cases h
  · split at h
    · cases h
    · simp only [Prod.mk.injEq, Option.some.injEq] at h
      obtain ⟨hws, hargs⟩ := h
      have hinv := ctorFold_good conv fl nm fields params ws
      subst hargs
      constructor
      · rw [List.map_map]
        conv => rhs; rw [← List.map_id params]
        apply List.map_congr_left
        intro p _
        simp only [Function.comp_apply, id]
        cases hfind : List.find? (fun a => a.p == p) (ctorFold conv fl nm fields params ws).2 with
        | none => rfl
        | some a =>
          have := List.find?_some hfind
          simpa using this
      · intro a ha
        simp only [List.mem_map] at ha
        obtain ⟨p, _, rfl⟩ := ha
        cases hfind : List.find? (fun a => a.p == p) (ctorFold conv fl nm fields params ws).2 with
        | none => left; rfl
        | some a =>
          right
          simp only [Option.getD_some]
          have hm := List.mem_of_find?_eq_some hfind
          rw [← hws]
          exact hinv a hm

end ShootVerif.Mapper
