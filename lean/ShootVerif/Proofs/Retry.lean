import ShootVerif.Model.Retry
namespace ShootVerif.Retry

/-- trace of calls `a … a+m-1`, each but call 0 preceded by a sleep -/
def traceFrom : (m a : Nat) → List Event
  | 0, _ => []
  | m + 1, a => (if a > 0 then [Event.sleep] else []) ++ [Event.call a] ++ traceFrom m (a + 1)

theorem traceFrom_snoc (m a : Nat) :
    traceFrom (m + 1) a = traceFrom m a ++ ((if a + m > 0 then [Event.sleep] else []) ++ [Event.call (a + m)]) := by
  induction m generalizing a with
  | zero => simp [traceFrom]
  | succ m ih =>
    rw [traceFrom, ih (a + 1)]
    simp only [traceFrom, List.append_assoc]
    have : a + 1 + m = a + (m + 1) := by omega
    rw [this]

theorem specTrace_eq (m : Nat) : specTrace m = traceFrom m 0 := by
  induction m with
  | zero => rfl
  | succ m ih =>
    rw [specTrace, traceFrom_snoc, ih]
    by_cases h : m > 0 <;> simp [h]

theorem traceFrom_append (m k a : Nat) : traceFrom (m + k) a = traceFrom m a ++ traceFrom k (a + m) := by
  induction m generalizing a with
  | zero => simp [traceFrom]
  | succ m ih =>
    have : m + 1 + k = (m + k) + 1 := by omega
    rw [this, traceFrom, traceFrom, ih (a + 1)]
    have : a + 1 + m = a + (m + 1) := by omega
    simp [this]

/-- the loop, started at attempt `a` with `r` iterations left, in closed form -/
theorem loop_closed (script : Nat → Outcome) (r a : Nat) (last : Option (Nat × Outcome)) :
    loop script r a last =
      match firstAcceptable script r a with
      | some k => (traceFrom (k - a + 1) a, ⟨some k, none⟩)
      | none => (traceFrom r a, if r = 0 then retOf last else retOf (some (a + r - 1, script (a + r - 1)))) := by
  induction r generalizing a last with
  | zero => simp [loop, firstAcceptable, traceFrom]
  | succ r ih =>
    rw [loop, firstAcceptable]
    by_cases hacc : (script a).acceptable
    · simp [hacc, traceFrom]
    · simp only [hacc, Bool.false_eq_true, ↓reduceIte]
      rw [ih (a + 1)]
      cases hfa : firstAcceptable script r (a + 1) with
      | some k =>
        have hk : a + 1 ≤ k := by
          clear ih
          induction r generalizing a with
          | zero => simp [firstAcceptable] at hfa
          | succ r ih2 =>
            rw [firstAcceptable] at hfa
            by_cases h2 : (script (a + 1)).acceptable
            · simp [h2] at hfa; omega
            · simp [h2] at hfa
              have := ih2 (a + 1) (by simpa using h2) hfa
              omega
        simp only
        have e : k - a + 1 = (k - (a + 1) + 1) + 1 := by omega
        rw [e]; simp only [traceFrom]
      | none =>
        simp only
        by_cases hr : r = 0
        · subst hr; simp [traceFrom, retOf]
        · have e : a + 1 + r - 1 = a + (r + 1) - 1 := by omega
          simp [hr, traceFrom, e]

theorem firstAcceptable_some {script : Nat → Outcome} {k a i : Nat}
    (h : firstAcceptable script k a = some i) :
    a ≤ i ∧ i < a + k ∧ (script i).acceptable = true ∧ ∀ j, a ≤ j → j < i → (script j).acceptable = false := by
  induction k generalizing a with
  | zero => simp [firstAcceptable] at h
  | succ k ih =>
    rw [firstAcceptable] at h
    by_cases hacc : (script a).acceptable
    · simp [hacc] at h; subst h
      exact ⟨Nat.le_refl _, by omega, hacc, fun j h1 h2 => by omega⟩
    · simp [hacc] at h
      obtain ⟨h1, h2, h3, h4⟩ := ih h
      refine ⟨by omega, by omega, h3, fun j hj1 hj2 => ?_⟩
      by_cases hja : j = a
      · subst hja; simpa using hacc
      · exact h4 j (by omega) hj2

theorem firstAcceptable_none {script : Nat → Outcome} {k a : Nat}
    (h : firstAcceptable script k a = none) : ∀ j, a ≤ j → j < a + k → (script j).acceptable = false := by
  induction k generalizing a with
  | zero => intro j h1 h2; omega
  | succ k ih =>
    rw [firstAcceptable] at h
    by_cases hacc : (script a).acceptable
    · simp [hacc] at h
    · simp [hacc] at h
      intro j h1 h2
      by_cases hja : j = a
      · subst hja; simpa using hacc
      · exact ih h j (by omega) (by omega)

theorem firstAcceptable_of_first {script : Nat → Outcome} {k a i : Nat}
    (h1 : a ≤ i) (h2 : i < a + k) (hacc : (script i).acceptable = true)
    (hmin : ∀ j, a ≤ j → j < i → (script j).acceptable = false) :
    firstAcceptable script k a = some i := by
  induction k generalizing a with
  | zero => omega
  | succ k ih =>
    rw [firstAcceptable]
    by_cases hia : i = a
    · subst hia; simp [hacc]
    · have := hmin a (Nat.le_refl _) (by omega)
      simp [this]
      exact ih (by omega) (by omega) (fun j hj1 hj2 => hmin j (by omega) hj2)

theorem calls_traceFrom (m a : Nat) : calls (traceFrom m a) = m := by
  induction m generalizing a with
  | zero => rfl
  | succ m ih =>
    have := ih (a + 1)
    unfold calls at *
    rw [traceFrom]
    by_cases h : a > 0 <;> simp [h, this]

/-! ## the loop with the request-body branch (`loopB`) -/

theorem loopB_none (script : Nat → Outcome) (r a : Nat) (last : Option (Nat × Outcome)) :
    loopB script none r a last = loop script r a last := by
  induction r generalizing a last with
  | zero => simp [loopB, loop]
  | succ r ih => simp [loopB, loop, ih]

/-- the failing `GetBody` call lies outside the attempts still to come -/
theorem loopB_unreached (script : Nat → Outcome) (k r a : Nat) (last : Option (Nat × Outcome))
    (h : k < a ∨ a + r ≤ k ∨ k = 0) : loopB script (some k) r a last = loop script r a last := by
  induction r generalizing a last with
  | zero => simp [loopB, loop]
  | succ r ih =>
    have hne : ¬ (a > 0 ∧ some k = some a) := by
      intro ⟨h1, h2⟩
      have : k = a := by simpa using h2
      omega
    rw [loopB, loop, if_neg hne]
    simp only [ih (a + 1) _ (by omega : k < a + 1 ∨ a + 1 + r ≤ k ∨ k = 0)]

theorem firstAcceptable_ge {script : Nat → Outcome} {k a i : Nat}
    (h : firstAcceptable script k a = some i) : a ≤ i := (firstAcceptable_some h).1

/-- the loop when the `GetBody` call before attempt `k` fails and attempt `k` is among those still to come -/
theorem loopB_closed (script : Nat → Outcome) (k r a : Nat) (last : Option (Nat × Outcome))
    (hk : 0 < k) (h1 : a ≤ k) (h2 : k < a + r) :
    loopB script (some k) r a last =
      match firstAcceptable script (k - a) a with
      | some j => (traceFrom (j - a + 1) a, ⟨some j, none⟩)
      | none => (traceFrom (k - a) a ++ [Event.sleep],
                 if k = a then retOf last else retOf (some (k - 1, script (k - 1)))) := by
  induction r generalizing a last with
  | zero => omega
  | succ r ih =>
    rw [loopB]
    by_cases hka : k = a
    · subst hka
      have hc : (k > 0 ∧ some k = some k) := ⟨hk, rfl⟩
      simp [hc, firstAcceptable, traceFrom]
    · have hne : ¬ (a > 0 ∧ some k = some a) := by
        intro ⟨_, h⟩
        exact hka (by simpa using h)
      rw [if_neg hne]
      have e : k - a = (k - (a + 1)) + 1 := by omega
      rw [e, firstAcceptable]
      by_cases hacc : (script a).acceptable
      · simp [hacc, traceFrom]
      · simp only [hacc, Bool.false_eq_true, ↓reduceIte]
        simp only [ih (a + 1) _ (by omega : a + 1 ≤ k) (by omega : k < a + 1 + r)]
        cases hfa : firstAcceptable script (k - (a + 1)) (a + 1) with
        | some j =>
          have := firstAcceptable_ge hfa
          have e2 : j - a + 1 = (j - (a + 1) + 1) + 1 := by omega
          have e3 : traceFrom (j - a + 1) a =
              (if a > 0 then [Event.sleep] else []) ++ [Event.call a] ++ traceFrom (j - (a + 1) + 1) (a + 1) := by
            rw [e2, traceFrom]
          dsimp only
          rw [e3]
        | none =>
          simp only [traceFrom, hka, ↓reduceIte, List.append_assoc]
          by_cases hk1 : k = a + 1
          · subst hk1; simp
          · simp [hk1]

end ShootVerif.Retry
