import ShootVerif.Gen.Facts
/-!
`new` area (C02, C03, C11, C13) — shared definitions of the proof-side anchors on tables REGENERATED from /repo's current source on every run
(`Gen/Facts.lean`, harness/cmd/facts/flagguards.go): `flagGuards` = every call of a package-local function inside
internal/constructor with the command-line-flag conditions it is reached under, `flagReads` = every read of a field of
the generator's flags struct with its enclosing function.

They justify the SHAPE of the models of internal/constructor: `Ctor.walk / flatten / paramsList / bodyRec` take no flag
(the parameter list, the `def=` defaults and the nested literal of `NewT` are the same whatever flags are given);
`GetSet.accessOf` is consulted only under -getset; `Json.jsonKeys` reads tags only under -json; the option list of C13 is
switched by -opt / -short in makeNew and nowhere else. The CONTENT of those functions is tied by the correspondence runs.
A source edit that makes one of the readers depend on a flag (or stops calling it) breaks these theorems.
-/
namespace ShootVerif.NewFacts
open ShootVerif

def ctorCalls : List (String × String × String × List String) :=
  Facts.flagGuards.filter (fun g => g.1 == "internal/constructor")

def ctorReads : List (String × String) :=
  (Facts.flagReads.filter (fun r => r.1 == "internal/constructor")).map (·.2)

/-- the functions that decide what `NewT` takes and stores -/
def ctorCore : List String :=
  ["extractStructFields", "expandIfStruct", "checkShadowAndAppend", "parseDef", "parseDefComment", "parseNewComment",
   "parseNewTag", "newBody", "newBodyRec", "newParamsList", "qualifiedName", "shortName", "extractTopFiels", "parseFields"]

end ShootVerif.NewFacts
