import ShootVerif.Proofs.MapperTables
import ShootVerif.Proofs.MapperCtor
/-
C01, mapper instance — closedness of the emitted ToX / FromX: every field selector, accessor call,
constructor call, mapper-method call, recursive ToX/FromX call and embedded-pointer path that the
generated methods MENTION refers to something that is declared (by the two hand-written structs, by
the `shoot new -getset` output of an accessor-mode side, by the embedded mapper type, or by the mapper
of the helper struct type). Type-correctness of the mentions is the Go compiler's judgement (checked by
the correspondence run); this is the generator's own share of "compiles".
-/
namespace ShootVerif.Mapper
open ShootVerif.Transfer

inductive Mention where
  | field (side : Pkg) (name : String)      -- `x.Name` read or assigned: must be selectable by Go's rule
  | getter (side : Pkg) (name : String)     -- `x.Name()`
  | setter (side : Pkg) (name : String)     -- `x.SetName(v)`
  | ctor (side : Pkg)                       -- `NewT(…)`
  | mapperFn (k : Nat)                      -- `s.Fn(x)`, k-th method of the embedded mapper type
  | subMethod (ty : Ty)                     -- `x.ToX()` / `new(T).FromX(…)` on a source-package type
  | ptrPath (side : Pkg) (p : List String)  -- `x.A.B != nil`, `x.A.B = new(T)`
  deriving Repr, DecidableEq

def Input.tree (inp : Input) : Pkg → Tree
  | .src => inp.src
  | .dest => inp.dest
def Input.isNew (inp : Input) : Pkg → Bool
  | .src => inp.srcNew
  | .dest => inp.destNew
def Input.sem (inp : Input) : Pkg → SideSem
  | .src => inp.srcSem
  | .dest => inp.destSem

/-- what exists -/
def declared (inp : Input) : Mention → Bool
  | .field side n => (goResolve (inp.tree side) n).isSome
  | .getter side n => inp.isNew side && (allDecls (inp.tree side)).any (fun d => d.hasGet && pascalS d.name == n)
  | .setter side n => inp.isNew side && (allDecls (inp.tree side)).any (fun d => d.hasSet && "Set" ++ pascalS d.name == n)
  | .ctor side => inp.isNew side
  | .mapperFn k => inp.mapperPtr.isSome && k < inp.fns.length
  | .subMethod ty => ty.isStructNamed && ty.isNamedIn .src
  | .ptrPath side p => (inp.sem side).ptrs.contains p

def readMention (side : Pkg) (f : Field) : Mention := if f.isGet then .getter side f.name else .field side f.name
def writeMention (side : Pkg) (f : Field) : Mention := if f.isSet then .setter side f.name else .field side f.name

def stratMentions (srcTy : Ty) : Strat → List Mention
  | .func k => [.mapperFn k]
  | .sub _ _ => [.subMethod (elemOf srcTy)]
  | .each _ _ => [.subMethod (elemOf srcTy)]
  | _ => []

/-- one guarded statement; `srcTy`: the source-package type the recursive call is made on -/
def stmtMentions (inp : Input) (rdSide wrSide : Pkg) (srcTy : Claim → Ty) (c : Claim) : List Mention :=
  (readGuard (inp.sem rdSide).ptrs c.rd).map (.ptrPath rdSide) ++
  [readMention rdSide c.rd, writeMention wrSide c.wr] ++ stratMentions (srcTy c) c.strat

def argMentions (rdSide : Pkg) (a : CtorArg) : List Mention :=
  match a.rd with
  | none => []
  | some rd => readMention rdSide rd :: (match a.strat with | .func k => [.mapperFn k] | _ => [])

def mentionsTo (inp : Input) : List Mention :=
  let p := plan inp
  (match p.destCtor with
   | some args => .ctor .dest :: args.flatMap (argMentions .src)
   | none => (tables inp p).destAlloc.map (.ptrPath .dest)) ++
  p.toStmts.flatMap (stmtMentions inp .src .dest (fun c => c.rd.ty))

def mentionsFrom (inp : Input) : List Mention :=
  let p := plan inp
  (match p.srcCtor with
   | some args => .ctor .src :: args.flatMap (argMentions .dest)
   | none => (tables inp p).srcAlloc.map (.ptrPath .src)) ++
  p.fromStmts.flatMap (stmtMentions inp .dest .src (fun c => c.wr.ty))

/-- hypotheses: Go-valid selectors on both sides; mapper methods only with an embedded mapper type; no
    statement reads a setter (the claim sites refuse setters on the reading side; kept as a checked clause
    because the claim logs are characterised under unique matching only) -/
def closedHyps (inp : Input) : Bool :=
  wfSelectors inp.src && wfSelectors inp.dest && (inp.fns.isEmpty || inp.mapperPtr.isSome) &&
  ((plan inp).st.toC ++ (plan inp).st.fromC).all (fun c => !c.rd.isSet) &&
  (((plan inp).destCtor.getD []) ++ ((plan inp).srcCtor.getD [])).all (fun a => match a.rd with | some rd => !rd.isSet | none => true)

/-! ## where field names come from -/

theorem foldl_aor_names_sub (xs fs : List Field) :
    ∀ n ∈ (xs.foldl appendOrReplace fs).map (·.name), n ∈ fs.map (·.name) ∨ n ∈ xs.map (·.name) := by
  induction xs generalizing fs with
  | nil => intro n hn; exact Or.inl hn
  | cons x xs ih =>
    intro n hn
    rcases ih (appendOrReplace fs x) n hn with h | h
    · rw [aor_names] at h
      split at h
      · exact Or.inl h
      · rcases List.mem_append.mp h with h' | h'
        · exact Or.inl h'
        · simp at h'; exact Or.inr (by simp [h'])
    · exact Or.inr (by simp [h])

theorem walkNested_names (pre : List String) (d : Nat) (t : Tree) :
    ∀ f ∈ walkNested pre d t, ∃ l ∈ leavesAt pre d t, l.decl.name = f.name := by
  induction t generalizing pre d with
  | nil => simp [walkNested]
  | field fd rest ih =>
    intro f hf
    simp only [walkNested, List.mem_append] at hf
    rcases hf with hf | hf
    · split at hf
      · cases hf
      · simp only [List.mem_singleton] at hf
        subst hf
        exact ⟨⟨pre ++ [fd.name], d, fd⟩, by simp [leavesAt], rfl⟩
    · obtain ⟨l, hl, e⟩ := ih pre d f hf
      exact ⟨l, by simp [leavesAt, hl], e⟩
  | embed n p body rest ihb ihr =>
    intro f hf
    simp only [walkNested, List.mem_append] at hf
    rcases hf with hf | hf
    · obtain ⟨l, hl, e⟩ := ihb _ _ f hf
      exact ⟨l, by simp [leavesAt, hl], e⟩
    · obtain ⟨l, hl, e⟩ := ihr _ _ f hf
      exact ⟨l, by simp [leavesAt, hl], e⟩

theorem walkTop_names (t : Tree) : ∀ f ∈ walkTop t, ∃ l ∈ leavesOf t, l.decl.name = f.name := by
  unfold leavesOf
  induction t with
  | nil => simp [walkTop]
  | field fd rest ih =>
    intro f hf
    simp only [walkTop, List.mem_append] at hf
    rcases hf with hf | hf
    · split at hf
      · cases hf
      · simp only [List.mem_singleton] at hf
        subst hf
        exact ⟨⟨[fd.name], 0, fd⟩, by simp [leavesAt], rfl⟩
    · obtain ⟨l, hl, e⟩ := ih f hf
      exact ⟨l, by simp [leavesAt, hl], e⟩
  | embed n p body rest _ ihr =>
    intro f hf
    simp only [walkTop, List.mem_append] at hf
    rcases hf with hf | hf
    · obtain ⟨l, hl, e⟩ := walkNested_names [n] 1 body f hf
      exact ⟨l, by simp [leavesAt, hl], e⟩
    · obtain ⟨l, hl, e⟩ := ihr f hf
      exact ⟨l, by simp [leavesAt, hl], e⟩

theorem flatten_names (t : Tree) : ∀ f ∈ flatten t, ∃ l ∈ leavesOf t, l.decl.name = f.name := by
  intro f hf
  have := foldl_aor_names_sub (walkTop t) [] f.name (List.mem_map_of_mem (flatten_sub t hf))
  rcases this with h | h
  · cases h
  · obtain ⟨g, hg, e⟩ := List.mem_map.mp h
    obtain ⟨l, hl, e'⟩ := walkTop_names t g hg
    exact ⟨l, hl, e'.trans e⟩

theorem mem_insertStr (x y : String) (l : List String) : y ∈ insertStr x l ↔ y = x ∨ y ∈ l := by
  induction l with
  | nil => simp [insertStr]
  | cons z zs ih =>
    simp only [insertStr]
    split
    · simp
    · simp only [List.mem_cons, ih]
      constructor
      · rintro (h | h | h)
        · exact Or.inr (Or.inl h)
        · exact Or.inl h
        · exact Or.inr (Or.inr h)
      · rintro (h | h | h)
        · exact Or.inr (Or.inl h)
        · exact Or.inl h
        · exact Or.inr (Or.inr h)

theorem mem_sortStrs (y : String) (l : List String) : y ∈ sortStrs l ↔ y ∈ l := by
  induction l with
  | nil => simp [sortStrs]
  | cons x xs ih =>
    have : sortStrs (x :: xs) = insertStr x (sortStrs xs) := rfl
    rw [this, mem_insertStr, ih]; simp

/-- a field of a side's list is a selectable struct field, a declared getter or a declared setter -/
theorem sideField_declared (inp : Input) (side : Pkg) (hw : wfSelectors (inp.tree side) = true) (f : Field)
    (hf : f ∈ sideFields (inp.tree side) (inp.isNew side)) :
    declared inp (readMention side f) = true ∨ f.isSet = true := by
  unfold sideFields at hf
  have plain : ∀ g ∈ (flatten (inp.tree side)).filter (fun f => isExported f.name),
      g.isGet = false ∧ g.isSet = false ∧ (goResolve (inp.tree side) g.name).isSome = true := by
    intro g hg
    have hg' := (List.mem_filter.mp hg).1
    have hfl := foldl_aor_flags _ [] (walkTop_flags (inp.tree side)) (by simp) g (flatten_sub _ hg')
    obtain ⟨l, hl, e⟩ := flatten_names _ g hg'
    simp only [wfSelectors, List.all_eq_true, Bool.and_eq_true] at hw
    exact ⟨hfl.1, hfl.2, e ▸ (hw l hl).1⟩
  cases hn : inp.isNew side with
  | false =>
    simp only [hn, Bool.false_eq_true, ↓reduceIte] at hf
    have := plain f hf
    left
    simp [readMention, this.1, declared, this.2.2]
  | true =>
    simp only [hn, ↓reduceIte, List.mem_append] at hf
    rcases hf with (hf | hf) | hf
    · have := plain f hf
      left
      simp [readMention, this.1, declared, this.2.2]
    · left
      simp only [newView, List.mem_map, mem_sortStrs, List.mem_filter] at hf
      obtain ⟨n, ⟨d, ⟨hd, hg⟩, rfl⟩, rfl⟩ := hf
      simp only [readMention, ↓reduceIte, declared, hn, Bool.true_and, List.any_eq_true, Bool.and_eq_true, beq_iff_eq]
      exact ⟨d, hd, hg, rfl⟩
    · right
      simp only [newView, List.mem_map] at hf
      obtain ⟨n, _, rfl⟩ := hf
      rfl

theorem sideField_write_declared (inp : Input) (side : Pkg) (hw : wfSelectors (inp.tree side) = true) (f : Field)
    (hf : f ∈ sideFields (inp.tree side) (inp.isNew side)) (hg : f.isGet = false) :
    declared inp (writeMention side f) = true := by
  unfold sideFields at hf
  have plain : ∀ g ∈ (flatten (inp.tree side)).filter (fun f => isExported f.name),
      g.isSet = false ∧ (goResolve (inp.tree side) g.name).isSome = true := by
    intro g hg
    have hg' := (List.mem_filter.mp hg).1
    have hfl := foldl_aor_flags _ [] (walkTop_flags (inp.tree side)) (by simp) g (flatten_sub _ hg')
    obtain ⟨l, hl, e⟩ := flatten_names _ g hg'
    simp only [wfSelectors, List.all_eq_true, Bool.and_eq_true] at hw
    exact ⟨hfl.2, e ▸ (hw l hl).1⟩
  cases hn : inp.isNew side with
  | false =>
    simp only [hn, Bool.false_eq_true, ↓reduceIte] at hf
    have := plain f hf
    simp [writeMention, this.1, declared, this.2]
  | true =>
    simp only [hn, ↓reduceIte, List.mem_append] at hf
    rcases hf with (hf | hf) | hf
    · have := plain f hf
      simp [writeMention, this.1, declared, this.2]
    · exfalso
      simp only [newView, List.mem_map] at hf
      obtain ⟨n, _, rfl⟩ := hf
      simp at hg
    · simp only [newView, List.mem_map, mem_sortStrs, List.mem_filter] at hf
      obtain ⟨n, ⟨d, ⟨hd, hs⟩, rfl⟩, rfl⟩ := hf
      simp only [writeMention, ↓reduceIte, declared, hn, Bool.true_and, List.any_eq_true, Bool.and_eq_true, beq_iff_eq]
      exact ⟨d, hd, hs, rfl⟩


/-! ## the statements -/

theorem mem_indexed_lt {α} (l : List α) (k : Nat) (x : α) (h : (k, x) ∈ indexed l) : k < l.length := by
  unfold indexed at h
  have := (List.of_mem_zip h).1
  simpa using this

theorem elemOf_of_strip_named (t : Ty) (p : Pkg) (h : t.strip.2.isNamedIn p = true) : elemOf t = t.strip.2 := by
  cases t <;> first | rfl | (simp [Ty.strip, Ty.isNamedIn] at h)

theorem mapperFn_declared (inp : Input) (hm : (inp.fns.isEmpty || inp.mapperPtr.isSome) = true) (k : Nat) (fn : Fn)
    (h : (k, fn) ∈ indexed inp.fns) : declared inp (.mapperFn k) = true := by
  have hk := mem_indexed_lt _ _ _ h
  simp only [declared, Bool.and_eq_true, decide_eq_true_eq]
  refine ⟨?_, hk⟩
  cases hf : inp.fns with
  | nil => rw [hf] at hk; cases hk
  | cons a as => simpa [hf] using hm

theorem guard_declared (inp : Input) (side : Pkg) (f : Field) :
    ∀ m ∈ (readGuard (inp.sem side).ptrs f).map (.ptrPath side), declared inp m = true := by
  intro m hm
  obtain ⟨g, hg, rfl⟩ := List.mem_map.mp hm
  have := ((mem_hops _ _ g).mp ((readGuard_mem _ f g).mp hg)).1
  simpa [declared] using this

theorem strat_declared_to (inp : Input) (hm : (inp.fns.isEmpty || inp.mapperPtr.isSome) = true)
    (c : Claim) (hj : justified inp.conv (indexed inp.fns) .src .dest c)
    (hs : isSubStrat c.strat = true → (elemOf c.rd.ty).isStructNamed = true) :
    ∀ m ∈ stratMentions c.rd.ty c.strat, declared inp m = true := by
  intro m hmem
  unfold justified at hj
  cases hst : c.strat with
  | assign => simp [stratMentions, hst] at hmem
  | conv => simp [stratMentions, hst] at hmem
  | func k =>
    simp only [stratMentions, hst, List.mem_singleton] at hmem
    subst hmem
    rw [hst] at hj
    obtain ⟨fn, hk, _, _⟩ := hj
    exact mapperFn_declared inp hm k fn hk
  | sub r w =>
    simp only [stratMentions, hst, List.mem_singleton] at hmem
    subst hmem
    rw [hst] at hj
    have hn := hj.2.2.1
    have hstruct := hs (by simp [hst, isSubStrat])
    simp only [declared, Bool.and_eq_true]
    exact ⟨hstruct, by rw [elemOf_of_strip_named _ _ hn]; exact hn⟩
  | each r w =>
    simp only [stratMentions, hst, List.mem_singleton] at hmem
    subst hmem
    rw [hst] at hj
    obtain ⟨e1, e2, h1, _, _, _, hn, _⟩ := hj
    have hstruct := hs (by simp [hst, isSubStrat])
    simp only [declared, Bool.and_eq_true]
    refine ⟨hstruct, ?_⟩
    rw [h1]; exact hn

theorem strat_declared_from (inp : Input) (hm : (inp.fns.isEmpty || inp.mapperPtr.isSome) = true)
    (c : Claim) (hj : justified inp.conv (indexed inp.fns) .dest .src c)
    (hs : isSubStrat c.strat = true → (elemOf c.wr.ty).isStructNamed = true) :
    ∀ m ∈ stratMentions c.wr.ty c.strat, declared inp m = true := by
  intro m hmem
  unfold justified at hj
  cases hst : c.strat with
  | assign => simp [stratMentions, hst] at hmem
  | conv => simp [stratMentions, hst] at hmem
  | func k =>
    simp only [stratMentions, hst, List.mem_singleton] at hmem
    subst hmem
    rw [hst] at hj
    obtain ⟨fn, hk, _, _⟩ := hj
    exact mapperFn_declared inp hm k fn hk
  | sub r w =>
    simp only [stratMentions, hst, List.mem_singleton] at hmem
    subst hmem
    rw [hst] at hj
    have hn := hj.2.2.2
    have hstruct := hs (by simp [hst, isSubStrat])
    simp only [declared, Bool.and_eq_true]
    exact ⟨hstruct, by rw [elemOf_of_strip_named _ _ hn]; exact hn⟩
  | each r w =>
    simp only [stratMentions, hst, List.mem_singleton] at hmem
    subst hmem
    rw [hst] at hj
    obtain ⟨e1, e2, _, h2, _, _, _, hn⟩ := hj
    have hstruct := hs (by simp [hst, isSubStrat])
    simp only [declared, Bool.and_eq_true]
    refine ⟨hstruct, ?_⟩
    rw [h2]; exact hn

theorem plan_fields (inp : Input) :
    (plan inp).srcFields = sideFields (inp.tree .src) (inp.isNew .src) ∧
    (plan inp).destFields = sideFields (inp.tree .dest) (inp.isNew .dest) := ⟨rfl, rfl⟩

theorem ctor_side_new (conv : List (Ty × Ty)) (fl : List Fn) (nm : Field → Field → Bool) (fields : List Field)
    (t : Tree) (isNew : Bool) (ws : List String) (args : List CtorArg)
    (h : (ctorMatch conv fl nm fields (sideParams t isNew) ws).2 = some args) : isNew = true := by
  cases isNew with
  | true => rfl
  | false => simp [sideParams, ctorMatch] at h

theorem args_declared (inp : Input) (rdSide : Pkg) (hw : wfSelectors (inp.tree rdSide) = true)
    (hm : (inp.fns.isEmpty || inp.mapperPtr.isSome) = true) (nm : Field → Field → Bool) (params : List Field)
    (ws ws' : List String) (args : List CtorArg)
    (h : ctorMatch inp.conv inp.fns nm (sideFields (inp.tree rdSide) (inp.isNew rdSide)) params ws = (ws', some args))
    (hset : ∀ a ∈ args, ∀ rd, a.rd = some rd → rd.isSet = false) :
    ∀ m ∈ args.flatMap (argMentions rdSide), declared inp m = true := by
  intro m hmem
  obtain ⟨a, ha, hma⟩ := List.mem_flatMap.mp hmem
  have hgood := (ctorMatch_args _ _ _ _ _ _ _ _ h).2 a ha
  unfold argMentions at hma
  cases hrd : a.rd with
  | none => simp [hrd] at hma
  | some rd =>
    simp only [hrd, List.mem_cons] at hma
    rcases hgood with h0 | ⟨f, h1, h2, _, _, _, hj, _⟩
    · rw [hrd] at h0; cases h0
    · rw [hrd] at h1
      cases h1
      rcases hma with rfl | hma
      · rcases sideField_declared inp rdSide hw rd h2 with hd | hd
        · exact hd
        · rw [hset a ha rd hrd] at hd; cases hd
      · unfold justifiedArg at hj
        cases hst : a.strat with
        | func k =>
          simp only [hst, List.mem_singleton] at hma
          subst hma
          rw [hst] at hj
          obtain ⟨fn, hk, _, _⟩ := hj
          exact mapperFn_declared inp hm k fn hk
        | assign => simp [hst] at hma
        | conv => simp [hst] at hma
        | sub r w => simp [hst] at hma
        | each r w => simp [hst] at hma

/-- closedness of the emitted mapper: under `closedHyps` everything ToX and FromX mention is declared -/
theorem map_closed (inp : Input) (h : closedHyps inp = true) :
    (mentionsTo inp ++ mentionsFrom inp).all (declared inp) = true := by
  simp only [closedHyps, Bool.and_eq_true, Bool.not_eq_true', List.all_eq_true] at h
  obtain ⟨⟨⟨⟨hws, hwd⟩, hm⟩, hrdset⟩, hargset⟩ := h
  obtain ⟨w0D, w0S, hinv⟩ := plan_inv inp
  -- a recursive mapping is only ever chosen for STRUCT types of the two packages
  have hstruct : ∀ (rdPkg wrPkg : Pkg) (c : Claim), justified inp.conv (indexed inp.fns) rdPkg wrPkg c →
      isSubStrat c.strat = true → (elemOf c.rd.ty).isStructNamed = true ∧ (elemOf c.wr.ty).isStructNamed = true := by
    intro rdPkg wrPkg c hj hsub
    unfold justified at hj
    cases hst : c.strat with
    | assign => simp [hst, isSubStrat] at hsub
    | conv => simp [hst, isSubStrat] at hsub
    | func k => simp [hst, isSubStrat] at hsub
    | sub r w =>
      rw [hst] at hj
      obtain ⟨_, _, h1, h2⟩ := hj
      exact ⟨by rw [elemOf_of_strip_named _ _ h1]; exact isNamedIn_struct _ _ h1,
             by rw [elemOf_of_strip_named _ _ h2]; exact isNamedIn_struct _ _ h2⟩
    | each r w =>
      rw [hst] at hj
      obtain ⟨e1, e2, h1, h2, _, _, hn1, hn2⟩ := hj
      rw [h1, h2]
      exact ⟨isNamedIn_struct _ _ hn1, isNamedIn_struct _ _ hn2⟩
  have hargset' : ∀ args, ((plan inp).destCtor = some args ∨ (plan inp).srcCtor = some args) →
      ∀ a ∈ args, ∀ rd, a.rd = some rd → rd.isSet = false := by
    intro args hor a ha rd hrd
    have : a ∈ ((plan inp).destCtor.getD []) ++ ((plan inp).srcCtor.getD []) := by
      rcases hor with e | e <;> simp [e, ha]
    have := hargset a this
    simpa [hrd] using this
  rw [List.all_eq_true]
  intro m hmem
  rcases List.mem_append.mp hmem with hmem | hmem
  · -- ToX
    unfold mentionsTo at hmem
    rcases List.mem_append.mp hmem with hpre | hst
    · cases hc : (plan inp).destCtor with
      | none =>
        simp only [hc, List.mem_map] at hpre
        obtain ⟨p, hp, rfl⟩ := hpre
        have := ((mem_allocPaths _ _ _ p).mp hp).1
        simp only [declared, Input.sem, List.contains_iff_mem]
        exact this
      | some args =>
        simp only [hc, List.mem_cons] at hpre
        have hcm : (ctorMatch inp.conv inp.fns inp.nm (sideFields inp.src inp.srcNew) (sideParams inp.dest inp.destNew) inp.manualW).2 = some args := hc
        rcases hpre with rfl | hpre
        · simpa [declared, Input.isNew] using ctor_side_new _ _ _ _ _ _ _ _ hcm
        · exact args_declared inp .src hws hm inp.nm _ inp.manualW _ args (Prod.ext rfl hcm) (hargset' args (Or.inl hc)) m hpre
    · obtain ⟨c, hc, hmc⟩ := List.mem_flatMap.mp hst
      have hcl := (stmts_sub hc).1
      have hpair := hinv.toPair c hcl
      have hmp := (mem_pairs _ _ _ _ _).mp hpair.1
      unfold stmtMentions at hmc
      rcases List.mem_append.mp hmc with hmc | hmc
      · rcases List.mem_append.mp hmc with hmc | hmc
        · exact guard_declared inp .src c.rd m hmc
        · simp only [List.mem_cons, List.mem_singleton, List.not_mem_nil, or_false] at hmc
          rcases hmc with rfl | rfl
          · rcases sideField_declared inp .src hws c.rd hmp.1 with hd | hd
            · exact hd
            · have := hrdset c (List.mem_append_left _ hcl)
              rw [hd] at this; cases this
          · exact sideField_write_declared inp .dest hwd c.wr hmp.2.1 (hinv.toIn c hcl).2.2
      · exact strat_declared_to inp hm c hpair.2 (fun hs => (hstruct _ _ c hpair.2 hs).1) m hmc
  · -- FromX
    unfold mentionsFrom at hmem
    rcases List.mem_append.mp hmem with hpre | hst
    · cases hc : (plan inp).srcCtor with
      | none =>
        simp only [hc, List.mem_map] at hpre
        obtain ⟨p, hp, rfl⟩ := hpre
        have := ((mem_allocPaths _ _ _ p).mp hp).1
        simp only [declared, Input.sem, List.contains_iff_mem]
        exact this
      | some args =>
        simp only [hc, List.mem_cons] at hpre
        have hcm : (ctorMatch inp.conv inp.fns (fun f p => inp.nm p f) (sideFields inp.dest inp.destNew) (sideParams inp.src inp.srcNew) inp.readKeys).2 = some args := hc
        rcases hpre with rfl | hpre
        · simpa [declared, Input.isNew] using ctor_side_new _ _ _ _ _ _ _ _ hcm
        · exact args_declared inp .dest hwd hm _ _ inp.readKeys _ args (Prod.ext rfl hcm) (hargset' args (Or.inr hc)) m hpre
    · obtain ⟨c, hc, hmc⟩ := List.mem_flatMap.mp hst
      have hcl := (stmts_sub hc).1
      have hpair := hinv.fromPair c hcl
      have hmp := (mem_pairs _ _ _ _ _).mp hpair.1
      unfold stmtMentions at hmc
      rcases List.mem_append.mp hmc with hmc | hmc
      · rcases List.mem_append.mp hmc with hmc | hmc
        · exact guard_declared inp .dest c.rd m hmc
        · simp only [List.mem_cons, List.mem_singleton, List.not_mem_nil, or_false] at hmc
          rcases hmc with rfl | rfl
          · rcases sideField_declared inp .dest hwd c.rd hmp.2.1 with hd | hd
            · exact hd
            · have := hrdset c (List.mem_append_right _ hcl)
              rw [hd] at this; cases this
          · exact sideField_write_declared inp .src hws c.wr hmp.1 (hinv.fromIn c hcl).2.2
      · exact strat_declared_from inp hm c hpair.2 (fun hs => (hstruct _ _ c hpair.2 hs).2) m hmc


/-- name under which Props/C01.lean can state it: `shoot map`, closedness — under `closedHyps` every field
    selector, getter / setter call, constructor call, mapper-method call, recursive ToX/FromX call and
    embedded-pointer path mentioned by the emitted ToX and FromX is declared -/
theorem C01_closed_map (inp : Input) (h : closedHyps inp = true) :
    (mentionsTo inp ++ mentionsFrom inp).all (declared inp) = true := map_closed inp h

/-- non-vacuity input -/
def exClosed : Input :=
  let sub := Ty.named .src "Sub" (.struct "N:int")
  let subD := Ty.named .dest "Sub" (.struct "N:int,Other:string")
  { src := .embed "Base" true (.field { name := "ID", ty := .basic "int" } .nil)
            (.field { name := "Name", ty := .basic "string" } (.field { name := "Sub", ty := .ptr sub } .nil)),
    dest := .field { name := "id", ty := .basic "int64" } (.field { name := "name", ty := .basic "string", get := true }
            (.field { name := "Sub", ty := subD } .nil)),
    destNew := true,
    fns := [{ name := "Fn0", param := .basic "int", result := .basic "int64" }], mapperPtr := some false,
    conv := [(.basic "int", .basic "int64"), (.basic "int64", .basic "int")] }

example : closedHyps exClosed = true := by decide +kernel
example : mentionsTo exClosed =
    [.ctor .dest, .field .src "ID", .mapperFn 0, .field .src "Name",
     .field .src "Sub", .field .dest "Sub", .subMethod (.named .src "Sub" (.struct "N:int"))] := by decide +kernel
example : (mentionsFrom exClosed).contains (.getter .dest "Id") = true ∧
    (mentionsFrom exClosed).contains (.ptrPath .src ["Base"]) = true := by decide +kernel

/-- a set-only field on the reading side is no longer read as a method value (was F_setOnlyRead): the
    hypotheses hold, FromX mentions nothing of it -/
example : closedHyps { src := .field { name := "Wo", ty := .basic "int" } .nil,
                       dest := .field { name := "wo", ty := .basic "int", set := true } .nil, destNew := true } = true := by
  decide +kernel

end ShootVerif.Mapper
