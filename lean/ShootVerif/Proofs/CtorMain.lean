import ShootVerif.Proofs.CtorNames
/-! The name-keyed `nameMap` and the parameter list against the specification. -/
namespace ShootVerif.Ctor

def nonSkipped (t : Tree) : List Leaf := (leavesTop t).filter (fun l => !l.info.skip)

theorem filterMap_filter_none {α β : Type} (g : α → Option β) (p : α → Bool)
    (h : ∀ a, p a = false → g a = none) : ∀ L : List α, L.filterMap g = (L.filter p).filterMap g := by
  intro L
  induction L with
  | nil => rfl
  | cons x xs ih =>
    simp only [List.filterMap_cons, List.filter_cons]
    cases hp : p x
    · simp [h x hp, ih]
    · simp only [↓reduceIte, List.filterMap_cons, ih]

theorem filterMap_congr_mem {α β : Type} {g h : α → Option β} :
    ∀ L : List α, (∀ a ∈ L, g a = h a) → L.filterMap g = L.filterMap h := by
  intro L
  induction L with
  | nil => intro _; rfl
  | cons x xs ih =>
    intro hh
    simp only [List.filterMap_cons, hh x (by simp), ih (fun a ha => hh a (by simp [ha]))]

/-- a `filterMap` over the generator's list that ignores shadowed entries and markers is the same
    `filterMap` over the visible, non-skipped leaves of the struct -/
theorem flatten_filterMap_leaves {β : Type} (t : Tree) (g : Field → Option β) :
    (flatten t).filterMap (fun f => if f.isShadowed || f.isEmbeded then none else g f) =
      (leavesTop t).filterMap (fun l =>
        if l.info.skip || genShadow t l.depth l.info.name then none
        else g (mkField (genShadow t) l.depth l.marked l.info l.top)) := by
  rw [flatten_closed]
  rw [filterMap_filter_none _ (fun f => !f.isEmbeded)
    (by intro f hf; simp only [Bool.not_eq_eq_eq_not, Bool.not_false] at hf; simp [hf])]
  unfold walkTop
  rw [walk_fields _ t true [] false 0, List.filterMap_map, List.filterMap_filter]
  apply filterMap_congr_mem
  intro l _
  by_cases hs : l.info.skip
  · simp [hs]
  · simp only [hs, Bool.not_false, ↓reduceIte, Function.comp, Bool.false_or]
    simp only [mkField, Bool.or_false]

/-- `nameMapSimple` over the generator's list, restated over the leaves -/
theorem nameMapSimple_leaves (t : Tree) (hn : Bool) (n : String) :
    nameMapSimple hn (flatten t) n =
      if (nonSkipped t).any (fun l => decide (l.info.name = n) && !genShadow t l.depth l.info.name && !(hn && !l.marked))
      then some (paramName n) else none := by
  unfold nameMapSimple condNew
  rw [flatten_closed]
  have h1 : ∀ (L : List Field) (Q : Field → Bool),
      L.any (fun f => Q f && !f.isEmbeded) = (L.filter (fun f => !f.isEmbeded)).any Q := by
    intro L Q
    induction L with
    | nil => rfl
    | cons x xs ih =>
      simp only [List.any_cons, List.filter_cons, ih]
      cases hx : x.isEmbeded <;> simp
  have h2 : (walkTop (genShadow t) t).any
        (fun f => decide (f.name = n) && (!f.isShadowed && !f.isEmbeded && !(hn && !f.isNew))) =
      (walkTop (genShadow t) t).any
        (fun f => (decide (f.name = n) && !f.isShadowed && !(hn && !f.isNew)) && !f.isEmbeded) := by
    apply List.any_congr rfl
    intro f
    cases f.isShadowed <;> cases f.isEmbeded <;> cases hn <;> cases f.isNew <;> by_cases hname : f.name = n <;> simp [hname]
  rw [h2, h1]
  unfold walkTop
  rw [walk_fields _ t true [] false 0]
  simp only [List.any_map, nonSkipped, leavesTop]
  rfl

theorem sublist_filterMap_of_imp {α β : Type} (g h : α → Option β) : ∀ (L : List α),
    (∀ a ∈ L, ∀ b, g a = some b → h a = some b) → List.Sublist (L.filterMap g) (L.filterMap h) := by
  intro L
  induction L with
  | nil => intro _; simp
  | cons x xs ih =>
    intro himp
    have hrec := ih (fun a ha => himp a (by simp [ha]))
    simp only [List.filterMap_cons]
    cases hg : g x with
    | none =>
      cases hh : h x with
      | none => exact hrec
      | some b => exact List.Sublist.cons _ hrec
    | some b =>
      rw [himp x (by simp) b hg]
      exact List.Sublist.cons₂ _ hrec

theorem mem_visible {t : Tree} {l : Leaf} (hl : l ∈ leavesTop t)
    (hsh : genShadow t l.depth l.info.name = false) : l ∈ visibleLeaves t := by
  unfold visibleLeaves
  simp only [List.mem_filter, hl, true_and]
  have := shadow_agrees t l hl
  rw [hsh] at this
  simp [← this]

/-- the parameter entries of the generator's list are visible leaves: their parameter names are distinct
    whenever those of the visible leaves are -/
theorem condNames_nodup (t : Tree) (hn : Bool)
    (hnd : ((visibleLeaves t).map (fun l => paramName l.info.name)).Nodup) :
    (((flatten t).filter (condNew hn)).map (fun f => paramName f.name)).Nodup := by
  have e1 : ((flatten t).filter (condNew hn)).map (fun f => paramName f.name) =
      (flatten t).filterMap (fun f => if f.isShadowed || f.isEmbeded then none
        else (if !(hn && !f.isNew) then some (paramName f.name) else none)) := by
    rw [← List.filterMap_eq_map, List.filterMap_filter]
    apply filterMap_congr_mem
    intro f _
    unfold condNew
    cases f.isShadowed <;> cases f.isEmbeded <;> cases hn <;> cases f.isNew <;> rfl
  rw [e1, flatten_filterMap_leaves]
  have e2 : (visibleLeaves t).map (fun l => paramName l.info.name) =
      (leavesTop t).filterMap (fun l => if goShadowed t l.depth l.info.name then none else some (paramName l.info.name)) := by
    unfold visibleLeaves
    rw [← List.filterMap_eq_map, List.filterMap_filter]
    apply filterMap_congr_mem
    intro l _
    cases goShadowed t l.depth l.info.name <;> rfl
  rw [e2] at hnd
  refine List.Sublist.nodup (sublist_filterMap_of_imp _ _ _ ?_) hnd
  intro l hl b hb
  have hag := shadow_agrees t l hl
  rw [hag] at hb
  cases hg : goShadowed t l.depth l.info.name
  · simp only [hg, Bool.or_false] at hb
    simp only [Bool.false_eq_true, ↓reduceIte]
    by_cases hs : l.info.skip
    · simp [hs] at hb
    · simp only [hs, Bool.false_eq_true, ↓reduceIte, mkField] at hb
      cases hc : (!(hn && !l.marked))
      · simp [hc] at hb
      · simpa [hc] using hb
  · simp [hg] at hb

/-- L3: for a visible, non-skipped leaf the name-keyed map answers for that very leaf -/
theorem nameMap_of_leaf (t : Tree) (hn : Bool)
    (hnd : ((visibleLeaves t).map (fun l => paramName l.info.name)).Nodup)
    (l : Leaf) (hl : l ∈ leavesTop t) (hsk : l.info.skip = false)
    (hsh : genShadow t l.depth l.info.name = false) :
    nameMap hn (flatten t) l.info.name =
      if (!hn || l.marked) then some (paramName l.info.name) else none := by
  rw [nameMap_simple hn _ _ (condNames_nodup t hn hnd), nameMapSimple_leaves]
  have hvis := mem_visible hl hsh
  have : (nonSkipped t).any (fun l' => decide (l'.info.name = l.info.name) &&
      !genShadow t l'.depth l'.info.name && !(hn && !l'.marked)) = (!hn || l.marked) := by
    cases hb : (!hn || l.marked)
    · rw [List.any_eq_false]
      intro l' hl' hc
      simp only [Bool.and_eq_true, decide_eq_true_eq, Bool.not_eq_true'] at hc
      have hl'' : l' ∈ leavesTop t := (List.mem_filter.mp hl').1
      have hvis' := mem_visible hl'' hc.1.2
      have e : l' = l := eq_of_nodup_map hnd l' hvis' l hvis (by simp [hc.1.1])
      subst e
      cases hn <;> cases hm : l'.marked <;> simp_all
    · rw [List.any_eq_true]
      refine ⟨l, ?_, ?_⟩
      · simp [nonSkipped, hl, hsk]
      · cases hn <;> cases hm : l.marked <;> simp_all
  rw [this]

/-- the parameter-name function of the model, on a leaf -/
def leafParam (t : Tree) (hn : Bool) (l : Leaf) : Option String :=
  if l.info.skip then none
  else if genShadow t l.depth l.info.name then none
  else nameMap hn (flatten t) l.info.name

theorem paramNames_leaves (t : Tree) (hn : Bool) :
    (paramsList (nameMap hn (flatten t)) (flatten t)).map Prod.fst = (leavesTop t).filterMap (leafParam t hn) := by
  unfold paramsList
  rw [List.map_filterMap]
  conv => lhs; arg 2; rw [flatten_closed]
  rw [filterMap_filter_none _ (fun f => !f.isEmbeded)
    (by intro f hf; simp only [Bool.not_eq_eq_eq_not, Bool.not_false] at hf; simp [hf])]
  unfold walkTop
  rw [walk_fields _ t true [] false 0, List.filterMap_map, List.filterMap_filter]
  apply filterMap_congr_mem
  intro l _
  unfold leafParam
  by_cases hs : l.info.skip
  · simp [hs]
  · simp only [hs, Bool.not_false, ↓reduceIte, Function.comp, mkField, Bool.false_or, Bool.false_eq_true]
    cases hsh : genShadow t l.depth l.info.name
    · simp only [Bool.false_eq_true, ↓reduceIte]
      cases nameMap hn (flatten t) l.info.name <;> simp
    · simp

theorem eligible_iff_leafParam (t : Tree)
    (hnd : ((visibleLeaves t).map (fun l => paramName l.info.name)).Nodup)
    (l : Leaf) (hl : l ∈ leavesTop t) :
    leafParam t (hasNewTop t) l = if eligible t l then some (paramName l.info.name) else none := by
  unfold leafParam eligible
  have hag := shadow_agrees t l hl
  by_cases hs : l.info.skip
  · simp [hs]
  · simp only [hs, Bool.false_eq_true, ↓reduceIte, Bool.not_false, Bool.and_true]
    cases hsh : genShadow t l.depth l.info.name
    · have hg : goShadowed t l.depth l.info.name = false := by
        rw [← hag, hsh]
      rw [nameMap_of_leaf t _ hnd l hl (by simpa using hs) hsh]
      simp [hg]
    · have hg : goShadowed t l.depth l.info.name = true := by
        rw [← hag, hsh]
      simp [hg]

/-- L4: the parameters are the eligible leaves in depth-first declaration order -/
theorem paramNames_spec (t : Tree)
    (hnd : ((visibleLeaves t).map (fun l => paramName l.info.name)).Nodup) :
    (gen t).params.map Prod.fst = (specParams t).map (fun l => paramName l.info.name) := by
  simp only [gen, Bool.false_or]
  rw [paramNames_leaves]
  unfold specParams
  rw [← List.filterMap_eq_map, List.filterMap_filter]
  apply filterMap_congr_mem
  intro l hl
  rw [eligible_iff_leafParam t hnd l hl]
  cases eligible t l <;> simp

end ShootVerif.Ctor
