import ShootVerif.Spec.Enum
/-
Lemmas for C04 / C12: the collection loop against the Go rule, the insertion sort, association
lists over the constant table.
-/
namespace ShootVerif.Enum

/-! ## collection -/

/-- grammar clause of one spec: it does not get type T through a typed expression -/
def specGrammar (T : Name) (s : VSpec) : Prop := ¬ (s.ty = none ∧ s.hasVals = true ∧ s.exprTy = some T)

/-- relation between the type makeStr remembers (`typ`) and the type the Go rule carries (`prev`):
    equal, or makeStr remembers nothing while the Go rule carries a type that is not T (after an
    untyped constant, and after a spec with a qualified type `pkg.T`) -/
theorem collectBlock_eq_declaredBlock (T : Name) (hT : qualified T = false) (specs : List VSpec)
    (h : ∀ s ∈ specs, specGrammar T s) :
    ∀ typ prev : Option Name, (typ = prev ∨ (typ = none ∧ prev ≠ some T)) →
      collectBlock T typ specs = declaredBlock T prev specs := by
  induction specs with
  | nil => intro _ _ _; rfl
  | cons s rest ih =>
    intro typ prev hrel
    have hs : specGrammar T s := h s (by simp)
    have ih' := ih (fun s' hs' => h s' (by simp [hs']))
    unfold collectBlock declaredBlock
    cases hty : s.ty with
    | some t =>
      cases hq : qualified t with
      | true =>
        -- `X pkg.T = 1`: reset and skipped; by the Go rule its type is t, which is not T
        have htT : (some t : Option Name) ≠ some T := by
          intro he; injection he with he; rw [he, hT] at hq; exact absurd hq (by simp)
        simp only [Option.isNone_some, Bool.false_and, Bool.false_eq_true, ↓reduceIte, effTy, hty, hq, htT,
          List.nil_append]
        exact ih' none (some t) (Or.inr ⟨rfl, htT⟩)
      | false =>
        simp only [Option.isNone_some, Bool.false_and, Bool.false_eq_true, ↓reduceIte, effTy, hty, hq]
        have := ih' (some t) (some t) (Or.inl rfl)
        by_cases htt : some t = some T
        · simp [htt] at this ⊢; exact this
        · simp [htt] at this ⊢; exact this
    | none =>
      cases hv : s.hasVals with
      | true =>
        have hne : s.exprTy ≠ some T := fun he => hs ⟨hty, hv, he⟩
        simp only [Option.isNone_none, Bool.and_self, ↓reduceIte, effTy, hty, hv, hne, List.nil_append]
        exact ih' none s.exprTy (Or.inr ⟨rfl, hne⟩)
      | false =>
        simp only [Option.isNone_none, Bool.and_false, Bool.false_eq_true, ↓reduceIte, effTy, hty, hv]
        rcases hrel with heq | ⟨hn, hp⟩
        · subst heq
          have := ih' typ typ (Or.inl rfl)
          by_cases htt : typ = some T
          · simp [htt] at this ⊢; exact this
          · simp [htt] at this ⊢; exact this
        · subst hn
          have := ih' none prev (Or.inr ⟨rfl, hp⟩)
          simp [hp] at this ⊢; exact this

theorem collect_eq_declared (T : Name) (hT : qualified T = false) (blocks : List (List VSpec))
    (h : ∀ b ∈ blocks, ∀ s ∈ b, specGrammar T s) : collect T blocks = declared T blocks := by
  unfold collect declared
  induction blocks with
  | nil => rfl
  | cons b rest ih =>
    simp only [List.flatMap_cons]
    rw [collectBlock_eq_declaredBlock T hT b (h b (by simp)) none none (Or.inl rfl),
      ih (fun b' hb' => h b' (by simp [hb']))]

theorem specGrammar_of_specOK {T : Name} {s : VSpec} (h : specOK T s = true) : specGrammar T s := by
  intro ⟨h1, h2, h3⟩
  simp [specOK, h1, h2, h3] at h

/-- a block made of specs without a type but with a value (what the template's `const _t_max = …` is)
    yields nothing, whatever is remembered on entry -/
theorem collectBlock_template (T : Name) (specs : List VSpec) (h : ∀ s ∈ specs, templateConst s = true) :
    ∀ typ : Option Name, collectBlock T typ specs = [] := by
  induction specs with
  | nil => intro _; rfl
  | cons s rest ih =>
    intro typ
    have hs := h s (by simp)
    unfold templateConst at hs
    unfold collectBlock
    rw [if_pos hs]
    exact ih (fun s' hs' => h s' (by simp [hs'])) none

/-- constants of generated files are not collected -/
theorem collect_generated (T : Name) (blocks gen : List (List VSpec))
    (h : ∀ b ∈ gen, ∀ s ∈ b, templateConst s = true) : collect T (blocks ++ gen) = collect T blocks := by
  have hg : collect T gen = [] := by
    unfold collect
    induction gen with
    | nil => rfl
    | cons b rest ih =>
      simp only [List.flatMap_cons]
      rw [collectBlock_template T b (h b (by simp)) none, ih (fun b' hb' => h b' (by simp [hb']))]
      rfl
  have : collect T (blocks ++ gen) = collect T blocks ++ collect T gen := by
    unfold collect; rw [List.flatMap_append]
  rw [this, hg, List.append_nil]

/-- under the syntactic grammar the loop of makeStr — over the hand-written const declarations and
    those of generated files left in the package — finds exactly the declared constants -/
theorem collect_of_grammarOK {i : Input} (h : grammarOK i = true) : collect i.T i.scanned = i.decl := by
  simp only [grammarOK, Bool.and_eq_true, List.all_eq_true, Bool.not_eq_true'] at h
  obtain ⟨⟨⟨⟨⟨_, hq⟩, _⟩, _⟩, hb⟩, hgen⟩ := h
  unfold Input.scanned
  rw [collect_generated i.T i.blocks i.generated hgen]
  exact collect_eq_declared i.T hq i.blocks (fun b hbm s hs => specGrammar_of_specOK (hb b hbm s hs))

theorem bits_of_basicOK {i : Input} (h : basicOK i = true) : 0 < i.kind.bits ∧ i.kind.bits ≤ 64 := by
  simp only [basicOK, Bool.and_eq_true, decide_eq_true_eq] at h
  exact ⟨h.1.1.2, h.1.2⟩

/-! ## insertion sort -/

theorem insertBy_perm (key : Const → Int) (c : Const) (l : List Const) : (insertBy key c l).Perm (c :: l) := by
  induction l with
  | nil => exact List.Perm.refl _
  | cons d r ih =>
    unfold insertBy
    split
    · exact (List.Perm.cons d ih).trans (List.Perm.swap c d r)
    · exact List.Perm.refl _

theorem sortBy_perm (key : Const → Int) (l : List Const) : (sortBy key l).Perm l := by
  induction l with
  | nil => exact List.Perm.refl _
  | cons c r ih => exact (insertBy_perm key c _).trans (List.Perm.cons c ih)

theorem insertBy_sorted (key : Const → Int) (c : Const) (l : List Const)
    (h : l.Pairwise (fun a b => key a ≤ key b)) : (insertBy key c l).Pairwise (fun a b => key a ≤ key b) := by
  induction l with
  | nil => simp [insertBy]
  | cons d r ih =>
    unfold insertBy
    have hd := List.pairwise_cons.mp h
    split
    · rename_i hlt
      refine List.pairwise_cons.mpr ⟨?_, ih hd.2⟩
      intro b hb
      have hb' := (insertBy_perm key c r).mem_iff.mp hb
      rcases List.mem_cons.mp hb' with rfl | hbr
      · omega
      · exact hd.1 b hbr
    · rename_i hge
      refine List.pairwise_cons.mpr ⟨?_, h⟩
      intro b hb
      rcases List.mem_cons.mp hb with rfl | hbr
      · omega
      · have := hd.1 b hbr; omega

theorem sortBy_sorted (key : Const → Int) (l : List Const) : (sortBy key l).Pairwise (fun a b => key a ≤ key b) := by
  induction l with
  | nil => simp [sortBy]
  | cons c r ih => exact insertBy_sorted key c _ ih

/-- two keys that order the elements at hand the same way give the same insertion -/
theorem insertBy_congr (k1 k2 : Const → Int) (c : Const) (l : List Const)
    (h : ∀ d ∈ l, (k1 d < k1 c ↔ k2 d < k2 c)) : insertBy k1 c l = insertBy k2 c l := by
  induction l with
  | nil => rfl
  | cons d r ih =>
    unfold insertBy
    have hd := h d (by simp)
    have ihr := ih (fun d' hd' => h d' (by simp [hd']))
    by_cases hlt : k1 d < k1 c
    · have := hd.mp hlt; simp [hlt, this, ihr]
    · have : ¬ k2 d < k2 c := fun h2 => hlt (hd.mpr h2)
      simp [hlt, this]

theorem sortBy_congr (k1 k2 : Const → Int) (l : List Const)
    (h : ∀ a ∈ l, ∀ b ∈ l, (k1 a < k1 b ↔ k2 a < k2 b)) : sortBy k1 l = sortBy k2 l := by
  induction l with
  | nil => rfl
  | cons c r ih =>
    unfold sortBy
    have ihr := ih (fun a ha b hb => h a (by simp [ha]) b (by simp [hb]))
    rw [ihr]
    apply insertBy_congr
    intro d hd
    have hdr : d ∈ r := (sortBy_perm k2 r).mem_iff.mp hd
    exact h d (by simp [hdr]) c (by simp)

/-! ## the sort key and `valueof` on the values of the type -/

theorem pow_le_63 {b : Nat} (h : b ≤ 64) : (2 : Int) ^ (b - 1) ≤ 9223372036854775808 := by
  have h1 : (2 : Nat) ^ (b - 1) ≤ 2 ^ 63 := Nat.pow_le_pow_right (by decide) (by omega)
  have h2 : ((2 ^ (b - 1) : Nat) : Int) ≤ ((2 ^ 63 : Nat) : Int) := Int.ofNat_le.mpr h1
  rw [Int.natCast_pow] at h2
  have h3 : ((2 ^ 63 : Nat) : Int) = 9223372036854775808 := by decide
  rw [h3] at h2
  exact h2

theorem pow_le_64 {b : Nat} (h : b ≤ 64) : (2 : Int) ^ b ≤ 18446744073709551616 := by
  have h1 : (2 : Nat) ^ b ≤ 2 ^ 64 := Nat.pow_le_pow_right (by decide) h
  have h2 : ((2 ^ b : Nat) : Int) ≤ ((2 ^ 64 : Nat) : Int) := Int.ofNat_le.mpr h1
  rw [Int.natCast_pow] at h2
  have h3 : ((2 ^ 64 : Nat) : Int) = 18446744073709551616 := by decide
  rw [h3] at h2
  exact h2

/-- on a value of the type, `valueof` prints that value (signed: int64 round trip; unsigned: the pattern) -/
theorem printed_of_has (k : Kind) (h64 : k.bits ≤ 64) (v : Int) (h : k.has v = true) : printed k v = v := by
  unfold Kind.has Kind.lo Kind.hi at h
  simp only [Bool.and_eq_true, decide_eq_true_eq] at h
  have hp := pow_le_63 h64
  have hq := pow_le_64 h64
  unfold printed
  generalize (2 : Int) ^ (k.bits - 1) = P at *
  generalize (2 : Int) ^ k.bits = M at *
  cases hs : k.signed
  · simp only [hs, Bool.false_eq_true, ↓reduceIte] at h ⊢
    unfold u64; omega
  · simp only [hs, ↓reduceIte] at h ⊢
    unfold toInt64 u64; omega

theorem skey_of_has (k : Kind) (h64 : k.bits ≤ 64) (c : Const) (h : k.has c.val = true) : skey k c = c.val :=
  printed_of_has k h64 c.val h

theorem sortC_eq_specSorted (k : Kind) (h64 : k.bits ≤ 64) {l : List Const} (h : valuesInKind k l = true) :
    sortC k l = specSorted l := by
  unfold sortC specSorted
  apply sortBy_congr
  intro a ha b hb
  have := List.all_eq_true.mp h
  rw [skey_of_has k h64 a (this a ha), skey_of_has k h64 b (this b hb)]

/-! ## association lists over the constant table -/

theorem lookup_stringMap (T : Name) (cs : List Const) (x : Int) :
    (stringMap T cs).lookup x = (cs.find? (fun c => c.val = x)).map (fun c => trim T c.name) := by
  induction cs with
  | nil => rfl
  | cons c r ih =>
    simp only [stringMap, List.map_cons, List.lookup_cons, List.find?_cons] at ih ⊢
    by_cases h : c.val = x
    · subst h; simp
    · have h' : (x == c.val) = false := by simp [Ne.symm h]
      simp [h, h', ih]

theorem lookup_valueMap (T : Name) (cs : List Const) (s : Name) :
    (valueMap T cs).lookup s = (cs.find? (fun c => trim T c.name = s)).map (·.val) := by
  induction cs with
  | nil => rfl
  | cons c r ih =>
    simp only [valueMap, List.map_cons, List.lookup_cons, List.find?_cons] at ih ⊢
    by_cases h : trim T c.name = s
    · subst h; simp
    · have h' : (s == trim T c.name) = false := by simp [Ne.symm h]
      simp [h, h', ih]

/-- with pairwise distinct keys, searching by key finds exactly the element carrying it -/
theorem find?_key_unique {β : Type} [DecidableEq β] (f : Const → β) (l : List Const)
    (hnd : (l.map f).Nodup) (c : Const) (hc : c ∈ l) :
    l.find? (fun d => f d = f c) = some c := by
  induction l with
  | nil => simp at hc
  | cons d r ih =>
    have hnd' : f d ∉ r.map f ∧ (r.map f).Nodup := List.nodup_cons.mp (by rw [List.map_cons] at hnd; exact hnd)
    simp only [List.find?_cons]
    by_cases hfd : f d = f c
    · simp only [hfd, decide_true]
      rcases List.mem_cons.mp hc with rfl | hcr
      · rfl
      · exfalso; apply hnd'.1; rw [hfd]; exact List.mem_map_of_mem hcr
    · simp only [hfd, decide_false]
      rcases List.mem_cons.mp hc with rfl | hcr
      · exact absurd rfl hfd
      · exact ih hnd'.2 hcr

theorem find?_key_perm {β : Type} [DecidableEq β] (f : Const → β) {l1 l2 : List Const} (hp : l1.Perm l2)
    (hnd : (l1.map f).Nodup) (x : β) :
    l1.find? (fun d => f d = x) = l2.find? (fun d => f d = x) := by
  have hnd2 : (l2.map f).Nodup := (hp.map f).nodup_iff.mp hnd
  cases h : l1.find? (fun d => f d = x) with
  | none =>
    symm
    rw [List.find?_eq_none] at h ⊢
    intro d hd
    exact h d (hp.mem_iff.mpr hd)
  | some c =>
    have hc1 : c ∈ l1 := List.mem_of_find?_eq_some h
    have hfx : f c = x := by simpa using List.find?_some h
    subst hfx
    exact (find?_key_unique f l2 hnd2 c (hp.mem_iff.mp hc1)).symm

theorem find?_some_iff_mem {β : Type} [DecidableEq β] (f : Const → β) (l : List Const)
    (hnd : (l.map f).Nodup) (x : β) (c : Const) :
    l.find? (fun d => f d = x) = some c ↔ c ∈ l ∧ f c = x := by
  constructor
  · intro h
    exact ⟨List.mem_of_find?_eq_some h, by simpa using List.find?_some h⟩
  · rintro ⟨hc, rfl⟩
    exact find?_key_unique f l hnd c hc

/-! ## TrimPrefix -/

theorem isPrefixOf_append (T s : Name) : T.isPrefixOf (T ++ s) = true := by
  induction T with
  | nil => simp [List.isPrefixOf]
  | cons a r ih => simp [ih]

theorem eq_append_of_isPrefixOf (T n : Name) (h : T.isPrefixOf n = true) : n = T ++ n.drop T.length := by
  induction T generalizing n with
  | nil => simp
  | cons a r ih =>
    cases n with
    | nil => simp [List.isPrefixOf] at h
    | cons b m =>
      simp only [List.isPrefixOf, Bool.and_eq_true, beq_iff_eq] at h
      simp only [List.length_cons, List.drop_succ_cons, List.cons_append]
      rw [h.1, ← ih m h.2]

/-- the prefix is removed ONCE: whatever follows it stays, a second occurrence of the type name included -/
theorem trim_append (T s : Name) : trim T (T ++ s) = s := by
  unfold trim
  rw [isPrefixOf_append]
  simp

/-- a name that does not start with the type name (case-sensitively) is left alone -/
theorem trim_of_not_prefix (T n : Name) (h : T.isPrefixOf n = false) : trim T n = n := by
  unfold trim; simp [h]

/-- either nothing was trimmed, or the name is the type name followed by the trimmed name -/
theorem trim_decomp (T n : Name) : (T.isPrefixOf n = false ∧ trim T n = n) ∨ (T.isPrefixOf n = true ∧ n = T ++ trim T n) := by
  cases h : T.isPrefixOf n
  · exact Or.inl ⟨rfl, trim_of_not_prefix T n h⟩
  · refine Or.inr ⟨rfl, ?_⟩
    unfold trim; simp only [h, ↓reduceIte]
    exact eq_append_of_isPrefixOf T n h

theorem trim_eq_nil_iff (T n : Name) : trim T n = [] ↔ n = [] ∨ n = T := by
  constructor
  · intro h
    rcases trim_decomp T n with ⟨_, h2⟩ | ⟨_, h2⟩
    · left; rw [← h2]; exact h
    · right; rw [h2, h]; simp
  · rintro (h | h)
    · subst h; unfold trim; split <;> simp
    · subst h
      have := trim_append n []
      simpa using this

/-- among names that all carry the prefix, trimming is injective -/
theorem trim_inj_prefixed (T a b : Name) (ha : T.isPrefixOf a = true) (hb : T.isPrefixOf b = true)
    (h : trim T a = trim T b) : a = b := by
  rcases trim_decomp T a with ⟨h1, _⟩ | ⟨_, h1⟩
  · rw [ha] at h1; cases h1
  rcases trim_decomp T b with ⟨h2, _⟩ | ⟨_, h2⟩
  · rw [hb] at h2; cases h2
  rw [h1, h2, h]

/-- two DIFFERENT names have the same trimmed name only when one of them is the other with the type name
    put in front of it (`TA` next to `A` for a type `T`) -/
theorem trim_collision (T a b : Name) (hab : a ≠ b) (h : trim T a = trim T b) :
    (a = T ++ b ∧ T.isPrefixOf b = false) ∨ (b = T ++ a ∧ T.isPrefixOf a = false) := by
  rcases trim_decomp T a with ⟨pa, ha⟩ | ⟨pa, ha⟩ <;> rcases trim_decomp T b with ⟨pb, hb⟩ | ⟨pb, hb⟩
  · exact absurd (by rw [← ha, ← hb, h]) hab
  · right; exact ⟨by rw [hb, ← h, ha], pa⟩
  · left; exact ⟨by rw [ha, h, hb], pb⟩
  · exact absurd (trim_inj_prefixed T a b pa pb h) hab

/-! ## the stale guard, line by line -/

theorem has_zero (k : Kind) : k.has 0 = true := by
  unfold Kind.has Kind.lo Kind.hi
  have h1 : (0 : Int) < (2 : Int) ^ (k.bits - 1) := Int.pow_pos (by decide)
  have h2 : (0 : Int) < (2 : Int) ^ k.bits := Int.pow_pos (by decide)
  simp only [Bool.and_eq_true, decide_eq_true_eq]
  split <;> omega

/-- one guard line, for EVERY kind and EVERY pair of integers (boundary values of the kind included): the
    compiler is silent exactly when the constant still has the printed value -/
theorem guardLine_none_iff (k : Kind) (p : Int) (cur : Option Int) : guardLine k p cur = .none ↔ cur = some p := by
  unfold guardLine
  cases cur with
  | none => simp
  | some v =>
    simp only [Option.some.injEq]
    by_cases hd : v - p = 0
    · have : v = p := by omega
      subst this
      simp [has_zero]
    · constructor
      · intro h
        simp only [hd, ↓reduceIte] at h
        split at h
        · cases h
        · split at h
          · cases h
          · split at h <;> cases h
      · intro h; omega

theorem guardFirst_none_iff (k : Kind) (cs : List Const) (cur : Name → Option Int) :
    guardFirst k cs cur = .none ↔ guardOK k cs cur = true := by
  induction cs with
  | nil => simp [guardFirst, guardOK]
  | cons c r ih =>
    unfold guardFirst guardOK
    simp only [List.all_cons, Bool.and_eq_true]
    have hl := guardLine_none_iff k (printed k c.val) (cur c.name)
    by_cases h : guardLine k (printed k c.val) (cur c.name) = .none
    · rw [if_pos h]
      have hc := hl.mp h
      unfold guardOK at ih
      rw [ih, hc]
      simp
    · rw [if_neg h]
      constructor
      · intro h'; exact absurd h' h
      · rintro ⟨h1, _⟩
        exfalso; apply h; apply hl.mpr
        cases hcur : cur c.name with
        | none => simp [hcur] at h1
        | some v => simp [hcur] at h1; congr 1; omega

/-! ## what WF gives -/

structure WFfacts (i : Input) : Prop where
  collectEq : collect i.T i.scanned = i.decl
  bits : 0 < i.kind.bits
  bits64 : i.kind.bits ≤ 64
  nonempty : i.decl ≠ []
  ndVals : (i.decl.map (·.val)).Nodup
  ndNames : (i.decl.map (fun c => trim i.T c.name)).Nodup
  named : ∀ c ∈ i.decl, trim i.T c.name ≠ []
  inKind : ∀ c ∈ i.decl, i.kind.has c.val = true

theorem WF.facts {i : Input} (h : WF i = true) : WFfacts i := by
  simp only [WF, Bool.and_eq_true, nodupOK, decide_eq_true_eq, Bool.not_eq_true', List.all_eq_true,
    List.isEmpty_eq_false_iff, valuesInKind, beq_iff_eq] at h
  obtain ⟨⟨⟨⟨hg, hce⟩, hne⟩, ⟨hv, hn⟩, hnm⟩, hs⟩ := h
  refine ⟨hce, (bits_of_basicOK hg).1, (bits_of_basicOK hg).2, hne, hv, hn, ?_, hs⟩
  intro c hc
  have := hnm c hc
  intro he
  simp [he] at this

/-- the table the emitted file holds, for any input -/
def tables (i : Input) : List Const := sortC i.kind (collect i.T i.scanned)

theorem tables_eq {i : Input} (h : WF i = true) : tables i = specSorted i.decl := by
  have f := WF.facts h
  unfold tables
  rw [f.collectEq]
  exact sortC_eq_specSorted i.kind f.bits64 (List.all_eq_true.mpr f.inKind)

theorem tables_perm {i : Input} (h : WF i = true) : (tables i).Perm i.decl := by
  rw [tables_eq h]; exact sortBy_perm _ _

/-! ## the declaration order is irrelevant -/

/-- two lists sorted strictly ascending by an injective-on-them key that are permutations of each other are equal -/
theorem eq_of_perm_of_strict (key : Const → Int) :
    ∀ (l1 l2 : List Const), l1.Perm l2 → l1.Pairwise (fun a b => key a < key b) → l2.Pairwise (fun a b => key a < key b) → l1 = l2
  | [], l2, hp, _, _ => (hp.symm.eq_nil).symm
  | a :: r1, [], hp, _, _ => absurd hp.eq_nil (by simp)
  | a :: r1, b :: r2, hp, h1, h2 => by
    rw [List.pairwise_cons] at h1 h2
    have hab : a = b := by
      have ha : a ∈ b :: r2 := hp.mem_iff.mp (List.mem_cons_self)
      have hb : b ∈ a :: r1 := hp.mem_iff.mpr (List.mem_cons_self)
      rcases List.mem_cons.mp ha with h | h
      · exact h
      · rcases List.mem_cons.mp hb with h' | h'
        · exact h'.symm
        · have := h1.1 b h'
          have := h2.1 a h
          omega
    subst hab
    congr 1
    exact eq_of_perm_of_strict key r1 r2 (List.Perm.cons_inv hp) h1.2 h2.2

theorem sortBy_strict (l : List Const) (hnd : (l.map (·.val)).Nodup) :
    (sortBy (·.val) l).Pairwise (fun a b => a.val < b.val) := by
  have hs := sortBy_sorted (·.val) l
  have hn : ((sortBy (·.val) l).map (·.val)).Nodup := ((sortBy_perm (·.val) l).map _).nodup_iff.mpr hnd
  unfold List.Nodup at hn
  rw [List.pairwise_map] at hn
  exact (hs.and hn).imp (fun ⟨a, b⟩ => by omega)

/-- the declaration ORDER of the constants is irrelevant: two declarations with the same constants (distinct values), in
    whatever order and however spread over blocks and files, give the same table -/
theorem specSorted_perm (d1 d2 : List Const) (hp : d1.Perm d2) (hnd : (d1.map (·.val)).Nodup) :
    specSorted d1 = specSorted d2 := by
  unfold specSorted
  have hnd2 : (d2.map (·.val)).Nodup := (hp.map _).nodup_iff.mp hnd
  exact eq_of_perm_of_strict (·.val) _ _
    (((sortBy_perm _ d1).trans hp).trans (sortBy_perm _ d2).symm) (sortBy_strict d1 hnd) (sortBy_strict d2 hnd2)


end ShootVerif.Enum
