import ShootVerif.Proofs.MapperNameSpec
import ShootVerif.Proofs.MapperHeadlines
/-
C05 at the LEAVES: the generator's field list of a plain side is exactly the set of participating leaves (visible by Go's
selector rule, not tagged `map:"-"`, exported); the output type-checks; executing the statement list on a fully populated
value stores, per written leaf, what the one statement writing its field reads; and that is the value the property
prescribes (`specTo`) — the spec's candidate list of a leaf, rewritten in the generator's terms (`candsTo_eq`: name relation
by `nm_spec`, strategy by `pairStrat_eq_spec`, participation by `field_is_leaf` / `leaf_is_field`), has exactly the element
the statement list has (`plan_pairs`, write-once).
-/
namespace ShootVerif.Mapper
open ShootVerif.Transfer

theorem aor_backing (fs : List Field) (x : Field) (h : ∀ f ∈ fs, f.backing = "") (hx : x.backing = "") :
    ∀ f ∈ appendOrReplace fs x, f.backing = "" := by
  induction fs with
  | nil => intro f hf; simp [appendOrReplace] at hf; subst hf; exact hx
  | cons g gs ih =>
    intro f hf
    simp only [appendOrReplace] at hf
    split at hf
    · split at hf
      · rcases List.mem_cons.mp hf with rfl | hf'
        · exact h g List.mem_cons_self
        · exact h f (List.mem_cons_of_mem _ hf')
      · exact h f hf
    · rcases List.mem_cons.mp hf with rfl | hf'
      · exact h f List.mem_cons_self
      · exact ih (fun f hf => h f (List.mem_cons_of_mem _ hf)) f hf'

theorem foldl_aor_backing (xs fs : List Field) (hxs : ∀ f ∈ xs, f.backing = "") (hfs : ∀ f ∈ fs, f.backing = "") :
    ∀ f ∈ xs.foldl appendOrReplace fs, f.backing = "" := by
  induction xs generalizing fs with
  | nil => exact hfs
  | cons x xs ih =>
    exact ih _ (fun f hf => hxs f (List.mem_cons_of_mem _ hf)) (aor_backing fs x hfs (hxs x List.mem_cons_self))

theorem flatten_backing (t : Tree) : ∀ f ∈ flatten t, f.backing = "" := by
  intro f hf
  have := flatten_sub t hf
  refine foldl_aor_backing _ [] ?_ (by simp) f this
  intro g hg
  rw [walkTop_leaves] at hg
  obtain ⟨l, _, rfl⟩ := List.mem_map.mp hg
  rfl

/-- the leaves the generator's field list of a plain side stands for: visible (Go selects them by their bare name), not
    tagged `map:"-"`, exported -/
def partLeaf (t : Tree) (l : Leaf) : Bool := visible t l && l.decl.tag != .skip && isExported l.decl.name

theorem leaf_path_len (t : Tree) : ∀ (pre : List String) (d : Nat) (l : Leaf), l ∈ leavesAt pre d t →
    l.path.length + d = pre.length + l.depth + 1 := by
  induction t with
  | nil => intro pre d l h; cases h
  | field f rest ih =>
    intro pre d l h
    simp only [leavesAt, List.mem_cons] at h
    rcases h with rfl | h
    · simp; omega
    · exact ih pre d l h
  | embed n p body rest ihb ihr =>
    intro pre d l h
    simp only [leavesAt, List.mem_append] at h
    rcases h with h | h
    · have := ihb _ _ l h; simp at this; omega
    · exact ihr _ _ l h

/-- a plain field of the generator IS (the record of) a participating leaf, and resolves to it -/
theorem field_is_leaf (t : Tree) (hsel : wfSelectors t = true) (hsh : skipShadowT t = false)
    (f : Field) (hf : f ∈ sideFields t false) :
    ∃ l ∈ leavesOf t, f = fieldOf l ∧ resolveField t f = some l ∧ partLeaf t l = true := by
  have hfl := sideFields_plain_flags t f hf
  have hf' : f ∈ flatten t ∧ isExported f.name = true := by
    simpa [sideFields] using hf
  obtain ⟨l, hres, hl, hp, hty, hn, hd, hsk⟩ := flatten_resolves t hsel hsh f hf'.1
  have hb := flatten_backing t f hf'.1
  refine ⟨l, hl, ?_, ?_, ?_⟩
  · cases f
    simp only [fieldOf] at *
    simp [hp, hty, hn, hd, hb, hfl.1, hfl.2]
  · simp [resolveField, hfl.1, hfl.2, hres]
  · simp only [partLeaf, visible, Bool.and_eq_true, bne_iff_ne, ne_eq]
    rw [hn, hres]
    exact ⟨⟨by simp, hsk⟩, hn ▸ hf'.2⟩

/-- conversely every participating leaf is a field of the generator -/
theorem leaf_is_field (t : Tree) (hsel : wfSelectors t = true) (hsh : skipShadowT t = false)
    (l : Leaf) (hl : l ∈ leavesOf t) (hp : partLeaf t l = true) : fieldOf l ∈ sideFields t false := by
  simp only [partLeaf, visible, Bool.and_eq_true, bne_iff_ne, ne_eq] at hp
  obtain ⟨⟨hvis, hsk⟩, hex⟩ := hp
  cases hr : goResolve t l.decl.name with
  | none => rw [hr] at hvis; cases hvis
  | some r =>
    rw [hr] at hvis
    have hpath : r.path = l.path := by simpa using hvis
    obtain ⟨hr1, hr2, hr3, hr4⟩ := goResolve_some t l.decl.name r hr
    -- same path ⇒ same depth ⇒ the same leaf
    have h1 := leaf_path_len t [] 0 r hr1
    have h2 := leaf_path_len t [] 0 l hl
    have hd : l.depth = r.depth := by rw [hpath] at h1; omega
    have hlr : l = r := hr4 l hl rfl hd
    subst hlr
    -- its name is not hidden by a top-level `map:"-"` field, so the collector has an entry for it
    have hw : fieldOf l ∈ walkTop t := by
      rw [walkTop_leaves]; exact List.mem_map.mpr ⟨l, by simp [hl, hsk], rfl⟩
    have hns : (fieldOf l).name ∉ skippedTop t := by
      intro hmem
      -- a top-level skip field of that name would be the unique shallowest member
      have : ∃ m ∈ leavesOf t, m.decl.name = l.decl.name ∧ m.depth = 0 ∧ m.decl.tag = .skip := by
        clear hr hvis hpath hr1 hr2 hr3 hr4 h1 h2 hd hw hsel hsh hex hsk hl
        simp only [fieldOf] at hmem
        revert hmem
        unfold leavesOf
        generalize ([] : List String) = pre
        induction t with
        | nil => intro h; cases h
        | field f rest ih =>
          intro h
          simp only [skippedTop, List.mem_append] at h
          rcases h with h | h
          · by_cases hs : f.tag = .skip
            · simp only [hs, ↓reduceIte, List.mem_singleton] at h
              exact ⟨⟨pre ++ [f.name], 0, f⟩, by simp [leavesAt], h.symm, rfl, hs⟩
            · simp [hs] at h
          · obtain ⟨m, hm, e⟩ := ih h
            exact ⟨m, by simp [leavesAt, hm], e⟩
        | embed n p body rest _ ihr =>
          intro h
          simp only [skippedTop] at h
          obtain ⟨m, hm, e⟩ := ihr h
          exact ⟨m, by simp [leavesAt, hm], e⟩
      obtain ⟨m, hm, hmn, hm0, hms⟩ := this
      have hle := hr3 m hm hmn
      have : m = l := hr4 m hm hmn (by omega)
      rw [this] at hms
      exact hsk hms
    obtain ⟨_, _, _, hcov⟩ := flatten_shallowest t
    obtain ⟨f, hf, hfn⟩ := hcov (fieldOf l) hw hns
    have hfs : f ∈ sideFields t false := by
      simp only [sideFields, Bool.false_eq_true, ↓reduceIte, List.mem_filter]
      exact ⟨hf, by rw [hfn]; exact hex⟩
    obtain ⟨l', hl', hfe, hres', _⟩ := field_is_leaf t hsel hsh f hfs
    have hfl := sideFields_plain_flags t f hfs
    simp only [resolveField, hfl.1, hfl.2, Bool.or_self, Bool.false_eq_true, ↓reduceIte] at hres'
    have : f.name = l.decl.name := hfn
    rw [this, hr] at hres'
    cases hres'
    rw [← hfe]; exact hfs


theorem elemOf_sub (a : Ty) (p : Pkg) (h : a.strip.2.isNamedIn p = true) : (elemOf a).isStructNamed = true := by
  have hs := isNamedIn_struct _ _ h
  cases a with
  | slice x => simp [Ty.strip, Ty.isNamedIn] at h
  | ptr e => simpa [elemOf, Ty.strip] using hs
  | basic n => simpa [elemOf, Ty.strip] using hs
  | named q n u => simpa [elemOf, Ty.strip] using hs
  | struct s => simpa [elemOf, Ty.strip] using hs
  | other s => simpa [elemOf, Ty.strip] using hs

theorem resolvesAs_plain (t : Tree) (hsel : wfSelectors t = true) (hsh : skipShadowT t = false)
    (f : Field) (hf : f ∈ sideFields t false) : resolvesAs t f = true := by
  obtain ⟨l, _, hfe, hres, _⟩ := field_is_leaf t hsel hsh f hf
  unfold resolvesAs
  rw [hres]
  subst hfe
  simp [fieldOf]

/-- every statement the generator emits for plain sides type-checks as far as the model can tell: both selectors resolve
    to fields of the planned types, recursive calls are made on struct types only -/
theorem stmtCompiles_plain (rs ws : Tree) (rdPkg wrPkg : Pkg) (conv : List (Ty × Ty)) (fns : List (Nat × Fn))
    (h1 : wfSelectors rs = true) (h2 : skipShadowT rs = false) (h3 : wfSelectors ws = true) (h4 : skipShadowT ws = false)
    (c : Claim) (hr : c.rd ∈ sideFields rs false) (hw : c.wr ∈ sideFields ws false)
    (hj : justified conv fns rdPkg wrPkg c) : stmtCompiles rs ws c = true := by
  have hset := (sideFields_plain_flags rs c.rd hr).2
  simp only [stmtCompiles, Bool.and_eq_true, resolvesAs_plain rs h1 h2 _ hr, resolvesAs_plain ws h3 h4 _ hw, hset,
    Bool.not_false, Bool.true_or, true_and]
  unfold justified at hj
  cases hs : c.strat with
  | assign => rfl
  | conv => rfl
  | func k => rfl
  | sub r w =>
    rw [hs] at hj
    simp only [Bool.and_eq_true]
    exact ⟨elemOf_sub _ _ hj.2.2.1, elemOf_sub _ _ hj.2.2.2⟩
  | each r w =>
    rw [hs] at hj
    obtain ⟨e1, e2, he1, he2, _, _, hn1, hn2⟩ := hj
    simp only [Bool.and_eq_true, he1, he2, elemOf]
    exact ⟨isNamedIn_struct _ _ hn1, isNamedIn_struct _ _ hn2⟩

/-- the output for two plain sides compiles (as far as the model can tell) — from clauses about the input alone -/
theorem modelCompiles_plain (inp : Input) (hs : inp.srcNew = false) (hd : inp.destNew = false)
    (h1 : wfSelectors inp.src = true) (h2 : wfSelectors inp.dest = true) (hsh : F_skipShadow inp = false) :
    modelCompiles inp = true := by
  rw [F_skipShadow_eq, Bool.or_eq_false_iff] at hsh
  obtain ⟨_, _, hinv⟩ := plan_inv inp
  have hsf : (plan inp).srcFields = sideFields inp.src false := by simp [plan, hs]
  have hdf : (plan inp).destFields = sideFields inp.dest false := by simp [plan, hd]
  have hc : (plan inp).destCtor = none ∧ (plan inp).srcCtor = none := by
    simp [plan, hs, hd, sideParams, ctorMatch]
  simp only [modelCompiles, hc.1, hc.2, Bool.and_true, Bool.and_eq_true, Bool.or_eq_true, Bool.not_eq_true', List.all_eq_true]
  constructor
  · right
    intro c hcm
    have hp := hinv.toPair c (stmts_sub hcm).1
    have hmm := (mem_pairs _ _ _ _ _).mp hp.1
    exact stmtCompiles_plain _ _ _ _ _ _ h1 hsh.1 h2 hsh.2 c (hsf ▸ hmm.1) (hdf ▸ hmm.2.1) hp.2
  · right
    intro c hcm
    have hp := hinv.fromPair c (stmts_sub hcm).1
    have hmm := (mem_pairs _ _ _ _ _).mp hp.1
    exact stmtCompiles_plain _ _ _ _ _ _ h2 hsh.2 h1 hsh.1 c (hdf ▸ hmm.2.1) (hsf ▸ hmm.1) hp.2


/-! ## what the methods store, leaf by leaf (fully populated reading side) -/

/-- the (key, value) a statement stores when nothing is nil -/
def valOf (rs ws : SideSem) (c : Claim) : Option (String × V) :=
  match resolveField rs.tree c.rd, resolveField ws.tree c.wr with
  | some rl, some wl => (idealValue c.strat (readVal [] c rl)).map (fun v => (joinPath wl.path, v))
  | _, _ => none

theorem idealStmt_nil (rs ws : SideSem) (w : WSt) (c : Claim) :
    idealStmt rs ws [] w c = { w with vals := w.vals ++ (valOf rs ws c).toList } := by
  unfold idealStmt valOf
  cases h1 : resolveField rs.tree c.rd with
  | none => simp
  | some rl =>
    cases h2 : resolveField ws.tree c.wr with
    | none => simp
    | some wl =>
      have : (hops rs.ptrs rl.path).all (nonNil []) = true := by simp [nonNil]
      simp only [this, ↓reduceIte]
      cases idealValue c.strat (readVal [] c rl) <;> simp

theorem ideal_vals (rs ws : SideSem) (stmts : List Claim) (w0 : WSt) :
    (stmts.foldl (idealStmt rs ws []) w0).vals = w0.vals ++ stmts.filterMap (valOf rs ws) := by
  induction stmts generalizing w0 with
  | nil => simp
  | cons c cs ih =>
    simp only [List.foldl_cons, List.filterMap_cons]
    rw [ih, idealStmt_nil]
    cases valOf rs ws c <;> simp

theorem readLeaf_nonzero (l : Leaf) : (readLeaf [] l).isZero = false := by
  unfold readLeaf
  cases l.decl.ty with
  | slice e =>
    cases e with
    | ptr x => simp only [List.contains_nil, Bool.false_eq_true, ↓reduceIte]; split <;> rfl
    | _ => simp only [List.contains_nil, Bool.false_eq_true, ↓reduceIte] <;> split <;> rfl
  | _ => simp [V.isZero]

theorem idealValue_provenance (s : Strat) (l : Leaf) :
    idealValue s (readLeaf [] l) = some (provenance [] (l, s)) := by
  have hz := readLeaf_nonzero l
  cases s with
  | assign => rfl
  | conv => rfl
  | func k => rfl
  | sub r w => simp [idealValue, provenance, hz]
  | each r w =>
    simp only [idealValue, provenance]
    cases hv : readLeaf [] l with
    | zero => rw [hv] at hz; cases hz
    | leaf p f => rfl
    | elems es => rfl

theorem get_none (w : WSt) (k : String) (h : ∀ e ∈ w.vals, e.1 ≠ k) : w.get k = .zero := by
  unfold WSt.get
  have : w.vals.reverse.find? (fun e => e.1 == k) = none := by
    rw [List.find?_eq_none]
    intro e he
    simpa using h e (List.mem_reverse.mp he)
  rw [this]; rfl

theorem get_unique (w : WSt) (k : String) (e : String × V) (he : e ∈ w.vals) (hk : e.1 = k)
    (hu : ∀ e' ∈ w.vals, e'.1 = k → e' = e) : w.get k = e.2 := by
  unfold WSt.get
  cases hf : w.vals.reverse.find? (fun e => e.1 == k) with
  | none =>
    have := List.find?_eq_none.mp hf e (List.mem_reverse.mpr he)
    simp [hk] at this
  | some e' =>
    have hm := List.mem_reverse.mp (List.mem_of_find?_eq_some hf)
    have hk' : e'.1 = k := by simpa using List.find?_some hf
    rw [hu e' hm hk']; rfl

theorem key_inj (t : Tree) (hK : ((leavesOf t).map (fun l => joinPath l.path)).Nodup) (a b : Leaf)
    (ha : a ∈ leavesOf t) (hb : b ∈ leavesOf t) (h : joinPath a.path = joinPath b.path) : a = b :=
  inj_of_map_nodup (fun l : Leaf => joinPath l.path) _ hK ha hb h

/-- the value a written leaf holds after the method ran on a fully populated reading side: zero when no statement writes
    the leaf's field, else what the one statement that does reads (with its mapper method applied) -/
theorem leaf_value (rs ws : SideSem) (stmts : List Claim) (w0 : WSt) (h0 : w0.vals = [])
    (hR : ∀ c ∈ stmts, ∃ rl, c.rd = fieldOf rl ∧ resolveField rs.tree c.rd = some rl)
    (hW : ∀ c ∈ stmts, ∃ wl ∈ leavesOf ws.tree, c.wr = fieldOf wl ∧ resolveField ws.tree c.wr = some wl)
    (hN : (stmts.map (·.wr.name)).Nodup)
    (hK : ((leavesOf ws.tree).map (fun l => joinPath l.path)).Nodup)
    (d : Leaf) (hd : d ∈ leavesOf ws.tree) :
    ((∀ c ∈ stmts, c.wr ≠ fieldOf d) → (stmts.foldl (idealStmt rs ws []) w0).get (joinPath d.path) = .zero) ∧
    (∀ c ∈ stmts, c.wr = fieldOf d → ∀ rl, c.rd = fieldOf rl → resolveField rs.tree c.rd = some rl →
      (stmts.foldl (idealStmt rs ws []) w0).get (joinPath d.path) = provenance [] (rl, c.strat)) := by
  have hvals := ideal_vals rs ws stmts w0
  rw [h0, List.nil_append] at hvals
  -- every stored entry comes from a statement, under the key of the leaf its written field stands for
  have hentry : ∀ e ∈ (stmts.foldl (idealStmt rs ws []) w0).vals, ∃ c ∈ stmts, ∃ rl wl, c.rd = fieldOf rl ∧
      resolveField rs.tree c.rd = some rl ∧ wl ∈ leavesOf ws.tree ∧ c.wr = fieldOf wl ∧
      e = (joinPath wl.path, provenance [] (rl, c.strat)) := by
    intro e he
    rw [hvals, List.mem_filterMap] at he
    obtain ⟨c, hc, hv⟩ := he
    obtain ⟨rl, hr1, hr2⟩ := hR c hc
    obtain ⟨wl, hw0, hw1, hw2⟩ := hW c hc
    refine ⟨c, hc, rl, wl, hr1, hr2, hw0, hw1, ?_⟩
    unfold valOf at hv
    rw [hr2, hw2] at hv
    have hset : c.rd.isSet = false := by rw [hr1]; rfl
    simp only [readVal, hset, Bool.false_eq_true, ↓reduceIte, idealValue_provenance, Option.map_some, Option.some.injEq] at hv
    exact hv.symm
  constructor
  · intro hno
    apply get_none
    intro e he hk
    obtain ⟨c, hc, rl, wl, _, _, hwl, hw1, rfl⟩ := hentry e he
    have : wl = d := key_inj ws.tree hK wl d hwl hd hk
    exact hno c hc (this ▸ hw1)
  · intro c hc hcw rl hr1 hr2
    have hmem : (joinPath d.path, provenance [] (rl, c.strat)) ∈ (stmts.foldl (idealStmt rs ws []) w0).vals := by
      rw [hvals, List.mem_filterMap]
      refine ⟨c, hc, ?_⟩
      obtain ⟨wl, hw0, hw1, hw2⟩ := hW c hc
      have : wl = d := by
        have : fieldOf wl = fieldOf d := hw1.symm.trans hcw
        have hp : wl.path = d.path := congrArg Field.path this
        exact key_inj ws.tree hK wl d hw0 hd (by rw [hp])
      subst this
      unfold valOf
      rw [hr2, hw2]
      have hset : c.rd.isSet = false := by rw [hr1]; rfl
      simp [readVal, hset, idealValue_provenance]
    have := get_unique _ (joinPath d.path) _ hmem rfl (by
      intro e' he' hk'
      obtain ⟨c', hc', rl', wl', hr1', hr2', hwl', hw1', rfl⟩ := hentry e' he'
      have hwd : wl' = d := key_inj ws.tree hK wl' d hwl' hd hk'
      have hcc : c' = c := inj_of_map_nodup (fun x : Claim => x.wr.name) _ hN hc' hc (by
        show c'.wr.name = c.wr.name
        rw [hw1', hcw, hwd])
      subst hcc
      rw [hr2] at hr2'
      cases hr2'
      rw [hwd])
    exact this


/-! ## the spec's candidate lists against the statement lists -/

theorem filterMap_nil' {α β} (L : List α) (g : α → Option β) (h : ∀ s ∈ L, g s = none) : L.filterMap g = [] := by
  induction L with
  | nil => rfl
  | cons a L ih =>
    simp only [List.filterMap_cons, h a List.mem_cons_self]
    exact ih (fun s hs => h s (List.mem_cons_of_mem _ hs))

theorem filterMap_single {α β} (L : List α) (hL : L.Nodup) (g : α → Option β) (a : α) (b : β) (ha : a ∈ L)
    (hg : g a = some b) (ho : ∀ s ∈ L, s ≠ a → g s = none) : L.filterMap g = [b] := by
  induction L with
  | nil => cases ha
  | cons x L ih =>
    simp only [List.nodup_cons] at hL
    rcases List.mem_cons.mp ha with rfl | ha'
    · simp only [List.filterMap_cons, hg]
      rw [filterMap_nil' L g (fun s hs => ho s (List.mem_cons_of_mem _ hs) (fun e => hL.1 (e ▸ hs)))]
    · have hx : g x = none := ho x List.mem_cons_self (fun e => hL.1 (e ▸ ha'))
      simp only [List.filterMap_cons, hx]
      exact ih hL.2 ha' (fun s hs => ho s (List.mem_cons_of_mem _ hs))

/-- one side of `F_embedSkip` -/
def embedSkipT (t : Tree) (sk : List (List String)) : Bool :=
  (leavesOf t).any (fun l => underSkipped sk l && visible t l && isExported l.decl.name && l.decl.tag != .skip)

theorem F_embedSkip_eq (inp : Input) :
    F_embedSkip inp = (embedSkipT inp.src inp.srcSkipEmbeds || embedSkipT inp.dest inp.destSkipEmbeds) := rfl

theorem takesPart_part (t : Tree) (sk : List (List String)) (h : embedSkipT t sk = false) (l : Leaf) (hl : l ∈ leavesOf t) :
    (takesPart t sk l && isExported l.decl.name) = partLeaf t l := by
  simp only [embedSkipT, List.any_eq_false, Bool.and_eq_true, not_and, Bool.not_eq_true, bne_eq_false_iff_eq] at h
  unfold takesPart partLeaf
  cases hv : visible t l <;> cases he : isExported l.decl.name <;> cases ht : (l.decl.tag != Tag.skip) <;> simp
  cases hu : underSkipped sk l
  · rfl
  · have := h l hl ⟨⟨hu, hv⟩, he⟩
    simp [this] at ht

theorem leaves_nodup (t : Tree) (hK : ((leavesOf t).map (fun l => joinPath l.path)).Nodup) : (leavesOf t).Nodup :=
  nodup_of_map_nodup _ _ hK

theorem fieldOf_inj (t : Tree) (hK : ((leavesOf t).map (fun l => joinPath l.path)).Nodup) (a b : Leaf)
    (ha : a ∈ leavesOf t) (hb : b ∈ leavesOf t) (h : fieldOf a = fieldOf b) : a = b :=
  key_inj t hK a b ha hb (by rw [show a.path = b.path from congrArg Field.path h])


/-- the clauses under which the leaf-level statement of C05 is proved (all are clauses about the INPUT; the first nine make
    up region `WF` of C05, `keys` says that distinct leaves have distinct dotted paths — Go identifiers contain no dots —,
    the last two that the names compared are ASCII without underscores) -/
structure PlainOk (inp : Input) : Prop where
  hs : inp.srcNew = false
  hd : inp.destNew = false
  hm : inp.mapperPtr ≠ some true
  sel1 : wfSelectors inp.src = true
  sel2 : wfSelectors inp.dest = true
  shadow : F_skipShadow inp = false
  embed : F_embedSkip inp = false
  tagAmb : tagAmbiguous inp.src = false
  uniq : uniquePairs inp = true
  keys1 : ((leavesOf inp.src).map (fun l => joinPath l.path)).Nodup
  keys2 : ((leavesOf inp.dest).map (fun l => joinPath l.path)).Nodup
  srcNames : ∀ s ∈ leavesOf inp.src, Ascii (effName false s).toList ∧ NoUS (effName false s).toList
  destNames : ∀ d ∈ leavesOf inp.dest, Ascii d.decl.name.toList ∧ NoUS d.decl.name.toList

/-- a source leaf as candidate for destination leaf `d`, in the generator's terms -/
def gTo (inp : Input) (d s : Leaf) : Option (Leaf × Strat) :=
  if partLeaf inp.src s && inp.nm (fieldOf s) (fieldOf d) then
    (pairStrat inp.conv (indexed inp.fns) .src .dest s.decl.ty d.decl.ty).map (fun st => (s, st))
  else none

theorem candsTo_eq (inp : Input) (H : PlainOk inp) (d : Leaf) (hd : d ∈ leavesOf inp.dest) :
    candsTo inp d = if partLeaf inp.dest d && !inp.manualW.contains d.decl.name then
      (leavesOf inp.src).filterMap (gTo inp d) else [] := by
  have hemb := H.embed
  rw [F_embedSkip_eq, Bool.or_eq_false_iff] at hemb
  have hfm : (leavesOf inp.src).filterMap (fun s =>
      if takesPart inp.src inp.srcSkipEmbeds s && readable inp.srcNew s &&
         specNameMatch inp.ic (effName inp.srcNew s) (twinName inp.destNew d.decl.name) then
        (specStrategy inp .src .dest s.decl.ty d.decl.ty).map (fun st => (s, st))
      else none) = (leavesOf inp.src).filterMap (gTo inp d) := by
    apply filterMap_congr'
    intro s hs
    have hr : readable inp.srcNew s = isExported s.decl.name := by simp [readable, H.hs]
    have hn := nm_spec inp H.tagAmb s d hs (H.srcNames s hs).1 (H.srcNames s hs).2 (H.destNames d hd).1 (H.destNames d hd).2
    unfold gTo
    rw [hr, takesPart_part inp.src _ hemb.1 s hs, H.hs, H.hd, ← hn, pairStrat_eq_spec]
  unfold candsTo
  have hw : writable inp.dest inp.destNew d = isExported d.decl.name := by simp [writable, H.hd]
  rw [hfm, hw, takesPart_part inp.dest _ hemb.2 d hd]
  cases hp : partLeaf inp.dest d <;> cases hmw : inp.manualW.contains d.decl.name <;> simp


theorem specTo_of_cands (inp : Input) (d : Leaf) :
    (candsTo inp d = [] → specTo inp d = some .zero) ∧
    (∀ c, candsTo inp d = [c] → specTo inp d = some (provenance [] c)) := by
  constructor
  · intro h; simp [specTo, h]
  · intro c h; simp [specTo, h]

/-- C05 at the leaves, ToX: the value a destination leaf holds after `s.ToX()` on a fully populated source is the value the
    property prescribes (`specTo`: zero, or the one matching source leaf's value by the prescribed strategy) -/
theorem to_leaf (inp : Input) (H : PlainOk inp) (d : Leaf) (hd : d ∈ leavesOf inp.dest) :
    optV (specTo inp d) = some (obsLeaf (execTo inp []) d) := by
  have hsh := H.shadow
  rw [F_skipShadow_eq, Bool.or_eq_false_iff] at hsh
  have hsf : (plan inp).srcFields = sideFields inp.src false := by simp [plan, H.hs]
  have hdf : (plan inp).destFields = sideFields inp.dest false := by simp [plan, H.hd]
  have hWF := WF09_of_input inp H.hs H.hd (by simp [H.hm]) H.sel1 H.sel2 H.shadow
  have hexec := (no_panic inp hWF []).1
  have hctor : (plan inp).destCtor = none := (plan_plain_ctors inp H.hs H.hd).1
  have hpairs := fun c => (plan_pairs inp H.hs H.hd H.uniq c).1
  obtain ⟨_, _, hinv⟩ := plan_inv inp
  have hfsN : (plan inp).srcFields.Nodup := by rw [hsf]; exact nodup_of_map_nodup _ _ (sideFields_plain_nodup _)
  have hN := stmts_nodup _ _ hfsN hinv.toNodup
  have hR : ∀ c ∈ (plan inp).toStmts, ∃ rl, c.rd = fieldOf rl ∧ resolveField inp.srcSem.tree c.rd = some rl := by
    intro c hc
    have := ((hpairs c).mp hc).1
    obtain ⟨l, _, h1, h2, _⟩ := field_is_leaf inp.src H.sel1 hsh.1 c.rd (hsf ▸ this)
    exact ⟨l, h1, h2⟩
  have hW : ∀ c ∈ (plan inp).toStmts, ∃ wl ∈ leavesOf inp.destSem.tree, c.wr = fieldOf wl ∧
      resolveField inp.destSem.tree c.wr = some wl := by
    intro c hc
    have := ((hpairs c).mp hc).2.1
    obtain ⟨l, h0, h1, h2, _⟩ := field_is_leaf inp.dest H.sel2 hsh.2 c.wr (hdf ▸ this)
    exact ⟨l, h0, h1, h2⟩
  have hlv := leaf_value inp.srcSem inp.destSem (plan inp).toStmts { alloc := (tables inp (plan inp)).destAlloc } rfl
    hR hW hN H.keys2 d hd
  have hobs : obsLeaf (execTo inp []) d =
      (((plan inp).toStmts.foldl (idealStmt inp.srcSem inp.destSem []) { alloc := (tables inp (plan inp)).destAlloc }).get
        (joinPath d.path)).show := by
    rw [hexec]
    simp only [obsLeaf, idealTo, idealStart, hctor]
  rw [hobs]
  have hspec := specTo_of_cands inp d
  rw [candsTo_eq inp H d hd] at hspec
  by_cases hS : ∃ c ∈ (plan inp).toStmts, c.wr = fieldOf d
  · obtain ⟨c, hc, hcw⟩ := hS
    obtain ⟨rl, hr1, hr2⟩ := hR c hc
    have h5 := (hpairs c).mp hc
    obtain ⟨rl', hrl', hr1', hr2', hrp⟩ := field_is_leaf inp.src H.sel1 hsh.1 c.rd (hsf ▸ h5.1)
    have : rl' = rl := by
      have : resolveField inp.src c.rd = some rl := hr2
      rw [hr2'] at this; exact Option.some.inj this
    subst this
    obtain ⟨wl, hwl, hw1, _, hwp⟩ := field_is_leaf inp.dest H.sel2 hsh.2 c.wr (hdf ▸ h5.2.1)
    have hwd : wl = d := fieldOf_inj inp.dest H.keys2 wl d hwl hd (hw1.symm.trans hcw)
    subst hwd
    have hmw : inp.manualW.contains wl.decl.name = false := by
      have := h5.2.2.2.2.1
      rw [hcw] at this
      simpa [fieldOf] using this
    rw [(hlv.2 c hc hcw rl' hr1 hr2)]
    have hcs : (leavesOf inp.src).filterMap (gTo inp wl) = [(rl', c.strat)] := by
      apply filterMap_single _ (leaves_nodup _ H.keys1) _ rl' _ hrl'
      · unfold gTo
        have hnm : inp.nm (fieldOf rl') (fieldOf wl) = true := by rw [← hr1, ← hcw]; exact h5.2.2.1
        have hps := h5.2.2.2.2.2
        rw [hr1, hcw] at hps
        simp only [fieldOf] at hps
        simp [hrp, hnm, hps]
      · intro s hs hne
        unfold gTo
        by_cases hcond : (partLeaf inp.src s && inp.nm (fieldOf s) (fieldOf wl)) = true
        · simp only [hcond, ↓reduceIte]
          cases hps : pairStrat inp.conv (indexed inp.fns) .src .dest s.decl.ty wl.decl.ty with
          | none => rfl
          | some st =>
            exfalso
            simp only [Bool.and_eq_true] at hcond
            have hsf' := leaf_is_field inp.src H.sel1 hsh.1 s hs hcond.1
            have hc' : (⟨fieldOf s, fieldOf wl, st⟩ : Claim) ∈ (plan inp).toStmts :=
              (hpairs _).mpr ⟨hsf ▸ hsf', hcw ▸ h5.2.1, hcond.2, rfl, by rw [← hcw]; exact h5.2.2.2.2.1, hps⟩
            have hcc : (⟨fieldOf s, fieldOf wl, st⟩ : Claim) = c :=
              inj_of_map_nodup (fun x : Claim => x.wr.name) _ hN hc' hc (by simp [hcw])
            have : fieldOf s = fieldOf rl' := by rw [← hr1, ← hcc]
            exact hne (fieldOf_inj inp.src H.keys1 s rl' hs hrl' this)
        · simp [hcond]
    rw [hwp, hmw, hcs] at hspec
    simp only [Bool.not_false, Bool.and_self, ↓reduceIte] at hspec
    rw [hspec.2 _ rfl]
    rfl
  · have hno : ∀ c ∈ (plan inp).toStmts, c.wr ≠ fieldOf d := fun c hc e => hS ⟨c, hc, e⟩
    rw [hlv.1 hno]
    have hnil : (if (partLeaf inp.dest d && !inp.manualW.contains d.decl.name) = true then
        (leavesOf inp.src).filterMap (gTo inp d) else []) = [] := by
      split
      · rename_i hcond
        simp only [Bool.and_eq_true, Bool.not_eq_true'] at hcond
        apply filterMap_nil'
        intro s hs
        unfold gTo
        by_cases hc2 : (partLeaf inp.src s && inp.nm (fieldOf s) (fieldOf d)) = true
        · simp only [hc2, ↓reduceIte]
          cases hps : pairStrat inp.conv (indexed inp.fns) .src .dest s.decl.ty d.decl.ty with
          | none => rfl
          | some st =>
            exfalso
            simp only [Bool.and_eq_true] at hc2
            have hsf' := leaf_is_field inp.src H.sel1 hsh.1 s hs hc2.1
            have hdf' := leaf_is_field inp.dest H.sel2 hsh.2 d hd hcond.1
            have hmw : (fieldOf d).name ∉ inp.manualW := by
              have := hcond.2
              simpa [fieldOf] using this
            have hc' : (⟨fieldOf s, fieldOf d, st⟩ : Claim) ∈ (plan inp).toStmts :=
              (hpairs _).mpr ⟨hsf ▸ hsf', hdf ▸ hdf', hc2.2, rfl, hmw, hps⟩
            exact hno _ hc' rfl
        · simp [hc2]
      · rfl
    rw [hnil] at hspec
    rw [hspec.1 rfl]
    rfl

/-- a destination leaf as candidate for source leaf `s` (FromX), in the generator's terms -/
def gFrom (inp : Input) (s d : Leaf) : Option (Leaf × Strat) :=
  if partLeaf inp.dest d && inp.nm (fieldOf s) (fieldOf d) then
    (pairStrat inp.conv (indexed inp.fns) .dest .src d.decl.ty s.decl.ty).map (fun st => (d, st))
  else none

theorem candsFrom_eq (inp : Input) (H : PlainOk inp) (s : Leaf) (hs : s ∈ leavesOf inp.src) :
    candsFrom inp s = if partLeaf inp.src s && !inp.manualR.contains s.decl.name then
      (leavesOf inp.dest).filterMap (gFrom inp s) else [] := by
  have hemb := H.embed
  rw [F_embedSkip_eq, Bool.or_eq_false_iff] at hemb
  have hfm : (leavesOf inp.dest).filterMap (fun d =>
      if takesPart inp.dest inp.destSkipEmbeds d && readable inp.destNew d &&
         specNameMatch inp.ic (effName inp.srcNew s) (twinName inp.destNew d.decl.name) then
        (specStrategy inp .dest .src d.decl.ty s.decl.ty).map (fun st => (d, st))
      else none) = (leavesOf inp.dest).filterMap (gFrom inp s) := by
    apply filterMap_congr'
    intro d hd
    have hr : readable inp.destNew d = isExported d.decl.name := by simp [readable, H.hd]
    have hn := nm_spec inp H.tagAmb s d hs (H.srcNames s hs).1 (H.srcNames s hs).2 (H.destNames d hd).1 (H.destNames d hd).2
    unfold gFrom
    rw [hr, takesPart_part inp.dest _ hemb.2 d hd, H.hs, H.hd, ← hn, pairStrat_eq_spec]
  unfold candsFrom
  have hw : writable inp.src inp.srcNew s = isExported s.decl.name := by simp [writable, H.hs]
  rw [hfm, hw, takesPart_part inp.src _ hemb.1 s hs]
  cases hp : partLeaf inp.src s <;> cases hmw : inp.manualR.contains s.decl.name <;> simp

theorem specFrom_of_cands (inp : Input) (s : Leaf) :
    (candsFrom inp s = [] → specFrom inp s = some .zero) ∧
    (∀ c, candsFrom inp s = [c] → specFrom inp s = some (provenance [] c)) := by
  constructor
  · intro h; simp [specFrom, h]
  · intro c h; simp [specFrom, h]

/-- C05 at the leaves, FromX: the value a source leaf holds after `r.FromX(d)` on a fully populated destination — whatever
    the receiver held — is the value the property prescribes (`specFrom`) -/
theorem from_leaf (inp : Input) (H : PlainOk inp) (recv : Recv) (s : Leaf) (hs : s ∈ leavesOf inp.src) :
    optV (specFrom inp s) = some (obsLeaf (execFrom inp [] recv) s) := by
  have hsh := H.shadow
  rw [F_skipShadow_eq, Bool.or_eq_false_iff] at hsh
  have hsf : (plan inp).srcFields = sideFields inp.src false := by simp [plan, H.hs]
  have hdf : (plan inp).destFields = sideFields inp.dest false := by simp [plan, H.hd]
  have hWF := WF09_of_input inp H.hs H.hd (by simp [H.hm]) H.sel1 H.sel2 H.shadow
  have hexec := (no_panic inp hWF []).2 recv
  have hctor : (plan inp).srcCtor = none := (plan_plain_ctors inp H.hs H.hd).2
  have hpairs := fun c => (plan_pairs inp H.hs H.hd H.uniq c).2
  obtain ⟨_, _, hinv⟩ := plan_inv inp
  have hdsN : (plan inp).destFields.Nodup := by rw [hdf]; exact nodup_of_map_nodup _ _ (sideFields_plain_nodup _)
  have hN := stmts_nodup _ _ hdsN hinv.fromNodup
  have hR : ∀ c ∈ (plan inp).fromStmts, ∃ rl, c.rd = fieldOf rl ∧ resolveField inp.destSem.tree c.rd = some rl := by
    intro c hc
    have := ((hpairs c).mp hc).2.1
    obtain ⟨l, _, h1, h2, _⟩ := field_is_leaf inp.dest H.sel2 hsh.2 c.rd (hdf ▸ this)
    exact ⟨l, h1, h2⟩
  have hW : ∀ c ∈ (plan inp).fromStmts, ∃ wl ∈ leavesOf inp.srcSem.tree, c.wr = fieldOf wl ∧
      resolveField inp.srcSem.tree c.wr = some wl := by
    intro c hc
    have := ((hpairs c).mp hc).1
    obtain ⟨l, h0, h1, h2, _⟩ := field_is_leaf inp.src H.sel1 hsh.1 c.wr (hsf ▸ this)
    exact ⟨l, h0, h1, h2⟩
  have hlv := leaf_value inp.destSem inp.srcSem (plan inp).fromStmts { alloc := (tables inp (plan inp)).srcAlloc } rfl
    hR hW hN H.keys1 s hs
  have hobs : obsLeaf (execFrom inp [] recv) s =
      (((plan inp).fromStmts.foldl (idealStmt inp.destSem inp.srcSem []) { alloc := (tables inp (plan inp)).srcAlloc }).get
        (joinPath s.path)).show := by
    rw [hexec]
    simp only [obsLeaf, idealFrom, idealStart, hctor]
  rw [hobs]
  have hspec := specFrom_of_cands inp s
  rw [candsFrom_eq inp H s hs] at hspec
  by_cases hS : ∃ c ∈ (plan inp).fromStmts, c.wr = fieldOf s
  · obtain ⟨c, hc, hcw⟩ := hS
    obtain ⟨rl, hr1, hr2⟩ := hR c hc
    have h5 := (hpairs c).mp hc
    obtain ⟨rl', hrl', hr1', hr2', hrp⟩ := field_is_leaf inp.dest H.sel2 hsh.2 c.rd (hdf ▸ h5.2.1)
    have : rl' = rl := by
      have : resolveField inp.dest c.rd = some rl := hr2
      rw [hr2'] at this; exact Option.some.inj this
    subst this
    obtain ⟨wl, hwl, hw1, _, hwp⟩ := field_is_leaf inp.src H.sel1 hsh.1 c.wr (hsf ▸ h5.1)
    have hwd : wl = s := fieldOf_inj inp.src H.keys1 wl s hwl hs (hw1.symm.trans hcw)
    subst hwd
    have hmw : inp.manualR.contains wl.decl.name = false := by
      have := h5.2.2.2.2.1
      rw [hcw] at this
      simpa [fieldOf] using this
    rw [(hlv.2 c hc hcw rl' hr1 hr2)]
    have hcs : (leavesOf inp.dest).filterMap (gFrom inp wl) = [(rl', c.strat)] := by
      apply filterMap_single _ (leaves_nodup _ H.keys2) _ rl' _ hrl'
      · unfold gFrom
        have hnm : inp.nm (fieldOf wl) (fieldOf rl') = true := by rw [← hr1, ← hcw]; exact h5.2.2.1
        have hps := h5.2.2.2.2.2
        rw [hr1, hcw] at hps
        simp only [fieldOf] at hps
        simp [hrp, hnm, hps]
      · intro d hd hne
        unfold gFrom
        by_cases hcond : (partLeaf inp.dest d && inp.nm (fieldOf wl) (fieldOf d)) = true
        · simp only [hcond, ↓reduceIte]
          cases hps : pairStrat inp.conv (indexed inp.fns) .dest .src d.decl.ty wl.decl.ty with
          | none => rfl
          | some st =>
            exfalso
            simp only [Bool.and_eq_true] at hcond
            have hdf' := leaf_is_field inp.dest H.sel2 hsh.2 d hd hcond.1
            have hc' : (⟨fieldOf d, fieldOf wl, st⟩ : Claim) ∈ (plan inp).fromStmts :=
              (hpairs _).mpr ⟨hcw ▸ h5.1, hdf ▸ hdf', hcond.2, rfl, by rw [← hcw]; exact h5.2.2.2.2.1, hps⟩
            have hcc : (⟨fieldOf d, fieldOf wl, st⟩ : Claim) = c :=
              inj_of_map_nodup (fun x : Claim => x.wr.name) _ hN hc' hc (by simp [hcw])
            have : fieldOf d = fieldOf rl' := by rw [← hr1, ← hcc]
            exact hne (fieldOf_inj inp.dest H.keys2 d rl' hd hrl' this)
        · simp [hcond]
    rw [hwp, hmw, hcs] at hspec
    simp only [Bool.not_false, Bool.and_self, ↓reduceIte] at hspec
    rw [hspec.2 _ rfl]
    rfl
  · have hno : ∀ c ∈ (plan inp).fromStmts, c.wr ≠ fieldOf s := fun c hc e => hS ⟨c, hc, e⟩
    rw [hlv.1 hno]
    have hnil : (if (partLeaf inp.src s && !inp.manualR.contains s.decl.name) = true then
        (leavesOf inp.dest).filterMap (gFrom inp s) else []) = [] := by
      split
      · rename_i hcond
        simp only [Bool.and_eq_true, Bool.not_eq_true'] at hcond
        apply filterMap_nil'
        intro d hd
        unfold gFrom
        by_cases hc2 : (partLeaf inp.dest d && inp.nm (fieldOf s) (fieldOf d)) = true
        · simp only [hc2, ↓reduceIte]
          cases hps : pairStrat inp.conv (indexed inp.fns) .dest .src d.decl.ty s.decl.ty with
          | none => rfl
          | some st =>
            exfalso
            simp only [Bool.and_eq_true] at hc2
            have hdf' := leaf_is_field inp.dest H.sel2 hsh.2 d hd hc2.1
            have hsf' := leaf_is_field inp.src H.sel1 hsh.1 s hs hcond.1
            have hmw : (fieldOf s).name ∉ inp.manualR := by
              have := hcond.2
              simpa [fieldOf] using this
            have hc' : (⟨fieldOf d, fieldOf s, st⟩ : Claim) ∈ (plan inp).fromStmts :=
              (hpairs _).mpr ⟨hsf ▸ hsf', hdf ▸ hdf', hc2.2, rfl, hmw, hps⟩
            exact hno _ hc' rfl
        · simp [hc2]
      · rfl
    rw [hnil] at hspec
    rw [hspec.1 rfl]
    rfl


theorem filterMap_eq_map_of {α β} (L : List α) (f : α → Option β) (g : α → β) (h : ∀ x ∈ L, f x = some (g x)) :
    L.filterMap f = L.map g := by
  induction L with
  | nil => rfl
  | cons a L ih =>
    simp only [List.filterMap_cons, h a List.mem_cons_self, List.map_cons]
    rw [ih (fun x hx => h x (List.mem_cons_of_mem _ hx))]

/-- C05, the whole observation: for every input satisfying `PlainOk` whose nested struct pairs are mapped (not converted
    wholesale: `nestedMapped`, the `to:nested` / `from:nested` observable), what the model computes — by executing the emitted
    statement lists — is what the property prescribes, key by key -/
theorem obs05_eq_spec05 (inp : Input) (H : PlainOk inp) (hn : nestedMapped inp = true) : obs05 inp = spec05 inp := by
  have hcomp := modelCompiles_plain inp H.hs H.hd H.sel1 H.sel2 H.shadow
  have hWF := WF09_of_input inp H.hs H.hd (by simp [H.hm]) H.sel1 H.sel2 H.shadow
  have hexec := no_panic inp hWF []
  unfold obs05 spec05
  simp only [hcomp, Bool.not_true, Bool.false_eq_true, ↓reduceIte, hn, fromWritesReceiver]
  congr 1
  congr 1
  · split
    · have hto : (leavesOf inp.dest).filterMap (fun l => (optV (specTo inp l)).map (fun v => ("to:" ++ joinPath l.path, v))) =
          (leavesOf inp.dest).map (fun l => ("to:" ++ joinPath l.path, obsLeaf (execTo inp []) l)) := by
        apply filterMap_eq_map_of
        intro l hl
        rw [to_leaf inp H l hl]; rfl
      rw [hto, hexec.1]
    · rfl
  · split
    · have hfrom : (leavesOf inp.src).filterMap (fun l => (optV (specFrom inp l)).map (fun v => ("from:" ++ joinPath l.path, v))) =
          (leavesOf inp.src).map (fun l => ("from:" ++ joinPath l.path, obsLeaf (execFrom inp []) l)) := by
        apply filterMap_eq_map_of
        intro l hl
        rw [from_leaf inp H .clean l hl]; rfl
      rw [hfrom, hexec.2 .clean]
      simp
    · rfl


/-- names are ASCII: every field name of both sides and every `map:"Name"` tag value of the source side -/
def asciiOk (inp : Input) : Bool :=
  (allNames inp.src ++ allNames inp.dest).all asciiS &&
  (leavesOf inp.src).all (fun l => match l.decl.tag with | .name x => asciiS x | _ => true)

/-- region `WF` of C05 (what the driver prints for the case), ASCII names and distinct dotted leaf paths give `PlainOk` -/
theorem plainOk_of_WF (inp : Input) (h : region05 inp = "WF") (ha : asciiOk inp = true)
    (hk1 : ((leavesOf inp.src).map (fun l => joinPath l.path)).Nodup)
    (hk2 : ((leavesOf inp.dest).map (fun l => joinPath l.path)).Nodup) : PlainOk inp := by
  unfold region05 at h
  split at h
  · exact absurd h (by decide)
  rename_i h1
  split at h
  · exact absurd h (by decide)
  rename_i h2
  split at h
  · exact absurd h (by decide)
  rename_i h3
  split at h
  · exact absurd h (by decide)
  rename_i h4
  split at h
  · exact absurd h (by decide)
  rename_i h5
  split at h
  · exact absurd h (by decide)
  rename_i h6
  simp only [Bool.or_eq_true, Bool.not_eq_true', beq_iff_eq, not_or, Bool.not_eq_false] at h1 h2
  obtain ⟨⟨⟨hg, hs⟩, hd⟩, hm⟩ := h1
  simp only [grammarOk, Bool.and_eq_true] at hg
  obtain ⟨⟨⟨⟨⟨⟨⟨⟨⟨⟨⟨_, _⟩, hsel1⟩, hsel2⟩, _⟩, _⟩, _⟩, _⟩, _⟩, _⟩, _⟩, _⟩ := hg
  simp only [asciiOk, Bool.and_eq_true, List.all_eq_true, List.mem_append, allNames, List.mem_map] at ha
  have hno := h2.1
  simp only [namesOk05, List.all_eq_true, List.mem_append, List.mem_map, List.mem_filter, allNames] at hno
  refine ⟨by simpa using hs, by simpa using hd, by simpa using hm, hsel1, hsel2, by simpa using h3, by simpa using h4,
    by simpa using h2.2, by simpa using h6, hk1, hk2, ?_, ?_⟩
  · intro s hs'
    apply effName_clean s (ha.1 _ (Or.inl ⟨s, hs', rfl⟩))
    · intro x hx
      have := ha.2 s hs'
      rw [hx] at this
      exact this
    · cases ht : s.decl.tag with
      | name x => rfl
      | none => exact hno _ (Or.inl ⟨s, ⟨hs', by simp [ht]⟩, rfl⟩)
      | skip => exact hno _ (Or.inl ⟨s, ⟨hs', by simp [ht]⟩, rfl⟩)
  · intro d hd'
    exact ⟨(asciiS_iff _).mp (ha.1 _ (Or.inr ⟨d, hd', rfl⟩)), (noUnderscore_iff _).mp (hno _ (Or.inr ⟨d, hd', rfl⟩))⟩

end ShootVerif.Mapper
