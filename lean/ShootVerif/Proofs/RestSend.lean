import ShootVerif.Proofs.RestCook
/-! Helper lemmas for C06: running the emitted statements on argument values. -/
namespace ShootVerif.Rest

/-! ### query statements -/

theorem runQueryOps_append (args : Args) (a b : List QueryOp) :
    runQueryOps args (a ++ b) =
      match runQueryOps args a, runQueryOps args b with
      | some x, some y => some (x ++ y)
      | _, _ => none := by
  induction a with
  | nil => simp only [List.nil_append, runQueryOps]; cases runQueryOps args b <;> rfl
  | cons op rest ih =>
    simp only [List.cons_append, runQueryOps, ih]
    cases evalExpr args op.expr with
    | none => rfl
    | some v =>
      cases runQueryOps args rest with
      | none => rfl
      | some x =>
        cases runQueryOps args b with
        | none => cases v <;> rfl
        | some y => cases v <;> rfl

theorem runQueryOps_flatMap (args : Args) (ps : List Param) (f : Param → List QueryOp)
    (g : Param → List (String × List Char)) (h : ∀ p ∈ ps, runQueryOps args (f p) = some (g p)) :
    runQueryOps args (ps.flatMap f) = some (ps.flatMap g) := by
  induction ps with
  | nil => rfl
  | cons p ps ih =>
    simp only [List.flatMap_cons, runQueryOps_append, h p (by simp), ih (fun q hq => h q (by simp [hq]))]

/-- the contribution of one parameter to the query, as the property states it -/
def plainOf (m : MethodSpec) (args : Args) (p : Param) : List (String × List Char) :=
  match p.kind with
  | .scalar | .qualOther =>
    if isPathParam m p.name then []
    else match getKV args p.name with
      | some (.scalar (.txt s)) => [(aliasOf m p.name, s)]
      | _ => []
  | .struct fs =>
    match getKV args p.name with
    | some (.struct false vals) => fs.filterMap (fieldBinding vals)
    | _ => []
  | _ => []

theorem plainBindings_eq (m : MethodSpec) (args : Args) (ps : List Param) :
    plainBindings m args ps = ps.flatMap (plainOf m args) := by
  induction ps with
  | nil => rfl
  | cons p ps ih =>
    simp only [plainBindings, List.flatMap_cons, ih]
    congr 1

theorem run_fields_present (args : Args) (pn : String) (vals : List (String × Val))
    (h : getKV args pn = some (.struct false vals)) (fs : List Field) :
    runQueryOps args (fs.map (fun f => (⟨fieldExpr pn f, fieldKey f, f.ptr⟩ : QueryOp)))
      = some (fs.filterMap (fieldBinding vals)) := by
  induction fs with
  | nil => rfl
  | cons f fs ih =>
    simp only [fieldExpr] at ih ⊢
    simp only [List.map_cons, runQueryOps, evalExpr, h, ih, List.filterMap_cons, fieldBinding]
    cases hv : getKV vals f.name with
    | none => simp
    | some v => cases v <;> simp

theorem run_fields_absent (args : Args) (pn : String)
    (h : ∀ v, getKV args pn ≠ some (.struct false v)) (hn : ∀ v, getKV args pn ≠ some (.struct true v))
    (fs : List Field) :
    runQueryOps args (fs.map (fun f => (⟨fieldExpr pn f, fieldKey f, f.ptr⟩ : QueryOp))) = some [] := by
  induction fs with
  | nil => rfl
  | cons f fs ih =>
    simp only [fieldExpr] at ih ⊢
    simp only [List.map_cons, runQueryOps, evalExpr, ih]

/-- one parameter's statements, run on the arguments, set exactly what the property lists for it -/
theorem run_paramOps (m : MethodSpec) (args : Args) (p : Param)
    (hn : isStructParam p = true → fieldsOf p ≠ [] → ∀ v, getKV args p.name ≠ some (.struct true v)) :
    runQueryOps args (specParamOps m p) = some (plainOf m args p) := by
  cases hk : p.kind with
  | scalar =>
    simp only [specParamOps, plainOf, hk]
    by_cases hp : isPathParam m p.name = true
    · simp [hp, runQueryOps]
    · simp only [hp, Bool.false_eq_true, ↓reduceIte, runQueryOps, evalExpr]
      cases ha : getKV args p.name with
      | none => rfl
      | some a =>
        cases a with
        | scalar v => cases v <;> rfl
        | _ => rfl
  | struct fs =>
    simp only [specParamOps, plainOf, hk]
    cases ha : getKV args p.name with
    | none =>
      exact run_fields_absent args p.name (by simp [ha]) (by simp [ha]) fs
    | some a =>
      cases a with
      | struct isNil v =>
        cases isNil with
        | true =>
          cases fs with
          | nil => rfl
          | cons f fs' =>
            exact absurd ha (hn (by simp [isStructParam, hk]) (by simp [fieldsOf, hk]) v)
        | false => exact run_fields_present args p.name v ha fs
      | scalar v => exact run_fields_absent args p.name (by simp [ha]) (by simp [ha]) fs
      | dict v => exact run_fields_absent args p.name (by simp [ha]) (by simp [ha]) fs
      | ctx v => exact run_fields_absent args p.name (by simp [ha]) (by simp [ha]) fs
  | qualOther =>
    simp only [specParamOps, plainOf, hk]
    by_cases hp : isPathParam m p.name = true
    · simp [hp, runQueryOps]
    · simp only [hp, Bool.false_eq_true, ↓reduceIte, runQueryOps, evalExpr]
      cases ha : getKV args p.name with
      | none => rfl
      | some a =>
        cases a with
        | scalar v => cases v <;> rfl
        | _ => rfl
  | ctx => simp [specParamOps, plainOf, hk, runQueryOps]
  | dict => simp [specParamOps, plainOf, hk, runQueryOps]
  | unsupported => simp [specParamOps, plainOf, hk, runQueryOps]

/-! ### dict, body, ctx slots of the cooked method -/

def structLike (p : Param) : Bool := isStructParam p

theorem handleParam_slots (verb : Verb) (pp : List String) (st st' : Cooked) (p : Param)
    (h : handleParam verb pp st p = .ok st') :
    st'.dict = (if isDictParam p && !verb.hasBody then st.dict ++ [p.name] else st.dict) ∧
    st'.ctx = (if isCtxParam p then some p.name else st.ctx) ∧
    st'.body = (if structLike p then some p.name else st.body) ∧
    (structLike p = true → st.body = none) := by
  unfold handleParam at h
  simp only [bind, Except.bind, pure, Except.pure] at h
  cases hk : p.kind with
  | ctx =>
    simp only [hk] at h
    by_cases hp : p.ptr = true <;>
      simp only [hp, Bool.false_eq_true, ↓reduceIte, Except.ok.injEq] at h <;> subst h <;>
      simp [isDictParam, isCtxParam, structLike, isStructParam, isQualOther, hk]
  | scalar =>
    simp only [hk] at h
    by_cases hp : p.ptr = true <;> by_cases hm : p.name ∈ pp
    all_goals
      have hc : pp.contains p.name = decide (p.name ∈ pp) := by simp
      simp only [hc, hm, decide_true, decide_false, hp, Bool.false_eq_true, ↓reduceIte, Except.ok.injEq] at h
      subst h
      simp [isDictParam, isCtxParam, structLike, isStructParam, isQualOther, hk]
  | struct fs =>
    simp only [hk, setBody] at h
    cases hb : st.body with
    | some b => simp [hb] at h
    | none =>
      simp only [hb, handleStruct_closed] at h
      by_cases hp : p.ptr = true <;>
        simp only [hp, Bool.false_eq_true, ↓reduceIte, Except.ok.injEq] at h <;> subst h <;>
        simp [isDictParam, isCtxParam, structLike, isStructParam, isQualOther, hk]
  | qualOther =>
    simp only [hk] at h
    by_cases hp : p.ptr = true <;> by_cases hm : p.name ∈ pp
    all_goals
      have hc : pp.contains p.name = decide (p.name ∈ pp) := by simp
      simp only [hc, hm, decide_true, decide_false, hp, Bool.false_eq_true, ↓reduceIte, Except.ok.injEq] at h
      subst h
      simp [isDictParam, isCtxParam, structLike, isStructParam, isQualOther, hk]
  | dict =>
    simp only [hk] at h
    by_cases hp : p.ptr = true <;> by_cases hv : verb.hasBody = true <;>
      simp only [hp, hv, Bool.false_eq_true, ↓reduceIte, Except.ok.injEq] at h <;> subst h <;>
      simp [isDictParam, isCtxParam, structLike, isStructParam, isQualOther, hk, hv]
  | unsupported => simp [hk] at h

/-- the name of the last parameter satisfying `q`, else `dflt` -/
def lastNamed (q : Param → Bool) (dflt : Option String) : List Param → Option String
  | [] => dflt
  | p :: ps => lastNamed q (if q p then some p.name else dflt) ps

theorem cookParams_slots (verb : Verb) (pp : List String) (ps : List Param) :
    ∀ (st c : Cooked), cookParams verb pp st ps = .ok c →
      c.dict = st.dict ++ ((ps.filter (fun p => isDictParam p && !verb.hasBody)).map (·.name)) ∧
      c.ctx = lastNamed isCtxParam st.ctx ps ∧
      c.body = lastNamed structLike st.body ps ∧
      (st.body = none → (ps.filter structLike).length ≤ 1) := by
  induction ps with
  | nil =>
    intro st c h
    simp only [cookParams, pure, Except.pure, Except.ok.injEq] at h
    subst h; simp [lastNamed]
  | cons p ps ih =>
    intro st c h
    simp only [cookParams, bind, Except.bind] at h
    cases h1 : handleParam verb pp st p with
    | error e => simp [h1] at h
    | ok st1 =>
      simp only [h1] at h
      obtain ⟨d1, c1, b1, n1⟩ := handleParam_slots verb pp st st1 p h1
      obtain ⟨d2, c2, b2, n2⟩ := ih st1 c h
      refine ⟨by rw [d2, d1]; by_cases hd : (isDictParam p && !verb.hasBody) = true <;> simp [List.filter_cons, hd], by rw [c2, c1]; rfl, by rw [b2, b1]; rfl, ?_⟩
      intro hb
      by_cases hs : structLike p = true
      · -- after p the body slot is taken: no further struct-like parameter can follow
        simp only [List.filter_cons, hs, ↓reduceIte, List.length_cons]
        have hnone : ∀ q ∈ ps, structLike q = false := by
          -- otherwise cookParams on the tail would fail
          clear ih d2 c2 b2 n2
          have hb1 : st1.body = some p.name := by rw [b1]; simp [hs]
          clear h1 d1 c1 b1 n1 hb
          induction ps generalizing st1 with
          | nil => intro q hq; cases hq
          | cons r rs ihr =>
            intro q hq
            simp only [cookParams, bind, Except.bind] at h
            cases h2 : handleParam verb pp st1 r with
            | error e => simp [h2] at h
            | ok st2 =>
              simp only [h2] at h
              obtain ⟨_, _, b3, n3⟩ := handleParam_slots verb pp st1 st2 r h2
              have hr : structLike r = false := by
                cases hsr : structLike r with
                | false => rfl
                | true => rw [n3 hsr] at hb1; cases hb1
              simp only [List.mem_cons] at hq
              rcases hq with hq | hq
              · rw [hq]; exact hr
              · have hb2 : st2.body = some p.name := by rw [b3]; simp [hr, hb1]
                exact ihr st2 h hb2 q hq
        have : ps.filter structLike = [] := by
          rw [List.filter_eq_nil_iff]; intro q hq; simp [hnone q hq]
        simp [this]
      · simp only [List.filter_cons, hs, Bool.false_eq_true, ↓reduceIte]
        apply n2
        rw [b1]; simp [hs, hb]

theorem lastNamed_none (q : Param → Bool) (d : Option String) (ps : List Param) (h : ps.filter q = []) :
    lastNamed q d ps = d := by
  induction ps generalizing d with
  | nil => rfl
  | cons p ps ih =>
    rw [List.filter_cons] at h
    by_cases hq : q p = true
    · simp [hq] at h
    · simp only [hq, Bool.false_eq_true, ↓reduceIte] at h
      simp [lastNamed, hq, ih d h]

/-- with at most one parameter satisfying `q`, the last such is the first such -/
theorem lastNamed_le_one (q : Param → Bool) (d : Option String) (ps : List Param) (h : (ps.filter q).length ≤ 1) :
    lastNamed q d ps = ((ps.find? q).map (·.name)).or d := by
  induction ps generalizing d with
  | nil => rfl
  | cons p ps ih =>
    rw [List.filter_cons] at h
    by_cases hq : q p = true
    · simp only [hq, ↓reduceIte, List.length_cons] at h
      have h0 : ps.filter q = [] := by
        cases hf : ps.filter q with
        | nil => rfl
        | cons x xs => rw [hf] at h; simp at h
      simp [lastNamed, hq, List.find?_cons, lastNamed_none q _ ps h0]
    · simp only [hq, Bool.false_eq_true, ↓reduceIte] at h
      simp [lastNamed, hq, List.find?_cons, ih d h]

/-- the entries of one parameter if it is a map -/
def dictOf (args : Args) (p : Param) : List (String × List Char) :=
  match p.kind with
  | .dict => match getKV args p.name with
    | some (.dict es) => es
    | _ => []
  | _ => []

theorem dictBindings_cons (args : Args) (p : Param) (ps : List Param) :
    dictBindings args (p :: ps) = dictOf args p ++ dictBindings args ps := rfl

theorem dictOf_not (args : Args) (p : Param) (h : isDictParam p = false) : dictOf args p = [] := by
  unfold isDictParam at h
  unfold dictOf
  cases hk : p.kind <;> simp_all

theorem dictOf_is (args : Args) (p : Param) (h : isDictParam p = true) :
    dictOf args p = dictOne args p.name := by
  unfold isDictParam at h
  cases hk : p.kind with
  | dict =>
    unfold dictOf dictOne
    simp only [hk]
    cases getKV args p.name with
    | none => rfl
    | some a => cases a <;> rfl
  | _ => simp [hk] at h

/-- every map parameter is ranged over: the statements set exactly the entries of all map arguments -/
theorem dictBindings_eq (args : Args) (ps : List Param) :
    dictBindings args ps = dictSets args ((ps.filter isDictParam).map (·.name)) := by
  induction ps with
  | nil => rfl
  | cons p ps ih =>
    rw [dictBindings_cons, ih, List.filter_cons]
    by_cases hq : isDictParam p = true
    · simp [hq, dictOf_is args p hq, dictSets]
    · simp only [hq, Bool.false_eq_true, ↓reduceIte]
      rw [dictOf_not args p (by simpa using hq)]; rfl

/-! ### placeholders: from the alias tables to the `strings.Replace` lines -/

theorem placeholders_eq (p : List Char) : placeholders p = phNames (tokenize p) := rfl

theorem lastOfKey_of_nodup_mem (al : List (String × String)) (h : (keysOf al).Nodup) (kv : String × String)
    (hm : kv ∈ al) : lastOfKey al kv.1 = some kv.2 := by
  apply lastOfKey_unique
  · exact hm
  · intro kv' hm' hk
    have : kv' = kv := nodup_map_inj (fun x : String × String => x.1) al h kv' kv hm' hm hk
    rw [this]

/-- the `strings.Replace` line generated for placeholder `n`: it replaces `{n}` itself, by the
    argument of the parameter the placeholder stands for -/
theorem sub_of_placeholder (m : MethodSpec) (n : String)
    (hak : (keysOf m.alias).Nodup) (hav : ∀ kv ∈ m.alias, kv.2.isEmpty = false)
    (hok : (m.alias.any (fun kv => kv.2 == n) || !m.alias.any (fun kv => kv.1 == n)) = true) :
    (match lastOfKey m.alias (resolve m n) with
      | some a => if a.isEmpty then (⟨resolve m n, resolve m n⟩ : PathSub) else ⟨a, resolve m n⟩
      | none => ⟨resolve m n, resolve m n⟩) = ⟨n, resolve m n⟩ := by
  unfold resolve
  cases hf : m.alias.reverse.find? (fun kv => kv.2 = n) with
  | some kv =>
    have hm : kv ∈ m.alias := List.mem_reverse.1 (List.mem_of_find?_eq_some hf)
    have h2 : kv.2 = n := by simpa using List.find?_some hf
    have h3 := hav kv hm
    rw [h2] at h3
    simp only [lastOfKey_of_nodup_mem m.alias hak kv hm, h2, h3, Bool.false_eq_true, ↓reduceIte]
  | none =>
    rw [List.find?_eq_none] at hf
    have hno : m.alias.any (fun kv => kv.2 == n) = false := by
      cases hb : m.alias.any (fun kv => kv.2 == n) with
      | false => rfl
      | true =>
        rw [List.any_eq_true] at hb
        obtain ⟨kv, hkv, hk⟩ := hb
        exact absurd (by simpa using hk) (hf kv (List.mem_reverse.2 hkv))
    simp only [hno, Bool.false_or, Bool.not_eq_eq_eq_not, Bool.not_true] at hok
    have : lastOfKey m.alias n = none := by
      apply lastOfKey_none_of
      intro kv hkv e
      have : m.alias.any (fun kv => kv.1 == n) = true := by
        rw [List.any_eq_true]; exact ⟨kv, hkv, by simpa using e⟩
      rw [hok] at this; cases this
    simp only [this]

theorem subs_eq (m : MethodSpec) (c : Cooked) (args : Args)
    (hak : (keysOf m.alias).Nodup) (hav : ∀ kv ∈ m.alias, kv.2.isEmpty = false)
    (hok : ∀ n ∈ placeholders m.path,
      (m.alias.any (fun kv => kv.2 == String.ofList n) || !m.alias.any (fun kv => kv.1 == String.ofList n)) = true)
    (ha : c.aliasMap = setAll (m.alias.map (fun kv => (Expr.param kv.1, kv.2))) (m.params.flatMap aliasEntries)) :
    (subsOf c.aliasMap (realParams m.alias (placeholders m.path))).map (fun s => (s.key.toList, argText args s.param))
      = (placeholders m.path).map (fun n => (n, argText args (resolve m (String.ofList n)))) := by
  rw [realParams_eq, subsOf, List.map_map, List.map_map]
  apply List.map_congr_left
  intro n hn
  simp only [Function.comp, ha, getKV_alias_param, getKV_eq_lastOfKey_of_nodup m.alias hak]
  have := sub_of_placeholder m (String.ofList n) hak hav (hok n hn)
  -- the two `match`es are the same function of `lastOfKey …`
  have e : (match lastOfKey m.alias (resolve m (String.ofList n)) with
      | some a => if a.isEmpty then (⟨resolve m (String.ofList n), resolve m (String.ofList n)⟩ : PathSub)
                  else ⟨a, resolve m (String.ofList n)⟩
      | none => ⟨resolve m (String.ofList n), resolve m (String.ofList n)⟩) = ⟨String.ofList n, resolve m (String.ofList n)⟩ := this
  cases hl : lastOfKey m.alias (resolve m (String.ofList n)) with
  | none =>
    rw [hl] at e
    simp only at e ⊢
    have e1 := congrArg PathSub.key e
    simp only at e1
    rw [e1, String.toList_ofList]
  | some a =>
    rw [hl] at e
    simp only at e ⊢
    by_cases hae : a.isEmpty = true
    · simp only [hae, ↓reduceIte] at e ⊢
      have e1 := congrArg PathSub.key e
      simp only at e1
      rw [e1, String.toList_ofList]
    · simp only [hae, Bool.false_eq_true, ↓reduceIte] at e ⊢
      have e1 := congrArg PathSub.key e
      simp only at e1
      rw [e1, String.toList_ofList]

/-- everything the theorems need to know about a method, as propositions -/
structure MethodOK (m : MethodSpec) : Prop where
  names : (m.params.map (·.name)).Nodup
  oneCtx : (m.params.filter isCtxParam).length ≤ 1
  aliasKeys : (keysOf m.alias).Nodup
  aliasVals : ∀ kv ∈ m.alias, kv.2.isEmpty = false
  clean : toksClean (tokenize m.path)
  phOk : ∀ n ∈ placeholders m.path,
    (m.alias.any (fun kv => kv.2 == String.ofList n) || !m.alias.any (fun kv => kv.1 == String.ofList n)) = true
  phParam : ∀ n ∈ placeholders m.path, resolve m (String.ofList n) ∈ m.params.map (·.name)
  fields : ∀ p ∈ m.params, ((fieldsOf p).map (·.name)).Nodup
  fieldKeys : ∀ p ∈ m.params, ∀ f ∈ fieldsOf p, (fieldKey f).isEmpty = false

/-- the argument values a call may carry for the theorems to apply (¬F_nilStructDeref) -/
structure ArgsOK (m : MethodSpec) (args : Args) : Prop where
  noNilStruct : m.verb.hasBody = false → ∀ p ∈ m.params, isStructParam p = true → fieldsOf p ≠ [] →
    ∀ v, getKV args p.name ≠ some (.struct true v)

/-- the cooked tables of a method whose directives parsed to what the user meant -/
def CookedFor (m : MethodSpec) (c : Cooked) (d : PathDir) (subs : List PathSub) : Prop :=
  cookParsed ⟨m.verb, m.path, placeholders m.path⟩ m.alias m.params = .ok c d subs

theorem cookedFor_unpack (m : MethodSpec) (c : Cooked) (d : PathDir) (subs : List PathSub)
    (h : CookedFor m c d subs) :
    d = ⟨m.verb, m.path, placeholders m.path⟩ ∧
    subs = subsOf c.aliasMap (realParams m.alias (placeholders m.path)) ∧
    cookParams m.verb (realParams m.alias (placeholders m.path))
      { aliasMap := m.alias.map (fun kv => (Expr.param kv.1, kv.2)) } m.params = .ok c := by
  unfold CookedFor cookParsed at h
  by_cases hinj : (!decide ((m.alias.map (·.2)).Nodup)) = true
  · simp [hinj] at h
  simp only [hinj, Bool.false_eq_true, ↓reduceIte] at h
  cases hc : cookParams m.verb (realParams m.alias (placeholders m.path))
      { aliasMap := m.alias.map (fun kv => (Expr.param kv.1, kv.2)) } m.params with
  | error e => simp [hc] at h
  | ok c' =>
    simp only [hc, MethodRes.ok.injEq] at h
    obtain ⟨h1, h2, h3⟩ := h
    subst h1
    exact ⟨h2.symm, h3.symm, rfl⟩

/-- the path handed to url.JoinPath: every placeholder filled with its own argument's text, for
    ARBITRARY argument texts (two or more placeholders: one simultaneous `NewReplacer`; one: a single `Replace`) -/
theorem path_eq_spec (m : MethodSpec) (c : Cooked) (d : PathDir) (subs : List PathSub) (args : Args)
    (ok : MethodOK m) (h : CookedFor m c d subs) :
    substPath args m.path subs = specPath m args := by
  obtain ⟨_, hs, hcook⟩ := cookedFor_unpack m c d subs h
  obtain ⟨_, ha, _⟩ := cookParams_closed _ _ _ _ _ hcook
  have hse := subs_eq m c args ok.aliasKeys ok.aliasVals ok.phOk ha
  rw [← hs] at hse
  let f : List Char → List Char := fun n => argText args (resolve m (String.ofList n))
  have hpairs : subs.map (subPair args) = (placeholders m.path).map (fun n => ('{' :: (n ++ ['}']), f n)) := by
    have := congrArg (List.map (fun (kv : List Char × List Char) => ('{' :: (kv.1 ++ ['}']), kv.2))) hse
    simp only [List.map_map] at this
    exact this
  have hlen : subs.length = (placeholders m.path).length := by
    have := congrArg List.length hpairs; simpa using this
  have hspec : specPath m args = fill f (tokenize m.path) := rfl
  rw [hspec]
  unfold substPath
  by_cases hgt : subs.length > 1
  · simp only [hgt, ↓reduceIte, hpairs]
    unfold replaceAll
    have hP : PairsFor f ((placeholders m.path).map (fun n => ('{' :: (n ++ ['}']), f n))) := by
      intro kv hkv
      simp only [List.mem_map] at hkv
      obtain ⟨n, hn, rfl⟩ := hkv
      exact ⟨n, tokenize_wordy m.path n (by rw [← placeholders_eq]; exact hn), rfl⟩
    have := replaceAllAux_fill f _ hP (tokenize m.path) ok.clean
      (fun n hn => ⟨tokenize_wordy m.path n hn, List.mem_map.2 ⟨n, by rw [placeholders_eq]; exact hn, rfl⟩⟩)
      (m.path.length + 1) (by rw [renderToks_tokenize]; exact Nat.le_refl _)
    rw [renderToks_tokenize] at this
    exact this
  · simp only [hgt, ↓reduceIte]
    cases hsub : subs with
    | nil =>
      have hph : phNames (tokenize m.path) = [] := by
        rw [← placeholders_eq]
        have : (placeholders m.path).length = 0 := by rw [← hlen, hsub]; rfl
        exact List.length_eq_zero_iff.1 this
      simp only [List.foldl_nil]
      rw [fill_no_ph f _ hph, renderToks_tokenize]
    | cons s0 rest =>
      have hrest : rest = [] := by
        rw [hsub] at hgt
        simp only [List.length_cons, gt_iff_lt, Nat.lt_add_left_iff_pos, Nat.not_lt, Nat.le_zero_eq] at hgt
        exact List.length_eq_zero_iff.1 hgt
      subst hrest
      rw [hsub] at hpairs
      cases hpl : placeholders m.path with
      | nil => rw [hpl] at hpairs; simp at hpairs
      | cons n ns =>
        rw [hpl] at hpairs
        simp only [List.map_cons, List.map_nil, List.cons.injEq] at hpairs
        obtain ⟨h1, h2⟩ := hpairs
        have hns : ns = [] := by
          cases ns with
          | nil => rfl
          | cons x xs => simp at h2
        subst hns
        simp only [List.foldl_cons, List.foldl_nil, h1]
        have := replaceFirst_single f n (tokenize m.path) [] (by intro c hc; cases hc) ok.clean
          (by rw [← placeholders_eq]; exact hpl)
        simp only [List.nil_append, renderToks_tokenize] at this
        exact this

/-- the query of a GET/DELETE call -/
theorem query_eq_spec (m : MethodSpec) (c : Cooked) (d : PathDir) (subs : List PathSub) (args : Args)
    (ok : MethodOK m) (aok : ArgsOK m args) (h : CookedFor m c d subs) (hv : m.verb.hasBody = false) :
    runQueryOps args (queryOpsOf c) = some (plainBindings m args m.params) ∧
    dictSets args c.dict = dictBindings args m.params := by
  obtain ⟨_, _, hcook⟩ := cookedFor_unpack m c d subs h
  constructor
  · rw [queryOps_eq m c ok.names ok.fields ok.fieldKeys ok.aliasKeys ok.aliasVals hcook, plainBindings_eq]
    apply runQueryOps_flatMap
    intro p hp
    exact run_paramOps m args p (aok.noNilStruct hv p hp)
  · obtain ⟨hd, _, _, _⟩ := cookParams_slots _ _ _ _ _ hcook
    have e : (fun p => isDictParam p && !m.verb.hasBody) = isDictParam := by
      funext p; simp [hv]
    rw [hd, dictBindings_eq, e]
    rfl

theorem find?_congr_mem {β : Type} (l : List β) (q q' : β → Bool) (h : ∀ a ∈ l, q a = q' a) :
    l.find? q = l.find? q' := by
  induction l with
  | nil => rfl
  | cons a as ih =>
    simp only [List.find?_cons, h a (by simp), ih (fun b hb => h b (by simp [hb]))]

/-- body and context slots of a cooked method -/
theorem slots_eq_spec (m : MethodSpec) (c : Cooked) (d : PathDir) (subs : List PathSub) (args : Args)
    (ok : MethodOK m) (h : CookedFor m c d subs) :
    (if m.verb.hasBody then c.body else none) = specBody m ∧
    ctxTag args (match c.ctx with
      | some p => CtxMode.param p
      | none => CtxMode.background) = specCtx m args := by
  obtain ⟨_, _, hcook⟩ := cookedFor_unpack m c d subs h
  obtain ⟨_, hc, hb, hone⟩ := cookParams_slots _ _ _ _ _ hcook
  constructor
  · unfold specBody
    cases hv : m.verb.hasBody with
    | false => rfl
    | true =>
      simp only [↓reduceIte]
      rw [hb, lastNamed_le_one structLike _ m.params (hone rfl)]
      have : m.params.find? structLike = m.params.find? isStructParam := rfl
      rw [this]
      cases m.params.find? isStructParam <;> rfl
  · rw [hc, lastNamed_le_one isCtxParam _ m.params ok.oneCtx]
    unfold specCtx
    cases m.params.find? isCtxParam with
    | none => rfl
    | some p =>
      have e : ((Option.map (fun x : Param => x.name) (some p)).or (none : Option String)) = some p.name := rfl
      rw [e]
      simp only [ctxTag]
      cases getKV args p.name with
      | none => rfl
      | some a => cases a <;> rfl

/-- the whole request of one call: what the emitted method hands to `c.client.Do` is the request the
    property describes -/
theorem send_eq_spec (hs : List (String × String)) (m : MethodSpec)
    (c : Cooked) (d : PathDir) (subs : List PathSub) (args : Args)
    (ok : MethodOK m) (aok : ArgsOK m args) (h : CookedFor m c d subs) :
    ∃ r, send (planOf hs m.name c d subs) args = .sent r ∧
      r.verb = m.verb.upper ∧ r.path = specPath m args ∧ r.query.getD [] = specQuery m args ∧
      r.body = specBody m ∧ r.headers = headersFor hs m.verb ∧ r.ctx = specCtx m args := by
  obtain ⟨hd, _, _⟩ := cookedFor_unpack m c d subs h
  have hpath := path_eq_spec m c d subs args ok h
  obtain ⟨hbody, hctx⟩ := slots_eq_spec m c d subs args ok h
  subst hd
  unfold send planOf
  simp only
  cases hv : m.verb.hasBody with
  | true =>
    simp only [Bool.true_or, ↓reduceIte]
    refine ⟨_, rfl, rfl, hpath, ?_, ?_, rfl, hctx⟩
    · simp [specQuery, hv]
    · rw [← hbody, hv]; rfl
  | false =>
    obtain ⟨hq, hdict⟩ := query_eq_spec m c _ subs args ok aok h hv
    simp only [Bool.false_or, Bool.false_eq_true, ↓reduceIte]
    have hb' : (none : Option String) = specBody m := by rw [← hbody, hv]; rfl
    by_cases he : ((queryOpsOf c).isEmpty && c.dict.isEmpty) = true
    · simp only [he, ↓reduceIte]
      refine ⟨_, rfl, rfl, hpath, ?_, hb', rfl, hctx⟩
      simp only [Bool.and_eq_true, List.isEmpty_iff] at he
      rw [he.1] at hq
      rw [he.2] at hdict
      simp only [runQueryOps, Option.some.injEq] at hq
      simp [specQuery, hv, ← hq, ← hdict, dictSets, setAll]
    · simp only [he, Bool.false_eq_true, ↓reduceIte, hq]
      refine ⟨_, rfl, rfl, hpath, ?_, hb', rfl, hctx⟩
      simp [specQuery, hv, hdict]

/-! ### the region predicate -/

theorem region_wf (i : IfaceSpec) (calls : List Call) (h : region i calls = "WF") :
    structOk i = true ∧ F_ptrDict i = false ∧ F_nilStructDeref i calls = false ∧ aliasInPath i = false := by
  unfold region at h
  cases h0 : shapeOk i <;> simp only [h0, Bool.not_false, Bool.not_true, Bool.false_eq_true, ↓reduceIte] at h
  · exact absurd h (by decide)
  cases h00 : i.methods.all aliasInjective <;> simp only [h00, Bool.not_false, Bool.not_true, Bool.false_eq_true, ↓reduceIte] at h
  · exact absurd h (by decide)
  have hso : structOk i = true := by simp [structOk, h0, h00]
  cases h3 : F_ptrDict i <;> simp only [h3, Bool.false_eq_true, ↓reduceIte] at h
  case true => exact absurd h (by decide)
  cases h6 : F_nilStructDeref i calls <;> simp only [h6, Bool.false_eq_true, ↓reduceIte] at h
  case true => exact absurd h (by decide)
  cases h7 : aliasInPath i <;> simp only [h7, Bool.false_eq_true, ↓reduceIte] at h
  case true =>
    cases h8 : F_aliasInPath i <;> simp only [h8, Bool.false_eq_true, ↓reduceIte] at h
    · exact absurd h (by decide)
    · exact absurd h (by decide)
  exact ⟨hso, rfl, rfl, rfl⟩

end ShootVerif.Rest
