import ShootVerif.Model.TypeMap
import ShootVerif.Proofs.CtorFresh
namespace ShootVerif.Ctor

/-- on a leaf: the entry the generator writes -/
def leafType (t : Tree) (l : Leaf) : Option (String × String) :=
  if l.info.skip then none
  else if genShadow t l.depth l.info.name then none
  else some (l.info.name, l.info.ptype)

theorem typeEntries_leaves (t : Tree) :
    typeEntries (flatten t) = (leavesTop t).filterMap (leafType t) := by
  unfold typeEntries
  conv => lhs; arg 2; rw [flatten_closed]
  rw [filterMap_filter_none _ (fun f => !f.isEmbeded)
    (by intro f hf; simp only [Bool.not_eq_eq_eq_not, Bool.not_false] at hf; simp [hf])]
  unfold walkTop
  rw [walk_fields _ t true [] false 0, List.filterMap_map, List.filterMap_filter]
  apply filterMap_congr_mem
  intro l _
  unfold leafType
  by_cases hs : l.info.skip
  · simp [hs]
  · simp only [hs, Bool.not_false, ↓reduceIte, Function.comp, mkField, Bool.false_or, Bool.false_eq_true]

theorem typeEntries_keys_nodup (t : Tree) (hnd : wfFieldNames t = true) :
    ((typeEntries (flatten t)).map Prod.fst).Nodup := by
  have hnd' : ((visibleLeaves t).map (fun l => l.info.name)).Nodup := by
    simpa [wfFieldNames] using hnd
  rw [typeEntries_leaves]
  -- the keys are the names of a sublist of the visible leaves
  have hsub : ((leavesTop t).filterMap (leafType t)).map Prod.fst =
      ((visibleLeaves t).filter (fun l => !l.info.skip)).map (fun l => l.info.name) := by
    unfold visibleLeaves
    rw [List.filter_filter, List.map_filterMap, ← List.filterMap_eq_map, List.filterMap_filter]
    apply filterMap_congr_mem
    intro l hl
    have hag := shadow_agrees t l hl
    unfold leafType
    by_cases hs : l.info.skip
    · simp [hs]
    · cases hsh : genShadow t l.depth l.info.name
      · have : goShadowed t l.depth l.info.name = false := by rw [← hag]; exact hsh
        simp [hs, this]
      · have : goShadowed t l.depth l.info.name = true := by rw [← hag]; exact hsh
        simp [hs, this]
  rw [hsub]
  exact (List.Sublist.map _ List.filter_sublist).nodup hnd'

/-- for a visible, non-skipped leaf the name-keyed TypeMap answers with the type of that very leaf, provided the field
    names of the visible leaves are pairwise distinct (Go guarantees it for the fields one selector can reach) -/
theorem typeMap_of_leaf (t : Tree) (hnd : wfFieldNames t = true)
    (l : Leaf) (hl : l ∈ leavesTop t) (hsk : l.info.skip = false)
    (hsh : genShadow t l.depth l.info.name = false) :
    typeMap (flatten t) l.info.name = some l.info.ptype := by
  unfold typeMap
  apply lookup_of_mem_nodup
  · rw [List.mem_reverse, typeEntries_leaves, List.mem_filterMap]
    exact ⟨l, hl, by simp [leafType, hsk, hsh]⟩
  · rw [List.map_reverse]
    exact nodup_reverse' _ (typeEntries_keys_nodup t hnd)

end ShootVerif.Ctor
