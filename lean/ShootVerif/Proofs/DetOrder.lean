import ShootVerif.Model.DetOrder
/-! per-site order-independence lemmas for Props/C07.lean -/
namespace ShootVerif.DetOrder

variable {κ ν : Type} [DecidableEq κ]

/-! ### reading a map given as an entry list -/

theorem get_eq_some_iff {m : Entries κ ν} (h : (keys m).Nodup) {k : κ} {v : ν} :
    get m k = some v ↔ (k, v) ∈ m := by
  induction m with
  | nil => simp [get]
  | cons e m ih =>
    simp only [keys, List.map_cons, List.nodup_cons] at h
    simp only [get, List.find?_cons]
    by_cases he : e.1 = k
    · simp only [he, decide_true, Option.map_some, Option.some.injEq, List.mem_cons]
      constructor
      · intro hv; left; rw [← hv, ← he]
      · rintro (hx | hx)
        · rw [← hx]
        · exfalso; apply h.1; rw [he]; exact List.mem_map_of_mem (f := (·.1)) hx
    · simp only [he, decide_false, List.mem_cons]
      have := ih h.2
      simp only [get] at this
      rw [this]
      constructor
      · intro hx; right; exact hx
      · rintro (hx | hx)
        · exfalso; apply he; rw [← hx]
        · exact hx

theorem get_eq_none_iff {m : Entries κ ν} {k : κ} : get m k = none ↔ k ∉ keys m := by
  induction m with
  | nil => simp [get, keys]
  | cons e m ih =>
    simp only [get, List.find?_cons, keys, List.map_cons, List.mem_cons, not_or] at *
    by_cases he : e.1 = k
    · simp [he]
    · simp only [he, decide_false]
      rw [ih]
      constructor
      · intro h; exact ⟨fun e' => he e'.symm, h⟩
      · intro h; exact h.2

omit [DecidableEq κ] in
theorem keys_nodup_perm {m₁ m₂ : Entries κ ν} (hp : m₁.Perm m₂) (h : (keys m₁).Nodup) : (keys m₂).Nodup := by
  unfold keys at *
  exact (List.Perm.nodup_iff (hp.map (fun x => x.1))).mp h

/-- reading does not depend on the order of the entries -/
theorem get_perm {m₁ m₂ : Entries κ ν} (hp : m₁.Perm m₂) (h : (keys m₁).Nodup) (k : κ) : get m₁ k = get m₂ k := by
  have h₂ : (keys m₂).Nodup := keys_nodup_perm hp h
  cases hg : get m₁ k with
  | none =>
    symm
    rw [get_eq_none_iff] at *
    intro hk
    exact hg ((hp.map (·.1)).mem_iff.mpr hk)
  | some v =>
    symm
    rw [get_eq_some_iff h] at hg
    rw [get_eq_some_iff h₂]
    exact hp.mem_iff.mp hg

theorem get_append (a b : Entries κ ν) (k : κ) : get (a ++ b) k = (get a k).orElse (fun _ => get b k) := by
  simp only [get, List.find?_append]
  cases List.find? (fun e => decide (e.1 = k)) a <;> simp

/-! ### putAll -/

theorem putAll_eq (ord dst : Entries κ ν) : putAll ord dst = ord.reverse ++ dst := by
  induction ord generalizing dst with
  | nil => simp [putAll]
  | cons e ord ih =>
    simp only [putAll, List.foldl_cons, put] at *
    rw [ih]
    simp

theorem putAll_perm {ord₁ ord₂ : Entries κ ν} (hp : ord₁.Perm ord₂) (h : (keys ord₁).Nodup)
    (dst : Entries κ ν) (k : κ) : get (putAll ord₁ dst) k = get (putAll ord₂ dst) k := by
  rw [putAll_eq, putAll_eq, get_append, get_append]
  have hr : ord₁.reverse.Perm ord₂.reverse := (List.reverse_perm ord₁).trans (hp.trans (List.reverse_perm ord₂).symm)
  have hn : (keys ord₁.reverse).Nodup := keys_nodup_perm (List.reverse_perm ord₁).symm h
  rw [get_perm hr hn]

/-- and the value read back is the one the source map holds for the key, else the old one -/
theorem get_putAll {ord : Entries κ ν} (h : (keys ord).Nodup) (dst : Entries κ ν) (k : κ) :
    get (putAll ord dst) k = (get ord k).orElse (fun _ => get dst k) := by
  rw [putAll_eq, get_append]
  have hn : (keys ord.reverse).Nodup := keys_nodup_perm (List.reverse_perm ord).symm h
  rw [get_perm (List.reverse_perm ord) hn]

/-! ### eachTable -/

theorem get_eachTable {τ : Type} [DecidableEq τ] (ord : Entries τ (Entries κ ν)) (k : κ) (v : ν) (t : τ) :
    get (eachTable ord k v) t = (get ord t).map (fun tab => put tab k v) := by
  induction ord with
  | nil => simp [eachTable, get]
  | cons e ord ih =>
    simp only [eachTable, get, List.map_cons, List.find?_cons] at *
    by_cases he : e.1 = t
    · simp [he]
    · simp only [he, decide_false]
      exact ih

theorem eachTable_perm {τ : Type} [DecidableEq τ] {ord₁ ord₂ : Entries τ (Entries κ ν)} (hp : ord₁.Perm ord₂)
    (h : (keys ord₁).Nodup) (k : κ) (v : ν) (t : τ) :
    get (eachTable ord₁ k v) t = get (eachTable ord₂ k v) t := by
  rw [get_eachTable, get_eachTable, get_perm hp h]

/-! ### reverseMap: last writer wins -/

theorem reverseMap_eq (ord : Entries String String) : reverseMap ord = putAll (ord.map (fun e => (e.2, e.1))) [] := by
  simp only [reverseMap, putAll, List.foldl_map]

/-- with an injective alias map the reversed map does not depend on the order -/
theorem reverseMap_perm {ord₁ ord₂ : Entries String String} (hp : ord₁.Perm ord₂)
    (hinj : (ord₁.map (·.2)).Nodup) (p : String) : get (reverseMap ord₁) p = get (reverseMap ord₂) p := by
  rw [reverseMap_eq, reverseMap_eq]
  apply putAll_perm (hp.map _)
  simpa [keys, List.map_map, Function.comp_def] using hinj

theorem realPathParams_perm {ord₁ ord₂ : Entries String String} (hp : ord₁.Perm ord₂)
    (hinj : (ord₁.map (·.2)).Nodup) (ps : List String) : realPathParams ord₁ ps = realPathParams ord₂ ps := by
  simp only [realPathParams]
  apply List.map_congr_left
  intro p _
  rw [reverseMap_perm hp hinj]

/-! ### getGoFile as it was before fix f3054bd: first match wins -/

theorem getGoFile_unique (ord : List Def) (n f : String)
    (h : ∀ d ∈ ord, (d.isTypeName && d.name = n) = true → d.file = f) :
    getGoFileBefore ord n = if ord.any (fun d => d.isTypeName && d.name = n) then f else "" := by
  simp only [getGoFileBefore]
  cases hf : ord.find? (fun d => d.isTypeName && d.name = n) with
  | none =>
    have : ord.any (fun d => d.isTypeName && d.name = n) = false := by
      rw [List.any_eq_false]
      intro d hd
      have := List.find?_eq_none.mp hf d hd
      simpa using this
    simp [this]
  | some d =>
    have hm := List.mem_of_find?_eq_some hf
    have hp := List.find?_some hf
    have : ord.any (fun d => d.isTypeName && d.name = n) = true := List.any_eq_true.mpr ⟨d, hm, hp⟩
    simp [this, h d hm hp]

theorem getGoFile_perm {ord₁ ord₂ : List Def} (hp : ord₁.Perm ord₂) (n f : String)
    (h : ∀ d ∈ ord₁, (d.isTypeName && d.name = n) = true → d.file = f) :
    getGoFileBefore ord₁ n = getGoFileBefore ord₂ n := by
  rw [getGoFile_unique ord₁ n f h, getGoFile_unique ord₂ n f (fun d hd => h d (hp.mem_iff.mpr hd)), hp.any_eq]

/-! ### gather -/

theorem gather_filter {α : Type} (ord : Entries κ (List α)) :
    gather ord = gather (ord.filter (fun e => !e.2.isEmpty)) := by
  induction ord with
  | nil => rfl
  | cons e ord ih =>
    simp only [gather, List.flatMap_cons, List.filter_cons] at *
    cases he : e.2 with
    | nil => simp [ih]
    | cons a as => simp [ih, he]

/-- at most one entry contributes anything: the result does not depend on the order -/
theorem gather_perm {α : Type} {ord₁ ord₂ : Entries κ (List α)} (hp : ord₁.Perm ord₂)
    (h : (ord₁.filter (fun e => !e.2.isEmpty)).length ≤ 1) : gather ord₁ = gather ord₂ := by
  rw [gather_filter ord₁, gather_filter ord₂]
  have hf := hp.filter (fun e => !e.2.isEmpty)
  cases h1 : ord₁.filter (fun e => !e.2.isEmpty) with
  | nil => rw [h1] at hf; rw [List.nil_perm.mp hf]
  | cons a as =>
    rw [h1] at h hf
    have : as = [] := by
      cases as with
      | nil => rfl
      | cons _ _ => simp at h
    subst this
    rw [List.singleton_perm.mp hf]

/-! ### covered -/

theorem covered_perm {ord₁ ord₂ : Entries κ ν} (hp : ord₁.Perm ord₂) (p : κ → Bool) :
    covered ord₁ p = covered ord₂ p := hp.any_eq

/-! ### collect then sort (nilCheckWrite) -/

omit [DecidableEq κ] in
theorem keys_put (m : Entries κ ν) (k : κ) (v : ν) : keys (put m k v) = k :: keys m := rfl

/-- closed form of one pass: the entries that are new and covered, in iteration order -/
def picked {ν : Type} (cov : String → Bool) (ord : Entries String ν) (c : Coll ν) : Entries String ν :=
  ord.filter (fun e => !(keys c.data).contains e.1 && cov e.1)

theorem collectStep_keep {ν : Type} (cov : String → Bool) (c : Coll ν) (e : String × ν)
    (h : (!(keys c.data).contains e.1 && cov e.1) = false) : collectStep cov c e = c := by
  unfold collectStep
  cases h1 : (keys c.data).contains e.1 with
  | true => rfl
  | false =>
    cases h2 : cov e.1 with
    | false => rfl
    | true => rw [h1, h2] at h; cases h

theorem collectStep_pick {ν : Type} (cov : String → Bool) (c : Coll ν) (e : String × ν)
    (h : (!(keys c.data).contains e.1 && cov e.1) = true) :
    collectStep cov c e = { list := c.list ++ [e.1], data := put c.data e.1 e.2 } := by
  unfold collectStep
  cases h1 : (keys c.data).contains e.1 with
  | true => rw [h1] at h; cases h
  | false =>
    cases h2 : cov e.1 with
    | false => rw [h1, h2] at h; cases h
    | true => rfl

theorem collect_eq {ν : Type} (cov : String → Bool) :
    ∀ (ord : Entries String ν) (c : Coll ν), (keys ord).Nodup →
      collect cov ord c = { list := c.list ++ keys (picked cov ord c), data := (picked cov ord c).reverse ++ c.data } := by
  intro ord
  induction ord with
  | nil => intro c _; simp [collect, picked, keys]
  | cons e ord ih =>
    intro c hn
    have hn' : e.1 ∉ keys ord ∧ (keys ord).Nodup := by
      simpa [keys, List.nodup_cons] using hn
    have hfold : collect cov (e :: ord) c = collect cov ord (collectStep cov c e) := by
      simp [collect]
    rw [hfold, ih _ hn'.2]
    cases hb : (!(keys c.data).contains e.1 && cov e.1) with
    | false =>
      rw [collectStep_keep cov c e hb]
      have : picked cov (e :: ord) c = picked cov ord c := by
        simp only [picked, List.filter_cons, hb, Bool.false_eq_true, ↓reduceIte]
      rw [this]
    | true =>
      rw [collectStep_pick cov c e hb]
      -- later entries have other keys, so their "already present" test is unchanged
      have hp : picked cov ord { list := c.list ++ [e.1], data := put c.data e.1 e.2 } = picked cov ord c := by
        simp only [picked]
        apply List.filter_congr
        intro x hx
        have hne : x.1 ≠ e.1 := fun h => hn'.1 (h ▸ (List.mem_map_of_mem (f := (·.1)) hx))
        simp [keys_put, List.contains_cons, hne]
      have hc : picked cov (e :: ord) c = e :: picked cov ord c := by
        simp only [picked, List.filter_cons, hb, ↓reduceIte]
      rw [hp, hc]
      simp [keys, put]

theorem insertSorted_perm (a : String) (l : List String) : (insertSorted a l).Perm (a :: l) := by
  induction l with
  | nil => exact List.Perm.refl _
  | cons b l ih =>
    simp only [insertSorted]
    split
    · exact List.Perm.refl _
    · exact (List.Perm.cons b ih).trans (List.Perm.swap a b l)

theorem insertSorted_sorted (a : String) (l : List String) (h : l.Pairwise (· ≤ ·)) :
    (insertSorted a l).Pairwise (· ≤ ·) := by
  induction l with
  | nil => simp [insertSorted]
  | cons b l ih =>
    simp only [insertSorted]
    rw [List.pairwise_cons] at h
    split
    · rename_i hab
      rw [List.pairwise_cons]
      refine ⟨?_, List.pairwise_cons.mpr h⟩
      intro x hx
      rcases List.mem_cons.mp hx with rfl | hx
      · exact hab
      · exact String.le_trans hab (h.1 x hx)
    · rename_i hab
      have hba : b ≤ a := by
        rcases String.le_total a b with h' | h'
        · exact absurd h' hab
        · exact h'
      rw [List.pairwise_cons]
      refine ⟨?_, ih h.2⟩
      intro x hx
      rcases List.mem_cons.mp ((insertSorted_perm a l).mem_iff.mp hx) with rfl | hx
      · exact hba
      · exact h.1 x hx

theorem sortStrings_perm' (l : List String) : (sortStrings l).Perm l := by
  induction l with
  | nil => exact List.Perm.refl _
  | cons a l ih =>
    simp only [sortStrings, List.foldr_cons] at *
    exact (insertSorted_perm a _).trans (List.Perm.cons a ih)

theorem sortStrings_sorted (l : List String) : (sortStrings l).Pairwise (· ≤ ·) := by
  induction l with
  | nil => simp [sortStrings]
  | cons a l ih =>
    simp only [sortStrings, List.foldr_cons] at *
    exact insertSorted_sorted a _ ih

theorem sortStrings_perm {l₁ l₂ : List String} (hp : l₁.Perm l₂) : sortStrings l₁ = sortStrings l₂ := by
  apply List.Perm.eq_of_pairwise (le := (· ≤ ·))
  · intro a b _ _ h1 h2
    exact String.le_antisymm h1 h2
  · exact sortStrings_sorted l₁
  · exact sortStrings_sorted l₂
  · exact (sortStrings_perm' l₁).trans (hp.trans (sortStrings_perm' l₂).symm)

/-- two executions of nilCheckWrite are *equivalent* when they hold the same paths up to order and the same
    path ↦ type binding -/
structure CollEquiv {ν : Type} (c d : Coll ν) : Prop where
  list : c.list.Perm d.list
  keysP : (keys c.data).Perm (keys d.data)
  nodup : (keys c.data).Nodup
  get : ∀ k, get c.data k = get d.data k

theorem collect_equiv {ν : Type} (cov : String → Bool) {ord₁ ord₂ : Entries String ν} (hp : ord₁.Perm ord₂)
    (hn : (keys ord₁).Nodup) {c d : Coll ν} (h : CollEquiv c d) :
    CollEquiv (collect cov ord₁ c) (collect cov ord₂ d) := by
  have hn₂ := keys_nodup_perm hp hn
  rw [collect_eq cov ord₁ c hn, collect_eq cov ord₂ d hn₂]
  -- the same entries are picked, up to order
  have hpick : (picked cov ord₁ c).Perm (picked cov ord₂ d) := by
    have : picked cov ord₂ d = ord₂.filter (fun e => !(keys c.data).contains e.1 && cov e.1) := by
      simp only [picked]
      apply List.filter_congr
      intro x _
      have : (keys d.data).contains x.1 = (keys c.data).contains x.1 := by
        rw [Bool.eq_iff_iff, List.contains_iff_mem, List.contains_iff_mem]
        exact (h.keysP.mem_iff).symm
      rw [this]
    rw [this]
    exact hp.filter _
  have hsub : (picked cov ord₁ c).Sublist ord₁ := List.filter_sublist
  have hpn : (keys (picked cov ord₁ c)).Nodup := by
    unfold keys at *; exact (hsub.map (fun x => x.1)).nodup hn
  have hdisj : ∀ k, k ∈ keys (picked cov ord₁ c) → k ∉ keys c.data := by
    intro k hk
    change k ∈ List.map (fun x => x.1) (picked cov ord₁ c) at hk
    rw [List.mem_map] at hk
    obtain ⟨x, hx, rfl⟩ := hk
    have hx2 := (List.mem_filter.mp hx).2
    intro hmem
    have : (keys c.data).contains x.1 = true := List.contains_iff_mem.mpr hmem
    rw [this] at hx2
    cases hx2
  refine ⟨?_, ?_, ?_, ?_⟩
  · exact h.list.append (by unfold keys; exact hpick.map _)
  · simp only [keys, List.map_append, List.map_reverse]
    refine List.Perm.append ?_ h.keysP
    exact (List.reverse_perm _).trans ((hpick.map _).trans (List.reverse_perm _).symm)
  · simp only [keys, List.map_append, List.map_reverse]
    rw [List.nodup_append]
    refine ⟨?_, h.nodup, ?_⟩
    · exact (List.Perm.nodup_iff (List.reverse_perm _)).mpr hpn
    · intro a ha b hb hab
      subst hab
      exact hdisj a (by simpa [keys] using ha) hb
  · intro k
    rw [get_append, get_append, h.get k]
    have hrp : (picked cov ord₁ c).reverse.Perm (picked cov ord₂ d).reverse :=
      (List.reverse_perm _).trans (hpick.trans (List.reverse_perm _).symm)
    have hrn : (keys (picked cov ord₁ c).reverse).Nodup := keys_nodup_perm (List.reverse_perm _).symm hpn
    rw [get_perm hrp hrn]

/-- several passes; `ps` lists, per pass, the cover test and the two iteration orders of the two executions -/
theorem passes_equiv {ν π : Type} (cov : π → String → Bool) (o₁ o₂ : π → Entries String ν) :
    ∀ (ps : List π), (∀ p ∈ ps, (o₁ p).Perm (o₂ p) ∧ (keys (o₁ p)).Nodup) →
      ∀ (c d : Coll ν), CollEquiv c d →
        CollEquiv ((ps.map (fun p => (cov p, o₁ p))).foldl (fun c p => collect p.1 p.2 c) c)
                  ((ps.map (fun p => (cov p, o₂ p))).foldl (fun c p => collect p.1 p.2 c) d) := by
  intro ps
  induction ps with
  | nil => intro _ c d hcd; exact hcd
  | cons p ps ih =>
    intro h c d hcd
    simp only [List.map_cons, List.foldl_cons]
    apply ih (fun q hq => h q (List.mem_cons_of_mem _ hq))
    have hp := h p (List.mem_cons_self ..)
    exact collect_equiv _ hp.1 hp.2 hcd

/-! ### headers × DefaultHeaders -/

theorem foldl_eachTable {τ : Type} (hs : Entries κ ν) :
    ∀ (T : Entries τ (Entries κ ν)), hs.foldl (fun tabs e => eachTable tabs e.1 e.2) T = T.map (fun t => (t.1, putAll hs t.2)) := by
  induction hs with
  | nil => intro T; simp [putAll]
  | cons e hs ih =>
    intro T
    rw [List.foldl_cons, ih]
    simp only [eachTable, List.map_map, putAll, Function.comp_def, List.foldl_cons]

theorem get_map_putAll {τ : Type} [DecidableEq τ] (hs : Entries κ ν) (T : Entries τ (Entries κ ν)) (verb : τ) :
    get (T.map (fun t => (t.1, putAll hs t.2))) verb = (get T verb).map (putAll hs) := by
  induction T with
  | nil => simp [get]
  | cons t T ih =>
    simp only [get, List.map_cons, List.find?_cons] at *
    by_cases ht : t.1 = verb
    · simp [ht]
    · simp only [ht, decide_false]; exact ih

/-! ### reverseMapChecked: duplicate ⇒ Fatal in every order, otherwise the injective case -/

theorem revFold_none (l : Entries String String) : l.foldl revStep none = none := by
  induction l with
  | nil => rfl
  | cons e l ih => simpa [List.foldl_cons, revStep] using ih

/-- closed form: the checked fold succeeds iff the values seen so far and the remaining ones are all distinct -/
theorem revFold_eq (l : Entries String String) :
    ∀ (m : Entries String String), ((keys m) ++ l.map (·.2)).Nodup →
      l.foldl revStep (some m) = some (putAll (l.map (fun e => (e.2, e.1))) m) := by
  induction l with
  | nil => intro m _; simp [putAll]
  | cons e l ih =>
    intro m h
    have hne : (keys m).contains e.2 = false := by
      rw [Bool.eq_false_iff]
      intro hc
      have hm : e.2 ∈ keys m := List.contains_iff_mem.mp hc
      have := (List.nodup_append.mp h).2.2 e.2 hm e.2 (by simp)
      exact this rfl
    simp only [List.foldl_cons, revStep, hne, Bool.false_eq_true, ↓reduceIte]
    have h' : (keys (put m e.2 e.1) ++ l.map (·.2)).Nodup := by
      simp only [keys_put, List.cons_append, List.nodup_cons]
      have h1 := List.nodup_append.mp h
      simp only [List.map_cons, List.nodup_cons] at h1
      refine ⟨?_, ?_⟩
      · intro hmem
        rcases List.mem_append.mp hmem with hm | hm
        · exact (h1.2.2 e.2 hm e.2 (by simp)) rfl
        · exact h1.2.1.1 hm
      · rw [List.nodup_append]
        exact ⟨h1.1, h1.2.1.2, fun a ha b hb => h1.2.2 a ha b (List.mem_cons_of_mem _ hb)⟩
    rw [ih _ h']
    simp [putAll, put]

theorem revFold_dup (l : Entries String String) :
    ∀ (m : Entries String String), ¬ ((keys m) ++ l.map (·.2)).Nodup → (keys m).Nodup →
      l.foldl revStep (some m) = none := by
  induction l with
  | nil => intro m h hm; simp at h; exact absurd hm h
  | cons e l ih =>
    intro m h hm
    simp only [List.foldl_cons, revStep]
    by_cases hc : (keys m).contains e.2 = true
    · rw [if_pos hc]; exact revFold_none l
    · rw [if_neg hc]
      have hnm : e.2 ∉ keys m := fun hmem => hc (List.contains_iff_mem.mpr hmem)
      apply ih
      · intro hn
        apply h
        simp only [keys_put, List.cons_append, List.nodup_cons] at hn
        rw [List.nodup_append] at hn ⊢
        simp only [List.map_cons, List.nodup_cons]
        refine ⟨hm, ⟨?_, hn.2.2.1⟩, ?_⟩
        · intro hmem; exact hn.1 (List.mem_append.mpr (Or.inr hmem))
        · intro a ha b hb
          rcases List.mem_cons.mp hb with rfl | hb
          · intro hab; exact hnm (hab ▸ ha)
          · exact hn.2.2.2 a ha b hb
      · simp only [keys_put, List.nodup_cons]; exact ⟨hnm, hm⟩

/-- for ALL alias maps: the outcome (Fatal, or the reversed map as a function) does not depend on the order -/
theorem reverseMapChecked_perm {ord₁ ord₂ : Entries String String} (hp : ord₁.Perm ord₂) :
    ((reverseMapChecked ord₁).isNone = (reverseMapChecked ord₂).isNone) ∧
    ∀ r₁ r₂, reverseMapChecked ord₁ = some r₁ → reverseMapChecked ord₂ = some r₂ → ∀ p, get r₁ p = get r₂ p := by
  by_cases hn : (ord₁.map (·.2)).Nodup
  · have hn₂ : (ord₂.map (·.2)).Nodup := (List.Perm.nodup_iff (hp.map (fun x => x.2))).mp hn
    have e1 := revFold_eq ord₁ [] (by simpa [keys] using hn)
    have e2 := revFold_eq ord₂ [] (by simpa [keys] using hn₂)
    simp only [reverseMapChecked, e1, e2]
    refine ⟨rfl, ?_⟩
    intro r₁ r₂ h1 h2 p
    cases h1; cases h2
    apply putAll_perm (hp.map _)
    simpa [keys, List.map_map, Function.comp_def] using hn
  · have hn₂ : ¬ (ord₂.map (·.2)).Nodup := fun h => hn ((List.Perm.nodup_iff (hp.map (fun x => x.2))).mpr h)
    have e1 := revFold_dup ord₁ [] (by simpa [keys] using hn) (by simp [keys])
    have e2 := revFold_dup ord₂ [] (by simpa [keys] using hn₂) (by simp [keys])
    simp only [reverseMapChecked, e1, e2]
    exact ⟨trivial, fun _ _ h => by cases h⟩

theorem realPathParamsChecked_perm {ord₁ ord₂ : Entries String String} (hp : ord₁.Perm ord₂) (ps : List String) :
    realPathParamsChecked ord₁ ps = realPathParamsChecked ord₂ ps := by
  have h := reverseMapChecked_perm hp
  simp only [realPathParamsChecked]
  cases h1 : reverseMapChecked ord₁ with
  | none =>
    have : (reverseMapChecked ord₂).isNone = true := by rw [← h.1, h1]; rfl
    rw [Option.isNone_iff_eq_none.mp this]
  | some r₁ =>
    cases h2 : reverseMapChecked ord₂ with
    | none => rw [h1, h2] at h; simp at h
    | some r₂ =>
      simp only [Option.map_some, Option.some.injEq]
      apply List.map_congr_left
      intro p _
      rw [h.2 r₁ r₂ h1 h2 p]

theorem successMessage_perm {ν : Type} {ord₁ ord₂ : Entries String ν} (hp : ord₁.Perm ord₂) :
    successMessage ord₁ = successMessage ord₂ := by
  unfold successMessage keys
  exact sortStrings_perm (hp.map _)

end ShootVerif.DetOrder
