import ShootVerif.Model.DetOrder
/-! per-site order-independence lemmas for Props/C07.lean -/
namespace ShootVerif.DetOrder

variable {κ ν : Type} [DecidableEq κ]

/-! ### reading a map given as an entry list -/

theorem get_eq_some_iff {m : Entries κ ν} (h : (keys m).Nodup) {k : κ} {v : ν} :
    get m k = some v ↔ (k, v) ∈ m := by
  induction m with
  | nil => simp [get]
  | cons e m ih =>
    simp only [keys, List.map_cons, List.nodup_cons] at h
    simp only [get, List.find?_cons]
    by_cases he : e.1 = k
    · simp only [he, decide_true, Option.map_some, Option.some.injEq, List.mem_cons]
      constructor
      · intro hv; left; rw [← hv, ← he]
      · rintro (hx | hx)
        · rw [← hx]
        · exfalso; apply h.1; rw [he]; exact List.mem_map_of_mem (f := (·.1)) hx
    · simp only [he, decide_false, List.mem_cons]
      have := ih h.2
      simp only [get] at this
      rw [this]
      constructor
      · intro hx; right; exact hx
      · rintro (hx | hx)
        · exfalso; apply he; rw [← hx]
        · exact hx

theorem get_eq_none_iff {m : Entries κ ν} {k : κ} : get m k = none ↔ k ∉ keys m := by
  induction m with
  | nil => simp [get, keys]
  | cons e m ih =>
    simp only [get, List.find?_cons, keys, List.map_cons, List.mem_cons, not_or] at *
    by_cases he : e.1 = k
    · simp [he]
    · simp only [he, decide_false]
      rw [ih]
      constructor
      · intro h; exact ⟨fun e' => he e'.symm, h⟩
      · intro h; exact h.2

omit [DecidableEq κ] in
theorem keys_nodup_perm {m₁ m₂ : Entries κ ν} (hp : m₁.Perm m₂) (h : (keys m₁).Nodup) : (keys m₂).Nodup := by
  unfold keys at *
  exact (List.Perm.nodup_iff (hp.map (fun x => x.1))).mp h

/-- reading does not depend on the order of the entries -/
theorem get_perm {m₁ m₂ : Entries κ ν} (hp : m₁.Perm m₂) (h : (keys m₁).Nodup) (k : κ) : get m₁ k = get m₂ k := by
  have h₂ : (keys m₂).Nodup := keys_nodup_perm hp h
  cases hg : get m₁ k with
  | none =>
    symm
    rw [get_eq_none_iff] at *
    intro hk
    exact hg ((hp.map (·.1)).mem_iff.mpr hk)
  | some v =>
    symm
    rw [get_eq_some_iff h] at hg
    rw [get_eq_some_iff h₂]
    exact hp.mem_iff.mp hg

theorem get_append (a b : Entries κ ν) (k : κ) : get (a ++ b) k = (get a k).orElse (fun _ => get b k) := by
  simp only [get, List.find?_append]
  cases List.find? (fun e => decide (e.1 = k)) a <;> simp

/-! ### putAll -/

theorem putAll_eq (ord dst : Entries κ ν) : putAll ord dst = ord.reverse ++ dst := by
  induction ord generalizing dst with
  | nil => simp [putAll]
  | cons e ord ih =>
    simp only [putAll, List.foldl_cons, put] at *
    rw [ih]
    simp

theorem putAll_perm {ord₁ ord₂ : Entries κ ν} (hp : ord₁.Perm ord₂) (h : (keys ord₁).Nodup)
    (dst : Entries κ ν) (k : κ) : get (putAll ord₁ dst) k = get (putAll ord₂ dst) k := by
  rw [putAll_eq, putAll_eq, get_append, get_append]
  have hr : ord₁.reverse.Perm ord₂.reverse := (List.reverse_perm ord₁).trans (hp.trans (List.reverse_perm ord₂).symm)
  have hn : (keys ord₁.reverse).Nodup := keys_nodup_perm (List.reverse_perm ord₁).symm h
  rw [get_perm hr hn]

/-- and the value read back is the one the source map holds for the key, else the old one -/
theorem get_putAll {ord : Entries κ ν} (h : (keys ord).Nodup) (dst : Entries κ ν) (k : κ) :
    get (putAll ord dst) k = (get ord k).orElse (fun _ => get dst k) := by
  rw [putAll_eq, get_append]
  have hn : (keys ord.reverse).Nodup := keys_nodup_perm (List.reverse_perm ord).symm h
  rw [get_perm (List.reverse_perm ord) hn]

/-! ### eachTable -/

theorem get_eachTable {τ : Type} [DecidableEq τ] (ord : Entries τ (Entries κ ν)) (k : κ) (v : ν) (t : τ) :
    get (eachTable ord k v) t = (get ord t).map (fun tab => put tab k v) := by
  induction ord with
  | nil => simp [eachTable, get]
  | cons e ord ih =>
    simp only [eachTable, get, List.map_cons, List.find?_cons] at *
    by_cases he : e.1 = t
    · simp [he]
    · simp only [he, decide_false]
      exact ih

theorem eachTable_perm {τ : Type} [DecidableEq τ] {ord₁ ord₂ : Entries τ (Entries κ ν)} (hp : ord₁.Perm ord₂)
    (h : (keys ord₁).Nodup) (k : κ) (v : ν) (t : τ) :
    get (eachTable ord₁ k v) t = get (eachTable ord₂ k v) t := by
  rw [get_eachTable, get_eachTable, get_perm hp h]

/-! ### reverseMap: last writer wins -/

theorem reverseMap_eq (ord : Entries String String) : reverseMap ord = putAll (ord.map (fun e => (e.2, e.1))) [] := by
  simp only [reverseMap, putAll, List.foldl_map]

/-- with an injective alias map the reversed map does not depend on the order -/
theorem reverseMap_perm {ord₁ ord₂ : Entries String String} (hp : ord₁.Perm ord₂)
    (hinj : (ord₁.map (·.2)).Nodup) (p : String) : get (reverseMap ord₁) p = get (reverseMap ord₂) p := by
  rw [reverseMap_eq, reverseMap_eq]
  apply putAll_perm (hp.map _)
  simpa [keys, List.map_map, Function.comp_def] using hinj

theorem realPathParams_perm {ord₁ ord₂ : Entries String String} (hp : ord₁.Perm ord₂)
    (hinj : (ord₁.map (·.2)).Nodup) (ps : List String) : realPathParams ord₁ ps = realPathParams ord₂ ps := by
  simp only [realPathParams]
  apply List.map_congr_left
  intro p _
  rw [reverseMap_perm hp hinj]

/-! ### getGoFile: first match wins -/

theorem getGoFile_unique (ord : List Def) (n f : String)
    (h : ∀ d ∈ ord, (d.isTypeName && d.name = n) = true → d.file = f) :
    getGoFile ord n = if ord.any (fun d => d.isTypeName && d.name = n) then f else "" := by
  simp only [getGoFile]
  cases hf : ord.find? (fun d => d.isTypeName && d.name = n) with
  | none =>
    have : ord.any (fun d => d.isTypeName && d.name = n) = false := by
      rw [List.any_eq_false]
      intro d hd
      have := List.find?_eq_none.mp hf d hd
      simpa using this
    simp [this]
  | some d =>
    have hm := List.mem_of_find?_eq_some hf
    have hp := List.find?_some hf
    have : ord.any (fun d => d.isTypeName && d.name = n) = true := List.any_eq_true.mpr ⟨d, hm, hp⟩
    simp [this, h d hm hp]

theorem getGoFile_perm {ord₁ ord₂ : List Def} (hp : ord₁.Perm ord₂) (n f : String)
    (h : ∀ d ∈ ord₁, (d.isTypeName && d.name = n) = true → d.file = f) :
    getGoFile ord₁ n = getGoFile ord₂ n := by
  rw [getGoFile_unique ord₁ n f h, getGoFile_unique ord₂ n f (fun d hd => h d (hp.mem_iff.mpr hd)), hp.any_eq]

/-! ### gather -/

theorem gather_filter {α : Type} (ord : Entries κ (List α)) :
    gather ord = gather (ord.filter (fun e => !e.2.isEmpty)) := by
  induction ord with
  | nil => rfl
  | cons e ord ih =>
    simp only [gather, List.flatMap_cons, List.filter_cons] at *
    cases he : e.2 with
    | nil => simp [ih]
    | cons a as => simp [ih, he]

/-- at most one entry contributes anything: the result does not depend on the order -/
theorem gather_perm {α : Type} {ord₁ ord₂ : Entries κ (List α)} (hp : ord₁.Perm ord₂)
    (h : (ord₁.filter (fun e => !e.2.isEmpty)).length ≤ 1) : gather ord₁ = gather ord₂ := by
  rw [gather_filter ord₁, gather_filter ord₂]
  have hf := hp.filter (fun e => !e.2.isEmpty)
  cases h1 : ord₁.filter (fun e => !e.2.isEmpty) with
  | nil => rw [h1] at hf; rw [List.nil_perm.mp hf]
  | cons a as =>
    rw [h1] at h hf
    have : as = [] := by
      cases as with
      | nil => rfl
      | cons _ _ => simp at h
    subst this
    rw [List.singleton_perm.mp hf]

/-! ### covered -/

theorem covered_perm {ord₁ ord₂ : Entries κ ν} (hp : ord₁.Perm ord₂) (p : κ → Bool) :
    covered ord₁ p = covered ord₂ p := hp.any_eq

end ShootVerif.DetOrder
