import ShootVerif.Proofs.MapperExec
import ShootVerif.Proofs.MapperTables
import ShootVerif.Proofs.MapperNames
import ShootVerif.Proofs.MapperFlatten
/-
The bodies of the two headline theorems C05_pairs and C09_no_panic (the Props files keep the statements), so that the
leaf-level theorems (Proofs/MapperLeaves.lean) can build on them.
-/
namespace ShootVerif.Mapper
open ShootVerif.Transfer

theorem plan_plain_ctors (inp : Input) (hs : inp.srcNew = false) (hd : inp.destNew = false) :
    (plan inp).destCtor = none ∧ (plan inp).srcCtor = none := by
  simp [plan, hs, hd, sideParams, ctorMatch]

theorem fnOk (mp : Option Bool) (b : Bool) (cs : List Claim) (h : (mp != some true || !hasFunc cs) = true)
    (hb : b = true → mp = some true) : ∀ c ∈ cs, fnCallOk b c.strat = true := by
  intro c hc
  cases b with
  | false => cases c.strat <;> rfl
  | true =>
    have hm := hb rfl
    subst hm
    simp only [bne_self_eq_false, Bool.false_or, Bool.not_eq_true', hasFunc, List.any_eq_false] at h
    have := h c hc
    cases hs : c.strat <;> simp_all [fnCallOk]

theorem no_panic (inp : Input) (h : WF09 inp = true) (N : List String) :
    execTo inp N = .value (idealTo inp (plan inp) (tables inp (plan inp)) N) ∧
    ∀ recv, execFrom inp N recv = .value (idealFrom inp (plan inp) (tables inp (plan inp)) N) := by
  have ht := tablesOk_of_WF09 inp h
  simp only [TablesOk, Bool.and_eq_true, List.all_eq_true] at ht
  obtain ⟨⟨⟨hcD, hcS⟩, htTo⟩, htFrom⟩ := ht
  simp only [WF09, Bool.and_eq_true, Bool.not_eq_true', List.all_eq_true] at h
  obtain ⟨⟨⟨⟨hs, hd⟩, hm⟩, _⟩, _⟩ := h
  have hctor := plan_plain_ctors inp hs hd
  have hm' : (inp.mapperPtr != some true || !hasFunc (plan inp).toStmts) = true ∧
      (inp.mapperPtr != some true || !hasFunc (plan inp).fromStmts) = true := by
    cases hmp : (inp.mapperPtr != some true)
    · simp only [hmp, Bool.false_or, Bool.and_eq_true] at hm ⊢; exact hm
    · simp
  constructor
  · unfold execTo execToP
    simp only [Bool.false_eq_true, ↓reduceIte, hctor.1]
    have ha := execAlloc_ok inp.destSem.ptrs (tables inp (plan inp)).destAlloc {} hcD
    rw [ha]
    have := execStmts_ideal inp.srcSem inp.destSem (tables inp (plan inp)).destAlloc N
      (inp.mapperPtr == some true && N.contains "Mapper") (plan inp).toStmts
      { alloc := [] ++ (tables inp (plan inp)).destAlloc } htTo (by simp)
      (fnOk inp.mapperPtr _ _ hm'.1 (by
        intro hb
        simp only [Bool.and_eq_true, beq_iff_eq] at hb
        exact hb.1))
    simp only [List.nil_append] at this
    simp only [bind, Except.bind, this, ofExcept, idealTo, idealStart, hctor.1, List.nil_append]
  · intro recv
    unfold execFrom execFromP
    simp only [Bool.false_eq_true, ↓reduceIte, hctor.2]
    have ha := execAlloc_ok inp.srcSem.ptrs (tables inp (plan inp)).srcAlloc {} hcS
    rw [ha]
    have := execStmts_ideal inp.destSem inp.srcSem (tables inp (plan inp)).srcAlloc N
      (inp.mapperPtr == some true) (plan inp).fromStmts
      { alloc := [] ++ (tables inp (plan inp)).srcAlloc } htFrom (by simp)
      (fnOk inp.mapperPtr _ _ hm'.2 (by
        intro hb
        simpa using hb))
    simp only [List.nil_append] at this
    simp only [bind, Except.bind, this, ofExcept, idealFrom, idealStart, hctor.2, List.nil_append]


theorem plan_pairs (inp : Input) (hs : inp.srcNew = false) (hd : inp.destNew = false)
    (hu : uniquePairs inp = true) (c : Claim) :
    (c ∈ (plan inp).toStmts ↔
      c.rd ∈ (plan inp).srcFields ∧ c.wr ∈ (plan inp).destFields ∧ inp.nm c.rd c.wr = true ∧ c.wr.isGet = false ∧
      c.wr.name ∉ inp.manualW ∧
      pairStrat inp.conv (indexed inp.fns) .src .dest c.rd.ty c.wr.ty = some c.strat) ∧
    (c ∈ (plan inp).fromStmts ↔
      c.wr ∈ (plan inp).srcFields ∧ c.rd ∈ (plan inp).destFields ∧ inp.nm c.wr c.rd = true ∧ c.wr.isGet = false ∧
      c.wr.name ∉ inp.manualR ∧
      pairStrat inp.conv (indexed inp.fns) .dest .src c.rd.ty c.wr.ty = some c.strat) := by
  have hU : Unique (pairs inp.nm (plan inp).srcFields (plan inp).destFields) := by
    simpa [uniquePairs, Unique] using hu
  have hst := plan_plain_st inp hs hd
  have hto := toC_char inp.conv inp.fns _ hU inp.manualW inp.manualR
  have hfrom := fromC_char inp.conv inp.fns _ hU inp.manualW inp.manualR
  -- plain sides have no setter pseudo-fields: the reading-side guard of the claim sites is vacuous
  have hsrc : ∀ f ∈ (plan inp).srcFields, f.isSet = false := by
    intro f hf
    have : (plan inp).srcFields = sideFields inp.src false := by simp [plan, hs]
    exact (sideFields_plain_flags inp.src f (this ▸ hf)).2
  have hdst : ∀ f ∈ (plan inp).destFields, f.isSet = false := by
    intro f hf
    have : (plan inp).destFields = sideFields inp.dest false := by simp [plan, hd]
    exact (sideFields_plain_flags inp.dest f (this ▸ hf)).2
  constructor
  · have key : c ∈ (plan inp).toStmts ↔ c ∈ (plan inp).st.toC := by
      apply stmts_eq_claims
      · intro c1 h1 c2 h2 e
        rw [hst] at h1 h2
        obtain ⟨p1, hp1, _, _, s1, hs1, rfl⟩ := (hto c1).mp h1
        obtain ⟨p2, hp2, _, _, s2, hs2, rfl⟩ := (hto c2).mp h2
        have : p1 = p2 := inj_of_map_nodup (fun x : Field × Field => x.1.name) _ hU.1 hp1 hp2 (by simpa using congrArg Field.name e)
        subst this
        rw [hs1] at hs2
        cases hs2
        rfl
      · intro c1 h1
        rw [hst] at h1
        obtain ⟨p1, hp1, _, _, s1, _, rfl⟩ := (hto c1).mp h1
        exact ((mem_pairs _ _ _ _ _).mp hp1).1
    rw [key, hst, hto]
    constructor
    · rintro ⟨p, hp, hw, hg, s, hs', rfl⟩
      have := (mem_pairs _ _ _ _ _).mp hp
      rw [gd_plain (hsrc _ this.1)] at hs'
      exact ⟨this.1, this.2.1, this.2.2, hg, hw, hs'⟩
    · rintro ⟨h1, h2, h3, h4, hw, h5⟩
      exact ⟨(c.rd, c.wr), (mem_pairs _ _ _ _ _).mpr ⟨h1, h2, h3⟩, hw, h4, c.strat, by rw [gd_plain (hsrc _ h1)]; exact h5, rfl⟩
  · have key : c ∈ (plan inp).fromStmts ↔ c ∈ (plan inp).st.fromC := by
      apply stmts_eq_claims
      · intro c1 h1 c2 h2 e
        rw [hst] at h1 h2
        obtain ⟨p1, hp1, _, _, s1, hs1, rfl⟩ := (hfrom c1).mp h1
        obtain ⟨p2, hp2, _, _, s2, hs2, rfl⟩ := (hfrom c2).mp h2
        have : p1 = p2 := inj_of_map_nodup (fun x : Field × Field => x.2.name) _ hU.2 hp1 hp2 (by simpa using congrArg Field.name e)
        subst this
        rw [hs1] at hs2
        cases hs2
        rfl
      · intro c1 h1
        rw [hst] at h1
        obtain ⟨p1, hp1, _, _, s1, _, rfl⟩ := (hfrom c1).mp h1
        exact ((mem_pairs _ _ _ _ _).mp hp1).2.1
    rw [key, hst, hfrom]
    constructor
    · rintro ⟨p, hp, hw, hg, s, hs', rfl⟩
      have := (mem_pairs _ _ _ _ _).mp hp
      rw [gd_plain (hdst _ this.2.1)] at hs'
      exact ⟨this.1, this.2.1, this.2.2, hg, hw, hs'⟩
    · rintro ⟨h1, h2, h3, h4, hw, h5⟩
      exact ⟨(c.wr, c.rd), (mem_pairs _ _ _ _ _).mpr ⟨h1, h2, h3⟩, hw, h4, c.strat, by rw [gd_plain (hdst _ h2)]; exact h5, rfl⟩

end ShootVerif.Mapper
