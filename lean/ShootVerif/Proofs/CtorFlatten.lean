import ShootVerif.Spec.Ctor
/-! Shadow marking: the sequential `checkShadowAndAppend` fold equals the closed form
    "shadowed iff some entry of the same name sits at a smaller depth". -/
namespace ShootVerif.Ctor

def shadowOf (l : List Field) : Shadow := fun d n => l.any (fun f => f.name = n ∧ f.depth < d)

def markBy (sh : Shadow) (f : Field) : Field := { f with isShadowed := sh f.depth f.name }

theorem shadowOf_append (P : List Field) (x : Field) (d : Nat) (n : String) :
    shadowOf (P ++ [x]) d n = (shadowOf P d n || decide (x.name = n ∧ x.depth < d)) := by
  simp [shadowOf, List.any_append]

theorem foldl_appendCheck_aux (l : List Field) :
    ∀ (P : List Field), (∀ f ∈ l, f.isShadowed = false) →
      l.foldl appendCheck (P.map (markBy (shadowOf P))) = (P ++ l).map (markBy (shadowOf (P ++ l))) := by
  induction l with
  | nil => intro P _; simp
  | cons x l ih =>
    intro P h
    have hx : x.isShadowed = false := h x (by simp)
    have hl : ∀ f ∈ l, f.isShadowed = false := fun f hf => h f (by simp [hf])
    have step : appendCheck (P.map (markBy (shadowOf P))) x = (P ++ [x]).map (markBy (shadowOf (P ++ [x]))) := by
      simp only [appendCheck, List.map_append, List.map_map, List.map_cons, List.map_nil]
      congr 1
      · apply List.map_congr_left
        intro f _
        simp only [Function.comp]
        by_cases hc : f.name = x.name ∧ x.depth < f.depth
        · have hc' : (markBy (shadowOf P) f).name = x.name ∧ x.depth < (markBy (shadowOf P) f).depth := hc
          have e : decide (x.name = f.name ∧ x.depth < f.depth) = true := decide_eq_true ⟨hc.1.symm, hc.2⟩
          rw [if_pos hc']
          simp only [markBy, shadowOf_append, e, Bool.or_true]
        · have hc' : ¬ ((markBy (shadowOf P) f).name = x.name ∧ x.depth < (markBy (shadowOf P) f).depth) := hc
          have e : decide (x.name = f.name ∧ x.depth < f.depth) = false :=
            decide_eq_false (fun hh => hc ⟨hh.1.symm, hh.2⟩)
          rw [if_neg hc']
          simp only [markBy, shadowOf_append, e, Bool.or_false]
      · simp only [markBy, hx, Bool.false_or, List.any_map]
        rw [shadowOf_append]
        have e : decide (x.name = x.name ∧ x.depth < x.depth) = false :=
          decide_eq_false (fun hh => Nat.lt_irrefl _ hh.2)
        rw [e, Bool.or_false]
        simp only [shadowOf]
        congr 1
    rw [List.foldl_cons, step, ih (P ++ [x]) hl]
    simp

/-- order-independent closed form of the generator's shadow flags -/
theorem foldl_appendCheck (l : List Field) (h : ∀ f ∈ l, f.isShadowed = false) :
    l.foldl appendCheck [] = l.map (markBy (shadowOf l)) := by
  simpa using foldl_appendCheck_aux l [] h

theorem walk_map (sh : Shadow) (t : Tree) : ∀ (top inh : Bool) (d : Nat),
    walk sh top inh d t = (walk noShadow top inh d t).map (markBy sh) := by
  induction t with
  | nil => intros; simp [walk]
  | field f rest ih =>
    intro top inh d
    simp only [walk, List.map_append, ← ih]
    by_cases hs : f.skip <;> simp [hs, markBy, mkField, noShadow]
  | embed n ty p nm body rest ihb ihr =>
    intro top inh d
    simp only [walk, List.map_cons, List.map_append, ← ihb, ← ihr]
    simp [markBy, mkEmbed, noShadow]

theorem walk_noShadow_unshadowed (t : Tree) : ∀ (top inh : Bool) (d : Nat),
    ∀ f ∈ walk noShadow top inh d t, f.isShadowed = false := by
  induction t with
  | nil => intros _ _ _ f hf; simp [walk] at hf
  | field g rest ih =>
    intro top inh d f hf
    simp only [walk, List.mem_append] at hf
    rcases hf with hf | hf
    · by_cases hs : g.skip
      · simp [hs] at hf
      · simp [hs] at hf; subst hf; simp [mkField, noShadow]
    · exact ih top inh d f hf
  | embed n ty p nm body rest ihb ihr =>
    intro top inh d f hf
    simp only [walk, List.mem_cons, List.mem_append] at hf
    rcases hf with hf | hf | hf
    · subst hf; simp [mkEmbed, noShadow]
    · exact ihb _ _ _ f hf
    · exact ihr _ _ _ f hf

/-- the shadow function the generator ends up with: an entry of the same name at a smaller depth, or a
    left-out field of that name at a smaller depth -/
def genShadow (t : Tree) : Shadow :=
  fun d n => shadowOf (walkTop noShadow t) d n || (hiddenAll 0 t).any (fun h => h.1 = n ∧ h.2 < d)

theorem hideBy_markBy (H : List (String × Nat)) (sh : Shadow) (f : Field) :
    hideBy H (markBy sh f) = markBy (fun d n => sh d n || H.any (fun h => h.1 = n ∧ h.2 < d)) f := by
  unfold hideBy markBy
  by_cases h : H.any (fun h => h.1 = f.name ∧ h.2 < f.depth) = true
  · have h' : H.any (fun h => h.1 = ({ f with isShadowed := sh f.depth f.name } : Field).name ∧
        h.2 < ({ f with isShadowed := sh f.depth f.name } : Field).depth) = true := h
    rw [if_pos h']
    simp only [h, Bool.or_true]
  · have h' : ¬ (H.any (fun h => h.1 = ({ f with isShadowed := sh f.depth f.name } : Field).name ∧
        h.2 < ({ f with isShadowed := sh f.depth f.name } : Field).depth) = true) := h
    rw [if_neg h']
    have hf : H.any (fun h => h.1 = f.name ∧ h.2 < f.depth) = false := by
      cases hc : H.any (fun h => h.1 = f.name ∧ h.2 < f.depth)
      · rfl
      · exact absurd hc h
    simp only [hf, Bool.or_false]

/-- the generator's field list is the pre-order walk with the closed-form shadow flags -/
theorem flatten_closed (t : Tree) : flatten t = walkTop (genShadow t) t := by
  unfold flatten walkTop
  rw [foldl_appendCheck _ (walk_noShadow_unshadowed t true false 0), List.map_map]
  rw [walk_map (genShadow t)]
  apply List.map_congr_left
  intro f _
  simp only [Function.comp]
  rw [hideBy_markBy]
  rfl

end ShootVerif.Ctor
