import ShootVerif.Spec.Mapper
/-
Lemmas for C05: the write-set invariant over the pair loop (monotone claim logs), uniqueness of the
flattened field names, and the shape of the emitted statement lists.
-/
namespace ShootVerif.Mapper

/-! ## flatten: names stay distinct -/

theorem aor_names (fs : List Field) (x : Field) :
    (appendOrReplace fs x).map (·.name) =
      if x.name ∈ fs.map (·.name) then fs.map (·.name) else fs.map (·.name) ++ [x.name] := by
  induction fs with
  | nil => simp [appendOrReplace]
  | cons f fs ih =>
    simp only [appendOrReplace]
    by_cases h : f.name = x.name
    · simp only [h, ↓reduceIte]
      split <;> simp [h]
    · simp only [h, ↓reduceIte, List.map_cons, ih, List.mem_cons]
      have h' : ¬ x.name = f.name := fun e => h e.symm
      simp only [h', false_or]
      split <;> simp

theorem aor_nodup (fs : List Field) (x : Field) (h : (fs.map (·.name)).Nodup) :
    ((appendOrReplace fs x).map (·.name)).Nodup := by
  rw [aor_names]
  split
  · exact h
  · rename_i hx
    rw [List.nodup_append]
    refine ⟨h, by simp, ?_⟩
    intro a ha b hb
    simp at hb
    subst hb
    intro e
    subst e
    exact hx ha

theorem foldl_aor_nodup (xs fs : List Field) (h : (fs.map (·.name)).Nodup) :
    ((xs.foldl appendOrReplace fs).map (·.name)).Nodup := by
  induction xs generalizing fs with
  | nil => simpa using h
  | cons x xs ih => exact ih _ (aor_nodup fs x h)

theorem flatten_names_nodup (t : Tree) : ((flatten t).map (·.name)).Nodup := by
  unfold flatten
  exact (foldl_aor_nodup _ [] (by simp)).sublist ((List.filter_sublist).map _)

theorem flatten_sub (t : Tree) {f : Field} (h : f ∈ flatten t) : f ∈ (walkTop t).foldl appendOrReplace [] := by
  unfold flatten at h; exact (List.mem_filter.mp h).1

/-- the recursive-mapping test of the generator is the property's: STRUCT types of the two packages -/
theorem isNamedIn_struct (t : Ty) (p : Pkg) (h : t.isNamedIn p = true) : t.isStructNamed = true := by
  unfold Ty.isNamedIn at h
  split at h
  · rfl
  · cases h

theorem nodup_of_map_nodup {α β} (f : α → β) (l : List α) (h : (l.map f).Nodup) : l.Nodup := by
  induction l with
  | nil => simp
  | cons a l ih =>
    simp only [List.map_cons, List.nodup_cons, List.mem_map, not_exists, not_and] at h ⊢
    exact ⟨fun ha => h.1 a ha rfl, ih h.2⟩

theorem inj_of_map_nodup {α β} (f : α → β) (l : List α) (h : (l.map f).Nodup) {a b : α}
    (ha : a ∈ l) (hb : b ∈ l) (e : f a = f b) : a = b := by
  induction l with
  | nil => cases ha
  | cons x l ih =>
    simp only [List.map_cons, List.nodup_cons, List.mem_map, not_exists, not_and] at h
    rcases List.mem_cons.mp ha with rfl | ha' <;> rcases List.mem_cons.mp hb with rfl | hb'
    · rfl
    · exact absurd e.symm (h.1 b hb')
    · exact absurd e (h.1 a ha')
    · exact ih h.2 ha' hb'

/-- plain (non accessor-mode) sides: the field list has pairwise distinct names -/
theorem sideFields_plain_nodup (t : Tree) : ((sideFields t false).map (·.name)).Nodup := by
  simp only [sideFields]
  have := flatten_names_nodup t
  exact List.Nodup.sublist (List.Sublist.map _ (List.filter_sublist)) this

/-! ## the write-set invariant -/

/-- why a claim was allowed: its strategy applies to the two types -/
def justified (conv : List (Ty × Ty)) (fns : List (Nat × Fn)) (rdPkg wrPkg : Pkg) (c : Claim) : Prop :=
  match c.strat with
  | .assign => c.rd.ty = c.wr.ty
  | .conv => (matchType conv c.rd.ty c.wr.ty).2 = true
  | .func k => ∃ fn, (k, fn) ∈ fns ∧ fn.param = c.rd.ty ∧ fn.result = c.wr.ty
  | .sub r w => c.rd.ty.strip.1 = r ∧ c.wr.ty.strip.1 = w ∧
      c.rd.ty.strip.2.isNamedIn rdPkg = true ∧ c.wr.ty.strip.2.isNamedIn wrPkg = true
  | .each r w => ∃ e1 e2, c.rd.ty = .slice e1 ∧ c.wr.ty = .slice e2 ∧ e1.strip.1 = r ∧ e2.strip.1 = w ∧
      e1.strip.2.isNamedIn rdPkg = true ∧ e2.strip.2.isNamedIn wrPkg = true

/-- invariant of the pair loop. `ps`: the name-matched pairs; `w0D`/`w0S`: the write-sets the loop
    starts from (constructor parameters already claimed). The claim logs only grow. -/
structure Inv (conv : List (Ty × Ty)) (fns : List (Nat × Fn)) (ps : List (Field × Field))
    (w0D w0S : List String) (st : St) : Prop where
  subD : ∀ n ∈ w0D, n ∈ st.wD
  subS : ∀ n ∈ w0S, n ∈ st.wS
  toNodup : (st.toC.map (·.wr.name)).Nodup
  toIn : ∀ c ∈ st.toC, c.wr.name ∈ st.wD ∧ c.wr.name ∉ w0D ∧ c.wr.isGet = false
  toPair : ∀ c ∈ st.toC, (c.rd, c.wr) ∈ ps ∧ justified conv fns .src .dest c
  fromNodup : (st.fromC.map (·.wr.name)).Nodup
  fromIn : ∀ c ∈ st.fromC, c.wr.name ∈ st.wS ∧ c.wr.name ∉ w0S ∧ c.wr.isGet = false
  fromPair : ∀ c ∈ st.fromC, (c.wr, c.rd) ∈ ps ∧ justified conv fns .dest .src c

variable {conv : List (Ty × Ty)} {fns : List (Nat × Fn)} {ps : List (Field × Field)} {w0D w0S : List String}

theorem claimTo_inv {st : St} (h : Inv conv fns ps w0D w0S st) (f1 f2 : Field) (s : Strat)
    (hp : (f1, f2) ∈ ps) (hj : justified conv fns .src .dest ⟨f1, f2, s⟩) :
    Inv conv fns ps w0D w0S (claimTo st f1 f2 s) := by
  unfold claimTo
  split
  · exact h
  · rename_i hc
    simp only [Bool.or_eq_true, List.contains_iff_mem, not_or, Bool.not_eq_true] at hc
    refine ⟨?_, h.subS, ?_, ?_, ?_, h.fromNodup, h.fromIn, h.fromPair⟩
    · intro n hn; exact List.mem_cons_of_mem _ (h.subD n hn)
    · simp only [List.map_append, List.map_cons, List.map_nil]
      rw [List.nodup_append]
      refine ⟨h.toNodup, by simp, ?_⟩
      intro a ha b hb
      simp at hb
      subst hb
      intro e
      subst e
      obtain ⟨c, hc1, hc2⟩ := List.mem_map.mp ha
      exact hc.1 (hc2 ▸ (h.toIn c hc1).1)
    · intro c hcm
      rcases List.mem_append.mp hcm with hcm | hcm
      · have := h.toIn c hcm
        exact ⟨List.mem_cons_of_mem _ this.1, this.2⟩
      · simp at hcm
        subst hcm
        exact ⟨List.mem_cons_self, fun hn => hc.1 (h.subD _ hn), hc.2⟩
    · intro c hcm
      rcases List.mem_append.mp hcm with hcm | hcm
      · exact h.toPair c hcm
      · simp at hcm
        subst hcm
        exact ⟨hp, hj⟩

theorem claimFrom_inv {st : St} (h : Inv conv fns ps w0D w0S st) (f1 f2 : Field) (s : Strat)
    (hp : (f1, f2) ∈ ps) (hj : justified conv fns .dest .src ⟨f2, f1, s⟩) :
    Inv conv fns ps w0D w0S (claimFrom st f1 f2 s) := by
  unfold claimFrom
  split
  · exact h
  · rename_i hc
    simp only [Bool.or_eq_true, List.contains_iff_mem, not_or, Bool.not_eq_true] at hc
    refine ⟨h.subD, ?_, h.toNodup, h.toIn, h.toPair, ?_, ?_, ?_⟩
    · intro n hn; exact List.mem_cons_of_mem _ (h.subS n hn)
    · simp only [List.map_append, List.map_cons, List.map_nil]
      rw [List.nodup_append]
      refine ⟨h.fromNodup, by simp, ?_⟩
      intro a ha b hb
      simp at hb
      subst hb
      intro e
      subst e
      obtain ⟨c, hc1, hc2⟩ := List.mem_map.mp ha
      exact hc.1 (hc2 ▸ (h.fromIn c hc1).1)
    · intro c hcm
      rcases List.mem_append.mp hcm with hcm | hcm
      · have := h.fromIn c hcm
        exact ⟨List.mem_cons_of_mem _ this.1, this.2⟩
      · simp at hcm
        subst hcm
        exact ⟨List.mem_cons_self, fun hn => hc.1 (h.subS _ hn), hc.2⟩
    · intro c hcm
      rcases List.mem_append.mp hcm with hcm | hcm
      · exact h.fromPair c hcm
      · simp at hcm
        subst hcm
        exact ⟨hp, hj⟩

theorem funcStep_inv (f1 f2 : Field) (hp : (f1, f2) ∈ ps) (kf : Nat × Fn) (hk : kf ∈ fns)
    {st : St} (h : Inv conv fns ps w0D w0S st) : Inv conv fns ps w0D w0S (funcStep f1 f2 kf st) := by
  obtain ⟨k, fn⟩ := kf
  have h1 : Inv conv fns ps w0D w0S (funcTo f1 f2 k fn st) := by
    unfold funcTo
    split
    · rename_i hc
      simp only [Bool.and_eq_true, beq_iff_eq] at hc
      exact claimTo_inv h f1 f2 _ hp ⟨fn, hk, hc.1.1, hc.1.2⟩
    · exact h
  unfold funcStep funcFrom
  split
  · rename_i hc
    simp only [Bool.and_eq_true, beq_iff_eq] at hc
    exact claimFrom_inv h1 f1 f2 _ hp ⟨fn, hk, hc.1.1, hc.1.2⟩
  · exact h1

theorem funcLoop_inv (f1 f2 : Field) (hp : (f1, f2) ∈ ps) (l : List (Nat × Fn)) (hl : ∀ x ∈ l, x ∈ fns)
    {st : St} (h : Inv conv fns ps w0D w0S st) : Inv conv fns ps w0D w0S (funcLoop f1 f2 l st) := by
  induction l generalizing st with
  | nil => exact h
  | cons kf rest ih =>
    have h2 := funcStep_inv f1 f2 hp kf (hl _ List.mem_cons_self) h
    simp only [funcLoop]
    split
    · exact h2
    · exact ih (fun x hx => hl x (List.mem_cons_of_mem _ hx)) h2

theorem subMap_inv' (f1 f2 : Field) (t1 t2 : Ty) (sl : Bool) (hp : (f1, f2) ∈ ps)
    (hj1 : t1.strip.2.isNamedIn .src = true → t2.strip.2.isNamedIn .dest = true →
      justified conv fns .src .dest ⟨f1, f2, if sl then .each t1.strip.1 t2.strip.1 else .sub t1.strip.1 t2.strip.1⟩)
    (hj2 : t1.strip.2.isNamedIn .src = true → t2.strip.2.isNamedIn .dest = true →
      justified conv fns .dest .src ⟨f2, f1, if sl then .each t2.strip.1 t1.strip.1 else .sub t2.strip.1 t1.strip.1⟩)
    {st : St} (h : Inv conv fns ps w0D w0S st) :
    Inv conv fns ps w0D w0S (subMap f1 f2 t1 t2 sl st) := by
  have h1 : Inv conv fns ps w0D w0S (subTo f1 f2 t1 t2 sl st) := by
    unfold subTo
    split
    · rename_i hc
      simp only [Bool.and_eq_true] at hc
      exact claimTo_inv h f1 f2 _ hp (hj1 hc.1.1 hc.1.2)
    · exact h
  unfold subMap subFrom
  split
  · rename_i hc
    simp only [Bool.and_eq_true] at hc
    exact claimFrom_inv h1 f1 f2 _ hp (hj2 hc.1.1 hc.1.2)
  · exact h1

theorem subMap_inv (f1 f2 : Field) (hp : (f1, f2) ∈ ps) {st : St} (h : Inv conv fns ps w0D w0S st) :
    Inv conv fns ps w0D w0S (subMap f1 f2 f1.ty f2.ty false st) := by
  apply subMap_inv' f1 f2 _ _ _ hp _ _ h
  · intro a b; simp [justified, a, b]
  · intro a b; simp [justified, a, b]

theorem subListMap_inv (f1 f2 : Field) (hp : (f1, f2) ∈ ps) {st : St} (h : Inv conv fns ps w0D w0S st) :
    Inv conv fns ps w0D w0S (subListMap f1 f2 st) := by
  unfold subListMap
  split
  · rename_i e1 e2 he1 he2
    apply subMap_inv' f1 f2 _ _ _ hp _ _ h
    · intro a b; exact ⟨e1, e2, he1, he2, by simp [a, b]⟩
    · intro a b; exact ⟨e2, e1, he2, he1, by simp [a, b]⟩
  · exact h

theorem mismatchStep_inv (fl : List Fn) (hf : fns = indexed fl) (p : Field × Field) (hp : p ∈ ps) {st : St}
    (h : Inv conv fns ps w0D w0S st) : Inv conv fns ps w0D w0S (mismatchStep fl st p) := by
  obtain ⟨f1, f2⟩ := p
  simp only [mismatchStep]
  exact subListMap_inv f1 f2 hp (subMap_inv f1 f2 hp (funcLoop_inv f1 f2 hp _ (by simp [hf]) h))

theorem matchStep_inv (p : Field × Field) (hp : p ∈ ps) {st : St}
    (h : Inv conv fns ps w0D w0S st) : Inv conv fns ps w0D w0S (matchStep conv st p) := by
  obtain ⟨f1, f2⟩ := p
  have h1 : Inv conv fns ps w0D w0S (matchTo conv f1 f2 st) := by
    unfold matchTo
    split
    · exact h
    · split
      · rename_i hs
        exact claimTo_inv h f1 f2 _ hp (by simpa [justified, matchType] using hs)
      · split
        · rename_i hs
          exact claimTo_inv h f1 f2 _ hp (by simpa [justified] using hs)
        · exact h
  unfold matchStep matchFrom
  split
  · exact h1
  · split
    · rename_i hs
      exact claimFrom_inv h1 f1 f2 _ hp (by
        have : f1.ty = f2.ty := by simpa [matchType] using hs
        simp [justified, this])
    · split
      · rename_i hs
        exact claimFrom_inv h1 f1 f2 _ hp (by simpa [justified] using hs)
      · exact h1

theorem foldl_inv (step : St → Field × Field → St)
    (hstep : ∀ p ∈ ps, ∀ st, Inv conv fns ps w0D w0S st → Inv conv fns ps w0D w0S (step st p))
    (l : List (Field × Field)) (hl : ∀ p ∈ l, p ∈ ps) {st : St} (h : Inv conv fns ps w0D w0S st) :
    Inv conv fns ps w0D w0S (l.foldl step st) := by
  induction l generalizing st with
  | nil => exact h
  | cons p l ih =>
    exact ih (fun q hq => hl q (List.mem_cons_of_mem _ hq)) (hstep p (hl p List.mem_cons_self) st h)

theorem planFields_inv (fl : List Fn) (w0D w0S : List String) :
    Inv conv (indexed fl) ps w0D w0S (planFields conv fl ps { wD := w0D, wS := w0S }) := by
  unfold planFields
  apply foldl_inv _ (fun p hp st h => matchStep_inv p hp h) _ (fun _ h => h)
  apply foldl_inv _ (fun p hp st h => mismatchStep_inv fl rfl p hp h) _ (fun _ h => h)
  exact ⟨fun _ h => h, fun _ h => h, by simp, by simp, by simp, by simp, by simp, by simp⟩

/-! ## from the claim log to the emitted statements -/

theorem lastClaim_some {cs : List Claim} {f : Field} {c : Claim} (h : lastClaim cs f = some c) :
    c ∈ cs ∧ c.rd = f := by
  unfold lastClaim at h
  have hm := List.mem_of_getLast? h
  simp only [List.mem_filter, beq_iff_eq] at hm
  exact hm

theorem stmts_sub {cs : List Claim} {fs : List Field} {c : Claim}
    (h : c ∈ fs.filterMap (lastClaim cs)) : c ∈ cs ∧ c.rd ∈ fs := by
  obtain ⟨f, hf, hc⟩ := List.mem_filterMap.mp h
  have := lastClaim_some hc
  exact ⟨this.1, this.2 ▸ hf⟩

/-- one statement per reading field, and the written names stay distinct -/
theorem stmts_nodup (cs : List Claim) (fs : List Field) (hfs : fs.Nodup)
    (hcs : (cs.map (·.wr.name)).Nodup) : ((fs.filterMap (lastClaim cs)).map (·.wr.name)).Nodup := by
  rw [List.nodup_iff_pairwise_ne, List.pairwise_map]
  apply List.Pairwise.filterMap (R := fun a b => a ≠ b)
  · intro a a' hne b hb b' hb' e
    have h1 := lastClaim_some (Option.mem_def.mp hb)
    have h2 := lastClaim_some (Option.mem_def.mp hb')
    have := inj_of_map_nodup _ cs hcs h1.1 h2.1 e
    subst this
    exact hne (h1.2.symm.trans h2.2)
  · exact List.nodup_iff_pairwise_ne.mp hfs

end ShootVerif.Mapper
