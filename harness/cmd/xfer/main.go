// xfer: in-process observation of internal/transfer (ToPascalCase, ToCamelCase, ToCamelCaseGO, FirstLowerLetter).
// stdin: one `<id> <hex of the input bytes>` per line; stdout: `<id> impl <fn> <hex of the result>`.
package main

import (
	"bufio"
	"encoding/hex"
	"fmt"
	"os"
	"strings"

	"github.com/lopolopen/shoot/internal/transfer"
)

func main() {
	in := bufio.NewScanner(os.Stdin)
	in.Buffer(make([]byte, 1<<20), 1<<24)
	out := bufio.NewWriter(os.Stdout)
	defer out.Flush()
	for in.Scan() {
		f := strings.Fields(in.Text())
		if len(f) < 1 {
			continue
		}
		s := ""
		if len(f) > 1 {
			b, err := hex.DecodeString(f[1])
			if err != nil {
				fmt.Fprintf(out, "%s impl error bad-hex\n", f[0])
				continue
			}
			s = string(b)
		}
		func() {
			defer func() {
				if r := recover(); r != nil {
					fmt.Fprintf(out, "%s impl panic %v\n", f[0], r)
				}
			}()
			h := func(x string) string { return "x" + hex.EncodeToString([]byte(x)) }
			fmt.Fprintf(out, "%s impl pascal %s\n", f[0], h(transfer.ToPascalCase(s)))
			fmt.Fprintf(out, "%s impl camel %s\n", f[0], h(transfer.ToCamelCase(s)))
			fmt.Fprintf(out, "%s impl camelgo %s\n", f[0], h(transfer.ToCamelCaseGO(s)))
			fmt.Fprintf(out, "%s impl firstlower %s\n", f[0], h(transfer.FirstLowerLetter(s)))
		}()
	}
}
