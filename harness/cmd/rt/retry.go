package main

import (
	"bufio"
	"context"
	"errors"
	"fmt"
	"io"
	"net/http"
	"sort"
	"strconv"
	"strings"
	"sync"
	"sync/atomic"
	"time"

	"github.com/lopolopen/shoot/middleware"
)

type outcome struct {
	hasResp, hasErr bool
	status          int
}

func parseOutcome(s string) (outcome, error) {
	switch {
	case s == "e":
		return outcome{hasErr: true}, nil
	case strings.HasPrefix(s, "er"):
		n, err := strconv.Atoi(s[2:])
		return outcome{hasResp: true, hasErr: true, status: n}, err
	case strings.HasPrefix(s, "r"):
		n, err := strconv.Atoi(s[1:])
		return outcome{hasResp: true, status: n}, err
	}
	return outcome{}, fmt.Errorf("bad outcome %q", s)
}

// trackedBody: the scripted response body; records reads and Close so that the check can tell whether the
// middleware handed the response back untouched
type trackedBody struct {
	r      *strings.Reader
	read   bool
	closed bool
}

func (b *trackedBody) Read(p []byte) (int, error) { b.read = true; return b.r.Read(p) }
func (b *trackedBody) Close() error               { b.closed = true; return nil }

type scriptErr struct{ i int }

func (e *scriptErr) Error() string { return "scripted error " + strconv.Itoa(e.i) }

// the KIND of a transport error is no concern of the retry loop: the same script is replayed with timeout-flavoured
// errors (net.Error, Timeout() and Temporary() true) and with errors that wrap the context sentinels
type timeoutErr struct{ i int }

func (e *timeoutErr) Error() string   { return "scripted i/o timeout " + strconv.Itoa(e.i) }
func (e *timeoutErr) Timeout() bool   { return true }
func (e *timeoutErr) Temporary() bool { return true }

type ctxErr struct {
	i     int
	inner error
}

func (e *ctxErr) Error() string { return "scripted " + e.inner.Error() + " " + strconv.Itoa(e.i) }
func (e *ctxErr) Unwrap() error { return e.inner }

func mkErr(kind, i int) error {
	switch kind {
	case 1:
		return &timeoutErr{i}
	case 2:
		if i%2 == 0 {
			return &ctxErr{i, context.DeadlineExceeded}
		}
		return &ctxErr{i, context.Canceled}
	}
	return &scriptErr{i}
}

// line: <id> <n> <delay_us> o0 o1 ...
func oneRetry(line string) string {
	f := strings.Fields(line)
	id := f[0]
	n, _ := strconv.Atoi(f[1])
	dus, _ := strconv.Atoi(f[2])
	delay := time.Duration(dus) * time.Microsecond
	// optional 4th field `gb=<k>`: in the fourth pass the request's k-th GetBody call (the one made before attempt k) fails
	gbFail := 0
	rest := f[3:]
	if len(rest) > 0 && strings.HasPrefix(rest[0], "gb=") {
		gbFail, _ = strconv.Atoi(rest[0][3:])
		rest = rest[1:]
	}
	var script []outcome
	for _, s := range rest {
		o, err := parseOutcome(s)
		if err != nil {
			return fmt.Sprintf("%s impl error %v\n", id, err)
		}
		script = append(script, o)
	}
	var trace []string
	calls := 0
	resps := map[*http.Response]int{}
	errs := map[error]int{}
	var lastEnd time.Time
	errKind := 0
	var origReq *http.Request
	var origCtx context.Context
	var views []string
	base := middleware.RoundTripper(func(req *http.Request) (*http.Response, error) {
		now := time.Now()
		i := calls
		// which request object and which body this attempt is handed
		v := "c"
		if req == origReq {
			v = "o"
		}
		switch {
		case req.Body == nil || req.Body == http.NoBody:
			v += "/nobody"
		default:
			b, rerr := io.ReadAll(req.Body)
			switch {
			case rerr != nil:
				v += "/readerr"
			case len(b) == 0:
				v += "/drained"
			case string(b) == wantBody:
				v += "/full"
			default:
				v += "/other:" + string(b)
			}
		}
		if req.Context() != origCtx {
			v += "!ctx"
		}
		if origReq != nil && origReq.Header != nil && req.Header.Get("X-Verif") != "k" {
			v += "!hdr"
		}
		if req.Method != origReq.Method || req.URL.String() != origReq.URL.String() {
			v += "!line"
		}
		views = append(views, v)
		if i > 0 && now.Sub(lastEnd) > delay+lateSlack {
			// upper bound: the wait is d, not something else (a gap far beyond d is marked and only believed after it has been
			// reproduced on sequential re-runs, see runRetry)
			trace = append(trace, "L")
			lateGaps.Add(1)
		}
		if i > 0 && delay > 0 && now.Sub(lastEnd) >= delay {
			// lower bound: the gap since the previous call returned was at least d
			trace = append(trace, "s")
		}
		calls++
		trace = append(trace, "c"+strconv.Itoa(i))
		o := outcome{hasErr: true}
		if i < len(script) {
			o = script[i]
		}
		var resp *http.Response
		var err error
		if o.hasResp {
			resp = &http.Response{StatusCode: o.status, Body: &trackedBody{r: strings.NewReader("b" + strconv.Itoa(i))}, Header: http.Header{}}
			// what the server says about retrying is no concern of the loop: it waits d
			switch errKind {
			case 1:
				resp.Header.Set("Retry-After", "0")
			case 2:
				resp.Header.Set("Retry-After", "Wed, 21 Oct 2015 07:28:00 GMT")
			}
			resps[resp] = i
		}
		if o.hasErr {
			err = mkErr(errKind, i)
			errs[err] = i
		}
		lastEnd = time.Now()
		return resp, err
	})
	var sb strings.Builder
	rt := middleware.RetryMiddleware(n, delay)(base)
	one := func(suffix string, kind int, ctxMode int) {
		errKind = kind
		defer func() {
			if r := recover(); r != nil {
				fmt.Fprintf(&sb, "%s impl panic%s %v\n", id, suffix, r)
			}
		}()
		// a fresh request through the SAME middleware instance: the script starts over
		trace = nil
		views = nil
		calls = 0
		// the request's own context is no concern of the loop either (the wrapped transport decides what a done context
		// means): live, cancelled before the request, or expiring during the first wait
		ctx := context.Background()
		switch ctxMode {
		case 1:
			c, cancel := context.WithCancel(ctx)
			cancel()
			ctx = c
		case 2:
			c, cancel := context.WithTimeout(ctx, delay/3+time.Microsecond)
			defer cancel()
			ctx = c
		}
		// neither is the request's body: none, replayable (GetBody set by net/http), or a stream that cannot be replayed
		var req *http.Request
		switch ctxMode {
		case 1:
			req, _ = http.NewRequestWithContext(ctx, "POST", "http://example.invalid/x", strings.NewReader(wantBody))
		case 3:
			// replayable body whose gbFail-th GetBody call reports an error (0 = never)
			req, _ = http.NewRequestWithContext(ctx, "PATCH", "http://example.invalid/x?q=1", strings.NewReader(wantBody))
			inner := req.GetBody
			gbCalls := 0
			req.GetBody = func() (io.ReadCloser, error) {
				gbCalls++
				if gbCalls == gbFail {
					return nil, errors.New("scripted GetBody failure")
				}
				return inner()
			}
		case 2:
			req, _ = http.NewRequestWithContext(ctx, "PUT", "http://example.invalid/x", io.NopCloser(strings.NewReader(wantBody)))
			req.GetBody = nil
			// a hand-built request as a mocked transport sees it: no Header map at all
			req.Header = nil
		default:
			req, _ = http.NewRequestWithContext(ctx, "GET", "http://example.invalid/x", nil)
		}
		if req.Header != nil {
			req.Header.Set("X-Verif", "k")
		}
		origReq, origCtx = req, req.Context()
		resp, err := rt.RoundTrip(req)
		rs, es := "nil", "nil"
		if resp != nil {
			if i, ok := resps[resp]; ok {
				rs = strconv.Itoa(i)
			} else {
				rs = "foreign"
			}
		}
		if err != nil {
			var se *scriptErr
			var te *timeoutErr
			var ce *ctxErr
			if i, ok := errs[err]; ok {
				es = strconv.Itoa(i)
			} else if errors.As(err, &se) {
				es = "wrapped" + strconv.Itoa(se.i)
			} else if errors.As(err, &te) {
				es = "wrapped" + strconv.Itoa(te.i)
			} else if errors.As(err, &ce) {
				es = "wrapped" + strconv.Itoa(ce.i)
			} else {
				es = "foreign"
			}
		}
		// the returned response must be usable by the caller: body unread, not closed, content intact
		bs := "none"
		if resp != nil {
			if tb, ok := resp.Body.(*trackedBody); ok {
				pre := fmt.Sprintf("read=%v,closed=%v", tb.read, tb.closed)
				content, _ := io.ReadAll(resp.Body)
				bs = pre + ",content=" + string(content)
			} else {
				bs = "foreign-body"
			}
		}
		fmt.Fprintf(&sb, "%s impl body%s %s\n", id, suffix, bs)
		fmt.Fprintf(&sb, "%s impl calls%s %d\n", id, suffix, calls)
		fmt.Fprintf(&sb, "%s impl ret%s resp=%s err=%s\n", id, suffix, rs, es)
		fmt.Fprintf(&sb, "%s impl trace%s %s\n", id, suffix, strings.Join(trace, " "))
		fmt.Fprintf(&sb, "%s impl views%s %s\n", id, suffix, strings.Join(views, " "))
	}
	one("", 0, 0)
	// the middleware keeps no state between requests: a second and third request behave like the first -- whatever the
	// kind of the transport errors and the state of the request's context
	one("2", 1, 1)
	one("3", 2, 2)
	// fourth request: live context, replayable body, the gbFail-th GetBody call fails
	one("4", 0, 3)
	return sb.String()
}

// the request body of the passes that send one
const wantBody = `{"a":1}`

// a gap between two calls that exceeds d by more than this is "late"
const lateSlack = 150 * time.Millisecond

var lateGaps atomic.Int64

func isLate(res string) bool {
	for _, l := range strings.Split(res, "\n") {
		if strings.Contains(l, " impl trace") && strings.Contains(l+" ", " L ") {
			return true
		}
	}
	return false
}

func stripLate(res string) string {
	ls := strings.Split(res, "\n")
	for k, l := range ls {
		if strings.Contains(l, " impl trace") {
			f := strings.Split(l, " ")
			g := f[:0]
			for _, t := range f {
				if t != "L" {
					g = append(g, t)
				}
			}
			ls[k] = strings.Join(g, " ")
		}
	}
	return strings.Join(ls, "\n")
}

// runRetry runs every line (64 at a time). A late gap seen in the parallel run may be the machine's load: the case is
// re-run alone, five times, and its late marks are kept only when every re-run is late as well. Once a late case has been
// confirmed the remaining lines are not run (a loop that oversleeps would take hours): they are reported as skipped.
func runRetry(lines []string, out *bufio.Writer) {
	res := make([]string, len(lines))
	pending := make([]int, len(lines))
	for i := range pending {
		pending[i] = i
	}
	confirmed := false
	for len(pending) > 0 && !confirmed {
		var wg sync.WaitGroup
		var mu sync.Mutex
		var deferred, late []int
		sem := make(chan struct{}, 64)
		start := lateGaps.Load()
		for _, i := range pending {
			if lateGaps.Load()-start >= 8 {
				deferred = append(deferred, i)
				continue
			}
			wg.Add(1)
			sem <- struct{}{}
			go func(i int) {
				defer wg.Done()
				defer func() { <-sem }()
				res[i] = oneRetry(lines[i])
				if isLate(res[i]) {
					mu.Lock()
					late = append(late, i)
					mu.Unlock()
				}
			}(i)
		}
		wg.Wait()
		sort.Ints(late)
		for k, i := range late {
			ok := k < 8
			for r := 0; ok && r < 5; r++ {
				again := oneRetry(lines[i])
				if isLate(again) {
					res[i] = again
				} else {
					ok = false
				}
			}
			if ok {
				confirmed = true
			} else {
				res[i] = stripLate(res[i])
			}
		}
		pending = deferred
	}
	for _, i := range pending {
		res[i] = strings.Fields(lines[i])[0] + " impl skipped after-confirmed-late-gap\n"
	}
	for _, r := range res {
		out.WriteString(r)
	}
}
