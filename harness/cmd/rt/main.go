// rt: in-process observation of shoot's runtime package (retry middleware, RestConf, registry).
// usage: rt <area> < cases ; one case per line, one or more `<id> impl <key> <value>` lines out.
package main

import (
	"bufio"
	"fmt"
	"io"
	"log"
	"os"
)

func main() {
	log.SetOutput(io.Discard)
	if len(os.Args) < 2 {
		fmt.Fprintln(os.Stderr, "usage: rt <retry|conf|registry>")
		os.Exit(2)
	}
	in := bufio.NewScanner(os.Stdin)
	in.Buffer(make([]byte, 1<<20), 1<<26)
	var lines []string
	for in.Scan() {
		if in.Text() != "" {
			lines = append(lines, in.Text())
		}
	}
	out := bufio.NewWriter(os.Stdout)
	defer out.Flush()
	switch os.Args[1] {
	case "retry":
		runRetry(lines, out)
	case "conf":
		runConf(lines, out)
	default:
		fmt.Fprintln(os.Stderr, "unknown area", os.Args[1])
		os.Exit(2)
	}
}
