package main

import "bufio"

func runConf(lines []string, out *bufio.Writer) {}
