//go:build verif

// dirx: in-process observation of the directive/tag recognisers of internal/constructor (verif hooks).
// stdin: `<id> <hex>` per line; stdout: `<id> impl <key> <value>`.
package main

import (
	"bufio"
	"encoding/hex"
	"fmt"
	"os"
	"strings"

	"github.com/lopolopen/shoot/internal/constructor"
)

func main() {
	in := bufio.NewScanner(os.Stdin)
	in.Buffer(make([]byte, 1<<20), 1<<24)
	out := bufio.NewWriter(os.Stdout)
	defer out.Flush()
	h := func(x string) string { return "x" + hex.EncodeToString([]byte(x)) }
	for in.Scan() {
		f := strings.Fields(in.Text())
		if len(f) < 1 {
			continue
		}
		s := ""
		if len(f) > 1 {
			b, err := hex.DecodeString(f[1])
			if err != nil {
				continue
			}
			s = string(b)
		}
		g, st := constructor.VerifParseGetSetComment(s)
		fmt.Fprintf(out, "%s impl getset %v %v\n", f[0], g, st)
		fmt.Fprintf(out, "%s impl new %v\n", f[0], constructor.VerifParseNewComment(s))
		g2, s2 := constructor.VerifParseGetterSetterDoc(s)
		fmt.Fprintf(out, "%s impl gettersetter %v %v\n", f[0], g2, s2)
		if v, ok := constructor.VerifParseDefComment(s); ok {
			fmt.Fprintf(out, "%s impl def %s\n", f[0], h(v))
		} else {
			fmt.Fprintf(out, "%s impl def none\n", f[0])
		}
		fmt.Fprintf(out, "%s impl jsontag %s\n", f[0], h(constructor.VerifParseJSONTag(s)))
		fmt.Fprintf(out, "%s impl newtag %s\n", f[0], h(constructor.VerifParseNewTag(s)))
	}
}
