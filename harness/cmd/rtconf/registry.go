package main

import (
	"bufio"
	"bytes"
	"context"
	"encoding/json"
	"fmt"
	"net/http"
	"os"
	"os/exec"
	"regexp"
	"strings"
	"sync"
	"time"
)

type regCase struct {
	ID  string              `json:"id"`
	Ops [][]json.RawMessage `json:"ops"`
}

var reType = regexp.MustCompile(`interface main\.I(\d+) `)

func classifyPanic(r any) string {
	msg := fmt.Sprint(r)
	idx := "?"
	if m := reType.FindStringSubmatch(msg); m != nil {
		idx = m[1]
	}
	switch {
	case strings.Contains(msg, "should not be registered multiple times"):
		return "panic:dup:" + idx
	case strings.Contains(msg, "is not regstered") || strings.Contains(msg, "is not registered"):
		return "panic:unreg:" + idx
	}
	return "panic:other:" + msg
}

func oneOp(op []json.RawMessage) (res string) {
	defer func() {
		if r := recover(); r != nil {
			res = classifyPanic(r)
		}
	}()
	var kind string
	json.Unmarshal(op[0], &kind)
	var t int
	json.Unmarshal(op[1], &t)
	switch kind {
	case "reg":
		var k int
		json.Unmarshal(op[2], &k)
		registerType(t, k)
		return "registered"
	case "new":
		var raw []json.RawMessage
		json.Unmarshal(op[2], &raw)
		opts, err := parseOpts(raw)
		if err != nil {
			return "error:" + err.Error()
		}
		x := newRestType(t, opts)
		var tr http.RoundTripper
		tr = x.Client().Transport
		return fmt.Sprintf("made:%d %s", x.Tag(), confLine(confObs(x.Conf(), tr)))
	}
	return "error:bad-op"
}

// one history per process
func runRegChild(lines []string, out *bufio.Writer) {
	setupObservation()
	for _, ln := range lines {
		var c regCase
		if err := json.Unmarshal([]byte(ln), &c); err != nil {
			fmt.Fprintf(out, "? impl error bad-json\n")
			continue
		}
		for i, op := range c.Ops {
			res, ok := watch(func() string { return oneOp(op) })
			fmt.Fprintf(out, "%s impl op%d %s\n", c.ID, i, res)
			if !ok {
				// the call neither returned nor panicked: abandon this process
				for j := i + 1; j < len(c.Ops); j++ {
					fmt.Fprintf(out, "%s impl op%d notrun\n", c.ID, j)
				}
				out.Flush()
				os.Exit(0)
			}
		}
	}
}

func runRegistry(lines []string, out *bufio.Writer) {
	res := make([]string, len(lines))
	var wg sync.WaitGroup
	sem := make(chan struct{}, 32)
	for i := range lines {
		wg.Add(1)
		sem <- struct{}{}
		go func(i int) {
			defer wg.Done()
			defer func() { <-sem }()
			cctx, cancel := context.WithTimeout(context.Background(), 60*time.Second)
			defer cancel()
			cmd := exec.CommandContext(cctx, os.Args[0], "regchild")
			cmd.Stdin = strings.NewReader(lines[i] + "\n")
			var buf, ebuf bytes.Buffer
			cmd.Stdout = &buf
			cmd.Stderr = &ebuf
			if err := cmd.Run(); err != nil {
				var c regCase
				json.Unmarshal([]byte(lines[i]), &c)
				res[i] = buf.String() + fmt.Sprintf("%s impl error child: %v %s\n", c.ID, err, strings.ReplaceAll(ebuf.String(), "\n", " | "))
				return
			}
			res[i] = buf.String()
		}(i)
	}
	wg.Wait()
	for _, r := range res {
		out.WriteString(r)
	}
}
