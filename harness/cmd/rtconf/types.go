package main

import (
	"net/http"
	"time"

	"github.com/lopolopen/shoot"
)

// Hand-written RestClient implementations standing in for generated ones: the constructor has the
// shape of the generated init() (restclient.tmpl:143-153) and additionally remembers which
// constructor built the instance (tag) so that the registry's choice is observable.

type tagged interface {
	Tag() int
	Conf() *shoot.RestConf
	Client() *http.Client
}

type core struct {
	tag    int
	conf   *shoot.RestConf
	client *http.Client
}

func (c *core) Tag() int              { return c.tag }
func (c *core) Conf() *shoot.RestConf { return c.conf }
func (c *core) Client() *http.Client  { return c.client }
func (c *core) ShootRest()            {}
func mkCore(tag int, conf shoot.RestConf) core {
	return core{tag: tag, conf: &conf, client: &http.Client{
		Timeout:   time.Duration(conf.Timeout()) * time.Second,
		Transport: conf.BuildMiddleware(),
	}}
}

type I0 interface {
	shoot.RestClient[I0]
	tagged
}
type impl0 struct{ core }

func (c *impl0) ConfigHTTPClient(f func(*http.Client)) I0 { f(c.client); return c }

type I1 interface {
	shoot.RestClient[I1]
	tagged
}
type impl1 struct{ core }

func (c *impl1) ConfigHTTPClient(f func(*http.Client)) I1 { f(c.client); return c }

type I2 interface {
	shoot.RestClient[I2]
	tagged
}
type impl2 struct{ core }

func (c *impl2) ConfigHTTPClient(f func(*http.Client)) I2 { f(c.client); return c }

type I3 interface {
	shoot.RestClient[I3]
	tagged
}
type impl3 struct{ core }

func (c *impl3) ConfigHTTPClient(f func(*http.Client)) I3 { f(c.client); return c }

const nTypes = 4

func registerType(t, tag int) {
	switch t {
	case 0:
		shoot.Register(func(conf shoot.RestConf) I0 { return &impl0{mkCore(tag, conf)} })
	case 1:
		shoot.Register(func(conf shoot.RestConf) I1 { return &impl1{mkCore(tag, conf)} })
	case 2:
		shoot.Register(func(conf shoot.RestConf) I2 { return &impl2{mkCore(tag, conf)} })
	case 3:
		shoot.Register(func(conf shoot.RestConf) I3 { return &impl3{mkCore(tag, conf)} })
	default:
		panic("verif: no such type index")
	}
}

func newRestType(t int, opts []shoot.Option[shoot.RestConf, *shoot.RestConf]) tagged {
	switch t {
	case 0:
		return shoot.NewRest[I0](opts...)
	case 1:
		return shoot.NewRest[I1](opts...)
	case 2:
		return shoot.NewRest[I2](opts...)
	case 3:
		return shoot.NewRest[I3](opts...)
	}
	panic("verif: no such type index")
}
