package main

import (
	"bufio"
	"bytes"
	"encoding/json"
	"fmt"
	"net/http"
	"strings"
)

type clientsCase struct {
	ID  string              `json:"id"`
	Ops [][]json.RawMessage `json:"ops"`
}

// seenLine: the getters of a client's own RestConf and one round trip through the chain BuildMiddleware makes of it NOW
func seenLine(x tagged, rt http.RoundTripper) string {
	obs := confObs(x.Conf(), rt)
	return confLine(obs) + " trace=" + obs[5][1]
}

// Clients that keep the RestConf they were built from (like the generated ones: `conf: &conf`) and are looked at again
// after further NewRest / With calls: every interface type is registered once per process (constructor tag = type index);
// ops: ["new", T, opts] | ["with", j, opt] (the owner of client j applies an option to the RestConf it keeps) |
// ["again", j] (getters + BuildMiddleware + one round trip on client j's RestConf).
func runClients(lines []string, out *bufio.Writer) {
	setupObservation()
	for t := 0; t < 4; t++ {
		registerType(t, t)
	}
	for _, ln := range lines {
		var c clientsCase
		if err := json.Unmarshal([]byte(ln), &c); err != nil {
			fmt.Fprintf(out, "? impl error bad-json\n")
			continue
		}
		guardCase(out, c.ID, "op0", func(out *bytes.Buffer) {
			var made []tagged
			for i, op := range c.Ops {
				res := func() (res string) {
					defer func() {
						if r := recover(); r != nil {
							res = "panic:" + strings.ReplaceAll(fmt.Sprint(r), "\n", " ")
						}
					}()
					var kind string
					json.Unmarshal(op[0], &kind)
					var n int
					json.Unmarshal(op[1], &n)
					switch kind {
					case "new":
						var raw []json.RawMessage
						json.Unmarshal(op[2], &raw)
						opts, err := parseOpts(raw)
						if err != nil {
							return "error:" + err.Error()
						}
						x := newRestType(n, opts)
						made = append(made, x)
						// the transport the constructor built (eagerly, like the generated init())
						return fmt.Sprintf("made:%d %s", x.Tag(), seenLine(x, x.Client().Transport))
					case "with":
						if n >= len(made) {
							return "no-such-client"
						}
						opts, err := parseOpts(op[2:3])
						if err != nil {
							return "error:" + err.Error()
						}
						made[n].Conf().With(opts...)
						return "ok"
					case "again":
						if n >= len(made) {
							return "no-such-client"
						}
						return "seen " + seenLine(made[n], made[n].Conf().BuildMiddleware())
					}
					return "error:bad-op"
				}()
				fmt.Fprintf(out, "%s impl op%d %s\n", c.ID, i, res)
			}
		})
	}
}
