package main

import (
	"bufio"
	"bytes"
	"encoding/json"
	"fmt"
	"log"
	"net/http"
	"sort"
	"strconv"
	"strings"
	"time"

	"github.com/lopolopen/shoot"
	"github.com/lopolopen/shoot/middleware"
)

type confCase struct {
	ID   string            `json:"id"`
	Opts []json.RawMessage `json:"opts"`
}

// the trace of the round trip currently being observed
var events []string

type logSink struct{}

func (logSink) Write(p []byte) (int, error) {
	if strings.Contains(string(p), "[HTTP]") {
		events = append(events, "L")
	}
	return len(p), nil
}

type baseRT struct{}

// what the base transport answers: "ok" (resp, nil) | "fail" (nil, err) | "both" (resp, err)
var baseMode = "ok"
var baseResp *http.Response
var baseErr error

func (baseRT) RoundTrip(req *http.Request) (*http.Response, error) {
	events = append(events, "B")
	baseResp, baseErr = nil, nil
	if baseMode != "fail" {
		baseResp = &http.Response{StatusCode: 204, Status: "204 No Content", Body: http.NoBody, Header: http.Header{}, Request: req}
	}
	if baseMode != "ok" {
		baseErr = fmt.Errorf("scripted base error")
	}
	return baseResp, baseErr
}

// rtOut: one round trip with the base answering `mode`: which of the base's objects come back
func rtOut(rt http.RoundTripper, mode string) string {
	baseMode = mode
	defer func() { baseMode = "ok" }()
	req, _ := http.NewRequest("GET", "http://verif.invalid/x", nil)
	resp, err := rt.RoundTrip(req)
	rs, es := "nil", "nil"
	if resp != nil {
		rs = "other"
		if resp == baseResp {
			rs = "same"
		}
	}
	if err != nil {
		es = "other"
		if err == baseErr {
			es = "same"
		}
	}
	return "resp=" + rs + " err=" + es
}

var mwCache = map[int]middleware.Middleware{}

// tagging middleware i: records entering and leaving
func tagMW(i int) middleware.Middleware {
	if m, ok := mwCache[i]; ok {
		return m
	}
	m := middleware.Middleware(func(next http.RoundTripper) http.RoundTripper {
		return middleware.RoundTripper(func(req *http.Request) (*http.Response, error) {
			events = append(events, "m"+strconv.Itoa(i)+">")
			resp, err := next.RoundTrip(req)
			events = append(events, "m"+strconv.Itoa(i)+"<")
			return resp, err
		})
	})
	mwCache[i] = m
	return m
}

type rcOpt = shoot.Option[shoot.RestConf, *shoot.RestConf]

func parseOpts(raw []json.RawMessage) ([]rcOpt, error) {
	var opts []rcOpt
	for _, r := range raw {
		var kv []json.RawMessage
		if err := json.Unmarshal(r, &kv); err != nil || len(kv) != 2 {
			return nil, fmt.Errorf("bad option %s", r)
		}
		var kind string
		json.Unmarshal(kv[0], &kind)
		switch kind {
		case "base":
			var s string
			json.Unmarshal(kv[1], &s)
			opts = append(opts, shoot.BaseURL(s))
		case "timeout":
			var s string
			json.Unmarshal(kv[1], &s)
			n, err := strconv.ParseInt(s, 10, 64)
			if err != nil {
				return nil, err
			}
			opts = append(opts, shoot.Timeout(time.Duration(n)))
		case "log":
			var b bool
			json.Unmarshal(kv[1], &b)
			opts = append(opts, shoot.EnableLogging(b))
		case "hdr":
			var m map[string]string // null -> nil map
			json.Unmarshal(kv[1], &m)
			opts = append(opts, shoot.DefaultHeaders(m))
		case "use":
			var i int
			json.Unmarshal(kv[1], &i)
			opts = append(opts, shoot.Use(tagMW(i)))
		default:
			return nil, fmt.Errorf("bad option kind %q", kind)
		}
	}
	return opts, nil
}

func showHeaders(m map[string]string) string {
	if m == nil {
		return "nil"
	}
	var ks []string
	for k := range m {
		ks = append(ks, k)
	}
	sort.Strings(ks)
	var parts []string
	for _, k := range ks {
		parts = append(parts, k+"="+m[k])
	}
	return "{" + strings.Join(parts, ",") + "}"
}

// quote like ShootVerif.Sexp.quoteStr
func sexpQuote(s string) string {
	r := strings.NewReplacer("\\", "\\\\", "\"", "\\\"", "\n", "\\n", "\t", "\\t", "\r", "\\r")
	return "\"" + r.Replace(s) + "\""
}

// confObs: the getters, and one round trip through rt
func confObs(conf *shoot.RestConf, rt http.RoundTripper) [][2]string {
	events = nil
	req, _ := http.NewRequest("GET", "http://verif.invalid/x", nil)
	resp, err := rt.RoundTrip(req)
	tr := strings.Join(events, " ")
	if err != nil || resp == nil {
		tr += " !err"
	}
	var mws []string
	for _, e := range events {
		if strings.HasPrefix(e, "m") && strings.HasSuffix(e, ">") {
			mws = append(mws, e[1:len(e)-1])
		}
	}
	return [][2]string{
		{"base", sexpQuote(conf.BaseURL())},
		{"timeout", strconv.FormatInt(int64(conf.Timeout()), 10)},
		{"logging", strconv.FormatBool(conf.EnableLogging())},
		{"headers", showHeaders(conf.DefaultHeaders())},
		{"mws", "[" + strings.Join(mws, ",") + "]"},
		{"trace", tr},
		{"rt.ok", rtOut(rt, "ok")},
		{"rt.fail", rtOut(rt, "fail")},
		{"rt.both", rtOut(rt, "both")},
	}
}

func confLine(obs [][2]string) string {
	var parts []string
	for _, kv := range obs[:5] {
		parts = append(parts, kv[0]+"="+kv[1])
	}
	return strings.Join(parts, " ")
}

func setupObservation() {
	http.DefaultTransport = baseRT{}
	log.SetOutput(logSink{})
}

func runConf(lines []string, out *bufio.Writer) {
	setupObservation()
	registerType(0, 0)
	for _, ln := range lines {
		var c confCase
		if err := json.Unmarshal([]byte(ln), &c); err != nil {
			fmt.Fprintf(out, "? impl error bad-json\n")
			continue
		}
		guardCase(out, c.ID, "trace", func(out *bytes.Buffer) {
			defer func() {
				if r := recover(); r != nil {
					fmt.Fprintf(out, "%s impl panic %v\n", c.ID, r)
				}
			}()
			opts, err := parseOpts(c.Opts)
			if err != nil {
				fmt.Fprintf(out, "%s impl error %v\n", c.ID, err)
				return
			}
			// NewRest: NewWith(opts…) → registered constructor → instance holding the conf and the client whose
			// transport is conf.BuildMiddleware()
			x := newRestType(0, opts)
			var tr http.RoundTripper
			x.(I0).ConfigHTTPClient(func(hc *http.Client) { tr = hc.Transport })
			for _, kv := range confObs(x.Conf(), tr) {
				fmt.Fprintf(out, "%s impl %s %s\n", c.ID, kv[0], kv[1])
			}
			// the same through the exported pieces directly
			conf := shoot.NewWith(opts...)
			direct := confObs(conf, conf.BuildMiddleware())
			same := "true"
			for i, kv := range confObs(x.Conf(), tr) {
				if direct[i] != kv {
					same = "false:" + kv[0]
				}
			}
			fmt.Fprintf(out, "%s impl direct %s\n", c.ID, same)
			// WHAT the chain is built on: with http.DefaultTransport a plain *http.Transport (as in every program that did not
			// replace it), the innermost `next` must be that very object — "wrap the transport" (C19_init_transport)
			sentinel := &http.Transport{}
			var innermost http.RoundTripper
			capture := middleware.Middleware(func(next http.RoundTripper) http.RoundTripper { innermost = next; return next })
			old := http.DefaultTransport
			http.DefaultTransport = sentinel
			conf2 := shoot.NewWith(append(append([]rcOpt{}, opts...), shoot.Use(capture))...)
			conf2.BuildMiddleware()
			http.DefaultTransport = old
			basert := "default"
			if innermost != http.RoundTripper(sentinel) {
				basert = fmt.Sprintf("other:%T", innermost)
			}
			fmt.Fprintf(out, "%s impl basert %s\n", c.ID, basert)
		})
	}
}
