package main

import (
	"bufio"
	"encoding/json"
	"fmt"
	"net/http"
	"net/url"
	"sort"
	"strconv"
	"strings"
)

// same canonical form as vrest.HeaderString
func headerString(h http.Header) string {
	var ks []string
	for k := range h {
		ks = append(ks, k)
	}
	sort.Strings(ks)
	var parts []string
	for _, k := range ks {
		for _, v := range h[k] {
			parts = append(parts, strconv.Quote(k+": "+v))
		}
	}
	if len(parts) == 0 {
		return "-"
	}
	return strings.Join(parts, ",")
}

// the externals the rest model leaves symbolic (C06)
type extCase struct {
	ID    string      `json:"id"`
	Key   string      `json:"key"`
	Op    string      `json:"op"` // joinpath | encode
	Base  string      `json:"base"`
	Path  string      `json:"path"`
	Pairs [][2]string `json:"pairs"` // query_.Set(k, v) in order, on the (empty) query of the joined URL
}

func runExt(lines []string, out *bufio.Writer) {
	for _, ln := range lines {
		var c extCase
		if err := json.Unmarshal([]byte(ln), &c); err != nil {
			fmt.Fprintf(out, "? ext error bad-json\n")
			continue
		}
		switch c.Op {
		case "joinpath":
			u, err := url.JoinPath(c.Base, c.Path)
			if err != nil {
				fmt.Fprintf(out, "%s ext %s error\n", c.ID, c.Key)
				continue
			}
			// what the request carries: the URL string parsed again by http.NewRequest
			pu, err := url.Parse(u)
			if err != nil {
				fmt.Fprintf(out, "%s ext %s error\n", c.ID, c.Key)
				continue
			}
			q := pu.RawQuery
			pu.RawQuery = ""
			fmt.Fprintf(out, "%s ext %s %s\n", c.ID, c.Key, strconv.Quote(pu.String()))
			fmt.Fprintf(out, "%s ext %s.q %s\n", c.ID, c.Key, strconv.Quote(q))
		case "header":
			h := http.Header{}
			for _, kv := range c.Pairs {
				h.Add(kv[0], kv[1])
			}
			// net/http itself: http.Client turns the userinfo of the request URL into a Basic Authorization header
			// unless the request already carries one
			if bu, err := url.Parse(c.Base); err == nil && bu.User != nil && h.Get("Authorization") == "" {
				pw, _ := bu.User.Password()
				r, _ := http.NewRequest("GET", "http://x.invalid", nil)
				r.SetBasicAuth(bu.User.Username(), pw)
				h.Set("Authorization", r.Header.Get("Authorization"))
			}
			fmt.Fprintf(out, "%s ext %s %s\n", c.ID, c.Key, headerString(h))
		case "encode":
			// `query_ := req_.URL.Query()` starts from the query string the configured base URL already carries
			v := url.Values{}
			if bu, err := url.Parse(c.Base); err == nil && bu.RawQuery != "" {
				if q, err := url.ParseQuery(bu.RawQuery); err == nil {
					v = q
				}
			}
			for _, kv := range c.Pairs {
				v.Set(kv[0], kv[1])
			}
			fmt.Fprintf(out, "%s ext %s %s\n", c.ID, c.Key, strconv.Quote(v.Encode()))
		}
	}
}
