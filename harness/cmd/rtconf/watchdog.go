package main

import (
	"bufio"
	"bytes"
	"fmt"
	"os"
	"time"
)

// Every step that calls into the runtime package runs under a watchdog: a step that does not return within
// stepTimeout is the OBSERVATION `hang` (the properties say what a call returns or that it panics; the model is
// total), never an infrastructure error. A process in which a step hung is abandoned: what it had observed so far
// is flushed, the remaining steps of that case are reported as `notrun`, and the process exits with exitHang so
// that the caller restarts it for the remaining cases.
const stepTimeout = 1 * time.Second
const exitHang = 3

// watch runs f; ok = false when it did not return in time
func watch(f func() string) (res string, ok bool) {
	ch := make(chan string, 1)
	go func() { ch <- f() }()
	select {
	case r := <-ch:
		return r, true
	case <-time.After(stepTimeout):
		return "hang", false
	}
}

// guardCase runs one whole case (which writes its lines into a buffer) under the watchdog; on a hang the case gets
// the single observation `hang <what it had written>` under hangKey and the process is abandoned
func guardCase(out *bufio.Writer, id, hangKey string, body func(w *bytes.Buffer)) {
	var buf bytes.Buffer
	_, ok := watch(func() string { body(&buf); return "" })
	if ok {
		out.Write(buf.Bytes())
		return
	}
	fmt.Fprintf(out, "%s impl %s hang\n", id, hangKey)
	out.Flush()
	os.Exit(exitHang)
}
