// rtconf: in-process observation of shoot's runtime configuration API (C19) and the real
// url.JoinPath / url.Values.Encode applied to the rest model's symbolic requests (C06).
//
//	rtconf conf      one JSON case per line {"id":…, "opts":[[kind, value]…]}: NewRest → RestConf getters, BuildMiddleware trace
//	rtconf confhist  one JSON case per line {"id":…, "ops":[["with",opt] | ["set",opt] | ["build"] | ["copy"]]…}: several steps on ONE RestConf value
//	rtconf registry  one JSON case per line {"id":…, "ops":[["reg",T,K] | ["new",T,opts]]…}: each history runs in a fresh child
//	                 process (the registry is a package-level map that is never emptied)
//	rtconf clients   one JSON case per line {"id":…, "ops":[["new",T,opts] | ["with",j,opt] | ["again",j]]…}: clients that keep their RestConf,
//	                 looked at again (getters, BuildMiddleware + round trip) after further NewRest / With calls
//	rtconf regchild  (internal) one history on stdin
//	rtconf ext       one JSON request per line: apply url.JoinPath / url.Values.Encode
//
// output: `<id> impl <key> <value>` lines.
package main

import (
	"bufio"
	"fmt"
	"io"
	"log"
	"os"
)

func main() {
	log.SetFlags(0)
	log.SetOutput(io.Discard)
	if len(os.Args) < 2 {
		fmt.Fprintln(os.Stderr, "usage: rtconf <conf|registry|regchild|ext>")
		os.Exit(2)
	}
	in := bufio.NewScanner(os.Stdin)
	in.Buffer(make([]byte, 1<<20), 1<<26)
	var lines []string
	for in.Scan() {
		if in.Text() != "" {
			lines = append(lines, in.Text())
		}
	}
	out := bufio.NewWriter(os.Stdout)
	defer out.Flush()
	switch os.Args[1] {
	case "conf":
		runConf(lines, out)
	case "confhist":
		runConfHist(lines, out)
	case "clients":
		runClients(lines, out)
	case "registry":
		runRegistry(lines, out)
	case "regchild":
		runRegChild(lines, out)
	case "ext":
		runExt(lines, out)
	default:
		fmt.Fprintln(os.Stderr, "unknown area", os.Args[1])
		os.Exit(2)
	}
}
