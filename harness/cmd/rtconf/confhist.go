package main

import (
	"bufio"
	"bytes"
	"encoding/json"
	"fmt"
	"net/http"
	"strconv"
	"strings"
	"time"

	"github.com/lopolopen/shoot"
)

type histCase struct {
	ID  string              `json:"id"`
	Ops [][]json.RawMessage `json:"ops"`
}

// setOpt applies one option through the generated SETTER (Use has none)
func setOpt(conf *shoot.RestConf, raw json.RawMessage) error {
	var kv []json.RawMessage
	if err := json.Unmarshal(raw, &kv); err != nil || len(kv) != 2 {
		return fmt.Errorf("bad option %s", raw)
	}
	var kind string
	json.Unmarshal(kv[0], &kind)
	switch kind {
	case "base":
		var s string
		json.Unmarshal(kv[1], &s)
		conf.SetBaseURL(s)
	case "timeout":
		var s string
		json.Unmarshal(kv[1], &s)
		n, err := strconv.ParseInt(s, 10, 64)
		if err != nil {
			return err
		}
		conf.SetTimeout(time.Duration(n))
	case "log":
		var b bool
		json.Unmarshal(kv[1], &b)
		conf.SetEnableLogging(b)
	case "hdr":
		var m map[string]string
		json.Unmarshal(kv[1], &m)
		conf.SetDefaultHeaders(m)
	default:
		return fmt.Errorf("no setter for %q", kind)
	}
	return nil
}

// several steps on ONE RestConf value: With(option) / setter / BuildMiddleware + one round trip / value copy
func runConfHist(lines []string, out *bufio.Writer) {
	setupObservation()
	for _, ln := range lines {
		var c histCase
		if err := json.Unmarshal([]byte(ln), &c); err != nil {
			fmt.Fprintf(out, "? impl error bad-json\n")
			continue
		}
		guardCase(out, c.ID, "b0", func(out *bytes.Buffer) {
			defer func() {
				if r := recover(); r != nil {
					fmt.Fprintf(out, "%s impl panic %v\n", c.ID, r)
				}
			}()
			conf := shoot.NewWith[shoot.RestConf, *shoot.RestConf]()
			nb := 0
			for _, op := range c.Ops {
				var kind string
				json.Unmarshal(op[0], &kind)
				switch kind {
				case "with":
					opts, err := parseOpts(op[1:2])
					if err != nil {
						fmt.Fprintf(out, "%s impl error %v\n", c.ID, err)
						return
					}
					conf.With(opts...)
				case "set":
					if err := setOpt(conf, op[1]); err != nil {
						fmt.Fprintf(out, "%s impl error %v\n", c.ID, err)
						return
					}
				case "copy":
					c2 := *conf
					conf = &c2
				case "build":
					rt := conf.BuildMiddleware()
					events = nil
					req, _ := http.NewRequest("GET", "http://verif.invalid/x", nil)
					resp, err := rt.RoundTrip(req)
					tr := strings.Join(events, " ")
					if err != nil || resp == nil {
						tr += " !err"
					}
					fmt.Fprintf(out, "%s impl b%d %s\n", c.ID, nb, tr)
					nb++
				}
			}
			fmt.Fprintf(out, "%s impl nbuilds %d\n", c.ID, nb)
		})
	}
}
