// declcmp: AST-level description of generated Go files for the C08 / C07 checks.
//
//	declcmp <file.go>...   prints one JSON object per file (one per line):
//
// package, header (first comment group), imports, comment groups with byte offsets, declarations with
// offsets / printed form (with and without comments) / doc comment / inner comments, comment groups that
// belong to no declaration, and the property-level facts of `shoot new` and `shoot map` output
// (constructor parameters, JSON getter/setter calls, accessor interfaces; ToX/FromX plans).
package main

import (
	"bytes"
	"encoding/json"
	"fmt"
	"go/ast"
	"go/parser"
	"go/printer"
	"go/token"
	"os"
	"reflect"
	"strings"
)

type Imp struct {
	Name string `json:"name"`
	Path string `json:"path"`
}
type Cmt struct {
	Pos  int    `json:"pos"`
	End  int    `json:"end"`
	Text string `json:"text"`
}
type Decl struct {
	Imp   bool     `json:"imp"`
	Pos   int      `json:"pos"`
	End   int      `json:"end"`
	Kind  string   `json:"kind"`
	Name  string   `json:"name"`
	Text  string   `json:"text"` // printed without any comment
	Full  string   `json:"full"` // printed with its doc comment and inner comments
	Doc    string   `json:"doc"`
	DocPos int      `json:"docpos"` // offset of the declaration's Doc comment group, -1 if none
	Inner  []string `json:"inner"`
}
type NewFacts struct {
	Params []string `json:"params"`
	JSON   bool     `json:"json"`
	JGet   []string `json:"jget"`
	JSet   []string `json:"jset"`
	JExp   []string `json:"jexp"`
	GI     []string `json:"gi"`
	GL     []string `json:"gl"`
	SI     []string `json:"si"`
	SL     []string `json:"sl"`
	Tags   []string `json:"tags"` // `_json_T` struct: Field=tag
	Opts   []string `json:"opts"` // -opt: option functions (functions returning shoot.Option[T, *T])
	Defs   []string `json:"defs"` // -opt: fields assigned by SetDefault
}
type MapFacts struct {
	ToCtor   []string `json:"toctor"`
	HasTo    bool     `json:"hasto"`
	To       []string `json:"to"`
	FromCtor []string `json:"fromctor"`
	HasFrom  bool     `json:"hasfrom"`
	From     []string `json:"from"`
}
type File struct {
	File     string               `json:"file"`
	Err      string               `json:"err,omitempty"`
	Pkg      string               `json:"pkg"`
	Header   string               `json:"header"`
	Imports  []Imp                `json:"imports"`
	Comments []Cmt                `json:"comments"`
	Decls    []Decl               `json:"decls"`
	Orphans  []string             `json:"orphans"`
	New      map[string]*NewFacts `json:"new"`
	Map      map[string]*MapFacts `json:"map"`
}

func baseType(e ast.Expr) string {
	for {
		switch v := e.(type) {
		case *ast.StarExpr:
			e = v.X
		case *ast.IndexExpr:
			e = v.X
		case *ast.IndexListExpr:
			e = v.X
		case *ast.ParenExpr:
			e = v.X
		case *ast.Ident:
			return v.Name
		case *ast.SelectorExpr:
			return v.Sel.Name
		default:
			return ""
		}
	}
}

func show(fset *token.FileSet, n any) string {
	var b bytes.Buffer
	printer.Fprint(&b, fset, n)
	return b.String()
}

// member read by an expression: x.F -> F, x.F() -> F(), conv(x.F) -> F, literal -> "0"
func member(e ast.Expr) string {
	switch v := e.(type) {
	case *ast.SelectorExpr:
		return v.Sel.Name
	case *ast.CallExpr:
		if s, ok := v.Fun.(*ast.SelectorExpr); ok && len(v.Args) == 0 {
			return s.Sel.Name + "()"
		}
		if len(v.Args) == 1 {
			return member(v.Args[0])
		}
		return "?"
	case *ast.BasicLit, *ast.CompositeLit:
		return "0"
	case *ast.Ident:
		if v.Name == "nil" || v.Name == "false" || v.Name == "true" {
			return "0"
		}
		return v.Name
	case *ast.ParenExpr:
		return member(v.X)
	case *ast.StarExpr:
		return member(v.X)
	case *ast.UnaryExpr:
		return member(v.X)
	}
	return "?"
}

func nf(m map[string]*NewFacts, t string) *NewFacts {
	if m[t] == nil {
		m[t] = &NewFacts{Params: []string{}, JGet: []string{}, JSet: []string{}, JExp: []string{}, GI: []string{}, GL: []string{}, SI: []string{}, SL: []string{},
			Tags: []string{}, Opts: []string{}, Defs: []string{}}
	}
	return m[t]
}
func mf(m map[string]*MapFacts, t string) *MapFacts {
	if m[t] == nil {
		m[t] = &MapFacts{ToCtor: []string{}, To: []string{}, FromCtor: []string{}, From: []string{}}
	}
	return m[t]
}

func planOf(body *ast.BlockStmt, target string) (ctor []string, hasCtor bool, writes []string) {
	ctor, writes = []string{}, []string{}
	for _, st := range body.List {
		switch v := st.(type) {
		case *ast.AssignStmt:
			if v.Tok == token.DEFINE && len(v.Rhs) == 1 {
				if call, ok := v.Rhs[0].(*ast.CallExpr); ok {
					fn := ""
					switch f := call.Fun.(type) {
					case *ast.SelectorExpr:
						fn = f.Sel.Name
					case *ast.Ident:
						fn = f.Name
					case *ast.IndexExpr:
						fn = baseType(f)
					}
					if strings.HasPrefix(fn, "New") {
						hasCtor = true
						for _, a := range call.Args {
							ctor = append(ctor, member(a))
						}
					}
				}
				continue
			}
			if v.Tok == token.ASSIGN && len(v.Lhs) == 1 && len(v.Rhs) == 1 {
				if s, ok := v.Lhs[0].(*ast.SelectorExpr); ok {
					if id, ok := s.X.(*ast.Ident); ok && id.Name == target {
						writes = append(writes, s.Sel.Name+"="+member(v.Rhs[0]))
					}
				}
			}
		case *ast.ExprStmt:
			if call, ok := v.X.(*ast.CallExpr); ok {
				if s, ok := call.Fun.(*ast.SelectorExpr); ok && len(call.Args) == 1 {
					if id, ok := s.X.(*ast.Ident); ok && id.Name == target {
						writes = append(writes, s.Sel.Name+"="+member(call.Args[0]))
					}
				}
			}
		}
	}
	return
}

func describe(path string) *File {
	out := &File{File: path, Imports: []Imp{}, Comments: []Cmt{}, Decls: []Decl{}, Orphans: []string{}, New: map[string]*NewFacts{}, Map: map[string]*MapFacts{}}
	src, err := os.ReadFile(path)
	if err != nil {
		out.Err = err.Error()
		return out
	}
	fset := token.NewFileSet()
	f, err := parser.ParseFile(fset, path, src, parser.ParseComments)
	if err != nil {
		out.Err = err.Error()
		return out
	}
	fset0 := token.NewFileSet()
	f0, err := parser.ParseFile(fset0, path, src, 0) // no comments: printed form without any comment
	if err != nil || len(f0.Decls) != len(f.Decls) {
		out.Err = "reparse mismatch"
		return out
	}
	off := func(p token.Pos) int { return fset.Position(p).Offset }
	out.Pkg = f.Name.Name
	if len(f.Comments) > 0 && f.Comments[0].End() < f.Package {
		out.Header = strings.TrimSpace(f.Comments[0].Text())
	}
	for _, im := range f.Imports {
		n := ""
		if im.Name != nil {
			n = im.Name.Name
		}
		out.Imports = append(out.Imports, Imp{n, im.Path.Value})
	}
	owned := map[*ast.CommentGroup]bool{}
	for i, d := range f.Decls {
		dd := Decl{Pos: off(d.Pos()), End: off(d.End()), Inner: []string{}, DocPos: -1}
		var doc *ast.CommentGroup
		switch v := d.(type) {
		case *ast.GenDecl:
			dd.Imp = v.Tok == token.IMPORT
			dd.Kind = v.Tok.String()
			doc = v.Doc
			if len(v.Specs) > 0 {
				switch sp := v.Specs[0].(type) {
				case *ast.TypeSpec:
					dd.Name = sp.Name.Name
				case *ast.ValueSpec:
					dd.Name = sp.Names[0].Name
				}
			}
		case *ast.FuncDecl:
			dd.Kind = "func"
			dd.Name = v.Name.Name
			if v.Recv != nil && len(v.Recv.List) > 0 {
				dd.Name = baseType(v.Recv.List[0].Type) + "." + v.Name.Name
			}
			doc = v.Doc
		}
		if doc != nil {
			dd.Doc = strings.TrimSpace(doc.Text())
			dd.DocPos = off(doc.Pos())
			owned[doc] = true
		}
		for _, cg := range f.Comments {
			if cg.Pos() >= d.Pos() && cg.Pos() <= d.End() {
				dd.Inner = append(dd.Inner, strings.TrimSpace(cg.Text()))
				owned[cg] = true
			}
		}
		dd.Text = show(fset0, f0.Decls[i])
		dd.Full = show(fset, &printer.CommentedNode{Node: d, Comments: f.Comments})
		out.Decls = append(out.Decls, dd)
	}
	for i, cg := range f.Comments {
		out.Comments = append(out.Comments, Cmt{off(cg.Pos()), off(cg.End()), strings.TrimSpace(cg.Text())})
		if !owned[cg] && !(i == 0 && cg.End() < f.Package) {
			out.Orphans = append(out.Orphans, strings.TrimSpace(cg.Text()))
		}
	}
	// ---- facts ----
	for _, d := range f.Decls {
		switch v := d.(type) {
		case *ast.FuncDecl:
			if v.Recv == nil {
				if v.Type.Results != nil && len(v.Type.Results.List) == 1 {
					// shoot.Option[T, *T] / Option[T, *T]
					if il, ok := v.Type.Results.List[0].Type.(*ast.IndexListExpr); ok && baseType(il.X) == "Option" && len(il.Indices) == 2 {
						x := nf(out.New, baseType(il.Indices[0]))
						x.Opts = append(x.Opts, v.Name.Name)
					}
				}
				if strings.HasPrefix(v.Name.Name, "New") && v.Type.Results != nil && len(v.Type.Results.List) == 1 {
					t := baseType(v.Type.Results.List[0].Type)
					if "New"+t == v.Name.Name {
						x := nf(out.New, t)
						for _, p := range v.Type.Params.List {
							for _, n := range p.Names {
								x.Params = append(x.Params, n.Name)
							}
						}
					}
				}
				continue
			}
			if len(v.Recv.List) == 0 || v.Body == nil {
				continue
			}
			t := baseType(v.Recv.List[0].Type)
			recv := ""
			if len(v.Recv.List[0].Names) > 0 {
				recv = v.Recv.List[0].Names[0].Name
			}
			switch {
			case v.Name.Name == "SetDefault":
				x := nf(out.New, t)
				for _, st := range v.Body.List {
					if a, ok := st.(*ast.AssignStmt); ok && len(a.Lhs) == 1 {
						if sel, ok := a.Lhs[0].(*ast.SelectorExpr); ok {
							x.Defs = append(x.Defs, sel.Sel.Name)
						}
					}
				}
			case v.Name.Name == "MarshalJSON":
				// fields read through a getter (jget) / directly (jexp): keys of the `_json_T{…}` literal and the guarded
				// `data.X = …` assignments for members promoted through an embedded pointer
				x := nf(out.New, t)
				add := func(val ast.Expr) {
					if c, ok := val.(*ast.CallExpr); ok {
						x.JGet = append(x.JGet, strings.TrimSuffix(member(c), "()"))
					} else {
						x.JExp = append(x.JExp, member(val))
					}
				}
				dataVar := ""
				ast.Inspect(v.Body, func(n ast.Node) bool {
					switch w := n.(type) {
					case *ast.AssignStmt:
						if len(w.Lhs) == 1 && len(w.Rhs) == 1 {
							if cl, ok := w.Rhs[0].(*ast.CompositeLit); ok && strings.HasPrefix(baseType(cl.Type), "_json_") {
								if id, ok := w.Lhs[0].(*ast.Ident); ok {
									dataVar = id.Name
								}
							}
							if sel, ok := w.Lhs[0].(*ast.SelectorExpr); ok && dataVar != "" {
								if id, ok := sel.X.(*ast.Ident); ok && id.Name == dataVar {
									add(w.Rhs[0])
								}
							}
						}
					case *ast.CompositeLit:
						if !strings.HasPrefix(baseType(w.Type), "_json_") {
							return true
						}
						x.JSON = true
						for _, e := range w.Elts {
							if kv, ok := e.(*ast.KeyValueExpr); ok {
								add(kv.Value)
							}
						}
						return false
					}
					return true
				})
			case v.Name.Name == "UnmarshalJSON":
				// fields written through a setter, anywhere in the body (promoted setters sit behind a nil guard)
				x := nf(out.New, t)
				ast.Inspect(v.Body, func(n ast.Node) bool {
					if c, ok := n.(*ast.CallExpr); ok {
						if s, ok := c.Fun.(*ast.SelectorExpr); ok && strings.HasPrefix(s.Sel.Name, "Set") {
							if id, ok := s.X.(*ast.Ident); ok && id.Name == recv {
								x.JSet = append(x.JSet, s.Sel.Name)
							}
						}
					}
					return true
				})
			case strings.HasPrefix(v.Name.Name, "To") && v.Type.Params.NumFields() == 0 && v.Type.Results.NumFields() == 1:
				x := mf(out.Map, t)
				x.HasTo = true
				target := ""
				for _, st := range v.Body.List {
					if a, ok := st.(*ast.AssignStmt); ok && a.Tok == token.DEFINE && len(a.Lhs) == 1 {
						if id, ok := a.Lhs[0].(*ast.Ident); ok && strings.HasSuffix(id.Name, "_") && !strings.HasPrefix(id.Name, "_") {
							target = id.Name
							break
						}
					}
				}
				var has bool
				x.ToCtor, has, x.To = planOf(v.Body, target)
				if !has {
					x.ToCtor = nil
				}
			case strings.HasPrefix(v.Name.Name, "From") && v.Type.Params.NumFields() == 1 && v.Type.Results.NumFields() == 1:
				x := mf(out.Map, t)
				x.HasFrom = true
				var has bool
				x.FromCtor, has, x.From = planOf(v.Body, recv)
				if !has {
					x.FromCtor = nil
				}
			}
		case *ast.GenDecl:
			if v.Tok != token.TYPE {
				continue
			}
			for _, sp := range v.Specs {
				ts := sp.(*ast.TypeSpec)
				if stt, ok := ts.Type.(*ast.StructType); ok && strings.HasPrefix(ts.Name.Name, "_json_") {
					x := nf(out.New, strings.TrimPrefix(ts.Name.Name, "_json_"))
					for _, fl := range stt.Fields.List {
						tag := ""
						if fl.Tag != nil {
							tag = reflect.StructTag(strings.Trim(fl.Tag.Value, "`")).Get("json")
						}
						for _, n := range fl.Names {
							x.Tags = append(x.Tags, n.Name+"="+tag)
						}
					}
					continue
				}
				it, ok := ts.Type.(*ast.InterfaceType)
				if !ok {
					continue
				}
				name := ts.Name.Name
				var t string
				var get bool
				switch {
				case strings.HasSuffix(name, "Getter"):
					t, get = strings.TrimSuffix(name, "Getter"), true
				case strings.HasSuffix(name, "Setter"):
					t = strings.TrimSuffix(name, "Setter")
				default:
					continue
				}
				x := nf(out.New, t)
				for _, m := range it.Methods.List {
					if len(m.Names) == 0 {
						if get {
							x.GI = append(x.GI, baseType(m.Type))
						} else {
							x.SI = append(x.SI, baseType(m.Type))
						}
						continue
					}
					for _, n := range m.Names {
						if get {
							x.GL = append(x.GL, n.Name)
						} else {
							x.SL = append(x.SL, n.Name)
						}
					}
				}
			}
		}
	}
	return out
}

func main() {
	enc := json.NewEncoder(os.Stdout)
	enc.SetEscapeHTML(false)
	for _, p := range os.Args[1:] {
		if err := enc.Encode(describe(p)); err != nil {
			fmt.Fprintln(os.Stderr, err)
			os.Exit(1)
		}
	}
}
