// mapconv: go/types facts for the struct-mapper palette (C05/C09/C15).
// stdin: JSON {"dest": "<source of package dest>", "src": "<source of package src (may import \"m/dest\")>",
//              "types": ["int", "dest.Kind", "[]*Sub", ...]}   (types spelled as inside package src)
// stdout: JSON {"rel": [[...]]} with rel[i][j] = "s" (types.Identical), "c" (types.ConvertibleTo i -> j) or "-".
package main

import (
	"encoding/json"
	"fmt"
	"go/ast"
	"go/importer"
	"go/parser"
	"go/token"
	"go/types"
	"os"
	"strings"
)

type in struct {
	Dest  string   `json:"dest"`
	Src   string   `json:"src"`
	Types []string `json:"types"`
}

type imp struct {
	dest *types.Package
	def  types.Importer
}

func (i imp) Import(path string) (*types.Package, error) {
	if path == "m/dest" {
		return i.dest, nil
	}
	return i.def.Import(path)
}

func check(fset *token.FileSet, path, src string, im types.Importer) (*types.Package, error) {
	f, err := parser.ParseFile(fset, path+".go", src, 0)
	if err != nil {
		return nil, err
	}
	conf := types.Config{Importer: im}
	return conf.Check(path, fset, []*ast.File{f}, nil)
}

func main() {
	var x in
	if err := json.NewDecoder(os.Stdin).Decode(&x); err != nil {
		fmt.Fprintln(os.Stderr, err)
		os.Exit(2)
	}
	fset := token.NewFileSet()
	def := importer.Default()
	dest, err := check(fset, "m/dest", x.Dest, def)
	if err != nil {
		fmt.Fprintln(os.Stderr, "dest:", err)
		os.Exit(2)
	}
	var b strings.Builder
	b.WriteString(x.Src)
	b.WriteString("\n")
	for i, t := range x.Types {
		fmt.Fprintf(&b, "var V%d %s\n", i, t)
	}
	src, err := check(fset, "m/src", b.String(), imp{dest, def})
	if err != nil {
		fmt.Fprintln(os.Stderr, "src:", err)
		os.Exit(2)
	}
	ts := make([]types.Type, len(x.Types))
	for i := range x.Types {
		ts[i] = src.Scope().Lookup(fmt.Sprintf("V%d", i)).Type()
	}
	rel := make([][]string, len(ts))
	for i := range ts {
		rel[i] = make([]string, len(ts))
		for j := range ts {
			switch {
			case types.Identical(ts[i], ts[j]):
				rel[i][j] = "s"
			case types.ConvertibleTo(ts[i], ts[j]):
				rel[i][j] = "c"
			default:
				rel[i][j] = "-"
			}
		}
	}
	json.NewEncoder(os.Stdout).Encode(map[string]any{"rel": rel})
}
