// clix: in-process differential legs for the command-line driver area (C16, C17).
//
//	clix clean    stdin: one JSON object per line {"id","cmd","aio","files":[[name,content],…]}
//	              the files are created in a fresh directory, shoot.VerifClean (the real Clean: filepath.Glob with the real
//	              pattern, the real first-line recognisers) is run, stdout: `<id> impl removed <names…>` / `<id> impl error <msg>`
//	clix cmdline  stdin: {"id","doc","cmdline"}    stdout: `<id> impl match true|false`   (the real findCmdLine)
package main

import (
	"bufio"
	"encoding/json"
	"fmt"
	"os"
	"path/filepath"
	"sort"
	"strings"

	"github.com/lopolopen/shoot/internal/shoot"
)

type cleanCase struct {
	ID    string      `json:"id"`
	Cmd   string      `json:"cmd"`
	Aio   string      `json:"aio"`
	Files [][2]string `json:"files"`
}

type lineCase struct {
	ID      string `json:"id"`
	Doc     string `json:"doc"`
	Cmdline string `json:"cmdline"`
}

func main() {
	if len(os.Args) < 2 {
		fmt.Fprintln(os.Stderr, "usage: clix clean|cmdline")
		os.Exit(2)
	}
	in := bufio.NewScanner(os.Stdin)
	in.Buffer(make([]byte, 1<<20), 1<<26)
	out := bufio.NewWriter(os.Stdout)
	defer out.Flush()
	switch os.Args[1] {
	case "clean":
		base, err := os.MkdirTemp("", "clix-")
		if err != nil {
			fmt.Fprintln(os.Stderr, err)
			os.Exit(2)
		}
		defer os.RemoveAll(base)
		n := 0
		for in.Scan() {
			var c cleanCase
			if err := json.Unmarshal(in.Bytes(), &c); err != nil {
				fmt.Fprintln(os.Stderr, "bad case:", err)
				os.Exit(2)
			}
			n++
			dir := filepath.Join(base, fmt.Sprintf("d%d", n))
			if err := os.Mkdir(dir, 0o755); err != nil {
				fmt.Fprintln(os.Stderr, err)
				os.Exit(2)
			}
			for _, f := range c.Files {
				if err := os.WriteFile(filepath.Join(dir, f[0]), []byte(f[1]), 0o644); err != nil {
					fmt.Fprintln(os.Stderr, err)
					os.Exit(2)
				}
			}
			if err := shoot.VerifClean(dir, c.Cmd, c.Aio); err != nil {
				fmt.Fprintf(out, "%s impl error %s\n", c.ID, strings.ReplaceAll(err.Error(), "\n", " "))
			}
			var removed []string
			for _, f := range c.Files {
				if _, err := os.Lstat(filepath.Join(dir, f[0])); err != nil {
					removed = append(removed, f[0])
				}
			}
			sort.Strings(removed)
			fmt.Fprintf(out, "%s impl removed %s\n", c.ID, strings.Join(removed, " "))
			os.RemoveAll(dir)
		}
	case "cmdline":
		for in.Scan() {
			var c lineCase
			if err := json.Unmarshal(in.Bytes(), &c); err != nil {
				fmt.Fprintln(os.Stderr, "bad case:", err)
				os.Exit(2)
			}
			fmt.Fprintf(out, "%s impl match %v\n", c.ID, shoot.VerifFindCmdLine(c.Doc, c.Cmdline))
		}
	default:
		fmt.Fprintln(os.Stderr, "unknown mode")
		os.Exit(2)
	}
}
