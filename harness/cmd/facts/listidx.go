package main

// listIndexSites: every index expression `X.List[i]` on a go/ast field list (parameters, results, receivers, struct fields) in
// cmd/ and internal/ whose index is COMPUTED (not an integer literal), with the enclosing function, the index text and every
// right-hand side assigned to the identifiers of the index inside that function. Used by C18: a computed index into a spec list is
// where "counted the values, indexed the specs" slips in; the theorem pins the set and requires each index variable to be
// defined from len() of the very list it indexes.

import (
	"bytes"
	"fmt"
	"go/ast"
	"go/printer"
	"go/token"
	"sort"
	"strings"
)

type listIdxSite struct {
	pkg, fn, list, idx string
	defs               []string
}

func nodeText(fset *token.FileSet, n ast.Node) string {
	var b bytes.Buffer
	printer.Fprint(&b, fset, n)
	return strings.Join(strings.Fields(b.String()), " ")
}

func collectListIdx(t *srcTree) []listIdxSite {
	var out []listIdxSite
	for _, fn := range t.funcs {
		ast.Inspect(fn.decl.Body, func(n ast.Node) bool {
			ix, ok := n.(*ast.IndexExpr)
			if !ok {
				return true
			}
			sel, ok := ix.X.(*ast.SelectorExpr)
			if !ok || sel.Sel.Name != "List" {
				return true
			}
			if _, lit := ix.Index.(*ast.BasicLit); lit {
				return true
			}
			// identifiers of the index and everything assigned to them in this function
			ids := map[string]bool{}
			ast.Inspect(ix.Index, func(m ast.Node) bool {
				if id, ok := m.(*ast.Ident); ok {
					ids[id.Name] = true
				}
				return true
			})
			defs := map[string]bool{}
			ast.Inspect(fn.decl.Body, func(m ast.Node) bool {
				switch st := m.(type) {
				case *ast.AssignStmt:
					for i, l := range st.Lhs {
						if id, ok := l.(*ast.Ident); ok && ids[id.Name] && i < len(st.Rhs) {
							defs[id.Name+" "+st.Tok.String()+" "+nodeText(t.fset, st.Rhs[i])] = true
						}
					}
				case *ast.RangeStmt:
					for _, l := range []ast.Expr{st.Key, st.Value} {
						if id, ok := l.(*ast.Ident); ok && ids[id.Name] {
							defs[id.Name+" := range "+nodeText(t.fset, st.X)] = true
						}
					}
				case *ast.IncDecStmt:
					if id, ok := st.X.(*ast.Ident); ok && ids[id.Name] {
						defs[id.Name+st.Tok.String()] = true
					}
				}
				return true
			})
			var ds []string
			for d := range defs {
				ds = append(ds, d)
			}
			sort.Strings(ds)
			out = append(out, listIdxSite{fn.f.pkg, fn.name, nodeText(t.fset, ix.X), nodeText(t.fset, ix.Index), ds})
			return true
		})
	}
	sort.SliceStable(out, func(i, j int) bool {
		a, b := out[i], out[j]
		if a.pkg != b.pkg {
			return a.pkg < b.pkg
		}
		if a.fn != b.fn {
			return a.fn < b.fn
		}
		return a.idx < b.idx
	})
	return out
}

func emitListIdx(t *srcTree) {
	sites := collectListIdx(t)
	fmt.Println("/-- every `X.List[i]` with a computed index (package, enclosing function, list, index, assignments to the index's identifiers) -/")
	fmt.Println("def listIndexSites : List (String × String × String × String × List String) := [")
	for i, s := range sites {
		sep := ","
		if i == len(sites)-1 {
			sep = ""
		}
		var ds []string
		for _, d := range s.defs {
			ds = append(ds, leanStr(d))
		}
		fmt.Printf("  (%s, %s, %s, %s, [%s])%s\n", leanStr(s.pkg), leanStr(s.fn), leanStr(s.list), leanStr(s.idx), strings.Join(ds, ", "), sep)
	}
	fmt.Println("]")
}
