package main

// listIndexSites: every index expression `X.List[i]` on a go/ast field list (parameters, results, receivers, struct fields) in
// cmd/ and internal/ whose index is COMPUTED (not an integer literal), with the enclosing function, the index text and every
// right-hand side assigned to the identifiers of the index inside that function. Used by C18: a computed index into a spec list is
// where "counted the values, indexed the specs" slips in; the theorem pins the set and requires each index variable to be
// defined from len() of the very list it indexes.

import (
	"bytes"
	"fmt"
	"go/ast"
	"go/printer"
	"go/token"
	"sort"
	"strings"
)

type listIdxSite struct {
	pkg, fn, list, idx string
	defs               []string
}

func nodeText(fset *token.FileSet, n ast.Node) string {
	var b bytes.Buffer
	printer.Fprint(&b, fset, n)
	return strings.Join(strings.Fields(b.String()), " ")
}

func collectListIdx(t *srcTree) []listIdxSite {
	var out []listIdxSite
	for _, fn := range t.funcs {
		ast.Inspect(fn.decl.Body, func(n ast.Node) bool {
			ix, ok := n.(*ast.IndexExpr)
			if !ok {
				return true
			}
			sel, ok := ix.X.(*ast.SelectorExpr)
			if !ok || sel.Sel.Name != "List" {
				return true
			}
			if _, lit := ix.Index.(*ast.BasicLit); lit {
				return true
			}
			// identifiers of the index and everything assigned to them in this function
			ids := map[string]bool{}
			ast.Inspect(ix.Index, func(m ast.Node) bool {
				if id, ok := m.(*ast.Ident); ok {
					ids[id.Name] = true
				}
				return true
			})
			defs := map[string]bool{}
			ast.Inspect(fn.decl.Body, func(m ast.Node) bool {
				switch st := m.(type) {
				case *ast.AssignStmt:
					for i, l := range st.Lhs {
						if id, ok := l.(*ast.Ident); ok && ids[id.Name] && i < len(st.Rhs) {
							defs[id.Name+" "+st.Tok.String()+" "+nodeText(t.fset, st.Rhs[i])] = true
						}
					}
				case *ast.RangeStmt:
					for _, l := range []ast.Expr{st.Key, st.Value} {
						if id, ok := l.(*ast.Ident); ok && ids[id.Name] {
							defs[id.Name+" := range "+nodeText(t.fset, st.X)] = true
						}
					}
				case *ast.IncDecStmt:
					if id, ok := st.X.(*ast.Ident); ok && ids[id.Name] {
						defs[id.Name+st.Tok.String()] = true
					}
				}
				return true
			})
			var ds []string
			for d := range defs {
				ds = append(ds, d)
			}
			sort.Strings(ds)
			out = append(out, listIdxSite{fn.f.pkg, fn.name, nodeText(t.fset, ix.X), nodeText(t.fset, ix.Index), ds})
			return true
		})
	}
	sort.SliceStable(out, func(i, j int) bool {
		a, b := out[i], out[j]
		if a.pkg != b.pkg {
			return a.pkg < b.pkg
		}
		if a.fn != b.fn {
			return a.fn < b.fn
		}
		return a.idx < b.idx
	})
	return out
}

func emitListIdx(t *srcTree) {
	sites := collectListIdx(t)
	fmt.Println("/-- every `X.List[i]` with a computed index (package, enclosing function, list, index, assignments to the index's identifiers) -/")
	fmt.Println("def listIndexSites : List (String × String × String × String × List String) := [")
	for i, s := range sites {
		sep := ","
		if i == len(sites)-1 {
			sep = ""
		}
		var ds []string
		for _, d := range s.defs {
			ds = append(ds, leanStr(d))
		}
		fmt.Printf("  (%s, %s, %s, %s, [%s])%s\n", leanStr(s.pkg), leanStr(s.fn), leanStr(s.list), leanStr(s.idx), strings.Join(ds, ", "), sep)
	}
	fmt.Println("]")
}

// astIndexSites: every index expression with a LITERAL index into a slice-valued FIELD (`.Names[0]`, `.List[0]`, `.GoFiles[0]`, ...)
// in cmd/ and internal/, with the enclosing function and the `len(...)` tests of that function that speak about a slice of the
// same field name. Used by C18: the theorem pins, per site, the guards the function has - a site that loses its guard (or a new
// unguarded site) breaks it. (`p.Names[0]` on a parameter declared without a name and `recv.Names[0]` on an unnamed receiver were
// runtime panics found by the damaged-input runs.)
var astSliceFields = map[string]bool{"Names": true, "List": true, "Args": true, "Values": true, "Specs": true, "Lhs": true, "Rhs": true,
	"Elts": true, "Decls": true, "Fields": true, "Results": true, "Params": true, "Methods": true, "Comments": true}

func emitAstIndex(t *srcTree) {
	type site struct {
		pkg, fn, x, idx string
		guards          []string
	}
	var sites []site
	for _, fn := range t.funcs {
		// len(E) tests of the function, by the last selector of E
		lens := map[string]map[string]bool{}
		ast.Inspect(fn.decl.Body, func(n ast.Node) bool {
			call, ok := n.(*ast.CallExpr)
			if !ok || len(call.Args) != 1 {
				return true
			}
			if id, ok := call.Fun.(*ast.Ident); !ok || id.Name != "len" {
				return true
			}
			if sel, ok := call.Args[0].(*ast.SelectorExpr); ok {
				if lens[sel.Sel.Name] == nil {
					lens[sel.Sel.Name] = map[string]bool{}
				}
				lens[sel.Sel.Name][nodeText(t.fset, call.Args[0])] = true
			}
			return true
		})
		ast.Inspect(fn.decl.Body, func(n ast.Node) bool {
			ix, ok := n.(*ast.IndexExpr)
			if !ok {
				return true
			}
			sel, ok := ix.X.(*ast.SelectorExpr)
			if !ok {
				return true
			}
			lit, ok := ix.Index.(*ast.BasicLit)
			if !ok || lit.Kind != token.INT {
				return true
			}
			var gs []string
			for g := range lens[sel.Sel.Name] {
				gs = append(gs, g)
			}
			sort.Strings(gs)
			sites = append(sites, site{fn.f.pkg, fn.name, nodeText(t.fset, ix.X), lit.Value, gs})
			return true
		})
	}
	sort.SliceStable(sites, func(i, j int) bool {
		a, b := sites[i], sites[j]
		if a.pkg != b.pkg {
			return a.pkg < b.pkg
		}
		if a.fn != b.fn {
			return a.fn < b.fn
		}
		return a.x < b.x
	})
	fmt.Println("/-- every literal index into a slice of a go/ast node (package, function, slice, index, the function's len() tests on a slice of that field name) -/")
	fmt.Println("def astIndexSites : List (String × String × String × String × List String) := [")
	for i, s := range sites {
		sep := ","
		if i == len(sites)-1 {
			sep = ""
		}
		var gs []string
		for _, g := range s.guards {
			gs = append(gs, leanStr(g))
		}
		fmt.Printf("  (%s, %s, %s, %s, [%s])%s\n", leanStr(s.pkg), leanStr(s.fn), leanStr(s.x), leanStr(s.idx), strings.Join(gs, ", "), sep)
	}
	fmt.Println("]")
}
