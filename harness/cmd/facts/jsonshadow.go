package main

// jsonShadowRefs: every place where constructor.tmpl spells the name of a field OF THE SHADOW STRUCT `_json_T` (the struct
// declaration itself, the keys of the composite literal in MarshalJSON, `data.<field>` assignments, `<recv>_.<field>`
// reads in UnmarshalJSON), with the template action that produces the spelling. The shadow struct declares its fields as
// `{{pascalCase .}}`; every reference must use the same action, whatever list it ranges over (bf10dd1: the references made
// from the exported-field list used the field's own name).

import (
	"fmt"
	"os"
	"path/filepath"
	"regexp"
	"strings"
)

func emitJSONShadow(repo string) {
	b, err := os.ReadFile(filepath.Join(repo, "internal", "constructor", "constructor.tmpl"))
	if err != nil {
		fmt.Fprintln(os.Stderr, "facts: ", err)
		os.Exit(1)
	}
	src := string(b)
	start := strings.Index(src, "type {{$Marshal}} struct")
	end := strings.Index(src, "{{if .GetSet -}}")
	if start < 0 {
		start = 0
	}
	if end < start {
		end = len(src)
	}
	sec := src[start:end]
	type ref struct{ ctx, action string }
	var refs []ref
	act := `(\{\{[^{}]*\}\})`
	for _, pat := range []struct{ ctx, re string }{
		{"decl", `(?m)^\s*` + act + `\s+\{\{index \$\.TypeMap \.\}\}`},
		{"literal-key", `(?m)^\s*` + act + `:\s*\{\{\$this\}\}\.`},
		{"data-field", `data\.` + act + `\s*=`},
		{"decoded-field", `\{\{camelCase \$\.TypeName\}\}_\.` + act},
	} {
		for _, m := range regexp.MustCompile(pat.re).FindAllStringSubmatch(sec, -1) {
			refs = append(refs, ref{pat.ctx, m[1]})
		}
	}
	fmt.Println("\n/-- constructor.tmpl: (context, template action) of every spelling of a field of the shadow struct `_json_T` -/")
	fmt.Println("def jsonShadowRefs : List (String × String) := [")
	for i, r := range refs {
		sep := ","
		if i == len(refs)-1 {
			sep = ""
		}
		fmt.Printf("  (%s, %s)%s\n", leanStr(r.ctx), leanStr(r.action), sep)
	}
	fmt.Println("]")
}
