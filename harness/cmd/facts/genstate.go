package main

// genStateFields / genStateWrites: the long-lived generator state, regenerated from the CURRENT source.
//
//   genStateFields : every field of every `Generator` struct in internal/* plus shoot.GeneratorBase
//                    (package dir, struct, field, printed type)
//   genStateWrites : every assignment `<recv>.<field> = …` / `<recv>.<field> op= …` to such a field inside a method
//                    of that struct (package dir, method, field, kind) with kind
//                      "set"    – plain `=` whose right-hand side does not mention the field
//                      "update" – the right-hand side detMentions the field (append(g.f, …), g.f || x, …) or op=
//                    and every `&<recv>.<field>` (kind "addr": the field is handed to a callee that may reset it).
//
// Used by ShootVerif/Props/C08.lean: every field must be classified (config / reset / derived / carried) and the
// classification must agree with where the field is written.

import (
	"bytes"
	"fmt"
	"go/ast"
	"go/parser"
	"go/printer"
	"go/token"
	"os"
	"path/filepath"
	"sort"
	"strings"
)

type gsField struct{ pkg, strct, field, typ string }
type gsWrite struct{ pkg, fn, field, kind string }

func detLeanStr(s string) string {
	var b strings.Builder
	b.WriteByte('"')
	for _, r := range s {
		switch r {
		case '"':
			b.WriteString("\\\"")
		case '\\':
			b.WriteString("\\\\")
		case '\n':
			b.WriteString("\\n")
		case '\t':
			b.WriteString("\\t")
		default:
			b.WriteRune(r)
		}
	}
	b.WriteByte('"')
	return b.String()
}

func detExprText(fset *token.FileSet, e ast.Node) string {
	var b bytes.Buffer
	printer.Fprint(&b, fset, e)
	return strings.Join(strings.Fields(b.String()), " ")
}

func detMentions(e ast.Expr, recv, field string) bool {
	found := false
	ast.Inspect(e, func(n ast.Node) bool {
		if s, ok := n.(*ast.SelectorExpr); ok {
			if id, ok := s.X.(*ast.Ident); ok && id.Name == recv && s.Sel.Name == field {
				found = true
			}
		}
		return !found
	})
	return found
}

func detIsStateStruct(name string) bool { return name == "Generator" || name == "GeneratorBase" }

func emitGenState(repo string) {
	dirs, _ := filepath.Glob(filepath.Join(repo, "internal", "*"))
	sort.Strings(dirs)
	var fields []gsField
	var writes []gsWrite
	for _, d := range dirs {
		st, err := os.Stat(d)
		if err != nil || !st.IsDir() {
			continue
		}
		rel, _ := filepath.Rel(repo, d)
		fset := token.NewFileSet()
		pkgs, err := parser.ParseDir(fset, d, func(fi os.FileInfo) bool { return !strings.HasSuffix(fi.Name(), "_test.go") }, 0)
		if err != nil {
			fmt.Fprintln(os.Stderr, "facts: genstate:", err)
			os.Exit(1)
		}
		var files []*ast.File
		for _, p := range pkgs {
			var names []string
			for n := range p.Files {
				names = append(names, n)
			}
			sort.Strings(names)
			for _, n := range names {
				files = append(files, p.Files[n])
			}
		}
		own := map[string]map[string]bool{} // struct -> field set
		for _, f := range files {
			for _, decl := range f.Decls {
				gd, ok := decl.(*ast.GenDecl)
				if !ok || gd.Tok != token.TYPE {
					continue
				}
				for _, sp := range gd.Specs {
					ts := sp.(*ast.TypeSpec)
					stt, ok := ts.Type.(*ast.StructType)
					if !ok || !detIsStateStruct(ts.Name.Name) {
						continue
					}
					own[ts.Name.Name] = map[string]bool{}
					for _, fl := range stt.Fields.List {
						ty := detExprText(fset, fl.Type)
						if len(fl.Names) == 0 {
							nm := ty[strings.LastIndexAny(ty, ".*")+1:]
							fields = append(fields, gsField{rel, ts.Name.Name, nm, ty})
							own[ts.Name.Name][nm] = true
						}
						for _, n := range fl.Names {
							fields = append(fields, gsField{rel, ts.Name.Name, n.Name, ty})
							own[ts.Name.Name][n.Name] = true
						}
					}
				}
			}
		}
		for _, f := range files {
			for _, decl := range f.Decls {
				fn, ok := decl.(*ast.FuncDecl)
				if !ok || fn.Recv == nil || len(fn.Recv.List) == 0 || fn.Body == nil || len(fn.Recv.List[0].Names) == 0 {
					continue
				}
				rt := fn.Recv.List[0].Type
				if s, ok := rt.(*ast.StarExpr); ok {
					rt = s.X
				}
				id, ok := rt.(*ast.Ident)
				if !ok || own[id.Name] == nil {
					continue
				}
				recv := fn.Recv.List[0].Names[0].Name
				fset2 := own[id.Name]
				// element / sub-field writes (`g.m[k] = v`, `g.cf.X = v`) count as updates of the field
				var isInner func(e ast.Expr) (string, bool)
				isField := func(e ast.Expr) (string, bool) {
					s, ok := e.(*ast.SelectorExpr)
					if !ok {
						return "", false
					}
					x, ok := s.X.(*ast.Ident)
					if !ok || x.Name != recv || !fset2[s.Sel.Name] {
						return "", false
					}
					return s.Sel.Name, true
				}
				isInner = func(e ast.Expr) (string, bool) {
					switch v := e.(type) {
					case *ast.IndexExpr:
						if f, ok := isField(v.X); ok {
							return f, true
						}
						return isInner(v.X)
					case *ast.SelectorExpr:
						if f, ok := isField(v.X); ok {
							return f, true
						}
						return isInner(v.X)
					case *ast.StarExpr:
						return isInner(v.X)
					case *ast.ParenExpr:
						return isInner(v.X)
					}
					return "", false
				}
				ast.Inspect(fn.Body, func(n ast.Node) bool {
					switch v := n.(type) {
					case *ast.AssignStmt:
						for i, lhs := range v.Lhs {
							fld, ok := isField(lhs)
							if !ok {
								if fld, ok = isInner(lhs); ok {
									writes = append(writes, gsWrite{rel, fn.Name.Name, fld, "update"})
								}
								continue
							}
							kind := "set"
							if v.Tok != token.ASSIGN {
								kind = "update"
							} else if len(v.Rhs) == len(v.Lhs) && detMentions(v.Rhs[i], recv, fld) {
								kind = "update"
							}
							writes = append(writes, gsWrite{rel, fn.Name.Name, fld, kind})
						}
					case *ast.UnaryExpr:
						if v.Op == token.AND {
							if fld, ok := isField(v.X); ok {
								writes = append(writes, gsWrite{rel, fn.Name.Name, fld, "addr"})
							}
						}
					}
					return true
				})
			}
		}
	}
	fmt.Println("\n/-- (package, struct, field, type) of every Generator struct and of GeneratorBase -/")
	fmt.Println("def genStateFields : List (String × String × String × String) := [")
	for i, f := range fields {
		sep := ","
		if i == len(fields)-1 {
			sep = ""
		}
		fmt.Printf("  (%s, %s, %s, %s)%s\n", detLeanStr(f.pkg), detLeanStr(f.strct), detLeanStr(f.field), detLeanStr(f.typ), sep)
	}
	fmt.Println("]")
	// de-duplicate writes (a method may assign a field several times)
	seen := map[gsWrite]bool{}
	var ws []gsWrite
	for _, w := range writes {
		if !seen[w] {
			seen[w] = true
			ws = append(ws, w)
		}
	}
	sort.Slice(ws, func(i, j int) bool {
		a, b := ws[i], ws[j]
		if a.pkg != b.pkg {
			return a.pkg < b.pkg
		}
		if a.field != b.field {
			return a.field < b.field
		}
		if a.fn != b.fn {
			return a.fn < b.fn
		}
		return a.kind < b.kind
	})
	fmt.Println("\n/-- (package, method, field, kind) for every write to a generator-state field; kind = set | update | addr -/")
	fmt.Println("def genStateWrites : List (String × String × String × String) := [")
	for i, w := range ws {
		sep := ","
		if i == len(ws)-1 {
			sep = ""
		}
		fmt.Printf("  (%s, %s, %s, %s)%s\n", detLeanStr(w.pkg), detLeanStr(w.fn), detLeanStr(w.field), detLeanStr(w.kind), sep)
	}
	fmt.Println("]")
}
