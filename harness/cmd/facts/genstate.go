package main

// genStateFields / genStateWrites: the long-lived generator state, regenerated from the CURRENT source.
//
//   genStateFields : every field of every `Generator` struct in internal/* plus shoot.GeneratorBase
//                    (package dir, struct, field, printed type)
//   genStateWrites : every assignment `<recv>.<field> = …` / `<recv>.<field> op= …` to such a field inside a method
//                    of that struct (package dir, method, field, kind) with kind
//                      "set"    – plain `=` whose right-hand side does not mention the field
//                      "update" – the right-hand side detMentions the field (append(g.f, …), g.f || x, …) or op=
//                    and every `&<recv>.<field>` (kind "addr": the field is handed to a callee that may reset it).
//
//   genStateResets : every UNCONDITIONAL re-initialisation of such a field: a statement at the TOP LEVEL of a method body
//                    (not nested in if / for / switch / select / a function literal)
//                      `<recv>.<field> = rhs`  with rhs not mentioning the field              how = "direct"
//                      a call `<recv>.<m>(…, &<recv>.<field>, …)` whose callee `m` has, at the top level of ITS body,
//                      `*<param> = rhs` for the parameter in that position (rhs not mentioning it)   how = "via <m>"
//                    (package dir, method, field, how, number of earlier top-level statements of the method that contain a `return`)
//   genStateCalls  : every call `<recv>.<m>(…)` of a method of a state struct of the same package made by a top-level statement
//                    of a method body, outside function literals and outside the right operand of && / ||
//                    (package dir, caller, callee)
//
//   genPkgVars     : every package-level `var` of cmd/shoot and internal/** (non-test files): state that could outlive a type
//                    without being a Generator field (directory, file, name, type or "= initialiser")
//
// Used by ShootVerif/Props/C08.lean: every field must be classified (config / reset / derived / carried) and the
// classification must agree with where the field is written.

import (
	"bytes"
	"fmt"
	"go/ast"
	"go/parser"
	"go/printer"
	"go/token"
	"os"
	"path/filepath"
	"sort"
	"strings"
)

type gsField struct{ pkg, strct, field, typ string }
type gsWrite struct{ pkg, fn, field, kind string }
type gsReset struct {
	pkg, fn, field, how string
	early               int
}
type gsCall struct{ pkg, caller, callee string }

// detHasReturn: a `return` anywhere in the statement, function literals excluded
func detHasReturn(s ast.Stmt) bool {
	found := false
	ast.Inspect(s, func(n ast.Node) bool {
		switch n.(type) {
		case *ast.FuncLit:
			return false
		case *ast.ReturnStmt:
			found = true
		}
		return !found
	})
	return found
}

// detTopCalls: the call expressions a top-level statement evaluates unconditionally (simple statements, the init statement of
// an if / switch; not the bodies of compound statements, not function literals, not the right operand of && / ||)
func detTopCalls(s ast.Stmt) []*ast.CallExpr {
	var roots []ast.Node
	switch v := s.(type) {
	case *ast.ExprStmt, *ast.AssignStmt, *ast.ReturnStmt, *ast.DeclStmt, *ast.IncDecStmt, *ast.SendStmt:
		roots = append(roots, v)
	case *ast.IfStmt:
		if v.Init != nil {
			roots = append(roots, v.Init)
		}
	case *ast.SwitchStmt:
		if v.Init != nil {
			roots = append(roots, v.Init)
		}
		if v.Tag != nil {
			roots = append(roots, v.Tag)
		}
	}
	var calls []*ast.CallExpr
	var walk func(n ast.Node)
	walk = func(n ast.Node) {
		ast.Inspect(n, func(m ast.Node) bool {
			switch w := m.(type) {
			case *ast.FuncLit:
				return false
			case *ast.BinaryExpr:
				if w.Op == token.LAND || w.Op == token.LOR {
					walk(w.X)
					return false
				}
			case *ast.CallExpr:
				calls = append(calls, w)
			}
			return true
		})
	}
	for _, r := range roots {
		walk(r)
	}
	return calls
}

// detParamNames: the parameter names of a function in order (unnamed parameters as "")
func detParamNames(ft *ast.FuncType) []string {
	var out []string
	if ft.Params == nil {
		return out
	}
	for _, f := range ft.Params.List {
		if len(f.Names) == 0 {
			out = append(out, "")
		}
		for _, n := range f.Names {
			out = append(out, n.Name)
		}
	}
	return out
}

// detDerefResets: the parameters p of fn with a top-level `*p = rhs` (rhs not mentioning p)
func detDerefResets(fn *ast.FuncDecl) map[string]bool {
	out := map[string]bool{}
	for _, st := range fn.Body.List {
		as, ok := st.(*ast.AssignStmt)
		if !ok || as.Tok != token.ASSIGN || len(as.Lhs) != len(as.Rhs) {
			continue
		}
		for i, lhs := range as.Lhs {
			star, ok := lhs.(*ast.StarExpr)
			if !ok {
				continue
			}
			id, ok := star.X.(*ast.Ident)
			if !ok {
				continue
			}
			uses := false
			ast.Inspect(as.Rhs[i], func(n ast.Node) bool {
				if x, ok := n.(*ast.Ident); ok && x.Name == id.Name {
					uses = true
				}
				return !uses
			})
			if !uses {
				out[id.Name] = true
			}
		}
	}
	return out
}

func detLeanStr(s string) string {
	var b strings.Builder
	b.WriteByte('"')
	for _, r := range s {
		switch r {
		case '"':
			b.WriteString("\\\"")
		case '\\':
			b.WriteString("\\\\")
		case '\n':
			b.WriteString("\\n")
		case '\t':
			b.WriteString("\\t")
		default:
			b.WriteRune(r)
		}
	}
	b.WriteByte('"')
	return b.String()
}

func detExprText(fset *token.FileSet, e ast.Node) string {
	var b bytes.Buffer
	printer.Fprint(&b, fset, e)
	return strings.Join(strings.Fields(b.String()), " ")
}

func detMentions(e ast.Expr, recv, field string) bool {
	found := false
	ast.Inspect(e, func(n ast.Node) bool {
		if s, ok := n.(*ast.SelectorExpr); ok {
			if id, ok := s.X.(*ast.Ident); ok && id.Name == recv && s.Sel.Name == field {
				found = true
			}
		}
		return !found
	})
	return found
}

func detIsStateStruct(name string) bool { return name == "Generator" || name == "GeneratorBase" }

func emitGenState(repo string) {
	dirs, _ := filepath.Glob(filepath.Join(repo, "internal", "*"))
	sort.Strings(dirs)
	var fields []gsField
	var writes []gsWrite
	var resets []gsReset
	var calls []gsCall
	for _, d := range dirs {
		st, err := os.Stat(d)
		if err != nil || !st.IsDir() {
			continue
		}
		rel, _ := filepath.Rel(repo, d)
		fset := token.NewFileSet()
		pkgs, err := parser.ParseDir(fset, d, func(fi os.FileInfo) bool { return !strings.HasSuffix(fi.Name(), "_test.go") }, 0)
		if err != nil {
			fmt.Fprintln(os.Stderr, "facts: genstate:", err)
			os.Exit(1)
		}
		var files []*ast.File
		for _, p := range pkgs {
			var names []string
			for n := range p.Files {
				names = append(names, n)
			}
			sort.Strings(names)
			for _, n := range names {
				files = append(files, p.Files[n])
			}
		}
		own := map[string]map[string]bool{} // struct -> field set
		for _, f := range files {
			for _, decl := range f.Decls {
				gd, ok := decl.(*ast.GenDecl)
				if !ok || gd.Tok != token.TYPE {
					continue
				}
				for _, sp := range gd.Specs {
					ts := sp.(*ast.TypeSpec)
					stt, ok := ts.Type.(*ast.StructType)
					if !ok || !detIsStateStruct(ts.Name.Name) {
						continue
					}
					own[ts.Name.Name] = map[string]bool{}
					for _, fl := range stt.Fields.List {
						ty := detExprText(fset, fl.Type)
						if len(fl.Names) == 0 {
							nm := ty[strings.LastIndexAny(ty, ".*")+1:]
							fields = append(fields, gsField{rel, ts.Name.Name, nm, ty})
							own[ts.Name.Name][nm] = true
						}
						for _, n := range fl.Names {
							fields = append(fields, gsField{rel, ts.Name.Name, n.Name, ty})
							own[ts.Name.Name][n.Name] = true
						}
					}
				}
			}
		}
		// methods of the state structs of this package, by name (for the hand-over-by-address resets and the call table)
		methods := map[string]*ast.FuncDecl{}
		recvStruct := func(fn *ast.FuncDecl) string {
			if fn.Recv == nil || len(fn.Recv.List) == 0 {
				return ""
			}
			rt := fn.Recv.List[0].Type
			if s, ok := rt.(*ast.StarExpr); ok {
				rt = s.X
			}
			if id, ok := rt.(*ast.Ident); ok && own[id.Name] != nil {
				return id.Name
			}
			return ""
		}
		for _, f := range files {
			for _, decl := range f.Decls {
				if fn, ok := decl.(*ast.FuncDecl); ok && fn.Body != nil && recvStruct(fn) != "" {
					methods[fn.Name.Name] = fn
				}
			}
		}
		for _, f := range files {
			for _, decl := range f.Decls {
				fn, ok := decl.(*ast.FuncDecl)
				if !ok || fn.Body == nil || recvStruct(fn) == "" || len(fn.Recv.List[0].Names) == 0 {
					continue
				}
				recv := fn.Recv.List[0].Names[0].Name
				fset2 := own[recvStruct(fn)]
				early := 0
				for _, st := range fn.Body.List {
					if as, ok := st.(*ast.AssignStmt); ok && as.Tok == token.ASSIGN && len(as.Lhs) == len(as.Rhs) {
						for i, lhs := range as.Lhs {
							sel, ok := lhs.(*ast.SelectorExpr)
							if !ok {
								continue
							}
							x, ok := sel.X.(*ast.Ident)
							if !ok || x.Name != recv || !fset2[sel.Sel.Name] || detMentions(as.Rhs[i], recv, sel.Sel.Name) {
								continue
							}
							resets = append(resets, gsReset{rel, fn.Name.Name, sel.Sel.Name, "direct", early})
						}
					}
					for _, c := range detTopCalls(st) {
						sel, ok := c.Fun.(*ast.SelectorExpr)
						if !ok {
							continue
						}
						x, ok := sel.X.(*ast.Ident)
						if !ok || x.Name != recv {
							continue
						}
						callee := methods[sel.Sel.Name]
						if callee == nil {
							continue
						}
						calls = append(calls, gsCall{rel, fn.Name.Name, sel.Sel.Name})
						params := detParamNames(callee.Type)
						deref := detDerefResets(callee)
						for i, a := range c.Args {
							u, ok := a.(*ast.UnaryExpr)
							if !ok || u.Op != token.AND || i >= len(params) {
								continue
							}
							fs, ok := u.X.(*ast.SelectorExpr)
							if !ok {
								continue
							}
							fx, ok := fs.X.(*ast.Ident)
							if !ok || fx.Name != recv || !fset2[fs.Sel.Name] || params[i] == "" || !deref[params[i]] {
								continue
							}
							resets = append(resets, gsReset{rel, fn.Name.Name, fs.Sel.Name, "via " + sel.Sel.Name, early})
						}
					}
					if detHasReturn(st) {
						early++
					}
				}
			}
		}
		for _, f := range files {
			for _, decl := range f.Decls {
				fn, ok := decl.(*ast.FuncDecl)
				if !ok || fn.Recv == nil || len(fn.Recv.List) == 0 || fn.Body == nil || len(fn.Recv.List[0].Names) == 0 {
					continue
				}
				rt := fn.Recv.List[0].Type
				if s, ok := rt.(*ast.StarExpr); ok {
					rt = s.X
				}
				id, ok := rt.(*ast.Ident)
				if !ok || own[id.Name] == nil {
					continue
				}
				recv := fn.Recv.List[0].Names[0].Name
				fset2 := own[id.Name]
				// element / sub-field writes (`g.m[k] = v`, `g.cf.X = v`) count as updates of the field
				var isInner func(e ast.Expr) (string, bool)
				isField := func(e ast.Expr) (string, bool) {
					s, ok := e.(*ast.SelectorExpr)
					if !ok {
						return "", false
					}
					x, ok := s.X.(*ast.Ident)
					if !ok || x.Name != recv || !fset2[s.Sel.Name] {
						return "", false
					}
					return s.Sel.Name, true
				}
				isInner = func(e ast.Expr) (string, bool) {
					switch v := e.(type) {
					case *ast.IndexExpr:
						if f, ok := isField(v.X); ok {
							return f, true
						}
						return isInner(v.X)
					case *ast.SelectorExpr:
						if f, ok := isField(v.X); ok {
							return f, true
						}
						return isInner(v.X)
					case *ast.StarExpr:
						return isInner(v.X)
					case *ast.ParenExpr:
						return isInner(v.X)
					}
					return "", false
				}
				ast.Inspect(fn.Body, func(n ast.Node) bool {
					switch v := n.(type) {
					case *ast.AssignStmt:
						for i, lhs := range v.Lhs {
							fld, ok := isField(lhs)
							if !ok {
								if fld, ok = isInner(lhs); ok {
									writes = append(writes, gsWrite{rel, fn.Name.Name, fld, "update"})
								}
								continue
							}
							kind := "set"
							if v.Tok != token.ASSIGN {
								kind = "update"
							} else if len(v.Rhs) == len(v.Lhs) && detMentions(v.Rhs[i], recv, fld) {
								kind = "update"
							}
							writes = append(writes, gsWrite{rel, fn.Name.Name, fld, kind})
						}
					case *ast.UnaryExpr:
						if v.Op == token.AND {
							if fld, ok := isField(v.X); ok {
								writes = append(writes, gsWrite{rel, fn.Name.Name, fld, "addr"})
							}
						}
					}
					return true
				})
			}
		}
	}
	fmt.Println("\n/-- (package, struct, field, type) of every Generator struct and of GeneratorBase -/")
	fmt.Println("def genStateFields : List (String × String × String × String) := [")
	for i, f := range fields {
		sep := ","
		if i == len(fields)-1 {
			sep = ""
		}
		fmt.Printf("  (%s, %s, %s, %s)%s\n", detLeanStr(f.pkg), detLeanStr(f.strct), detLeanStr(f.field), detLeanStr(f.typ), sep)
	}
	fmt.Println("]")
	// de-duplicate writes (a method may assign a field several times)
	seen := map[gsWrite]bool{}
	var ws []gsWrite
	for _, w := range writes {
		if !seen[w] {
			seen[w] = true
			ws = append(ws, w)
		}
	}
	sort.Slice(ws, func(i, j int) bool {
		a, b := ws[i], ws[j]
		if a.pkg != b.pkg {
			return a.pkg < b.pkg
		}
		if a.field != b.field {
			return a.field < b.field
		}
		if a.fn != b.fn {
			return a.fn < b.fn
		}
		return a.kind < b.kind
	})
	fmt.Println("\n/-- (package, method, field, kind) for every write to a generator-state field; kind = set | update | addr -/")
	fmt.Println("def genStateWrites : List (String × String × String × String) := [")
	for i, w := range ws {
		sep := ","
		if i == len(ws)-1 {
			sep = ""
		}
		fmt.Printf("  (%s, %s, %s, %s)%s\n", detLeanStr(w.pkg), detLeanStr(w.fn), detLeanStr(w.field), detLeanStr(w.kind), sep)
	}
	fmt.Println("]")
	seenR := map[gsReset]bool{}
	var rs []gsReset
	for _, r := range resets {
		if !seenR[r] {
			seenR[r] = true
			rs = append(rs, r)
		}
	}
	sort.Slice(rs, func(i, j int) bool {
		a, b := rs[i], rs[j]
		if a.pkg != b.pkg {
			return a.pkg < b.pkg
		}
		if a.field != b.field {
			return a.field < b.field
		}
		if a.fn != b.fn {
			return a.fn < b.fn
		}
		if a.how != b.how {
			return a.how < b.how
		}
		return a.early < b.early
	})
	fmt.Println("\n/-- (package, method, field, how, earlier top-level statements with a `return`): every UNCONDITIONAL (top-level) re-initialisation of a generator-state field; how = direct | via <callee> -/")
	fmt.Println("def genStateResets : List (String × String × String × String × Nat) := [")
	for i, r := range rs {
		sep := ","
		if i == len(rs)-1 {
			sep = ""
		}
		fmt.Printf("  (%s, %s, %s, %s, %d)%s\n", detLeanStr(r.pkg), detLeanStr(r.fn), detLeanStr(r.field), detLeanStr(r.how), r.early, sep)
	}
	fmt.Println("]")
	seenC := map[gsCall]bool{}
	var cs []gsCall
	for _, c := range calls {
		if !seenC[c] {
			seenC[c] = true
			cs = append(cs, c)
		}
	}
	sort.Slice(cs, func(i, j int) bool {
		a, b := cs[i], cs[j]
		if a.pkg != b.pkg {
			return a.pkg < b.pkg
		}
		if a.caller != b.caller {
			return a.caller < b.caller
		}
		return a.callee < b.callee
	})
	fmt.Println("\n/-- (package, caller, callee): calls of state-struct methods on the receiver made unconditionally by a top-level statement of a method -/")
	fmt.Println("def genStateCalls : List (String × String × String) := [")
	for i, c := range cs {
		sep := ","
		if i == len(cs)-1 {
			sep = ""
		}
		fmt.Printf("  (%s, %s, %s)%s\n", detLeanStr(c.pkg), detLeanStr(c.caller), detLeanStr(c.callee), sep)
	}
	fmt.Println("]")
	emitPkgVars(repo)
}

func emitPkgVars(repo string) {
	type pv struct{ dir, file, name, typ string }
	var vars []pv
	var dirs []string
	for _, root := range []string{"cmd", "internal"} {
		filepath.Walk(filepath.Join(repo, root), func(p string, fi os.FileInfo, err error) error {
			if err == nil && fi.IsDir() {
				dirs = append(dirs, p)
			}
			return nil
		})
	}
	sort.Strings(dirs)
	for _, d := range dirs {
		rel, _ := filepath.Rel(repo, d)
		if strings.HasPrefix(rel, filepath.Join("cmd", "test")) {
			continue
		}
		ents, _ := filepath.Glob(filepath.Join(d, "*.go"))
		sort.Strings(ents)
		for _, fn := range ents {
			if strings.HasSuffix(fn, "_test.go") || strings.HasSuffix(fn, "verif_export.go") {
				continue
			}
			fset := token.NewFileSet()
			pf, err := parser.ParseFile(fset, fn, nil, 0)
			if err != nil {
				fmt.Fprintln(os.Stderr, "facts: pkgvars:", err)
				os.Exit(1)
			}
			for _, dcl := range pf.Decls {
				gd, ok := dcl.(*ast.GenDecl)
				if !ok || gd.Tok != token.VAR {
					continue
				}
				for _, sp := range gd.Specs {
					vs := sp.(*ast.ValueSpec)
					typ := ""
					if vs.Type != nil {
						typ = detExprText(fset, vs.Type)
					} else if len(vs.Values) > 0 {
						typ = "= " + detExprText(fset, vs.Values[0])
						if len(typ) > 60 {
							typ = typ[:60]
						}
					}
					for _, n := range vs.Names {
						vars = append(vars, pv{rel, filepath.Base(fn), n.Name, typ})
					}
				}
			}
		}
	}
	fmt.Println("\n/-- (directory, file, name, type or initialiser) of every package-level `var` of cmd/shoot and internal/** -/")
	fmt.Println("def genPkgVars : List (String × String × String × String) := [")
	for i, v := range vars {
		sep := ","
		if i == len(vars)-1 {
			sep = ""
		}
		fmt.Printf("  (%s, %s, %s, %s)%s\n", detLeanStr(v.dir), detLeanStr(v.file), detLeanStr(v.name), detLeanStr(v.typ), sep)
	}
	fmt.Println("]")
}
