package main

// Shared source walking for the driver-area tables (fs.go, fatal.go): parses every non-test Go file
// under cmd/ and internal/ of the repository with go/parser (no type checking, no `go list`).

import (
	"go/ast"
	"go/parser"
	"go/token"
	"os"
	"path/filepath"
	"sort"
	"strings"
)

type srcFile struct {
	rel     string // path relative to the repo
	pkg     string // package name
	file    *ast.File
	imports map[string]string // local name -> import path
}

type srcFunc struct {
	f    *srcFile
	decl *ast.FuncDecl
	name string // function or method name (methods: bare name)
	recv string // receiver base type name ("" for functions)
}

type srcTree struct {
	fset  *token.FileSet
	files []*srcFile
	funcs []*srcFunc
}

const repoModule = "github.com/lopolopen/shoot"

func loadTree(repo string) *srcTree {
	t := &srcTree{fset: token.NewFileSet()}
	for _, top := range []string{"cmd", "internal"} {
		_ = filepath.Walk(filepath.Join(repo, top), func(p string, info os.FileInfo, err error) error {
			if err != nil {
				return nil
			}
			if info.IsDir() {
				if info.Name() == "testdata" || info.Name() == "test" {
					return filepath.SkipDir
				}
				return nil
			}
			if !strings.HasSuffix(p, ".go") || strings.HasSuffix(p, "_test.go") {
				return nil
			}
			f, err := parser.ParseFile(t.fset, p, nil, parser.ParseComments)
			if err != nil {
				return nil
			}
			// hook files (build tag verif) only add exported wrappers; they are not part of the shipped tool
			for _, cg := range f.Comments {
				for _, c := range cg.List {
					if strings.HasPrefix(c.Text, "//go:build") && strings.Contains(c.Text, "verif") && c.Pos() < f.Package {
						return nil
					}
				}
			}
			rel, _ := filepath.Rel(repo, p)
			sf := &srcFile{rel: rel, pkg: f.Name.Name, file: f, imports: map[string]string{}}
			for _, im := range f.Imports {
				path := strings.Trim(im.Path.Value, `"`)
				name := filepath.Base(path)
				if im.Name != nil {
					name = im.Name.Name
				}
				sf.imports[name] = path
			}
			t.files = append(t.files, sf)
			return nil
		})
	}
	sort.Slice(t.files, func(i, j int) bool { return t.files[i].rel < t.files[j].rel })
	for _, sf := range t.files {
		for _, d := range sf.file.Decls {
			fd, ok := d.(*ast.FuncDecl)
			if !ok || fd.Body == nil {
				continue
			}
			fn := &srcFunc{f: sf, decl: fd, name: fd.Name.Name}
			if fd.Recv != nil && len(fd.Recv.List) > 0 {
				fn.recv = recvBase(fd.Recv.List[0].Type)
			}
			t.funcs = append(t.funcs, fn)
		}
	}
	return t
}

func recvBase(e ast.Expr) string {
	switch x := e.(type) {
	case *ast.StarExpr:
		return recvBase(x.X)
	case *ast.IndexExpr:
		return recvBase(x.X)
	case *ast.IndexListExpr:
		return recvBase(x.X)
	case *ast.Ident:
		return x.Name
	}
	return ""
}

// calleeOf classifies a call: ("os", "Remove", true) for a package-qualified call to an import,
// ("", "foo", false) for a plain identifier, ("", "Method", false) for a method/field call.
func (sf *srcFile) calleeOf(call *ast.CallExpr) (pkgPath, name string, qualified bool) {
	switch fun := call.Fun.(type) {
	case *ast.Ident:
		return "", fun.Name, false
	case *ast.SelectorExpr:
		if id, ok := fun.X.(*ast.Ident); ok && id.Obj == nil {
			if path, ok := sf.imports[id.Name]; ok {
				return path, fun.Sel.Name, true
			}
		}
		return "", fun.Sel.Name, false
	case *ast.IndexExpr: // generic instantiation f[T](...)
		if id, ok := fun.X.(*ast.Ident); ok {
			return "", id.Name, false
		}
	}
	return "", "", false
}

func leanStr(s string) string {
	s = strings.ReplaceAll(s, `\`, `\\`)
	s = strings.ReplaceAll(s, `"`, `\"`)
	return `"` + s + `"`
}
