// facts: regenerate ShootVerif/Gen/Facts.lean from the current source of lopolopen/shoot.
package main

import (
	"fmt"
	"os"
)

func main() {
	if len(os.Args) < 2 {
		fmt.Fprintln(os.Stderr, "usage: facts <repo>")
		os.Exit(2)
	}
	fmt.Println("-- REGENERATED on every check run by /verif/harness/cmd/facts from /repo. Do not edit.")
	fmt.Println("namespace ShootVerif.Facts")
	emitAll(os.Args[1])
	fmt.Println("end ShootVerif.Facts")
}
