package main

// Facts for "generated files are not input" (C07) and for the import de-duplication of MergeSources (C08):
//
//   mergeImportKey  : the expressions that make up the de-duplication key of MergeSources (source.go), in order
//   tmplTopDecls    : every top-level declaration a template emits: (template, keyword, name pattern, shape) – the name pattern is
//                     the template text of the declared name with printf-defined variables resolved and other actions replaced by `*`
//                     (`lower*`: camelCase/firstLower of something); shape: struct|interface for types, typed|untyped for const/var
//   enumConstRule   : the conditions under which enumer.makeStr skips a constant specification (text of every `if … { …continue }`
//                     inside the loop over the ValueSpecs)

import (
	"fmt"
	"go/ast"
	"go/parser"
	"go/token"
	"os"
	"path/filepath"
	"regexp"
	"sort"
	"strings"
)

func emitDetInput(repo string) {
	fset := token.NewFileSet()
	// ---- mergeImportKey
	var key []string
	if f, err := parser.ParseFile(fset, filepath.Join(repo, "internal/shoot/source.go"), nil, 0); err == nil {
		for _, d := range f.Decls {
			fd, ok := d.(*ast.FuncDecl)
			if !ok || fd.Name.Name != "MergeSources" || fd.Body == nil {
				continue
			}
			ast.Inspect(fd.Body, func(n ast.Node) bool {
				as, ok := n.(*ast.AssignStmt)
				if !ok || len(as.Lhs) != 1 || len(as.Rhs) != 1 {
					return true
				}
				if id, ok := as.Lhs[0].(*ast.Ident); ok && id.Name == "key" && (as.Tok == token.DEFINE || as.Tok == token.ADD_ASSIGN || as.Tok == token.ASSIGN) {
					key = append(key, detExprText(fset, as.Rhs[0]))
				}
				return true
			})
		}
	} else {
		fmt.Fprintln(os.Stderr, "facts: detinput:", err)
		os.Exit(1)
	}
	fmt.Println("\n/-- the expressions concatenated into the import de-duplication key of MergeSources -/")
	fmt.Printf("def mergeImportKey : List String := [%s]\n", joinLean(key))

	// ---- tmplTopDecls
	type td struct{ tmpl, kw, name, shape string }
	var decls []td
	tmpls, _ := filepath.Glob(filepath.Join(repo, "internal", "*", "*.tmpl"))
	sort.Strings(tmpls)
	action := regexp.MustCompile(`\{\{[^}]*\}\}`)
	varRe := regexp.MustCompile(`\{\{-?\s*\$(\w+)\s*:=\s*printf\s+"([^"]*)"`)
	varRe2 := regexp.MustCompile(`\{\{-?\s*\$(\w+)\s*:=\s*\.`)
	declRe := regexp.MustCompile(`^(func|type|const|var)\s+(\([^)]*\)\s*)?([^\s(\[={]+)`)
	for _, t := range tmpls {
		b, err := os.ReadFile(t)
		if err != nil {
			continue
		}
		rel, _ := filepath.Rel(repo, t)
		// template variables defined with printf: {{- $Marshal := printf "_json_%s" .TypeName -}}  =>  $Marshal ~ _json_*
		vars := map[string]string{}
		for _, m := range varRe.FindAllStringSubmatch(string(b), -1) {
			if _, dup := vars[m[1]]; !dup {
				vars[m[1]] = strings.ReplaceAll(m[2], "%s", "*")
			}
		}
		for _, m := range varRe2.FindAllStringSubmatch(string(b), -1) {
			if _, dup := vars[m[1]]; !dup {
				vars[m[1]] = "*"
			}
		}
		for _, ln := range strings.Split(string(b), "\n") {
			// an action at the very start of the line may only be trimming white space: drop leading actions
			l := strings.TrimSpace(ln)
			for strings.HasPrefix(l, "{{") {
				i := strings.Index(l, "}}")
				if i < 0 {
					break
				}
				l = strings.TrimSpace(l[i+2:])
			}
			if ln != strings.TrimLeft(ln, " \t") && !strings.HasPrefix(strings.TrimSpace(ln), "{{") {
				continue // indented: inside a body
			}
			l = action.ReplaceAllStringFunc(l, func(a string) string {
				inner := strings.TrimSpace(strings.Trim(a, "{}-"))
				if strings.HasPrefix(inner, "$") {
					if v, ok := vars[strings.TrimPrefix(inner, "$")]; ok {
						return v
					}
				}
				if strings.HasPrefix(inner, "camelCase ") || strings.HasPrefix(inner, "firstLower ") {
					return "lower*" // starts with a lower-case letter
				}
				return "*"
			})
			m := declRe.FindStringSubmatch(l)
			if m == nil {
				continue
			}
			kw, name := m[1], m[3]
			if m[2] != "" {
				kw = "method"
			}
			rest := strings.TrimSpace(l[len(m[0]):])
			shape := ""
			switch kw {
			case "type":
				shape = strings.TrimRight(strings.Fields(rest + " ?")[0], "{")
			case "const", "var":
				if strings.HasPrefix(rest, "=") {
					shape = "untyped"
				} else {
					shape = "typed"
				}
			}
			decls = append(decls, td{rel, kw, name, shape})
		}
	}
	fmt.Println("\n/-- (template, keyword, declared name with actions replaced by `*`) of every top-level declaration a template emits -/")
	fmt.Println("def tmplTopDecls : List (String × String × String × String) := [")
	for i, d := range decls {
		sep := ","
		if i == len(decls)-1 {
			sep = ""
		}
		fmt.Printf("  (%s, %s, %s, %s)%s\n", detLeanStr(d.tmpl), detLeanStr(d.kw), detLeanStr(d.name), detLeanStr(d.shape), sep)
	}
	fmt.Println("]")

	// ---- enumConstRule
	var rules []string
	if f, err := parser.ParseFile(fset, filepath.Join(repo, "internal/enumer/str.go"), nil, 0); err == nil {
		for _, d := range f.Decls {
			fd, ok := d.(*ast.FuncDecl)
			if !ok || fd.Name.Name != "makeStr" || fd.Body == nil {
				continue
			}
			ast.Inspect(fd.Body, func(n ast.Node) bool {
				rs, ok := n.(*ast.RangeStmt)
				if !ok || detExprText(fset, rs.X) != "decl.Specs" {
					return true
				}
				for _, st := range rs.Body.List {
					is, ok := st.(*ast.IfStmt)
					if !ok {
						continue
					}
					hasContinue := false
					ast.Inspect(is.Body, func(m ast.Node) bool {
						if b, ok := m.(*ast.BranchStmt); ok && b.Tok == token.CONTINUE {
							hasContinue = true
						}
						return true
					})
					if hasContinue {
						rules = append(rules, detExprText(fset, is.Cond))
					}
				}
				return true
			})
		}
	}
	fmt.Println("\n/-- enumer.makeStr: the conditions under which a constant specification is skipped -/")
	fmt.Printf("def enumConstRule : List String := [%s]\n", joinLean(rules))
}

func joinLean(xs []string) string {
	var out []string
	for _, x := range xs {
		out = append(out, detLeanStr(x))
	}
	return strings.Join(out, ", ")
}
