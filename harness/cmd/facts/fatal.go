package main

// fatalSites / panicSites: every call of logx.Fatal*, log.Fatal*, log.Panic*, os.Exit and panic( in cmd/ and
// internal/ non-test code (the logx wrappers themselves excepted), with package, enclosing function, callee,
// and whether the site can be reached after main's first call of notedownSrc (`post`).
//
// `post` is computed from a name-based call graph (no type information): a function is post-reachable if it is
// called - by bare name, as a method of any receiver, or through a repo package selector - from the part of
// main.main that starts with the loop calling notedownSrc, or from a post-reachable function. Sites inside
// main.main are post iff they are positioned at or after that loop. This over-approximates reachability,
// which is the safe direction for "every fatal site precedes the first write".

import (
	"fmt"
	"go/ast"
	"go/token"
	"sort"
	"strings"
)

type fatalSite struct {
	pkg, fn, callee string
	post            bool
}

func isLogx(path string) bool { return strings.HasSuffix(path, "/internal/tools/logx") }

func fatalCallee(sf *srcFile, call *ast.CallExpr) (string, bool) {
	path, name, q := sf.calleeOf(call)
	switch {
	case q && isLogx(path) && strings.HasPrefix(name, "Fatal"):
		return "logx." + name, true
	case q && path == "log" && (strings.HasPrefix(name, "Fatal") || strings.HasPrefix(name, "Panic")):
		return "log." + name, true
	case q && path == "os" && name == "Exit":
		return "os.Exit", true
	}
	return "", false
}

func collectFatal(t *srcTree) (fatal []fatalSite, panics []fatalSite) {
	// ---- post-reachability ----
	byName := map[string][]*srcFunc{}
	for _, fn := range t.funcs {
		byName[fn.name] = append(byName[fn.name], fn)
	}
	var mainFn *srcFunc
	for _, fn := range t.funcs {
		if fn.f.pkg == "main" && fn.name == "main" && fn.recv == "" {
			mainFn = fn
		}
	}
	postStart := token.NoPos
	if mainFn != nil {
		for _, st := range mainFn.decl.Body.List {
			found := false
			ast.Inspect(st, func(n ast.Node) bool {
				if call, ok := n.(*ast.CallExpr); ok {
					if _, name, _ := mainFn.f.calleeOf(call); name == "notedownSrc" {
						found = true
					}
				}
				return true
			})
			if found {
				postStart = st.Pos()
				break
			}
		}
	}
	calleesIn := func(fn *srcFunc, from token.Pos) []string {
		var out []string
		ast.Inspect(fn.decl.Body, func(n ast.Node) bool {
			call, ok := n.(*ast.CallExpr)
			if !ok || call.Pos() < from {
				return true
			}
			path, name, q := fn.f.calleeOf(call)
			if q && !strings.HasPrefix(path, repoModule) {
				return true // call into another module / the standard library
			}
			if name != "" {
				out = append(out, name)
			}
			return true
		})
		return out
	}
	post := map[*srcFunc]bool{}
	var work []*srcFunc
	push := func(names []string) {
		for _, n := range names {
			for _, fn := range byName[n] {
				if !post[fn] && !(fn.f.pkg == "main" && fn.name == "main") {
					post[fn] = true
					work = append(work, fn)
				}
			}
		}
	}
	if mainFn != nil && postStart != token.NoPos {
		push(calleesIn(mainFn, postStart))
	}
	for len(work) > 0 {
		fn := work[len(work)-1]
		work = work[:len(work)-1]
		push(calleesIn(fn, token.NoPos))
	}
	// ---- sites ----
	for _, fn := range t.funcs {
		if strings.HasSuffix(fn.f.rel, "internal/tools/logx/logx.go") {
			continue // the wrappers: their callers are the sites
		}
		ast.Inspect(fn.decl.Body, func(n ast.Node) bool {
			call, ok := n.(*ast.CallExpr)
			if !ok {
				return true
			}
			isPost := post[fn]
			if fn == mainFn {
				isPost = postStart != token.NoPos && call.Pos() >= postStart
			}
			if c, ok := fatalCallee(fn.f, call); ok {
				fatal = append(fatal, fatalSite{fn.f.pkg, fn.name, c, isPost})
			} else if id, ok := call.Fun.(*ast.Ident); ok && id.Name == "panic" && id.Obj == nil {
				panics = append(panics, fatalSite{fn.f.pkg, fn.name, "panic", isPost})
			}
			return true
		})
	}
	less := func(s []fatalSite) func(i, j int) bool {
		return func(i, j int) bool {
			a, b := s[i], s[j]
			if a.pkg != b.pkg {
				return a.pkg < b.pkg
			}
			if a.fn != b.fn {
				return a.fn < b.fn
			}
			return a.callee < b.callee
		}
	}
	sort.SliceStable(fatal, less(fatal))
	sort.SliceStable(panics, less(panics))
	return
}

func emitFatal(t *srcTree) {
	fatal, panics := collectFatal(t)
	pr := func(name, doc string, s []fatalSite) {
		fmt.Printf("/-- %s -/\n", doc)
		fmt.Printf("def %s : List (String × String × String × Bool) := [\n", name)
		for i, c := range s {
			sep := ","
			if i == len(s)-1 {
				sep = ""
			}
			fmt.Printf("  (%s, %s, %s, %v)%s\n", leanStr(c.pkg), leanStr(c.fn), leanStr(c.callee), c.post, sep)
		}
		fmt.Println("]")
	}
	pr("fatalSites", "every logx.Fatal*/log.Fatal*/os.Exit call (package, enclosing function, callee, reachable after main's first notedownSrc)", fatal)
	pr("panicSites", "every explicit panic( call (package, enclosing function, callee, reachable after main's first notedownSrc)", panics)
}
