package main

// Driver-area tables about the ORDER of main's phases and about the places where the tool builds a pattern:
//
//   mainPhases      the calls of ParseFlags / LoadPackage / Generate / notedownSrc / Clean in main.main, in source order,
//                   each with "is inside a for/range statement". C18: the phase machine's order; C17: Clean follows the write loop.
//   phaseCallSites  every call of notedownSrc / Clean anywhere in cmd/ and internal/ (package, enclosing function, callee):
//                   both are called from main.main only.
//   cleanReadSites  every read of file CONTENT (bufio/io/os readers) in the functions of package shoot that Clean reaches by name
//                   (function, callee, inside a loop): the clean-up judges a candidate by ONE ReadString, i.e. by its first line.
//   patternSites    every place a regular expression, a glob pattern or a template text is compiled / matched
//                   (package, function, callee, class of the pattern argument, its non-constant ingredients):
//                   literal  - string literals, package-level string constants, concatenations / Sprintf / filepath.Join of them
//                   quoted   - additionally holds values passed through regexp.QuoteMeta
//                   dynamic  - holds a value that is neither (listed in the last column)

import (
	"fmt"
	"go/ast"
	"go/token"
	"sort"
	"strings"
)

var phaseNames = map[string]bool{"ParseFlags": true, "LoadPackage": true, "Generate": true, "notedownSrc": true, "Clean": true}

func findMain(t *srcTree) *srcFunc {
	for _, fn := range t.funcs {
		if fn.f.pkg == "main" && fn.name == "main" && fn.recv == "" && strings.HasSuffix(fn.f.rel, "cmd/shoot/main.go") {
			return fn
		}
	}
	return nil
}

// inLoop reports, for every call expression below root, whether a for/range statement encloses it
func walkCalls(root ast.Node, visit func(call *ast.CallExpr, inLoop bool)) {
	var rec func(n ast.Node, loop bool)
	rec = func(n ast.Node, loop bool) {
		ast.Inspect(n, func(m ast.Node) bool {
			if m == nil || m == n {
				return true
			}
			switch x := m.(type) {
			case *ast.ForStmt:
				rec(x, true)
				return false
			case *ast.RangeStmt:
				rec(x, true)
				return false
			case *ast.FuncLit:
				rec(x, loop)
				return false
			case *ast.CallExpr:
				visit(x, loop)
			}
			return true
		})
	}
	rec(root, false)
}

func emitPhases(t *srcTree) {
	type ph struct {
		name string
		loop bool
		pos  token.Pos
	}
	var phs []ph
	if m := findMain(t); m != nil {
		walkCalls(m.decl.Body, func(call *ast.CallExpr, loop bool) {
			if _, name, _ := m.f.calleeOf(call); phaseNames[name] {
				phs = append(phs, ph{name, loop, call.Pos()})
			}
		})
	}
	sort.SliceStable(phs, func(i, j int) bool { return phs[i].pos < phs[j].pos })
	fmt.Println("/-- the phase calls of main.main in source order (callee, inside a for/range statement) -/")
	fmt.Println("def mainPhases : List (String × Bool) := [")
	for i, p := range phs {
		sep := ","
		if i == len(phs)-1 {
			sep = ""
		}
		fmt.Printf("  (%s, %v)%s\n", leanStr(p.name), p.loop, sep)
	}
	fmt.Println("]")

	// every call of notedownSrc / Clean
	type site struct{ pkg, fn, callee string }
	var sites []site
	for _, fn := range t.funcs {
		ast.Inspect(fn.decl.Body, func(n ast.Node) bool {
			if call, ok := n.(*ast.CallExpr); ok {
				if _, name, q := fn.f.calleeOf(call); !q && (name == "notedownSrc" || name == "Clean") {
					sites = append(sites, site{fn.f.pkg, fn.name, name})
				}
			}
			return true
		})
	}
	sort.SliceStable(sites, func(i, j int) bool {
		a, b := sites[i], sites[j]
		if a.pkg != b.pkg {
			return a.pkg < b.pkg
		}
		if a.fn != b.fn {
			return a.fn < b.fn
		}
		return a.callee < b.callee
	})
	fmt.Println("/-- every call of notedownSrc / Clean (package, enclosing function, callee) -/")
	fmt.Println("def phaseCallSites : List (String × String × String) := [")
	for i, s := range sites {
		sep := ","
		if i == len(sites)-1 {
			sep = ""
		}
		fmt.Printf("  (%s, %s, %s)%s\n", leanStr(s.pkg), leanStr(s.fn), leanStr(s.callee), sep)
	}
	fmt.Println("]")
}

// ---- cleanReadSites ----

var contentReaders = map[string]bool{"ReadString": true, "ReadLine": true, "ReadBytes": true, "ReadRune": true, "ReadByte": true, "Read": true,
	"Scan": true, "ReadAll": true, "ReadFile": true, "ReadFull": true, "ReadAtLeast": true, "Copy": true, "ReadAt": true, "WriteTo": true, "Peek": true}

func emitCleanReads(t *srcTree) {
	byName := map[string][]*srcFunc{}
	for _, fn := range t.funcs {
		if fn.f.pkg == "shoot" {
			byName[fn.name] = append(byName[fn.name], fn)
		}
	}
	reach := map[*srcFunc]bool{}
	var work []*srcFunc
	for _, fn := range byName["Clean"] {
		reach[fn] = true
		work = append(work, fn)
	}
	for len(work) > 0 {
		fn := work[len(work)-1]
		work = work[:len(work)-1]
		ast.Inspect(fn.decl.Body, func(n ast.Node) bool {
			if call, ok := n.(*ast.CallExpr); ok {
				if _, name, q := fn.f.calleeOf(call); !q {
					for _, g := range byName[name] {
						if !reach[g] {
							reach[g] = true
							work = append(work, g)
						}
					}
				}
			}
			return true
		})
	}
	type site struct {
		fn, callee string
		loop       bool
	}
	var sites []site
	for _, fn := range t.funcs {
		if !reach[fn] {
			continue
		}
		walkCalls(fn.decl.Body, func(call *ast.CallExpr, loop bool) {
			path, name, q := fn.f.calleeOf(call)
			if !contentReaders[name] {
				return
			}
			if q && path != "os" && path != "io" && path != "io/ioutil" && path != "bufio" {
				return
			}
			callee := name
			if q {
				callee = path + "." + name
			}
			sites = append(sites, site{fn.name, callee, loop})
		})
	}
	sort.SliceStable(sites, func(i, j int) bool {
		if sites[i].fn != sites[j].fn {
			return sites[i].fn < sites[j].fn
		}
		return sites[i].callee < sites[j].callee
	})
	fmt.Println("/-- every read of file content in the functions Clean reaches inside package shoot (function, callee, inside a loop) -/")
	fmt.Println("def cleanReadSites : List (String × String × Bool) := [")
	for i, s := range sites {
		sep := ","
		if i == len(sites)-1 {
			sep = ""
		}
		fmt.Printf("  (%s, %s, %v)%s\n", leanStr(s.fn), leanStr(s.callee), s.loop, sep)
	}
	fmt.Println("]")
}

// ---- patternSites ----

type patClass struct {
	quoted bool
	dyn    []string
}

func (a patClass) join(b patClass) patClass {
	return patClass{a.quoted || b.quoted, append(append([]string{}, a.dyn...), b.dyn...)}
}

func (a patClass) String() string {
	switch {
	case len(a.dyn) > 0:
		return "dynamic"
	case a.quoted:
		return "quoted"
	}
	return "literal"
}

// package directory -> names of package-level constants / variables initialised with a string literal (or a constant expression of them)
func stringConsts(t *srcTree) map[string]map[string]bool {
	out := map[string]map[string]bool{}
	for _, sf := range t.files {
		dir := sf.rel[:strings.LastIndex(sf.rel, "/")+1]
		if out[dir] == nil {
			out[dir] = map[string]bool{}
		}
		for _, d := range sf.file.Decls {
			gd, ok := d.(*ast.GenDecl)
			if !ok || gd.Tok != token.CONST {
				continue
			}
			for _, sp := range gd.Specs {
				vs := sp.(*ast.ValueSpec)
				for i, nm := range vs.Names {
					if i < len(vs.Values) {
						if bl, ok := vs.Values[i].(*ast.BasicLit); ok && bl.Kind == token.STRING {
							out[dir][nm.Name] = true
						}
					}
				}
			}
		}
	}
	return out
}

func classifyPat(t *srcTree, fn *srcFunc, consts map[string]bool, e ast.Expr, depth int) patClass {
	dyn := func() patClass { return patClass{dyn: []string{nodeText(t.fset, e)}} }
	if depth > 6 {
		return dyn()
	}
	switch x := e.(type) {
	case *ast.BasicLit:
		return patClass{}
	case *ast.ParenExpr:
		return classifyPat(t, fn, consts, x.X, depth+1)
	case *ast.BinaryExpr:
		if x.Op == token.ADD {
			return classifyPat(t, fn, consts, x.X, depth+1).join(classifyPat(t, fn, consts, x.Y, depth+1))
		}
	case *ast.Ident:
		if consts[x.Name] {
			return patClass{}
		}
		// a local variable assigned exactly once in this function
		var rhs []ast.Expr
		ast.Inspect(fn.decl.Body, func(n ast.Node) bool {
			if as, ok := n.(*ast.AssignStmt); ok {
				for i, l := range as.Lhs {
					if id, ok := l.(*ast.Ident); ok && id.Name == x.Name {
						if len(as.Rhs) == len(as.Lhs) {
							rhs = append(rhs, as.Rhs[i])
						} else {
							rhs = append(rhs, nil)
						}
					}
				}
			}
			return true
		})
		if len(rhs) == 1 && rhs[0] != nil {
			return classifyPat(t, fn, consts, rhs[0], depth+1)
		}
	case *ast.CallExpr:
		path, name, q := fn.f.calleeOf(x)
		switch {
		case q && path == "regexp" && name == "QuoteMeta":
			return patClass{quoted: true}
		case q && path == "fmt" && name == "Sprintf" && len(x.Args) > 0:
			c := classifyPat(t, fn, consts, x.Args[0], depth+1)
			for _, a := range x.Args[1:] {
				c = c.join(classifyPat(t, fn, consts, a, depth+1))
			}
			return c
		case q && (path == "path/filepath" || path == "path") && name == "Join", q && path == "strings" && (name == "ToLower" || name == "ToUpper" || name == "TrimSpace"):
			c := patClass{}
			for _, a := range x.Args {
				c = c.join(classifyPat(t, fn, consts, a, depth+1))
			}
			return c
		}
	}
	return dyn()
}

func emitPatternSites(t *srcTree) {
	consts := stringConsts(t)
	type site struct {
		pkg, fn, callee, class string
		dyn                    []string
	}
	var sites []site
	for _, fn := range t.funcs {
		dir := fn.f.rel[:strings.LastIndex(fn.f.rel, "/")+1]
		ast.Inspect(fn.decl.Body, func(n ast.Node) bool {
			call, ok := n.(*ast.CallExpr)
			if !ok || len(call.Args) == 0 {
				return true
			}
			path, name, q := fn.f.calleeOf(call)
			callee := ""
			switch {
			case q && path == "regexp" && (strings.Contains(name, "Compile") || strings.HasPrefix(name, "Match")):
				callee = "regexp." + name
			case q && (path == "path/filepath" || path == "path") && (name == "Glob" || name == "Match"):
				callee = "filepath." + name
			case !q && name == "Parse" && strings.Contains(nodeText(t.fset, call.Fun), "template."):
				callee = "template.Parse"
			}
			if callee == "" {
				return true
			}
			c := classifyPat(t, fn, consts[dir], call.Args[0], 0)
			sites = append(sites, site{fn.f.pkg, fn.name, callee, c.String(), c.dyn})
			return true
		})
	}
	sort.SliceStable(sites, func(i, j int) bool {
		a, b := sites[i], sites[j]
		if a.pkg != b.pkg {
			return a.pkg < b.pkg
		}
		if a.fn != b.fn {
			return a.fn < b.fn
		}
		return a.callee < b.callee
	})
	fmt.Println("/-- every compile / match of a regular expression, glob pattern or template text (package, function, callee, class of the pattern, non-constant ingredients) -/")
	fmt.Println("def patternSites : List (String × String × String × String × List String) := [")
	for i, s := range sites {
		sep := ","
		if i == len(sites)-1 {
			sep = ""
		}
		var ds []string
		for _, d := range s.dyn {
			ds = append(ds, leanStr(d))
		}
		fmt.Printf("  (%s, %s, %s, %s, [%s])%s\n", leanStr(s.pkg), leanStr(s.fn), leanStr(s.callee), leanStr(s.class), strings.Join(ds, ", "), sep)
	}
	fmt.Println("]")
}
